#!/bin/sh
# Offline setup after a fresh restore: full Coq build (.vo, never -vos), extraction + OCaml
# driver, and a warm Go build cache for grog and the harness packages.
set -e
cd "$(dirname "$0")"
export GOFLAGS=-mod=mod GOPROXY=off
(cd coq && coq_makefile -f _CoqProject -o Makefile >/dev/null 2>&1 && timeout 3000 make -j16 >/dev/null 2>coq-build.log || { tail -50 coq-build.log; exit 1; })
python3 - <<'PY'
import sys, os
sys.path.insert(0, "tools")
import vlib
for d in sorted(os.listdir(vlib.OCAML)):
    if os.path.exists(os.path.join(vlib.OCAML, d, 'driver.ml')):
        vlib.build_driver(d)
try:
    vlib.build_grog()
except Exception as e:
    print("warm-up build of grog failed (checks will retry):", str(e)[-300:])
for h in sorted(os.listdir(vlib.HARNESS)):
    if h != "wire" and os.path.exists(os.path.join(vlib.HARNESS, h, "main.go")):
        try:
            vlib.build_harness(h)
        except Exception as e:
            print("warm-up build of harness %s skipped: %s" % (h, str(e)[-200:].replace("\n", " ")))
PY
echo setup-ok
