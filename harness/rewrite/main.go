// rewrite: instruments internal/locking/workspace_locker.go for the C10 check.
//
//	rewrite <input.go> <output.go> <hook import path>
//
// Reads the CURRENT source, and writes a copy in which
//   - a line `zzhook.Point("<line>:<callee>")` is inserted before every statement whose own
//     expressions (not its nested blocks) make a call ON THE LOCK PATH -- os.Link, os.OpenFile,
//     os.ReadFile, os.Remove or os.Rename with an argument that is the locker's lockFilePath
//     (`wl.lockFilePath`) -- or call processRunning, or (code from before the repair of C10-F1,
//     seeded changes) file.Write on the handle that os.OpenFile of the lock path returned
//     (<line> = line of the statement in the input).  Calls on other paths -- the private
//     temporary file of createLockFile: os.CreateTemp, tmp.Write/Chmod/Close, os.Remove(tmp.Name())
//     -- are NOT model events (Lock.v header) and are left alone,
//   - every `time.After` inside func Lock is replaced by `zzhook.After`,
//   - the hook package is imported as zzhook.
//
// The AST (go/parser, go/ast) is only used to FIND the places; the edits are made on the source
// text (whole inserted lines, one identifier substitution), so everything else is byte-identical
// by construction.  The controller re-checks that: removing the inserted lines and reverting the
// substitution must give back the input.  Prints one line per edit on stdout:
//
//	point <line> <callee> <enclosing func>
//	after <line> <enclosing func>
//	import <line>
//
// Exits 2 when a target call sits where a statement cannot be inserted in front of it.
package main

import (
	"bytes"
	"fmt"
	"go/ast"
	"go/parser"
	"go/printer"
	"go/token"
	"os"
	"sort"
	"strings"
)

// calls that are events whatever their arguments
var targets = map[string]bool{"file.Write": true, "processRunning": true}

// calls that are events when one of their arguments is the lock path
var pathTargets = map[string]bool{
	"os.Link": true, "os.OpenFile": true, "os.ReadFile": true, "os.Remove": true, "os.Rename": true,
}

// the locker's field holding the lock path, as written in the source (x.lockFilePath or lockFilePath)
func isLockPath(fset *token.FileSet, e ast.Expr) bool {
	var b bytes.Buffer
	switch f := e.(type) {
	case *ast.Ident, *ast.SelectorExpr:
		printer.Fprint(&b, fset, f)
	}
	t := b.String()
	return t == "lockFilePath" || strings.HasSuffix(t, ".lockFilePath")
}

func isTarget(fset *token.FileSet, c *ast.CallExpr) (string, bool) {
	name := calleeName(fset, c)
	if targets[name] {
		return name, true
	}
	if pathTargets[name] {
		for _, a := range c.Args {
			if isLockPath(fset, a) {
				return name, true
			}
		}
	}
	return name, false
}

type edit struct {
	off  int    // byte offset in the input
	del  int    // bytes removed
	text string // bytes inserted
}

func calleeName(fset *token.FileSet, c *ast.CallExpr) string {
	var b bytes.Buffer
	switch f := c.Fun.(type) {
	case *ast.Ident, *ast.SelectorExpr:
		printer.Fprint(&b, fset, f)
	}
	return b.String()
}

// ownExprs: the expressions evaluated by the statement itself, excluding nested blocks
func ownExprs(s ast.Stmt) []ast.Node {
	var r []ast.Node
	add := func(n ast.Node) {
		if n != nil && !isNil(n) {
			r = append(r, n)
		}
	}
	switch x := s.(type) {
	case *ast.IfStmt:
		add(x.Init)
		add(x.Cond)
	case *ast.ForStmt:
		add(x.Init)
		add(x.Cond)
		add(x.Post)
	case *ast.RangeStmt:
		add(x.X)
	case *ast.SwitchStmt:
		add(x.Init)
		add(x.Tag)
	case *ast.TypeSwitchStmt:
		add(x.Init)
		add(x.Assign)
	case *ast.SelectStmt, *ast.BlockStmt, *ast.LabeledStmt, *ast.CaseClause, *ast.CommClause:
	default:
		add(s)
	}
	return r
}

func isNil(n ast.Node) bool {
	switch v := n.(type) {
	case ast.Stmt:
		return v == nil
	case ast.Expr:
		return v == nil
	}
	return false
}

type rewriter struct {
	fset  *token.FileSet
	src   []byte
	edits []edit
	log   []string
	fn    string
	bad   []string
}

// target calls in n, not descending into function literals (their bodies are visited as blocks)
func (r *rewriter) callsIn(n ast.Node) []string {
	var found []string
	ast.Inspect(n, func(m ast.Node) bool {
		switch c := m.(type) {
		case *ast.FuncLit:
			r.block(c.Body.List)
			return false
		case *ast.CallExpr:
			if name, ok := isTarget(r.fset, c); ok {
				found = append(found, name)
			}
		}
		return true
	})
	return found
}

func (r *rewriter) lineStart(pos token.Pos) (off int, indent string, ok bool) {
	p := r.fset.Position(pos)
	off = p.Offset
	for off > 0 && r.src[off-1] != '\n' {
		off--
	}
	indent = string(r.src[off:p.Offset])
	return off, indent, strings.TrimSpace(indent) == ""
}

func (r *rewriter) stmt(s ast.Stmt, insertable bool) {
	if s == nil {
		return
	}
	for _, e := range ownExprs(s) {
		for _, name := range r.callsIn(e) {
			line := r.fset.Position(s.Pos()).Line
			off, indent, ok := r.lineStart(s.Pos())
			if !insertable || !ok {
				r.bad = append(r.bad, fmt.Sprintf("line %d: call of %s in a position where no statement can be inserted", line, name))
				continue
			}
			r.edits = append(r.edits, edit{off: off, text: fmt.Sprintf("%szzhook.Point(\"%d:%s\")\n", indent, line, name)})
			r.log = append(r.log, fmt.Sprintf("point %d %s %s", line, name, r.fn))
		}
	}
	switch x := s.(type) {
	case *ast.BlockStmt:
		r.block(x.List)
	case *ast.IfStmt:
		r.block(x.Body.List)
		if x.Else != nil {
			// an `else if` cannot take a statement in front of it
			_, isIf := x.Else.(*ast.IfStmt)
			r.stmt(x.Else, !isIf)
		}
	case *ast.ForStmt:
		r.block(x.Body.List)
	case *ast.RangeStmt:
		r.block(x.Body.List)
	case *ast.SwitchStmt:
		r.block(x.Body.List)
	case *ast.TypeSwitchStmt:
		r.block(x.Body.List)
	case *ast.SelectStmt:
		r.block(x.Body.List)
	case *ast.CaseClause:
		for _, e := range x.List {
			if len(r.callsIn(e)) > 0 {
				r.bad = append(r.bad, fmt.Sprintf("line %d: target call in a case expression", r.fset.Position(e.Pos()).Line))
			}
		}
		r.block(x.Body)
	case *ast.CommClause:
		if x.Comm != nil && len(r.callsIn(x.Comm)) > 0 {
			r.bad = append(r.bad, fmt.Sprintf("line %d: target call in a select communication", r.fset.Position(x.Pos()).Line))
		}
		r.block(x.Body)
	case *ast.LabeledStmt:
		r.stmt(x.Stmt, false)
	}
}

func (r *rewriter) block(list []ast.Stmt) {
	for _, s := range list {
		r.stmt(s, true)
	}
}

func main() {
	if len(os.Args) != 4 {
		fmt.Fprintln(os.Stderr, "usage: rewrite <input.go> <output.go> <hook import path>")
		os.Exit(2)
	}
	in, outPath, hookPath := os.Args[1], os.Args[2], os.Args[3]
	src, err := os.ReadFile(in)
	if err != nil {
		fmt.Fprintln(os.Stderr, err)
		os.Exit(2)
	}
	fset := token.NewFileSet()
	f, err := parser.ParseFile(fset, in, src, parser.ParseComments)
	if err != nil {
		fmt.Fprintln(os.Stderr, err)
		os.Exit(2)
	}
	r := &rewriter{fset: fset, src: src}
	for _, d := range f.Decls {
		fd, ok := d.(*ast.FuncDecl)
		if !ok || fd.Body == nil {
			continue
		}
		r.fn = fd.Name.Name
		r.block(fd.Body.List)
		if fd.Name.Name == "Lock" {
			ast.Inspect(fd.Body, func(n ast.Node) bool {
				if c, ok := n.(*ast.CallExpr); ok && calleeName(fset, c) == "time.After" {
					sel := c.Fun.(*ast.SelectorExpr)
					x := sel.X.(*ast.Ident)
					r.edits = append(r.edits, edit{off: fset.Position(x.Pos()).Offset, del: len(x.Name), text: "zzhook"})
					r.log = append(r.log, fmt.Sprintf("after %d %s", fset.Position(c.Pos()).Line, fd.Name.Name))
				}
				return true
			})
		}
	}
	if len(r.bad) > 0 {
		for _, b := range r.bad {
			fmt.Fprintln(os.Stderr, b)
		}
		os.Exit(2)
	}
	// import: a new line right after the first import spec's line start
	if len(f.Imports) == 0 {
		fmt.Fprintln(os.Stderr, "no import declaration to extend")
		os.Exit(2)
	}
	first := f.Imports[0]
	off, indent, ok := r.lineStart(first.Pos())
	var gd *ast.GenDecl
	for _, d := range f.Decls {
		if g, isG := d.(*ast.GenDecl); isG && g.Tok == token.IMPORT {
			gd = g
			break
		}
	}
	if !ok || gd == nil || !gd.Lparen.IsValid() {
		fmt.Fprintln(os.Stderr, "the first import declaration is not a parenthesised block with one spec per line")
		os.Exit(2)
	}
	r.edits = append(r.edits, edit{off: off, text: fmt.Sprintf("%szzhook %q\n", indent, hookPath)})
	r.log = append(r.log, fmt.Sprintf("import %d", fset.Position(first.Pos()).Line))

	sort.SliceStable(r.edits, func(i, j int) bool { return r.edits[i].off > r.edits[j].off })
	out := append([]byte(nil), src...)
	for _, e := range r.edits {
		out = append(out[:e.off], append([]byte(e.text), out[e.off+e.del:]...)...)
	}
	// the result must still parse
	if _, err := parser.ParseFile(token.NewFileSet(), outPath, out, 0); err != nil {
		fmt.Fprintln(os.Stderr, "instrumented copy does not parse:", err)
		os.Exit(2)
	}
	if err := os.WriteFile(outPath, out, 0644); err != nil {
		fmt.Fprintln(os.Stderr, err)
		os.Exit(2)
	}
	for _, l := range r.log {
		fmt.Println(l)
	}
}
