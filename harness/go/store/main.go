//go:build verif

// Harness for C07 / C08 (engine `store`).
//
//	store ops            line protocol on stdin, one case per line:
//	                       case <faults> <op> <op> ...
//	                     faults: comma separated list consumed by the fake S3 client's Get/Put/Head
//	                       n = none, f = fail after the body was consumed, e = fail before reading the
//	                       body (Put; same as f for Get/Head), 4 = answer "not found"
//	                     ops (fields separated by ':', machine m in {A,B}, mode l = FileSystemCache alone,
//	                     w = RemoteWrapper(FileSystemCache, S3Cache(fake client))):
//	                       b:m:mode:get:path:key   b:m:mode:set:path:key:hexcontent
//	                       b:m:mode:ex:path:key    b:m:mode:del:path:key
//	                       c:m:mode:write:digest:hexcontent   c:m:mode:load:digest   c:m:mode:ex:digest
//	                       r:m:mode:write:key:d1.d2...        r:m:mode:load:key      r:m:mode:has:key
//	                       reset:m                 (new process: fresh caching.Cas objects, empty exists- and stored-memo)
//	                       lbreak:m:path  lfix:m:path   (local fault before any read: <path>'s directory is a regular file)
//	                       lf=...                  (first op, ignored here: the model's list of local Set faults)
//	                     answer: per op  class|A:<obs>|B:<obs>|R:<obs>  joined by tabs, obs = sorted
//	                     path/key=hexcontent (target entries: path/key=r:d1.d2 decoded from the protobuf)
//	store audit <cache dir> <algo>   offline audit of a cache directory, JSON on stdout
package main

import (
	"bytes"
	"context"
	"encoding/hex"
	"encoding/json"
	"errors"
	"fmt"
	"io"
	"io/fs"
	"os"
	"path/filepath"
	"sort"
	"strings"

	"google.golang.org/protobuf/proto"

	"grog/internal/caching"
	"grog/internal/caching/backends"
	"grog/internal/config"
	"grog/internal/hashing"
	"grog/internal/proto/gen"
	w "grog/internal/zz_verif_wire"
)

// ---------------------------------------------------------------- fake S3 client

var errNoSuchKey = errors.New("fake s3: NoSuchKey")
var errInjected = errors.New("fake s3: injected failure")

type fakeS3 struct {
	objects map[string][]byte
	faults  []string
	log     []string
}

func (f *fakeS3) next() string {
	if len(f.faults) == 0 {
		return "n"
	}
	x := f.faults[0]
	f.faults = f.faults[1:]
	return x
}

func (f *fakeS3) GetObject(ctx context.Context, bucket, key string) (io.ReadCloser, error) {
	ft := f.next()
	f.log = append(f.log, "GET "+key+" "+ft)
	switch ft {
	case "f", "e":
		return nil, errInjected
	case "4":
		return nil, errNoSuchKey
	}
	data, ok := f.objects[key]
	if !ok && ft == "m" {
		return nil, errInjected
	}
	if !ok {
		return nil, errNoSuchKey
	}
	if ft == "m" {
		// the request succeeds, the body fails mid-stream (connection reset after the first part of the object)
		cut := len(data) / 2
		if cut > 32768 {
			cut = 32768
		}
		return io.NopCloser(io.MultiReader(bytes.NewReader(append([]byte(nil), data[:cut]...)), failingReader{})), nil
	}
	return io.NopCloser(bytes.NewReader(append([]byte(nil), data...))), nil
}

type failingReader struct{}

func (failingReader) Read(p []byte) (int, error) { return 0, errInjected }

func (f *fakeS3) PutObject(ctx context.Context, bucket, key string, body io.Reader) error {
	ft := f.next()
	f.log = append(f.log, "PUT "+key+" "+ft)
	if ft == "e" {
		return errInjected
	}
	// like AWSS3Adapter.PutObject: the whole body is read before the request is made
	data, err := io.ReadAll(body)
	if err != nil {
		return err
	}
	if ft == "f" || ft == "4" || ft == "m" {
		return errInjected
	}
	f.objects[key] = data
	return nil
}

func (f *fakeS3) DeleteObject(ctx context.Context, bucket, key string) error {
	f.log = append(f.log, "DELETE "+key)
	delete(f.objects, key)
	return nil
}

func (f *fakeS3) ObjectExists(ctx context.Context, bucket, key string) (bool, error) {
	ft := f.next()
	f.log = append(f.log, "HEAD "+key+" "+ft)
	switch ft {
	case "f", "e", "m":
		return false, errInjected
	case "4":
		return false, nil
	}
	_, ok := f.objects[key]
	return ok, nil
}

// ---------------------------------------------------------------- world

type machine struct {
	root    string
	fs      *backends.FileSystemCache
	wrapper *backends.RemoteWrapper
	cas     map[string]*caching.Cas
	tc      map[string]*caching.TargetResultCache
}

type world struct {
	base   string
	fake   *fakeS3
	m      map[string]*machine
	prefix string
}

const wsRoot = "/verif-ws/proj"

var ctx = context.Background()
var caseNo int
var baseDir string

func (m *machine) backend(mode string) backends.CacheBackend {
	if mode == "w" {
		return m.wrapper
	}
	return m.fs
}

func (m *machine) reset() {
	m.cas = map[string]*caching.Cas{"l": caching.NewCas(m.fs), "w": caching.NewCas(m.wrapper)}
	m.tc = map[string]*caching.TargetResultCache{"l": caching.NewTargetResultCache(m.fs), "w": caching.NewTargetResultCache(m.wrapper)}
}

// streamOf hides bytes.Reader's WriterTo so that io.Copy moves the content in 32 KiB chunks, as it does for the files
// grog streams into the cache (a tee'd Set then sees several writes, and a fault can hit between two of them)
func streamOf(data []byte) io.Reader { return struct{ io.Reader }{bytes.NewReader(data)} }

func newWorld(faults []string) (*world, error) {
	caseNo++
	wd := &world{base: filepath.Join(baseDir, fmt.Sprintf("c%d", caseNo)), fake: &fakeS3{objects: map[string][]byte{}, faults: faults}, m: map[string]*machine{}}
	config.Global.WorkspaceRoot = wsRoot
	config.Global.HashAlgorithm = "sha256"
	s3cfg := config.S3CacheConfig{Bucket: "bkt", Prefix: "/pfx/"}
	for _, name := range []string{"A", "B"} {
		root := filepath.Join(wd.base, name)
		config.Global.Root = root
		fsc, err := backends.NewFileSystemCache(ctx)
		if err != nil {
			return nil, err
		}
		s3c, err := backends.NewS3CacheWithClient(ctx, s3cfg, wd.fake)
		if err != nil {
			return nil, err
		}
		m := &machine{root: config.Global.GetWorkspaceCacheDirectory(), fs: fsc, wrapper: backends.NewRemoteWrapper(fsc, s3c)}
		m.reset()
		wd.m[name] = m
	}
	wd.prefix = "pfx/" + config.GetWorkspaceCachePrefix(wsRoot) + "/"
	return wd, nil
}

func showVal(path string, data []byte) string {
	if path == "target" {
		tr := &gen.TargetResult{}
		if err := proto.Unmarshal(data, tr); err != nil {
			return "undecodable"
		}
		return "r:" + strings.Join(resultRefs(tr), ".")
	}
	if len(data) == 0 {
		return "-"
	}
	return hex.EncodeToString(data)
}

// the digests a result references directly (file digests and tree digests, in output order)
func resultRefs(tr *gen.TargetResult) []string {
	var refs []string
	for _, o := range tr.GetOutputs() {
		switch {
		case o.GetFile() != nil:
			refs = append(refs, o.GetFile().GetDigest().GetHash())
		case o.GetDirectory() != nil:
			refs = append(refs, o.GetDirectory().GetTreeDigest().GetHash())
		}
	}
	return refs
}

func obsDir(root string) string {
	var items []string
	filepath.WalkDir(root, func(p string, d fs.DirEntry, err error) error {
		if err != nil || d.IsDir() {
			return nil
		}
		rel, _ := filepath.Rel(root, p)
		parts := strings.SplitN(rel, string(filepath.Separator), 2)
		if len(parts) != 2 {
			return nil
		}
		if strings.HasPrefix(filepath.Base(p), "tmp-") {
			items = append(items, parts[0]+"/TMP")
			return nil
		}
		data, _ := os.ReadFile(p)
		items = append(items, parts[0]+"/"+parts[1]+"="+showVal(parts[0], data))
		return nil
	})
	sort.Strings(items)
	return strings.Join(items, ",")
}

func (wd *world) obsRemote() string {
	var items []string
	for k, v := range wd.fake.objects {
		rel := k
		if strings.HasPrefix(k, wd.prefix) {
			rel = strings.TrimPrefix(k, wd.prefix)
		} else {
			rel = "FOREIGN/" + k
		}
		parts := strings.SplitN(rel, "/", 2)
		if len(parts) != 2 {
			items = append(items, "BAD/"+rel)
			continue
		}
		items = append(items, parts[0]+"/"+parts[1]+"="+showVal(parts[0], v))
	}
	sort.Strings(items)
	return strings.Join(items, ",")
}

func errClass(err error) string {
	if err == nil {
		return "ok"
	}
	if errors.Is(err, os.ErrNotExist) || errors.Is(err, errNoSuchKey) {
		return "miss"
	}
	return "error"
}

func readAll(rc io.ReadCloser, err error) ([]byte, error) {
	if err != nil {
		return nil, err
	}
	defer rc.Close()
	return io.ReadAll(rc)
}

func boolClass(b bool, err error) string {
	if err != nil {
		return "error"
	}
	if b {
		return "true"
	}
	return "false"
}

func (wd *world) doOp(op string) string {
	f := strings.Split(op, ":")
	if f[0] == "reset" {
		wd.m[f[1]].reset()
		return "ok"
	}
	if (f[0] == "lbreak" || f[0] == "lfix") && len(f) == 3 && wd.m[f[1]] != nil {
		// a LOCAL storage fault that hits before anything is read: the directory of <path> in machine m's cache is replaced by
		// a regular file (MkdirAll fails with ENOTDIR) -- only on a path that holds nothing yet; lfix undoes it
		dir := filepath.Join(wd.m[f[1]].root, f[2])
		if f[0] == "lfix" {
			os.Remove(dir)
			return "ok"
		}
		os.Remove(dir) // an empty directory, or nothing
		if err := os.MkdirAll(filepath.Dir(dir), 0755); err != nil {
			return "harness-error"
		}
		if err := os.WriteFile(dir, []byte("not a directory"), 0644); err != nil {
			return "harness-error"
		}
		return "ok"
	}
	if len(f) < 5 {
		return "bad-op"
	}
	m, mode, verb := wd.m[f[1]], f[2], f[3]
	if m == nil {
		return "bad-machine"
	}
	switch f[0] {
	case "b":
		be := m.backend(mode)
		path, key := f[4], f[5]
		switch verb {
		case "get":
			data, err := readAll(be.Get(ctx, path, key))
			if err != nil {
				return errClass(err)
			}
			return "ok=" + showVal(path, data)
		case "set":
			return errClass(be.Set(ctx, path, key, streamOf([]byte(w.Unhex(f[6])))))
		case "ex":
			return boolClass(be.Exists(ctx, path, key))
		case "del":
			return errClass(be.Delete(ctx, path, key))
		}
	case "c":
		cas := m.cas[mode]
		switch verb {
		case "write":
			return errClass(cas.Write(ctx, f[4], streamOf([]byte(w.Unhex(f[5])))))
		case "load":
			data, err := cas.LoadBytes(ctx, f[4])
			if err != nil {
				return errClass(err)
			}
			return "ok=" + showVal("cas", data)
		case "ex":
			return boolClass(cas.Exists(ctx, f[4]))
		}
	case "r":
		tc := m.tc[mode]
		switch verb {
		case "write":
			tr := &gen.TargetResult{ChangeHash: f[4], OutputHash: "oh"}
			if len(f) > 5 && f[5] != "" {
				for i, d := range strings.Split(f[5], ".") {
					tr.Outputs = append(tr.Outputs, &gen.Output{Kind: &gen.Output_File{File: &gen.FileOutput{
						Path: fmt.Sprintf("o%d", i), Digest: &gen.Digest{Hash: d, SizeBytes: 1}}}})
				}
			}
			return errClass(tc.Write(ctx, tr))
		case "load":
			tr, err := tc.Load(ctx, f[4])
			if err != nil {
				return errClass(err)
			}
			return "ok=r:" + strings.Join(resultRefs(tr), ".")
		case "has":
			return boolClass(tc.Has(ctx, f[4]))
		}
	}
	return "bad-op"
}

func doCase(fields []string) string {
	if len(fields) < 2 || fields[0] != "case" {
		return "bad-case"
	}
	var faults []string
	if fields[1] != "" && fields[1] != "-" {
		faults = strings.Split(fields[1], ",")
	}
	wd, err := newWorld(faults)
	if err != nil {
		return "harness-error " + err.Error()
	}
	defer os.RemoveAll(wd.base)
	var out []string
	for _, op := range fields[2:] {
		if strings.HasPrefix(op, "lf=") {
			continue // the model's list of local faults: here they are made to happen (lbreak, a key below an existing entry)
		}
		cls := wd.doOp(op)
		out = append(out, cls+"|A:"+obsDir(wd.m["A"].root)+"|B:"+obsDir(wd.m["B"].root)+"|R:"+wd.obsRemote())
	}
	out = append(out, "calls="+strings.Join(wd.fake.log, ";"))
	return strings.Join(out, "\t")
}

// ---------------------------------------------------------------- audit

type auditResult struct {
	Consistent bool                `json:"consistent"`
	Problems   []string            `json:"problems"`
	Cas        []string            `json:"cas"`
	Targets    map[string][]string `json:"targets"`
	Taint      []string            `json:"taint"`
	Tmp        int                 `json:"tmp"`
	Algo       string              `json:"algo"`
}

func listFiles(dir string) (keys []string, tmp int) {
	filepath.WalkDir(dir, func(p string, d fs.DirEntry, err error) error {
		if err != nil || d.IsDir() {
			return nil
		}
		rel, _ := filepath.Rel(dir, p)
		if strings.HasPrefix(filepath.Base(p), "tmp-") {
			tmp++
			return nil
		}
		keys = append(keys, rel)
		return nil
	})
	sort.Strings(keys)
	return
}

func audit(cacheDir, algo string) auditResult {
	config.Global.HashAlgorithm = algo
	res := auditResult{Problems: []string{}, Cas: []string{}, Targets: map[string][]string{}, Taint: []string{}, Algo: algo}
	casDir := filepath.Join(cacheDir, "cas")
	present := map[string]bool{}
	keys, tmp := listFiles(casDir)
	res.Tmp += tmp
	for _, k := range keys {
		data, err := os.ReadFile(filepath.Join(casDir, k))
		if err != nil {
			res.Problems = append(res.Problems, "cas/"+k+": unreadable: "+err.Error())
			continue
		}
		present[k] = true
		res.Cas = append(res.Cas, k)
		if h := hashing.HashBytes(data); h != k {
			res.Problems = append(res.Problems, fmt.Sprintf("cas/%s: content of %d bytes hashes to %s", k, len(data), h))
		}
	}
	need := func(owner, what, d string) {
		if !present[d] {
			res.Problems = append(res.Problems, fmt.Sprintf("%s references %s %s which is not in cas", owner, what, d))
		}
	}
	tkeys, tmp := listFiles(filepath.Join(cacheDir, "target"))
	res.Tmp += tmp
	for _, k := range tkeys {
		owner := "target/" + k
		data, err := os.ReadFile(filepath.Join(cacheDir, "target", k))
		if err != nil {
			res.Problems = append(res.Problems, owner+": unreadable: "+err.Error())
			continue
		}
		tr := &gen.TargetResult{}
		if err := proto.Unmarshal(data, tr); err != nil {
			res.Problems = append(res.Problems, owner+": does not decode as TargetResult: "+err.Error())
			continue
		}
		if tr.GetChangeHash() != k {
			res.Problems = append(res.Problems, fmt.Sprintf("%s: ChangeHash field is %q", owner, tr.GetChangeHash()))
		}
		refs := []string{}
		for _, o := range tr.GetOutputs() {
			switch {
			case o.GetFile() != nil:
				d := o.GetFile().GetDigest().GetHash()
				refs = append(refs, d)
				need(owner, "file blob", d)
			case o.GetDirectory() != nil:
				td := o.GetDirectory().GetTreeDigest().GetHash()
				refs = append(refs, td)
				need(owner, "tree blob", td)
				if !present[td] {
					continue
				}
				tdata, err := os.ReadFile(filepath.Join(casDir, td))
				if err != nil {
					continue
				}
				tree := &gen.Tree{}
				if err := proto.Unmarshal(tdata, tree); err != nil {
					res.Problems = append(res.Problems, fmt.Sprintf("%s: tree blob %s does not decode: %v", owner, td, err))
					continue
				}
				dirs := append([]*gen.Directory{tree.GetRoot()}, tree.GetChildren()...)
				for _, dir := range dirs {
					for _, fn := range dir.GetFiles() {
						refs = append(refs, fn.GetDigest().GetHash())
						need(owner, "file "+fn.GetName()+" of tree "+td, fn.GetDigest().GetHash())
					}
				}
			}
		}
		res.Targets[k] = refs
	}
	tk, tmp := listFiles(filepath.Join(cacheDir, "taint"))
	res.Tmp += tmp
	res.Taint = append(res.Taint, tk...)
	res.Consistent = len(res.Problems) == 0
	return res
}

func main() {
	if len(os.Args) < 2 {
		fmt.Fprintln(os.Stderr, "usage: store ops | store audit <cache dir> <algo>")
		os.Exit(2)
	}
	switch os.Args[1] {
	case "ops":
		d, err := os.MkdirTemp("", "verif-store-")
		if err != nil {
			panic(err)
		}
		baseDir = d
		defer os.RemoveAll(d)
		w.Loop(doCase)
	case "audit":
		algo := "xxh3"
		if len(os.Args) > 3 {
			algo = os.Args[3]
		}
		r := audit(os.Args[2], algo)
		out, _ := json.Marshal(r)
		fmt.Println(string(out))
		if r.Consistent {
			fmt.Println("consistent")
		} else {
			fmt.Println("inconsistent")
		}
	default:
		os.Exit(2)
	}
}
