//go:build verif

// Harness for C17: drives grog/internal/label on one case per line.
package main

import (
	"fmt"
	"strings"

	"grog/internal/label"
	w "grog/internal/zz_verif_wire"
)

func showLabel(l label.TargetLabel) string {
	return fmt.Sprintf("%s\t%s\t%s", w.Hex(l.Package), w.Hex(l.Name), w.Hex(l.String()))
}

func matchvec(p label.TargetPattern, univ []label.TargetLabel) string {
	var b strings.Builder
	for _, l := range univ {
		if p.Matches(l) {
			b.WriteByte('1')
		} else {
			b.WriteByte('0')
		}
	}
	return b.String()
}

// prefix:target:recursive of a pattern
func triple(p label.TargetPattern) string {
	rec := "0"
	if p.Recursive() {
		rec = "1"
	}
	return w.Hex(p.Prefix()) + ":" + w.Hex(p.Target()) + ":" + rec
}

func partialFlag(p label.TargetPattern) string {
	if p.IsPrefixPartial() {
		return ":partial"
	}
	return ":complete"
}

func main() {
	var univ []label.TargetLabel
	w.Loop(func(f []string) string {
		switch f[0] {
		case "label":
			l, err := label.ParseTargetLabel(w.Unhex(f[1]), w.Unhex(f[2]))
			if err != nil {
				return "err"
			}
			rt := "rt-err"
			if l2, err2 := label.ParseTargetLabel("zz", l.String()); err2 == nil {
				rt = w.Hex(l2.Package) + ":" + w.Hex(l2.Name)
			}
			return "ok\t" + showLabel(l) + "\t" + rt
		case "universe":
			univ = nil
			for _, pr := range w.SplitComma(f[1]) {
				pn := strings.Split(pr, ":")
				univ = append(univ, label.TargetLabel{Package: w.Unhex(pn[0]), Name: w.Unhex(pn[1])})
			}
			return fmt.Sprintf("universe\t%d", len(univ))
		case "pattern":
			cur := w.Unhex(f[1])
			p, err := label.ParseTargetPattern(cur, w.Unhex(f[2]))
			if err != nil {
				return "err"
			}
			pr := p.String()
			re, rp := "reparse-err", "reparse-err"
			if p2, err2 := label.ParseTargetPattern(cur, pr); err2 == nil {
				re = matchvec(p2, univ)
				rp = triple(p2)
			}
			rec := "0"
			if p.Recursive() {
				rec = "1"
			}
			// last field (implementation only, not part of the model's line): what the lenient parser
			// used for shell completion makes of the same input
			pp := label.ParsePartialTargetPattern(cur, w.Unhex(f[2]))
			return fmt.Sprintf("ok\t%s\t%s\t%s\t%s\t%s\t%s\t%s\tpartial=%s", w.Hex(p.Prefix()), w.Hex(p.Target()), rec, w.Hex(pr),
				matchvec(p, univ), re, rp, triple(pp)+partialFlag(pp))
		}
		return "unknown-command " + f[0]
	})
}
