//go:build verif

// Harness for C10: one contender process.
//
//	h_lock lock-contender <root dir>
//
// Points config.Global at <root dir> exactly as internal/locking/workspace_locker_test.go does
// (Root = WorkspaceRoot = root), so that the real NewWorkspaceLocker() computes
// <root>/<workspace prefix>/lockfile; all contenders of one schedule get the same root.
// Then: READY <lock file path> <pid>; Lock(ctx) of the real (instrumented copy of the current)
// WorkspaceLocker -- every call on the lock path (os.Link, os.ReadFile, os.Remove, processRunning) blocks
// on the controller, see harness/go/hook and harness/rewrite; the private temporary file that
// createLockFile writes the PID into is not gated (no model event);
// HELD; waits for the token "unlock"; Unlock(); DONE ok|err; waits for "exit".
// The context passed to Lock is cancellable and its cancel func is registered with the hook: the
// token "cancel" (accepted while the locker waits for its timer) cancels it.  When Lock then returns
// an error: GAVEUP <error>; waits for "exit" (the process stays alive, like after DONE).
package main

import (
	"context"
	"fmt"
	"os"
	"path/filepath"

	"grog/internal/config"
	"grog/internal/console"
	"grog/internal/locking"
	zzhook "grog/internal/zz_verif_hook"
)

func main() {
	if len(os.Args) != 3 || os.Args[1] != "lock-contender" {
		fmt.Fprintln(os.Stderr, "usage: h_lock lock-contender <root dir>")
		os.Exit(2)
	}
	root := os.Args[2]
	config.Global.Root = root
	config.Global.WorkspaceRoot = root
	dir := config.Global.GetWorkspaceRootDir()
	if err := os.MkdirAll(dir, 0755); err != nil {
		zzhook.Send("ERR\tmkdir\t" + err.Error())
		os.Exit(1)
	}
	zzhook.Send(fmt.Sprintf("READY\t%s\t%d", filepath.Join(dir, "lockfile"), os.Getpid()))
	if tok := zzhook.Recv(); zzhook.Enabled() && tok != "start" {
		os.Exit(96)
	}
	base, cancel := context.WithCancel(context.Background())
	zzhook.OnCancel = cancel
	ctx := console.WithLogger(base, console.InitLogger())
	locker := locking.NewWorkspaceLocker()
	if err := locker.Lock(ctx); err != nil {
		if base.Err() != nil {
			zzhook.Send("GAVEUP\t" + err.Error())
			zzhook.Recv()
			return
		}
		zzhook.Send("ERR\tlock\t" + err.Error())
		os.Exit(1)
	}
	zzhook.Send("HELD")
	if tok := zzhook.Recv(); zzhook.Enabled() && tok != "unlock" {
		os.Exit(96)
	}
	if err := locker.Unlock(); err != nil {
		zzhook.Send("DONE\terr\t" + err.Error())
	} else {
		zzhook.Send("DONE\tok")
	}
	zzhook.Recv()
}
