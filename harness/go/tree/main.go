//go:build verif

// Harness for C06 (and the restore part of C04): round-trips generated directory trees and files
// through the REAL output handlers into a real FileSystemCache, restores them into a destination
// that has been put into a chosen prior state, optionally after deleting chosen CAS blobs, under
// a hang detector, and prints recursive listings.
//
//	dir  <algo> <tree> <dest> <faults> [<hex package-relative path of the output, default gen/out>]
//	file <algo> <hexcontent> <octal mode> <dest> <faults>
//
//	<tree>   comma separated pre-order tokens of the entries of the output directory ("-" = empty):
//	           f:<hexname>:<hexcontent>:<octal mode>  d:<hexname>  u  l:<hexname>:<hextarget>  p:<hexname> (FIFO)
//	<dest>   A (absent, parent present) | P (parent directories absent) | F:<hexcontent>:<octal mode>
//	         | D (empty directory) | D,<tree tokens>
//	<faults> "-" | comma list of: T (tree blob) | c<sha256 prefix of a blob's content> | i<index in the
//	         list of cas files sorted by name>: the blob is DELETED; with a leading "m" (mT, mc<sha>, mi<k>) the blob stays
//	         but reading it breaks half way (the backend's reader returns half of the bytes, then an error)
//
// answer: <write: ok|werror|whang|wpanic> TAB <load: ok|error|hang|panic|-> TAB <listing before caching>
//
//	TAB <listing after restore> TAB <cas blobs in name order: T or c<sha16>, '+' = present, '!' = deleted>
//	TAB <detail>
//
// listing: comma separated "<hexrelpath>:f:<x>:<size>:<sha16>" | ":d" | ":l:<hextarget>" | ":o:<mode>";
// the path itself is "-"; "-:absent" when nothing is there.
package main

import (
	"context"
	"crypto/sha256"
	"encoding/hex"
	"flag"
	"fmt"
	"io"
	"os"
	"path/filepath"
	"regexp"
	"runtime"
	"sort"
	"strconv"
	"strings"
	"syscall"
	"time"

	"grog/internal/caching"
	"grog/internal/caching/backends"
	"grog/internal/config"
	"grog/internal/console"
	"grog/internal/label"
	"grog/internal/model"
	"grog/internal/output/handlers"
	"grog/internal/proto/gen"
	w "grog/internal/zz_verif_wire"
)

var base string
var counter int
var hardTimeout = 10 * time.Second
var writeTimeout = 1500 * time.Millisecond
var logCtx context.Context

func sha16(b []byte) string {
	s := sha256.Sum256(b)
	return hex.EncodeToString(s[:])[:16]
}

func mode(s string) os.FileMode {
	m, err := strconv.ParseUint(s, 8, 32)
	if err != nil {
		panic("bad mode " + s)
	}
	return os.FileMode(m)
}

// materialise creates the entries described by toks under dir; returns the remaining tokens.
func materialise(dir string, toks []string) []string {
	for len(toks) > 0 {
		t := toks[0]
		toks = toks[1:]
		if t == "u" {
			return toks
		}
		f := strings.Split(t, ":")
		p := filepath.Join(dir, w.Unhex(f[1]))
		// filepath.Join cleans the path: names are generated without '/', '.' and '..'
		switch f[0] {
		case "f":
			must(os.WriteFile(p, []byte(w.Unhex(f[2])), 0o600))
			must(os.Chmod(p, mode(f[3])))
		case "l":
			must(os.Symlink(w.Unhex(f[2]), p))
		case "p":
			must(syscall.Mkfifo(p, 0o644))
		case "d":
			must(os.Mkdir(p, 0o755))
			toks = materialise(p, toks)
		default:
			panic("bad token " + t)
		}
	}
	return toks
}

func must(err error) {
	if err != nil {
		panic("harness: " + err.Error())
	}
}

func putTree(path string, spec string) {
	must(os.MkdirAll(path, 0o755))
	if spec != "-" && spec != "" {
		materialise(path, strings.Split(spec, ","))
	}
}

func listing(root string) string {
	var res []string
	var walk func(p, rel string)
	walk = func(p, rel string) {
		name := "-"
		if rel != "" {
			name = w.Hex(rel)
		}
		fi, err := os.Lstat(p)
		if err != nil {
			res = append(res, name+":absent")
			return
		}
		switch {
		case fi.Mode()&os.ModeSymlink != 0:
			tg, _ := os.Readlink(p)
			res = append(res, name+":l:"+w.Hex(tg))
		case fi.IsDir():
			res = append(res, name+":d")
			ents, err := os.ReadDir(p)
			if err != nil {
				res = append(res, name+":unreadable")
				return
			}
			for _, e := range ents {
				r := e.Name()
				if rel != "" {
					r = rel + "/" + e.Name()
				}
				walk(p+"/"+e.Name(), r)
			}
		case fi.Mode().IsRegular():
			b, err := os.ReadFile(p)
			if err != nil {
				res = append(res, name+":unreadable")
				return
			}
			x := 0
			if fi.Mode()&0o111 != 0 {
				x = 1
			}
			res = append(res, fmt.Sprintf("%s:f:%d:%d:%s", name, x, len(b), sha16(b)))
		default:
			res = append(res, fmt.Sprintf("%s:o:%s", name, fi.Mode().Type().String()))
		}
	}
	walk(root, "")
	return strings.Join(res, ",")
}

var hdr = regexp.MustCompile(`^goroutine (\d+) \[([^\],]*)`)

type gor struct {
	id    string
	state string
	text  string
}

func goroutines() []gor {
	buf := make([]byte, 1<<20)
	for {
		n := runtime.Stack(buf, true)
		if n < len(buf) {
			buf = buf[:n]
			break
		}
		buf = make([]byte, 2*len(buf))
	}
	var res []gor
	for _, blk := range strings.Split(string(buf), "\n\n") {
		m := hdr.FindStringSubmatch(blk)
		if m != nil {
			res = append(res, gor{m[1], m[2], blk})
		}
	}
	return res
}

// deadlocked: among the goroutines that did not exist before the call, the one running
// DirectoryOutputHandler.Load sits in WaitGroup.Wait and every download goroutine of
// loadDirectoryRecursive sits in a channel send (plain, or a select without a ready case):
// nobody is left who could receive.  (The download goroutines offer their error with a
// non-blocking send, so this is not expected to happen; the detector stays as the oracle.)
func deadlocked(old map[string]bool) bool {
	waiting, senders := false, 0
	for _, g := range goroutines() {
		if old[g.id] {
			continue
		}
		if strings.Contains(g.text, "loadDirectoryRecursive.func1") {
			if g.state != "chan send" && g.state != "select" {
				return false
			}
			senders++
		} else if strings.Contains(g.text, "DirectoryOutputHandler).Load") {
			if g.state != "sync.WaitGroup.Wait" && g.state != "semacquire" {
				return false
			}
			waiting = true
		}
	}
	return waiting && senders > 0
}

// guarded runs f under a panic guard and a hang detector.
func guarded(f func() error, detect bool, limit time.Duration) (string, string) {
	old := map[string]bool{}
	if detect {
		for _, g := range goroutines() {
			old[g.id] = true
		}
	}
	type res struct {
		cls, detail string
	}
	done := make(chan res, 1)
	go func() {
		defer func() {
			if r := recover(); r != nil {
				done <- res{"panic", fmt.Sprint(r)}
			}
		}()
		if err := f(); err != nil {
			done <- res{"error", err.Error()}
		} else {
			done <- res{"ok", ""}
		}
	}()
	start := time.Now()
	confirmed := 0
	for {
		wait := 20 * time.Millisecond
		if !detect {
			wait = limit
		}
		select {
		case r := <-done:
			return r.cls, r.detail
		case <-time.After(wait):
		}
		if detect && deadlocked(old) {
			confirmed++
			if confirmed >= 2 {
				return "hang", "deadlock: Load in WaitGroup.Wait, all download goroutines blocked in chan send"
			}
		} else {
			confirmed = 0
		}
		if time.Since(start) >= limit {
			return "hang", "timeout"
		}
	}
}

type env struct {
	root, ws, casDir string
}

func setup(algo string) env {
	counter++
	root := filepath.Join(base, fmt.Sprintf("c%d", counter))
	e := env{root: root, ws: filepath.Join(root, "ws")}
	must(os.MkdirAll(e.ws, 0o755))
	config.Global = config.WorkspaceConfig{Root: filepath.Join(root, "grogroot"), WorkspaceRoot: e.ws, HashAlgorithm: algo}
	e.casDir = filepath.Join(config.Global.GetWorkspaceCacheDirectory(), "cas")
	return e
}

// readFaults: cas keys whose reader breaks half way (set by applyFaults, cleared by setup)
var readFaults = map[string]bool{}

type faultBackend struct{ backends.CacheBackend }

type halfReader struct {
	data []byte
	pos  int
}

func (h *halfReader) Read(p []byte) (int, error) {
	if h.pos >= len(h.data) {
		return 0, fmt.Errorf("injected read fault after %d bytes", h.pos)
	}
	n := copy(p, h.data[h.pos:])
	h.pos += n
	return n, nil
}
func (h *halfReader) Close() error { return nil }

func (b faultBackend) Get(ctx context.Context, path, key string) (io.ReadCloser, error) {
	r, err := b.CacheBackend.Get(ctx, path, key)
	if err != nil || !readFaults[key] {
		return r, err
	}
	data, _ := io.ReadAll(r)
	r.Close()
	return &halfReader{data: data[:len(data)/2]}, nil
}

func newCas() *caching.Cas {
	backend, err := backends.NewFileSystemCache(logCtx)
	must(err)
	if len(readFaults) == 0 {
		// no wrapper unless a read fault was asked for: a wrapper hides optional interfaces of the real backend
		return caching.NewCas(backend)
	}
	return caching.NewCas(faultBackend{backend})
}

// applyFaults deletes the chosen blobs; returns the description of the cas directory.
func applyFaults(e env, treeDigest string, faults string) string {
	ents, _ := os.ReadDir(e.casDir)
	var names []string
	for _, en := range ents {
		names = append(names, en.Name())
	}
	sort.Strings(names)
	ids := make([]string, len(names))
	for i, n := range names {
		if n == treeDigest {
			ids[i] = "T"
		} else {
			b, _ := os.ReadFile(filepath.Join(e.casDir, n))
			ids[i] = "c" + sha16(b)
		}
	}
	del := map[int]bool{}
	mid := map[int]bool{}
	readFaults = map[string]bool{}
	if faults != "-" && faults != "" {
		for _, f := range strings.Split(faults, ",") {
			if strings.HasPrefix(f, "m") {
				f = f[1:]
				if strings.HasPrefix(f, "i") {
					k, err := strconv.Atoi(f[1:])
					must(err)
					if k < len(names) {
						mid[k] = true
					}
					continue
				}
				for i, id := range ids {
					if id == f || (strings.HasPrefix(f, "c") && strings.HasPrefix(id, f)) {
						mid[i] = true
					}
				}
				continue
			}
			if strings.HasPrefix(f, "i") {
				k, err := strconv.Atoi(f[1:])
				must(err)
				if k < len(names) {
					del[k] = true
				}
				continue
			}
			for i, id := range ids {
				if id == f || (strings.HasPrefix(f, "c") && strings.HasPrefix(id, f)) {
					del[i] = true
				}
			}
		}
	}
	var desc []string
	for i, n := range names {
		if del[i] {
			must(os.Remove(filepath.Join(e.casDir, n)))
			desc = append(desc, ids[i]+"!")
		} else if mid[i] {
			readFaults[n] = true
			desc = append(desc, ids[i]+"~")
		} else {
			desc = append(desc, ids[i]+"+")
		}
	}
	return strings.Join(desc, ",")
}

// setDest puts the path into the requested prior state.  pkgDir is removed for "P".
func setDest(path, pkgDir, dest string) {
	must(os.RemoveAll(pkgDir))
	switch {
	case dest == "P":
	case dest == "A":
		must(os.MkdirAll(filepath.Dir(path), 0o755))
	case dest == "D":
		must(os.MkdirAll(path, 0o755))
	case strings.HasPrefix(dest, "D,"):
		putTree(path, dest[2:])
	case strings.HasPrefix(dest, "F:"):
		f := strings.Split(dest, ":")
		must(os.MkdirAll(filepath.Dir(path), 0o755))
		must(os.WriteFile(path, []byte(w.Unhex(f[1])), 0o600))
		must(os.Chmod(path, mode(f[2])))
	default:
		panic("bad dest " + dest)
	}
}

func doDir(f []string) string {
	algo, tree, dest, faults := f[1], f[2], f[3], f[4]
	rel := "gen/out" // optional 6th field: the output's package-relative path (names with glob metacharacters, spaces, ...)
	if len(f) > 5 && f[5] != "" && f[5] != "-" {
		rel = w.Unhex(f[5])
	}
	e := setup(algo)
	defer os.RemoveAll(e.root)
	pkgDir := filepath.Join(e.ws, "pkg")
	path := filepath.Join(pkgDir, filepath.FromSlash(rel))
	putTree(path, tree)
	before := listing(path)
	target := model.Target{Label: label.TL("pkg", "t"), ChangeHash: "h"}
	output := model.NewOutput("dir", rel)
	var out *gen.Output
	hw := handlers.NewDirectoryOutputHandler(newCas())
	wcls, wdetail := guarded(func() error {
		o, err := hw.Write(logCtx, target, output, nil)
		out = o
		return err
	}, false, writeTimeout)
	if wcls != "ok" {
		return fmt.Sprintf("w%s\t-\t%s\t-\t-\t%s", wcls, before, w.Hex(wdetail))
	}
	setDest(path, pkgDir, dest)
	casDesc := applyFaults(e, out.GetDirectory().GetTreeDigest().GetHash(), faults)
	hl := handlers.NewDirectoryOutputHandler(newCas())
	lcls, ldetail := guarded(func() error { return hl.Load(logCtx, target, out, nil) }, true, hardTimeout)
	after := "-"
	reload := ""
	if lcls == "ok" {
		after = listing(path)
		if faults == "-" || faults == "" {
			// independence of the restored copy (see doFile): append to every regular file in place, remove the tree, restore again
			edited := 0
			filepath.Walk(path, func(q string, info os.FileInfo, err error) error {
				if err == nil && info.Mode().IsRegular() && info.Mode().Perm()&0o200 != 0 {
					if fh, e2 := os.OpenFile(q, os.O_WRONLY|os.O_APPEND, 0); e2 == nil {
						fh.WriteString("#edited-in-place")
						fh.Close()
						edited++
					}
				}
				return nil
			})
			if edited > 0 {
				os.RemoveAll(path)
				h2 := handlers.NewDirectoryOutputHandler(newCas())
				c2, _ := guarded(func() error { return h2.Load(logCtx, target, out, nil) }, true, hardTimeout)
				reload = ";reload=0"
				if c2 == "ok" && listing(path) == after {
					reload = ";reload=1"
				}
			}
		}
	}
	return fmt.Sprintf("ok\t%s\t%s\t%s\t%s\t%s", lcls, before, after, casDesc+reload, w.Hex(ldetail))
}

func doFile(f []string) string {
	algo, content, md, dest, faults := f[1], w.Unhex(f[2]), f[3], f[4], f[5]
	e := setup(algo)
	defer os.RemoveAll(e.root)
	pkgDir := filepath.Join(e.ws, "pkg")
	path := filepath.Join(pkgDir, "gen", "tool")
	must(os.MkdirAll(filepath.Dir(path), 0o755))
	must(os.WriteFile(path, []byte(content), 0o600))
	must(os.Chmod(path, mode(md)))
	before := listing(path)
	target := model.Target{Label: label.TL("pkg", "t"), ChangeHash: "h"}
	output := model.NewOutput("file", "gen/tool")
	var out *gen.Output
	hw := handlers.NewFileOutputHandler(newCas())
	wcls, wdetail := guarded(func() error {
		o, err := hw.Write(logCtx, target, output, nil)
		out = o
		return err
	}, false, writeTimeout)
	if wcls != "ok" {
		return fmt.Sprintf("w%s\t-\t%s\t-\t-\t%s", wcls, before, w.Hex(wdetail))
	}
	flag := "exec_recorded=0"
	if out.GetFile().GetIsExecutable() {
		flag = "exec_recorded=1"
	}
	setDest(path, pkgDir, dest)
	casDesc := applyFaults(e, "", faults)
	hl := handlers.NewFileOutputHandler(newCas())
	lcls, ldetail := guarded(func() error { return hl.Load(logCtx, target, out, nil) }, false, hardTimeout)
	after := "-"
	reload := ""
	if lcls == "ok" {
		after = listing(path)
		// independence of the restored copy: modify it IN PLACE (same inode), remove it, restore again -- the cache must
		// still serve what was cached (a restore that links the workspace file to the cache entry would now serve the edit)
		if faults == "-" || faults == "" {
			if fh, err := os.OpenFile(path, os.O_WRONLY|os.O_APPEND, 0); err == nil {
				fh.WriteString("#edited-in-place")
				fh.Close()
				os.Remove(path)
				h2 := handlers.NewFileOutputHandler(newCas())
				c2, _ := guarded(func() error { return h2.Load(logCtx, target, out, nil) }, false, hardTimeout)
				reload = ";reload=0"
				if c2 == "ok" && listing(path) == after {
					reload = ";reload=1"
				}
			}
		}
	}
	return fmt.Sprintf("ok\t%s\t%s\t%s\t%s\t%s", lcls, before, after, casDesc+";"+flag+reload, w.Hex(ldetail))
}

func main() {
	hard := flag.Int("hard-timeout-ms", 10000, "a Load that has not returned after this long is a hang")
	wr := flag.Int("write-timeout-ms", 1500, "a Write that has not returned after this long is a hang")
	flag.Parse()
	hardTimeout = time.Duration(*hard) * time.Millisecond
	writeTimeout = time.Duration(*wr) * time.Millisecond
	syscall.Umask(0o022)
	var err error
	base, err = os.MkdirTemp("", "grogverif-tree-")
	must(err)
	defer os.RemoveAll(base)
	logCtx = console.WithLogger(context.Background(), console.InitLogger())
	w.Loop(func(f []string) (res string) {
		defer func() {
			if r := recover(); r != nil {
				res = "harness-error\t" + w.Hex(fmt.Sprint(r))
			}
		}()
		switch f[0] {
		case "dir":
			return doDir(f)
		case "file":
			return doFile(f)
		}
		return "unknown-command " + f[0]
	})
}
