//go:build verif

// Harness for C11 (engine `analysis`): feeds one generated graph per line to the real
// model.BuildNodeMapFromPackages, analysis.BuildGraph and analysis.CheckTargetConstraints.
//
//	graph <root> <node> <node> ...      (format: see ocaml/analysis/driver.ml)
//	  -> dup | graph=<ok|missing|self|cycle|conflict|other>\tcons=<class,class|->\t<accept|reject>
//	clean <p> | join <a> <b> | esc <p> | within <path> <dir> | outpath <root> <pkg> <id> | ws <root> <pkg> <rel>
//
// Every node is put into a Package of its own (Path = its package path), so that a label
// declared twice reaches BuildNodeMapFromPackages the way two build files of one directory
// (or a target and an alias of one name) do.  CheckTargetConstraints is called on every node
// map, also when BuildGraph failed (the CLI stops at the first failing stage).
//
// Classification of errors by message keyword (the whole table):
//
//	BuildNodeMapFromPackages  "duplicate target label"            dup
//	BuildGraph                "not found"                         missing
//	                          "self-loop"                         self
//	                          "cycle detected"                    cycle
//	                          "conflicting outputs"               conflict
//	CheckTargetConstraints    "input " ... "is not relative"      input-path
//	                          "points outside the package"        input-path
//	                          "output " ... "is not relative"     output-path
//	                          "points outside the repository"     output-path
//	                          "could not check output"            output-path
//	                          "is a test target but has no command"  test-no-command
//	                          "which is a test target"            deprule
//	                          "which is tagged"                   deprule
package main

import (
	"path/filepath"
	"sort"
	"strings"

	"go.uber.org/zap"
	"go.uber.org/zap/zapcore"

	"grog/internal/analysis"
	"grog/internal/config"
	"grog/internal/console"
	"grog/internal/label"
	"grog/internal/model"
	w "grog/internal/zz_verif_wire"
)

var silent = console.NewFromSugared(zap.NewNop().Sugar(), zapcore.ErrorLevel)

func lab(p, n string) label.TargetLabel {
	return label.TargetLabel{Package: w.Unhex(p), Name: w.Unhex(n)}
}

func pairs(s string) [][2]string {
	var r [][2]string
	for _, e := range w.SplitComma(s) {
		kv := strings.SplitN(e, ":", 2)
		r = append(r, [2]string{kv[0], kv[1]})
	}
	return r
}

func hexlist(s string) []string {
	var r []string
	for _, e := range w.SplitComma(s) {
		r = append(r, w.Unhex(e))
	}
	return r
}

var otypes = map[string]string{"f": "file", "d": "dir", "k": "docker"}

func parseNode(s string) *model.Package {
	f := strings.Split(s, "|")
	pkg := &model.Package{Targets: map[label.TargetLabel]*model.Target{}, Aliases: map[label.TargetLabel]*model.Alias{}}
	switch f[0] {
	case "T":
		t := &model.Target{Label: lab(f[1], f[2]), Inputs: hexlist(f[4]), Tags: hexlist(f[7])}
		for _, d := range pairs(f[3]) {
			t.Dependencies = append(t.Dependencies, lab(d[0], d[1]))
		}
		for _, o := range pairs(f[5]) {
			t.Outputs = append(t.Outputs, model.NewOutput(otypes[o[0]], w.Unhex(o[1])))
		}
		if b := w.Unhex(f[6]); b != "" {
			t.BinOutput = model.NewOutput("file", b)
		}
		if f[8] != "1" {
			t.Command = "true"
		}
		pkg.Path = t.Label.Package
		pkg.Targets[t.Label] = t
	case "A":
		a := &model.Alias{Label: lab(f[1], f[2]), Actual: lab(f[3], f[4])}
		pkg.Path = a.Label.Package
		pkg.Aliases[a.Label] = a
	default:
		panic("bad node " + s)
	}
	return pkg
}

func classifyGraphErr(msg string) string {
	switch {
	case strings.Contains(msg, "not found"):
		return "missing"
	case strings.Contains(msg, "self-loop"):
		return "self"
	case strings.Contains(msg, "cycle detected"):
		return "cycle"
	case strings.Contains(msg, "conflicting outputs"):
		return "conflict"
	}
	return "other"
}

func classifyConstraintErr(msg string) string {
	switch {
	case strings.HasPrefix(msg, "input ") && strings.Contains(msg, "is not relative"):
		return "input-path"
	case strings.Contains(msg, "points outside the package"):
		return "input-path"
	case strings.HasPrefix(msg, "output ") && strings.Contains(msg, "is not relative"):
		return "output-path"
	case strings.Contains(msg, "points outside the repository"), strings.Contains(msg, "could not check output"):
		return "output-path"
	case strings.Contains(msg, "is a test target but has no command"):
		return "test-no-command"
	case strings.Contains(msg, "which is a test target"), strings.Contains(msg, "which is tagged"):
		return "deprule"
	}
	return "other"
}

func doGraph(f []string) string {
	config.Global.WorkspaceRoot = w.Unhex(f[1])
	var pkgs []*model.Package
	for _, n := range f[2:] {
		pkgs = append(pkgs, parseNode(n))
	}
	nodes, err := model.BuildNodeMapFromPackages(pkgs)
	if err != nil {
		if strings.Contains(err.Error(), "duplicate target label") {
			return "dup"
		}
		return "nodemap-other"
	}
	set := map[string]bool{}
	for _, e := range analysis.CheckTargetConstraints(silent, nodes) {
		set[classifyConstraintErr(e.Error())] = true
	}
	g := "ok"
	if _, err := analysis.BuildGraph(nodes); err != nil {
		g = classifyGraphErr(err.Error())
	}
	var cs []string
	for c := range set {
		cs = append(cs, c)
	}
	sort.Strings(cs)
	cons := "-"
	if len(cs) > 0 {
		cons = strings.Join(cs, ",")
	}
	v := "accept"
	if g != "ok" || len(cs) > 0 {
		v = "reject"
	}
	return "graph=" + g + "\tcons=" + cons + "\t" + v
}

func b(x bool) string {
	if x {
		return "1"
	}
	return "0"
}

func main() {
	w.Loop(func(f []string) string {
		switch f[0] {
		case "graph":
			return doGraph(f)
		case "clean":
			return w.Hex(filepath.Clean(w.Unhex(f[1])))
		case "join":
			return w.Hex(filepath.Join(w.Unhex(f[1]), w.Unhex(f[2])))
		case "esc":
			return b(analysis.VerifPathTriesToEscape(w.Unhex(f[1])))
		case "within":
			return b(analysis.VerifPathWithin(w.Unhex(f[1]), w.Unhex(f[2])))
		case "outpath":
			// cleanOutputPath reads the workspace root from the global configuration
			config.Global.WorkspaceRoot = w.Unhex(f[1])
			t := &model.Target{Label: label.TargetLabel{Package: w.Unhex(f[2]), Name: "x"}}
			return w.Hex(analysis.VerifCleanOutputPath(t, w.Unhex(f[3])))
		case "ws":
			ok, err := analysis.VerifIsWithinWorkspace(w.Unhex(f[1]), w.Unhex(f[2]), w.Unhex(f[3]))
			if err != nil {
				return "err"
			}
			return b(ok)
		}
		return "unknown-command " + f[0]
	})
}
