//go:build verif

package analysis

import "grog/internal/model"

// Exported views of unexported helpers, present only in the verification build
// (overlay-injected; this file never exists in /repo).

func VerifPathTriesToEscape(p string) bool { return pathTriesToEscape(p) }
func VerifPathWithin(path, dir string) bool { return pathWithin(path, dir) }
func VerifCleanOutputPath(t *model.Target, id string) string { return cleanOutputPath(t, id) }
func VerifIsWithinWorkspace(root, pkg, rel string) (bool, error) {
	return isWithinWorkspace(root, pkg, rel)
}
