//go:build verif

// Package zz_verif_wire: line protocol shared by all harness binaries
// (tab separated fields, hex encoded, "-" = empty string).
package zz_verif_wire

import (
	"bufio"
	"encoding/hex"
	"os"
	"strings"
)

func Unhex(h string) string {
	if h == "-" {
		return ""
	}
	b, err := hex.DecodeString(h)
	if err != nil {
		panic("bad hex field: " + h)
	}
	return string(b)
}

func Hex(s string) string {
	if s == "" {
		return "-"
	}
	return hex.EncodeToString([]byte(s))
}

func SplitComma(s string) []string {
	if s == "" {
		return nil
	}
	return strings.Split(s, ",")
}

// Loop feeds every stdin line (split on tabs) to f and prints f's answer.
func Loop(f func(fields []string) string) {
	in := bufio.NewReaderSize(os.Stdin, 1<<20)
	out := bufio.NewWriterSize(os.Stdout, 1<<20)
	defer out.Flush()
	for {
		line, err := in.ReadString('\n')
		if len(line) > 0 {
			line = strings.TrimRight(line, "\n")
			out.WriteString(f(strings.Split(line, "\t")))
			out.WriteByte('\n')
		}
		if err != nil {
			return
		}
	}
}
