//go:build verif

package main

import (
	"context"
	"fmt"
	"os"
	"path/filepath"
	"runtime"
	"runtime/debug"
	"strconv"
	"strings"
	"sync"
	"time"

	"grog/internal/caching"
	"grog/internal/config"
	"grog/internal/dag"
	"grog/internal/execution"
	"grog/internal/label"
	"grog/internal/model"
	"grog/internal/output"
	"grog/internal/worker"
	w "grog/internal/zz_verif_wire"
)

const quiesceTimeout = 8 * time.Second

type prepared struct {
	pkg        string
	changeHash string
	digests    map[string]int
}

var (
	ctx      = context.Background()
	store    = &backend{data: map[string][]byte{}}
	byN      = map[int]*prepared{}
	wsRoot   string
	noUpdate = func(worker.StatusUpdate) {}
)

func outName(i int) string    { return fmt.Sprintf("out%d.txt", i) }
func currentOf(i int) string  { return fmt.Sprintf("output %d of the dependency, current version\n", i) }
func staleOf(i int) string    { return fmt.Sprintf("output %d of the dependency, bytes of an older build\n", i) }
func outPath(p *prepared, i int) string { return filepath.Join(wsRoot, p.pkg, outName(i)) }

func depTarget(p *prepared, n int) *model.Target {
	var outs []model.Output
	for i := 0; i < n; i++ {
		outs = append(outs, model.NewOutput("file", outName(i)))
	}
	return &model.Target{Label: label.TL(p.pkg, "d"), Command: "true", Outputs: outs, ChangeHash: p.changeHash, IsSelected: true}
}

// prepare builds the cache entry of the dependency with n outputs through the real registry (ungated): the
// dependency is a cache hit in every case that follows
func prepare(n int) (*prepared, error) {
	if p, ok := byN[n]; ok {
		return p, nil
	}
	p := &prepared{pkg: fmt.Sprintf("dep%d", n), changeHash: fmt.Sprintf("depload-change-hash-%d", n), digests: map[string]int{}}
	if err := os.MkdirAll(filepath.Join(wsRoot, p.pkg), 0755); err != nil {
		return nil, err
	}
	for i := 0; i < n; i++ {
		if err := os.WriteFile(outPath(p, i), []byte(currentOf(i)), 0644); err != nil {
			return nil, err
		}
	}
	d := depTarget(p, n)
	registry := output.NewRegistry(ctx, caching.NewCas(store))
	result, err := registry.WriteOutputs(ctx, d, nil)
	if err != nil {
		return nil, err
	}
	if err := caching.NewTargetResultCache(store).Write(ctx, result); err != nil {
		return nil, err
	}
	for _, o := range result.Outputs {
		idx, err := strconv.Atoi(strings.TrimSuffix(strings.TrimPrefix(o.GetFile().GetPath(), "out"), ".txt"))
		if err != nil {
			return nil, err
		}
		p.digests[o.GetFile().GetDigest().GetHash()] = idx
	}
	byN[n] = p
	return p, nil
}

// see is the dependant's command: it reads every output of the dependency
func see(p *prepared, n int) string {
	var sb strings.Builder
	for i := 0; i < n; i++ {
		data, err := os.ReadFile(outPath(p, i))
		switch {
		case err != nil:
			sb.WriteByte('m')
		case string(data) == currentOf(i):
			sb.WriteByte('c')
		default:
			sb.WriteByte('s')
		}
	}
	if n == 0 {
		return "-"
	}
	return sb.String()
}

func runCase(f []string) string {
	if len(f) < 4 {
		return "error\tarity"
	}
	n, err1 := strconv.Atoi(f[1])
	k, err2 := strconv.Atoi(f[2])
	if err1 != nil || err2 != nil || n < 0 || k < 0 {
		return "error\tnumbers"
	}
	p, err := prepare(n)
	if err != nil {
		return "error\tprepare: " + err.Error()
	}
	// the workspace copies: stale or missing
	for i := 0; i < n; i++ {
		if len(f) > 4 && i < len(f[4]) && f[4][i] == 'm' {
			os.Remove(outPath(p, i))
		} else if err := os.WriteFile(outPath(p, i), []byte(staleOf(i)), 0644); err != nil {
			return "error\t" + err.Error()
		}
	}
	// a new invocation: new targets, graph, registry, executor
	d := depTarget(p, n)
	targets := []model.BuildNode{d}
	var deps []*model.Target
	for t := 0; t < k; t++ {
		name := fmt.Sprintf("t%d", t)
		dt := &model.Target{Label: label.TL(name, name), Command: "true", Dependencies: []label.TargetLabel{d.Label}, IsSelected: true}
		deps = append(deps, dt)
		targets = append(targets, dt)
	}
	graph := dag.NewDirectedGraphFromTargets(targets...)
	for _, dt := range deps {
		if err := graph.AddEdge(d, dt); err != nil {
			return "error\t" + err.Error()
		}
	}
	registry := output.NewRegistry(ctx, caching.NewCas(store))
	ex := execution.NewExecutor(caching.NewTargetResultCache(store), caching.NewTaintCache(store), registry, graph,
		false, false, true, config.LoadOutputsMinimal)
	return schedule(p, n, k, ex, deps, w.SplitComma(f[3]))
}

func schedule(p *prepared, n, k int, ex *execution.Executor, deps []*model.Target, tokens []string) string {
	// no garbage collection while a schedule runs (its helpers are system goroutines that a stack dump does not show);
	// one collection between two cases, when everything is idle
	runtime.GC()
	defer debug.SetGCPercent(debug.SetGCPercent(-1))
	store.mu.Lock()
	store.armed, store.blobs, store.held, store.events = true, p.digests, nil, nil
	store.mu.Unlock()
	var mu sync.Mutex
	started, finished := make([]bool, k), make([]bool, k)
	var windows []string
	verdict := ""
	settle := func(tok string) bool {
		if st := waitQuiescent(store, quiesceTimeout); st != "" {
			verdict = "stuck:" + strings.ReplaceAll(st, " ", "_")
		}
		windows = append(windows, tok+"/"+store.heldIndices()+"/"+store.drainEvents())
		return verdict == ""
	}
	release := func(highest bool) bool {
		h := store.takeHeld(highest)
		if h == nil {
			return settle("g:-")
		}
		close(h.release)
		return settle("g:" + strconv.Itoa(h.idx))
	}
	for _, tok := range tokens {
		ok := true
		switch {
		case tok == "g":
			ok = release(false)
		case tok == "G":
			ok = release(true)
		case strings.HasPrefix(tok, "s"):
			t, err := strconv.Atoi(tok[1:])
			if err != nil || t < 0 || t >= k || started[t] {
				windows = append(windows, tok+"/"+store.heldIndices()+"/refused")
				continue
			}
			started[t] = true
			go func(t int) {
				// what the walk callback does for a target that has to execute in load_outputs=minimal:
				// load the outputs of the direct dependencies, then run the command
				if err := ex.LoadDependencyOutputs(ctx, deps[t], noUpdate); err != nil {
					store.event(fmt.Sprintf("err:%d", t))
				} else {
					store.event(fmt.Sprintf("cmd:%d:%s", t, see(p, n)))
				}
				mu.Lock()
				finished[t] = true
				mu.Unlock()
			}(t)
			ok = settle(tok)
		default:
			return "error\tbad token " + tok
		}
		if !ok {
			break
		}
	}
	// open the gate for whatever is still held, one read per window
	for verdict == "" {
		store.mu.Lock()
		left := len(store.held)
		store.mu.Unlock()
		if left == 0 {
			break
		}
		release(false)
	}
	var pending []string
	mu.Lock()
	for t := 0; t < k; t++ {
		if started[t] && !finished[t] {
			pending = append(pending, strconv.Itoa(t))
		}
	}
	mu.Unlock()
	if verdict == "" {
		verdict = "ok"
		if len(pending) > 0 {
			verdict = "hang"
		}
	}
	// never leave a reader at the gate (only after a stuck verdict): the next case must start clean
	store.mu.Lock()
	for _, h := range store.held {
		close(h.release)
	}
	store.held, store.armed = nil, false
	store.mu.Unlock()
	pend := "-"
	if len(pending) > 0 {
		pend = strings.Join(pending, "+")
	}
	return "trace\t" + strings.Join(append(windows, "end/"+pend+"/"+verdict), ";")
}

func main() {
	if len(os.Args) < 2 {
		fmt.Fprintln(os.Stderr, "usage: depload <scratch dir>")
		os.Exit(2)
	}
	wsRoot = filepath.Join(os.Args[1], "ws")
	if err := os.MkdirAll(wsRoot, 0755); err != nil {
		fmt.Fprintln(os.Stderr, err)
		os.Exit(2)
	}
	config.Global.WorkspaceRoot = wsRoot
	config.Global.Root = filepath.Join(os.Args[1], "root")
	config.Global.DisableProgressTracker = true
	w.Loop(func(f []string) string {
		switch f[0] {
		case "caps":
			return fmt.Sprintf("caps\t%d\t%d", runtime.NumCPU()*2, runtime.NumGoroutine())
		case "case":
			return runCase(f)
		}
		return "error\tunknown command " + f[0]
	})
}
