//go:build verif

package main

import (
	"context"
	"fmt"
	"os"
	"path/filepath"
	"runtime"
	"runtime/debug"
	"sort"
	"strconv"
	"strings"
	"sync"
	"time"

	"grog/internal/caching"
	"grog/internal/config"
	"grog/internal/dag"
	"grog/internal/execution"
	"grog/internal/label"
	"grog/internal/model"
	"grog/internal/output"
	"grog/internal/worker"
	w "grog/internal/zz_verif_wire"
)

const quiesceTimeout = 8 * time.Second

type prepared struct {
	pkg        string
	changeHash string
	digests    map[string]int
	byIndex    map[int]string
}

var (
	ctx      = context.Background()
	store    = &backend{data: map[string][]byte{}}
	byN      = map[int]*prepared{}
	wsRoot   string
	noUpdate = func(worker.StatusUpdate) {}
)

func outName(i int) string    { return fmt.Sprintf("out%d.txt", i) }
func currentOf(i int) string  { return fmt.Sprintf("output %d of the dependency, current version\n", i) }
func staleOf(i int) string    { return fmt.Sprintf("output %d of the dependency, bytes of an older build\n", i) }
func outPath(p *prepared, i int) string { return filepath.Join(wsRoot, p.pkg, outName(i)) }

func depTarget(p *prepared, n int) *model.Target {
	var outs []model.Output
	for i := 0; i < n; i++ {
		outs = append(outs, model.NewOutput("file", outName(i)))
	}
	// the command runs only when a dependant has to re-make the dependency (a blob of the case is lost)
	return &model.Target{Label: label.TL(p.pkg, "d"), Command: depCommand(n), Outputs: outs, ChangeHash: p.changeHash, IsSelected: true}
}

// prepare builds the cache entry of the dependency with n outputs through the real registry (ungated): the
// dependency is a cache hit in every case that follows
func prepare(n int) (*prepared, error) {
	if p, ok := byN[n]; ok {
		return p, nil
	}
	p := &prepared{pkg: fmt.Sprintf("dep%d", n), changeHash: fmt.Sprintf("depload-change-hash-%d", n), digests: map[string]int{}, byIndex: map[int]string{}}
	if err := os.MkdirAll(filepath.Join(wsRoot, p.pkg), 0755); err != nil {
		return nil, err
	}
	for i := 0; i < n; i++ {
		if err := os.WriteFile(outPath(p, i), []byte(currentOf(i)), 0644); err != nil {
			return nil, err
		}
	}
	d := depTarget(p, n)
	registry := output.NewRegistry(ctx, caching.NewCas(store))
	result, err := registry.WriteOutputs(ctx, d, nil)
	if err != nil {
		return nil, err
	}
	// WriteOutputs lists the outputs in the order in which its pool tasks finished; LoadOutputs waits for its restore
	// tasks in the order of that list.  Fixed here to the order of the output indices, so that with the blobs m..n-1 lost
	// the failure surfaces exactly when the outputs 0..m-1 are restored (what DepLoad.auto_step assumes)
	sort.Slice(result.Outputs, func(a, b int) bool {
		return result.Outputs[a].GetFile().GetPath() < result.Outputs[b].GetFile().GetPath()
	})
	if err := caching.NewTargetResultCache(store).Write(ctx, result); err != nil {
		return nil, err
	}
	for _, o := range result.Outputs {
		idx, err := strconv.Atoi(strings.TrimSuffix(strings.TrimPrefix(o.GetFile().GetPath(), "out"), ".txt"))
		if err != nil {
			return nil, err
		}
		p.digests[o.GetFile().GetDigest().GetHash()] = idx
		p.byIndex[idx] = o.GetFile().GetDigest().GetHash()
	}
	byN[n] = p
	return p, nil
}

func classify(i int, data []byte) byte {
	switch string(data) {
	case currentOf(i):
		return 'c'
	case staleOf(i):
		return 's'
	}
	return 't' // neither version: a half-written (or doubly written) file
}

// see is the dependant's command: it reads every output of the dependency
func see(p *prepared, n int) string {
	var sb strings.Builder
	for i := 0; i < n; i++ {
		data, err := os.ReadFile(outPath(p, i))
		switch {
		case err != nil:
			sb.WriteByte('m')
		default:
			sb.WriteByte(classify(i, data))
		}
	}
	if n == 0 {
		return "-"
	}
	return sb.String()
}

func runCase(f []string) string {
	if len(f) < 4 {
		return "error\tarity"
	}
	n, err1 := strconv.Atoi(f[1])
	k, err2 := strconv.Atoi(f[2])
	if err1 != nil || err2 != nil || n < 0 || k < 0 {
		return "error\tnumbers"
	}
	p, err := prepare(n)
	if err != nil {
		return "error\tprepare: " + err.Error()
	}
	lostFrom := n
	if len(f) > 5 && f[5] != "" {
		if lostFrom, err = strconv.Atoi(f[5]); err != nil || lostFrom < 0 {
			return "error\tlost blobs"
		}
	}
	resultFails := len(f) > 6 && f[6] == "1"
	// the cache as prepared, but for the lost blobs; put back when the case is over (a re-run writes to it)
	store.mu.Lock()
	saved := make(map[string][]byte, len(store.data))
	for key, v := range store.data {
		saved[key] = v
	}
	for i := lostFrom; i < n; i++ {
		delete(store.data, "cas/"+p.byIndex[i])
	}
	store.mu.Unlock()
	defer func() {
		store.mu.Lock()
		store.data = saved
		store.mu.Unlock()
	}()
	depRuns.reset()
	// the workspace copies: stale or missing
	for i := 0; i < n; i++ {
		if len(f) > 4 && i < len(f[4]) && f[4][i] == 'm' {
			os.Remove(outPath(p, i))
		} else if err := os.WriteFile(outPath(p, i), []byte(staleOf(i)), 0644); err != nil {
			return "error\t" + err.Error()
		}
	}
	// a new invocation: new targets, graph, registry, executor
	d := depTarget(p, n)
	targets := []model.BuildNode{d}
	var deps []*model.Target
	for t := 0; t < k; t++ {
		name := fmt.Sprintf("t%d", t)
		dt := &model.Target{Label: label.TL(name, name), Command: "true", Dependencies: []label.TargetLabel{d.Label}, IsSelected: true}
		deps = append(deps, dt)
		targets = append(targets, dt)
	}
	graph := dag.NewDirectedGraphFromTargets(targets...)
	for _, dt := range deps {
		if err := graph.AddEdge(d, dt); err != nil {
			return "error\t" + err.Error()
		}
	}
	registry := output.NewRegistry(ctx, caching.NewCas(store))
	ex := execution.NewExecutor(caching.NewTargetResultCache(store), caching.NewTaintCache(store), registry, graph,
		false, false, true, config.LoadOutputsMinimal)
	return schedule(p, n, k, ex, deps, w.SplitComma(f[3]), resultFails)
}

func schedule(p *prepared, n, k int, ex *execution.Executor, deps []*model.Target, tokens []string, resultFails bool) string {
	// no garbage collection while a schedule runs (its helpers are system goroutines that a stack dump does not show);
	// one collection between two cases, when everything is idle
	runtime.GC()
	defer debug.SetGCPercent(debug.SetGCPercent(-1))
	store.mu.Lock()
	store.armed, store.blobs, store.held, store.events, store.failTarget = true, p.digests, nil, nil, ""
	if resultFails {
		store.failTarget = p.changeHash
	}
	store.mu.Unlock()
	var mu sync.Mutex
	started, finished := make([]bool, k), make([]bool, k)
	var windows []string
	verdict := ""
	reruns := 0
	settle := func(tok string) bool {
		if st := waitQuiescent(store, quiesceTimeout); st != "" {
			verdict = "stuck:" + strings.ReplaceAll(st, " ", "_")
		}
		_, waiting, _ := depRuns.view()
		events := store.drainEvents()
		for _, e := range depRuns.newEvents() {
			if e == "run" {
				reruns++
			}
			if events == "-" {
				events = e
			} else {
				events += "," + e
			}
		}
		windows = append(windows, tok+"/"+store.heldIndices()+"/"+strconv.Itoa(len(waiting))+"/"+events)
		return verdict == ""
	}
	release := func(highest bool) bool {
		h := store.takeHeld(highest)
		if h == nil {
			return settle("g:-")
		}
		close(h.release)
		return settle("g:" + strconv.Itoa(h.idx))
	}
	letGo := func() bool {
		seq := depRuns.release()
		if seq < 0 {
			return settle("r:-")
		}
		return settle("r:" + strconv.Itoa(seq))
	}
	for _, tok := range tokens {
		ok := true
		switch {
		case tok == "g":
			ok = release(false)
		case tok == "G":
			ok = release(true)
		case tok == "r":
			ok = letGo()
		case strings.HasPrefix(tok, "s"):
			t, err := strconv.Atoi(tok[1:])
			if err != nil || t < 0 || t >= k || started[t] {
				windows = append(windows, tok+"/"+store.heldIndices()+"/0/refused")
				continue
			}
			started[t] = true
			go func(t int) {
				// what the walk callback does for a target that has to execute in load_outputs=minimal:
				// load the outputs of the direct dependencies, then run the command
				if err := ex.LoadDependencyOutputs(ctx, deps[t], noUpdate); err != nil {
					store.event(fmt.Sprintf("err:%d", t))
				} else {
					store.event(fmt.Sprintf("cmd:%d:%s", t, see(p, n)))
				}
				mu.Lock()
				finished[t] = true
				mu.Unlock()
			}(t)
			ok = settle(tok)
		default:
			return "error\tbad token " + tok
		}
		if !ok {
			break
		}
	}
	// open the gates for whatever still waits, one per window: held reads first, then runs of the dependency's command
	for verdict == "" {
		store.mu.Lock()
		left := len(store.held)
		store.mu.Unlock()
		_, waiting, _ := depRuns.view()
		if left > 0 {
			release(false)
		} else if len(waiting) > 0 {
			letGo()
		} else {
			break
		}
	}
	var pending []string
	mu.Lock()
	for t := 0; t < k; t++ {
		if started[t] && !finished[t] {
			pending = append(pending, strconv.Itoa(t))
		}
	}
	mu.Unlock()
	if verdict == "" {
		verdict = "ok"
		if len(pending) > 0 {
			verdict = "hang"
		}
	}
	// never leave a reader or a command at its gate (only after a stuck verdict): the next case must start clean
	store.mu.Lock()
	for _, h := range store.held {
		close(h.release)
	}
	store.held, store.armed, store.failTarget = nil, false, ""
	store.mu.Unlock()
	for depRuns.release() >= 0 {
	}
	pend := "-"
	if len(pending) > 0 {
		pend = strings.Join(pending, "+")
	}
	return "trace\t" + strings.Join(append(windows, "end/"+pend+"/"+verdict+"/"+cachedBytes(p, n, reruns)), ";")
}

// cachedBytes: what the cache holds for the dependency's result after a re-run (the bytes WriteOutputs read)
func cachedBytes(p *prepared, n, reruns int) string {
	if reruns == 0 || n == 0 {
		return "-"
	}
	result, err := caching.NewTargetResultCache(store).Load(ctx, p.changeHash)
	if err != nil || result == nil {
		return strings.Repeat("m", n)
	}
	classes := []byte(strings.Repeat("m", n))
	for _, o := range result.Outputs {
		idx, err := strconv.Atoi(strings.TrimSuffix(strings.TrimPrefix(o.GetFile().GetPath(), "out"), ".txt"))
		if err != nil || idx < 0 || idx >= n {
			continue
		}
		store.mu.Lock()
		data, ok := store.data["cas/"+o.GetFile().GetDigest().GetHash()]
		store.mu.Unlock()
		if ok {
			classes[idx] = classify(idx, data)
		}
	}
	return string(classes)
}

func main() {
	if len(os.Args) < 2 {
		fmt.Fprintln(os.Stderr, "usage: depload <scratch dir>")
		os.Exit(2)
	}
	wsRoot = filepath.Join(os.Args[1], "ws")
	if err := os.MkdirAll(wsRoot, 0755); err != nil {
		fmt.Fprintln(os.Stderr, err)
		os.Exit(2)
	}
	config.Global.WorkspaceRoot = wsRoot
	config.Global.Root = filepath.Join(os.Args[1], "root")
	config.Global.DisableProgressTracker = true
	if err := setupRuns(os.Args[1]); err != nil {
		fmt.Fprintln(os.Stderr, err)
		os.Exit(2)
	}
	w.Loop(func(f []string) string {
		switch f[0] {
		case "caps":
			return fmt.Sprintf("caps\t%d\t%d", runtime.NumCPU()*2, runtime.NumGoroutine())
		case "case":
			return runCase(f)
		}
		return "error\tunknown command " + f[0]
	})
}
