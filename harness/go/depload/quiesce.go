//go:build verif

package main

import (
	"runtime"
	"strings"
	"time"
)

// Goroutine wait reasons (runtime/traceback) that mean "blocked until another goroutine acts".  Everything else
// (running, runnable, syscall, sleep, IO wait, ...) counts as still working.  Plain "semacquire" is NOT in the list:
// with the toolchain of /repo (go >= 1.24) every sync primitive has a reason of its own, what is left are the
// runtime's own semaphores (a goroutine that wants to start a GC cycle waits for worldsema, held by a system
// goroutine that a stack dump does not show, or by this very dump) -- such a goroutine continues by itself.
var blockedStates = []string{
	"chan receive", "chan send", "select", "sync.Mutex.Lock", "sync.RWMutex.RLock", "sync.RWMutex.Lock",
	"sync.Cond.Wait", "sync.WaitGroup.Wait",
}

// busyState returns "" when every goroutine but the caller is blocked, else the state of one that is not.
// Goroutines of os/exec that serve a run of the dependency's command (the executor's cmd.Wait in a wait syscall, the
// copier of the command's output in IO wait) are blocked exactly when that run sits at its gate: every run whose process
// exists waits at its gate, and there are as many goroutines inside cmd.Wait as such runs (one more = a Wait that is
// about to return, or a command that has not logged its start yet).
func busyState(buf []byte) string {
	n := runtime.Stack(buf, true)
	blocks := strings.Split(string(buf[:n]), "\n\n")
	waiters := 0
	for i, blk := range blocks {
		if i == 0 {
			continue // the caller
		}
		if strings.Contains(blk, "os/exec.(*Cmd).") && !strings.Contains(blk, "os/exec.(*Cmd).Run(") {
			continue // watchCtx / copier goroutines of a command: they follow the command
		}
		if strings.Contains(blk, "os/exec.(*Cmd).Run(") && strings.Contains(blk, "os/exec.(*Cmd).Wait(") {
			waiters++
			continue
		}
		open := strings.IndexByte(blk, '[')
		closeAt := strings.IndexByte(blk, ']')
		if !strings.HasPrefix(blk, "goroutine ") || open < 0 || closeAt < open {
			continue
		}
		state := blk[open+1 : closeAt]
		if c := strings.IndexByte(state, ','); c >= 0 {
			state = state[:c] // ", 2 minutes", ", locked to thread"
		}
		ok := false
		for _, s := range blockedStates {
			if state == s || strings.HasPrefix(state, s+" (") {
				ok = true
				break
			}
		}
		if !ok {
			return state
		}
	}
	live, waiting, _ := depRuns.view()
	if live != len(waiting) {
		return "command of the dependency running"
	}
	if waiters != len(waiting) {
		return "command of the dependency starting or ending"
	}
	return ""
}

var stackBuf = make([]byte, 4<<20)

// waitQuiescent returns "" once two consecutive looks, with a yield in between, find every other goroutine
// blocked and no new event recorded; after the timeout it returns the state that kept it waiting.
func waitQuiescent(b *backend, timeout time.Duration) string {
	deadline := time.Now().Add(timeout)
	calm := 0
	lastEvents := -1
	last := ""
	for {
		runtime.Gosched()
		st := busyState(stackBuf)
		b.mu.Lock()
		ne := len(b.events) + 1000*len(b.held)
		b.mu.Unlock()
		_, waiting, lines := depRuns.view()
		ne += 1000000*len(waiting) + 100000000*lines
		if st == "" && ne == lastEvents {
			calm++
			if calm >= 2 {
				return ""
			}
		} else {
			calm = 0
		}
		if st != "" {
			last = st
		}
		lastEvents = ne
		if time.Now().After(deadline) {
			if last == "" {
				last = "events"
			}
			return last
		}
		if calm == 0 {
			time.Sleep(20 * time.Microsecond)
		}
	}
}
