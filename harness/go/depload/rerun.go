//go:build verif

package main

import (
	"fmt"
	"os"
	"path/filepath"
	"strconv"
	"strings"
	"sync"
	"syscall"
	"time"
)

// The dependency's own command, run by the real executor (sh -c) when a dependant finds the dependency unrestorable.
// It appends "start <pid>" to a log, half-writes every output (a reader now sees a torn file), creates a FIFO of its own
// and blocks reading it (the gate), then writes every output completely and appends "end <pid>".
var (
	runLog  string // DEPLOAD_LOG
	gateDir string // DEPLOAD_GATES: a run waits on gate.<pid> in here
)

func tornOf(i int) string { return currentOf(i)[:20] }

func depCommand(n int) string {
	var sb strings.Builder
	sb.WriteString("echo \"start $$\" >> \"$DEPLOAD_LOG\"\n")
	for i := 0; i < n; i++ {
		fmt.Fprintf(&sb, "printf '%%s' '%s' > %s\n", tornOf(i), outName(i))
	}
	sb.WriteString("mkfifo \"$DEPLOAD_GATES/gate.$$\"\ncat \"$DEPLOAD_GATES/gate.$$\" > /dev/null\nrm -f \"$DEPLOAD_GATES/gate.$$\"\n")
	for i := 0; i < n; i++ {
		fmt.Fprintf(&sb, "printf '%%s\\n' '%s' > %s\n", strings.TrimSuffix(currentOf(i), "\n"), outName(i))
	}
	sb.WriteString("echo \"end $$\" >> \"$DEPLOAD_LOG\"\n")
	return sb.String()
}

func setupRuns(scratch string) error {
	runLog = filepath.Join(scratch, "runs.log")
	gateDir = filepath.Join(scratch, "gates")
	if err := os.MkdirAll(gateDir, 0755); err != nil {
		return err
	}
	os.Setenv("DEPLOAD_LOG", runLog)
	os.Setenv("DEPLOAD_GATES", gateDir)
	return os.WriteFile(runLog, nil, 0644)
}

// runs of the dependency's command in the case being run
type runTracker struct {
	mu       sync.Mutex
	released map[int]bool
	reported int // lines of the log already turned into events
}

var depRuns = &runTracker{released: map[int]bool{}}

func (r *runTracker) reset() {
	r.mu.Lock()
	r.released, r.reported = map[int]bool{}, 0
	r.mu.Unlock()
	os.WriteFile(runLog, nil, 0644)
}

func logLines() []string {
	data, _ := os.ReadFile(runLog)
	var res []string
	for _, l := range strings.Split(string(data), "\n") {
		if f := strings.Fields(l); len(f) == 2 { // a line is written by one echo: complete or not there yet
			res = append(res, l)
		}
	}
	return res
}

func gatePath(pid int) string { return filepath.Join(gateDir, "gate."+strconv.Itoa(pid)) }

// view: (runs whose process still exists, pids that wait at their gate in the order of their start, lines of the log)
func (r *runTracker) view() (live int, waiting []int, lines int) {
	r.mu.Lock()
	defer r.mu.Unlock()
	ls := logLines()
	for _, l := range ls {
		f := strings.Fields(l)
		pid, err := strconv.Atoi(f[1])
		if f[0] != "start" || err != nil {
			continue
		}
		if _, err := os.Stat("/proc/" + f[1]); err != nil {
			continue // reaped by the executor's Wait
		}
		live++
		if _, err := os.Stat(gatePath(pid)); err == nil && !r.released[pid] {
			waiting = append(waiting, pid)
		}
	}
	return live, waiting, len(ls)
}

// release lets the oldest waiting run go on; -1 = none was waiting.  The answer is its number (order of start).
func (r *runTracker) release() int {
	_, waiting, _ := r.view()
	if len(waiting) == 0 {
		return -1
	}
	pid := waiting[0]
	r.mu.Lock()
	r.released[pid] = true
	r.mu.Unlock()
	// the FIFO can be opened for writing once the run's cat has opened it for reading (ENXIO before); closing it ends the cat
	for deadline := time.Now().Add(quiesceTimeout); time.Now().Before(deadline); time.Sleep(50 * time.Microsecond) {
		if fd, err := syscall.Open(gatePath(pid), syscall.O_WRONLY|syscall.O_NONBLOCK, 0); err == nil {
			syscall.Close(fd)
			break
		}
	}
	seq := 0
	for _, l := range logLines() {
		f := strings.Fields(l)
		if f[0] == "start" {
			if f[1] == strconv.Itoa(pid) {
				return seq
			}
			seq++
		}
	}
	return seq
}

// newEvents: "run" / "ran" for the start / end lines that appeared since the last call
func (r *runTracker) newEvents() []string {
	r.mu.Lock()
	defer r.mu.Unlock()
	ls := logLines()
	var ev []string
	for _, l := range ls[r.reported:] {
		if strings.HasPrefix(l, "start") {
			ev = append(ev, "run")
		} else {
			ev = append(ev, "ran")
		}
	}
	r.reported = len(ls)
	return ev
}
