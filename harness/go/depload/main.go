//go:build verif

// Harness for C15, engine `depload`: concurrent loading of ONE dependency's outputs by SEVERAL dependants in
// load_outputs=minimal (model: coq/theories/DepLoad.v).
//
// It drives the REAL execution.Executor.LoadDependencyOutputs / output.Registry.LoadOutputs / file handler / CAS in
// process, on an in-memory cache backend whose CAS reads are held at a gate that the schedule opens one read at a
// time.  Commands are Go closures that read the dependency's files.
//
//	depload <scratch dir>      line protocol on stdin, one case per line (fields separated by tabs):
//	    case <n outputs> <k dependants> <schedule> [<init>] [<m>] [<rf>]
//	  schedule = comma separated tokens
//	    s<t>  dependant t is handed to a worker: LoadDependencyOutputs, then its command
//	    g     release ONE held blob read: the one of the lowest output index   (G: the highest)
//	    r     the oldest run of the dependency's command that waits at its gate goes on
//	  init = n characters, s = the workspace copy of output i is stale (bytes of another version), m = missing
//	         (default: all stale)
//	  m    = the blobs of the outputs m, ..., n-1 are LOST from the cache (default n: none).  A dependant that finds the
//	         dependency unrestorable re-runs it: the dependency has a real command (run by the executor through sh)
//	         that half-writes every output, waits at a gate (a FIFO of its own), then writes every output completely
//	  rf   = 1: every read of the dependency's target RESULT (not of its blobs) fails while the schedule runs -- the result
//	         vanished or the backend errs between the dependency's own cache check and the dependants' lookups (default 0).
//	         The dependency is handed to the dependants as "cache hit, not loaded" as always; a dependant that cannot read
//	         the result re-runs the dependency at once (same command as above)
//	  After every token the harness waits until every goroutine is blocked and every running command of the dependency
//	  sits at its gate (quiescence, read off the goroutine states of the runtime and /proc: no timing).  After the last
//	  token every remaining held read / waiting command is released, one window each.
//	  answer: windows joined by ';', a window = <token>/<held>/<gate>/<events>
//	    token   s<t> | g:<i> (the read of blob i was released) | g:- (nothing was held) | r:<j> (the j-th run of the
//	            dependency's command was let go) | r:- (no run was waiting)
//	    held    output indices whose blob read is held at the gate when the window ends, joined by '+', or '-'
//	    gate    number of runs of the dependency's command that wait at their gate when the window ends
//	    events  in order of occurrence, joined by ',' (or '-'):
//	            tget (a target result was read), tfail (the read of the dependency's target result failed: rf),
//	            get:<i> (a read of blob i reached the backend), lost:<i> (a read of the
//	            lost blob i failed), cmd:<t>:<c|s|m|t per output> (the command of t ran and saw current | stale | missing |
//	            torn), err:<t> (load failed), run (a run of the dependency's command started), ran (one ended)
//	  then ';end/<started dependants whose command has not run, joined by '+', or '-'>/<ok|hang|stuck:<goroutine state>>/<cached>'
//	    hang   = quiescent, nothing held, no run waiting, a started dependant never ran its command (deadlock)
//	    stuck  = no quiescence within the timeout
//	    cached = c|s|m|t per output: the bytes the cache holds for the dependency's result after a re-run, '-' = no re-run
//	  A line "caps" is answered with "caps\t<size of the registry's restore pool>".
package main

import (
	"bytes"
	"context"
	"errors"
	"io"
	"os"
	"sort"
	"strconv"
	"strings"
	"sync"
)

// ---------------------------------------------------------------- gated in-memory backend
type heldRead struct {
	idx     int
	release chan struct{}
}

var errResultUnreadable = errors.New("depload: the target result cannot be read (injected fault)")

type backend struct {
	mu         sync.Mutex
	data       map[string][]byte
	armed      bool
	failTarget string         // while armed: every Get of this key under "target" fails ("" = none)
	blobs      map[string]int // digest -> output index (of the case being run)
	held       []*heldRead
	events     []string
}

func (b *backend) TypeName() string { return "depload" }

func (b *backend) event(e string) {
	b.mu.Lock()
	b.events = append(b.events, e)
	b.mu.Unlock()
}

func (b *backend) Get(_ context.Context, path, key string) (io.ReadCloser, error) {
	b.mu.Lock()
	if b.armed && path == "target" && b.failTarget != "" && key == b.failTarget {
		b.events = append(b.events, "tfail")
		b.mu.Unlock()
		return nil, errResultUnreadable
	}
	content, ok := b.data[path+"/"+key]
	if !ok {
		if idx, known := b.blobs[key]; b.armed && path == "cas" && known {
			b.events = append(b.events, "lost:"+strconv.Itoa(idx))
		}
		b.mu.Unlock()
		return nil, os.ErrNotExist
	}
	var h *heldRead
	if b.armed {
		if path == "cas" {
			idx, known := b.blobs[key]
			if !known {
				idx = -1
			}
			b.events = append(b.events, "get:"+strconv.Itoa(idx))
			h = &heldRead{idx: idx, release: make(chan struct{})}
			b.held = append(b.held, h)
		} else {
			b.events = append(b.events, "tget")
		}
	}
	b.mu.Unlock()
	if h != nil {
		<-h.release
	}
	return io.NopCloser(bytes.NewReader(content)), nil
}

func (b *backend) Set(_ context.Context, path, key string, content io.Reader) error {
	data, err := io.ReadAll(content)
	if err != nil {
		return err
	}
	b.mu.Lock()
	b.data[path+"/"+key] = data
	b.mu.Unlock()
	return nil
}

func (b *backend) Delete(_ context.Context, path, key string) error {
	b.mu.Lock()
	delete(b.data, path+"/"+key)
	b.mu.Unlock()
	return nil
}

func (b *backend) Exists(_ context.Context, path, key string) (bool, error) {
	b.mu.Lock()
	_, ok := b.data[path+"/"+key]
	b.mu.Unlock()
	return ok, nil
}

// takeHeld removes and returns the held read of the lowest (highest) output index
func (b *backend) takeHeld(highest bool) *heldRead {
	b.mu.Lock()
	defer b.mu.Unlock()
	if len(b.held) == 0 {
		return nil
	}
	best := 0
	for i, h := range b.held {
		if (!highest && h.idx < b.held[best].idx) || (highest && h.idx > b.held[best].idx) {
			best = i
		}
	}
	h := b.held[best]
	b.held = append(b.held[:best], b.held[best+1:]...)
	return h
}

func (b *backend) heldIndices() string {
	b.mu.Lock()
	defer b.mu.Unlock()
	if len(b.held) == 0 {
		return "-"
	}
	var xs []int
	for _, h := range b.held {
		xs = append(xs, h.idx)
	}
	sort.Ints(xs)
	var ss []string
	for _, x := range xs {
		ss = append(ss, strconv.Itoa(x))
	}
	return strings.Join(ss, "+")
}

func (b *backend) drainEvents() string {
	b.mu.Lock()
	defer b.mu.Unlock()
	if len(b.events) == 0 {
		return "-"
	}
	s := strings.Join(b.events, ",")
	b.events = nil
	return s
}
