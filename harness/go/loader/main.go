//go:build verif

// Harness for C16: drives the real BUILD loaders of grog/internal/loading, one case per stdin
// line (tab separated fields, strings hex encoded, "-" = empty), one observation per line.
//
//	scanmk   <content> [<maxlen>]           real Makefile annotation parser on the bytes (optional bufio token limit)
//	scansh   <file name> <content> [<maxlen>]   real script annotation parser
//	yamlann  mk|sh <annotation block>       yaml.Unmarshal into the annotation struct (oracle for the model)
//	glob     <dir> <pattern>                doublestar.Glob(os.DirFS(dir), pattern, WithFilesOnly()) (oracle for the model)
//	enrich   <ws root> <pkg path> <PackageDTO as JSON>      getEnrichedPackage
//	loadfile <ws root> <abs file> <file name>               LoadIfMatched + GetPackagePath + getEnrichedPackage (the worker body of load.go)
//	nilcheck <abs file> <file name>                         LoadIfMatched only: ok <nil entries in Targets> <nil entries in Aliases> | none
//	load     <ws root> <num_workers>                        loading.LoadPackages (+ model.BuildNodeMapFromPackages verdict)
//	merge    <ws root> <JSON [[pkg path, PackageDTO], ...]> getEnrichedPackage per fragment, merged in the given order with mergePackages as load.go does
//
// Every call runs in its own goroutine under recover() with a per-case timeout
// (VERIF_CASE_TIMEOUT_MS, default 5000): answers start with ok | nomatch | error | panic | hang.
// A panic in a goroutine started by the code under test (LoadPackages workers) cannot be
// recovered here: it kills this process, and tools/c16.py observes that (missing answer line,
// "panic:" on stderr) and restarts the harness after the offending case.
//
// Dumps are JSON with every user string hex encoded, lists in the canonical order of the
// check (targets/aliases by name, resolved inputs sorted, map entries sorted by key).
package main

import (
	"bufio"
	"context"
	"encoding/json"
	"fmt"
	"os"
	"path/filepath"
	"sort"
	"strconv"
	"strings"
	"time"

	"github.com/bmatcuk/doublestar/v4"
	"go.uber.org/zap"
	"go.uber.org/zap/zapcore"

	"grog/internal/config"
	"grog/internal/console"
	"grog/internal/label"
	"grog/internal/loading"
	"grog/internal/model"
	w "grog/internal/zz_verif_wire"
)

var logger = console.NewFromSugared(zap.NewNop().Sugar(), zapcore.ErrorLevel)
var caseTimeout = 5000 * time.Millisecond

func hs(xs []string) []string {
	r := make([]string, 0, len(xs))
	for _, x := range xs {
		r = append(r, w.Hex(x))
	}
	return r
}

func hmap(m map[string]string) [][2]string {
	keys := make([]string, 0, len(m))
	for k := range m {
		keys = append(keys, k)
	}
	sort.Strings(keys)
	r := make([][2]string, 0, len(keys))
	for _, k := range keys {
		r = append(r, [2]string{w.Hex(k), w.Hex(m[k])})
	}
	return r
}

func sorted(xs []string) []string {
	c := append([]string{}, xs...)
	sort.Strings(c)
	return c
}

type targetDump struct {
	Name        string      `json:"name"`
	Pkg         string      `json:"pkg"`
	Command     string      `json:"command"`
	Inputs      []string    `json:"inputs"`
	Unresolved  []string    `json:"unresolved"`
	Excludes    []string    `json:"excludes"`
	Outputs     [][2]string `json:"outputs"`
	Bin         *[2]string  `json:"bin"`
	Deps        [][2]string `json:"deps"`
	Tags        []string    `json:"tags"`
	Fingerprint [][2]string `json:"fingerprint"`
	Env         [][2]string `json:"env"`
	Platforms   []string    `json:"platforms"`
	Timeout     string      `json:"timeout"`
	Checks      [][2]string `json:"checks"`
}

type aliasDump struct {
	Name   string    `json:"name"`
	Pkg    string    `json:"pkg"`
	Actual [2]string `json:"actual"`
}

type pkgDump struct {
	Path    string       `json:"path"`
	Targets []targetDump `json:"targets"`
	Aliases []aliasDump  `json:"aliases"`
}

func lab(l label.TargetLabel) [2]string { return [2]string{w.Hex(l.Package), w.Hex(l.Name)} }

func dumpPackage(p *model.Package) pkgDump {
	d := pkgDump{Path: w.Hex(p.Path), Targets: []targetDump{}, Aliases: []aliasDump{}}
	for _, t := range p.Targets {
		td := targetDump{Name: w.Hex(t.Label.Name), Pkg: w.Hex(t.Label.Package), Command: w.Hex(t.Command),
			Inputs: hs(sorted(t.Inputs)), Unresolved: hs(t.UnresolvedInputs), Excludes: hs(t.ExcludeInputs),
			Outputs: [][2]string{}, Deps: [][2]string{}, Tags: hs(t.Tags), Fingerprint: hmap(t.Fingerprint),
			Env: hmap(t.EnvironmentVariables), Platforms: hs(t.Platforms),
			Timeout: strconv.FormatInt(int64(t.Timeout), 10), Checks: [][2]string{}}
		for _, o := range t.Outputs {
			td.Outputs = append(td.Outputs, [2]string{w.Hex(o.Type), w.Hex(o.Identifier)})
		}
		if t.BinOutput.IsSet() || t.BinOutput.Type != "" {
			td.Bin = &[2]string{w.Hex(t.BinOutput.Type), w.Hex(t.BinOutput.Identifier)}
		}
		for _, dl := range t.Dependencies {
			td.Deps = append(td.Deps, lab(dl))
		}
		for _, c := range t.OutputChecks {
			td.Checks = append(td.Checks, [2]string{w.Hex(c.Command), w.Hex(c.ExpectedOutput)})
		}
		d.Targets = append(d.Targets, td)
	}
	for _, a := range p.Aliases {
		d.Aliases = append(d.Aliases, aliasDump{Name: w.Hex(a.Label.Name), Pkg: w.Hex(a.Label.Package), Actual: lab(a.Actual)})
	}
	sort.Slice(d.Targets, func(i, j int) bool { return t2s(d.Targets[i]) < t2s(d.Targets[j]) })
	sort.Slice(d.Aliases, func(i, j int) bool { return w.Unhex(d.Aliases[i].Name) < w.Unhex(d.Aliases[j].Name) })
	return d
}

func t2s(t targetDump) string { return w.Unhex(t.Name) }

// DTO level dump (what a scanner produced, before enrichment)
type dtoDump struct {
	Name        string      `json:"name"`
	Command     string      `json:"command"`
	Deps        []string    `json:"deps"`
	Inputs      []string    `json:"inputs"`
	Outputs     []string    `json:"outputs"`
	Bin         string      `json:"bin"`
	Tags        []string    `json:"tags"`
	Fingerprint [][2]string `json:"fingerprint"`
	Env         [][2]string `json:"env"`
	Platforms   []string    `json:"platforms"`
	HasPlat     bool        `json:"has_platforms"`
	Timeout     string      `json:"timeout"`
}

func dumpDTO(p loading.PackageDTO) []dtoDump {
	r := []dtoDump{}
	for _, t := range p.Targets {
		r = append(r, dtoDump{w.Hex(t.Name), w.Hex(t.Command), hs(t.Dependencies), hs(t.Inputs), hs(t.Outputs),
			w.Hex(t.BinOutput), hs(t.Tags), hmap(t.Fingerprint), hmap(t.EnvironmentVariables), hs(t.Platforms),
			t.Platforms != nil, w.Hex(t.Timeout)})
	}
	return r
}

func js(v interface{}) string {
	b, err := json.Marshal(v)
	if err != nil {
		return "harness-error " + err.Error()
	}
	return string(b)
}

func errLine(err error) string { return "error\t" + w.Hex(err.Error()) }

// guarded runs f under recover() and the per-case timeout.
func guarded(f func() string) string {
	ch := make(chan string, 1)
	go func() {
		defer func() {
			if r := recover(); r != nil {
				ch <- "panic\t" + w.Hex(fmt.Sprint(r))
			}
		}()
		ch <- f()
	}()
	select {
	case s := <-ch:
		return s
	case <-time.After(caseTimeout):
		return "hang"
	}
}

func setRoot(root string) {
	config.Global.WorkspaceRoot = root
	config.Global.OS = "linux"
	config.Global.Arch = "amd64"
}

func ctx() context.Context { return console.WithLogger(context.Background(), logger) }

func doLoadFile(root, path, name string) string {
	setRoot(root)
	dto, matched, err := loading.NewPackageLoader(logger).LoadIfMatched(ctx(), path, name)
	if err != nil {
		return errLine(err)
	}
	if !matched {
		return "nomatch"
	}
	pp, err := config.GetPackagePath(path)
	if err != nil {
		return errLine(err)
	}
	pkg, err := loading.VerifEnrich(logger, pp, dto)
	if err != nil {
		return errLine(err)
	}
	return "ok\t" + js(dumpPackage(pkg))
}

func dumpAll(pkgs []*model.Package) string {
	ds := []pkgDump{}
	for _, p := range pkgs {
		ds = append(ds, dumpPackage(p))
	}
	sort.Slice(ds, func(i, j int) bool { return w.Unhex(ds[i].Path) < w.Unhex(ds[j].Path) })
	nm := "nodes-ok"
	if _, err := model.BuildNodeMapFromPackages(pkgs); err != nil {
		nm = "nodes-error"
	}
	return "ok\t" + nm + "\t" + js(ds)
}

func doLoad(root string, workers int) string {
	setRoot(root)
	config.Global.NumWorkers = workers
	pkgs, err := loading.LoadPackages(ctx(), root)
	if err != nil {
		return errLine(err)
	}
	return dumpAll(pkgs)
}

type fragment struct {
	Path string             `json:"path"`
	DTO  loading.PackageDTO `json:"dto"`
}

func doMerge(root, spec string) string {
	setRoot(root)
	var frs []fragment
	if err := json.Unmarshal([]byte(spec), &frs); err != nil {
		return "harness-error " + err.Error()
	}
	loaded := map[string]*model.Package{}
	for _, fr := range frs {
		pm, err := loading.VerifEnrich(logger, fr.Path, fr.DTO)
		if err != nil {
			return errLine(err)
		}
		// load.go keys by the packagePath handed to getEnrichedPackage
		if ex, ok := loaded[fr.Path]; ok {
			if err := loading.VerifMerge(pm, ex); err != nil {
				return errLine(err)
			}
			continue
		}
		loaded[fr.Path] = pm
	}
	pkgs := []*model.Package{}
	for _, p := range loaded {
		pkgs = append(pkgs, p)
	}
	return dumpAll(pkgs)
}

func handle(f []string) string {
	switch f[0] {
	case "scanmk":
		return guarded(func() string {
			max := 0
			if len(f) > 2 {
				max, _ = strconv.Atoi(f[2])
			}
			dto, found, err := loading.VerifParseMakefileMax(w.Unhex(f[1]), max)
			if err != nil {
				return errLine(err)
			}
			return fmt.Sprintf("ok\t%v\t%s", found, js(dumpDTO(dto)))
		})
	case "scansh":
		return guarded(func() string {
			max := 0
			if len(f) > 3 {
				max, _ = strconv.Atoi(f[3])
			}
			dto, found, err := loading.VerifParseScriptMax(w.Unhex(f[1]), w.Unhex(f[2]), max)
			if err != nil {
				return errLine(err)
			}
			return fmt.Sprintf("ok\t%v\t%s", found, js(dumpDTO(dto)))
		})
	case "yamlann":
		return guarded(func() string {
			a, err := loading.VerifDecodeAnnotation(w.Unhex(f[2]), f[1] == "sh")
			if err != nil {
				return "error"
			}
			return "ok\t" + js(dtoDump{w.Hex(a.Name), "-", hs(a.Dependencies), hs(a.Inputs), hs(a.Outputs), "-",
				hs(a.Tags), hmap(a.Fingerprint), hmap(a.Env), hs(a.Platforms), a.Platforms != nil, w.Hex(a.Timeout)})
		})
	case "glob":
		return guarded(func() string {
			m, err := doublestar.Glob(os.DirFS(w.Unhex(f[1])), w.Unhex(f[2]), doublestar.WithFilesOnly())
			if err != nil {
				return "error"
			}
			return "ok\t" + strings.Join(hs(m), ",")
		})
	case "enrich":
		return guarded(func() string {
			setRoot(w.Unhex(f[1]))
			var dto loading.PackageDTO
			if err := json.Unmarshal([]byte(w.Unhex(f[3])), &dto); err != nil {
				return "harness-error " + err.Error()
			}
			pkg, err := loading.VerifEnrich(logger, w.Unhex(f[2]), dto)
			if err != nil {
				return errLine(err)
			}
			return "ok\t" + js(dumpPackage(pkg))
		})
	case "loadfile":
		return guarded(func() string { return doLoadFile(w.Unhex(f[1]), w.Unhex(f[2]), w.Unhex(f[3])) })
	case "nilcheck":
		return guarded(func() string {
			dto, matched, err := loading.NewPackageLoader(logger).LoadIfMatched(ctx(), w.Unhex(f[1]), w.Unhex(f[2]))
			if err != nil || !matched {
				return "none"
			}
			nt, na := 0, 0
			for _, t := range dto.Targets {
				if t == nil {
					nt++
				}
			}
			for _, a := range dto.Aliases {
				if a == nil {
					na++
				}
			}
			return fmt.Sprintf("ok\t%d\t%d", nt, na)
		})
	case "load":
		n, _ := strconv.Atoi(f[2])
		return guarded(func() string { return doLoad(w.Unhex(f[1]), n) })
	case "merge":
		return guarded(func() string { return doMerge(w.Unhex(f[1]), w.Unhex(f[2])) })
	case "mkdirs":
		// mkdirs <root> <hex,hex,...>: create directories in the given order (walk order experiments)
		for _, d := range w.SplitComma(f[2]) {
			if err := os.MkdirAll(filepath.Join(w.Unhex(f[1]), w.Unhex(d)), 0o755); err != nil {
				return "harness-error " + err.Error()
			}
		}
		return "ok"
	}
	return "unknown-command " + f[0]
}

func main() {
	if ms, err := strconv.Atoi(os.Getenv("VERIF_CASE_TIMEOUT_MS")); err == nil && ms > 0 {
		caseTimeout = time.Duration(ms) * time.Millisecond
	}
	// the code under test prints to os.Stdout (fmt.Println in LoadPackages, zap "stdout"):
	// keep the protocol stream private.
	real := os.Stdout
	if dn, err := os.OpenFile(os.DevNull, os.O_WRONLY, 0); err == nil {
		os.Stdout = dn
	}
	config.Global.LogOutputPath = "stderr"
	config.Global.LogLevel = "error"
	in := bufio.NewReaderSize(os.Stdin, 1<<22)
	for {
		line, err := in.ReadString('\n')
		if len(line) > 0 {
			line = strings.TrimRight(line, "\n")
			// unbuffered on purpose: when the process is killed by a panic in a foreign
			// goroutine, every answer given so far has reached the pipe
			fmt.Fprintln(real, handle(strings.Split(line, "\t")))
		}
		if err != nil {
			return
		}
	}
}
