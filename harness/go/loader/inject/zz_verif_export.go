//go:build verif

// Exported doors into package grog/internal/loading for the C16 harness
// (/verif/harness/go/loader).  Injected with `go build -overlay`; never written to /repo.
// Surface kept minimal: each function only forwards to the unexported code under test.
package loading

import (
	"bufio"
	"strings"

	"grog/internal/console"
	"grog/internal/model"

	"gopkg.in/yaml.v3"
)

// VerifParseMakefile = newMakefileParser(scanner over content).parse()
func VerifParseMakefile(content string) (PackageDTO, bool, error) {
	return newMakefileParser(bufio.NewScanner(strings.NewReader(content))).parse()
}

// VerifParseScript = newScriptParser(scanner over content, file).parse()
func VerifParseScript(file, content string) (PackageDTO, bool, error) {
	return newScriptParser(bufio.NewScanner(strings.NewReader(content)), file).parse()
}

// VerifEnrich = getEnrichedPackage
func VerifEnrich(logger *console.Logger, packagePath string, pkg PackageDTO) (*model.Package, error) {
	return getEnrichedPackage(logger, packagePath, pkg)
}

// VerifMerge = mergePackages (mutates into)
func VerifMerge(from, into *model.Package) error { return mergePackages(from, into) }

// VerifAnnotation is the decoded annotation block (both annotation structs flattened).
type VerifAnnotation struct {
	Name         string
	Dependencies []string
	Inputs       []string
	Outputs      []string
	Tags         []string
	Fingerprint  map[string]string
	Env          map[string]string
	Timeout      string
	Platforms    []string
}

// VerifDecodeAnnotation decodes an annotation block exactly as handleTarget does
// (yaml.Unmarshal into grogAnnotation for Makefiles, scriptAnnotation for scripts).
func VerifDecodeAnnotation(content string, script bool) (VerifAnnotation, error) {
	if script {
		var a scriptAnnotation
		if err := yaml.Unmarshal([]byte(content), &a); err != nil {
			return VerifAnnotation{}, err
		}
		return VerifAnnotation{a.Name, a.Dependencies, a.Inputs, nil, a.Tags, a.Fingerprint,
			a.EnvironmentVariables, a.Timeout, a.Platforms}, nil
	}
	var a grogAnnotation
	if err := yaml.Unmarshal([]byte(content), &a); err != nil {
		return VerifAnnotation{}, err
	}
	return VerifAnnotation{a.Name, a.Dependencies, a.Inputs, a.Outputs, a.Tags, a.Fingerprint,
		a.EnvironmentVariables, a.Timeout, a.Platforms}, nil
}
