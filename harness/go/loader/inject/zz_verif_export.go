//go:build verif

// Exported doors into package grog/internal/loading for the C16 harness
// (/verif/harness/go/loader).  Injected with `go build -overlay`; never written to /repo.
// Surface kept minimal: each function only forwards to the unexported code under test.
package loading

import (
	"bufio"
	"strings"

	"grog/internal/console"
	"grog/internal/model"

	"gopkg.in/yaml.v3"
)

// VerifParseMakefile = newMakefileParser(scanner over content).parse()
func VerifParseMakefile(content string) (PackageDTO, bool, error) {
	return newMakefileParser(bufio.NewScanner(strings.NewReader(content))).parse()
}

// verifScanner: max <= 0 is the production scanner (bufio.MaxScanTokenSize); a positive max only
// lowers bufio's token limit (third-party parameter), so that the token-too-long boundary of the
// parsers can be compared with the model on short lines.
func verifScanner(content string, max int) *bufio.Scanner {
	sc := bufio.NewScanner(strings.NewReader(content))
	if max > 0 {
		sc.Buffer(make([]byte, 0, 16), max)
	}
	return sc
}

// VerifParseMakefileMax / VerifParseScriptMax: the same parsers over a scanner with token limit max
func VerifParseMakefileMax(content string, max int) (PackageDTO, bool, error) {
	return newMakefileParser(verifScanner(content, max)).parse()
}

func VerifParseScriptMax(file, content string, max int) (PackageDTO, bool, error) {
	return newScriptParser(verifScanner(content, max), file).parse()
}

// VerifParseScript = newScriptParser(scanner over content, file).parse()
func VerifParseScript(file, content string) (PackageDTO, bool, error) {
	return newScriptParser(bufio.NewScanner(strings.NewReader(content)), file).parse()
}

// VerifEnrich = getEnrichedPackage
func VerifEnrich(logger *console.Logger, packagePath string, pkg PackageDTO) (*model.Package, error) {
	return getEnrichedPackage(logger, packagePath, pkg)
}

// VerifMerge = mergePackages (mutates into)
func VerifMerge(from, into *model.Package) error { return mergePackages(from, into) }

// VerifAnnotation is the decoded annotation block (both annotation structs flattened).
type VerifAnnotation struct {
	Name         string
	Dependencies []string
	Inputs       []string
	Outputs      []string
	Tags         []string
	Fingerprint  map[string]string
	Env          map[string]string
	Timeout      string
	Platforms    []string
}

// VerifDecodeAnnotation decodes an annotation block exactly as handleTarget does
// (yaml.Unmarshal into grogAnnotation for Makefiles, scriptAnnotation for scripts).
func VerifDecodeAnnotation(content string, script bool) (VerifAnnotation, error) {
	if script {
		var a scriptAnnotation
		if err := yaml.Unmarshal([]byte(content), &a); err != nil {
			return VerifAnnotation{}, err
		}
		return VerifAnnotation{a.Name, a.Dependencies, a.Inputs, nil, a.Tags, a.Fingerprint,
			a.EnvironmentVariables, a.Timeout, a.Platforms}, nil
	}
	var a grogAnnotation
	if err := yaml.Unmarshal([]byte(content), &a); err != nil {
		return VerifAnnotation{}, err
	}
	return VerifAnnotation{a.Name, a.Dependencies, a.Inputs, a.Outputs, a.Tags, a.Fingerprint,
		a.EnvironmentVariables, a.Timeout, a.Platforms}, nil
}
