//go:build verif

// Harness for C12/C19/C20 (engine `select`): builds real model.Target / model.Alias nodes and
// the real dag graph (analysis.BuildGraph) from one line and runs the real selection and
// traversal code.  Line format: see ocaml/select/driver.ml.
//
// Operation counts (C19), all exact:
//   - GetAncestors / GetDescendants append one element per recursive call made from the loop
//     body of their traversal (with or without a visited set), so
//     calls(f, n) = len(f(n)) + 1.
//   - selectAllAncestorsForBuild returns nothing.  SelectTargetsForBuild calls node.Select()
//     once immediately before the top-level call for a root and the function calls
//     ancestor.Select() once immediately before each recursive call, and nowhere else: the
//     number of Select() calls on the nodes equals the number of entries into
//     selectAllAncestorsForBuild (as long as no platform error cuts the loop short; the cost
//     command selects a single root).  The cost command therefore uses a BuildNode
//     implementation that counts Select().
//   The model side: Select.select_visited_calls / ancestors_visited_calls / descendants_visited_calls.
package main

import (
	"fmt"
	"sort"
	"strconv"
	"strings"
	"time"

	"grog/internal/analysis"
	"grog/internal/config"
	"grog/internal/dag"
	"grog/internal/label"
	"grog/internal/model"
	"grog/internal/selection"
	w "grog/internal/zz_verif_wire"
)

func splitDot(s string) []string {
	if s == "" {
		return nil
	}
	return strings.Split(s, ".")
}

func unhexAll(s string) []string {
	var r []string
	for _, h := range splitDot(s) {
		r = append(r, w.Unhex(h))
	}
	return r
}

type world struct {
	nodes []model.BuildNode // model index order
	index map[label.TargetLabel]int
	graph *dag.DirectedTargetGraph
}

func parseNodes(s string) (*world, error) {
	wd := &world{index: map[label.TargetLabel]int{}}
	specs := w.SplitComma(s)
	labels := make([]label.TargetLabel, len(specs))
	fields := make([][]string, len(specs))
	for i, sp := range specs {
		f := strings.Split(sp, ":")
		if len(f) != 8 {
			return nil, fmt.Errorf("node arity: %s", sp)
		}
		fields[i] = f
		labels[i] = label.TargetLabel{Package: w.Unhex(f[1]), Name: w.Unhex(f[2])}
	}
	nodeMap := make(model.BuildNodeMap)
	for i, f := range fields {
		var deps []label.TargetLabel
		for _, d := range splitDot(f[6]) {
			j, err := strconv.Atoi(d)
			if err != nil {
				return nil, err
			}
			deps = append(deps, labels[j])
		}
		var n model.BuildNode
		if f[0] == "a" {
			if len(deps) != 1 {
				return nil, fmt.Errorf("alias needs exactly one dependency")
			}
			n = &model.Alias{Label: labels[i], Actual: deps[0]}
		} else {
			t := &model.Target{Label: labels[i], Command: "true", Dependencies: deps,
				Tags: unhexAll(f[3]), Platforms: unhexAll(f[4]), Inputs: unhexAll(f[7])}
			if f[5] == "1" {
				t.BinOutput = model.NewOutput("file", fmt.Sprintf("bin_%d", i))
			}
			n = t
		}
		if _, dup := nodeMap[labels[i]]; dup {
			return nil, fmt.Errorf("duplicate label %s", labels[i])
		}
		nodeMap[labels[i]] = n
		wd.nodes = append(wd.nodes, n)
		wd.index[labels[i]] = i
	}
	g, err := analysis.BuildGraph(nodeMap)
	if err != nil {
		return nil, err
	}
	wd.graph = g
	return wd, nil
}

// cfg = cur:pats:tags:excl:type:plat:all ; sets config.Global and returns the selector
func parseCfg(s string) (*selection.Selector, string) {
	f := strings.Split(s, ":")
	if len(f) != 7 {
		return nil, "cfg-arity"
	}
	pats, err := label.ParsePatternsOrMatchAll(w.Unhex(f[0]), unhexAll(f[1]))
	if err != nil {
		return nil, "pattern-error"
	}
	tt, err := selection.StringToTargetTypeSelection(f[4])
	if err != nil {
		return nil, "type-error"
	}
	plat := strings.SplitN(w.Unhex(f[5]), "/", 2)
	if len(plat) != 2 {
		return nil, "platform-arity"
	}
	config.Global.OS, config.Global.Arch = plat[0], plat[1]
	config.Global.AllPlatforms = f[6] == "1"
	tags, excl := unhexAll(f[2]), unhexAll(f[3])
	config.Global.Tags, config.Global.ExcludeTags = tags, excl
	return selection.New(pats, tags, excl, tt), ""
}

// ordered: the indices as they come
func ordered(xs []int) string {
	ss := make([]string, len(xs))
	for i, x := range xs {
		ss[i] = strconv.Itoa(x)
	}
	return strings.Join(ss, ",")
}

func ints(xs []int) string {
	sort.Ints(xs)
	ss := make([]string, len(xs))
	for i, x := range xs {
		ss[i] = strconv.Itoa(x)
	}
	return strings.Join(ss, ",")
}

func (wd *world) selected() []int {
	var r []int
	for i, n := range wd.nodes {
		if n.GetIsSelected() {
			r = append(r, i)
		}
	}
	return r
}

func (wd *world) idxOf(ns []model.BuildNode) []int {
	r := make([]int, 0, len(ns))
	for _, n := range ns {
		r = append(r, wd.index[n.GetLabel()])
	}
	return r
}

// ---- counting nodes for the cost command
type cnode struct {
	lbl      label.TargetLabel
	deps     []label.TargetLabel
	selected bool
	count    *int
}

func (c *cnode) GetLabel() label.TargetLabel          { return c.lbl }
func (c *cnode) GetDependencies() []label.TargetLabel { return c.deps }
func (c *cnode) Select()                              { c.selected = true; *c.count++ }
func (c *cnode) GetIsSelected() bool                  { return c.selected }
func (c *cnode) GetType() model.NodeType              { return model.TargetNode }

func cost(graphSpec, topS, bottomS string) string {
	top, _ := strconv.Atoi(topS)
	bottom, _ := strconv.Atoi(bottomS)
	specs := w.SplitComma(graphSpec)
	count := 0
	nodes := make([]model.BuildNode, len(specs))
	for i := range specs {
		nodes[i] = &cnode{lbl: label.TargetLabel{Package: "g", Name: fmt.Sprintf("n%d", i)}, count: &count}
	}
	g := dag.NewDirectedGraphFromTargets(nodes...)
	for i, sp := range specs {
		if sp == "-" {
			continue
		}
		for _, d := range splitDot(sp) {
			j, _ := strconv.Atoi(d)
			nodes[i].(*cnode).deps = append(nodes[i].(*cnode).deps, nodes[j].GetLabel())
			if err := g.AddEdge(nodes[j], nodes[i]); err != nil {
				return "graph-error " + err.Error()
			}
		}
	}
	config.Global.AllPlatforms = false
	config.Global.OS, config.Global.Arch = "linux", "amd64"
	sel := selection.New([]label.TargetPattern{label.TargetPatternFromLabel(nodes[top].GetLabel())}, nil, nil, selection.AllTargets)
	t0 := time.Now()
	_, _, err := sel.SelectTargetsForBuild(g)
	t1 := time.Now()
	if err != nil {
		return "select-error " + err.Error()
	}
	selCalls := count
	// the same selection once more on the graph that now CARRIES the selection: the traversal must not read the
	// selected flags (the model has no such input), so the second round costs what the first did (seed C19q: a
	// visited mark set only for not-yet-selected nodes re-enters every already selected ancestor along every path)
	count = 0
	if _, _, err := sel.SelectTargetsForBuild(g); err != nil {
		return "select-error(second round) " + err.Error()
	}
	if count > selCalls {
		selCalls = count
	}
	nsel := 0
	for _, n := range nodes {
		if n.GetIsSelected() {
			nsel++
		}
	}
	anc := g.GetAncestors(nodes[top])
	t2 := time.Now()
	desc := g.GetDescendants(nodes[bottom])
	t3 := time.Now()
	return fmt.Sprintf("cost\t%d\t%d\t%d\tselected\t%d\tns\t%d\t%d\t%d", selCalls, len(anc)+1, len(desc)+1, nsel,
		t1.Sub(t0).Nanoseconds(), t2.Sub(t1).Nanoseconds(), t3.Sub(t2).Nanoseconds())
}

// conflicts: output-conflict detection (analysis.detectOutputConflicts via BuildGraph) has no
// recursion to count; its work is proportional to the nodes popped from getAncestorSet's stack,
// and every pop calls GetLabel() on the popped node.  Every other node is a real Target
// declaring the same file output (so that all pairs are compared), the rest are counting
// nodes; the reported number is the count of GetLabel() calls on the counting nodes during
// BuildGraph (edge insertion and cycle detection included, both linear).  It depends on map
// iteration order and is compared with the polynomial bound only.
type lnode struct {
	cnode
	labels *int
}

func (c *lnode) GetLabel() label.TargetLabel { *c.labels++; return c.lbl }

// mode "alt": every second node is an output-declaring Target; mode "ends": only the first (bottom) and the last
// (top) node are, every node in between is a counting node WITHOUT outputs (aggregate / lint style targets and
// aliases look like that to detectOutputConflicts): memoisation that depends on a node having outputs shows here.
func conflicts(graphSpec string, mode string) string {
	specs := w.SplitComma(graphSpec)
	labels, sel := 0, 0
	lbl := func(i int) label.TargetLabel { return label.TargetLabel{Package: "g", Name: fmt.Sprintf("n%d", i)} }
	nodeMap := make(model.BuildNodeMap)
	for i, sp := range specs {
		var deps []label.TargetLabel
		if sp != "-" {
			for _, d := range splitDot(sp) {
				j, _ := strconv.Atoi(d)
				deps = append(deps, lbl(j))
			}
		}
		if (mode == "alt" && i%2 == 0) || (mode == "ends" && (i == 0 || i == len(specs)-1)) {
			nodeMap[lbl(i)] = &model.Target{Label: lbl(i), Command: "true", Dependencies: deps,
				Outputs: []model.Output{model.NewOutput("file", "same.out")}}
		} else {
			nodeMap[lbl(i)] = &lnode{cnode: cnode{lbl: lbl(i), deps: deps, count: &sel}, labels: &labels}
		}
	}
	t0 := time.Now()
	_, err := analysis.BuildGraph(nodeMap)
	res := "ok"
	if err != nil {
		res = "conflict"
		if !strings.Contains(err.Error(), "conflicting outputs") {
			return "graph-error " + err.Error()
		}
	}
	return fmt.Sprintf("conflicts\t%d\t%s\tns\t%d", labels, res, time.Since(t0).Nanoseconds())
}

func main() {
	w.Loop(func(f []string) string {
		switch f[0] {
		case "select", "list":
			wd, err := parseNodes(f[1])
			if err != nil {
				return "graph-error " + err.Error()
			}
			sel, bad := parseCfg(f[2])
			if sel == nil {
				return bad
			}
			if f[0] == "list" {
				sel.SelectTargets(wd.graph)
				return "list\t" + ints(wd.selected())
			}
			n, skipped, err := sel.SelectTargetsForBuild(wd.graph)
			if err != nil {
				if strings.Contains(err.Error(), "does not match the platform") {
					return "platform-error"
				}
				return "select-error " + err.Error()
			}
			return fmt.Sprintf("sel\t%s\t%d\t%d", ints(wd.selected()), n, skipped)
		case "ancestors", "descendants":
			wd, err := parseNodes(f[1])
			if err != nil {
				return "graph-error " + err.Error()
			}
			i, _ := strconv.Atoi(f[3])
			if f[0] == "ancestors" {
				// multiset, and the order of the slice (in-edges are in declaration order)
				anc := wd.idxOf(wd.graph.GetAncestors(wd.nodes[i]))
				ord := ordered(anc)
				return "ms\t" + ints(anc) + "\tord\t" + ord
			}
			return "ms\t" + ints(wd.idxOf(wd.graph.GetDescendants(wd.nodes[i])))
		case "direct":
			// GetDependencies / GetDependants of node i (multisets)
			wd, err := parseNodes(f[1])
			if err != nil {
				return "graph-error " + err.Error()
			}
			i, _ := strconv.Atoi(f[3])
			return "direct\t" + ints(wd.idxOf(wd.graph.GetDependencies(wd.nodes[i]))) + "\t" +
				ints(wd.idxOf(wd.graph.GetDependants(wd.nodes[i])))
		case "cost":
			return cost(f[1], f[2], f[3])
		case "conflicts":
			return conflicts(f[1], "alt")
		case "conflicts-ends":
			return conflicts(f[1], "ends")
		}
		return "unknown-command " + f[0]
	})
}
