//go:build verif

// Harness for the glob slice of C01/C02 (input patterns).  Tab separated, hex fields ("-" = empty):
//
//	match   <hexpattern> <hexpath>   -> bad | true|false <TAB> m=true|false|bad
//	        first field: doublestar.ValidatePattern, then path IN doublestar.Glob(fs with that one file, pattern, WithFilesOnly())
//	        -- the call resolveInputs makes; second field: doublestar.Match (informational, differs on `/` in classes)
//	isglob  <hexstring>              -> true|false
//	        the loader's own test, observed through resolveInputs on an EMPTY directory: a literal entry comes back
//	        as spelled, a glob entry selects nothing (or is malformed)
//	resolve <files> <inputs> <excludes>   (each hex,hex,...)  -> ok <hex,hex,...> | err
//	        the real resolveInputs on a fresh directory holding the files
package main

import (
	"fmt"
	"io/fs"
	"os"
	"path/filepath"
	"strings"
	"testing/fstest"

	"github.com/bmatcuk/doublestar/v4"
	"go.uber.org/zap"
	"go.uber.org/zap/zapcore"
	"grog/internal/console"
	"grog/internal/loading"
	w "grog/internal/zz_verif_wire"
)

var logger = console.NewFromSugared(zap.NewNop().Sugar(), zapcore.ErrorLevel)
var base, empty string
var counter int

func list(s string) []string {
	var r []string
	for _, x := range w.SplitComma(s) {
		r = append(r, w.Unhex(x))
	}
	return r
}

func doMatch(pat, name string) string {
	if !fs.ValidPath(name) || name == "." {
		return "invalidpath"
	}
	if !doublestar.ValidatePattern(pat) {
		return "bad"
	}
	fsys := fstest.MapFS{name: &fstest.MapFile{Data: []byte("x")}}
	res, err := doublestar.Glob(fsys, pat, doublestar.WithFilesOnly())
	if err != nil {
		return "globerr"
	}
	sel := false
	for _, r := range res {
		if r == name {
			sel = true
		}
	}
	m, merr := doublestar.Match(pat, name)
	ms := fmt.Sprint(m)
	if merr != nil {
		ms = "bad"
	}
	return fmt.Sprintf("%v\tm=%s", sel, ms)
}

func doIsGlob(s string) string {
	res, err := loading.VerifResolveInputs(logger, empty, []string{s}, nil)
	if err == nil && len(res) == 1 && res[0] == s {
		return "false"
	}
	return "true"
}

func doResolve(f []string) string {
	counter++
	dir := filepath.Join(base, fmt.Sprintf("r%d", counter))
	defer os.RemoveAll(dir)
	if err := os.MkdirAll(dir, 0o755); err != nil {
		return "harness-error " + err.Error()
	}
	for _, p := range list(f[1]) {
		full := filepath.Join(dir, filepath.FromSlash(p))
		os.MkdirAll(filepath.Dir(full), 0o755)
		if err := os.WriteFile(full, []byte("x"), 0o644); err != nil {
			return "harness-error " + err.Error()
		}
	}
	res, err := loading.VerifResolveInputs(logger, dir, list(f[2]), list(f[3]))
	if err != nil {
		return "err"
	}
	hs := make([]string, len(res))
	for i, r := range res {
		hs[i] = w.Hex(r)
	}
	return "ok\t" + strings.Join(hs, ",")
}

func main() {
	var err error
	base, err = os.MkdirTemp("", "grogverif-glob-")
	if err != nil {
		panic(err)
	}
	defer os.RemoveAll(base)
	empty = filepath.Join(base, "empty")
	os.MkdirAll(empty, 0o755)
	w.Loop(func(f []string) string {
		switch {
		case f[0] == "match" && len(f) == 3:
			return doMatch(w.Unhex(f[1]), w.Unhex(f[2]))
		case f[0] == "isglob" && len(f) == 2:
			return doIsGlob(w.Unhex(f[1]))
		case f[0] == "resolve" && len(f) == 4:
			return doResolve(f)
		}
		return "unknown-command " + f[0]
	})
}
