//go:build verif

// Exported door into package grog/internal/loading for the glob harness (/verif/harness/go/glob).
// Injected with `go build -overlay`; never written to /repo.  Only forwards to the unexported code under test.
package loading

import "grog/internal/console"

// VerifResolveInputs = resolveInputs
func VerifResolveInputs(logger *console.Logger, absolutePackagePath string, inputs, excludes []string) ([]string, error) {
	return resolveInputs(logger, absolutePackagePath, inputs, excludes)
}
