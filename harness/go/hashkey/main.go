//go:build verif

// Harness for C09 (and the key part of C01/C02): computes grog's target change hash for a
// generated target state on a real package directory.
//
//	key  <algo> <rootid> <pkg> <name> <cmd> <ins> <files> <outs> <deps> <fp> <multiplatform>
//	      ins: hex,hex  files: hexpath:hexcontent|hexpath:! (absent)  outs: hextype:hexid
//	      deps: hex,hex  fp: hexk:hexv
//	build <algo> <pkg> <hexpath> <hexcontent|!> <hexcontent|!> <hexcmd> [keepmtime]
//	      the path a BUILD takes (execution.NewExecutor -> hashing.NewTargetHasher(graph).SetTargetChangeHash): targets a and b
//	      of <pkg> both list input <hexpath>, b depends on a; ONE hasher: the file holds the first content (! = absent) when a is
//	      hashed and the second when b is hashed (a's command rewrote / created / removed it); answers the two keys
//	hash <algo> <hexbytes>
//	nocachehash <algo> <hex,hex items>
//	      hashing.HashStrings of the items; GetNoCacheOutputHash feeds it "<type>::<identifier>=<digest>" per output
//	      (HashKey.nocache_output_hash over nocache_item; bare digests before the repair of C01-F3)
package main

import (
	"fmt"
	"os"
	"path/filepath"
	"strings"

	"grog/internal/config"
	"grog/internal/dag"
	"grog/internal/hashing"
	"grog/internal/label"
	"grog/internal/model"
	w "grog/internal/zz_verif_wire"
)

var base string
var counter int

func list(s string) []string {
	var r []string
	for _, x := range w.SplitComma(s) {
		r = append(r, w.Unhex(x))
	}
	return r
}

func doKey(f []string) string {
	algo, rootid, pkg, name, cmd := f[1], f[2], w.Unhex(f[3]), w.Unhex(f[4]), w.Unhex(f[5])
	counter++
	root := filepath.Join(base, fmt.Sprintf("%s-%d", rootid, counter))
	pkgDir := filepath.Join(root, pkg)
	if err := os.MkdirAll(pkgDir, 0o755); err != nil {
		return "harness-error " + err.Error()
	}
	defer os.RemoveAll(root)
	for _, pc := range w.SplitComma(f[7]) {
		kvp := strings.SplitN(pc, ":", 2)
		if kvp[1] == "!" {
			continue
		}
		p := filepath.Join(pkgDir, w.Unhex(kvp[0]))
		os.MkdirAll(filepath.Dir(p), 0o755)
		if err := os.WriteFile(p, []byte(w.Unhex(kvp[1])), 0o644); err != nil {
			return "harness-error " + err.Error()
		}
	}
	config.Global.WorkspaceRoot = root
	config.Global.HashAlgorithm = algo
	config.Global.OS = "lx"
	config.Global.Arch = "a64"
	t := model.Target{Label: label.TargetLabel{Package: pkg, Name: name}, Command: cmd}
	t.Inputs = list(f[6])
	for _, o := range w.SplitComma(f[8]) {
		ti := strings.SplitN(o, ":", 2)
		t.Outputs = append(t.Outputs, model.NewOutput(w.Unhex(ti[0]), w.Unhex(ti[1])))
	}
	deps := list(f[9])
	if f[10] != "" {
		t.Fingerprint = map[string]string{}
		for _, e := range w.SplitComma(f[10]) {
			kvp := strings.SplitN(e, ":", 2)
			t.Fingerprint[w.Unhex(kvp[0])] = w.Unhex(kvp[1])
		}
	}
	if f[11] == "1" {
		t.Tags = append(t.Tags, model.TagMultiplatformCache)
	}
	k, err := hashing.GetTargetChangeHash(t, deps)
	if err != nil {
		return "error"
	}
	return "key\t" + k
}

func doBuild(f []string) string {
	algo, pkg, p, c1, c2, cmd := f[1], w.Unhex(f[2]), w.Unhex(f[3]), f[4], f[5], w.Unhex(f[6])
	counter++
	root := filepath.Join(base, fmt.Sprintf("build-%d", counter))
	pkgDir := filepath.Join(root, pkg)
	if err := os.MkdirAll(pkgDir, 0o755); err != nil {
		return "harness-error " + err.Error()
	}
	defer os.RemoveAll(root)
	put := func(c string) error {
		fp := filepath.Join(pkgDir, p)
		if c == "!" {
			err := os.Remove(fp)
			if os.IsNotExist(err) {
				return nil
			}
			return err
		}
		os.MkdirAll(filepath.Dir(fp), 0o755)
		return os.WriteFile(fp, []byte(w.Unhex(c)), 0o644)
	}
	config.Global.WorkspaceRoot = root
	config.Global.HashAlgorithm = algo
	config.Global.OS = "lx"
	config.Global.Arch = "a64"
	a := &model.Target{Label: label.TargetLabel{Package: pkg, Name: "a"}, Command: cmd, Inputs: []string{p}}
	b := &model.Target{Label: label.TargetLabel{Package: pkg, Name: "b"}, Command: cmd, Inputs: []string{p},
		Dependencies: []label.TargetLabel{a.Label}}
	g := dag.NewDirectedGraphFromTargets(a, b)
	if err := g.AddEdge(a, b); err != nil {
		return "harness-error " + err.Error()
	}
	th := hashing.NewTargetHasher(g)
	if err := put(c1); err != nil {
		return "harness-error " + err.Error()
	}
	if err := th.SetTargetChangeHash(a); err != nil {
		return "error"
	}
	a.OutputHash = "oh1"
	var before os.FileInfo
	if len(f) > 7 && f[7] == "keepmtime" {
		before, _ = os.Stat(filepath.Join(pkgDir, p))
	}
	if err := put(c2); err != nil {
		return "harness-error " + err.Error()
	}
	if before != nil && c2 != "!" {
		if err := os.Chtimes(filepath.Join(pkgDir, p), before.ModTime(), before.ModTime()); err != nil {
			return "harness-error " + err.Error()
		}
	}
	if err := th.SetTargetChangeHash(b); err != nil {
		return "error"
	}
	return "keys\t" + a.ChangeHash + "\t" + b.ChangeHash
}

func main() {
	var err error
	base, err = os.MkdirTemp("", "grogverif-hk-")
	if err != nil {
		panic(err)
	}
	defer os.RemoveAll(base)
	w.Loop(func(f []string) string {
		switch f[0] {
		case "key":
			return doKey(f)
		case "build":
			return doBuild(f)
		case "hash":
			config.Global.HashAlgorithm = f[1]
			return "hash\t" + hashing.HashString(w.Unhex(f[2]))
		case "nocachehash":
			config.Global.HashAlgorithm = f[1]
			return "hash\t" + hashing.HashStrings(list(f[2]))
		}
		return "unknown-command " + f[0]
	})
}
