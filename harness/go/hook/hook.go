//go:build verif

// Package zzhook is what the instrumented copy of internal/locking/workspace_locker.go calls
// (C10).  It is overlay-injected as grog/internal/zz_verif_hook; nothing of it exists in /repo.
//
// Control channel: two inherited file descriptors named by the environment variable
// ZZHOOK_FDS="<read fd>,<write fd>".  Protocol, one line per message, strictly alternating
// (the process sends a message and then blocks on a token):
//
//	process -> controller          controller -> process
//	P <TAB> <line>:<callee>        go         (Point: about to make that call)
//	A                              wake       (After: waiting for the timer; the timer fires)
//	                               cancel     (After: OnCancel() is called instead, the timer
//	                                           never fires -- the caller's context is cancelled
//	                                           while it waits)
//	anything sent with Send        whatever the caller Recv()s
//
// Without ZZHOOK_FDS every hook is a no-op (Point returns, After is time.After).
package zzhook

import (
	"bufio"
	"fmt"
	"os"
	"strconv"
	"strings"
	"time"
)

var (
	enabled bool
	in      *bufio.Reader
	out     *os.File
)

// OnCancel is what the token "cancel" runs while the process waits in After: the harness
// registers the cancel func of the context it passes to Lock.  Set it before the first After.
var OnCancel func()

func init() {
	v := os.Getenv("ZZHOOK_FDS")
	if v == "" {
		return
	}
	parts := strings.Split(v, ",")
	if len(parts) != 2 {
		fatal("bad ZZHOOK_FDS")
	}
	r, err1 := strconv.Atoi(parts[0])
	w, err2 := strconv.Atoi(parts[1])
	if err1 != nil || err2 != nil {
		fatal("bad ZZHOOK_FDS")
	}
	in = bufio.NewReader(os.NewFile(uintptr(r), "zzhook-in"))
	out = os.NewFile(uintptr(w), "zzhook-out")
	enabled = true
}

func fatal(msg string) {
	fmt.Fprintln(os.Stderr, "zzhook:", msg)
	os.Exit(97)
}

// Enabled reports whether a controller is attached.
func Enabled() bool { return enabled }

// Send writes one message line to the controller.
func Send(msg string) {
	if !enabled {
		return
	}
	if _, err := out.WriteString(msg + "\n"); err != nil {
		fatal("controller gone: " + err.Error())
	}
}

// Recv blocks until the controller sends a token.
func Recv() string {
	if !enabled {
		return ""
	}
	line, err := in.ReadString('\n')
	if err != nil {
		fatal("controller gone: " + err.Error())
	}
	return strings.TrimSpace(line)
}

// Point announces the call that is about to be made and blocks until released.
func Point(label string) {
	if !enabled {
		return
	}
	Send("P\t" + label)
	if tok := Recv(); tok != "go" {
		fatal("at " + label + ": expected go, got " + tok)
	}
}

// After stands in for time.After: the channel fires when the controller says wake; when the
// controller says cancel, OnCancel is called and the channel never fires.  (The goroutine has
// returned from Recv before it calls OnCancel, so the caller's next Send/Recv does not race it.)
func After(d time.Duration) <-chan time.Time {
	if !enabled {
		return time.After(d)
	}
	ch := make(chan time.Time, 1)
	Send("A")
	go func() {
		switch tok := Recv(); tok {
		case "wake":
			ch <- time.Now()
		case "cancel":
			if OnCancel == nil {
				fatal("in After: cancel, but no OnCancel registered")
			}
			OnCancel()
		default:
			fatal("in After: expected wake or cancel, got " + tok)
		}
	}()
	return ch
}
