//go:build verif

// Harness for C03/C04/C05 (walker + pool).  Sub-commands (argv[1]):
//
//	stress <shape> <n> <runs> <failfast 0|1>   ungated zero-latency walks of the real dag.Walker; prints
//	                                          "ok <runs>" or reports the first anomaly (deps-order, missing completion);
//	                                          a runtime fatal error or a hang is observed by the caller (exit status / timeout)
package main

import (
	"context"
	"fmt"
	"os"
	"strconv"
	"sync"
	"sync/atomic"

	"grog/internal/dag"
	"grog/internal/label"
	"grog/internal/model"
)

func mk(i int) *model.Target {
	return &model.Target{Label: label.TargetLabel{Package: "p", Name: fmt.Sprintf("n%d", i)}, IsSelected: true}
}

// shapes: star (node 0 <- all others), fan (all others <- last), chain, diamondN (0 <- 1..n-2 <- n-1)
func build(shape string, n int) (*dag.DirectedTargetGraph, []*model.Target, [][]int) {
	ts := make([]*model.Target, n)
	nodes := make([]model.BuildNode, n)
	for i := range ts {
		ts[i] = mk(i)
		nodes[i] = ts[i]
	}
	g := dag.NewDirectedGraphFromTargets(nodes...)
	deps := make([][]int, n)
	add := func(from, to int) { // to depends on from
		if err := g.AddEdge(ts[from], ts[to]); err != nil {
			panic(err)
		}
		deps[to] = append(deps[to], from)
	}
	switch shape {
	case "star":
		for i := 1; i < n; i++ {
			add(0, i)
		}
	case "fan":
		for i := 0; i < n-1; i++ {
			add(i, n-1)
		}
	case "chain":
		for i := 1; i < n; i++ {
			add(i-1, i)
		}
	case "diamond":
		for i := 1; i < n-1; i++ {
			add(0, i)
			add(i, n-1)
		}
	}
	return g, ts, deps
}

func stress(shape string, n, runs int, failFast bool) {
	for r := 0; r < runs; r++ {
		g, ts, deps := build(shape, n)
		idx := map[label.TargetLabel]int{}
		for i, t := range ts {
			idx[t.Label] = i
		}
		var mu sync.Mutex
		done := make([]bool, n)
		var bad atomic.Value
		cb := func(ctx context.Context, node model.BuildNode) (dag.CacheResult, error) {
			i := idx[node.GetLabel()]
			mu.Lock()
			for _, d := range deps[i] {
				if !done[d] {
					bad.Store(fmt.Sprintf("node %d started before dependency %d finished", i, d))
				}
			}
			mu.Unlock()
			mu.Lock()
			done[i] = true
			mu.Unlock()
			return dag.CacheMiss, nil
		}
		w := dag.NewWalker(g, cb, failFast)
		cm, err := w.Walk(context.Background())
		if err != nil {
			fmt.Printf("anomaly run=%d walk error %v\n", r, err)
			os.Exit(3)
		}
		if b := bad.Load(); b != nil {
			fmt.Printf("anomaly run=%d %s\n", r, b)
			os.Exit(3)
		}
		if len(cm) != n {
			fmt.Printf("anomaly run=%d completions=%d of %d\n", r, len(cm), n)
			os.Exit(3)
		}
	}
	fmt.Printf("ok %d\n", runs)
}

func main() {
	switch os.Args[1] {
	case "stress":
		n, _ := strconv.Atoi(os.Args[3])
		runs, _ := strconv.Atoi(os.Args[4])
		stress(os.Args[2], n, runs, os.Args[5] == "1")
	default:
		fmt.Println("unknown sub-command")
		os.Exit(2)
	}
}
