//go:build verif

// Harness for C03/C04/C05 (walker + pool).  Sub-commands (argv[1]):
//
//	stress <shape> <n> <runs> <failfast 0|1>   ungated zero-latency walks of the real dag.Walker alone; prints
//	                                          "ok <runs>" or reports the first anomaly (deps-order, missing completion);
//	                                          a runtime fatal error or a hang is observed by the caller (exit status / timeout)
//	pool                                      stdin: one JSON spec per line {id,deps,w,ff,fail,runs,cancel,yield};
//	                                          ungated walks of the real dag.Walker + the real worker.TaskWorkerPool wired as in
//	                                          execution/execute.go (walk callback = pool.Run(task)); model-free oracles
//	                                          (deps first, at most once, <= W concurrently, accounting, Walk returns);
//	                                          one line per spec: "ok <id> runs=.. ..." | "anomaly <id> run=<r> <what>"
//	race <ff|cancel> <runs>                   what cmds/build.go does with the map Walk returns when the walk ended through
//	                                          ctx.Done (fail-fast or interrupt): read it at once, without the walker's mutex,
//	                                          while tasks are still finishing; prints how often that map grew after the
//	                                          return (must be 0: Walk hands out a snapshot).  Also meant for a -race build.
//
// The gated mode lives in inject/zz_gated_test.go (testing/synctest is only available to tests).
package main

import (
	"bufio"
	"context"
	"encoding/json"
	"errors"
	"fmt"
	"os"
	"runtime"
	"strconv"
	"sync"
	"sync/atomic"
	"time"

	tea "github.com/charmbracelet/bubbletea"
	"go.uber.org/zap"
	"go.uber.org/zap/zapcore"

	"grog/internal/config"
	"grog/internal/console"
	"grog/internal/dag"
	"grog/internal/label"
	"grog/internal/model"
	"grog/internal/worker"
)

func mk(i int) *model.Target {
	return &model.Target{Label: label.TargetLabel{Package: "p", Name: fmt.Sprintf("n%d", i)}, IsSelected: true}
}

func fromDeps(deps [][]int) (*dag.DirectedTargetGraph, []*model.Target) {
	n := len(deps)
	ts := make([]*model.Target, n)
	nodes := make([]model.BuildNode, n)
	for i := range ts {
		ts[i] = mk(i)
		nodes[i] = ts[i]
	}
	g := dag.NewDirectedGraphFromTargets(nodes...)
	for i, ds := range deps {
		for _, d := range ds {
			if err := g.AddEdge(ts[d], ts[i]); err != nil {
				panic(err)
			}
		}
	}
	return g, ts
}

// shapes: star (node 0 <- all others), fan (all others <- last), chain, diamondN (0 <- 1..n-2 <- n-1)
func shapeDeps(shape string, n int) [][]int {
	deps := make([][]int, n)
	add := func(from, to int) { deps[to] = append(deps[to], from) } // to depends on from
	switch shape {
	case "star":
		for i := 1; i < n; i++ {
			add(0, i)
		}
	case "fan":
		for i := 0; i < n-1; i++ {
			add(i, n-1)
		}
	case "chain":
		for i := 1; i < n; i++ {
			add(i-1, i)
		}
	case "diamond":
		for i := 1; i < n-1; i++ {
			add(0, i)
			add(i, n-1)
		}
	}
	return deps
}

func stress(shape string, n, runs int, failFast bool) {
	deps := shapeDeps(shape, n)
	for r := 0; r < runs; r++ {
		g, ts := fromDeps(deps)
		idx := map[label.TargetLabel]int{}
		for i, t := range ts {
			idx[t.Label] = i
		}
		var mu sync.Mutex
		done := make([]bool, n)
		var bad atomic.Value
		cb := func(ctx context.Context, node model.BuildNode) (dag.CacheResult, error) {
			i := idx[node.GetLabel()]
			mu.Lock()
			for _, d := range deps[i] {
				if !done[d] {
					bad.Store(fmt.Sprintf("node %d started before dependency %d finished", i, d))
				}
			}
			mu.Unlock()
			mu.Lock()
			done[i] = true
			mu.Unlock()
			return dag.CacheMiss, nil
		}
		w := dag.NewWalker(g, cb, failFast)
		cm, err := w.Walk(context.Background())
		if err != nil {
			fmt.Printf("anomaly run=%d walk error %v\n", r, err)
			os.Exit(3)
		}
		if b := bad.Load(); b != nil {
			fmt.Printf("anomaly run=%d %s\n", r, b)
			os.Exit(3)
		}
		if len(cm) != n {
			fmt.Printf("anomaly run=%d completions=%d of %d\n", r, len(cm), n)
			os.Exit(3)
		}
	}
	fmt.Printf("ok %d\n", runs)
}

// ---------------------------------------------------------------- walker + pool, ungated

type spec struct {
	ID     string  `json:"id"`
	Deps   [][]int `json:"deps"`
	W      int     `json:"w"`
	FF     bool    `json:"ff"`
	Fail   []int   `json:"fail"`
	Runs   int     `json:"runs"`
	Cancel int     `json:"cancel"` // 0: never; k>0: cancel the outer context when the k-th task is entered
	Yield  int     `json:"yield"`  // tasks call runtime.Gosched() this many times (0 = zero latency)
}

var errFail = errors.New("exit status 3")

func ancestors(deps [][]int) [][]int {
	n := len(deps)
	sets := make([]map[int]bool, n)
	res := make([][]int, n)
	for i := 0; i < n; i++ { // topologically numbered
		sets[i] = map[int]bool{}
		for _, d := range deps[i] {
			sets[i][d] = true
			for a := range sets[d] {
				sets[i][a] = true
			}
		}
		for a := range sets[i] {
			res[i] = append(res[i], a)
		}
	}
	return res
}

func newLoggerCtx() (context.Context, *console.Logger) {
	logger := console.NewFromSugared(zap.NewNop().Sugar(), zapcore.ErrorLevel)
	return console.WithLogger(context.Background(), logger), logger
}

func poolRuns(sp spec) string {
	n := len(sp.Deps)
	anc := ancestors(sp.Deps)
	failing := make([]bool, n)
	for _, f := range sp.Fail {
		failing[f] = true
	}
	unsettled, cancelledRuns, maxSeen := 0, 0, 0
	for r := 0; r < sp.Runs; r++ {
		g, ts := fromDeps(sp.Deps)
		idx := map[label.TargetLabel]int{}
		for i, t := range ts {
			idx[t.Label] = i
		}
		base, logger := newLoggerCtx()
		outer, cancel := context.WithCancel(base)
		pool := worker.NewTaskWorkerPool[dag.CacheResult](logger, sp.W, func(_ tea.Msg) {}, n)
		pool.StartWorkers(outer)

		okDone := make([]atomic.Bool, n)
		taskFailed := make([]atomic.Bool, n)
		entries := make([]atomic.Int32, n)
		var inTask, maxIn, entered, cbIn, cbOut atomic.Int32
		var bad atomic.Value
		cb := func(ctx context.Context, node model.BuildNode) (dag.CacheResult, error) {
			cbIn.Add(1)
			defer cbOut.Add(1)
			i := idx[node.GetLabel()]
			return pool.Run(func(update worker.StatusFunc) (dag.CacheResult, error) {
				cur := inTask.Add(1)
				defer inTask.Add(-1)
				for {
					m := maxIn.Load()
					if cur <= m || maxIn.CompareAndSwap(m, cur) {
						break
					}
				}
				if int(cur) > sp.W {
					bad.Store(fmt.Sprintf("%d tasks running concurrently with num_workers=%d", cur, sp.W))
				}
				if entries[i].Add(1) > 1 {
					bad.Store(fmt.Sprintf("task of node %d entered twice", i))
				}
				for _, a := range anc[i] {
					if !okDone[a].Load() {
						bad.Store(fmt.Sprintf("task of node %d entered before its transitive dependency %d completed successfully", i, a))
					}
				}
				if k := entered.Add(1); sp.Cancel > 0 && int(k) == sp.Cancel {
					cancel()
				}
				for y := 0; y < sp.Yield; y++ {
					runtime.Gosched()
				}
				if failing[i] {
					taskFailed[i].Store(true)
					return dag.CacheMiss, errFail
				}
				if ctx.Err() != nil && i%2 == 0 { // half of the tasks notice the cancellation
					return dag.CacheMiss, ctx.Err()
				}
				okDone[i].Store(true)
				return dag.CacheMiss, nil
			})
		}
		w := dag.NewWalker(g, cb, sp.FF)
		cm, err := w.Walk(outer)
		pool.Shutdown() // execute.go: defer workerPool.Shutdown()
		wasCancelled := outer.Err() != nil
		if b := bad.Load(); b != nil {
			cancel()
			return fmt.Sprintf("anomaly %s run=%d %s", sp.ID, r, b)
		}
		if err != nil && !wasCancelled {
			cancel()
			return fmt.Sprintf("anomaly %s run=%d Walk returned error %v without cancellation", sp.ID, r, err)
		}
		if int(maxIn.Load()) > maxSeen {
			maxSeen = int(maxIn.Load())
		}
		anyFail := len(sp.Fail) > 0
		early := wasCancelled || (sp.FF && anyFail)
		if early {
			// Walk may have returned through ctx.Done while routines are still running: the map it returned is
			// a snapshot of the completions recorded until then (reading it while the routines go on is the
			// business of sub-command race, which does what cmds/build.go does).  Which completions made it
			// into the snapshot depends on timing, so the accounting below uses the harness' own record.
			if wasCancelled {
				cancelledRuns++
			}
			for t := 0; t < 50 && cbIn.Load() != cbOut.Load(); t++ {
				time.Sleep(100 * time.Microsecond)
			}
			if cbIn.Load() != cbOut.Load() {
				unsettled++ // e.g. a job left in the closed pool: its routine never returns (model: orphaned Queued)
			}
			for i := 0; i < n; i++ {
				for _, a := range anc[i] {
					if taskFailed[a].Load() && entries[i].Load() > 0 {
						cancel()
						return fmt.Sprintf("anomaly %s run=%d node %d ran although its transitive dependency %d failed", sp.ID, r, i, a)
					}
				}
			}
			cancel()
			continue
		}
		// accounting on the completion map
		for i := 0; i < n; i++ {
			c, has := cm[ts[i].Label]
			failedAnc := false
			for _, a := range anc[i] {
				if ca, ok := cm[ts[a].Label]; ok && !ca.IsSuccess {
					failedAnc = true
				}
			}
			if has && c.IsSuccess && !okDone[i].Load() {
				cancel()
				return fmt.Sprintf("anomaly %s run=%d node %d recorded as successful but its task did not succeed", sp.ID, r, i)
			}
			if has && failedAnc {
				cancel()
				return fmt.Sprintf("anomaly %s run=%d node %d completed although a transitive dependency failed", sp.ID, r, i)
			}
			if failedAnc && entries[i].Load() > 0 {
				cancel()
				return fmt.Sprintf("anomaly %s run=%d node %d ran although a transitive dependency failed", sp.ID, r, i)
			}
			if !early {
				if !has && !failedAnc {
					cancel()
					return fmt.Sprintf("anomaly %s run=%d node %d has no completion and no failed transitive dependency (keep-going, no cancellation)", sp.ID, r, i)
				}
				if has && c.IsSuccess == failing[i] {
					cancel()
					return fmt.Sprintf("anomaly %s run=%d node %d completion success=%v but failing=%v", sp.ID, r, i, c.IsSuccess, failing[i])
				}
			}
		}
		cancel()
	}
	return fmt.Sprintf("ok %s runs=%d maxconc=%d cancelled=%d unsettled=%d", sp.ID, sp.Runs, maxSeen, cancelledRuns, unsettled)
}

func poolMain() {
	config.Global.DisableNonDeterministicLogging = true
	in := bufio.NewScanner(os.Stdin)
	in.Buffer(make([]byte, 1<<20), 1<<26)
	out := bufio.NewWriter(os.Stdout)
	defer out.Flush()
	for in.Scan() {
		if len(in.Bytes()) == 0 {
			continue
		}
		var sp spec
		if err := json.Unmarshal(in.Bytes(), &sp); err != nil {
			fmt.Fprintf(out, "badspec %v\n", err)
			continue
		}
		fmt.Fprintln(out, poolRuns(sp))
		out.Flush()
	}
}

// ---------------------------------------------------------------- the caller's read of the returned map

// raceRuns: k independent nodes, W = k.  mode ff: fail-fast, node 0 fails at once; mode cancel: the outer
// context is cancelled when node 0's task runs.  The other tasks do not look at their context (like a
// cache-hit restore) and succeed a little later.  As soon as Walk returns the caller does what
// cmds/build.go:195-239 does with the map: GetErrors, TargetSuccessCount, range.
func raceRuns(mode string, runs int) {
	config.Global.DisableNonDeterministicLogging = true
	const k = 6
	deps := make([][]int, k)
	lateWrites := 0
	for r := 0; r < runs; r++ {
		g, ts := fromDeps(deps)
		idx := map[label.TargetLabel]int{}
		for i, t := range ts {
			idx[t.Label] = i
		}
		base, logger := newLoggerCtx()
		outer, cancel := context.WithCancel(base)
		pool := worker.NewTaskWorkerPool[dag.CacheResult](logger, k, func(_ tea.Msg) {}, k)
		pool.StartWorkers(outer)
		var ready sync.WaitGroup
		ready.Add(k - 1)
		var finished atomic.Int32
		cb := func(ctx context.Context, node model.BuildNode) (dag.CacheResult, error) {
			i := idx[node.GetLabel()]
			res, err := pool.Run(func(update worker.StatusFunc) (dag.CacheResult, error) {
				if i == 0 {
					ready.Wait() // all others are inside their tasks
					if mode == "cancel" {
						cancel()
						return dag.CacheMiss, context.Canceled
					}
					return dag.CacheMiss, errFail
				}
				ready.Done()
				<-ctx.Done() // the walk is being cancelled ...
				for y := 0; y < i*3; y++ {
					runtime.Gosched()
				}
				return dag.CacheHit, nil // ... but this task completes (restore in progress, command just done)
			})
			finished.Add(1)
			return res, err
		}
		w := dag.NewWalker(g, cb, mode == "ff")
		cm, _ := w.Walk(outer)
		pool.Shutdown()
		// cmds/build.go
		before := len(cm)
		errs := cm.GetErrors()
		succ, hits := cm.TargetSuccessCount()
		cnt := 0
		for l, c := range cm {
			_ = l
			if !c.IsSuccess {
				cnt++
			}
		}
		_, _, _, _ = errs, succ, hits, cnt
		for finished.Load() < k {
			time.Sleep(50 * time.Microsecond)
		}
		time.Sleep(100 * time.Microsecond)
		if len(cm) > before {
			lateWrites++
		}
		cancel()
	}
	fmt.Printf("ok race mode=%s runs=%d maps_written_after_return=%d\n", mode, runs, lateWrites)
}

// panicRun: chain 0 <- 1 <- 2 plus an independent node 3, W workers; node 0's task panics inside the pool.  What the real code
// does with a crashing task is its own business (today: the process dies), but whatever it does, node 1 and node 2 must not
// start and node 0 must not be reported successful.  Every observation is printed at once (the process may die any moment).
func panicRun(W int, ff bool) {
	config.Global.DisableNonDeterministicLogging = true
	deps := [][]int{{}, {0}, {1}, {}}
	g, ts := fromDeps(deps)
	idx := map[label.TargetLabel]int{}
	for i, t := range ts {
		idx[t.Label] = i
	}
	base, logger := newLoggerCtx()
	outer, cancel := context.WithCancel(base)
	defer cancel()
	pool := worker.NewTaskWorkerPool[dag.CacheResult](logger, W, func(_ tea.Msg) {}, 4)
	pool.StartWorkers(outer)
	cb := func(ctx context.Context, node model.BuildNode) (dag.CacheResult, error) {
		i := idx[node.GetLabel()]
		return pool.Run(func(update worker.StatusFunc) (dag.CacheResult, error) {
			fmt.Printf("started %d\n", i)
			if i == 0 {
				time.Sleep(2 * time.Millisecond)
				var m map[string]int
				m["boom"] = 1 // a genuine runtime panic inside the task
			}
			time.Sleep(5 * time.Millisecond)
			return dag.CacheMiss, nil
		})
	}
	w := dag.NewWalker(g, cb, ff)
	done := make(chan struct{})
	go func() {
		cm, err := w.Walk(outer)
		for l, c := range cm {
			fmt.Printf("completion %d success=%v\n", idx[l], c.IsSuccess)
		}
		fmt.Printf("walk-returned err=%v\n", err != nil)
		close(done)
	}()
	select {
	case <-done:
	case <-time.After(5 * time.Second):
		fmt.Println("hang")
	}
}

func main() {
	switch os.Args[1] {
	case "panic":
		W, _ := strconv.Atoi(os.Args[2])
		panicRun(W, os.Args[3] == "1")
	case "stress":
		n, _ := strconv.Atoi(os.Args[3])
		runs, _ := strconv.Atoi(os.Args[4])
		stress(os.Args[2], n, runs, os.Args[5] == "1")
	case "pool":
		poolMain()
	case "race":
		runs, _ := strconv.Atoi(os.Args[3])
		raceRuns(os.Args[2], runs)
	default:
		fmt.Println("unknown sub-command")
		os.Exit(2)
	}
}
