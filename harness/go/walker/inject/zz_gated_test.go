//go:build verif

// Gated replay of schedules against the REAL dag.Walker + worker.TaskWorkerPool, wired as in
// execution/execute.go (walk callback = pool.Run(task)), inside a testing/synctest bubble.
// Injected into package dag by `go test -overlay` (never written to /repo).
//
// env VERIF_WALKER_IN  = file with one JSON schedule per line
//     VERIF_WALKER_OUT = trace file (see tools/walkerlib.py)
//
// Gates: A = the callback was entered (ready consumed), not yet handed to pool.Run
//        B1 = the task function was entered by a pool worker, before its context check / command start
//        B2 = the command is "running"
// One controllable action per step (release one gate, or cancel the outer context), chosen by the
// schedule's seeded numbers among the gates actually held; after every action synctest.Wait()
// gives exact quiescence and the observation is logged.
package dag

import (
	"bufio"
	"context"
	"encoding/json"
	"errors"
	"fmt"
	"os"
	"sort"
	"strings"
	"sync"
	"testing"
	"testing/synctest"

	tea "github.com/charmbracelet/bubbletea"
	"go.uber.org/zap"
	"go.uber.org/zap/zapcore"

	"grog/internal/config"
	"grog/internal/console"
	"grog/internal/label"
	"grog/internal/model"
	"grog/internal/worker"
)

type gSched struct {
	ID       string  `json:"id"`
	W        int     `json:"w"`
	FF       bool    `json:"ff"`
	Deps     [][]int `json:"deps"`
	Fail     []int   `json:"fail"`
	Kind     []int   `json:"kind"` // 0 command task obeying cancellation, 1 command task that finishes although cancelled, 2 restore-like task that never looks at its context
	CancelAt int     `json:"cancel_at"`
	Choices  []int   `json:"choices"`
	MaxSteps int     `json:"max_steps"`
}

type gRun struct {
	mu       sync.Mutex
	n        int
	drain    bool
	gateA    map[int]chan struct{}
	gateB1   map[int]chan struct{}
	gateB2   map[int]chan struct{}
	started  []int // callback entries per node
	entries  []int // task entries per node
	enq      map[int]bool
	cmd      map[int]bool
	inTask   int
	maxIn    int
	lastWhat string
	walkDone bool
	walkErr  error
	cm       CompletionMap
}

func keys(m map[int]chan struct{}) []int {
	r := make([]int, 0, len(m))
	for k := range m {
		r = append(r, k)
	}
	sort.Ints(r)
	return r
}

func ilist(xs []int) string {
	s := make([]string, len(xs))
	for i, x := range xs {
		s[i] = fmt.Sprint(x)
	}
	return strings.Join(s, ",")
}

var errTaskFailed = errors.New("task failed by schedule")

func runGated(t *testing.T, sc gSched, out *bufio.Writer) {
	n := len(sc.Deps)
	ts := make([]*model.Target, n)
	nodes := make([]model.BuildNode, n)
	idx := map[label.TargetLabel]int{}
	for i := range ts {
		ts[i] = &model.Target{Label: label.TargetLabel{Package: "p", Name: fmt.Sprintf("n%d", i)}, IsSelected: true}
		nodes[i] = ts[i]
		idx[ts[i].Label] = i
	}
	g := NewDirectedGraphFromTargets(nodes...)
	for i, ds := range sc.Deps {
		for _, d := range ds {
			if err := g.AddEdge(ts[d], ts[i]); err != nil {
				panic(err)
			}
		}
	}
	failing := map[int]bool{}
	for _, f := range sc.Fail {
		failing[f] = true
	}
	r := &gRun{n: n, gateA: map[int]chan struct{}{}, gateB1: map[int]chan struct{}{}, gateB2: map[int]chan struct{}{},
		started: make([]int, n), entries: make([]int, n), enq: map[int]bool{}, cmd: map[int]bool{}}

	logger := console.NewFromSugared(zap.NewNop().Sugar(), zapcore.ErrorLevel)
	outer, cancel := context.WithCancel(console.WithLogger(context.Background(), logger))
	defer cancel()
	pool := worker.NewTaskWorkerPool[CacheResult](logger, sc.W, func(_ tea.Msg) {}, n)
	pool.StartWorkers(outer)

	cb := func(ctx context.Context, node model.BuildNode) (CacheResult, error) {
		i := idx[node.GetLabel()]
		r.mu.Lock()
		r.started[i]++
		var ga chan struct{}
		if !r.drain {
			ga = make(chan struct{}, 1)
			r.gateA[i] = ga
		}
		r.mu.Unlock()
		if ga != nil {
			<-ga
		}
		r.mu.Lock()
		r.enq[i] = true
		r.mu.Unlock()
		return pool.Run(func(update worker.StatusFunc) (CacheResult, error) {
			r.mu.Lock()
			r.entries[i]++
			r.inTask++
			if r.inTask > r.maxIn {
				r.maxIn = r.inTask
			}
			var g1 chan struct{}
			if !r.drain {
				g1 = make(chan struct{}, 1)
				r.gateB1[i] = g1
			}
			r.mu.Unlock()
			leave := func(what string) {
				r.mu.Lock()
				r.inTask--
				r.lastWhat = what
				r.mu.Unlock()
			}
			if g1 == nil {
				leave("drained")
				return CacheMiss, context.Canceled
			}
			<-g1
			kind := 0
			if i < len(sc.Kind) {
				kind = sc.Kind[i]
			}
			if kind == 2 { // restore-like: no context check at all
				if failing[i] {
					leave("fail")
					return CacheMiss, errTaskFailed
				}
				leave("ok")
				return CacheHit, nil
			}
			// exec.Cmd.Start: the first thing it does is look at the context
			select {
			case <-ctx.Done():
				leave("cancelled")
				return CacheMiss, ctx.Err()
			default:
			}
			r.mu.Lock()
			r.cmd[i] = true
			r.lastWhat = "started"
			var g2 chan struct{}
			if !r.drain {
				g2 = make(chan struct{}, 1)
				r.gateB2[i] = g2
			}
			r.mu.Unlock()
			if g2 != nil {
				<-g2
			}
			if failing[i] {
				leave("fail")
				return CacheMiss, &fakeExit{}
			}
			if ctx.Err() != nil && kind == 0 { // killed command: executeTarget bubbles ctx.Err() up
				leave("cancelled")
				return CacheMiss, ctx.Err()
			}
			leave("ok")
			return CacheMiss, nil
		})
	}

	w := NewWalker(g, cb, sc.FF)
	go func() {
		cm, err := w.Walk(outer)
		pool.Shutdown() // execute.go: defer workerPool.Shutdown()
		r.mu.Lock()
		r.walkDone, r.walkErr, r.cm = true, err, cm
		r.mu.Unlock()
	}()

	obs := func() {
		synctest.Wait()
		r.mu.Lock()
		var st, enq, cmd, ok, fail, rok, rfail []int
		for i := 0; i < n; i++ {
			if r.started[i] > 0 {
				st = append(st, i)
			}
			if r.enq[i] {
				enq = append(enq, i)
			}
		}
		// the walker's own map, read under its mutex (the harness is not the racing caller here)
		w.doneMutex.Lock()
		for l, c := range w.completions {
			if c.IsSuccess {
				ok = append(ok, idx[l])
			} else {
				fail = append(fail, idx[l])
			}
		}
		// the map Walk handed to its caller, as it is NOW.  The caller (cmds/build.go) reads it without any
		// lock; the harness holds the walker's mutex only so that this observation itself is not a racing
		// read on a tree where the returned map is still written (the bubble is quiescent anyway)
		for l, c := range r.cm {
			if c.IsSuccess {
				rok = append(rok, idx[l])
			} else {
				rfail = append(rfail, idx[l])
			}
		}
		w.doneMutex.Unlock()
		sort.Ints(ok)
		sort.Ints(fail)
		sort.Ints(rok)
		sort.Ints(rfail)
		_ = cmd
		ret, werr := 0, 0
		if r.walkDone {
			ret = 1
			if r.walkErr != nil {
				werr = 1
			}
		}
		fmt.Fprintf(out, "obs S=%s Enq=%s B1=%s B2=%s Ok=%s Fail=%s ret=%d err=%d ROk=%s RFail=%s\n", ilist(st), ilist(enq),
			ilist(keys(r.gateB1)), ilist(keys(r.gateB2)), ilist(ok), ilist(fail), ret, werr, ilist(rok), ilist(rfail))
		r.mu.Unlock()
	}

	fmt.Fprintf(out, "sched %s\n", sc.ID)
	fmt.Fprintf(out, "act init\n")
	obs()
	cancelled := false
	status := "done"
	maxSteps := sc.MaxSteps
	if maxSteps <= 0 {
		maxSteps = 8*n + 16
	}
	step := 0
	for ; step < maxSteps; step++ {
		if step == sc.CancelAt && !cancelled {
			cancelled = true
			cancel()
			fmt.Fprintf(out, "act cancel\n")
			obs()
			continue
		}
		r.mu.Lock()
		a, b1, b2 := keys(r.gateA), keys(r.gateB1), keys(r.gateB2)
		r.mu.Unlock()
		total := len(a) + len(b1) + len(b2)
		if total == 0 {
			break
		}
		c := 0
		if len(sc.Choices) > 0 {
			c = sc.Choices[step%len(sc.Choices)]
		}
		c %= total
		r.mu.Lock()
		r.lastWhat = ""
		var kind string
		var node int
		switch {
		case c < len(a):
			kind, node = "enq", a[c]
			ch := r.gateA[node]
			delete(r.gateA, node)
			ch <- struct{}{}
		case c < len(a)+len(b1):
			kind, node = "cmd", b1[c-len(a)]
			ch := r.gateB1[node]
			delete(r.gateB1, node)
			ch <- struct{}{}
		default:
			kind, node = "fin", b2[c-len(a)-len(b1)]
			ch := r.gateB2[node]
			delete(r.gateB2, node)
			ch <- struct{}{}
		}
		r.mu.Unlock()
		synctest.Wait()
		r.mu.Lock()
		what := r.lastWhat
		r.mu.Unlock()
		fmt.Fprintf(out, "act %s %d %s\n", kind, node, what)
		obs()
	}
	r.mu.Lock()
	held := len(r.gateA) + len(r.gateB1) + len(r.gateB2)
	if !r.walkDone {
		if held == 0 {
			status = "deadlock" // nothing is gated, everything is durably blocked, Walk has not returned
		} else {
			status = "stepcap"
		}
	} else if held > 0 {
		status = "stepcap"
	}
	// the caller's view of the returned map (read here, at quiescence)
	cmLen := -1
	if r.cm != nil {
		cmLen = len(r.cm)
	}
	multi := 0
	for i := 0; i < n; i++ {
		if r.entries[i] > 1 || r.started[i] > 1 {
			multi++
		}
	}
	fmt.Fprintf(out, "end %s %s maxin=%d multi=%d cm=%d steps=%d\n", sc.ID, status, r.maxIn, multi, cmLen, step)
	// clean-up so that the bubble can end: open every gate, free parked routines, drain orphaned jobs
	r.drain = true
	for _, m := range []map[int]chan struct{}{r.gateA, r.gateB1, r.gateB2} {
		for k, ch := range m {
			ch <- struct{}{}
			delete(m, k)
		}
	}
	r.mu.Unlock()
	cancel()
	synctest.Wait()
	w.cancelAll()
	synctest.Wait()
	pool.Shutdown()
	pool.StartWorkers(context.Background()) // fresh workers drain jobs left in the closed channel, then exit
	synctest.Wait()
}

type fakeExit struct{}

func (*fakeExit) Error() string { return "exit status 3" }

func TestGated(t *testing.T) {
	in, outp := os.Getenv("VERIF_WALKER_IN"), os.Getenv("VERIF_WALKER_OUT")
	if in == "" || outp == "" {
		t.Skip("VERIF_WALKER_IN / VERIF_WALKER_OUT not set")
	}
	config.Global.DisableNonDeterministicLogging = true
	f, err := os.Open(in)
	if err != nil {
		t.Fatal(err)
	}
	defer f.Close()
	of, err := os.Create(outp)
	if err != nil {
		t.Fatal(err)
	}
	defer of.Close()
	out := bufio.NewWriterSize(of, 1<<20)
	defer out.Flush()
	rd := bufio.NewScanner(f)
	rd.Buffer(make([]byte, 1<<20), 1<<26)
	for rd.Scan() {
		line := strings.TrimSpace(rd.Text())
		if line == "" {
			continue
		}
		var sc gSched
		if err := json.Unmarshal([]byte(line), &sc); err != nil {
			t.Fatalf("bad schedule: %v", err)
		}
		func() {
			defer func() {
				if p := recover(); p != nil {
					fmt.Fprintf(out, "bubble-panic %s %v\n", sc.ID, p)
				}
			}()
			synctest.Test(t, func(t *testing.T) { runGated(t, sc, out) })
		}()
		out.Flush()
	}
	fmt.Fprintf(out, "alldone\n")
}
