(* Build-history model driver.  One history per input line: a whitespace separated token stream
   (strings hex encoded, "-" = empty, lists prefixed by their length):

   history := n op*            op := S sources | T n label* | P path pstate | X label
                                    | B mode cache failfast n root*
   sources := n node* n (path content)*
   node    := t label cmd salt n ins* n (kind path)* n dep* n (k v)* nocache multi beh check | a label actual
   label   := pkg name         pstate := A | N | W | F content      beh := n | f | a | x | s k
   mode    := all | min        booleans 0/1, naturals decimal

   Output: one line, builds separated by ';':
     ok '|' executed labels (hex of //pkg:name, comma separated, in start order)
        '|' status letters per node id (- none, h hit, e executed, f failed, s skipped)
        '|' workspace: hexpath:state, comma separated, sorted by path; state A | N | W | F<hexcontent> *)
open Model
open Wire

let toks = ref [||]
let pos = ref 0
let next () = let t = !toks.(!pos) in incr pos; t
let nat () = int_of_string (next ())
let str () = to_str (unhex (next ()))
let boolean () = next () = "1"
let rec many n f = if n <= 0 then [] else let x = f () in x :: many (n - 1) f
let listof f = let n = nat () in many n f

let label () = let p = str () in let n = str () in { lpkg = p; lname = n }

let pstate () = match next () with
  | "A" -> PAbsent | "N" -> PNoParent | "W" -> PWrongKind
  | "F" -> PFile (str ())
  | t -> failwith ("pstate " ^ t)

let beh () = match next () with
  | "n" -> BNormal | "f" -> BFail | "a" -> BFailAfter | "x" -> BBreakCheck
  | "s" -> BSkipOutput (nat_of_int (nat ()))
  | t -> failwith ("beh " ^ t)

let node () = match next () with
  | "t" ->
    let l = label () in
    let cmd = str () in
    let salt = str () in
    let ins = listof str in
    let outs = listof (fun () -> let k = (match next () with "file" -> OFile | "dir" -> ODir | t -> failwith ("kind " ^ t)) in
                         let p = str () in { o_kind = k; o_path = p }) in
    let deps = listof (fun () -> nat_of_int (nat ())) in
    let fp = listof (fun () -> let k = str () in let v = str () in (k, v)) in
    let nocache = boolean () in
    let multi = boolean () in
    let b = beh () in
    let check = boolean () in
    NTarget { td_label = l; td_cmd = cmd; td_salt = salt; td_ins = ins; td_outs = outs; td_deps = deps; td_fp = fp;
              td_nocache = nocache; td_multi = multi; td_beh = b; td_check = check }
  | "a" -> let l = label () in let a = nat_of_int (nat ()) in NAlias (l, a)
  | t -> failwith ("node " ^ t)

let sources () =
  let nodes = listof node in
  let files = listof (fun () -> let p = str () in let c = str () in (p, c)) in
  { s_nodes = nodes; s_files = files }

let config () =
  let m = (match next () with "all" -> LAll | "min" -> LMinimal | t -> failwith ("mode " ^ t)) in
  let c = boolean () in
  let ff = boolean () in
  { cfg_mode = m; cfg_cache = c; cfg_failfast = ff }

let op () = match next () with
  | "S" -> OpSources (sources ())
  | "T" -> OpTaint (listof label)
  | "P" -> let p = str () in let s = pstate () in OpPerturb (p, s)
  | "X" -> OpDestroyExt (label ())
  | "D" -> OpDropBlob (str ())
  | "R" -> OpDropResults
  | "B" -> let c = config () in let roots = listof (fun () -> nat_of_int (nat ())) in OpBuild (c, roots)
  | t -> failwith ("op " ^ t)

(* the digest function: an injective, '_'-free, fixed-length interning of byte strings *)
let tbl : (string, int) Hashtbl.t = Hashtbl.create 1024
let h (s : ascii list) : ascii list =
  let k = of_str s in
  let id = match Hashtbl.find_opt tbl k with
    | Some i -> i
    | None -> let i = Hashtbl.length tbl in Hashtbl.add tbl k i; i in
  to_str (Printf.sprintf "%016x" id)

let show_state = function
  | PAbsent -> "A" | PNoParent -> "N" | PWrongKind -> "W"
  | PFile c -> "F" ^ hex (of_str c)

let show_status = function
  | TNone -> "-" | THit -> "h" | TExecuted -> "e" | TFailed -> "f" | TSkipped -> "s"

let show_build (r : build_result) =
  let ex = String.concat "," (List.map (fun l -> hex (of_str (print_label l))) r.br_exec) in
  let st = String.concat "" (List.map show_status r.br_status) in
  let ws = List.sort compare (List.map (fun (p, s) -> (of_str p, show_state s)) r.br_world.w_ws) in
  let ws = String.concat "," (List.map (fun (p, s) -> hex p ^ ":" ^ s) ws) in
  Printf.sprintf "%s|%s|%s|%s" (if r.br_ok then "1" else "0") ex st ws

let () =
  (try
    while true do
      let line = input_line stdin in
      Hashtbl.reset tbl;
      toks := Array.of_list (List.filter (fun s -> s <> "") (String.split_on_char ' ' line));
      pos := 0;
      let res =
        try
          let ops = listof op in
          let y = run_history h ops in
          (* the decidable structural guard of KEYFAITH.v (cmd_faithful incl. the no-cache tag + unique printed labels +
             comma-free output paths of no-cache targets) on the visited snapshots *)
          String.concat ";" (List.map show_build y.sy_log) ^ "#k=" ^ (if snaps_okb (snaps ops) then "1" else "0")
        with Failure m -> "model-error " ^ m
           | Invalid_argument m -> "model-error " ^ m in
      print_string res; print_char '\n'
    done
  with End_of_file -> ());
  flush stdout
