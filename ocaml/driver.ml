(* One case per input line (tab separated, fields hex encoded, "-" = empty string);
   one canonical observation per output line. *)
open Model
open Wire

let fld s = to_str (unhex s)
let out s = hex (of_str s)

let show_label (l : label) = Printf.sprintf "%s\t%s\t%s" (out l.lpkg) (out l.lname) (out (print_label l))

let do_label = function
  | [cur; s] ->
    (match parse_label (fld cur) (fld s) with
     | None -> "err"
     | Some l ->
       let rt = match parse_label (to_str "zz") (print_label l) with
         | None -> "rt-err"
         | Some l2 -> Printf.sprintf "%s:%s" (out l2.lpkg) (out l2.lname) in
       "ok\t" ^ show_label l ^ "\t" ^ rt)
  | _ -> failwith "label: arity"

(* pattern <cur> <s> <pkg:name,pkg:name,...>  (labels hex pairs joined by ':' and ',') *)
let parse_universe (u : string) : label list =
  List.map (fun pr -> match String.split_on_char ':' pr with
      | [p; n] -> { lpkg = fld p; lname = fld n }
      | _ -> failwith "universe") (split_comma u)

let matchvec p univ = String.concat "" (List.map (fun l -> if matches p l then "1" else "0") univ)

let do_pattern univ = function
  | cur :: s :: _ ->
    (match parse_pattern (fld cur) (fld s) with
     | None -> "err"
     | Some p ->
       let pr = print_pattern p in
       let re = match parse_pattern (fld cur) pr with
         | None -> "reparse-err"
         | Some p' -> matchvec p' univ in
       Printf.sprintf "ok\t%s\t%s\t%s\t%s\t%s\t%s" (out p.pprefix) (out p.ptarget)
         (if p.prec then "1" else "0") (out pr) (matchvec p univ) re)
  | _ -> failwith "pattern: arity"

let () =
  let univ = ref [] in
  (try
    while true do
      let line = input_line stdin in
      let res =
        match split_tab line with
        | "label" :: args -> do_label args
        | "universe" :: [u] -> univ := parse_universe u; "universe\t" ^ string_of_int (List.length !univ)
        | "pattern" :: args -> do_pattern !univ args
        | cmd :: _ -> "unknown-command " ^ cmd
        | [] -> "empty"
      in
      print_string res; print_char '\n'
    done
  with End_of_file -> ());
  flush stdout
