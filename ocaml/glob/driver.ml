(* Model side of the glob stage.  Same line protocol as harness/go/glob/main.go:
     match <hexpattern> <hexpath>  -> uncovered | bad | true|false
     isglob <hexstring>            -> true|false
     resolve <files> <inputs> <excludes> -> uncovered | err | ok <hex,hex,...> *)
open Model
open Wire

let fld s = to_str (unhex s)
let lst s = List.map fld (split_comma s)
let b x = if x then "true" else "false"

let do_match p s =
  let p = fld p in
  if not (covered p) then "uncovered" else
  match parse p with
  | None -> "bad"
  | Some pt -> b (matches pt (fld s)) ^ (if has_meta pt then "\tmeta" else "\tlit")

let do_resolve fs ins exs =
  let fs = lst fs and ins = lst ins and exs = lst exs in
  if not (List.for_all (fun e -> (not (is_glob e)) || covered e) ins && List.for_all covered exs) then "uncovered"
  else if not (resolve_ok ins exs) then "err"
  else "ok\t" ^ String.concat "," (List.map (fun x -> hex (of_str x)) (resolve_inputs fs ins exs))

let () =
  (try
    while true do
      let line = input_line stdin in
      let res =
        try
          match split_tab line with
          | ["match"; p; s] -> do_match p s
          | ["isglob"; s] -> b (is_glob (fld s))
          | ["resolve"; fs; ins; exs] -> do_resolve fs ins exs
          | cmd :: _ -> "unknown-command " ^ cmd
          | [] -> "empty"
        with Failure m -> "driver-error " ^ m
      in
      print_string res; print_char '\n'
    done
  with End_of_file -> ())
