(* Driver of engine `select` (C12, C19, C20).  One case per input line, tab separated:

     <cmd> TAB <nodes> TAB <cfg> TAB <args...>

   nodes : comma separated, model index order; node = k:pkg:name:tags:plats:bin:deps:inputs
           k = t|a, pkg/name hex, tags/plats/inputs = hex joined by '.', bin = 0|1,
           deps = decimal indices joined by '.'; inputs = the literal inputs AS SPELLED in the BUILD file
   owners: owners TAB <nodes> TAB <cfg> TAB <files>, files = hex joined by '.': the arguments as typed, relative to
           the workspace root, not cleaned; owners-verbatim = the comparison with the spelling (Select.owners_verbatim)
   cfg   : cur:pats:tags:excl:type:plat:all   (cur/plat hex, pats/tags/excl hex joined by '.',
           type = test|no_test|bin_output|all, all = 0|1); pats are the raw command line
           arguments, parsed by Label.parse_patterns_or_all like the commands do
   cost  : cost TAB <graph> TAB <top> TAB <bottom>, graph = per node deps joined by '.'
           ('-' = none), nodes joined by ','
   family: family TAB ladder TAB w TAB d  |  family TAB chain TAB n  -> the graph *)
open Model
open Wire

let fld s = to_str (unhex s)
let out s = hex (of_str s)
let int_of_nat n = let rec go acc = function O -> acc | S m -> go (acc + 1) m in go 0 n
let nat i = nat_of_int i
let split_dot s = if s = "" then [] else String.split_on_char '.' s
let ints l = String.concat "," (List.map string_of_int l)
let idxs (l : nat list) = ints (List.map int_of_nat l)
let sorted_idxs (l : nat list) = ints (List.sort compare (List.map int_of_nat l))
let lines (l : ascii list list) = String.concat "," (List.map out l)

let parse_node (s : string) : node * nat list =
  match String.split_on_char ':' s with
  | [k; pkg; name; tags; plats; bin; deps; inputs] ->
    ({ nkind = (if k = "a" then KAlias else KTarget);
       nlabel = { lpkg = fld pkg; lname = fld name };
       ntags = List.map fld (split_dot tags);
       nplats = List.map fld (split_dot plats);
       nbin = (bin = "1");
       ninputs = List.map fld (split_dot inputs) },
     List.map (fun d -> nat (int_of_string d)) (split_dot deps))
  | _ -> failwith ("node: " ^ s)

let parse_nodes (s : string) : node list * nat list list =
  let l = List.map parse_node (split_comma s) in
  (List.map fst l, List.map snd l)

let parse_type = function
  | "test" -> TestOnly | "no_test" -> NonTestOnly | "bin_output" -> BinOutput | "all" -> AllTargets
  | t -> failwith ("type: " ^ t)

(* None = a pattern does not parse *)
let parse_cfg (s : string) : config option =
  match String.split_on_char ':' s with
  | [cur; pats; tags; excl; ty; plat; all] ->
    (match parse_patterns_or_all (fld cur) (List.map fld (split_dot pats)) with
     | None -> None
     | Some ps ->
       Some { cpats = ps; ctags = List.map fld (split_dot tags); cexcl = List.map fld (split_dot excl);
              ctype = parse_type ty; cplat = fld plat; callplat = (all = "1") })
  | _ -> failwith ("cfg: " ^ s)

let parse_graph (s : string) : nat list list =
  List.map (fun ds -> if ds = "-" then [] else List.map (fun d -> nat (int_of_string d)) (split_dot ds))
    (split_comma s)

let show_graph (g : nat list list) : string =
  String.concat "," (List.map (fun ds -> if ds = [] then "-" else
                                  String.concat "." (List.map (fun d -> string_of_int (int_of_nat d)) ds)) g)

(* entries into the recursive function of the three traversals (Select.select_visited_calls,
   ancestors_visited_calls, descendants_visited_calls: one per node in the visited map), and the
   exact cost formula of C19_*_cost_exact evaluated on the returned lists *)
let calls (g : nat list list) (t : nat) (b : nat) : string =
  let deg next v = 1 + List.length (next v) in
  let wsum next l = List.fold_left (fun acc v -> acc + deg next v) 0 l in
  let sv = fst (select_visited g t) and av = fst (ancestors_visited g t) and dv = fst (descendants_visited g b) in
  Printf.sprintf "calls\t%d\t%d\t%d\tformula\t%d\t%d\t%d"
    (List.length sv) (1 + List.length av) (1 + List.length dv)
    (wsum (deps g) sv) (deg (deps g) t + wsum (deps g) av) (deg (dependants g) b + wsum (dependants g) dv)

let with_cfg cfg f = match parse_cfg cfg with None -> "pattern-error" | Some c -> f c

let handle (f : string list) : string =
  match f with
  | ["select"; nodes; cfg] ->
    let (ns, g) = parse_nodes nodes in
    with_cfg cfg (fun c ->
        match select_for_build c ns g with
        | PlatformError -> "platform-error"
        | Selected s ->
          Printf.sprintf "sel\t%s\t%d\t%d" (idxs s) (int_of_nat (selected_count ns s))
            (int_of_nat (platform_skipped c ns g)))
  | ["selectspec"; nodes; cfg] ->
    (* the same traversal started from the roots of the property's reading: equal to `select` since the repair of
       C12-F1 (C12_selection_equals_spec_selection); the check compares the two *)
    let (ns, g) = parse_nodes nodes in
    with_cfg cfg (fun c ->
        match select_for_build_spec c ns g with
        | PlatformError -> "platform-error"
        | Selected s -> Printf.sprintf "sel\t%s\t%d" (idxs s) (int_of_nat (selected_count ns s)))
  | ["selcost"; nodes; cfg] ->
    (* history: calls of the former, path-enumerating selection *)
    let (ns, g) = parse_nodes nodes in
    with_cfg cfg (fun c ->
        let (r, calls) = select_marks_c c ns g in
        Printf.sprintf "selcost\t%s\t%d" (match r with None -> "platform-error" | Some _ -> "ok") (int_of_nat calls))
  | ["roots"; nodes; cfg] ->
    let (ns, g) = parse_nodes nodes in
    with_cfg cfg (fun c -> Printf.sprintf "roots\t%s\t%s" (idxs (roots c ns g)) (idxs (spec_roots c ns g)))
  | ["list"; nodes; cfg] ->
    let (ns, g) = parse_nodes nodes in
    with_cfg cfg (fun c -> "list\t" ^ idxs (select_targets c ns g))
  | ["ancestors"; nodes; _; n] ->
    (* GetAncestors: the nodes as a multiset, and in the order of the returned slice (in-edges are in
       declaration order, so the order is determined) *)
    let (_, g) = parse_nodes nodes in
    let l = fst (ancestors_visited g (nat (int_of_string n))) in
    "ms\t" ^ sorted_idxs l ^ "\tord\t" ^ idxs l
  | ["descendants"; nodes; _; n] ->
    (* GetDescendants: multiset only (the out-edge order depends on Go map iteration) *)
    let (_, g) = parse_nodes nodes in
    "ms\t" ^ sorted_idxs (fst (descendants_visited g (nat (int_of_string n))))
  | ["ancestors-paths"; nodes; _; n] ->
    (* history: the path enumeration of the code before the repair of C19-F2 *)
    let (_, g) = parse_nodes nodes in
    "ms\t" ^ sorted_idxs (ancestors_paths g (nat (int_of_string n)))
  | ["descendants-paths"; nodes; _; n] ->
    let (_, g) = parse_nodes nodes in
    "ms\t" ^ sorted_idxs (descendants_paths g (nat (int_of_string n)))
  | ["direct"; nodes; _; n] ->
    let (_, g) = parse_nodes nodes in
    let i = nat (int_of_string n) in
    Printf.sprintf "direct\t%s\t%s" (sorted_idxs (deps g i)) (sorted_idxs (dependants g i))
  | ["deps"; nodes; cfg; n; t] ->
    let (ns, g) = parse_nodes nodes in
    with_cfg cfg (fun c ->
        Printf.sprintf "lines\t%s\t%s" (lines (deps_query c ns g (nat (int_of_string n)) (t = "1")))
          (lines (deps_query_dedup c ns g (nat (int_of_string n)) (t = "1"))))
  | ["rdeps"; nodes; cfg; n; t] ->
    let (ns, g) = parse_nodes nodes in
    with_cfg cfg (fun c ->
        Printf.sprintf "lines\t%s\t%s" (lines (rdeps_query c ns g (nat (int_of_string n)) (t = "1")))
          (lines (rdeps_query_dedup c ns g (nat (int_of_string n)) (t = "1"))))
  | ["owners"; nodes; _; files] ->
    let (ns, _) = parse_nodes nodes in
    "lines\t" ^ lines (owners ns (List.map fld (split_dot files)))
  | ["owners-verbatim"; nodes; _; files] ->
    (* not the code: the comparison with the input as spelled (C20_owners_verbatim_refuted); the check counts the
       queries on which it differs from `owners` *)
    let (ns, _) = parse_nodes nodes in
    "lines\t" ^ lines (owners_verbatim ns (List.map fld (split_dot files)))
  | ["listq"; nodes; cfg] ->
    let (ns, g) = parse_nodes nodes in
    with_cfg cfg (fun c -> "lines\t" ^ lines (list_query c ns g))
  | ["cost"; graph; top; bottom] ->
    let g = parse_graph graph in
    let t = nat (int_of_string top) and b = nat (int_of_string bottom) in
    if not (topob g && wf_graphb g) then "not-topological" else
    Printf.sprintf "cost\tpaths\t%d\t%d\t%d\tvisited\t%d\t%d\t%d\tVE\t%d\t%d\t%s"
      (int_of_nat (select_paths_cost g t)) (int_of_nat (ancestors_paths_cost g t))
      (int_of_nat (descendants_paths_cost g b))
      (int_of_nat (select_visited_cost g t)) (int_of_nat (ancestors_visited_cost g t))
      (int_of_nat (descendants_visited_cost g b))
      (List.length g) (int_of_nat (edges g)) (calls g t b)
  | ["costv"; graph; top; bottom] ->
    (* without the historical path enumerations (exponential): cheap on any depth *)
    let g = parse_graph graph in
    let t = nat (int_of_string top) and b = nat (int_of_string bottom) in
    if not (topob g && wf_graphb g) then "not-topological" else
    Printf.sprintf "costv\tvisited\t%d\t%d\t%d\tVE\t%d\t%d\t%s"
      (int_of_nat (select_visited_cost g t)) (int_of_nat (ancestors_visited_cost g t))
      (int_of_nat (descendants_visited_cost g b))
      (List.length g) (int_of_nat (edges g)) (calls g t b)
  | ["sets"; graph; top; bottom] ->
    (* the two traversals return the de-duplicated "all paths" enumerations (C20_deps_is_dedup) *)
    let g = parse_graph graph in
    let t = nat (int_of_string top) and b = nat (int_of_string bottom) in
    Printf.sprintf "sets\t%s\t%s\t%s\t%s"
      (sorted_idxs (ancestors_set g t)) (sorted_idxs (fst (ancestors_visited g t)))
      (sorted_idxs (descendants_set g b)) (sorted_idxs (fst (descendants_visited g b)))
  | ["family"; "ladder"; w; d] -> "graph\t" ^ show_graph (ladder (nat (int_of_string w)) (nat (int_of_string d)))
  | ["family"; "chain"; n] -> "graph\t" ^ show_graph (chain (nat (int_of_string n)))
  | cmd :: _ -> "unknown-command " ^ cmd
  | [] -> "empty"

let () =
  (try
     while true do
       let line = input_line stdin in
       let res = try handle (split_tab line) with Failure m -> "driver-error " ^ m in
       print_string res; print_char '\n'
     done
   with End_of_file -> ());
  flush stdout
