(* One case per input line (tab separated, fields hex encoded, "-" = empty string);
   one canonical observation per output line. *)
open Model
open Wire

let fld s = to_str (unhex s)
let out s = hex (of_str s)

let show_label (l : label) = Printf.sprintf "%s\t%s\t%s" (out l.lpkg) (out l.lname) (out (print_label l))

let do_label = function
  | [cur; s] ->
    (match parse_label (fld cur) (fld s) with
     | None -> "err"
     | Some l ->
       let rt = match parse_label (to_str "zz") (print_label l) with
         | None -> "rt-err"
         | Some l2 -> Printf.sprintf "%s:%s" (out l2.lpkg) (out l2.lname) in
       "ok\t" ^ show_label l ^ "\t" ^ rt)
  | _ -> failwith "label: arity"

(* pattern <cur> <s> <pkg:name,pkg:name,...>  (labels hex pairs joined by ':' and ',') *)
let parse_universe (u : string) : label list =
  List.map (fun pr -> match String.split_on_char ':' pr with
      | [p; n] -> { lpkg = fld p; lname = fld n }
      | _ -> failwith "universe") (split_comma u)

let matchvec p univ = String.concat "" (List.map (fun l -> if matches p l then "1" else "0") univ)

let do_pattern univ = function
  | cur :: s :: _ ->
    (match parse_pattern (fld cur) (fld s) with
     | None -> "err"
     | Some p ->
       let pr = print_pattern p in
       let re, rp = match parse_pattern (fld cur) pr with
         | None -> "reparse-err", "reparse-err"
         | Some p' -> matchvec p' univ,
                      Printf.sprintf "%s:%s:%s" (out p'.pprefix) (out p'.ptarget) (if p'.prec then "1" else "0") in
       Printf.sprintf "ok\t%s\t%s\t%s\t%s\t%s\t%s\t%s" (out p.pprefix) (out p.ptarget)
         (if p.prec then "1" else "0") (out pr) (matchvec p univ) re rp)
  | _ -> failwith "pattern: arity"

(* key <algo> <rootid> <pkg> <name> <cmd> <ins> <files> <outs> <deps> <fp> <multiplatform>
      files: hexpath:! (absent) | hexpath:hexcontent:hexdigest   (digest = the implementation's own hash of the content
      under <algo>; the table content -> digest is the digest function H handed to the model)
   -> encode_def (hex) TAB encode_files H fs (hex) or "none" *)
let hexlist s = List.map fld (split_comma s)
let pairlist s = List.map (fun e -> match String.split_on_char ':' e with
    | [a; b] -> (a, b) | _ -> failwith "pair") (split_comma s)
let filelist s = List.map (fun e -> match String.split_on_char ':' e with
    | [p; "!"] -> (unhex p, None)
    | [p; c; d] -> (unhex p, Some (unhex c, unhex d))
    | _ -> failwith "file") (split_comma s)

let do_key f =
  match f with
  | [_algo; _root; pkg; name; cmd; ins; files; outs; deps; fp; multi] ->
    let fsl = filelist files in
    let fs (p : ascii list) = match (try List.assoc (of_str p) fsl with Not_found -> None) with
      | None -> None | Some (c, _) -> Some (to_str c) in
    let table = List.concat (List.map (fun (_, e) -> match e with None -> [] | Some cd -> [cd]) fsl) in
    let h (c : ascii list) = try to_str (List.assoc (of_str c) table) with Not_found -> to_str "?" in
    let outs' = List.map (fun (t, i) -> to_str (unhex t ^ "::" ^ unhex i)) (pairlist outs) in
    let fp' = List.map (fun (k, v) -> (fld k, fld v)) (pairlist fp) in
    let st = { ts_label = { lpkg = fld pkg; lname = fld name }; ts_cmd = fld cmd; ts_ins = hexlist ins;
               ts_outs = outs'; ts_deps = hexlist deps; ts_fp = fp';
               ts_plat = if multi = "1" then None else Some (to_str "lx/a64") } in
    let files = if no_inputs st then "none" else out (encode_files h fs st) in
    Printf.sprintf "%s\t%s" (out (encode_def st)) files
  | _ -> failwith "key: arity"

let () =
  let univ = ref [] in
  (try
    while true do
      let line = input_line stdin in
      let res =
        match split_tab line with
        | "label" :: args -> do_label args
        | "universe" :: [u] -> univ := parse_universe u; "universe\t" ^ string_of_int (List.length !univ)
        | "pattern" :: args -> do_pattern !univ args
        | "key" :: args -> do_key args
        | cmd :: _ -> "unknown-command " ^ cmd
        | [] -> "empty"
      in
      print_string res; print_char '\n'
    done
  with End_of_file -> ());
  flush stdout
