(* Driver for the extracted loader model (C16).  One case per stdin line, tab separated.
   Scalars are hex atoms ("-" = empty); structured arguments are S-expressions over hex atoms:
     list        ( x y ... )          option list   N | ( ... )          pair  ( k v )
     annot       ( name deps inputs tags fp env timeout platforms outputs )
     target_dto  ( name command deps inputs excludes outputs bin checks tags fp platforms env timeout )
     alias_dto   ( name actual )      package_dto ( source targets aliases default_platforms )
                 an element N of targets / aliases = a nil entry (a null list element)
     oracle tables ( ( key R ) ... ) with R = E (error) or the value
   Commands:
     blocksmk <content>                     annotation blocks the Makefile scanner hands to YAML (hex, tab separated)
     blockssh <content>
     scanmk <content> <yaml table>          -> panic | error <class> | ok <found> <json dtos>   + guard=<0|1>
                                               (guard = Loader.mk_guard: 0 on the shape whose empty block is skipped)
     scansh <file name> <content> <yaml table>
     enrich <pkg path> <package_dto> <glob table> <dur table>     -> ok <json package> | error <class>
     guardmk <content>                      -> guard=<0|1>   (Loader.mk_guard on the scanned lines)
     blocksmk / blockssh / scanmk / scansh / guardmk take an optional last field <maxlen> (decimal): the
     bufio.Scanner token limit, default 65536 (the extracted List.rev is quadratic, so the token-too-long
     boundary is exercised with a small limit on both sides)
     merge <( (path dto) ... )> <glob table> <dur table>          -> ok nodes-ok|nodes-error <json packages> | error <class>
   JSON answers have the shape of the Go harness' dumps (strings hex encoded). *)
open Model
open Wire

type sx = A of string | L of sx list

let parse_sx (s : string) : sx =
  let toks = List.filter (fun t -> t <> "") (String.split_on_char ' ' s) in
  let rec one = function
    | "(" :: r -> let (items, r') = many r in (L items, r')
    | ")" :: _ -> failwith "sx: unexpected )"
    | a :: r -> (A a, r)
    | [] -> failwith "sx: eof"
  and many = function
    | ")" :: r -> ([], r)
    | [] -> failwith "sx: missing )"
    | toks -> let (x, r) = one toks in let (xs, r') = many r in (x :: xs, r')
  in
  match one toks with (x, []) -> x | _ -> failwith "sx: trailing tokens"

let max_token = nat_of_int 65536

let atom = function A a -> to_str (unhex a) | L _ -> failwith "atom expected"
let lst f = function L l -> List.map f l | A _ -> failwith "list expected"
let strs = lst atom
let pair = function L [a; b] -> (atom a, atom b) | _ -> failwith "pair expected"
let pairs = lst pair
let optl = function A "N" -> None | x -> Some (strs x)

let annot_of = function
  | L [name; deps; ins; tags; fp; env; tmo; plats; outs] ->
    { an_name = atom name; an_deps = strs deps; an_inputs = strs ins; an_tags = strs tags;
      an_fingerprint = pairs fp; an_env = pairs env; an_timeout = atom tmo; an_platforms = optl plats;
      an_outputs = strs outs }
  | _ -> failwith "annot"

let td_of = function
  | L [name; cmd; deps; ins; excl; outs; bin; checks; tags; fp; plats; env; tmo] ->
    { td_name = atom name; td_command = atom cmd; td_deps = strs deps; td_inputs = strs ins;
      td_excludes = strs excl; td_outputs = strs outs; td_bin = atom bin; td_checks = pairs checks;
      td_tags = strs tags; td_fingerprint = pairs fp; td_platforms = optl plats; td_env = pairs env;
      td_timeout = atom tmo }
  | _ -> failwith "target_dto"

let ad_of = function L [n; a] -> { ad_name = atom n; ad_actual = atom a } | _ -> failwith "alias_dto"

let pd_of = function
  | L [src; ts; als; dp] ->
    let nullable f = function A "N" -> None | x -> Some (f x) in
    { pd_source = atom src; pd_targets = lst (nullable td_of) ts; pd_aliases = lst (nullable ad_of) als;
      pd_default_platforms = optl dp }
  | _ -> failwith "package_dto"

(* oracle tables: lookup on the OCaml string of the key; a key that is missing is a protocol error *)
let table (f : sx -> 'a) (x : sx) : (string, 'a option) Hashtbl.t =
  let h = Hashtbl.create 16 in
  (match x with
   | L rows -> List.iter (function
       | L [A k; A "E"] -> Hashtbl.replace h (unhex k) None
       | L [A k; v] -> Hashtbl.replace h (unhex k) (Some (f v))
       | _ -> failwith "table row") rows
   | A _ -> failwith "table");
  h

let oracle name h = fun (k : ascii list) ->
  match Hashtbl.find_opt h (of_str k) with
  | Some r -> r
  | None -> failwith ("oracle " ^ name ^ ": no entry for " ^ hex (of_str k))

(* ---- JSON output, hex strings *)
let q s = "\"" ^ hex (of_str s) ^ "\""
let jl f l = "[" ^ String.concat "," (List.map f l) ^ "]"
let jp (a, b) = "[" ^ q a ^ "," ^ q b ^ "]"
let jopt = function None -> "[]" | Some l -> jl q l
let jlab (l : label) = "[" ^ q l.lpkg ^ "," ^ q l.lname ^ "]"
let jout (o : output) = "[" ^ q o.o_type ^ "," ^ q o.o_id ^ "]"

let j_dto (t : target_dto) =
  Printf.sprintf "{\"name\":%s,\"command\":%s,\"deps\":%s,\"inputs\":%s,\"outputs\":%s,\"bin\":%s,\"tags\":%s,\"fingerprint\":%s,\"env\":%s,\"platforms\":%s,\"has_platforms\":%s,\"timeout\":%s}"
    (q t.td_name) (q t.td_command) (jl q t.td_deps) (jl q t.td_inputs) (jl q t.td_outputs) (q t.td_bin)
    (jl q t.td_tags) (jl jp t.td_fingerprint) (jl jp t.td_env) (jopt t.td_platforms)
    (match t.td_platforms with None -> "false" | Some _ -> "true") (q t.td_timeout)

let j_target (t : target) =
  let bin = if t.t_bin.o_type = [] && t.t_bin.o_id = [] then "null" else jout t.t_bin in
  Printf.sprintf "{\"name\":%s,\"pkg\":%s,\"command\":%s,\"inputs\":%s,\"unresolved\":%s,\"excludes\":%s,\"outputs\":%s,\"bin\":%s,\"deps\":%s,\"tags\":%s,\"fingerprint\":%s,\"env\":%s,\"platforms\":%s,\"timeout\":\"%s\",\"checks\":%s}"
    (q t.t_label.lname) (q t.t_label.lpkg) (q t.t_command) (jl q t.t_inputs) (jl q t.t_unresolved)
    (jl q t.t_excludes) (jl jout t.t_outputs) bin (jl jlab t.t_deps) (jl q t.t_tags)
    (jl jp t.t_fingerprint) (jl jp t.t_env) (jopt t.t_platforms) (of_str t.t_timeout) (jl jp t.t_checks)

let j_alias (a : alias) =
  Printf.sprintf "{\"name\":%s,\"pkg\":%s,\"actual\":%s}" (q a.a_label.lname) (q a.a_label.lpkg) (jlab a.a_actual)

let j_pkg (p : package) =
  Printf.sprintf "{\"path\":%s,\"targets\":%s,\"aliases\":%s}" (q p.p_path) (jl j_target p.p_targets) (jl j_alias p.p_aliases)

let scan_err = function ErrYaml -> "yaml" | ErrNoColon -> "nocolon" | ErrTooLong -> "toolong"
let load_err = function
  | ELabel -> "label" | EDuplicate -> "duplicate" | EGlob -> "glob" | EOutput -> "output"
  | EBinOutput -> "binoutput" | EBinNotFile -> "binnotfile" | ETimeout -> "timeout"
  | ENullTarget -> "nulltarget" | ENullAlias -> "nullalias"

let show_scan f = function
  | Panic -> "panic"
  | ScanErr e -> "error\t" ^ scan_err e
  | ScanOk (found, a) -> Printf.sprintf "ok\t%s\t%s" (if found then "true" else "false") (f a)

let mx s = nat_of_int (int_of_string s)

let guard_of ?(ml = max_token) content =
  let (ls, _) = split_lines ml content in
  if mk_guard ls then "guard=1" else "guard=0"

(* the blocks a scanner hands to YAML: run it with the most permissive decoder and log the calls *)
let blocks run =
  let seen = ref [] in
  let y c = (let s = of_str c in if not (List.mem s !seen) then seen := s :: !seen); Some empty_annot in
  ignore (run y);
  String.concat "\t" ("blocks" :: List.rev_map hex !seen)

let fld s = to_str (unhex s)

let do_merge frs globt durt =
  let g = oracle "glob" (table strs (parse_sx globt)) in
  let d = oracle "dur" (table atom (parse_sx durt)) in
  let rec enrich_all = function
    | [] -> Ok []
    | L [p; dto] :: r ->
      (match enrich g d (atom p) (pd_of dto) with
       | Err e -> Err e
       | Ok pk -> (match enrich_all r with Err e -> Err e | Ok l -> Ok (pk :: l)))
    | _ -> failwith "fragment" in
  match parse_sx frs with
  | L l ->
    (match enrich_all l with
     | Err e -> "error\t" ^ load_err e
     | Ok pks ->
       (match merge_all pks with
        | None -> "error\tduplicate"
        | Some m ->
          let nodes = match load_all pks with Some _ -> "nodes-ok" | None -> "nodes-error" in
          Printf.sprintf "ok\t%s\t%s" nodes (jl j_pkg m)))
  | A _ -> failwith "fragments"

let () =
  (try
    while true do
      let line = input_line stdin in
      let res =
        try
          match split_tab line with
          | ["blocksmk"; c] -> blocks (fun y -> ignore (scan_makefile_file max_token y (fld c)))
          | ["blocksmk"; c; n] -> blocks (fun y -> ignore (scan_makefile_file (mx n) y (fld c)))
          | ["blockssh"; c] -> blocks (fun y -> ignore (scan_script_file max_token y [] (fld c)))
          | ["blockssh"; c; n] -> blocks (fun y -> ignore (scan_script_file (mx n) y [] (fld c)))
          | ["scanmk"; c; yt] ->
            let y = oracle "yaml" (table annot_of (parse_sx yt)) in
            show_scan (jl j_dto) (scan_makefile_file max_token y (fld c)) ^ "\t" ^ guard_of (fld c)
          | ["scanmk"; c; yt; n] ->
            let y = oracle "yaml" (table annot_of (parse_sx yt)) in
            show_scan (jl j_dto) (scan_makefile_file (mx n) y (fld c)) ^ "\t" ^ guard_of ~ml:(mx n) (fld c)
          | ["scansh"; file; c; yt] ->
            let y = oracle "yaml" (table annot_of (parse_sx yt)) in
            show_scan (fun t -> jl j_dto [t]) (scan_script_file max_token y (fld file) (fld c))
          | ["scansh"; file; c; yt; n] ->
            let y = oracle "yaml" (table annot_of (parse_sx yt)) in
            show_scan (fun t -> jl j_dto [t]) (scan_script_file (mx n) y (fld file) (fld c))
          | ["enrich"; p; dto; gt; dt] ->
            let g = oracle "glob" (table strs (parse_sx gt)) in
            let d = oracle "dur" (table atom (parse_sx dt)) in
            (match enrich g d (fld p) (pd_of (parse_sx dto)) with
             | Ok pk -> "ok\t" ^ j_pkg pk
             | Err e -> "error\t" ^ load_err e)
          | ["merge"; frs; gt; dt] -> do_merge frs gt dt
          | ["guardmk"; c] -> guard_of (fld c)
          | ["guardmk"; c; n] -> guard_of ~ml:(mx n) (fld c)
          | ["trim"; s] -> "trim\t" ^ hex (of_str (trim_space (fld s)))
          | cmd :: _ -> "unknown-command " ^ cmd
          | [] -> "empty"
        with Failure m -> "driver-error " ^ m
      in
      print_string res; print_char '\n'
    done
  with End_of_file -> ());
  flush stdout
