(* Driver of the store model (C07 / C08).  One case per stdin line, one observation line per case.

   case <faults> <op> <op> ...      same input as `harness store ops`; prints per op
                                      class|A:<obs>|B:<obs>|R:<obs>   (tab separated)
        optional first op  lf=<o|e|l,...>  local Set faults (made to happen by the harness: lbreak, or a key below an existing entry)
   steps <targets> <sched> <faults>   Layer 1: targets = t|t|..., t = op;op;..., op = B:<digest>:<hex.hex chunks>
                                      or R:<key>:<d1.d2>; sched = comma separated thread numbers (rest: in order);
                                      faults = string of 0/1 per step; prints the observation after every prefix
   guard <local cas keys csv> <remote cas keys csv>   local_sub_remote: false = the situation of the repaired finding C08-F1 *)
open Model
open Wire

let s = to_str
let path_of = function "cas" -> PCas | "target" -> PTarget | "taint" -> PTaint | p -> failwith ("path " ^ p)
let path_name = function PCas -> "cas" | PTarget -> "target" | PTaint -> "taint"
let dots_to_commas x = String.map (fun c -> if c = '.' then ',' else c) x
let commas_to_dots x = String.map (fun c -> if c = ',' then '.' else c) x

let show_val p (b : ascii list) =
  match p with
  | PTarget ->
    (* a marshalled TargetResult is never empty (it carries the change hash): payload = 'r' ^ csv *)
    let x = of_str b in
    "r:" ^ commas_to_dots (if String.length x > 0 then String.sub x 1 (String.length x - 1) else x)
  | _ -> hex (of_str b)

let obs (m : fsmap) =
  let items = List.map (fun ((p, k), b) -> path_name p ^ "/" ^ of_str k ^ "=" ^ show_val p b) m in
  String.concat "," (List.sort_uniq compare items)

let machine_of = function "A" -> MA | "B" -> MB | m -> failwith ("machine " ^ m)
let mode_of = function "l" -> Local | "w" -> Wrapped | m -> failwith ("mode " ^ m)

let parse_op (o : string) : wop option =
  match String.split_on_char ':' o with
  | ["reset"; m] -> Some (Reset (machine_of m))
  | "b" :: m :: md :: verb :: p :: k :: rest ->
    let p' = path_of p and k' = s k in
    let a = match verb, rest with
      | "get", _ -> AGet (p', k')
      | "set", [c] -> ASet (p', k', s (unhex c))
      | "ex", _ -> AExists (p', k')
      | "del", _ -> ADelete (p', k')
      | _ -> failwith "backend op" in
    Some (Do (machine_of m, mode_of md, a))
  | "c" :: m :: md :: verb :: d :: rest ->
    let a = match verb, rest with
      | "write", [c] -> ACasWrite (s d, s (unhex c))
      | "load", _ -> AGet (PCas, s d)
      | "ex", _ -> ACasExists (s d)
      | _ -> failwith "cas op" in
    Some (Do (machine_of m, mode_of md, a))
  | "r" :: m :: md :: verb :: k :: rest ->
    let a = match verb, rest with
      | "write", [r] -> ASet (PTarget, s k, s ("r" ^ dots_to_commas r))
      | "write", [] -> ASet (PTarget, s k, s "r")
      | "load", _ -> AGet (PTarget, s k)
      | "has", _ -> AExists (PTarget, s k)
      | _ -> failwith "result op" in
    Some (Do (machine_of m, mode_of md, a))
  | _ -> None

let op_path (o : wop) = match o with
  | Do (_, _, AGet (p, _)) -> p
  | _ -> PCas

let show_res (o : wop) (r : res) = match r with
  | ROk -> "ok" | RMiss -> "miss" | RErr -> "error" | RTrue -> "true" | RFalse -> "false"
  | RHit b -> "ok=" ^ show_val (op_path o) b

let rfault_of = function "n" -> FNone | "f" -> FFail | "m" -> FFail | "e" -> FEarly | "4" -> FNotFound | x -> failwith ("fault " ^ x)
let lfault_of = function "o" -> LOk | "e" -> LEarly | "l" -> LLate | x -> failwith ("lfault " ^ x)

let do_case = function
  | faults :: ops ->
    let rf = if faults = "-" || faults = "" then [] else List.map rfault_of (split_comma faults) in
    let lf, ops = match ops with
      | o :: rest when String.length o > 3 && String.sub o 0 3 = "lf=" ->
        List.map lfault_of (split_comma (String.sub o 3 (String.length o - 3))), rest
      | _ -> [], ops in
    let w = ref (empty_world rf lf) in
    let is_pre p o = String.length o > String.length p && String.sub o 0 (String.length p) = p in
    let outs = List.map (fun o ->
        if is_pre "lbreak:" o || is_pre "lfix:" o then
          (* the harness makes the local fault of the lf= list happen here; no model step *)
          Printf.sprintf "ok|A:%s|B:%s|R:%s" (obs !w.locA) (obs !w.locB) (obs !w.rem)
        else
        match parse_op o with
        | None -> "bad-op"
        | Some op ->
          let (r, w') = do_op !w op in
          w := w';
          Printf.sprintf "%s|A:%s|B:%s|R:%s" (show_res op r) (obs w'.locA) (obs w'.locB) (obs w'.rem)) ops in
    String.concat "\t" outs
  | _ -> failwith "case: arity"

(* ---- Layer 1 *)
let parse_l1_op (o : string) : op =
  match String.split_on_char ':' o with
  | ["B"; d; chunks] ->
    OBlob (s d, List.map (fun c -> s (unhex c)) (if chunks = "" then [] else String.split_on_char '.' chunks))
  | ["B"; d] -> OBlob (s d, [])
  | ["R"; k; r] -> OResult (s k, [s ("r" ^ dots_to_commas r)])
  | ["R"; k] -> OResult (s k, [s "r"])
  | _ -> failwith ("l1 op " ^ o)

let show_state nthreads (st : state) =
  let tmps = ref 0 and deads = ref [] in
  for t = 0 to nthreads - 1 do
    (match st.tmp (nat_of_int t) with Some _ -> incr tmps | None -> ());
    if st.dead (nat_of_int t) then deads := string_of_int t :: !deads
  done;
  Printf.sprintf "%s|tmp=%d|dead=%s" (obs st.vis) !tmps (String.concat "." (List.rev !deads))

let rec firstn n l = if n <= 0 then [] else match l with [] -> [] | x :: r -> x :: firstn (n - 1) r

let do_steps = function
  | [targets; sched; faults] ->
    let opss = List.map (fun t -> if t = "" then [] else List.map parse_l1_op (String.split_on_char ';' t))
        (String.split_on_char '|' targets) in
    let lists = per_target_lists opss in
    let sch = List.map (fun x -> nat_of_int (int_of_string x)) (split_comma (if sched = "-" then "" else sched)) in
    let il = merge_by sch lists in
    let fl = if faults = "-" then [] else List.init (String.length faults) (fun i -> faults.[i] = '1') in
    let n = List.length il and nt = List.length opss in
    let outs = List.init (n + 1) (fun i -> show_state nt (run_store (boot []) (firstn i il) fl)) in
    String.concat "\t" outs
  | _ -> failwith "steps: arity"

let do_guard = function
  | [l; r] ->
    let mk ks = List.map (fun k -> ((PCas, s k), [])) (split_comma (if ks = "-" then "" else ks)) in
    let w0 = empty_world [] [] in
    let w = { w0 with locA = mk l; rem = mk r } in
    if local_sub_remote w MA then "true" else "false"
  | _ -> failwith "guard: arity"

let () =
  (try
    while true do
      let line = input_line stdin in
      let res =
        try
          match split_tab line with
          | "case" :: args -> do_case args
          | "steps" :: args -> do_steps args
          | "guard" :: args -> do_guard args
          | cmd :: _ -> "unknown-command " ^ cmd
          | [] -> "empty"
        with Failure m -> "driver-error " ^ m
      in
      print_string res; print_char '\n'
    done
  with End_of_file -> ())
