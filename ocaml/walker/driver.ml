(* Driver for the extracted scheduler model (Walker.v).  One answer line per input line.

   graph <W> <ff 0|1> <deps>            set graph/config (deps: per node, ';' separated, each a ','
                                        separated list of smaller node numbers), state := init
   ev <Event> [n]                       apply one model event: "ok <state>" | "rej <state>"
   state                                print the state
   enabled                              events the model allows next
   obs <S> <Enq> <B1> <B2> <Ok> <Fail> <ret> [<ROk> <RFail>]
                                        explain a quiescent observation of the real walker+pool by
                                        internal events (Start, CancelRecv, Pick, Reject, WalkReturn),
                                        each applied through the extracted [step]; then compare in
                                        both directions: "ok <state>" | "BREAK <why> | <state>".
                                        Ok/Fail = the walker's own completions map (model: st),
                                        ROk/RFail = the map Walk returned to its caller, as it is NOW
                                        (model: snap, the snapshot taken by WalkReturn)
   replay <W> <ff> <deps> <ev;ev;...>   one line: per event accepted?/state, '|' separated
   explore <W> <ff> <deps> <maxstates>  bounded exhaustive exploration (tiny graphs)
   walk <W> <ff> <deps> <seed> <cancelpct>  one seeded random walk of the model to a terminal state *)
open Model
open Wire

let ints s = List.map int_of_string (List.filter (fun x -> x <> "") (String.split_on_char ',' s))
let parse_graph (s : string) : int list array =
  if s = "" then [||] else Array.of_list (List.map ints (String.split_on_char ';' s))
let to_model_graph (a : int list array) : nat list list =
  Array.to_list (Array.map (fun ds -> List.map nat_of_int ds) a)

type ctx = { g : nat list list; n : int; c : config; mutable s : state; nats : nat array }

(* re-tabulate the function-typed components so that closures do not pile up *)
let normalise (cx : ctx) (s : state) : state =
  let n = cx.n in
  let sa = Array.init n (fun i -> s.st cx.nats.(i)) in
  let ca = Array.init n (fun i -> s.cp cx.nats.(i)) in
  let ma = Array.init n (fun i -> s.cmd cx.nats.(i)) in
  let na = Array.init n (fun i -> s.snap cx.nats.(i)) in
  let dflt_snap = s.snap cx.nats.(n) in
  let dflt_st = s.st cx.nats.(n) and dflt_cp = s.cp cx.nats.(n) and dflt_cmd = s.cmd cx.nats.(n) in
  let idx f d = fun (k : nat) -> let i = int_of_nat k in if i < n then f i else d in
  { s with st = idx (fun i -> sa.(i)) dflt_st; cp = idx (fun i -> ca.(i)) dflt_cp;
           cmd = idx (fun i -> ma.(i)) dflt_cmd; snap = idx (fun i -> na.(i)) dflt_snap }

let mk_ctx w ffb (deps : string) : ctx =
  let a = parse_graph deps in
  let g = to_model_graph a in
  let n = Array.length a in
  let cx = { g; n; c = { w = nat_of_int w; ff = ffb }; s = init g;
             nats = Array.init (n + 1) nat_of_int } in
  cx.s <- normalise cx cx.s; cx

let st_char = function
  | Parked -> 'P' | Ready -> 'R' | Queued -> 'Q' | Running -> 'X' | Ok -> 'O' | Failed -> 'F'
  | Skipped -> 'S' | Aborted -> 'A'

let b01 b = if b then "1" else "0"

let nodes_where (cx : ctx) (p : int -> bool) : string =
  let l = ref [] in
  for i = cx.n - 1 downto 0 do if p i then l := string_of_int i :: !l done;
  String.concat "," !l

(* the caller's map lags behind the walker's own map (completions recorded after Walk returned) *)
let late (cx : ctx) (s : state) : bool =
  let r = ref false in
  for i = 0 to cx.n - 1 do if s.snap cx.nats.(i) <> entry_of (s.st cx.nats.(i)) then r := true done;
  s.ret && !r

let show (cx : ctx) : string =
  let s = cx.s in
  let by ch = nodes_where cx (fun i -> st_char (s.st cx.nats.(i)) = ch) in
  Printf.sprintf "P=%s R=%s Q=%s X=%s O=%s F=%s S=%s A=%s cp=%s cmd=%s fft=%s ctx=%s dead=%d ret=%s rok=%s rfail=%s late=%s run=%d term=%s"
    (by 'P') (by 'R') (by 'Q') (by 'X') (by 'O') (by 'F') (by 'S') (by 'A')
    (nodes_where cx (fun i -> s.cp cx.nats.(i))) (nodes_where cx (fun i -> s.cmd cx.nats.(i)))
    (b01 s.fft) (b01 s.ctxc) (int_of_nat s.dead) (b01 s.ret)
    (nodes_where cx (fun i -> s.snap cx.nats.(i) = Success)) (nodes_where cx (fun i -> s.snap cx.nats.(i) = Failure))
    (b01 (late cx s)) (int_of_nat (running cx.g s)) (b01 (terminalb cx.g cx.c s))

let key (cx : ctx) : string =
  let s = cx.s in
  let b = Buffer.create (3 * cx.n + 8) in
  for i = 0 to cx.n - 1 do
    Buffer.add_char b (st_char (s.st cx.nats.(i)));
    Buffer.add_char b (if s.cp cx.nats.(i) then 'c' else '.');
    Buffer.add_char b (if s.cmd cx.nats.(i) then 'm' else '.');
    Buffer.add_char b (match s.snap cx.nats.(i) with Absent -> '.' | Success -> 's' | Failure -> 'f')
  done;
  Buffer.add_string b (Printf.sprintf "%s%s%d%s" (b01 s.fft) (b01 s.ctxc) (int_of_nat s.dead) (b01 s.ret));
  Buffer.contents b

let ev_name = function
  | Start n -> "Start " ^ string_of_int (int_of_nat n)
  | CancelRecv n -> "CancelRecv " ^ string_of_int (int_of_nat n)
  | Pick n -> "Pick " ^ string_of_int (int_of_nat n)
  | CmdStart n -> "CmdStart " ^ string_of_int (int_of_nat n)
  | Reject n -> "Reject " ^ string_of_int (int_of_nat n)
  | FinishOk n -> "FinishOk " ^ string_of_int (int_of_nat n)
  | FinishFail n -> "FinishFail " ^ string_of_int (int_of_nat n)
  | FinishCancelled n -> "FinishCancelled " ^ string_of_int (int_of_nat n)
  | CtxCancel -> "CtxCancel" | WorkerExit -> "WorkerExit" | WalkReturn -> "WalkReturn"

let parse_ev (s : string) : event =
  match String.split_on_char ' ' (String.trim s) with
  | ["CtxCancel"] -> CtxCancel | ["WorkerExit"] -> WorkerExit | ["WalkReturn"] -> WalkReturn
  | [k; n] ->
    let n = nat_of_int (int_of_string n) in
    (match k with
     | "Start" -> Start n | "CancelRecv" -> CancelRecv n | "Pick" -> Pick n | "CmdStart" -> CmdStart n
     | "Reject" -> Reject n | "FinishOk" -> FinishOk n | "FinishFail" -> FinishFail n
     | "FinishCancelled" -> FinishCancelled n | _ -> failwith ("event " ^ s))
  | _ -> failwith ("event " ^ s)

let apply (cx : ctx) (e : event) : bool =
  match step cx.g cx.c cx.s e with
  | Some s' -> cx.s <- normalise cx s'; true
  | None -> false

let system_event = function
  | Start _ | CancelRecv _ | Pick _ | FinishOk _ | WalkReturn -> true | _ -> false

(* ------------------------------------------------------------------ observe and explain *)
module IS = Set.Make (Int)
let set_of s = List.fold_left (fun a x -> IS.add x a) IS.empty (ints s)
let show_set s = String.concat "," (List.map string_of_int (IS.elements s))

let observe (cx : ctx) sS sEnq sB1 sB2 sOk sFail (oret : bool) (returned : (IS.t * IS.t) option) : string =
  let sE = IS.union sB1 sB2 in
  let stat i = cx.s.st cx.nats.(i) in
  let progress = ref true in
  let why = ref [] in
  let model_set p = let r = ref IS.empty in for i = 0 to cx.n - 1 do if p i then r := IS.add i !r done; !r in
  (* Walk returns and rejected callbacks complete in the same burst, in either order (both orders are
     schedules of the model): the observed returned map tells which rejections the snapshot saw.  A
     rejection it did not see is explained after WalkReturn. *)
  let to_return () = oret && not cx.s.ret in
  let unseen i = match returned with Some (_, rFail) -> not (IS.mem i rFail) | None -> false in
  let own_is_returned () = match returned with
    | Some (rOk, rFail) -> IS.equal rOk (model_set (fun i -> stat i = Ok)) && IS.equal rFail (model_set (fun i -> stat i = Failed))
    | None -> true in
  while !progress do
    progress := false;
    for i = 0 to cx.n - 1 do
      let k = cx.nats.(i) in
      (match stat i with
       | Ready when IS.mem i sS -> if apply cx (Start k) then progress := true
       | (Parked | Ready) when (not (IS.mem i sS)) && cx.s.cp k -> if apply cx (CancelRecv k) then progress := true
       | Queued when IS.mem i sFail && not (to_return () && unseen i) -> if apply cx (Reject k) then progress := true
       | Queued when IS.mem i sE -> if apply cx (Pick k) then progress := true
       | _ -> ())
    done;
    if to_return () && own_is_returned () then (if apply cx WalkReturn then progress := true);
    if (not !progress) && to_return () then (if apply cx WalkReturn then progress := true)
  done;
  let s = cx.s in
  let cmp name real model =
    if not (IS.equal real model) then
      why := Printf.sprintf "%s: real={%s} model={%s}" name (show_set real) (show_set model) :: !why in
  cmp "callback-entered" sS (model_set (fun i -> match stat i with Queued | Running | Ok | Failed | Aborted -> true | _ -> false));
  cmp "in-task" sE (model_set (fun i -> stat i = Running));
  cmp "command-started-and-running" sB2 (model_set (fun i -> stat i = Running && s.cmd cx.nats.(i)));
  cmp "completed-ok" sOk (model_set (fun i -> stat i = Ok));
  cmp "completed-failed" sFail (model_set (fun i -> stat i = Failed));
  if oret <> s.ret then why := Printf.sprintf "walk-returned: real=%b model=%b" oret s.ret :: !why;
  (match returned with
   | Some (rOk, rFail) ->
     cmp "returned-map-ok" rOk (model_set (fun i -> s.snap cx.nats.(i) = Success));
     cmp "returned-map-failed" rFail (model_set (fun i -> s.snap cx.nats.(i) = Failure))
   | None -> ());
  (* the other direction: what the model says must have happened by quiescence *)
  for i = 0 to cx.n - 1 do
    (match stat i with
     | Ready -> why := Printf.sprintf "node %d is Ready in the model but its callback was not entered" i :: !why
     | Queued when IS.mem i sEnq && not (closed s) && int_of_nat (running cx.g s) < int_of_nat cx.c.w ->
       why := Printf.sprintf "node %d is enqueued, a worker is idle, and it was not picked" i :: !why
     | _ -> ())
  done;
  if (not s.ret) && enabledb cx.g cx.c s WalkReturn then
    why := "model enables WalkReturn but Walk has not returned" :: !why;
  if !why = [] then "ok " ^ show cx else "BREAK " ^ String.concat "; " (List.rev !why) ^ " | " ^ show cx

(* ------------------------------------------------------------------ exploration *)
let reach_deps (a : int list array) : IS.t array =
  let n = Array.length a in
  let r = Array.make n IS.empty in
  for i = 0 to n - 1 do
    List.iter (fun d -> r.(i) <- IS.add d (IS.union r.(i) r.(d))) a.(i)
  done; r

let explore w ffb deps maxstates : string =
  let a = parse_graph deps in
  let cx = mk_ctx w ffb deps in
  let anc = reach_deps a in
  let seen = Hashtbl.create 100003 in
  let q = Queue.create () in
  Hashtbl.add seen (key cx) (); Queue.add (cx.s, 0) q;
  let states = ref 0 and terminals = ref 0 and deadlocks = ref 0 and df = ref 0 and bound = ref 0
  and maxlen = ref 0 and lates = ref 0 and snap_bad = ref 0 and capped = ref false and mu_bad = ref 0 in
  let outcomes = Hashtbl.create 97 in
  let first_deadlock = ref "" in
  while not (Queue.is_empty q) do
    let (s, d) = Queue.pop q in
    cx.s <- s; incr states;
    if d > !maxlen then maxlen := d;
    (* model-free invariants, recomputed here independently of the proofs *)
    for i = 0 to cx.n - 1 do
      (match s.st cx.nats.(i) with
       | Ready | Queued | Running | Ok | Failed | Aborted ->
         if not (IS.for_all (fun x -> s.st cx.nats.(x) = Ok) anc.(i)) then incr df
       | _ -> ())
    done;
    if int_of_nat (running cx.g s) + int_of_nat s.dead > w then incr bound;
    if late cx s then incr lates;
    (* the caller's map, recomputed here independently of the proofs: empty before the return, every entry
       is the entry of the walker's own map *)
    for i = 0 to cx.n - 1 do
      let e = s.snap cx.nats.(i) in
      if (not s.ret && e <> Absent) || (e <> Absent && e <> entry_of (s.st cx.nats.(i))) then incr snap_bad
    done;
    let en = enabled cx.g cx.c s in
    if terminalb cx.g cx.c s then begin
      incr terminals;
      let cls = String.init cx.n (fun i -> st_char (s.st cx.nats.(i))) in
      Hashtbl.replace outcomes cls ()
    end else if not (List.exists system_event en) then begin
      incr deadlocks; if !first_deadlock = "" then first_deadlock := show cx
    end;
    let m0 = int_of_nat (mu cx.g cx.c s) in
    List.iter (fun e ->
        cx.s <- s;
        if apply cx e then begin
          if int_of_nat (mu cx.g cx.c cx.s) >= m0 then incr mu_bad;
          (* ... and no event after the return changes it; WalkReturn copies the own map *)
          for i = 0 to cx.n - 1 do
            let k = cx.nats.(i) in
            if s.ret && cx.s.snap k <> s.snap k then incr snap_bad;
            if (not s.ret) && cx.s.ret && cx.s.snap k <> entry_of (s.st k) then incr snap_bad
          done;
          let k = key cx in
          if not (Hashtbl.mem seen k) then
            if Hashtbl.length seen >= maxstates then capped := true
            else begin Hashtbl.add seen k (); Queue.add (cx.s, d + 1) q end
        end) en
  done;
  Printf.sprintf "explore states=%d terminal=%d deadlocks=%d depsfirst_viol=%d bound_viol=%d mu_viol=%d snap_viol=%d late_states=%d maxlen=%d outcomes=%d capped=%s%s"
    !states !terminals !deadlocks !df !bound !mu_bad !snap_bad !lates !maxlen (Hashtbl.length outcomes) (b01 !capped)
    (if !first_deadlock = "" then "" else " first_deadlock=" ^ !first_deadlock)

(* splitmix64 on OCaml's 63-bit ints is not bit-compatible with vlib.Rng; the seed comes from
   vlib.Rng and this generator only has to be deterministic *)
let walk w ffb deps seed cancelpct : string =
  let cx = mk_ctx w ffb deps in
  let st = ref (seed land 0x3FFFFFFF) in
  let next k = st := (!st * 1103515245 + 12345) land 0x3FFFFFFF; if k <= 0 then 0 else (!st lsr 8) mod k in
  let evs = ref [] in
  let fin = ref false and steps = ref 0 in
  while not !fin do
    let en = List.filter (fun e -> match e with
        | CtxCancel -> next 100 < cancelpct && next 10 = 0
        | _ -> true) (enabled cx.g cx.c cx.s) in
    let en = if List.exists system_event en && next 4 <> 0 then List.filter (fun e -> e <> WorkerExit) en else en in
    if en = [] || terminalb cx.g cx.c cx.s then fin := true
    else begin
      let e = List.nth en (next (List.length en)) in
      ignore (apply cx e); evs := ev_name e :: !evs; incr steps
    end
  done;
  Printf.sprintf "walk %d %s | %s" !steps (String.concat ";" (List.rev !evs)) (show cx)

(* ------------------------------------------------------------------ main loop *)
let () =
  let cur = ref (mk_ctx 1 false "") in
  (try
     while true do
       let line = input_line stdin in
       let res =
         try
           match split_tab line with
           | ["graph"; w; f; deps] ->
             cur := mk_ctx (int_of_string w) (f = "1") deps;
             Printf.sprintf "graph %d topo=%s wf=%s %s" !cur.n (b01 (topob !cur.g)) (b01 (wf_graphb !cur.g)) (show !cur)
           | ["ev"; e] -> let ok = apply !cur (parse_ev e) in (if ok then "ok " else "rej ") ^ show !cur
           | ["state"] -> show !cur
           | ["enabled"] -> String.concat ";" (List.map ev_name (enabled !cur.g !cur.c !cur.s))
           | ["obs"; sS; sEnq; sB1; sB2; sOk; sFail; r] ->
             observe !cur (set_of sS) (set_of sEnq) (set_of sB1) (set_of sB2) (set_of sOk) (set_of sFail) (r = "1") None
           | ["obs"; sS; sEnq; sB1; sB2; sOk; sFail; r; rOk; rFail] ->
             observe !cur (set_of sS) (set_of sEnq) (set_of sB1) (set_of sB2) (set_of sOk) (set_of sFail) (r = "1")
               (Some (set_of rOk, set_of rFail))
           | ["replay"; w; f; deps; evs] ->
             let cx = mk_ctx (int_of_string w) (f = "1") deps in
             let parts = List.map (fun e ->
                 let ok = apply cx (parse_ev e) in
                 (if ok then "ok " else "rej ") ^ e ^ " -> " ^ show cx)
                 (List.filter (fun x -> x <> "") (String.split_on_char ';' evs)) in
             String.concat " | " parts
           | ["explore"; w; f; deps; m] -> explore (int_of_string w) (f = "1") deps (int_of_string m)
           | ["walk"; w; f; deps; seed; cp] -> walk (int_of_string w) (f = "1") deps (int_of_string seed) (int_of_string cp)
           | cmd :: _ -> "unknown-command " ^ cmd
           | [] -> "empty"
         with Failure m -> "error " ^ m | Not_found -> "error not-found" | Invalid_argument m -> "error " ^ m
       in
       print_string res; print_char '\n'
     done
   with End_of_file -> ())
