(* Driver for the extracted lock model (Lock.v, property C10).

   run <n> <dead> <lockinit> <tokens>
       n        number of process ordinals 0..n-1
       dead     comma separated ordinals that are dead from the start, or "-"
       lockinit absent | blank | pid<q>      (blank = empty or unparsable content)
       tokens   comma separated events: c<p> TryCreate, r<p> Read, p<p> Probe,
                x<p> Remove, k<p> Wake, u<p> Unlock, !<p> Crash, a<p> Cancel (the waiter's context
                is cancelled: enabled at W only), s<p> = whichever non-crash event process p can
                take by itself now
     -> one line: "run" TAB obs;obs;...   (first obs = initial state, then one per token)
        obs = <event>/<enabled 0|1>/<lock>/<pc,pc,...>/<holders>/<guard>
        lock    absent | blank:<inode> | pid<q>:<inode>
        pc      I | R | P<i>.<q> | X<i> | X- | W | G(gave up) | H<i> | D | Z(dead)
        holders ordinals joined by "+", or "-"
        guard   u = remove_of_unexamined_inode fired on this step, - = not
       a token that is not enabled leaves the state unchanged (enabled = 0)

   explore <n> <dead> <lockinit> <depth> <maxcrash> [<maxcancel>]
     breadth-first enumeration of the schedules of length <= depth with at most maxcrash Crash
     events and at most maxcancel (default 0) Cancel events; states are identified up to renaming of inodes.  Prints one line per schedule worth
     replaying: every transition (state, event) of the explored graph is the last step of at
     least one printed schedule or an inner step of one.
     -> "sched" TAB tokens TAB <mutex violated 0|1> TAB <rui fired 0|1> TAB <leaf|edge>
        ... "end" TAB <schedules> TAB <states> TAB <transitions> *)
open Model
open Wire

let ni = int_of_nat
let nn = nat_of_int

let show_pc = function
  | Idle -> "I"
  | WantRead -> "R"
  | WantProbe (i, q) -> Printf.sprintf "P%d.%d" (ni i) (ni q)
  | WantRemove None -> "X-"
  | WantRemove (Some i) -> "X" ^ string_of_int (ni i)
  | Waiting -> "W"
  | GaveUp -> "G"
  | Held i -> "H" ^ string_of_int (ni i)
  | Done -> "D"
  | Dead -> "Z"

let show_lock s = match s.lock with
  | None -> "absent"
  | Some i -> (match s.content i with
      | None -> "blank:" ^ string_of_int (ni i)
      | Some q -> Printf.sprintf "pid%d:%d" (ni q) (ni i))

let range n = List.init n (fun i -> i)

let holders n s = List.filter (fun p -> holds_b s (nn p)) (range n)

let show_state n s =
  let hs = holders n s in
  Printf.sprintf "%s/%s/%s" (show_lock s)
    (String.concat "," (List.map (fun p -> show_pc (s.pcs (nn p))) (range n)))
    (if hs = [] then "-" else String.concat "+" (List.map string_of_int hs))

let show_event = function
  | TryCreate p -> "c" ^ string_of_int (ni p)
  | Read p -> "r" ^ string_of_int (ni p)
  | Probe p -> "p" ^ string_of_int (ni p)
  | Remove p -> "x" ^ string_of_int (ni p)
  | Wake p -> "k" ^ string_of_int (ni p)
  | Unlock p -> "u" ^ string_of_int (ni p)
  | Crash p -> "!" ^ string_of_int (ni p)
  | Cancel p -> "a" ^ string_of_int (ni p)

(* token -> event (None: an "s" token for a process with nothing to do) *)
let parse_token s tok =
  let p = nn (int_of_string (String.sub tok 1 (String.length tok - 1))) in
  match tok.[0] with
  | 'c' -> Some (TryCreate p) | 'r' -> Some (Read p)
  | 'p' -> Some (Probe p) | 'x' -> Some (Remove p) | 'k' -> Some (Wake p)
  | 'u' -> Some (Unlock p) | '!' -> Some (Crash p) | 'a' -> Some (Cancel p)
  | 's' -> next_event s p
  | _ -> failwith ("bad token " ^ tok)

let parse_dead d = if d = "-" || d = "" then [] else List.map (fun x -> nn (int_of_string x)) (split_comma d)

let parse_lockinit l =
  if l = "absent" then None
  else if l = "blank" then Some None
  else if String.length l > 3 && String.sub l 0 3 = "pid" then
    Some (Some (nn (int_of_string (String.sub l 3 (String.length l - 3)))))
  else failwith ("bad lockinit " ^ l)

let guard_flag s e = if remove_of_unexamined_inode s e then "u" else "-"

let do_run = function
  | [n; dead; lk; toks] ->
    let n = int_of_string n in
    let s = ref (mk_init (parse_dead dead) (parse_lockinit lk)) in
    let obs = ref [Printf.sprintf "init/1/%s/-" (show_state n !s)] in
    List.iter (fun tok ->
        match parse_token !s tok with
        | None -> obs := Printf.sprintf "%s/0/%s/-" tok (show_state n !s) :: !obs
        | Some e ->
          (match step !s e with
           | None -> obs := Printf.sprintf "%s/0/%s/-" (show_event e) (show_state n !s) :: !obs
           | Some s' ->
             let g = guard_flag !s e in
             s := s';
             obs := Printf.sprintf "%s/1/%s/%s" (show_event e) (show_state n s') g :: !obs))
      (if toks = "-" then [] else split_comma toks);
    "run\t" ^ String.concat ";" (List.rev !obs)
  | _ -> failwith "run: arity"

(* canonical form of a state up to inode renaming: inodes are numbered in order of first
   appearance (lock first, then the pcs in process order); the content of each is included *)
let canon n s =
  let tbl = Hashtbl.create 8 in
  let b = Buffer.create 64 in
  let name i =
    let i = ni i in
    match Hashtbl.find_opt tbl i with
    | Some k -> k
    | None ->
      let k = Hashtbl.length tbl in
      Hashtbl.add tbl i k;
      k in
  let ino i =
    let fresh = not (Hashtbl.mem tbl (ni i)) in
    let k = name i in
    if fresh then
      Printf.sprintf "%d[%s]" k (match s.content i with None -> "" | Some q -> string_of_int (ni q))
    else string_of_int k in
  (match s.lock with None -> Buffer.add_string b "absent" | Some i -> Buffer.add_string b ("L" ^ ino i));
  List.iter (fun p ->
      Buffer.add_char b '|';
      Buffer.add_string b (match s.pcs (nn p) with
          | Idle -> "I" | WantRead -> "R" | Waiting -> "W" | GaveUp -> "G" | Done -> "D" | Dead -> "Z"
          | Held i -> "H" ^ ino i
          | WantProbe (i, q) -> Printf.sprintf "P%s.%d" (ino i) (ni q)
          | WantRemove None -> "X-"
          | WantRemove (Some i) -> "X" ^ ino i))
    (range n);
  Buffer.contents b

let rec do_explore = function
  | [n; dead; lk; depth; maxcrash] -> do_explore [n; dead; lk; depth; maxcrash; "0"]
  | [n; dead; lk; depth; maxcrash; maxcancel] ->
    let n = int_of_string n and depth = int_of_string depth and maxcrash = int_of_string maxcrash
    and maxcancel = int_of_string maxcancel in
    let s0 = mk_init (parse_dead dead) (parse_lockinit lk) in
    let seen = Hashtbl.create 4096 in
    Hashtbl.add seen (canon n s0) ();
    (* frontier entries: state, reversed path, (crashes used, cancels used), viol, rui *)
    let frontier = ref [(s0, [], (0, 0), false, false)] in
    let nsched = ref 0 and ntrans = ref 0 in
    let out = Buffer.create 65536 in
    let emit path v u kind =
      incr nsched;
      Buffer.add_string out (Printf.sprintf "sched\t%s\t%d\t%d\t%s\n"
        (String.concat "," (List.rev_map show_event path))
        (if v then 1 else 0) (if u then 1 else 0) kind) in
    for d = 1 to depth do
      let nxt = ref [] in
      List.iter (fun (s, path, (cr, cn), v, u) ->
          let any = ref false in
          List.iter (fun p ->
              let evs =
                (match next_event s (nn p) with Some e -> [e] | None -> []) @
                (if cr < maxcrash then [Crash (nn p)] else []) @
                (if cn < maxcancel then [Cancel (nn p)] else []) in
              List.iter (fun e ->
                  match step s e with
                  | None -> ()
                  | Some s' ->
                    incr ntrans;
                    any := true;
                    let u' = u || remove_of_unexamined_inode s e
                    and v' = v || List.length (holders n s') > 1
                    and cr' = (match e with Crash _ -> (cr + 1, cn) | Cancel _ -> (cr, cn + 1) | _ -> (cr, cn)) in
                    let key = canon n s' in
                    if Hashtbl.mem seen key then emit (e :: path) v' u' "edge"
                    else begin
                      Hashtbl.add seen key ();
                      nxt := (s', e :: path, cr', v', u') :: !nxt
                    end) evs)
            (range n);
          (* a terminal state: its path is not a prefix of any other printed schedule *)
          if not !any && path <> [] then emit path v u "leaf")
        !frontier;
      frontier := List.rev !nxt;
      if d = depth then List.iter (fun (_, path, _, v, u) -> emit path v u "leaf") !frontier
    done;
    Buffer.add_string out (Printf.sprintf "end\t%d\t%d\t%d" !nsched (Hashtbl.length seen) !ntrans);
    Buffer.contents out
  | _ -> failwith "explore: arity"

let () =
  (try
    while true do
      let line = input_line stdin in
      let res =
        match split_tab line with
        | "run" :: args -> do_run args
        | "explore" :: args -> do_explore args
        | "witness" :: ["w1"] -> String.concat "," (List.map show_event w1_sched)
        | "witness" :: ["w2"] -> String.concat "," (List.map show_event w2_sched)
        | cmd :: _ -> "unknown-command " ^ cmd
        | [] -> "empty"
      in
      print_string res; print_char '\n'
    done
  with End_of_file -> ());
