(* Driver of the extracted `analysis` model (C11).  One case per input line, tab separated,
   strings hex encoded ("-" = empty).

   graph <root> <node> <node> ...
       root  : hex of the absolute workspace root, e.g. /w/ws
       node  : T|pkg|name|deps|inputs|outputs|bin|tags|nocmd      (target)
               A|pkg|name|apkg|aname                               (alias)
               deps: pkg:name,pkg:name   inputs/tags: hex,hex   outputs: f:hex,d:hex,k:hex
               (f file, d dir, k docker)   nocmd: 0|1
     -> dup | graph=<ok | class+class>\tcons=<class,class | ->     (classes sorted)
   clean <p> | join <a> <b> | esc <p> | within <path> <dir>
   outpath <root> <pkg> <id> | ws <root> <pkg> <rel>               -> hex string or 0/1 *)
open Model
open Wire

let fld s = to_str (unhex s)
let out s = hex (of_str s)
let bar s = String.split_on_char '|' s
let lab p n = { lpkg = fld p; lname = fld n }
let pairs s = List.map (fun e -> match String.split_on_char ':' e with
    | [a; b] -> (a, b) | _ -> failwith "pair") (split_comma s)

(* elements of a clean absolute root: "/w/ws" -> ["w"; "ws"] *)
let rootc (h : string) : ascii list list =
  List.filter_map (fun c -> if c = "" then None else Some (to_str c)) (String.split_on_char '/' (unhex h))

let otype = function "f" -> OFile | "d" -> ODir | "k" -> ODocker | _ -> failwith "otype"

let node (s : string) : node =
  match bar s with
  | ["T"; pkg; name; deps; ins; outs; bin; tags; nocmd] ->
    NTarget { t_label = lab pkg name;
              t_deps = List.map (fun (p, n) -> lab p n) (pairs deps);
              t_inputs = List.map fld (split_comma ins);
              t_outputs = List.map (fun (t, i) -> { o_type = otype t; o_id = fld i }) (pairs outs);
              t_bin = fld bin; t_tags = List.map fld (split_comma tags); t_nocmd = (nocmd = "1") }
  | ["A"; pkg; name; apkg; aname] -> NAlias (lab pkg name, lab apkg aname)
  | _ -> failwith ("node: " ^ s)

let cls_name = function
  | Dup -> "dup" | Missing -> "missing" | SelfLoop -> "self" | Cycle -> "cycle" | CycleFuel -> "fuel"
  | Conflict -> "conflict" | InputPath -> "input-path" | OutputPath -> "output-path"
  | TestNoCmd -> "test-no-command" | DepRule -> "deprule"

let show sep = function
  | [] -> None
  | cs -> Some (String.concat sep (List.sort_uniq compare (List.map cls_name cs)))

let do_graph = function
  | root :: ns ->
    let g = List.map node ns in
    let rc = rootc root in
    (match classes rc g with
     | [Dup] -> "dup"
     | _ ->
       let gc = match show "+" (graph_classes rc g) with None -> "ok" | Some s -> s in
       let cc = match show "," (constraint_classes rc g) with None -> "-" | Some s -> s in
       let v = match validate rc g with Accept -> "accept" | Reject _ -> "reject" in
       Printf.sprintf "graph=%s\tcons=%s\t%s" gc cc v)
  | [] -> failwith "graph: arity"

let b x = if x then "1" else "0"

let () =
  (try
    while true do
      let line = input_line stdin in
      let res =
        match split_tab line with
        | "graph" :: args -> do_graph args
        | ["clean"; p] -> out (clean (fld p))
        | ["join"; a; c] -> out (join_path [fld a; fld c])
        | ["esc"; p] -> b (tries_to_escape (fld p))
        | ["within"; p; d] -> b (path_within (fld p) (fld d))
        | ["outpath"; r; p; i] -> out (clean_output_path (rootc r) (fld p) (fld i))
        | ["ws"; r; p; i] -> b (is_within_workspace (rootc r) (fld p) (fld i))
        | cmd :: _ -> "unknown-command " ^ cmd
        | [] -> "empty"
      in
      print_string res; print_char '\n'
    done
  with End_of_file -> ());
  flush stdout
