(* Conversions between OCaml strings and the extracted inductive types. *)
open Model [@@warning "-33"]

let ascii_tbl : ascii array =
  Array.init 256 (fun n ->
    let b i = (n lsr i) land 1 = 1 in
    Ascii (b 0, b 1, b 2, b 3, b 4, b 5, b 6, b 7))

let code_of_ascii (Ascii (b0,b1,b2,b3,b4,b5,b6,b7)) =
  let v b i = if b then 1 lsl i else 0 in
  v b0 0 + v b1 1 + v b2 2 + v b3 3 + v b4 4 + v b5 5 + v b6 6 + v b7 7

let to_str (s : string) : ascii list =
  let r = ref [] in
  for i = String.length s - 1 downto 0 do r := ascii_tbl.(Char.code s.[i]) :: !r done; !r

let of_str (l : ascii list) : string =
  let b = Buffer.create 16 in
  List.iter (fun a -> Buffer.add_char b (Char.chr (code_of_ascii a))) l; Buffer.contents b

let hexval c = match c with
  | '0'..'9' -> Char.code c - 48 | 'a'..'f' -> Char.code c - 87 | 'A'..'F' -> Char.code c - 55
  | _ -> failwith "hex"

let unhex (h : string) : string =
  if h = "-" then "" else
  let n = String.length h / 2 in
  String.init n (fun i -> Char.chr (hexval h.[2*i] * 16 + hexval h.[2*i+1]))

let hex (s : string) : string =
  if s = "" then "-" else begin
    let b = Buffer.create (2 * String.length s) in
    String.iter (fun c -> Buffer.add_string b (Printf.sprintf "%02x" (Char.code c))) s;
    Buffer.contents b end

let rec nat_of_int n = if n <= 0 then O else S (nat_of_int (n - 1))
let rec int_of_nat = function O -> 0 | S n -> 1 + int_of_nat n

let split_tab (s : string) : string list = String.split_on_char '\t' s
let split_comma (s : string) : string list = if s = "" then [] else String.split_on_char ',' s
