(* Driver of the extracted Tree model.  One case per line (tab separated):

     dir  <tree> <dest> <missing>
     file <hexcontent> <x:0|1> <dest> <missing:0|1>

   <tree>  comma separated pre-order tokens of the entries of the root directory:
             f:<hexname>:<hexcontent>:<octal mode>   d:<hexname>   u (end of directory)
             l:<hexname>:<hextarget>                 ("-" alone = empty directory)
   <dest>  A (absent) | P (parent absent) | F:<hexcontent>:<octal mode> | D (empty dir) | D,<tree tokens>
   <missing> "-" or comma list of T (the tree blob) / <hexcontent> (the blob of that file content)

   Answers:
     dir : <write: ok|werror> TAB <load: ok|error|hang> TAB <listing> TAB wf=<0|1>;failed=<k|->;cap=<n>;depth=<d>
           (failed = download goroutines with an error to send, cap = capacity of errChan)
     file: <ok|error> TAB <listing> TAB prior_exec=<0|1>;exec_recorded=<0|1>
   listing: comma separated, pre-order, "<hexpath>:f:<x>:<hexcontent>" | "<hexpath>:d" | "<hexpath>:l:<hextarget>";
   the root itself has path "-". *)
open Model
open Wire

let fld s = to_str (unhex s)
let out s = hex (of_str s)

let exec_of_mode (m : string) : bool = (int_of_string ("0o" ^ m)) land 0o111 <> 0

(* parse tokens into the entries of one directory; returns (entries, remaining tokens) *)
let rec parse_entries (toks : string list) : (ascii list * node) list * string list =
  match toks with
  | [] -> ([], [])
  | "u" :: rest -> ([], rest)
  | t :: rest ->
    (match String.split_on_char ':' t with
     | ["f"; n; c; m] ->
       let (es, r) = parse_entries rest in ((fld n, File (fld c, exec_of_mode m)) :: es, r)
     | ["l"; n; tg] ->
       let (es, r) = parse_entries rest in ((fld n, Link (fld tg)) :: es, r)
     | ["d"; n] ->
       let (sub, r1) = parse_entries rest in
       let (es, r) = parse_entries r1 in ((fld n, Dir sub) :: es, r)
     | _ -> failwith ("bad token " ^ t))

let parse_tree (s : string) : node =
  if s = "-" then Dir [] else
  let (es, rest) = parse_entries (String.split_on_char ',' s) in
  if rest <> [] then failwith "trailing tokens"; Dir es

let parse_dest (s : string) : dest_state =
  if s = "A" then DAbsent else if s = "P" then DParentAbsent
  else if s = "D" then DDir []
  else if String.length s > 2 && String.sub s 0 2 = "D," then
    (match parse_tree (String.sub s 2 (String.length s - 2)) with Dir es -> DDir es | _ -> failwith "dest")
  else match String.split_on_char ':' s with
    | ["F"; c; m] -> DFile (fld c, exec_of_mode m)
    | _ -> failwith ("bad dest " ^ s)

let rec listing (path : string) (n : node) (acc : string list ref) : unit =
  let p = if path = "" then "-" else hex path in
  match n with
  | File (c, x) -> acc := (Printf.sprintf "%s:f:%d:%s" p (if x then 1 else 0) (out c)) :: !acc
  | Link t -> acc := (Printf.sprintf "%s:l:%s" p (out t)) :: !acc
  | Dir es ->
    acc := (p ^ ":d") :: !acc;
    List.iter (fun (k, e) -> listing (if path = "" then of_str k else path ^ "/" ^ of_str k) e acc) es

let show (n : node) : string =
  let acc = ref [] in listing "" n acc; String.concat "," (List.rev !acc)

let do_dir = function
  | [tree; dest; missing] ->
    let t = parse_tree tree in
    let d = parse_dest dest in
    let wf = if wf_treeb t then 1 else 0 in
    let dp = int_of_nat (depth t) in
    (match x_write_tree t [] with
     | None -> Printf.sprintf "werror\t-\t-\twf=%d;failed=-;cap=0;depth=%d" wf dp
     | Some (st, r) ->
       let st = if missing = "-" then st else
           List.fold_left (fun st m -> if m = "T" then cas_del r st else cas_del (x_file_key (fld m)) st)
             st (String.split_on_char ',' missing) in
       let m = x_tree_msg_of t in
       let cap = int_of_nat err_chan_cap in
       let failed = match x_load_failures m st with None -> "-" | Some k -> string_of_int (int_of_nat k) in
       let (cls, lst) = match x_load_tree r st d with
         | Done n -> ("ok", show n)
         | Error -> ("error", "-")
         | Stuck -> ("hang", "-") in
       Printf.sprintf "ok\t%s\t%s\twf=%d;failed=%s;cap=%d;depth=%d" cls lst wf failed cap dp)
  | _ -> failwith "dir: arity"

let do_file = function
  | [c; x; dest; missing] ->
    let d = parse_dest dest in
    let (st, fm) = x_file_write (fld c) (x = "1") [] in
    let st = if missing = "1" then cas_del fm.fm_digest.d_hash st else st in
    let (cls, lst) = match x_file_load fm st d with
      | Done n -> ("ok", show n)
      | Error -> ("error", "-")
      | Stuck -> ("hang", "-") in
    Printf.sprintf "%s\t%s\tprior_exec=%d;exec_recorded=%d" cls lst
      (if file_restore_exec d then 1 else 0) (if fm.fm_exec then 1 else 0)
  | _ -> failwith "file: arity"

let () =
  (try
    while true do
      let line = input_line stdin in
      let res =
        try
          match split_tab line with
          | "dir" :: args -> do_dir args
          | "file" :: args -> do_file args
          | cmd :: _ -> "unknown-command " ^ cmd
          | [] -> "empty"
        with Failure m -> "driver-error " ^ m
      in
      print_string res; print_char '\n'
    done
  with End_of_file -> ());
