(* HashKey_proofs.v -- lemmas about HashKey.v (C09, used by C01/C02). *)
From Grog Require Import Str Label HashKey.

(* ------------------------------------------------------------------ the byte-wise order *)
Lemma byte_of_inj a b : byte_of a = byte_of b -> a = b.
Proof.
  unfold byte_of; intro E. apply (f_equal ascii_of_nat) in E.
  rewrite !ascii_nat_embedding in E. exact E.
Qed.

Lemma str_ltb_asym x : forall y, str_ltb x y = true -> str_ltb y x = false.
Proof.
  induction x as [|a x IH]; intros [|b y]; cbn [str_ltb]; try congruence.
  destruct (Nat.ltb_spec (byte_of a) (byte_of b)), (Nat.ltb_spec (byte_of b) (byte_of a));
    try congruence; try lia; auto.
Qed.

Lemma str_ltb_antisym x : forall y, str_ltb x y = false -> str_ltb y x = false -> x = y.
Proof.
  induction x as [|a x IH]; intros [|b y]; cbn [str_ltb]; try congruence.
  destruct (Nat.ltb_spec (byte_of a) (byte_of b)), (Nat.ltb_spec (byte_of b) (byte_of a));
    try congruence; try lia.
  intros H1 H2. assert (a = b) by (apply byte_of_inj; lia). subst b.
  f_equal. apply IH; assumption.
Qed.

Lemma str_ltb_negtrans x :
  forall y z, str_ltb y x = false -> str_ltb z y = false -> str_ltb z x = false.
Proof.
  induction x as [|a x IH]; intros [|b y] [|c z]; cbn [str_ltb]; try congruence.
  destruct (Nat.ltb_spec (byte_of b) (byte_of a)), (Nat.ltb_spec (byte_of a) (byte_of b)),
           (Nat.ltb_spec (byte_of c) (byte_of b)), (Nat.ltb_spec (byte_of b) (byte_of c)),
           (Nat.ltb_spec (byte_of c) (byte_of a)), (Nat.ltb_spec (byte_of a) (byte_of c));
    try congruence; try lia.
  apply IH.
Qed.

Lemma str_leb_total x y : str_leb x y = false -> str_leb y x = true.
Proof.
  unfold str_leb. rewrite negb_false_iff, negb_true_iff. apply str_ltb_asym.
Qed.

Lemma str_leb_antisym x y : str_leb x y = true -> str_leb y x = true -> x = y.
Proof.
  unfold str_leb. rewrite !negb_true_iff. intros H1 H2. apply str_ltb_antisym; assumption.
Qed.

Lemma str_leb_trans x y z : str_leb x y = true -> str_leb y z = true -> str_leb x z = true.
Proof.
  unfold str_leb. rewrite !negb_true_iff. apply str_ltb_negtrans.
Qed.

(* ------------------------------------------------------------------ sorting is canonical *)
Fixpoint sorted (l : list str) : Prop :=
  match l with
  | [] => True
  | x :: l' => (forall y, In y l' -> str_leb x y = true) /\ sorted l'
  end.

Lemma insert_sorted_perm x l : Permutation (insert_sorted x l) (x :: l).
Proof.
  induction l as [|y l IH]; cbn [insert_sorted].
  - apply Permutation_refl.
  - destruct (str_leb x y); [apply Permutation_refl|].
    eapply perm_trans; [apply perm_skip, IH | apply perm_swap].
Qed.

Lemma sort_strs_cons x l : sort_strs (x :: l) = insert_sorted x (sort_strs l).
Proof. reflexivity. Qed.

Lemma sort_strs_perm l : Permutation (sort_strs l) l.
Proof.
  induction l as [|x l IH].
  - apply Permutation_refl.
  - rewrite sort_strs_cons.
    eapply perm_trans; [apply insert_sorted_perm | apply perm_skip, IH].
Qed.

Lemma insert_sorted_sorted x l : sorted l -> sorted (insert_sorted x l).
Proof.
  induction l as [|y l IH]; cbn [insert_sorted]; intro S.
  - split; [intros ? [] | exact I].
  - destruct S as [S1 S2]. destruct (str_leb x y) eqn:E.
    + split; [|split; assumption].
      intros z [<-|Hz]; [exact E|].
      apply (str_leb_trans x y z); [exact E | apply S1; exact Hz].
    + split; [|apply IH; exact S2].
      intros z Hz. apply (Permutation_in _ (insert_sorted_perm x l)) in Hz.
      destruct Hz as [<-|Hz]; [apply str_leb_total; exact E | apply S1; exact Hz].
Qed.

Lemma sort_strs_sorted l : sorted (sort_strs l).
Proof.
  induction l as [|x l IH]; [exact I|].
  rewrite sort_strs_cons. apply insert_sorted_sorted, IH.
Qed.

Lemma sorted_perm_eq l : forall l', sorted l -> sorted l' -> Permutation l l' -> l = l'.
Proof.
  induction l as [|x l IH]; intros [|y l'] S S' P.
  - reflexivity.
  - apply Permutation_nil in P; discriminate.
  - apply Permutation_sym, Permutation_nil in P; discriminate.
  - destruct S as [S1 S2], S' as [S1' S2'].
    assert (E : x = y).
    { assert (Hx : In x (y :: l')) by (apply (Permutation_in _ P); left; reflexivity).
      assert (Hy : In y (x :: l))
        by (apply (Permutation_in _ (Permutation_sym P)); left; reflexivity).
      destruct Hx as [Hx|Hx]; [symmetry; exact Hx|].
      destruct Hy as [Hy|Hy]; [exact Hy|].
      apply str_leb_antisym; [apply S1; exact Hy | apply S1'; exact Hx]. }
    subst y. f_equal. apply IH; [exact S2 | exact S2' |].
    eapply Permutation_cons_inv; exact P.
Qed.

Lemma sort_strs_canonical l l' : Permutation l l' -> sort_strs l = sort_strs l'.
Proof.
  intro P. apply sorted_perm_eq; try apply sort_strs_sorted.
  eapply perm_trans; [apply sort_strs_perm|].
  eapply perm_trans; [exact P|]. apply Permutation_sym, sort_strs_perm.
Qed.

Lemma sort_strs_eq_perm l l' : sort_strs l = sort_strs l' -> Permutation l l'.
Proof.
  intro E. eapply perm_trans; [apply Permutation_sym, sort_strs_perm|].
  rewrite E. apply sort_strs_perm.
Qed.

(* ------------------------------------------------------------------ order independence *)
Lemma no_inputs_perm a b : Permutation (ts_ins a) (ts_ins b) -> no_inputs a = no_inputs b.
Proof.
  unfold no_inputs. intro P. destruct (ts_ins a), (ts_ins b); try reflexivity.
  - apply Permutation_nil in P; discriminate.
  - apply Permutation_sym, Permutation_nil in P; discriminate.
Qed.

Theorem key_order_independent (H : str -> str) fa a fb b :
  state_equiv fa a fb b -> change_key H fa a = change_key H fb b.
Proof.
  intros (E1 & E2 & P3 & P4 & P5 & P6 & E7 & F).
  assert (Ed : encode_def a = encode_def b).
  { unfold encode_def.
    rewrite E1, E2, E7, (sort_strs_canonical _ _ P3), (sort_strs_canonical _ _ P4),
      (sort_strs_canonical _ _ P5), (sort_strs_canonical _ _ (Permutation_map fp_item P6)).
    reflexivity. }
  assert (Ef : encode_files H fa a = encode_files H fb b).
  { unfold encode_files. rewrite <- (sort_strs_canonical _ _ P3). f_equal.
    apply map_ext_in. intros p Hp. unfold file_item. rewrite (F p); [reflexivity|].
    apply (Permutation_in _ (sort_strs_perm _)); exact Hp. }
  unfold change_key. rewrite (no_inputs_perm _ _ P3), Ed, Ef. reflexivity.
Qed.

(* ------------------------------------------------------------------ decoding: frames *)
Lemma first_split_eq c (a b a' b' : str) :
  ~ In c a -> ~ In c a' -> a ++ c :: b = a' ++ c :: b' -> a = a' /\ b = b'.
Proof.
  intros Ha Ha' E. apply (f_equal (split_first c)) in E.
  rewrite (split_first_app _ _ _ Ha), (split_first_app _ _ _ Ha') in E.
  injection E; auto.
Qed.

Lemma nul_ne_01 : ch_nul <> ch_01.
Proof. vm_compute. discriminate. Qed.
Lemma c02_ne_03 : ch_02 <> ch_03.
Proof. vm_compute. discriminate. Qed.

Lemma frame_nil : frame [] = [ch_nul; ch_nul].
Proof. reflexivity. Qed.
Lemma frame_cons_nul r : frame (ch_nul :: r) = ch_nul :: ch_01 :: frame r.
Proof. reflexivity. Qed.
Lemma frame_cons_other c r : c <> ch_nul -> frame (c :: r) = c :: frame r.
Proof. intro N. cbn [frame]. apply Ascii.eqb_neq in N. rewrite N. reflexivity. Qed.

(* a framed string followed by anything decodes in one way only *)
Definition self_delim {A} (f : A -> str) : Prop :=
  forall a b x y, f a ++ x = f b ++ y -> a = b /\ x = y.

Lemma cons_eq_inv {A} (x y : A) l l' : x :: l = y :: l' -> x = y /\ l = l'.
Proof. intro E. injection E; auto. Qed.

Lemma frame_inj : self_delim frame.
Proof.
  intro a. induction a as [|c a IH]; intros [|d b] x y E.
  - rewrite !frame_nil in E. cbn [app] in E.
    apply cons_eq_inv in E as [_ E]. apply cons_eq_inv in E as [_ E]. auto.
  - exfalso. rewrite frame_nil in E. destruct (ascii_dec d ch_nul) as [->|N].
    + rewrite frame_cons_nul in E. cbn [app] in E. apply cons_eq_inv in E as [_ E].
      apply cons_eq_inv in E as [E _]. exact (nul_ne_01 E).
    + rewrite (frame_cons_other _ _ N) in E. cbn [app] in E. apply cons_eq_inv in E as [E _]. congruence.
  - exfalso. rewrite frame_nil in E. destruct (ascii_dec c ch_nul) as [->|N].
    + rewrite frame_cons_nul in E. cbn [app] in E. apply cons_eq_inv in E as [_ E].
      apply cons_eq_inv in E as [E _]. symmetry in E. exact (nul_ne_01 E).
    + rewrite (frame_cons_other _ _ N) in E. cbn [app] in E. apply cons_eq_inv in E as [E _]. congruence.
  - destruct (ascii_dec c ch_nul) as [->|Nc], (ascii_dec d ch_nul) as [->|Nd].
    + rewrite !frame_cons_nul in E. cbn [app] in E. apply cons_eq_inv in E as [_ E].
      apply cons_eq_inv in E as [_ E]. apply IH in E as [-> ->]. auto.
    + exfalso. rewrite frame_cons_nul, (frame_cons_other _ _ Nd) in E. cbn [app] in E.
      apply cons_eq_inv in E as [E _]. congruence.
    + exfalso. rewrite frame_cons_nul, (frame_cons_other _ _ Nc) in E. cbn [app] in E.
      apply cons_eq_inv in E as [E _]. congruence.
    + rewrite (frame_cons_other _ _ Nc), (frame_cons_other _ _ Nd) in E. cbn [app] in E.
      apply cons_eq_inv in E as [-> E]. apply IH in E as [-> ->]. auto.
Qed.

Lemma pair_self_delim {A B} (f : A -> str) (g : B -> str) :
  self_delim f -> self_delim g -> self_delim (fun e => f (fst e) ++ g (snd e)).
Proof.
  intros Hf Hg [a1 b1] [a2 b2] x y E. cbn [fst snd] in E. rewrite <- !app_assoc in E.
  apply Hf in E as [-> E]. apply Hg in E as [-> ->]. auto.
Qed.

Lemma fp_item_inj : self_delim fp_item.
Proof. exact (pair_self_delim frame frame frame_inj frame_inj). Qed.

Lemma enc_label_inj : self_delim enc_label.
Proof.
  intros [p1 n1] [p2 n2] x y E.
  destruct (pair_self_delim frame frame frame_inj frame_inj (p1, n1) (p2, n2) x y E) as [E' ->].
  injection E' as -> ->. auto.
Qed.

(* ------------------------------------------------------------------ decoding: lists *)
Lemma enc_items_nil : enc_items [] = [ch_03].
Proof. reflexivity. Qed.
Lemma enc_items_cons e r : enc_items (e :: r) = ch_02 :: e ++ enc_items r.
Proof. reflexivity. Qed.

Lemma enc_items_map_inj {A} (f : A -> str) : self_delim f ->
  forall l l' x y, enc_items (map f l) ++ x = enc_items (map f l') ++ y -> l = l' /\ x = y.
Proof.
  intros Hf l. induction l as [|a l IH]; intros [|b l'] x y E; cbn [map] in E;
    rewrite ?enc_items_nil, ?enc_items_cons in E; cbn [app] in E;
    apply cons_eq_inv in E as [E0 E].
  - auto.
  - exfalso. symmetry in E0. exact (c02_ne_03 E0).
  - exfalso. exact (c02_ne_03 E0).
  - rewrite <- !app_assoc in E. apply Hf in E as [-> E]. apply IH in E as [-> ->]. auto.
Qed.

Lemma enc_list_inj : self_delim enc_list.
Proof. intros l l' x y E. exact (enc_items_map_inj frame frame_inj l l' x y E). Qed.

(* a sorted list of items is still a list of items *)
Lemma sorted_items_inj {A} (f : A -> str) : self_delim f ->
  forall l l' x y, enc_items (sort_strs (map f l)) ++ x = enc_items (sort_strs (map f l')) ++ y ->
                   Permutation l l' /\ x = y.
Proof.
  intros Hf l l' x y E.
  destruct (Permutation_map_inv f l (sort_strs_perm (map f l))) as (m & Em & Pm).
  destruct (Permutation_map_inv f l' (sort_strs_perm (map f l'))) as (m' & Em' & Pm').
  rewrite Em, Em' in E. apply (enc_items_map_inj f Hf) in E as [-> ->].
  split; [|reflexivity].
  eapply perm_trans; [exact Pm | apply Permutation_sym; exact Pm'].
Qed.

Lemma sorted_list_inj l l' x y :
  enc_list (sort_strs l) ++ x = enc_list (sort_strs l') ++ y -> Permutation l l' /\ x = y.
Proof.
  intro E. apply enc_list_inj in E as [E ->]. split; [|reflexivity].
  apply sort_strs_eq_perm; exact E.
Qed.

Lemma plat_list_inj p q : plat_list p = plat_list q -> p = q.
Proof. destruct p, q; cbn [plat_list]; congruence. Qed.

(* ------------------------------------------------------------------ the definition stream decodes *)
Lemma encode_def_inj a b : encode_def a = encode_def b ->
  ts_label a = ts_label b /\ ts_cmd a = ts_cmd b /\
  Permutation (ts_ins a) (ts_ins b) /\ Permutation (ts_outs a) (ts_outs b) /\
  Permutation (ts_deps a) (ts_deps b) /\ Permutation (ts_fp a) (ts_fp b) /\
  ts_plat a = ts_plat b.
Proof.
  unfold encode_def. intro E.
  apply enc_label_inj in E as [E1 E]. apply frame_inj in E as [E2 E].
  apply sorted_list_inj in E as [P3 E]. apply sorted_list_inj in E as [P4 E].
  apply sorted_list_inj in E as [P5 E].
  apply (sorted_items_inj fp_item fp_item_inj) in E as [P6 E].
  rewrite <- (app_nil_r (enc_list (plat_list (ts_plat a)))),
          <- (app_nil_r (enc_list (plat_list (ts_plat b)))) in E.
  apply enc_list_inj in E as [E7 _]. apply plat_list_inj in E7.
  repeat split; assumption.
Qed.

(* ------------------------------------------------------------------ injectivity, full strength *)
Section Injective.
  Variable H : str -> str.
  Hypothesis H_inj : forall x y, H x = H y -> x = y.
  Hypothesis H_hex : forall x, ~ In ch_us (H x).

  (* equal keys feed the hasher equal byte streams *)
  Lemma key_streams fa a fb b :
    change_key H fa a = change_key H fb b ->
    encode_def a = encode_def b /\
    (no_inputs a = no_inputs b) /\
    (no_inputs a = false -> encode_files H fa a = encode_files H fb b).
  Proof.
    unfold change_key. destruct (no_inputs a) eqn:Na, (no_inputs b) eqn:Nb; intro E.
    - apply H_inj in E. split; [exact E|]. split; [reflexivity | discriminate].
    - exfalso. apply (H_hex (encode_def a)). rewrite E.
      apply in_or_app; right; left; reflexivity.
    - exfalso. apply (H_hex (encode_def b)). rewrite <- E.
      apply in_or_app; right; left; reflexivity.
    - apply first_split_eq in E; try apply H_hex. destruct E as [E1 E2].
      apply H_inj in E1. apply H_inj in E2. split; [exact E1|]. split; [reflexivity|].
      intros _. exact E2.
  Qed.

  (* one input: path, presence, digest of the content *)
  Lemma file_item_inj fa fb p q x y :
    file_item H fa p ++ x = file_item H fb q ++ y -> p = q /\ fa p = fb q /\ x = y.
  Proof.
    unfold file_item. rewrite <- !app_assoc. intro E. apply frame_inj in E as [<- E].
    split; [reflexivity|].
    destruct (fa p) as [ca|], (fb p) as [cb|]; cbn [app] in E; apply cons_eq_inv in E as [E0 E].
    - apply frame_inj in E as [E ->]. apply H_inj in E. subst cb. auto.
    - exfalso. symmetry in E0. exact (nul_ne_01 E0).
    - exfalso. exact (nul_ne_01 E0).
    - auto.
  Qed.

  Lemma files_stream_inj fa fb L :
    concat (map (file_item H fa) L) = concat (map (file_item H fb) L) ->
    forall p, In p L -> fa p = fb p.
  Proof.
    induction L as [|q L IH]; intros E p Hp; [destruct Hp|].
    cbn [map concat] in E. apply file_item_inj in E as (_ & Eq & E).
    destruct Hp as [<-|Hp]; [exact Eq | apply IH; assumption].
  Qed.

  (* equal keys only for equal build states *)
  Theorem key_injective fa a fb b :
    change_key H fa a = change_key H fb b -> state_equiv fa a fb b.
  Proof.
    intro K. destruct (key_streams _ _ _ _ K) as (Ed & Eni & Ef).
    destruct (encode_def_inj _ _ Ed) as (E1 & E2 & P3 & P4 & P5 & P6 & E7).
    repeat (split; [assumption|]).
    intros q Hq.
    destruct (no_inputs a) eqn:Na.
    { unfold no_inputs in Na. destruct (ts_ins a); [destruct Hq | discriminate]. }
    specialize (Ef eq_refl). unfold encode_files in Ef.
    rewrite <- (sort_strs_canonical _ _ P3) in Ef.
    apply (files_stream_inj fa fb _ Ef).
    apply (Permutation_in _ (Permutation_sym (sort_strs_perm _))); exact Hq.
  Qed.

  (* in particular: different labels, different keys *)
  Corollary key_label fa a fb b : change_key H fa a = change_key H fb b -> ts_label a = ts_label b.
  Proof. intro K. exact (proj1 (key_injective fa a fb b K)). Qed.
End Injective.

(* ------------------------------------------------------------------ the hypotheses on the digest are satisfiable:
   an injective, '_'-free encoder, e.g. doubling every byte into two hex digits *)
Definition hexdigit (n : nat) : ascii := ascii_of_nat (if n <? 10 then 48 + n else 87 + n).
Definition hex_enc (s : str) : str :=
  flat_map (fun c => [hexdigit (nat_of_ascii c / 16); hexdigit (nat_of_ascii c mod 16)]) s.

Definition hexval (c : ascii) : nat :=
  let n := nat_of_ascii c in if n <? 58 then n - 48 else n - 87.
Definition unhex2 (h l : ascii) : ascii := ascii_of_nat (hexval h * 16 + hexval l).

Lemma unhex2_hex c : unhex2 (hexdigit (nat_of_ascii c / 16)) (hexdigit (nat_of_ascii c mod 16)) = c.
Proof. destruct c as [[] [] [] [] [] [] [] []]; vm_compute; reflexivity. Qed.

Lemma hexdigit_no_us c :
  hexdigit (nat_of_ascii c / 16) <> ch_us /\ hexdigit (nat_of_ascii c mod 16) <> ch_us.
Proof. destruct c as [[] [] [] [] [] [] [] []]; vm_compute; split; discriminate. Qed.

Lemma hex_enc_cons c s :
  hex_enc (c :: s) = hexdigit (nat_of_ascii c / 16) :: hexdigit (nat_of_ascii c mod 16) :: hex_enc s.
Proof. reflexivity. Qed.

Lemma hex_enc_inj x y : hex_enc x = hex_enc y -> x = y.
Proof.
  revert y; induction x as [|c x IH]; intros [|d y] E.
  - reflexivity.
  - rewrite hex_enc_cons in E. discriminate E.
  - rewrite hex_enc_cons in E. discriminate E.
  - rewrite !hex_enc_cons in E. injection E as E1 E2 E3.
    assert (Hcd : unhex2 (hexdigit (nat_of_ascii c / 16)) (hexdigit (nat_of_ascii c mod 16)) =
                  unhex2 (hexdigit (nat_of_ascii d / 16)) (hexdigit (nat_of_ascii d mod 16)))
      by exact (f_equal2 unhex2 E1 E2).
    rewrite !unhex2_hex in Hcd. f_equal; [exact Hcd | apply IH; exact E3].
Qed.
Lemma hex_enc_no_us x : ~ In ch_us (hex_enc x).
Proof.
  induction x as [|c x IH]; [intros []|].
  rewrite hex_enc_cons. destruct (hexdigit_no_us c) as [N1 N2].
  intros [Hi|[Hi|Hi]]; [apply N1; exact Hi | apply N2; exact Hi | apply IH; exact Hi].
Qed.

(* ------------------------------------------------------------------ the former collision classes
   (one witness per class of the unframed encoding: the hashed byte streams were literally equal,
   whatever the digest) now receive different keys; checked by the kernel with the digest hex_enc *)
Definition s1 (c : ascii) : str := [c].
Definition La : label := mkLabel (s1 "p") (s1 "a").
Definition nofs : str -> option str := fun _ => None.
Definition linux : option str := Some ["l"; "x"]%char.
Definition fs_xy_z : str -> option str :=
  fun p => if str_eqb p (s1 "a") then Some ["x"; "y"]%char else if str_eqb p (s1 "b") then Some (s1 "z") else None.
Definition fs_x_yz : str -> option str :=
  fun p => if str_eqb p (s1 "a") then Some (s1 "x") else if str_eqb p (s1 "b") then Some ["y"; "z"]%char else None.
Definition fs_a_empty : str -> option str := fun p => if str_eqb p (s1 "a") then Some [] else None.

Definition keys_differ (fa : str -> option str) (a : tstate) (fb : str -> option str) (b : tstate) : Prop :=
  change_key hex_enc fa a <> change_key hex_enc fb b.

Lemma keys_differ_by_compute fa a fb b :
  str_eqb (change_key hex_enc fa a) (change_key hex_enc fb b) = false -> keys_differ fa a fb b.
Proof. intro E. apply str_eqb_neq. exact E. Qed.

Theorem former_collisions_now_differ :
  (* label | command boundary *)
  keys_differ nofs (mkT (mkLabel (s1 "p") (s1 "a")) ["b"; "c"]%char [] [] [] [] linux)
              nofs (mkT (mkLabel (s1 "p") ["a"; "b"]%char) (s1 "c") [] [] [] [] linux) /\
  (* package | name boundary of the printed label *)
  keys_differ nofs (mkT (mkLabel ["a"; ":"; "b"]%char (s1 "c")) [] [] [] [] [] linux)
              nofs (mkT (mkLabel (s1 "a") ["b"; ":"; "c"]%char) [] [] [] [] [] linux) /\
  (* list element containing the old separator *)
  keys_differ nofs (mkT La [] [] [["a"; ","; "b"]%char] [] [] linux)
              nofs (mkT La [] [] [s1 "a"; s1 "b"] [] [] linux) /\
  (* fingerprint key/value shift around '=' *)
  keys_differ nofs (mkT La [] [] [] [] [(s1 "a", ["b"; "="; "c"]%char)] linux)
              nofs (mkT La [] [] [] [] [(["a"; "="; "b"]%char, s1 "c")] linux) /\
  (* outputs | dependency contributions boundary *)
  keys_differ nofs (mkT La [] [] [s1 "x"] [] [] linux) nofs (mkT La [] [] [] [s1 "x"] [] linux) /\
  (* end of one input file / start of the next *)
  keys_differ fs_xy_z (mkT La [] [s1 "a"; s1 "b"] [] [] [] linux)
              fs_x_yz (mkT La [] [s1 "a"; s1 "b"] [] [] [] linux) /\
  (* absent vs empty literal input *)
  keys_differ nofs (mkT La [] [s1 "a"] [] [] [] linux) fs_a_empty (mkT La [] [s1 "a"] [] [] [] linux) /\
  (* an empty list element vs no element *)
  keys_differ nofs (mkT La [] [] [] [[]] [] linux) nofs (mkT La [] [] [] [] [] linux) /\
  (* fingerprint | platform boundary *)
  keys_differ nofs (mkT La [] [] [] [] [(s1 "k", s1 "v")] linux)
              nofs (mkT La [] [] [] [] [(s1 "k", ["v"; "l"; "x"]%char)] None).
Proof.
  repeat split; apply keys_differ_by_compute; vm_compute; reflexivity.
Qed.

(* non-vacuity of key_injective: a pair of states that are equivalent without being equal (every
   list permuted) shares its key under the injective digest *)
Example injective_nonvacuous :
  let a := mkT La (s1 "c") [s1 "i"; s1 "j"] [s1 "o"; s1 "q"] [s1 "d"; s1 "e"] [(s1 "k", s1 "v"); (s1 "l", s1 "w")] linux in
  let b := mkT La (s1 "c") [s1 "j"; s1 "i"] [s1 "q"; s1 "o"] [s1 "e"; s1 "d"] [(s1 "l", s1 "w"); (s1 "k", s1 "v")] linux in
  a <> b /\ change_key hex_enc fs_xy_z a = change_key hex_enc fs_xy_z b /\ state_equiv fs_xy_z a fs_xy_z b.
Proof.
  intros a b.
  assert (K : change_key hex_enc fs_xy_z a = change_key hex_enc fs_xy_z b) by (vm_compute; reflexivity).
  split; [intro E; discriminate E|]. split; [exact K|].
  exact (key_injective hex_enc hex_enc_inj hex_enc_no_us _ _ _ _ K).
Qed.

(* ================================================================== the no-cache output hash (GetNoCacheOutputHash) *)
(* splitting at the first occurrence of a character *)
Lemma split_first_sep (c : ascii) : forall a a' b b' : str,
  ~ In c a -> ~ In c a' -> a ++ c :: b = a' ++ c :: b' -> a = a' /\ b = b'.
Proof.
  induction a as [|x a IH]; intros [|x' a'] b b' Ha Ha' E; cbn [app] in E.
  - inversion E. auto.
  - inversion E; subst. exfalso. apply Ha'. left. reflexivity.
  - inversion E; subst. exfalso. apply Ha. left. reflexivity.
  - inversion E; subst. destruct (IH a' b b') as [-> ->]; auto.
    + intro Hin. apply Ha. right. exact Hin.
    + intro Hin. apply Ha'. right. exact Hin.
Qed.

(* "<output definition>=<digest>" determines both parts when the digest contains no '=' (a hex digest, a
   "sha256:<hex>" image id): the LAST '=' separates them, whatever the output identifier contains *)
Lemma nocache_item_inj (d1 g1 d2 g2 : str) :
  ~ In ch_eq g1 -> ~ In ch_eq g2 ->
  nocache_item (d1, g1) = nocache_item (d2, g2) -> d1 = d2 /\ g1 = g2.
Proof.
  unfold nocache_item. cbn [fst snd]. intros H1 H2 E.
  apply (f_equal (@rev ascii)) in E. rewrite !rev_app_distr in E. cbn [rev] in E.
  rewrite <- !app_assoc in E. cbn [app] in E.
  apply split_first_sep in E as [Eg Ed]; [| rewrite <- in_rev; exact H1 | rewrite <- in_rev; exact H2].
  split; [apply (f_equal (@rev ascii)) in Ed | apply (f_equal (@rev ascii)) in Eg];
    rewrite !rev_involutive in *; assumption.
Qed.

(* two different outputs exchanging two different contents change the multiset of hashed items (hence the
   sorted list that is hashed); the digests-only formula used before the repair of C01-F3 was blind to it *)
Lemma nocache_item_swap_differs (d1 d2 g1 g2 : str) :
  ~ In ch_eq g1 -> ~ In ch_eq g2 -> d1 <> d2 -> g1 <> g2 ->
  ~ Permutation (map nocache_item [(d1, g1); (d2, g2)]) (map nocache_item [(d1, g2); (d2, g1)]).
Proof.
  intros H1 H2 Hd Hg P. cbn [map] in P.
  assert (Hin : In (nocache_item (d1, g1)) [nocache_item (d1, g2); nocache_item (d2, g1)]).
  { eapply Permutation_in; [exact P | left; reflexivity]. }
  destruct Hin as [E|[E|[]]]; symmetry in E; apply nocache_item_inj in E as [Ea Eb]; auto; congruence.
Qed.
