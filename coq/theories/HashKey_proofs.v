(* HashKey_proofs.v -- lemmas about HashKey.v (C09, used by C01/C02). *)
From Grog Require Import Str Label HashKey.

(* ------------------------------------------------------------------ sorting is canonical *)
Lemma sort_strs_perm l : Permutation (sort_strs l) l.
Proof. Admitted.

Lemma sort_strs_canonical l l' : Permutation l l' -> sort_strs l = sort_strs l'.
Proof. Admitted.

(* ------------------------------------------------------------------ order independence *)
Theorem key_order_independent (H : str -> str) fa a fb b :
  state_equiv fa a fb b -> change_key H fa a = change_key H fb b.
Proof. Admitted.

(* ------------------------------------------------------------------ injectivity, guarded *)
Section Injective.
  Variable H : str -> str.
  Hypothesis H_inj : forall x y, H x = H y -> x = y.
  Hypothesis H_hex : forall x, ~ In ch_us (H x).

  (* equal keys feed the hasher equal byte streams *)
  Lemma key_streams fa a fb b :
    change_key H fa a = change_key H fb b ->
    encode_def a = encode_def b /\
    (no_inputs a = no_inputs b) /\
    (no_inputs a = false -> encode_files fa a = encode_files fb b).
  Proof. Admitted.

  Lemma concat_differ_one (l l' : list str) :
    length l = length l' -> concat l = concat l' -> differ_at_most_one l l' -> l = l'.
  Proof. Admitted.

  (* a single changed component, with decodable elements, always changes the key; a single
     changed input file likewise *)
  Theorem key_single_change_sensitive fa a fb b :
    wf_state a = true -> wf_state b = true ->
    change_key H fa a = change_key H fb b ->
    differ_at_most_one (comps a) (comps b) ->
    NoDup (ts_ins a) ->
    (Permutation (ts_ins a) (ts_ins b) -> files_differ_at_most_one fa fb (ts_ins a)) ->
    state_equiv fa a fb b.
  Proof. Admitted.
End Injective.

(* ------------------------------------------------------------------ refutations: collisions that hold
   for EVERY digest function, because the hashed byte streams are literally equal *)
Definition collides (fa : str -> option str) (a : tstate) (fb : str -> option str) (b : tstate) : Prop :=
  ~ state_equiv fa a fb b /\ forall H : str -> str, change_key H fa a = change_key H fb b.

Definition s1 (c : ascii) : str := [c].
Definition La : label := mkLabel (s1 "p") (s1 "a").
Definition nofs : str -> option str := fun _ => None.
Definition T0 (l : label) (cmd : str) ins outs deps fp plat := mkT l cmd ins outs deps fp plat.
Definition linux : option str := Some ["l"; "x"]%char.

(* label | command boundary *)
Theorem collision_label_command :
  collides nofs (mkT (mkLabel (s1 "p") (s1 "a")) ["b"; "c"]%char [] [] [] [] linux)
           nofs (mkT (mkLabel (s1 "p") ["a"; "b"]%char) (s1 "c") [] [] [] [] linux).
Proof. Admitted.

(* list element containing the separator *)
Theorem collision_separator_in_element :
  collides nofs (mkT La [] [] [["a"; ","; "b"]%char] [] [] linux)
           nofs (mkT La [] [] [s1 "a"; s1 "b"] [] [] linux).
Proof. Admitted.

(* fingerprint key/value shift around '=' *)
Theorem collision_fingerprint_shift :
  collides nofs (mkT La [] [] [] [] [(s1 "a", ["b"; "="; "c"]%char)] linux)
           nofs (mkT La [] [] [] [] [(["a"; "="; "b"]%char, s1 "c")] linux).
Proof. Admitted.

(* outputs | dependency hashes boundary *)
Theorem collision_outputs_deps :
  collides nofs (mkT La [] [] [s1 "x"] [] [] linux)
           nofs (mkT La [] [] [] [s1 "x"] [] linux).
Proof. Admitted.

(* end of one input file / start of the next *)
Definition fs_xy_z : str -> option str :=
  fun p => if str_eqb p (s1 "a") then Some ["x"; "y"]%char else if str_eqb p (s1 "b") then Some (s1 "z") else None.
Definition fs_x_yz : str -> option str :=
  fun p => if str_eqb p (s1 "a") then Some (s1 "x") else if str_eqb p (s1 "b") then Some ["y"; "z"]%char else None.
Theorem collision_file_boundary :
  collides fs_xy_z (mkT La [] [s1 "a"; s1 "b"] [] [] [] linux)
           fs_x_yz (mkT La [] [s1 "a"; s1 "b"] [] [] [] linux).
Proof. Admitted.

(* absent vs empty literal input *)
Definition fs_a_empty : str -> option str := fun p => if str_eqb p (s1 "a") then Some [] else None.
Theorem collision_absent_vs_empty :
  collides nofs (mkT La [] [s1 "a"] [] [] [] linux)
           fs_a_empty (mkT La [] [s1 "a"] [] [] [] linux).
Proof. Admitted.

(* an alias in-edge leaves "" in the dependency-hash list: indistinguishable from no dependency *)
Theorem collision_alias_dep_empty :
  collides nofs (mkT La [] [] [] [[]] [] linux)
           nofs (mkT La [] [] [] [] [] linux).
Proof. Admitted.

(* non-vacuity of the guarded theorem: a well-formed pair that differs in one component *)
Example single_change_nonvacuous :
  let a := mkT La (s1 "c") [s1 "i"] [s1 "o"] [s1 "d"] [(s1 "k", s1 "v")] linux in
  let b := mkT La (s1 "d") [s1 "i"] [s1 "o"] [s1 "d"] [(s1 "k", s1 "v")] linux in
  wf_state a = true /\ wf_state b = true /\ differ_at_most_one (comps a) (comps b).
Proof. Admitted.

(* H := identity-with-hex is not needed: the hypotheses are satisfiable by an injective,
   '_'-free encoder, e.g. doubling every byte into two hex digits *)
Definition hexdigit (n : nat) : ascii := ascii_of_nat (if n <? 10 then 48 + n else 87 + n).
Definition hex_enc (s : str) : str :=
  flat_map (fun c => [hexdigit (nat_of_ascii c / 16); hexdigit (nat_of_ascii c mod 16)]) s.
Lemma hex_enc_inj x y : hex_enc x = hex_enc y -> x = y.
Proof. Admitted.
Lemma hex_enc_no_us x : ~ In ch_us (hex_enc x).
Proof. Admitted.
