(* HashKey_proofs.v -- lemmas about HashKey.v (C09, used by C01/C02). *)
From Grog Require Import Str Label HashKey.

(* ------------------------------------------------------------------ the byte-wise order *)
Lemma byte_of_inj a b : byte_of a = byte_of b -> a = b.
Proof.
  unfold byte_of; intro E. apply (f_equal ascii_of_nat) in E.
  rewrite !ascii_nat_embedding in E. exact E.
Qed.

Lemma str_ltb_asym x : forall y, str_ltb x y = true -> str_ltb y x = false.
Proof.
  induction x as [|a x IH]; intros [|b y]; cbn [str_ltb]; try congruence.
  destruct (Nat.ltb_spec (byte_of a) (byte_of b)), (Nat.ltb_spec (byte_of b) (byte_of a));
    try congruence; try lia; auto.
Qed.

Lemma str_ltb_antisym x : forall y, str_ltb x y = false -> str_ltb y x = false -> x = y.
Proof.
  induction x as [|a x IH]; intros [|b y]; cbn [str_ltb]; try congruence.
  destruct (Nat.ltb_spec (byte_of a) (byte_of b)), (Nat.ltb_spec (byte_of b) (byte_of a));
    try congruence; try lia.
  intros H1 H2. assert (a = b) by (apply byte_of_inj; lia). subst b.
  f_equal. apply IH; assumption.
Qed.

Lemma str_ltb_negtrans x :
  forall y z, str_ltb y x = false -> str_ltb z y = false -> str_ltb z x = false.
Proof.
  induction x as [|a x IH]; intros [|b y] [|c z]; cbn [str_ltb]; try congruence.
  destruct (Nat.ltb_spec (byte_of b) (byte_of a)), (Nat.ltb_spec (byte_of a) (byte_of b)),
           (Nat.ltb_spec (byte_of c) (byte_of b)), (Nat.ltb_spec (byte_of b) (byte_of c)),
           (Nat.ltb_spec (byte_of c) (byte_of a)), (Nat.ltb_spec (byte_of a) (byte_of c));
    try congruence; try lia.
  apply IH.
Qed.

Lemma str_leb_total x y : str_leb x y = false -> str_leb y x = true.
Proof.
  unfold str_leb. rewrite negb_false_iff, negb_true_iff. apply str_ltb_asym.
Qed.

Lemma str_leb_antisym x y : str_leb x y = true -> str_leb y x = true -> x = y.
Proof.
  unfold str_leb. rewrite !negb_true_iff. intros H1 H2. apply str_ltb_antisym; assumption.
Qed.

Lemma str_leb_trans x y z : str_leb x y = true -> str_leb y z = true -> str_leb x z = true.
Proof.
  unfold str_leb. rewrite !negb_true_iff. apply str_ltb_negtrans.
Qed.

(* ------------------------------------------------------------------ sorting is canonical *)
Fixpoint sorted (l : list str) : Prop :=
  match l with
  | [] => True
  | x :: l' => (forall y, In y l' -> str_leb x y = true) /\ sorted l'
  end.

Lemma insert_sorted_perm x l : Permutation (insert_sorted x l) (x :: l).
Proof.
  induction l as [|y l IH]; cbn [insert_sorted].
  - apply Permutation_refl.
  - destruct (str_leb x y); [apply Permutation_refl|].
    eapply perm_trans; [apply perm_skip, IH | apply perm_swap].
Qed.

Lemma sort_strs_cons x l : sort_strs (x :: l) = insert_sorted x (sort_strs l).
Proof. reflexivity. Qed.

Lemma sort_strs_perm l : Permutation (sort_strs l) l.
Proof.
  induction l as [|x l IH].
  - apply Permutation_refl.
  - rewrite sort_strs_cons.
    eapply perm_trans; [apply insert_sorted_perm | apply perm_skip, IH].
Qed.

Lemma insert_sorted_sorted x l : sorted l -> sorted (insert_sorted x l).
Proof.
  induction l as [|y l IH]; cbn [insert_sorted]; intro S.
  - split; [intros ? [] | exact I].
  - destruct S as [S1 S2]. destruct (str_leb x y) eqn:E.
    + split; [|split; assumption].
      intros z [<-|Hz]; [exact E|].
      apply (str_leb_trans x y z); [exact E | apply S1; exact Hz].
    + split; [|apply IH; exact S2].
      intros z Hz. apply (Permutation_in _ (insert_sorted_perm x l)) in Hz.
      destruct Hz as [<-|Hz]; [apply str_leb_total; exact E | apply S1; exact Hz].
Qed.

Lemma sort_strs_sorted l : sorted (sort_strs l).
Proof.
  induction l as [|x l IH]; [exact I|].
  rewrite sort_strs_cons. apply insert_sorted_sorted, IH.
Qed.

Lemma sorted_perm_eq l : forall l', sorted l -> sorted l' -> Permutation l l' -> l = l'.
Proof.
  induction l as [|x l IH]; intros [|y l'] S S' P.
  - reflexivity.
  - apply Permutation_nil in P; discriminate.
  - apply Permutation_sym, Permutation_nil in P; discriminate.
  - destruct S as [S1 S2], S' as [S1' S2'].
    assert (E : x = y).
    { assert (Hx : In x (y :: l')) by (apply (Permutation_in _ P); left; reflexivity).
      assert (Hy : In y (x :: l))
        by (apply (Permutation_in _ (Permutation_sym P)); left; reflexivity).
      destruct Hx as [Hx|Hx]; [symmetry; exact Hx|].
      destruct Hy as [Hy|Hy]; [exact Hy|].
      apply str_leb_antisym; [apply S1; exact Hy | apply S1'; exact Hx]. }
    subst y. f_equal. apply IH; [exact S2 | exact S2' |].
    eapply Permutation_cons_inv; exact P.
Qed.

Lemma sort_strs_canonical l l' : Permutation l l' -> sort_strs l = sort_strs l'.
Proof.
  intro P. apply sorted_perm_eq; try apply sort_strs_sorted.
  eapply perm_trans; [apply sort_strs_perm|].
  eapply perm_trans; [exact P|]. apply Permutation_sym, sort_strs_perm.
Qed.

Lemma sort_strs_eq_perm l l' : sort_strs l = sort_strs l' -> Permutation l l'.
Proof.
  intro E. eapply perm_trans; [apply Permutation_sym, sort_strs_perm|].
  rewrite E. apply sort_strs_perm.
Qed.

(* ------------------------------------------------------------------ order independence *)
Lemma no_inputs_perm a b : Permutation (ts_ins a) (ts_ins b) -> no_inputs a = no_inputs b.
Proof.
  unfold no_inputs. intro P. destruct (ts_ins a), (ts_ins b); try reflexivity.
  - apply Permutation_nil in P; discriminate.
  - apply Permutation_sym, Permutation_nil in P; discriminate.
Qed.

Theorem key_order_independent (H : str -> str) fa a fb b :
  state_equiv fa a fb b -> change_key H fa a = change_key H fb b.
Proof.
  intros (E1 & E2 & P3 & P4 & P5 & P6 & E7 & F).
  assert (Ed : encode_def a = encode_def b).
  { unfold encode_def, comps.
    rewrite E1, E2, E7, (sort_strs_canonical _ _ P3), (sort_strs_canonical _ _ P4),
      (sort_strs_canonical _ _ P5), (sort_strs_canonical _ _ (Permutation_map kv P6)).
    reflexivity. }
  assert (Ef : encode_files fa a = encode_files fb b).
  { unfold encode_files, file_parts. rewrite <- (sort_strs_canonical _ _ P3). f_equal.
    apply map_ext_in. intros p Hp. unfold file_bytes. rewrite (F p); [reflexivity|].
    apply (Permutation_in _ (sort_strs_perm _)); exact Hp. }
  unfold change_key. rewrite (no_inputs_perm _ _ P3), Ed, Ef. reflexivity.
Qed.

(* ------------------------------------------------------------------ decoding helpers *)
Lemma first_split_eq c (a b a' b' : str) :
  ~ In c a -> ~ In c a' -> a ++ c :: b = a' ++ c :: b' -> a = a' /\ b = b'.
Proof.
  intros Ha Ha' E. apply (f_equal (split_first c)) in E.
  rewrite (split_first_app _ _ _ Ha), (split_first_app _ _ _ Ha') in E.
  injection E; auto.
Qed.

Lemma label_parts_inj l l' :
  ~ In ch_colon (lpkg l) -> ~ In ch_colon (lpkg l') ->
  lpkg l ++ ch_colon :: lname l = lpkg l' ++ ch_colon :: lname l' -> l = l'.
Proof.
  destruct l as [p n], l' as [p' n']; cbn [lpkg lname].
  intros Hp Hp' E. apply first_split_eq in E; auto.
  destruct E; congruence.
Qed.

Lemma print_label_inj l l' :
  ~ In ch_colon (lpkg l) -> ~ In ch_colon (lpkg l') -> print_label l = print_label l' -> l = l'.
Proof.
  unfold print_label. intros Hp Hp' E. apply app_inv_head in E.
  apply label_parts_inj; assumption.
Qed.

Lemma elem_ok_spec s : elem_ok s = true -> s <> [] /\ ~ In ch_comma s.
Proof.
  unfold elem_ok. rewrite andb_true_iff, !negb_true_iff. intros [H1 H2]. split.
  - destruct s; [discriminate H1 | intro; discriminate].
  - apply mem_ch_false; exact H2.
Qed.

Lemma join_single sep x : join sep [x] = x.
Proof. reflexivity. Qed.

Lemma join_cons2 x y l : join comma (x :: y :: l) = x ++ ch_comma :: join comma (y :: l).
Proof. reflexivity. Qed.

Lemma join_nil_inv l : (forall x, In x l -> elem_ok x = true) -> join comma l = [] -> l = [].
Proof.
  destruct l as [|x [|y l]]; intros Hl E; [reflexivity | |].
  - rewrite join_single in E. destruct (elem_ok_spec x) as [N _]; [apply Hl; left; reflexivity|].
    contradiction.
  - rewrite join_cons2 in E. apply app_eq_nil in E as [_ E]. discriminate.
Qed.

Lemma join_comma_inj l :
  forall l', (forall x, In x l -> elem_ok x = true) -> (forall x, In x l' -> elem_ok x = true) ->
             join comma l = join comma l' -> l = l'.
Proof.
  induction l as [|x l IH]; intros l' Hl Hl' E.
  - symmetry in E. apply join_nil_inv in E; [congruence | exact Hl'].
  - destruct l' as [|x' l'].
    + apply join_nil_inv in E; [exact E | exact Hl].
    + assert (Ox : ~ In ch_comma x) by (apply elem_ok_spec, Hl; left; reflexivity).
      assert (Ox' : ~ In ch_comma x') by (apply elem_ok_spec, Hl'; left; reflexivity).
      destruct l as [|y l], l' as [|y' l'].
      * rewrite !join_single in E. congruence.
      * rewrite join_cons2, join_single in E. exfalso. apply Ox. rewrite E.
        apply in_or_app; right; left; reflexivity.
      * rewrite join_cons2, join_single in E. exfalso. apply Ox'. rewrite <- E.
        apply in_or_app; right; left; reflexivity.
      * rewrite !join_cons2 in E. apply first_split_eq in E; [|exact Ox|exact Ox'].
        destruct E as [-> E]. f_equal.
        apply IH; [intros; apply Hl; right; assumption
                  | intros; apply Hl'; right; assumption | exact E].
Qed.

Lemma join_sort_inj l l' :
  forallb elem_ok l = true -> forallb elem_ok l' = true ->
  join comma (sort_strs l) = join comma (sort_strs l') -> Permutation l l'.
Proof.
  intros Hl Hl' E. apply sort_strs_eq_perm. apply join_comma_inj; [| |exact E].
  - intros x Hx. apply (proj1 (forallb_forall _ _) Hl).
    apply (Permutation_in _ (sort_strs_perm l)); exact Hx.
  - intros x Hx. apply (proj1 (forallb_forall _ _) Hl').
    apply (Permutation_in _ (sort_strs_perm l')); exact Hx.
Qed.

Lemma fp_ok_spec e :
  fp_ok e = true -> ~ In ch_comma (fst e) /\ ~ In ch_eq (fst e) /\ ~ In ch_comma (snd e).
Proof.
  unfold fp_ok. rewrite !andb_true_iff, !negb_true_iff. intros [[H1 H2] H3].
  repeat split; apply mem_ch_false; assumption.
Qed.

Lemma kv_elem_ok e : fp_ok e = true -> elem_ok (kv e) = true.
Proof.
  intro Hk. destruct (fp_ok_spec e Hk) as (K1 & K2 & K3).
  unfold elem_ok, kv. apply andb_true_iff; split; apply negb_true_iff.
  - destruct (fst e); reflexivity.
  - apply mem_ch_false. intro Hin. apply in_app_or in Hin as [Hin|[Hin|Hin]].
    + contradiction.
    + discriminate Hin.
    + contradiction.
Qed.

Lemma kv_inj e e' : fp_ok e = true -> fp_ok e' = true -> kv e = kv e' -> e = e'.
Proof.
  intros Hk Hk' E. destruct (fp_ok_spec e Hk) as (_ & K2 & _).
  destruct (fp_ok_spec e' Hk') as (_ & K2' & _).
  unfold kv in E. apply first_split_eq in E; [|exact K2|exact K2'].
  destruct e, e'; cbn [fst snd] in E. destruct E; congruence.
Qed.

Lemma map_kv_inj l :
  forall l', forallb fp_ok l = true -> forallb fp_ok l' = true -> map kv l = map kv l' -> l = l'.
Proof.
  induction l as [|e l IH]; intros [|e' l']; cbn [map forallb]; try discriminate;
    [reflexivity|].
  rewrite !andb_true_iff. intros [H1 H2] [H1' H2'] E. injection E as E1 E2.
  f_equal; [apply kv_inj; assumption | apply IH; assumption].
Qed.

Lemma forallb_perm {A} (f : A -> bool) l l' :
  Permutation l l' -> forallb f l = true -> forallb f l' = true.
Proof.
  intros P Hl. apply forallb_forall. intros x Hx.
  apply (proj1 (forallb_forall _ _) Hl). apply (Permutation_in _ (Permutation_sym P)); exact Hx.
Qed.

Lemma perm_map_kv_inv l l' :
  forallb fp_ok l = true -> forallb fp_ok l' = true ->
  Permutation (map kv l) (map kv l') -> Permutation l l'.
Proof.
  intros Hl Hl' P. apply Permutation_map_inv in P as (l3 & E & P3).
  apply map_kv_inj in E; [subst l3; apply Permutation_sym; exact P3 | exact Hl |].
  eapply forallb_perm; [exact P3 | exact Hl'].
Qed.

Lemma forallb_map_kv l : forallb fp_ok l = true -> forallb elem_ok (map kv l) = true.
Proof.
  induction l as [|e l IH]; cbn [map forallb]; [reflexivity|].
  rewrite !andb_true_iff. intros [H1 H2]. split; [apply kv_elem_ok; exact H1 | apply IH; exact H2].
Qed.

Lemma plat_str_inj p q :
  match p with Some [] => false | _ => true end = true ->
  match q with Some [] => false | _ => true end = true ->
  plat_str p = plat_str q -> p = q.
Proof.
  destruct p as [[|c s]|], q as [[|d t]|]; cbn [plat_str]; congruence.
Qed.

Lemma nth_error_ext {A} (l : list A) : forall l', (forall i, nth_error l i = nth_error l' i) -> l = l'.
Proof.
  induction l as [|x l IH]; intros [|x' l'] Hn.
  - reflexivity.
  - specialize (Hn 0); discriminate.
  - specialize (Hn 0); discriminate.
  - pose proof (Hn 0) as H0. cbn [nth_error] in H0. injection H0 as ->.
    f_equal. apply IH. intro i. exact (Hn (S i)).
Qed.

(* contents of the files along a duplicate-free path list, equal except possibly at [p]:
   equal concatenations force equality at [p] too *)
Lemma concat_map_one_diff (f g : str -> str) (p : str) L :
  NoDup L -> (forall q, In q L -> q <> p -> f q = g q) ->
  concat (map f L) = concat (map g L) -> forall q, In q L -> f q = g q.
Proof.
  induction L as [|x L IH]; intros ND Hd E q Hq; [destruct Hq|].
  inversion ND as [|? ? Hx ND']; subst.
  cbn [map concat] in E.
  destruct (list_eq_dec ascii_dec x p) as [->|Nx].
  - assert (T : forall r, In r L -> f r = g r).
    { intros r Hr. apply Hd; [right; exact Hr|]. intros ->. contradiction. }
    rewrite (map_ext_in _ _ _ T) in E. apply app_inv_tail in E.
    destruct Hq as [<-|Hq]; [exact E | apply T; exact Hq].
  - assert (Ex : f x = g x) by (apply Hd; [left; reflexivity | exact Nx]).
    destruct Hq as [<-|Hq]; [exact Ex|].
    rewrite Ex in E. apply app_inv_head in E.
    apply IH; [exact ND' | intros; apply Hd; [right; assumption | assumption] | exact E | exact Hq].
Qed.

(* ------------------------------------------------------------------ injectivity, guarded *)
Section Injective.
  Variable H : str -> str.
  Hypothesis H_inj : forall x y, H x = H y -> x = y.
  Hypothesis H_hex : forall x, ~ In ch_us (H x).

  (* equal keys feed the hasher equal byte streams *)
  Lemma key_streams fa a fb b :
    change_key H fa a = change_key H fb b ->
    encode_def a = encode_def b /\
    (no_inputs a = no_inputs b) /\
    (no_inputs a = false -> encode_files fa a = encode_files fb b).
  Proof.
    unfold change_key. destruct (no_inputs a) eqn:Na, (no_inputs b) eqn:Nb; intro E.
    - apply H_inj in E. split; [exact E|]. split; [reflexivity | discriminate].
    - exfalso. apply (H_hex (encode_def a)). rewrite E.
      apply in_or_app; right; left; reflexivity.
    - exfalso. apply (H_hex (encode_def b)). rewrite <- E.
      apply in_or_app; right; left; reflexivity.
    - apply first_split_eq in E; try apply H_hex. destruct E as [E1 E2].
      apply H_inj in E1. apply H_inj in E2. split; [exact E1|]. split; [reflexivity|].
      intros _. exact E2.
  Qed.

  Lemma concat_differ_one (l l' : list str) :
    length l = length l' -> concat l = concat l' -> differ_at_most_one l l' -> l = l'.
  Proof.
    revert l'; induction l as [|x l IH]; intros [|x' l'] Hlen Hc [k Hk];
      try discriminate; try reflexivity.
    cbn [concat] in Hc. cbn [length] in Hlen.
    destruct k as [|k].
    - assert (E : l = l').
      { apply nth_error_ext. intro i. apply (Hk (S i)). discriminate. }
      subst l'. apply app_inv_tail in Hc. congruence.
    - assert (E : x = x').
      { assert (H0 : 0 <> S k) by discriminate. apply Hk in H0. cbn [nth_error] in H0. congruence. }
      subst x'. apply app_inv_head in Hc. f_equal.
      apply IH; [lia | exact Hc |]. exists k. intros i Hi. apply (Hk (S i)). lia.
  Qed.

  (* a single changed component, with decodable elements, always changes the key; a single
     changed input file likewise *)
  Theorem key_single_change_sensitive fa a fb b :
    wf_state a = true -> wf_state b = true ->
    change_key H fa a = change_key H fb b ->
    differ_at_most_one (comps a) (comps b) ->
    NoDup (ts_ins a) ->
    (Permutation (ts_ins a) (ts_ins b) -> files_differ_at_most_one fa fb (ts_ins a)) ->
    state_equiv fa a fb b.
  Proof.
    intros Wa Wb K D ND F.
    destruct (key_streams _ _ _ _ K) as (Ed & Eni & Ef).
    assert (C : comps a = comps b).
    { apply concat_differ_one; [reflexivity | exact Ed | exact D]. }
    assert (C1 : print_label (ts_label a) = print_label (ts_label b))
      by exact (f_equal (fun l => nth 0 l []) C).
    unfold comps in C. injection C as _ C2 C3 C4 C5 C6 C7.
    unfold wf_state in Wa, Wb. rewrite !andb_true_iff in Wa, Wb.
    destruct Wa as (((((Wa1 & Wa2) & Wa3) & Wa4) & Wa5) & Wa6).
    destruct Wb as (((((Wb1 & Wb2) & Wb3) & Wb4) & Wb5) & Wb6).
    apply negb_true_iff, mem_ch_false in Wa1. apply negb_true_iff, mem_ch_false in Wb1.
    assert (P3 : Permutation (ts_ins a) (ts_ins b)) by (apply join_sort_inj; assumption).
    split; [apply print_label_inj; assumption|].
    split; [exact C2|].
    split; [exact P3|].
    split; [apply join_sort_inj; assumption|].
    split; [apply join_sort_inj; assumption|].
    split.
    { apply perm_map_kv_inv; [assumption | assumption |].
      apply join_sort_inj; [apply forallb_map_kv; assumption | apply forallb_map_kv; assumption | exact C6]. }
    split; [apply plat_str_inj; assumption|].
    intros q Hq.
    destruct (no_inputs a) eqn:Na.
    { unfold no_inputs in Na. destruct (ts_ins a); [destruct Hq | discriminate]. }
    specialize (Ef eq_refl). destruct (F P3) as (p & Fd & Fp).
    unfold encode_files, file_parts in Ef.
    rewrite <- (sort_strs_canonical _ _ P3) in Ef.
    assert (FB : forall r, In r (sort_strs (ts_ins a)) -> file_bytes fa r = file_bytes fb r).
    { apply (concat_map_one_diff _ _ p).
      - eapply Permutation_NoDup; [apply Permutation_sym, sort_strs_perm | exact ND].
      - intros r Hr Nr. unfold file_bytes. rewrite (Fd r); [reflexivity | | exact Nr].
        apply (Permutation_in _ (sort_strs_perm _)); exact Hr.
      - exact Ef. }
    destruct (list_eq_dec ascii_dec q p) as [->|Nq]; [|apply Fd; assumption].
    assert (Hb : file_bytes fa p = file_bytes fb p).
    { apply FB. apply (Permutation_in _ (Permutation_sym (sort_strs_perm _))); exact Hq. }
    unfold file_bytes in Hb. destruct (fa p) as [ca|], (fb p) as [cb|].
    - congruence.
    - destruct Fp as [_ Fp]. specialize (Fp eq_refl). discriminate.
    - destruct Fp as [Fp _]. specialize (Fp eq_refl). discriminate.
    - reflexivity.
  Qed.
End Injective.

(* ------------------------------------------------------------------ refutations: collisions that hold
   for EVERY digest function, because the hashed byte streams are literally equal *)
Definition collides (fa : str -> option str) (a : tstate) (fb : str -> option str) (b : tstate) : Prop :=
  ~ state_equiv fa a fb b /\ forall H : str -> str, change_key H fa a = change_key H fb b.

Definition s1 (c : ascii) : str := [c].
Definition La : label := mkLabel (s1 "p") (s1 "a").
Definition nofs : str -> option str := fun _ => None.
Definition T0 (l : label) (cmd : str) ins outs deps fp plat := mkT l cmd ins outs deps fp plat.
Definition linux : option str := Some ["l"; "x"]%char.

(* label | command boundary *)
Theorem collision_label_command :
  collides nofs (mkT (mkLabel (s1 "p") (s1 "a")) ["b"; "c"]%char [] [] [] [] linux)
           nofs (mkT (mkLabel (s1 "p") ["a"; "b"]%char) (s1 "c") [] [] [] [] linux).
Proof.
  split.
  - intros (E1 & _). cbv in E1. discriminate E1.
  - intro H. vm_compute. reflexivity.
Qed.

(* list element containing the separator *)
Theorem collision_separator_in_element :
  collides nofs (mkT La [] [] [["a"; ","; "b"]%char] [] [] linux)
           nofs (mkT La [] [] [s1 "a"; s1 "b"] [] [] linux).
Proof.
  split.
  - intros (_ & _ & _ & P & _). apply Permutation_length in P. discriminate P.
  - intro H. vm_compute. reflexivity.
Qed.

(* fingerprint key/value shift around '=' *)
Theorem collision_fingerprint_shift :
  collides nofs (mkT La [] [] [] [] [(s1 "a", ["b"; "="; "c"]%char)] linux)
           nofs (mkT La [] [] [] [] [(["a"; "="; "b"]%char, s1 "c")] linux).
Proof.
  split.
  - intros (_ & _ & _ & _ & _ & P & _). cbn [ts_fp] in P.
    apply Permutation_length_1 in P. cbv in P. discriminate P.
  - intro H. vm_compute. reflexivity.
Qed.

(* outputs | dependency hashes boundary *)
Theorem collision_outputs_deps :
  collides nofs (mkT La [] [] [s1 "x"] [] [] linux)
           nofs (mkT La [] [] [] [s1 "x"] [] linux).
Proof.
  split.
  - intros (_ & _ & _ & P & _). apply Permutation_length in P. discriminate P.
  - intro H. vm_compute. reflexivity.
Qed.

(* end of one input file / start of the next *)
Definition fs_xy_z : str -> option str :=
  fun p => if str_eqb p (s1 "a") then Some ["x"; "y"]%char else if str_eqb p (s1 "b") then Some (s1 "z") else None.
Definition fs_x_yz : str -> option str :=
  fun p => if str_eqb p (s1 "a") then Some (s1 "x") else if str_eqb p (s1 "b") then Some ["y"; "z"]%char else None.
Theorem collision_file_boundary :
  collides fs_xy_z (mkT La [] [s1 "a"; s1 "b"] [] [] [] linux)
           fs_x_yz (mkT La [] [s1 "a"; s1 "b"] [] [] [] linux).
Proof.
  split.
  - intros (_ & _ & _ & _ & _ & _ & _ & F).
    specialize (F (s1 "a") (or_introl eq_refl)). vm_compute in F. discriminate F.
  - intro H. vm_compute. reflexivity.
Qed.

(* absent vs empty literal input *)
Definition fs_a_empty : str -> option str := fun p => if str_eqb p (s1 "a") then Some [] else None.
Theorem collision_absent_vs_empty :
  collides nofs (mkT La [] [s1 "a"] [] [] [] linux)
           fs_a_empty (mkT La [] [s1 "a"] [] [] [] linux).
Proof.
  split.
  - intros (_ & _ & _ & _ & _ & _ & _ & F).
    specialize (F (s1 "a") (or_introl eq_refl)). vm_compute in F. discriminate F.
  - intro H. vm_compute. reflexivity.
Qed.

(* an alias in-edge leaves "" in the dependency-hash list: indistinguishable from no dependency *)
Theorem collision_alias_dep_empty :
  collides nofs (mkT La [] [] [] [[]] [] linux)
           nofs (mkT La [] [] [] [] [] linux).
Proof.
  split.
  - intros (_ & _ & _ & _ & P & _). apply Permutation_length in P. discriminate P.
  - intro H. vm_compute. reflexivity.
Qed.

(* non-vacuity of the guarded theorem: a well-formed pair that differs in one component *)
Example single_change_nonvacuous :
  let a := mkT La (s1 "c") [s1 "i"] [s1 "o"] [s1 "d"] [(s1 "k", s1 "v")] linux in
  let b := mkT La (s1 "d") [s1 "i"] [s1 "o"] [s1 "d"] [(s1 "k", s1 "v")] linux in
  wf_state a = true /\ wf_state b = true /\ differ_at_most_one (comps a) (comps b).
Proof.
  intros a b. split; [vm_compute; reflexivity|]. split; [vm_compute; reflexivity|].
  exists 1. intros [|[|i]] Hi.
  - reflexivity.
  - contradiction.
  - reflexivity.
Qed.

(* H := identity-with-hex is not needed: the hypotheses are satisfiable by an injective,
   '_'-free encoder, e.g. doubling every byte into two hex digits *)
Definition hexdigit (n : nat) : ascii := ascii_of_nat (if n <? 10 then 48 + n else 87 + n).
Definition hex_enc (s : str) : str :=
  flat_map (fun c => [hexdigit (nat_of_ascii c / 16); hexdigit (nat_of_ascii c mod 16)]) s.

Definition hexval (c : ascii) : nat :=
  let n := nat_of_ascii c in if n <? 58 then n - 48 else n - 87.
Definition unhex2 (h l : ascii) : ascii := ascii_of_nat (hexval h * 16 + hexval l).

Lemma unhex2_hex c : unhex2 (hexdigit (nat_of_ascii c / 16)) (hexdigit (nat_of_ascii c mod 16)) = c.
Proof. destruct c as [[] [] [] [] [] [] [] []]; vm_compute; reflexivity. Qed.

Lemma hexdigit_no_us c :
  hexdigit (nat_of_ascii c / 16) <> ch_us /\ hexdigit (nat_of_ascii c mod 16) <> ch_us.
Proof. destruct c as [[] [] [] [] [] [] [] []]; vm_compute; split; discriminate. Qed.

Lemma hex_enc_cons c s :
  hex_enc (c :: s) = hexdigit (nat_of_ascii c / 16) :: hexdigit (nat_of_ascii c mod 16) :: hex_enc s.
Proof. reflexivity. Qed.

Lemma hex_enc_inj x y : hex_enc x = hex_enc y -> x = y.
Proof.
  revert y; induction x as [|c x IH]; intros [|d y] E.
  - reflexivity.
  - rewrite hex_enc_cons in E. discriminate E.
  - rewrite hex_enc_cons in E. discriminate E.
  - rewrite !hex_enc_cons in E. injection E as E1 E2 E3.
    assert (Hcd : unhex2 (hexdigit (nat_of_ascii c / 16)) (hexdigit (nat_of_ascii c mod 16)) =
                  unhex2 (hexdigit (nat_of_ascii d / 16)) (hexdigit (nat_of_ascii d mod 16)))
      by exact (f_equal2 unhex2 E1 E2).
    rewrite !unhex2_hex in Hcd. f_equal; [exact Hcd | apply IH; exact E3].
Qed.
Lemma hex_enc_no_us x : ~ In ch_us (hex_enc x).
Proof.
  induction x as [|c x IH]; [intros []|].
  rewrite hex_enc_cons. destruct (hexdigit_no_us c) as [N1 N2].
  intros [Hi|[Hi|Hi]]; [apply N1; exact Hi | apply N2; exact Hi | apply IH; exact Hi].
Qed.
