(* Walker.v -- the scheduler of `grog build`: dag.Walker (internal/dag/graph_walker.go) driving
   worker.TaskWorkerPool (internal/worker/task_worker_pool.go) the way execution/execute.go wires
   them (walk callback = hash + `workerPool.Run(task)`).  Model only; proofs in Walker_proofs.v.

   The graph [g] is the SELECTED sub-graph, topologically numbered; node [n]'s in-edges are
   [deps g n] (Graph.v).  Closure of the selection under dependencies is C12's business.

   One event per atomic region of the code (B.2 of DESIGN.md, code as of the commit "fix: register
   all walker node channels before starting any node routine": all channels are registered under
   nodeMutex before any routine starts, so there is no registration event and no lost wake-up):

     Start n           nodeRoutine's select takes <-info.ready: the walk callback is entered
                       (bin tools, change hash, then pool.Run: the job is enqueued or about to be)
     CancelRecv n      nodeRoutine's select takes <-info.cancel (closed channel): routine returns,
                       no completion entry.  When both channels are ready Go picks EITHER.
     Pick n            a pool worker receives n's job from jobCh and calls the task function
     CmdStart n        the task reaches exec.Cmd.Start, whose first action is the check of the
                       task's context (the walker's INNER context): "a command starts"
     Reject n          pool closed: Run / enqueue return "worker pool is closed"; the callback
                       returns that error, onComplete records n as failed although it never ran
     FinishOk n        task returned nil            -> onComplete(success) under doneMutex
     FinishFail n      task returned an error that is not context.Canceled -> onComplete(failure)
     FinishCancelled n task returned an error that Is context.Canceled -> routine returns
                       WITHOUT onComplete ("leaves target uncompleted")
     CtxCancel         the OUTER context (signal handler) is cancelled: the pool's watcher calls
                       Shutdown (closes jobCh), the inner context is cancelled with it
     WorkerExit        a pool worker leaves its loop (ctx.Done, or jobCh closed and drained)
     WalkReturn        Walk's final select: all routines returned, or <-ctx.Done() of the inner
                       context (then cancelAll).  Code as of the commit "fix: Walk returns a copy of
                       the completions ...": on both paths the caller gets a SNAPSHOT of the
                       completions, copied under doneMutex ([snap]); Walk does not wait for the
                       routines on the ctx.Done path, and the completions they record later
                       (FinishOk / FinishFail / Reject after WalkReturn) go to the walker's own map
                       only ([st]), never to the map the caller reads without the mutex

   Which context is which: the pool's workers and its shutdown watcher use the OUTER context
   (execute.go: workerPool.StartWorkers(ctx) before NewWalker); Walk derives the INNER context
   (context.WithCancel) that the callbacks and hence the tasks see.  Fail-fast cancels only the
   inner one: the pool keeps picking queued jobs, whose tasks then find their context cancelled
   (no CmdStart; they end by FinishCancelled, or FinishOk/FinishFail if they never look at it,
   e.g. a cache hit).  After Walk returned, execute.go's deferred workerPool.Shutdown() closes
   the pool as well: [closed s = ctxc s || ret s]. *)
From Grog Require Import Graph.

Inductive status := Parked | Ready | Queued | Running | Ok | Failed | Skipped | Aborted.

Definition status_eqb (a b : status) : bool :=
  match a, b with
  | Parked, Parked | Ready, Ready | Queued, Queued | Running, Running
  | Ok, Ok | Failed, Failed | Skipped, Skipped | Aborted, Aborted => true
  | _, _ => false
  end.

Definition is_ok (x : status) : bool := match x with Ok => true | _ => false end.
Definition is_running (x : status) : bool := match x with Running => true | _ => false end.
(* the node routine has returned *)
Definition is_final (x : status) : bool :=
  match x with Ok | Failed | Skipped | Aborted => true | _ => false end.

(* an entry of a completions map (dag.CompletionMap: label -> Completion{IsSuccess, ...}) *)
Inductive entry := Absent | Success | Failure.

Definition entry_eqb (a b : entry) : bool :=
  match a, b with
  | Absent, Absent | Success, Success | Failure, Failure => true
  | _, _ => false
  end.

(* the walker's own map w.completions is read off the statuses: n has an entry exactly when
   onComplete ran for it *)
Definition entry_of (x : status) : entry :=
  match x with Ok => Success | Failed => Failure | _ => Absent end.

Record config := mkConfig {
  W : nat;       (* num_workers *)
  ff : bool      (* fail_fast option *)
}.

Record state := mkState {
  st : nat -> status;
  cp : nat -> bool;     (* n's cancel channel is closed (cancel pending or consumed) *)
  cmd : nat -> bool;    (* n's command was started *)
  fft : bool;           (* failFastTriggered; the inner context is cancelled with it *)
  ctxc : bool;          (* outer context cancelled (the inner one with it) *)
  dead : nat;           (* pool workers that have left their loop *)
  ret : bool;           (* Walk has returned *)
  snap : nat -> entry   (* the map Walk handed to its caller: the copy made by Walker.snapshot under
                           doneMutex; empty until Walk returns.  The caller (cmds/build.go) reads it
                           without any lock, at any time after the return *)
}.

Definition upd {A : Type} (f : nat -> A) (n : nat) (x : A) : nat -> A :=
  fun m => if Nat.eqb m n then x else f m.

Definition set_st (s : state) (f : nat -> status) : state :=
  mkState f (cp s) (cmd s) (fft s) (ctxc s) (dead s) (ret s) (snap s).

Definition inner_cancelled (s : state) : bool := fft s || ctxc s.
Definition closed (s : state) : bool := ctxc s || ret s.

Definition count_run (f : nat -> status) (N : nat) : nat :=
  length (filter (fun m => is_running (f m)) (seq 0 N)).
Definition running (g : graph) (s : state) : nat := count_run (st s) (size g).

Definition all_final (g : graph) (s : state) : bool :=
  forallb (fun m => is_final (st s m)) (seq 0 (size g)).

(* descendants of [a] among the nodes < k, by one pass in topological order (the Go code
   enumerates paths, GetDescendants; same set) *)
Fixpoint desc_upto (g : graph) (a k : nat) : list nat :=
  match k with
  | 0 => []
  | S k' =>
    let l := desc_upto g a k' in
    if existsb (fun d => Nat.eqb d a || mem_nat d l) (deps g k') then k' :: l else l
  end.
Definition desc (g : graph) (a : nat) : list nat := desc_upto g a (size g).

Definition deps_ok (g : graph) (f : nat -> status) (m : nat) : bool :=
  forallb (fun d => is_ok (f d)) (deps g m).

(* the walker's own completions map *)
Definition own (s : state) (n : nat) : entry := entry_of (st s n).

(* onComplete's fan-out for a successful n: a parked dependant all of whose in-edge nodes have
   successful completions gets a ready message *)
Definition release (g : graph) (f : nat -> status) (n : nat) : nat -> status :=
  fun m => match f m with
           | Parked => if mem_nat n (deps g m) && deps_ok g f m then Ready else Parked
           | x => x
           end.

(* onComplete writes the walker's own map ([st]) under doneMutex.  The map the caller of Walk holds
   ([snap]) is a different map object: it is not touched, whether Walk has returned or not *)
Definition complete_ok (g : graph) (s : state) (n : nat) : state :=
  let f := upd (st s) n Ok in
  mkState (if fft s then f else release g f n)
          (cp s) (cmd s) (fft s) (ctxc s) (dead s) (ret s) (snap s).

Definition complete_fail (g : graph) (c : config) (s : state) (n : nat) : state :=
  let f := upd (st s) n Failed in
  if fft s then mkState f (cp s) (cmd s) true (ctxc s) (dead s) (ret s) (snap s)
  else if ff c then mkState f (fun _ => true) (cmd s) true (ctxc s) (dead s) (ret s) (snap s)
  else let ds := desc g n in
       mkState f (fun m => cp s m || mem_nat m ds) (cmd s) false (ctxc s) (dead s) (ret s)
               (snap s).

Inductive event :=
| Start (n : nat) | CancelRecv (n : nat) | Pick (n : nat) | CmdStart (n : nat) | Reject (n : nat)
| FinishOk (n : nat) | FinishFail (n : nat) | FinishCancelled (n : nat)
| CtxCancel | WorkerExit | WalkReturn.

Definition event_eqb (a b : event) : bool :=
  match a, b with
  | Start n, Start m | CancelRecv n, CancelRecv m | Pick n, Pick m | CmdStart n, CmdStart m
  | Reject n, Reject m | FinishOk n, FinishOk m | FinishFail n, FinishFail m
  | FinishCancelled n, FinishCancelled m => Nat.eqb n m
  | CtxCancel, CtxCancel | WorkerExit, WorkerExit | WalkReturn, WalkReturn => true
  | _, _ => false
  end.

Definition step (g : graph) (c : config) (s : state) (e : event) : option state :=
  match e with
  | Start n =>
    if Nat.ltb n (size g) && status_eqb (st s n) Ready
    then Some (set_st s (upd (st s) n Queued)) else None
  | CancelRecv n =>
    if Nat.ltb n (size g) && (status_eqb (st s n) Parked || status_eqb (st s n) Ready) && cp s n
    then Some (set_st s (upd (st s) n Skipped)) else None
  | Pick n =>
    if Nat.ltb n (size g) && status_eqb (st s n) Queued && Nat.ltb (running g s + dead s) (W c)
    then Some (set_st s (upd (st s) n Running)) else None
  | CmdStart n =>
    if Nat.ltb n (size g) && status_eqb (st s n) Running && negb (cmd s n) && negb (inner_cancelled s)
    then Some (mkState (st s) (cp s) (upd (cmd s) n true) (fft s) (ctxc s) (dead s) (ret s) (snap s))
    else None
  | Reject n =>
    if Nat.ltb n (size g) && status_eqb (st s n) Queued && closed s
    then Some (complete_fail g c s n) else None
  | FinishOk n =>
    if Nat.ltb n (size g) && status_eqb (st s n) Running
    then Some (complete_ok g s n) else None
  | FinishFail n =>
    if Nat.ltb n (size g) && status_eqb (st s n) Running
    then Some (complete_fail g c s n) else None
  | FinishCancelled n =>
    if Nat.ltb n (size g) && status_eqb (st s n) Running && inner_cancelled s
    then Some (set_st s (upd (st s) n Aborted)) else None
  | CtxCancel =>
    if negb (ctxc s)
    then Some (mkState (st s) (cp s) (cmd s) (fft s) true (dead s) (ret s) (snap s)) else None
  | WorkerExit =>
    if closed s && Nat.ltb (running g s + dead s) (W c)
    then Some (mkState (st s) (cp s) (cmd s) (fft s) (ctxc s) (S (dead s)) (ret s) (snap s)) else None
  | WalkReturn =>
    if negb (ret s) && (all_final g s || inner_cancelled s)
    then Some (mkState (st s) (if inner_cancelled s then fun _ => true else cp s)
                       (cmd s) (fft s) (ctxc s) (dead s) true (fun n => entry_of (st s n)))
    else None
  end.

(* Walk's set-up: every selected node gets its channels, then its routine; nodes without in-edges
   get their ready message at once *)
Definition init (g : graph) : state :=
  mkState (fun n => match deps g n with [] => Ready | _ :: _ => Parked end)
          (fun _ => false) (fun _ => false) false false 0 false (fun _ => Absent).

Fixpoint run_from (g : graph) (c : config) (s : state) (evs : list event) : option state :=
  match evs with
  | [] => Some s
  | e :: r => match step g c s e with Some s' => run_from g c s' r | None => None end
  end.
Definition run (g : graph) (c : config) (evs : list event) : option state := run_from g c (init g) evs.

Definition reachable (g : graph) (c : config) (s : state) : Prop := exists evs, run g c evs = Some s.

Definition node_events (n : nat) : list event :=
  [Start n; CancelRecv n; Pick n; CmdStart n; Reject n; FinishOk n; FinishFail n; FinishCancelled n].
Definition all_events (N : nat) : list event :=
  flat_map node_events (seq 0 N) ++ [CtxCancel; WorkerExit; WalkReturn].

Definition is_some {A : Type} (o : option A) : bool := match o with Some _ => true | None => false end.

Definition enabledb (g : graph) (c : config) (s : state) (e : event) : bool := is_some (step g c s e).
Definition enabled (g : graph) (c : config) (s : state) : list event :=
  filter (enabledb g c s) (all_events (size g)).

(* A node is settled when nothing can happen to it any more: its routine returned, or its job
   sits in the closed pool's buffer and every worker has left (the routine never returns; Walk has
   returned through ctx.Done) *)
Definition settledb (c : config) (s : state) (n : nat) : bool :=
  is_final (st s n) || (status_eqb (st s n) Queued && closed s && Nat.eqb (dead s) (W c)).
Definition terminalb (g : graph) (c : config) (s : state) : bool :=
  ret s && forallb (settledb c s) (seq 0 (size g)).
Definition terminal (g : graph) (c : config) (s : state) : Prop := terminalb g c s = true.

Fixpoint count_ev (e : event) (evs : list event) : nat :=
  match evs with
  | [] => 0
  | x :: r => (if event_eqb e x then 1 else 0) + count_ev e r
  end.

(* schedule length bound: every event strictly decreases [mu] *)
Definition phi (x : status) : nat :=
  match x with Parked => 4 | Ready => 3 | Queued => 2 | Running => 1 | _ => 0 end.
Definition node_mu (s : state) (n : nat) : nat := phi (st s n) + (if cmd s n then 0 else 1).
Definition glob_mu (c : config) (s : state) : nat :=
  (if ctxc s then 0 else 1) + (W c - dead s) + (if ret s then 0 else 1).
Definition mu (g : graph) (c : config) (s : state) : nat :=
  fold_right (fun n acc => node_mu s n + acc) 0 (seq 0 (size g)) + glob_mu c s.

(* examples used by the non-vacuity theorems *)
Definition diamond : graph := [[]; [0]; [0]; [1; 2]].
Definition antichain (k : nat) : graph := map (fun _ => []) (seq 0 k).
