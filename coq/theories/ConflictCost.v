(* ConflictCost.v -- cost semantics of output-conflict detection (property C19, the clause
   "detecting output conflicts takes time bounded by a small polynomial in the number of
   targets and edges").  Model only; proofs are in ConflictCost_proofs.v.

   Mirrors internal/analysis/output_conflicts.go:
     getAncestorSet       [anc_step] [anc_loop] [ancestor_set_c]
     targetsAreOrdered    [ordered_c]
     detectOutputConflicts (the four pair loops)  [compared] [detect_loop] [detect_conflicts_c]

   Graphs are index-level (Graph.v): node i's direct dependencies (graph.GetDependencies) are
   [deps g i].  Unlike Analysis.v -- where getAncestorSet is a recursion and its memo cache is
   omitted -- the explicit stack, the per-call seen-set and the shared ancestorCache are all
   here, together with four counters:

     c_calls   entries into getAncestorSet (one cache lookup each)
     c_pops    loop iterations = stack pops (one GetLabel + one set lookup each); every stack
               entry is one edge occurrence, pushed once and popped once, so this is also the
               number of edges pushed
     c_fresh   pops of a node not seen before (one set insert + one cache lookup, then either
               a merge of the cached set or the push of the node's dependencies)
     c_merged  set elements copied out of cached ancestor sets (`for cachedAncestor := range cached`)

   [steps] = c_calls + c_pops + c_fresh is the count that is linear per call and proportional
   to the GetLabel() calls the harness of tools/c19.py counts (2 + pops + 2*fresh per cache
   miss, 1 per hit); [work] adds the merge work.

   Order: Go appends the dependencies to the end of the stack slice and pops from the end; the
   stack is a list here with its top at the head, so a push is [rev (deps g a) ++ stack].  In Go
   the order of GetDependencies and of the docker / file groups comes from map iteration; no
   statement proved about this model depends on the order. *)
From Grog Require Export Str Path Graph.

(* ------------------------------------------------------------------ cost *)

Record cost := mkCost { c_calls : nat; c_pops : nat; c_fresh : nat; c_merged : nat }.

Definition cost_zero : cost := mkCost 0 0 0 0.
Definition cost_add (a b : cost) : cost :=
  mkCost (c_calls a + c_calls b) (c_pops a + c_pops b) (c_fresh a + c_fresh b) (c_merged a + c_merged b).

Definition steps (k : cost) : nat := c_calls k + c_pops k + c_fresh k.
Definition work (k : cost) : nat := steps k + c_merged k.

(* V and E (the same figures as Select.edges) *)
Definition n_edges (g : graph) : nat := list_sum (map (@length nat) g).

(* ------------------------------------------------------------------ the shared cache *)

(* ancestorCache: label -> ancestor set; newest entry first, first match wins *)
Definition cache := list (nat * list nat).

Fixpoint cache_get (c : cache) (n : nat) : option (list nat) :=
  match c with
  | [] => None
  | (k, s) :: c' => if Nat.eqb k n then Some s else cache_get c' n
  end.

Definition cache_keys (c : cache) : list nat := map fst c.

(* set[x] = struct{}{} for every x of [s] *)
Definition add_one (set : list nat) (x : nat) : list nat := if mem_nat x set then set else x :: set.
Definition add_all (s set : list nat) : list nat := fold_left add_one s set.

(* ------------------------------------------------------------------ getAncestorSet *)

Record st := mkSt {
  s_stack : list nat;     (* top at the head *)
  s_set : list nat;       (* the per-call `set`: result and seen-set at once *)
  s_pops : nat;
  s_fresh : nat;
  s_merged : nat
}.

(* one iteration of `for len(stack) > 0`; None = the stack is empty.  [seen] = the seen-set
   check is in force (false only in the contrast variant [ancestor_set_paths_c]) *)
Definition anc_step (seen : bool) (g : graph) (c : cache) (s : st) : option st :=
  match s_stack s with
  | [] => None
  | a :: rest =>
      Some (if seen && mem_nat a (s_set s)
            then mkSt rest (s_set s) (S (s_pops s)) (s_fresh s) (s_merged s)
            else match cache_get c a with
                 | Some cs => mkSt rest (add_all cs (a :: s_set s))
                                   (S (s_pops s)) (S (s_fresh s)) (s_merged s + length cs)
                 | None => mkSt (rev (deps g a) ++ rest) (a :: s_set s)
                                (S (s_pops s)) (S (s_fresh s)) (s_merged s)
                 end)
  end.

Inductive loop_res := LoopFuel | LoopDone (s : st).

Fixpoint anc_loop (seen : bool) (g : graph) (c : cache) (fuel : nat) (s : st) : loop_res :=
  match anc_step seen g c s with
  | None => LoopDone s
  | Some s' => match fuel with
               | 0 => LoopFuel
               | S f => anc_loop seen g c f s'
               end
  end.

(* stack := append([]BuildNode{}, graph.GetDependencies(node)...) *)
Definition init_st (g : graph) (n : nat) : st := mkSt (rev (deps g n)) [] 0 0 0.

(* every pop consumes one pushed edge occurrence; a node's dependencies are pushed at most once
   per call (seen-set) besides the initial push, so this many iterations always suffice *)
Definition anc_fuel (g : graph) (n : nat) : nat := length (deps g n) + n_edges g.

(* None = out of fuel (excluded by [ancestor_set_c_total]) *)
Definition ancestor_set_c (g : graph) (c : cache) (n : nat) : option (list nat * cache * cost) :=
  match cache_get c n with
  | Some s => Some (s, c, mkCost 1 0 0 0)
  | None =>
      match anc_loop true g c (anc_fuel g n) (init_st g n) with
      | LoopFuel => None
      | LoopDone s => Some (s_set s, (n, s_set s) :: c, mkCost 1 (s_pops s) (s_fresh s) (s_merged s))
      end
  end.

(* contrast: the SAME loop with the seen-set check switched off and no cache; the number of
   iterations is the number of dependency paths, so the fuel is a parameter *)
Definition ancestor_set_paths_c (fuel : nat) (g : graph) (n : nat) : option (list nat * cost) :=
  match anc_loop false g [] fuel (init_st g n) with
  | LoopFuel => None
  | LoopDone s => Some (s_set s, mkCost 1 (s_pops s) (s_fresh s) (s_merged s))
  end.

(* ------------------------------------------------------------------ targetsAreOrdered *)

Definition ordered_c (g : graph) (c : cache) (a b : nat) : option (bool * cache * cost) :=
  match ancestor_set_c g c a with
  | None => None
  | Some (sa, c1, k1) =>
      if mem_nat b sa then Some (true, c1, k1)
      else match ancestor_set_c g c1 b with
           | None => None
           | Some (sb, c2, k2) => Some (mem_nat a sb, c2, cost_add k1 k2)
           end
  end.

(* ------------------------------------------------------------------ detectOutputConflicts *)

Inductive okind := CFile | CDir | CDocker.
Definition okind_eqb (a b : okind) : bool :=
  match a, b with CFile, CFile | CDir, CDir | CDocker, CDocker => true | _, _ => false end.

(* outputRecord: the owning node (index), the kind of output, and the image tag resp. the
   cleaned path *)
Record crec := mkCrec { cr_owner : nat; cr_kind : okind; cr_key : str }.

Definition of_kind (k : okind) (recs : list crec) : list crec :=
  filter (fun r => okind_eqb (cr_kind r) k) recs.

(* for i := 0; i < len; i++ { for j := i + 1; j < len; j++ *)
Fixpoint upairs {A : Type} (l : list A) : list (A * A) :=
  match l with
  | [] => []
  | x :: r => map (pair x) r ++ upairs r
  end.

Definition same_key (p : crec * crec) : bool := str_eqb (cr_key (fst p)) (cr_key (snd p)).

(* the pairs on which the code calls targetsAreOrdered, loop by loop: docker records of one
   tag, file records of one path (dockerOutputs / fileMap group by key, so pairs with
   different keys are never formed), all pairs of dir records, every dir x file pair *)
Definition cmp_docker (recs : list crec) : list (crec * crec) := filter same_key (upairs (of_kind CDocker recs)).
Definition cmp_file (recs : list crec) : list (crec * crec) := filter same_key (upairs (of_kind CFile recs)).
Definition cmp_dir (recs : list crec) : list (crec * crec) := upairs (of_kind CDir recs).
Definition cmp_dirfile (recs : list crec) : list (crec * crec) := list_prod (of_kind CDir recs) (of_kind CFile recs).

Definition compared (recs : list crec) : list (crec * crec) :=
  cmp_docker recs ++ cmp_file recs ++ cmp_dir recs ++ cmp_dirfile recs.

(* the test made after targetsAreOrdered returned false *)
Definition clash (p : crec * crec) : bool :=
  match cr_kind (fst p), cr_kind (snd p) with
  | CDocker, CDocker => true
  | CFile, CFile => true
  | CDir, CDir => paths_overlap (cr_key (fst p)) (cr_key (snd p))
  | CDir, CFile => path_within (cr_key (snd p)) (cr_key (fst p))
  | _, _ => false
  end.

(* the pair loops with the cache threaded through; [acc] = conflicts found, newest first *)
Fixpoint detect_loop (g : graph) (ps : list (crec * crec)) (c : cache) (k : cost) (acc : list (crec * crec))
  : option (list (crec * crec) * cache * cost) :=
  match ps with
  | [] => Some (rev acc, c, k)
  | p :: ps' =>
      match ordered_c g c (cr_owner (fst p)) (cr_owner (snd p)) with
      | None => None
      | Some (b, c', k') =>
          detect_loop g ps' c' (cost_add k k') (if b then acc else if clash p then p :: acc else acc)
      end
  end.

(* ancestorCache := make(map...) once per detection.  Result: the conflicting pairs, the final
   cache, the cost; None = some getAncestorSet ran out of fuel *)
Definition detect_conflicts_c (g : graph) (recs : list crec) : option (list (crec * crec) * cache * cost) :=
  detect_loop g (compared recs) [] cost_zero [].

(* R, T *)
Definition n_owners (recs : list crec) : nat := length (nodup Nat.eq_dec (map cr_owner recs)).

(* ------------------------------------------------------------------ graph family *)
(* dense n: every node depends on every earlier node *)
Definition dense (n : nat) : graph := map (fun i => seq 0 i) (seq 0 n).

(* the records of the measurement harness: every second node declares the same file *)
Definition shared_out : str := ["o"; "u"; "t"]%char.
Definition every_second (g : graph) : list crec :=
  map (fun i => mkCrec i CFile shared_out) (filter Nat.even (seq 0 (size g))).

(* ================================================================= specification *)

(* every cached entry is the true ancestor set of its key, as a duplicate-free list (Go: a map
   used as a set) *)
Definition cache_sound (g : graph) (c : cache) : Prop :=
  forall k s, cache_get c k = Some s -> NoDup s /\ forall x, In x s <-> reach g x k.

(* detectOutputConflicts runs after FindCycle found nothing *)
Definition acyclic (g : graph) : Prop := forall n, ~ reach g n n.

(* every record belongs to a node of the graph *)
Definition owners_ok (g : graph) (recs : list crec) : Prop := forall r, In r recs -> cr_owner r < size g.

(* the answer targetsAreOrdered has to give *)
Definition ordered_spec (g : graph) (a b : nat) : Prop := reach g b a \/ reach g a b.

(* a compared pair is a conflict iff its owners are unordered and the keys clash *)
Definition conflicting (g : graph) (p : crec * crec) : Prop :=
  ~ ordered_spec g (cr_owner (fst p)) (cr_owner (snd p)) /\ clash p = true.
