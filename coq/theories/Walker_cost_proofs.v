(* Walker_cost_proofs.v -- the cost of propagating a failure to the dependants (C19, clause
   "propagating a failure to dependants").

   Code: internal/dag/graph_walker.go, onComplete, keep-going branch (executed under doneMutex):
       for _, dep := range w.graph.GetDescendants(node) { w.cancelNode(dep) }
   The scheduler model (Walker.v) closes the cancel channel of every node of [Walker.desc g n]
   ([complete_fail]); the cost model (Select.v) has GetDescendants as the visited-set DFS
   [descendants_visited] with its cost.  This file ties the two: [desc g n] and the list returned by
   GetDescendants ([rdeps_t g n] = [fst (descendants_visited g n)]) are the same duplicate-free set, so the
   walker's propagation performs one GetDescendants traversal and one cancelNode (a map lookup and a
   sync.Once: O(1)) per element of that set. *)
From Grog Require Import Str Label Graph Select Select_proofs Walker Walker_proofs.

(* ------------------------------------------------------------------ 1. the same set *)

(* [desc_upto] lists strictly decreasing indices below k *)
Lemma desc_upto_nodup g a k : NoDup (desc_upto g a k).
Proof.
  induction k as [| k IH]; [constructor |].
  cbn [desc_upto]. destruct (existsb _ (deps g k)); [| exact IH].
  constructor; [| exact IH]. intro H. apply desc_upto_sound in H. lia.
Qed.

Lemma desc_nodup g n : NoDup (desc g n).
Proof. unfold desc. apply desc_upto_nodup. Qed.

Lemma desc_lt_size g n m : In m (desc g n) -> m < size g.
Proof. unfold desc. intro H. apply desc_upto_sound in H. apply H. Qed.

Lemma desc_exact g n m : topo g -> (In m (desc g n) <-> reach g n m).
Proof. intro Ht. rewrite <- Walker_proofs.mem_nat_In. apply desc_spec. exact Ht. Qed.

(* the set the walker cancels = the set GetDescendants returns *)
Lemma desc_is_descendants g n : topo g ->
  forall m, In m (desc g n) <-> In m (fst (descendants_visited g n)).
Proof.
  intros Ht m. fold (rdeps_t g n). rewrite (desc_exact g n m Ht), (rdeps_t_exact g n m Ht). reflexivity.
Qed.

Lemma desc_is_reach g n : topo g -> forall m, In m (desc g n) <-> reach g n m.
Proof. intros Ht m. apply desc_exact. exact Ht. Qed.

Lemma desc_not_self g n : topo g -> ~ In n (desc g n).
Proof.
  intros Ht H. apply (desc_exact g n n Ht) in H. apply (Select_proofs.reach_topo_lt g n n Ht) in H. lia.
Qed.

Lemma rdeps_t_not_self g n : topo g -> ~ In n (rdeps_t g n).
Proof.
  intros Ht H. apply (rdeps_t_exact g n n Ht) in H. apply (Select_proofs.reach_topo_lt g n n Ht) in H. lia.
Qed.

(* both are duplicate-free, hence the same number of cancelNode calls *)
Lemma desc_length g n : topo g -> length (desc g n) = length (rdeps_t g n).
Proof.
  intro Ht. apply Nat.le_antisymm.
  - apply NoDup_incl_length; [apply desc_nodup |]. intros m Hm. apply (desc_is_descendants g n Ht). exact Hm.
  - apply NoDup_incl_length; [apply rdeps_t_nodup |]. intros m Hm. apply (desc_is_descendants g n Ht). exact Hm.
Qed.

(* everything the plan asks about the two lists, in one statement *)
Lemma propagation_set g n : topo g ->
  (forall m, In m (desc g n) <-> In m (fst (descendants_visited g n))) /\
  (forall m, In m (desc g n) <-> reach g n m) /\
  NoDup (desc g n) /\ NoDup (fst (descendants_visited g n)) /\
  ~ In n (desc g n) /\ ~ In n (fst (descendants_visited g n)) /\
  length (desc g n) = length (fst (descendants_visited g n)).
Proof.
  intro Ht. split; [exact (desc_is_descendants g n Ht) |]. split; [exact (desc_is_reach g n Ht) |].
  split; [apply desc_nodup |]. split; [apply rdeps_t_nodup |].
  split; [exact (desc_not_self g n Ht) |]. split; [exact (rdeps_t_not_self g n Ht) |].
  exact (desc_length g n Ht).
Qed.

(* the step of the scheduler model, restated with GetDescendants: in keep-going mode (and before any fail-fast)
   a failed completion closes the cancel channel of exactly the nodes GetDescendants returns *)
Lemma complete_fail_closes_descendants g c s n : topo g -> ff c = false -> fft s = false ->
  forall m, cp (complete_fail g c s n) m = cp s m || mem_nat m (fst (descendants_visited g n)).
Proof.
  intros Ht Hff Hfft m.
  destruct (complete_fail_spec g c s n) as [_ [_ [_ [_ [_ [_ [[F _] | [[_ [F _]] | [_ [_ [_ E]]]]]]]]]]];
    [congruence | congruence |].
  rewrite E. f_equal.
  destruct (mem_nat m (fst (descendants_visited g n))) eqn:E2.
  - apply Walker_proofs.mem_nat_In. apply (desc_is_descendants g n Ht). apply Walker_proofs.mem_nat_In. exact E2.
  - destruct (mem_nat m (desc g n)) eqn:E1; [| reflexivity].
    apply Walker_proofs.mem_nat_In in E1. apply (desc_is_descendants g n Ht) in E1.
    apply Walker_proofs.mem_nat_In in E1. congruence.
Qed.

(* ------------------------------------------------------------------ 2. the cost of one propagation *)

(* the keep-going branch of onComplete for a failed node n: one GetDescendants traversal (entries into the
   recursive function + edges inspected) and one cancelNode per node returned *)
Definition propagation_cost (g : graph) (n : nat) : nat :=
  descendants_visited_cost g n + length (fst (descendants_visited g n)).

(* a duplicate-free list of indices below N has at most N elements *)
Lemma nodup_below_length (l : list nat) N : NoDup l -> (forall x, In x l -> x < N) -> length l <= N.
Proof.
  intros Hnd Hlt. rewrite <- (seq_length N 0). apply NoDup_incl_length; [exact Hnd |].
  intros x Hx. apply in_seq. specialize (Hlt x Hx). lia.
Qed.

(* GetDescendants returns at most V nodes (no hypothesis on the graph: the out-edge lists only name nodes) *)
Lemma descendants_length_le g n : length (fst (descendants_visited g n)) <= size g.
Proof.
  unfold descendants_visited.
  destruct (dfs_bound (dependants g) (size g)
              (fun m d Hd => proj1 (proj1 (dependants_spec g m d) Hd)) (size g) n ([n], 0))
    as [new [E1 [E2 [_ [E4 _]]]]].
  destruct (dfs (dependants g) (size g) n ([n], 0)) as [vis c]. cbn [fst] in *. subst vis.
  rewrite removelast_last, rev_length. apply nodup_below_length; assumption.
Qed.

Lemma propagation_cost_bound g n : wf_graph g -> propagation_cost g n <= 2 * size g + edges g + 1.
Proof.
  intro Hwf. unfold propagation_cost.
  pose proof (descendants_visited_linear g n Hwf). pose proof (descendants_length_le g n). lia.
Qed.

Lemma propagation_linear g n : wf_graph g -> propagation_cost g n <= 2 * (size g + edges g + 1).
Proof. intro Hwf. pose proof (propagation_cost_bound g n Hwf). lia. Qed.

Lemma propagation_poly g n : wf_graph g -> propagation_cost g n <= 4 * (size g + edges g + 1) ^ 2.
Proof.
  intro Hwf. pose proof (propagation_linear g n Hwf) as H.
  remember (size g + edges g) as x. cbn [Nat.pow]. nia.
Qed.

(* the walker's own set has the same size: the number of cancelNode calls is |desc g n| *)
Lemma propagation_cost_desc g n : topo g ->
  propagation_cost g n = descendants_visited_cost g n + length (desc g n).
Proof. intro Ht. unfold propagation_cost. rewrite (desc_length g n Ht). reflexivity. Qed.

(* ------------------------------------------------------------------ 3. all propagations of one build *)

Lemma list_sum_le_const (f : nat -> nat) k l : (forall x, In x l -> f x <= k) -> list_sum (map f l) <= length l * k.
Proof.
  induction l as [| x l IH]; intro H; [simpl; lia |].
  simpl. specialize (H x (or_introl eq_refl)) as Hx.
  assert (IH' : list_sum (map f l) <= length l * k) by (apply IH; intros y Hy; apply H; right; exact Hy).
  lia.
Qed.

(* every node fails at most once: the failing nodes of a build form a duplicate-free list of nodes *)
Lemma propagation_total_linear_per_failure g fs : wf_graph g -> NoDup fs -> (forall n, In n fs -> n < size g) ->
  list_sum (map (propagation_cost g) fs) <= length fs * (2 * (size g + edges g + 1)) /\
  list_sum (map (propagation_cost g) fs) <= 2 * size g * (size g + edges g + 1).
Proof.
  intros Hwf Hnd Hlt.
  assert (H1 : list_sum (map (propagation_cost g) fs) <= length fs * (2 * (size g + edges g + 1))).
  { apply list_sum_le_const. intros n _. apply propagation_linear. exact Hwf. }
  split; [exact H1 |].
  pose proof (nodup_below_length fs (size g) Hnd Hlt) as H2.
  assert (H3 : length fs * (2 * (size g + edges g + 1)) <= size g * (2 * (size g + edges g + 1)))
    by (apply Nat.mul_le_mono_r; exact H2).
  lia.
Qed.

(* --- the same over a schedule of the walker model: onComplete(failure) runs at the events FinishFail n and
   Reject n ([complete_fail]); over any run each node has at most one of them, and it is a node of the graph.
   Charging every one of them a full propagation over-approximates the code (with fail-fast set or triggered,
   onComplete does not call GetDescendants at all). *)
Definition fail_node (e : event) : list nat :=
  match e with FinishFail n | Reject n => [n] | _ => [] end.
Definition failing_nodes (evs : list event) : list nat := flat_map fail_node evs.
Definition walk_propagation_cost (g : graph) (evs : list event) : nat :=
  list_sum (map (propagation_cost g) (failing_nodes evs)).

Lemma step_not_final_back g c s e s' m : step g c s e = Some s' -> is_final (st s' m) = false -> is_final (st s m) = false.
Proof.
  intros HS H. destruct (step_status_cases g c s e s' HS m) as [E | L].
  - rewrite <- E. exact H.
  - exact (legal_not_final _ _ _ L).
Qed.

Lemma step_fail_node g c s e s' n : step g c s e = Some s' -> In n (fail_node e) ->
  n < size g /\ is_final (st s n) = false /\ st s' n = Failed.
Proof.
  intros HS Hin. destruct e as [k|k|k|k|k|k|k|k| | |]; cbn [fail_node] in Hin; try contradiction;
    destruct Hin as [E | []]; subst k.
  - apply step_Reject in HS. destruct HS as [Hn [Hst [_ E]]]. subst s'.
    destruct (complete_fail_spec g c s n) as [E1 _]. rewrite E1, upd_same, Hst. auto.
  - apply step_FinishFail in HS. destruct HS as [Hn [Hst E]]. subst s'.
    destruct (complete_fail_spec g c s n) as [E1 _]. rewrite E1, upd_same, Hst. auto.
Qed.

Lemma run_from_failing_nodes g c evs : forall s s', run_from g c s evs = Some s' ->
  NoDup (failing_nodes evs) /\ forall n, In n (failing_nodes evs) -> n < size g /\ is_final (st s n) = false.
Proof.
  induction evs as [| e r IH]; intros s s' HR.
  - split; [constructor | intros n []].
  - cbn [run_from] in HR. destruct (step g c s e) as [s1 |] eqn:HS; [| discriminate HR].
    destruct (IH s1 s' HR) as [Hnd Hin]. unfold failing_nodes. cbn [flat_map]. fold (failing_nodes r).
    split.
    + apply NoDup_app_intro; [| exact Hnd |].
      * destruct e; cbn [fail_node]; try constructor; try (intros []); constructor.
      * intros n Hn Hr. destruct (step_fail_node g c s e s1 n HS Hn) as [_ [_ F]].
        destruct (Hin n Hr) as [_ Hf]. rewrite F in Hf. discriminate Hf.
    + intros n Hn. apply in_app_or in Hn. destruct Hn as [Hn | Hn].
      * destruct (step_fail_node g c s e s1 n HS Hn) as [L [F _]]. split; assumption.
      * destruct (Hin n Hn) as [L F]. split; [exact L |]. exact (step_not_final_back g c s e s1 n HS F).
Qed.

Lemma failing_nodes_once g c evs s : run g c evs = Some s ->
  NoDup (failing_nodes evs) /\ forall n, In n (failing_nodes evs) -> n < size g.
Proof.
  intro HR. destruct (run_from_failing_nodes g c evs (init g) s HR) as [Hnd Hin].
  split; [exact Hnd |]. intros n Hn. exact (proj1 (Hin n Hn)).
Qed.

(* all failure propagations of one build together: O(V * (V + E)) *)
Lemma walk_propagation_poly g c evs s : wf_graph g -> run g c evs = Some s ->
  walk_propagation_cost g evs <= 2 * size g * (size g + edges g + 1).
Proof.
  intros Hwf HR. destruct (failing_nodes_once g c evs s HR) as [Hnd Hlt].
  exact (proj2 (propagation_total_linear_per_failure g (failing_nodes evs) Hwf Hnd Hlt)).
Qed.

(* ------------------------------------------------------------------ 4. contrast: the path-enumerating GetDescendants *)

(* the same branch with GetDescendants as it was before 8493cb4 (Select.descendants_paths: one entry, one returned
   node and hence one cancelNode per dependency PATH) *)
Definition propagation_paths_cost (g : graph) (n : nat) : nat :=
  descendants_paths_cost g n + length (descendants_paths g n).

Lemma propagation_paths_cost_eq g n : propagation_paths_cost g n = 2 * length (descendants_paths g n) + 1.
Proof. unfold propagation_paths_cost. rewrite descendants_paths_cost_eq. lia. Qed.

Lemma propagation_paths_exponential :
  exists g n, topo g /\ propagation_paths_cost g n > 4 * (size g + edges g + 1) ^ 2.
Proof.
  destruct descendants_poly_refuted as [g [n [Ht H]]]. exists g, n. split; [exact Ht |].
  unfold propagation_paths_cost. lia.
Qed.

(* the witness: the 30-node ladder of width 2, failure of a bottom node *)
Lemma propagation_ladder_2_14 :
  Nat.eqb (propagation_paths_cost (ladder 2 14) 0) (2 ^ 16 - 3) = true /\
  propagation_cost (ladder 2 14) 0 = 111 /\ 2 * (size (ladder 2 14) + edges (ladder 2 14) + 1) = 174.
Proof. vm_compute. repeat split. Qed.

(* ------------------------------------------------------------------ 5. non-vacuity *)

(* ladder 3 6 (21 nodes, 54 edges), failure of the bottom node 0: the walker's set and GetDescendants' list are the
   same 18 nodes ([normalize] = the set as a sorted duplicate-free list), and the propagation costs 85 <= 152 *)
Example propagation_nonvacuous :
  topo (ladder 3 6) /\ wf_graph (ladder 3 6) /\
  normalize (ladder 3 6) (desc (ladder 3 6) 0) = normalize (ladder 3 6) (fst (descendants_visited (ladder 3 6) 0)) /\
  normalize (ladder 3 6) (desc (ladder 3 6) 0) = seq 3 18 /\
  length (desc (ladder 3 6) 0) = 18 /\ length (fst (descendants_visited (ladder 3 6) 0)) = 18 /\
  propagation_cost (ladder 3 6) 0 = 85 /\ 2 * (size (ladder 3 6) + edges (ladder 3 6) + 1) = 152.
Proof.
  split; [apply ladder_topo |]. split; [apply topo_wf, ladder_topo |].
  vm_compute. repeat split.
Qed.

(* the scheduler model on the same graph, keep-going, 2 workers: node 0 starts, is picked and fails; afterwards the
   cancel channels that are closed are exactly those of the nodes GetDescendants returns, and the run has one
   failing node *)
Example propagation_run_nonvacuous :
  exists s, run (ladder 3 6) (mkConfig 2 false) [Start 0; Pick 0; FinishFail 0] = Some s /\
    map (cp s) (seq 0 21) = map (fun m => mem_nat m (fst (descendants_visited (ladder 3 6) 0))) (seq 0 21) /\
    failing_nodes [Start 0; Pick 0; FinishFail 0] = [0] /\
    walk_propagation_cost (ladder 3 6) [Start 0; Pick 0; FinishFail 0] = 85.
Proof. eexists. split; [vm_compute; reflexivity |]. vm_compute. repeat split. Qed.
