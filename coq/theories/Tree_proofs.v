(* Tree_proofs.v -- lemmas about Tree.v (C06; restore part of C04). *)
From Grog Require Import Str Label HashKey HashKey_proofs Tree.
From Coq Require Import Permutation.

(* ------------------------------------------------------------------ induction over nodes *)
Section NodeInd.
  Variable P : node -> Prop.
  Hypothesis HF : forall c x, P (File c x).
  Hypothesis HL : forall t, P (Link t).
  Hypothesis HD : forall es, Forall (fun e => P (snd e)) es -> P (Dir es).
  Fixpoint node_ind' (n : node) : P n :=
    match n with
    | File c x => HF c x
    | Link t => HL t
    | Dir es =>
        HD es ((fix go (es : list (str * node)) : Forall (fun e => P (snd e)) es :=
                  match es with
                  | [] => Forall_nil _
                  | e :: r => Forall_cons e (node_ind' (snd e)) (go r)
                  end) es)
    end.
End NodeInd.

(* ------------------------------------------------------------------ sort_by is canonical *)
Section SortLemmas.
  Context {A : Type}.
  Variable key : A -> str.

  Fixpoint lsorted (l : list A) : Prop :=
    match l with
    | [] => True
    | x :: r => (forall y, In y r -> str_leb (key x) (key y) = true) /\ lsorted r
    end.

  Lemma insert_by_perm x l : Permutation (insert_by key x l) (x :: l).
  Proof.
    induction l as [|y l IH]; simpl; [apply Permutation_refl|].
    destruct (str_leb (key x) (key y)); [apply Permutation_refl|].
    eapply perm_trans; [apply perm_skip, IH | apply perm_swap].
  Qed.

  Lemma sort_by_perm l : Permutation (sort_by key l) l.
  Proof.
    induction l as [|x l IH]; simpl; [constructor|].
    eapply perm_trans; [apply insert_by_perm | apply perm_skip, IH].
  Qed.

  Lemma insert_by_sorted x l : lsorted l -> lsorted (insert_by key x l).
  Proof.
    induction l as [|y l IH]; simpl; intro Hs.
    - split; [intros ? []|exact I].
    - destruct Hs as [Hy Hs]. destruct (str_leb (key x) (key y)) eqn:E; simpl.
      + split; [|split; assumption]. intros z [<-|Hz]; [exact E|].
        eapply str_leb_trans; [exact E | apply Hy, Hz].
      + split; [|apply IH, Hs]. intros z Hz.
        apply (Permutation_in _ (insert_by_perm x l)) in Hz. destruct Hz as [<-|Hz].
        * apply str_leb_total, E.
        * apply Hy, Hz.
  Qed.

  Lemma sort_by_sorted l : lsorted (sort_by key l).
  Proof. induction l as [|x l IH]; simpl; [exact I | apply insert_by_sorted, IH]. Qed.

  Lemma sorted_perm_unique l : forall l',
    lsorted l -> lsorted l' -> NoDup (map key l) -> Permutation l l' -> l = l'.
  Proof.
    induction l as [|x l IH]; intros l' Hs Hs' Hn Hp.
    - apply Permutation_nil in Hp. congruence.
    - destruct l' as [|x' l']; [apply Permutation_sym, Permutation_nil in Hp; discriminate|].
      destruct Hs as [Hx Hs], Hs' as [Hx' Hs']. simpl in Hn. inversion Hn as [|? ? Hnx Hn']; subst.
      assert (E : x = x').
      { assert (H1 : In x (x' :: l')) by (eapply Permutation_in; [exact Hp | left; reflexivity]).
        assert (H2 : In x' (x :: l)) by (eapply Permutation_in; [apply Permutation_sym, Hp | left; reflexivity]).
        destruct H1 as [H1|H1]; [congruence|]. destruct H2 as [H2|H2]; [congruence|].
        exfalso. apply Hnx.
        assert (Ek : key x = key x') by (apply str_leb_antisym; [apply Hx, H2 | apply Hx', H1]).
        rewrite Ek. apply in_map, H2. }
      subst x'. f_equal. apply IH; try assumption. eapply Permutation_cons_inv, Hp.
  Qed.

  Lemma perm_nodup_keys l l' : Permutation l l' -> NoDup (map key l) -> NoDup (map key l').
  Proof. intros Hp. apply Permutation_NoDup, Permutation_map, Hp. Qed.

  Lemma sort_by_perm_eq l l' :
    Permutation l l' -> NoDup (map key l) -> sort_by key l = sort_by key l'.
  Proof.
    intros Hp Hn. apply sorted_perm_unique; try apply sort_by_sorted.
    - eapply perm_nodup_keys; [apply Permutation_sym, sort_by_perm | exact Hn].
    - eapply perm_trans; [apply sort_by_perm|]. eapply perm_trans; [exact Hp|].
      apply Permutation_sym, sort_by_perm.
  Qed.
End SortLemmas.

Lemma sort_by_map {A B} (ka : A -> str) (kb : B -> str) (f : A -> B) l :
  (forall x, kb (f x) = ka x) -> sort_by kb (map f l) = map f (sort_by ka l).
Proof.
  intro Hk. induction l as [|x l IH]; simpl; [reflexivity|]. rewrite IH.
  generalize (sort_by ka l) as s. induction s as [|y s IHs]; simpl; [reflexivity|].
  rewrite !Hk. destruct (str_leb (ka x) (ka y)); simpl; [reflexivity | rewrite IHs; reflexivity].
Qed.

Lemma map_inj_eq {A B} (f : A -> B) : (forall x y, f x = f y -> x = y) ->
  forall l l', map f l = map f l' -> l = l'.
Proof.
  intros Hf l. induction l as [|x l IH]; intros [|y l'] E; simpl in E; try discriminate; [reflexivity|].
  inversion E. f_equal; [apply Hf; assumption | apply IH; assumption].
Qed.

(* ------------------------------------------------------------------ the CAS *)
Lemma cas_get_put_same d b st : cas_get (cas_put d b st) d <> None.
Proof.
  unfold cas_put. destruct (cas_get st d) eqn:E; [congruence|]. simpl. rewrite str_eqb_refl. discriminate.
Qed.

Lemma cas_get_put_keep d b st d' x : cas_get st d' = Some x -> cas_get (cas_put d b st) d' = Some x.
Proof.
  unfold cas_put. intro Hg. destruct (cas_get st d) eqn:E; [exact Hg|]. simpl.
  destruct (str_eqb d d') eqn:E2; [|exact Hg]. apply str_eqb_eq in E2; subst. congruence.
Qed.

Lemma cas_get_put_new d b st : cas_get st d = None -> cas_get (cas_put d b st) d = Some b.
Proof. unfold cas_put. intro E. rewrite E. simpl. rewrite str_eqb_refl. reflexivity. Qed.

(* ------------------------------------------------------------------ the error channel *)
(* from k pending senders and an empty buffer of capacity cap, every sender gets through
   (so that Wait can return) exactly when k <= cap *)
Lemma chan_run_spec fuel : forall p b cap, p <= fuel ->
  chan_released (chan_run fuel (mkChan p b cap)) = Nat.leb (p + b) cap || Nat.eqb p 0.
Proof.
  induction fuel as [|f IH]; intros p b cap Hp.
  - assert (p = 0) by lia. subst. simpl. rewrite orb_true_r. reflexivity.
  - destruct p as [|p].
    + simpl. rewrite orb_true_r. reflexivity.
    + cbn [chan_run chan_step ch_pending ch_buffered ch_cap].
      destruct (Nat.ltb_spec b cap) as [Hlt|Hge].
      * rewrite IH by lia. replace (p + S b) with (S p + b) by lia.
        destruct (Nat.leb_spec (S p + b) cap) as [Hle|Hgt]; [reflexivity|].
        cbn [orb]. destruct p; [lia | reflexivity].
      * unfold chan_released. cbn [ch_pending Nat.eqb]. rewrite orb_false_r.
        symmetry. apply Nat.leb_gt. lia.
Qed.

Lemma chan_all_sent_iff k cap :
  chan_released (chan_run k (mkChan k 0 cap)) = true <-> k <= cap.
Proof.
  rewrite chan_run_spec by lia. rewrite Nat.add_0_r. split.
  - intro Hb. apply orb_true_iff in Hb as [Hb|Hb]; [apply Nat.leb_le, Hb | apply Nat.eqb_eq in Hb; lia].
  - intro Hle. apply orb_true_iff. left. apply Nat.leb_le, Hle.
Qed.

(* ------------------------------------------------------------------ model-level facts that need no
   assumption on the digest / serialisation functions *)
Section Generic.
  Variable H : str -> str.
  Variable ser_dir : dir_msg -> str.
  Variable ser_tree : tree_msg -> str.
  Variable deser_tree : str -> option tree_msg.

  Notation load_tree_msg := (load_tree_msg H ser_dir).
  Notation load_dir := (load_dir).
  Notation child_key := (child_key H ser_dir).

  Lemma cm_lookup_some cm k v : cm_lookup cm k = Some v -> In (k, v) cm.
  Proof.
    induction cm as [|[k' v'] cm IH]; simpl; [discriminate|].
    destruct (cm_lookup cm k) eqn:E.
    - intro Hs. inversion Hs; subst. right. apply IH. reflexivity.
    - destruct (str_eqb k' k) eqn:E2; [|discriminate]. intro Hs. inversion Hs; subst.
      apply str_eqb_eq in E2; subst. left; reflexivity.
  Qed.

  Lemma cm_lookup_none cm k : cm_lookup cm k = None -> forall v, ~ In (k, v) cm.
  Proof.
    induction cm as [|[k' v'] cm IH]; simpl; [intros _ v []|].
    destruct (cm_lookup cm k) eqn:E; [discriminate|].
    destruct (str_eqb k' k) eqn:E2; [discriminate|]. intros _ v [Hv|Hv].
    - inversion Hv; subst. rewrite str_eqb_refl in E2. discriminate.
    - exact (IH eq_refl v Hv).
  Qed.

  Lemma failed_files_present st l :
    (forall f, In f l -> cas_get st (d_hash (fn_digest f)) <> None) -> failed_files st l = 0.
  Proof.
    induction l as [|f l IH]; simpl; intro Hp; [reflexivity|].
    destruct (cas_get st (d_hash (fn_digest f))) eqn:E.
    - apply IH. intros g Hg. apply Hp. right; exact Hg.
    - exfalso. apply (Hp f); [left; reflexivity | exact E].
  Qed.

  (* no failing download when every file blob of every directory in [ds] is present *)
  Lemma load_dir_no_failure st cm (ds : list dir_msg) :
    (forall k v, In (k, v) cm -> In v ds) ->
    (forall d, In d ds -> forall f, In f (dm_files d) -> cas_get st (d_hash (fn_digest f)) <> None) ->
    forall fuel d es k, In d ds -> load_dir fuel cm st d = Some (es, k) -> k = 0.
  Proof.
    intros Hcm Hp. induction fuel as [|fuel IH]; intros d es k Hd; simpl; [discriminate|].
    destruct (load_dirs (load_dir fuel cm st) cm (dm_dirs d)) as [[ds' k']|] eqn:E; [|discriminate].
    intro Hs. inversion Hs; subst. rewrite (failed_files_present st _ (Hp d Hd)). simpl.
    clear Hs. revert ds' k' E. generalize (dm_dirs d) as l. induction l as [|dn l IHl]; simpl; intros ds' k' E.
    - inversion E; reflexivity.
    - destruct (cm_lookup cm (d_hash (dn_digest dn))) as [child|] eqn:El; [|discriminate].
      destruct (load_dir fuel cm st child) as [[es1 k1]|] eqn:Er; [|discriminate].
      destruct (load_dirs (load_dir fuel cm st) cm l) as [[rest k2]|] eqn:Es; [|discriminate].
      inversion E; subst. apply cm_lookup_some in El. apply Hcm in El.
      rewrite (IH child es1 k1 El Er). rewrite (IHl rest k2 eq_refl). reflexivity.
  Qed.

  (* C04, restore part, guarded: with every referenced file blob present the call returns *)
  Theorem restore_terminates_blobs_present maxdepth m st :
    blobs_present m st -> load_tree_msg maxdepth m st <> Stuck.
  Proof.
    intro Hp. unfold Tree.load_tree_msg.
    destruct (load_dir maxdepth _ st (tm_root m)) as [[es k]|] eqn:E; [|discriminate].
    assert (k = 0).
    { eapply (load_dir_no_failure st _ (tm_root m :: tm_children m)); [| |left; reflexivity|exact E].
      - intros k0 v Hin. apply in_map_iff in Hin as [c [Hc Hin]]. inversion Hc; subst. right; exact Hin.
      - intros d Hd f Hf. exact (Hp d Hd f Hf). }
    subst. simpl. discriminate.
  Qed.

  (* ... and exactly when it does not: more failing downloads than distinct sub-directories *)
  Theorem restore_stuck_iff maxdepth m st :
    load_tree_msg maxdepth m st = Stuck <->
    exists k, load_failures H ser_dir maxdepth m st = Some k /\ length (tm_children m) < k.
  Proof.
    unfold Tree.load_tree_msg, load_failures.
    destruct (load_dir maxdepth _ st (tm_root m)) as [[es k]|]; split.
    - destruct (Nat.eqb k 0) eqn:E0; [discriminate|].
      destruct (Nat.leb_spec k (length (tm_children m))); [discriminate|]. intros _. exists k. split; [reflexivity | assumption].
    - intros [k' [Hk Hlt]]. inversion Hk; subst k'.
      destruct (Nat.eqb_spec k 0); [lia|]. destruct (Nat.leb_spec k (length (tm_children m))); [lia | reflexivity].
    - discriminate.
    - intros [k [Hk _]]. discriminate.
  Qed.

  (* the Stuck clause agrees with the channel transition system *)
  Theorem restore_stuck_is_channel_deadlock maxdepth m st k :
    load_failures H ser_dir maxdepth m st = Some k ->
    (load_tree_msg maxdepth m st = Stuck <->
     chan_released (chan_run k (mkChan k 0 (length (tm_children m)))) = false).
  Proof.
    intro Hk. rewrite restore_stuck_iff. split.
    - intros [k' [Hk' Hlt]]. rewrite Hk in Hk'. inversion Hk'; subst k'.
      destruct (chan_released _) eqn:E; [|reflexivity]. apply chan_all_sent_iff in E. lia.
    - intro Hf. exists k. split; [exact Hk|].
      destruct (Nat.le_gt_cases k (length (tm_children m))) as [Hle|Hgt]; [|exact Hgt].
      apply chan_all_sent_iff in Hle. congruence.
  Qed.

  (* ---------------- file outputs *)
  Definition cas_sound (st : cas) : Prop := forall d b, cas_get st d = Some b -> H b = d.

  Lemma cas_sound_put d b st : cas_sound st -> H b = d -> cas_sound (cas_put d b st).
  Proof.
    intros Hs Hb d' b'. unfold cas_put. destruct (cas_get st d) eqn:E; [apply Hs|].
    simpl. destruct (str_eqb d d') eqn:E2; [|apply Hs]. apply str_eqb_eq in E2. intro Hx. inversion Hx; subst. reflexivity.
  Qed.
End Generic.

(* ------------------------------------------------------------------ facts that need an injective digest *)
Section Injective.
  Variable H : str -> str.
  Variable ser_dir : dir_msg -> str.
  Variable ser_tree : tree_msg -> str.
  Variable deser_tree : str -> option tree_msg.
  Hypothesis H_inj : forall x y, H x = H y -> x = y.
  Hypothesis ser_dir_inj : forall x y, ser_dir x = ser_dir y -> x = y.
  Hypothesis deser_ser : forall m, deser_tree (ser_tree m) = Some m.

  Lemma ser_tree_inj x y : ser_tree x = ser_tree y -> x = y.
  Proof. intro E. apply (f_equal deser_tree) in E. rewrite !deser_ser in E. congruence. Qed.

  Lemma cas_written_get c st : cas_sound H st -> cas_get (cas_put (H c) c st) (H c) = Some c.
  Proof.
    intro Hs. unfold cas_put. destruct (cas_get st (H c)) eqn:E.
    - rewrite E. f_equal. apply H_inj. apply Hs. exact E.
    - simpl. rewrite str_eqb_refl. reflexivity.
  Qed.

  (* file outputs, guarded: the content always comes back; the exec bit only when the path already
     carries it (or none is wanted and the path is absent); the parent directory must exist and no
     directory may sit at the path *)
  Theorem file_roundtrip_guarded c x st dest :
    cas_sound H st ->
    file_restore_possible dest = true ->
    file_restore_exec dest = x ->
    let '(st', d) := file_write H c x st in
    file_load H d st' dest = Done (File c x).
  Proof.
    intros Hs Hp Hx. unfold file_write, file_load, dig. simpl.
    destruct dest as [| |c' x'|es]; simpl in *; try discriminate.
    - rewrite (cas_written_get c st Hs). subst; reflexivity.
    - subst x'. destruct (str_eqb (H c') (H c)) eqn:E.
      + apply str_eqb_eq, H_inj in E. subst; reflexivity.
      + rewrite (cas_written_get c st Hs). reflexivity.
  Qed.

  (* the content part holds for every prior state in which a restore is possible at all *)
  Theorem file_content_restored c x st dest :
    cas_sound H st -> file_restore_possible dest = true ->
    let '(st', d) := file_write H c x st in
    file_load H d st' dest = Done (File c (file_restore_exec dest)).
  Proof.
    intros Hs Hp. unfold file_write, file_load, dig. simpl.
    destruct dest as [| |c' x'|es]; simpl in *; try discriminate.
    - rewrite (cas_written_get c st Hs). reflexivity.
    - destruct (str_eqb (H c') (H c)) eqn:E.
      + apply str_eqb_eq, H_inj in E. subst; reflexivity.
      + rewrite (cas_written_get c st Hs). reflexivity.
  Qed.
End Injective.

(* ------------------------------------------------------------------ refutations on the faithful model,
   with the concrete injective instance Hid / enc_dir / enc_tree / dec_tree *)
Definition s1 (c : ascii) : str := [c].

(* a cached executable restored into an absent path is not executable *)
Theorem file_roundtrip_refuted_exec :
  exists c x st dest,
    let '(st', d) := file_write Hid c x st in
    file_load Hid d st' dest <> Done (File c x) /\ file_load Hid d st' dest = Done (File c false) /\ x = true /\ dest = DAbsent.
Proof. exists (s1 "x"), true, [], DAbsent. vm_compute. repeat split; congruence. Qed.

(* a restore into a path whose parent directory is missing fails *)
Theorem file_roundtrip_refuted_parent :
  exists c x st,
    let '(st', d) := file_write Hid c x st in
    file_load Hid d st' DParentAbsent = Error.
Proof. exists (s1 "x"), false, []. vm_compute. reflexivity. Qed.

(* a restore over a directory sitting at the path fails *)
Theorem file_roundtrip_refuted_directory :
  exists c x st,
    let '(st', d) := file_write Hid c x st in
    file_load Hid d st' (DDir []) = Error.
Proof. exists (s1 "x"), false, []. vm_compute. reflexivity. Qed.

(* flat directory, one file, its blob lost from the cache: the restore never returns *)
Definition flat_tree : node := Dir [(s1 "a", File (s1 "x") false)].
Theorem restore_terminates_refuted :
  exists t st st' ref,
    wf_tree t /\ write_tree Hid enc_dir enc_tree t st = Some (st', ref) /\
    load_tree Hid enc_dir enc_tree dec_tree max_depth ref (cas_del (Hid (s1 "x")) st') DAbsent = Stuck.
Proof.
  exists flat_tree, [].
  eexists. eexists. split; [|split].
  - simpl. split; [repeat constructor; simpl; tauto|]. repeat split; try discriminate.
    simpl. intros [E|[]]. discriminate.
  - vm_compute. reflexivity.
  - vm_compute. reflexivity.
Qed.

(* the same directory with one (empty) sub-directory next to the file: capacity 1, the call returns an error *)
Theorem restore_one_subdir_returns :
  exists st' ref,
    write_tree Hid enc_dir enc_tree (Dir [(s1 "a", File (s1 "x") false); (s1 "d", Dir [])]) [] = Some (st', ref) /\
    load_tree Hid enc_dir enc_tree dec_tree max_depth ref (cas_del (Hid (s1 "x")) st') DAbsent = Error.
Proof. eexists. eexists. split; vm_compute; reflexivity. Qed.
