(* Tree_proofs.v -- lemmas about Tree.v (C06; restore part of C04). *)
From Grog Require Import Str Label HashKey HashKey_proofs Tree.
From Coq Require Import Permutation.

(* ------------------------------------------------------------------ induction over nodes *)
Section NodeInd.
  Variable P : node -> Prop.
  Hypothesis HF : forall c x, P (File c x).
  Hypothesis HL : forall t, P (Link t).
  Hypothesis HD : forall es, Forall (fun e => P (snd e)) es -> P (Dir es).
  Fixpoint node_ind' (n : node) : P n :=
    match n with
    | File c x => HF c x
    | Link t => HL t
    | Dir es =>
        HD es ((fix go (es : list (str * node)) : Forall (fun e => P (snd e)) es :=
                  match es with
                  | [] => Forall_nil _
                  | e :: r => Forall_cons e (node_ind' (snd e)) (go r)
                  end) es)
    end.
End NodeInd.

(* ------------------------------------------------------------------ sort_by is canonical *)
Section SortLemmas.
  Context {A : Type}.
  Variable key : A -> str.

  Fixpoint lsorted (l : list A) : Prop :=
    match l with
    | [] => True
    | x :: r => (forall y, In y r -> str_leb (key x) (key y) = true) /\ lsorted r
    end.

  Lemma insert_by_perm x l : Permutation (insert_by key x l) (x :: l).
  Proof.
    induction l as [|y l IH]; simpl; [apply Permutation_refl|].
    destruct (str_leb (key x) (key y)); [apply Permutation_refl|].
    eapply perm_trans; [apply perm_skip, IH | apply perm_swap].
  Qed.

  Lemma sort_by_perm l : Permutation (sort_by key l) l.
  Proof.
    induction l as [|x l IH]; simpl; [constructor|].
    eapply perm_trans; [apply insert_by_perm | apply perm_skip, IH].
  Qed.

  Lemma insert_by_sorted x l : lsorted l -> lsorted (insert_by key x l).
  Proof.
    induction l as [|y l IH]; simpl; intro Hs.
    - split; [intros ? []|exact I].
    - destruct Hs as [Hy Hs]. destruct (str_leb (key x) (key y)) eqn:E; simpl.
      + split; [|split; assumption]. intros z [<-|Hz]; [exact E|].
        eapply str_leb_trans; [exact E | apply Hy, Hz].
      + split; [|apply IH, Hs]. intros z Hz.
        apply (Permutation_in _ (insert_by_perm x l)) in Hz. destruct Hz as [<-|Hz].
        * apply str_leb_total, E.
        * apply Hy, Hz.
  Qed.

  Lemma sort_by_sorted l : lsorted (sort_by key l).
  Proof. induction l as [|x l IH]; simpl; [exact I | apply insert_by_sorted, IH]. Qed.

  Lemma sorted_perm_unique l : forall l',
    lsorted l -> lsorted l' -> NoDup (map key l) -> Permutation l l' -> l = l'.
  Proof.
    induction l as [|x l IH]; intros l' Hs Hs' Hn Hp.
    - apply Permutation_nil in Hp. congruence.
    - destruct l' as [|x' l']; [apply Permutation_sym, Permutation_nil in Hp; discriminate|].
      destruct Hs as [Hx Hs], Hs' as [Hx' Hs']. simpl in Hn. inversion Hn as [|? ? Hnx Hn']; subst.
      assert (E : x = x').
      { assert (H1 : In x (x' :: l')) by (eapply Permutation_in; [exact Hp | left; reflexivity]).
        assert (H2 : In x' (x :: l)) by (eapply Permutation_in; [apply Permutation_sym, Hp | left; reflexivity]).
        destruct H1 as [H1|H1]; [congruence|]. destruct H2 as [H2|H2]; [congruence|].
        exfalso. apply Hnx.
        assert (Ek : key x = key x') by (apply str_leb_antisym; [apply Hx, H2 | apply Hx', H1]).
        rewrite Ek. apply in_map, H2. }
      subst x'. f_equal. apply IH; try assumption. eapply Permutation_cons_inv, Hp.
  Qed.

  Lemma perm_nodup_keys l l' : Permutation l l' -> NoDup (map key l) -> NoDup (map key l').
  Proof. intros Hp. apply Permutation_NoDup, Permutation_map, Hp. Qed.

  Lemma sort_by_perm_eq l l' :
    Permutation l l' -> NoDup (map key l) -> sort_by key l = sort_by key l'.
  Proof.
    intros Hp Hn. apply sorted_perm_unique; try apply sort_by_sorted.
    - eapply perm_nodup_keys; [apply Permutation_sym, sort_by_perm | exact Hn].
    - eapply perm_trans; [apply sort_by_perm|]. eapply perm_trans; [exact Hp|].
      apply Permutation_sym, sort_by_perm.
  Qed.
End SortLemmas.

Lemma sort_by_map {A B} (ka : A -> str) (kb : B -> str) (f : A -> B) l :
  (forall x, kb (f x) = ka x) -> sort_by kb (map f l) = map f (sort_by ka l).
Proof.
  intro Hk. induction l as [|x l IH]; simpl; [reflexivity|]. rewrite IH.
  generalize (sort_by ka l) as s. induction s as [|y s IHs]; simpl; [reflexivity|].
  rewrite !Hk. destruct (str_leb (ka x) (ka y)); simpl; [reflexivity | rewrite IHs; reflexivity].
Qed.

Lemma map_inj_eq {A B} (f : A -> B) : (forall x y, f x = f y -> x = y) ->
  forall l l', map f l = map f l' -> l = l'.
Proof.
  intros Hf l. induction l as [|x l IH]; intros [|y l'] E; simpl in E; try discriminate; [reflexivity|].
  inversion E. f_equal; [apply Hf; assumption | apply IH; assumption].
Qed.

(* ------------------------------------------------------------------ the CAS *)
Lemma cas_get_put_same d b st : cas_get (cas_put d b st) d <> None.
Proof.
  unfold cas_put. destruct (cas_get st d) eqn:E; [congruence|]. simpl. rewrite str_eqb_refl. discriminate.
Qed.

Lemma cas_get_put_keep d b st d' x : cas_get st d' = Some x -> cas_get (cas_put d b st) d' = Some x.
Proof.
  unfold cas_put. intro Hg. destruct (cas_get st d) eqn:E; [exact Hg|]. simpl.
  destruct (str_eqb d d') eqn:E2; [|exact Hg]. apply str_eqb_eq in E2; subst. congruence.
Qed.

Lemma cas_get_put_new d b st : cas_get st d = None -> cas_get (cas_put d b st) d = Some b.
Proof. unfold cas_put. intro E. rewrite E. simpl. rewrite str_eqb_refl. reflexivity. Qed.

(* ------------------------------------------------------------------ the error channel *)
(* a sender is never blocked: whatever the capacity and the buffer, every pending sender gets
   through, so Wait can return *)
Lemma chan_run_released fuel : forall p b cap, p <= fuel ->
  chan_released (chan_run fuel (mkChan p b cap)) = true.
Proof.
  induction fuel as [|f IH]; intros p b cap Hp.
  - assert (p = 0) by lia. subst. reflexivity.
  - destruct p as [|p]; [reflexivity|].
    cbn [chan_run chan_step ch_pending ch_buffered ch_cap].
    destruct (Nat.ltb b cap); apply IH; lia.
Qed.

(* the buffer ends with as many errors as were offered, up to its capacity *)
Lemma chan_run_buffered fuel : forall p b cap, p <= fuel -> b <= cap ->
  ch_buffered (chan_run fuel (mkChan p b cap)) = Nat.min (p + b) cap.
Proof.
  induction fuel as [|f IH]; intros p b cap Hp Hb.
  - assert (p = 0) by lia. subst. cbn [chan_run ch_buffered Nat.add]. lia.
  - destruct p as [|p]; [cbn [chan_run chan_step ch_pending ch_buffered Nat.add]; lia|].
    cbn [chan_run chan_step ch_pending ch_buffered ch_cap].
    destruct (Nat.ltb_spec b cap) as [Hlt|Hge]; rewrite IH by lia; lia.
Qed.

Theorem chan_never_blocks k cap : chan_released (chan_run k (mkChan k 0 cap)) = true.
Proof. apply chan_run_released. lia. Qed.

(* with room for one error, an error is found after Wait exactly when some download failed *)
Theorem chan_error_kept k cap : 0 < cap ->
  (ch_buffered (chan_run k (mkChan k 0 cap)) = 0 <-> k = 0).
Proof. intro Hc. rewrite chan_run_buffered by lia. lia. Qed.

(* one-level projections of a directory's entries *)
Fixpoint files_in (es : list (str * node)) : list (str * str * bool) :=
  match es with
  | [] => []
  | (k, File c x) :: r => (k, c, x) :: files_in r
  | _ :: r => files_in r
  end.
Fixpoint dirs_in (es : list (str * node)) : list (str * node) :=
  match es with
  | [] => []
  | (k, Dir d) :: r => (k, Dir d) :: dirs_in r
  | _ :: r => dirs_in r
  end.
Fixpoint links_in (es : list (str * node)) : list (str * str) :=
  match es with
  | [] => []
  | (k, Link t) :: r => (k, t) :: links_in r
  | _ :: r => links_in r
  end.

(* ------------------------------------------------------------------ model-level facts that need no
   assumption on the digest / serialisation functions *)
Section Generic.
  Variable H : str -> str.
  Variable ser_dir : dir_msg -> str.
  Variable ser_tree : tree_msg -> str.
  Variable deser_tree : str -> option tree_msg.

  Notation load_tree_msg := (load_tree_msg H ser_dir).
  Notation load_dir := (load_dir).
  Notation child_key := (child_key H ser_dir).

  Lemma cm_lookup_some cm k v : cm_lookup cm k = Some v -> In (k, v) cm.
  Proof.
    induction cm as [|[k' v'] cm IH]; simpl; [discriminate|].
    destruct (cm_lookup cm k) eqn:E.
    - intro Hs. inversion Hs; subst. right. apply IH. reflexivity.
    - destruct (str_eqb k' k) eqn:E2; [|discriminate]. intro Hs. inversion Hs; subst.
      apply str_eqb_eq in E2; subst. left; reflexivity.
  Qed.

  Lemma cm_lookup_none cm k : cm_lookup cm k = None -> forall v, ~ In (k, v) cm.
  Proof.
    induction cm as [|[k' v'] cm IH]; simpl; [intros _ v []|].
    destruct (cm_lookup cm k) eqn:E; [discriminate|].
    destruct (str_eqb k' k) eqn:E2; [discriminate|]. intros _ v [Hv|Hv].
    - inversion Hv; subst. rewrite str_eqb_refl in E2. discriminate.
    - exact (IH eq_refl v Hv).
  Qed.

  Lemma failed_files_present st l :
    (forall f, In f l -> cas_get st (d_hash (fn_digest f)) <> None) -> failed_files st l = 0.
  Proof.
    induction l as [|f l IH]; simpl; intro Hp; [reflexivity|].
    destruct (cas_get st (d_hash (fn_digest f))) eqn:E.
    - apply IH. intros g Hg. apply Hp. right; exact Hg.
    - exfalso. apply (Hp f); [left; reflexivity | exact E].
  Qed.

  (* no failing download when every file blob of every directory in [ds] is present *)
  Lemma load_dir_no_failure st cm (ds : list dir_msg) :
    (forall k v, In (k, v) cm -> In v ds) ->
    (forall d, In d ds -> forall f, In f (dm_files d) -> cas_get st (d_hash (fn_digest f)) <> None) ->
    forall fuel d es k, In d ds -> load_dir fuel cm st d = Some (es, k) -> k = 0.
  Proof.
    intros Hcm Hp. induction fuel as [|fuel IH]; intros d es k Hd; simpl; [discriminate|].
    destruct (load_dirs (load_dir fuel cm st) cm (dm_dirs d)) as [[ds' k']|] eqn:E; [|discriminate].
    intro Hs. inversion Hs; subst. rewrite (failed_files_present st _ (Hp d Hd)). simpl.
    clear Hs. revert ds' k' E. generalize (dm_dirs d) as l. induction l as [|dn l IHl]; simpl; intros ds' k' E.
    - inversion E; reflexivity.
    - destruct (cm_lookup cm (d_hash (dn_digest dn))) as [child|] eqn:El; [|discriminate].
      destruct (load_dir fuel cm st child) as [[es1 k1]|] eqn:Er; [|discriminate].
      destruct (load_dirs (load_dir fuel cm st) cm l) as [[rest k2]|] eqn:Es; [|discriminate].
      inversion E; subst. apply cm_lookup_some in El. apply Hcm in El.
      rewrite (IH child es1 k1 El Er). rewrite (IHl rest k2 eq_refl). reflexivity.
  Qed.

  (* load_tree_msg characterised once: run on the channel system, "Wait returns, first buffered
     error wins" collapses to "Error iff some download failed" *)
  Lemma load_tree_msg_spec maxdepth m st :
    load_tree_msg maxdepth m st =
    match load_dir maxdepth (map (fun c => (child_key c, c)) (tm_children m)) st (tm_root m) with
    | None => Error
    | Some (es, failed) => if Nat.eqb failed 0 then Done (Dir es) else Error
    end.
  Proof.
    unfold Tree.load_tree_msg.
    destruct (load_dir maxdepth _ st (tm_root m)) as [[es k]|]; [|reflexivity].
    cbv zeta. rewrite chan_never_blocks.
    destruct (Nat.eqb_spec k 0) as [E|E].
    - subst k. reflexivity.
    - destruct (Nat.eqb_spec (ch_buffered (chan_run k (mkChan k 0 err_chan_cap))) 0) as [E2|E2]; [|reflexivity].
      apply chan_error_kept in E2; [contradiction | unfold err_chan_cap; lia].
  Qed.

  (* C04, restore part: after the tree blob was read, the call returns, whatever the message and
     whatever is (not) in the store *)
  Theorem restore_terminates_msg maxdepth m st : load_tree_msg maxdepth m st <> Stuck.
  Proof.
    rewrite load_tree_msg_spec.
    destruct (load_dir maxdepth _ st (tm_root m)) as [[es k]|]; [|discriminate].
    destruct (Nat.eqb k 0); discriminate.
  Qed.

  Lemma fetch_terminates maxdepth ref st : fetch_tree H ser_dir deser_tree maxdepth ref st <> Stuck.
  Proof.
    unfold fetch_tree. destruct (cas_get st ref) as [b|]; [|discriminate].
    destruct (deser_tree b) as [m|]; [|discriminate]. apply restore_terminates_msg.
  Qed.

  (* ... and so does the whole Load, from every prior state of the destination *)
  Theorem restore_terminates maxdepth ref st dest :
    load_tree H ser_dir ser_tree deser_tree maxdepth ref st dest <> Stuck.
  Proof.
    destruct dest as [| |c x|es]; cbn [load_tree]; try apply fetch_terminates.
    destruct (names_ok (Dir es) && str_eqb (tree_digest H ser_dir ser_tree (Dir es)) ref);
      [discriminate | apply fetch_terminates].
  Qed.

  (* a failed download surfaces as an error of Load (the build falls back to executing the
     target), and nothing else does once the recursion itself went through *)
  Theorem restore_error_iff_failure maxdepth m st k :
    load_failures H ser_dir maxdepth m st = Some k ->
    (load_tree_msg maxdepth m st = Error <-> 0 < k).
  Proof.
    unfold load_failures. rewrite load_tree_msg_spec.
    destruct (load_dir maxdepth _ st (tm_root m)) as [[es k']|]; [|discriminate].
    intro Hk. inversion Hk; subst k'. destruct (Nat.eqb_spec k 0) as [E|E]; split; intro Hx.
    - discriminate.
    - lia.
    - lia.
    - reflexivity.
  Qed.

  (* with every referenced file blob present no download fails *)
  Theorem restore_no_failure_blobs_present maxdepth m st k :
    blobs_present m st -> load_failures H ser_dir maxdepth m st = Some k -> k = 0.
  Proof.
    intros Hp. unfold load_failures.
    destruct (load_dir maxdepth _ st (tm_root m)) as [[es k']|] eqn:E; [|discriminate].
    intro Hk. inversion Hk; subst k'.
    eapply (load_dir_no_failure st _ (tm_root m :: tm_children m)); [| |left; reflexivity|exact E].
    - intros k0 v Hin. apply in_map_iff in Hin as [c [Hc Hin]]. inversion Hc; subst. right; exact Hin.
    - intros d Hd f Hf. exact (Hp d Hd f Hf).
  Qed.

  (* ---------------- file outputs *)
  Definition cas_sound (st : cas) : Prop := forall d b, cas_get st d = Some b -> H b = d.

  Lemma cas_sound_put d b st : cas_sound st -> H b = d -> cas_sound (cas_put d b st).
  Proof.
    intros Hs Hb d' b'. unfold cas_put. destruct (cas_get st d) eqn:E; [apply Hs|].
    simpl. destruct (str_eqb d d') eqn:E2; [|apply Hs]. apply str_eqb_eq in E2. intro Hx. inversion Hx; subst. reflexivity.
  Qed.
End Generic.

(* ------------------------------------------------------------------ facts that need an injective digest *)
Section Injective.
  Variable H : str -> str.
  Variable ser_dir : dir_msg -> str.
  Variable ser_tree : tree_msg -> str.
  Variable deser_tree : str -> option tree_msg.
  Hypothesis H_inj : forall x y, H x = H y -> x = y.
  Hypothesis ser_dir_inj : forall x y, ser_dir x = ser_dir y -> x = y.
  Hypothesis deser_ser : forall m, deser_tree (ser_tree m) = Some m.

  Lemma ser_tree_inj x y : ser_tree x = ser_tree y -> x = y.
  Proof. intro E. apply (f_equal deser_tree) in E. rewrite !deser_ser in E. congruence. Qed.

  Lemma cas_written_get c st : cas_sound H st -> cas_get (cas_put (H c) c st) (H c) = Some c.
  Proof.
    intro Hs. unfold cas_put. destruct (cas_get st (H c)) eqn:E.
    - rewrite E. f_equal. apply H_inj. apply Hs. exact E.
    - simpl. rewrite str_eqb_refl. reflexivity.
  Qed.

  (* file outputs: content AND executable bit come back, from EVERY prior state of the path -- absent,
     parent absent, a file (same / other content, either exec bit), a directory with whatever content
     (replaced since the repair of C06-F3) *)
  Theorem file_roundtrip c x st dest :
    cas_sound H st ->
    let '(st', m) := file_write H c x st in
    file_load H m st' dest = Done (File c x).
  Proof.
    intros Hs. unfold file_write, file_load, dig. cbn [fm_digest fm_exec d_hash].
    destruct dest as [| |c' x'|es].
    - rewrite (cas_written_get c st Hs). reflexivity.
    - rewrite (cas_written_get c st Hs). reflexivity.
    - destruct (str_eqb (H c') (H c)) eqn:E.
      + apply str_eqb_eq, H_inj in E. subst; reflexivity.
      + rewrite (cas_written_get c st Hs). reflexivity.
    - rewrite (cas_written_get c st Hs). reflexivity.
  Qed.

  (* when a file restore fails: exactly when the store lost the blob and the path does not already
     hold the recorded content -- whatever sits at the path otherwise; and Load always returns *)
  Theorem file_restore_fails_iff m st dest :
    (file_load H m st dest = Error <->
     file_in_place H m dest = false /\ cas_get st (d_hash (fm_digest m)) = None) /\
    file_load H m st dest <> Stuck.
  Proof.
    unfold file_load, file_in_place.
    destruct dest as [| |c' x'|es];
      try destruct (str_eqb (H c') (d_hash (fm_digest m)));
      destruct (cas_get st (d_hash (fm_digest m)));
      (split; [split; [intro E; try discriminate E; auto | intros [E1 E2]; try discriminate; reflexivity]
              | discriminate]).
  Qed.

  (* ---------------- directory outputs *)
  Notation dir_msg_of := (dir_msg_of H ser_dir).
  Notation child_key := (child_key H ser_dir).
  Notation dig := (dig H).

  Definition mkF (e : str * str * bool) : file_node := mkFileNode (fst (fst e)) (dig (snd (fst e))) (snd e).
  Definition mkD (e : str * node) : dir_node := mkDirNode (fst e) (dig (ser_dir (dir_msg_of (snd e)))).
  Definition mkL (e : str * str) : link_node := mkLinkNode (fst e) (snd e).
  Definition fE (e : str * str * bool) : str * node := (fst (fst e), File (snd (fst e)) (snd e)).
  Definition lE (e : str * str) : str * node := (fst e, Link (snd e)).
  Definition nentry (e : str * node) : str * node := (fst e, normalise (snd e)).

  Lemma dir_msg_of_dir es :
    dir_msg_of (Dir es) =
    mkDirMsg (sort_by fn_name (map mkF (files_in es))) (sort_by dn_name (map mkD (dirs_in es)))
             (sort_by ln_name (map mkL (links_in es))).
  Proof.
    cbn [Tree.dir_msg_of]. f_equal; f_equal.
    - induction es as [|[k e] es IH]; [reflexivity|]. destruct e; cbn [files_in map app]; rewrite IH; reflexivity.
    - induction es as [|[k e] es IH]; [reflexivity|]. destruct e; cbn [dirs_in map app]; rewrite IH; reflexivity.
    - induction es as [|[k e] es IH]; [reflexivity|]. destruct e; cbn [links_in map app]; rewrite IH; reflexivity.
  Qed.

  Lemma normalise_dir es : normalise (Dir es) = Dir (sort_by fst (map nentry es)).
  Proof.
    cbn [normalise]. f_equal. f_equal.
    induction es as [|[k e] es IH]; [reflexivity|]. cbn [map]. rewrite IH. reflexivity.
  Qed.

  Lemma entries_split es :
    Permutation (map fE (files_in es) ++ map nentry (dirs_in es) ++ map lE (links_in es)) (map nentry es).
  Proof.
    induction es as [|[k e] es IH]; [constructor|]. destruct e as [c x|d|t]; cbn [files_in dirs_in links_in map].
    - cbn [app]. apply perm_skip, IH.
    - cbn [app]. apply Permutation_sym.
      eapply perm_trans; [apply perm_skip, Permutation_sym, IH|]. apply Permutation_middle.
    - rewrite app_assoc in IH. rewrite app_assoc. apply Permutation_sym.
      eapply perm_trans; [apply perm_skip, Permutation_sym, IH|]. apply Permutation_middle.
  Qed.

  Lemma nentry_keys es : map fst (map nentry es) = map fst es.
  Proof. rewrite map_map. reflexivity. Qed.

  (* sub-structure *)
  Lemma in_dirs_in k e es : In (k, e) (dirs_in es) -> In (k, e) es /\ exists d, e = Dir d.
  Proof.
    induction es as [|[k' e'] es IH]; [intros []|]. destruct e'; cbn [dirs_in]; intro Hi.
    - destruct (IH Hi) as [H1 H2]. split; [right; exact H1 | exact H2].
    - destruct Hi as [Hi|Hi].
      + inversion Hi; subst. split; [left; reflexivity | eexists; reflexivity].
      + destruct (IH Hi) as [H1 H2]. split; [right; exact H1 | exact H2].
    - destruct (IH Hi) as [H1 H2]. split; [right; exact H1 | exact H2].
  Qed.

  Lemma files_in_files_of e es : In e (files_in es) -> In (snd (fst e)) (files_of (Dir es)).
  Proof.
    cbn [files_of]. induction es as [|[k' e'] es IH]; [intros []|]. destruct e'; cbn [files_in files_of]; intro Hi.
    - destruct Hi as [<-|Hi]; [left; reflexivity | right; apply IH, Hi].
    - apply in_or_app; right. apply IH, Hi.
    - apply IH, Hi.
  Qed.

  Lemma files_of_sub k e es c : In (k, e) es -> In c (files_of e) -> In c (files_of (Dir es)).
  Proof.
    cbn [files_of]. induction es as [|[k' e'] es IH]; [intros []|]. intros [Hi|Hi] Hc.
    - inversion Hi; subst. apply in_or_app; left; exact Hc.
    - apply in_or_app; right. apply IH; assumption.
  Qed.

  Lemma subdirs_sub k e es s : In (k, e) es -> In s (subdirs e) -> In s (subdirs (Dir es)).
  Proof.
    cbn [subdirs]. induction es as [|[k' e'] es IH]; [intros []|]. intros [Hi|Hi] Hs.
    - inversion Hi; subst. apply in_or_app; left. destruct e; try (destruct Hs; fail).
      apply in_or_app; left; exact Hs.
    - apply in_or_app; right. apply IH; assumption.
  Qed.

  Lemma subdirs_self k d es : In (k, Dir d) es -> In (Dir d) (subdirs (Dir es)).
  Proof.
    cbn [subdirs]. induction es as [|[k' e'] es IH]; [intros []|]. intros [Hi|Hi].
    - inversion Hi; subst. apply in_or_app; left. apply in_or_app; right. left; reflexivity.
    - apply in_or_app; right. apply IH; assumption.
  Qed.

  Lemma depth_sub k e es : In (k, e) es -> depth e < depth (Dir es).
  Proof.
    cbn [depth]. induction es as [|[k' e'] es IH]; [intros []|]. intros [Hi|Hi].
    - inversion Hi; subst. lia.
    - specialize (IH Hi). lia.
  Qed.

  Lemma wf_sub k e es : wf_tree (Dir es) -> In (k, e) es -> wf_tree e.
  Proof.
    cbn [wf_tree]. intros [_ Hw]. induction es as [|[k' e'] es IH]; [intros []|].
    destruct Hw as [_ [He Hr]]. intros [Hi|Hi]; [inversion Hi; subst; exact He | apply IH; assumption].
  Qed.

  Lemma wf_nodup es : wf_tree (Dir es) -> NoDup (map fst es).
  Proof. cbn [wf_tree]. tauto. Qed.

  (* the pieces of loadDirectoryRecursive *)
  Lemma loaded_files_ok st l :
    (forall e, In e l -> cas_get st (H (snd (fst e))) = Some (snd (fst e))) ->
    loaded_files st (map mkF l) = map fE l /\ failed_files st (map mkF l) = 0.
  Proof.
    induction l as [|e l IH]; intro Hc; [split; reflexivity|].
    cbn [map loaded_files failed_files mkF fn_digest d_hash Tree.dig fn_name fn_exec].
    rewrite (Hc e (or_introl eq_refl)).
    destruct IH as [I1 I2]; [intros e' He'; apply Hc; right; exact He'|].
    split; [rewrite I1; reflexivity | exact I2].
  Qed.

  Lemma load_dirs_ok rec cm l :
    (forall e, In e l ->
       cm_lookup cm (child_key (dir_msg_of (snd e))) = Some (dir_msg_of (snd e)) /\
       exists es', normalise (snd e) = Dir es' /\ rec (dir_msg_of (snd e)) = Some (es', 0)) ->
    load_dirs rec cm (map mkD l) = Some (map nentry l, 0).
  Proof.
    induction l as [|e l IH]; intro Hc; [reflexivity|].
    cbn [map load_dirs mkD dn_digest d_hash Tree.dig dn_name].
    destruct (Hc e (or_introl eq_refl)) as [Hl [es' [Hn Hr]]].
    unfold Tree.child_key in Hl. rewrite Hl, Hr.
    rewrite IH by (intros e' He'; apply Hc; right; exact He').
    change (nentry e) with (fst e, normalise (snd e)). rewrite Hn. reflexivity.
  Qed.

  Lemma load_dir_ok cm st n :
    wf_tree n -> forall es, n = Dir es -> forall fuel, depth n <= fuel ->
    (forall c, In c (files_of n) -> cas_get st (H c) = Some c) ->
    (forall s, In s (subdirs n) -> cm_lookup cm (child_key (dir_msg_of s)) = Some (dir_msg_of s)) ->
    exists es', normalise n = Dir es' /\ load_dir fuel cm st (dir_msg_of n) = Some (es', 0).
  Proof.
    induction n as [c x|t|es0 IH] using node_ind'; intros Hwf es En; try discriminate.
    inversion En; subst es0. clear En. intros fuel Hd Hfiles Hsubs.
    destruct fuel as [|fuel]; [cbn [depth] in Hd; lia|].
    rewrite normalise_dir. eexists; split; [reflexivity|].
    rewrite dir_msg_of_dir. cbn [load_dir dm_dirs dm_files dm_links].
    rewrite (sort_by_map fst dn_name mkD) by reflexivity.
    rewrite (sort_by_map (fun e => fst (fst e)) fn_name mkF) by reflexivity.
    rewrite (sort_by_map fst ln_name mkL) by reflexivity.
    rewrite (load_dirs_ok (load_dir fuel cm st) cm).
    - destruct (loaded_files_ok st (sort_by (fun e => fst (fst e)) (files_in es))) as [L1 L2].
      { intros e He. apply Hfiles. apply files_in_files_of.
        eapply Permutation_in; [apply sort_by_perm | exact He]. }
      rewrite L1, L2. cbn [Nat.add]. f_equal. f_equal.
      rewrite map_map. cbn [mkL ln_name ln_target].
      change (map (fun x : str * str => (fst x, Link (snd x)))) with (map lE).
      apply sort_by_perm_eq.
      + eapply perm_trans; [|apply entries_split].
        apply Permutation_app; [apply Permutation_map, sort_by_perm|].
        apply Permutation_app; apply Permutation_map, sort_by_perm.
      + eapply (perm_nodup_keys fst (map nentry es)).
        * apply Permutation_sym. eapply perm_trans; [|apply entries_split].
          apply Permutation_app; [apply Permutation_map, sort_by_perm|].
          apply Permutation_app; apply Permutation_map, sort_by_perm.
        * rewrite nentry_keys. apply wf_nodup, Hwf.
    - intros [k e] He. cbn [snd].
      apply (Permutation_in _ (sort_by_perm fst (dirs_in es))) in He.
      apply in_dirs_in in He as [Hin [d Ed]]. subst e. split.
      + apply Hsubs. exact (subdirs_self k d es Hin).
      + rewrite Forall_forall in IH. eapply (IH (k, Dir d) Hin).
        * eapply wf_sub; [exact Hwf | exact Hin].
        * reflexivity.
        * cbn [snd]. pose proof (depth_sub _ _ _ Hin) as Hlt. lia.
        * intros c Hc. apply Hfiles. eapply files_of_sub; [exact Hin | exact Hc].
        * intros s Hs. apply Hsubs. eapply subdirs_sub; [exact Hin | exact Hs].
  Qed.

  (* the store after Write *)
  Lemma cas_put_files_sound cs st : cas_sound H st -> cas_sound H (cas_put_files H cs st).
  Proof.
    intro Hs. induction cs as [|c cs IH]; [exact Hs|]. cbn [cas_put_files fold_right].
    apply cas_sound_put; [exact IH | reflexivity].
  Qed.

  Lemma cas_put_files_get cs st c :
    cas_sound H st -> In c cs -> cas_get (cas_put_files H cs st) (H c) = Some c.
  Proof.
    intro Hs. induction cs as [|c' cs IH]; [intros []|]. cbn [cas_put_files fold_right]. intros [->|Hi].
    - apply cas_written_get. apply (cas_put_files_sound cs st Hs).
    - apply cas_get_put_keep. apply IH, Hi.
  Qed.

  (* the children map *)
  Lemma dedup_keys_in l : forall seen e, In e (dedup_keys seen l) -> In e l.
  Proof.
    induction l as [|[k v] l IH]; intros seen e; cbn [dedup_keys]; [intros []|].
    destruct (str_in k seen); [intro Hi; right; eapply IH, Hi|].
    intros [<-|Hi]; [left; reflexivity | right; eapply IH, Hi].
  Qed.

  Lemma dedup_keys_complete l : forall seen k,
    In k (map fst l) -> ~ In k seen -> In k (map fst (dedup_keys seen l)).
  Proof.
    induction l as [|[k' v] l IH]; intros seen k; cbn [dedup_keys map fst]; [intros []|].
    intros Hi Hn. destruct (str_in k' seen) eqn:E.
    - destruct Hi as [<-|Hi]; [apply str_in_spec in E; contradiction | apply IH; assumption].
    - cbn [map fst]. destruct (str_eqb k' k) eqn:E2.
      + apply str_eqb_eq in E2. left; exact E2.
      + destruct Hi as [Hi|Hi]; [subst; rewrite str_eqb_refl in E2; discriminate|].
        right. apply IH; [exact Hi|]. intros [Hx|Hx]; [subst; rewrite str_eqb_refl in E2; discriminate | contradiction].
  Qed.

  Lemma children_lookup t s :
    In s (subdirs t) ->
    cm_lookup (map (fun c => (child_key c, c)) (children_of H ser_dir t)) (child_key (dir_msg_of s)) = Some (dir_msg_of s).
  Proof.
    intro Hs. unfold children_of.
    set (L := map (fun d => (child_key d, d)) (map dir_msg_of (subdirs t))).
    set (X := sort_by fst (dedup_keys [] L)).
    assert (HA : forall e, In e X -> fst e = child_key (snd e)).
    { intros e He. apply (Permutation_in _ (sort_by_perm fst _)) in He. apply dedup_keys_in in He.
      unfold L in He. apply in_map_iff in He as [d [<- _]]. reflexivity. }
    assert (HX : map (fun c => (child_key c, c)) (map snd X) = X).
    { rewrite map_map. rewrite <- (map_id X) at 2. apply map_ext_in. intros [k v] He.
      specialize (HA _ He). cbn [fst snd] in *. subst k. reflexivity. }
    rewrite HX.
    assert (HB : In (child_key (dir_msg_of s)) (map fst X)).
    { eapply Permutation_in; [apply Permutation_map, Permutation_sym, sort_by_perm|].
      apply dedup_keys_complete; [|intros []]. unfold L. rewrite map_map, map_map. cbn [fst].
      apply in_map_iff. exists s. split; [reflexivity | exact Hs]. }
    destruct (cm_lookup X (child_key (dir_msg_of s))) as [v|] eqn:E.
    - apply cm_lookup_some in E. specialize (HA _ E). cbn [fst snd] in HA.
      unfold Tree.child_key in HA. apply H_inj, ser_dir_inj in HA. congruence.
    - exfalso. apply in_map_iff in HB as [[k v] [Ek Hin]]. cbn [fst] in Ek. subst k.
      exact (cm_lookup_none _ _ E v Hin).
  Qed.

  (* after a successful Write, fetching the tree reproduces the canonical listing *)
  Lemma fetch_ok es st maxdepth :
    wf_tree (Dir es) -> cas_sound H st -> depth (Dir es) <= maxdepth ->
    let m := tree_msg_of H ser_dir (Dir es) in
    fetch_tree H ser_dir deser_tree maxdepth (H (ser_tree m))
      (cas_put (H (ser_tree m)) (ser_tree m) (cas_put_files H (files_of (Dir es)) st)) = Done (normalise (Dir es)).
  Proof.
    intros Hwf Hs Hd m. unfold fetch_tree.
    rewrite cas_written_get by (apply cas_put_files_sound, Hs).
    rewrite deser_ser, load_tree_msg_spec.
    destruct (load_dir_ok (map (fun c => (child_key c, c)) (tm_children m))
                (cas_put (H (ser_tree m)) (ser_tree m) (cas_put_files H (files_of (Dir es)) st))
                (Dir es) Hwf es eq_refl maxdepth Hd) as [es' [Hn Hl]].
    - intros c Hc. apply cas_get_put_keep. apply cas_put_files_get; assumption.
    - intros s Hsub. apply children_lookup, Hsub.
    - change (tm_root m) with (dir_msg_of (Dir es)). rewrite Hl. cbn [Nat.eqb]. rewrite Hn. reflexivity.
  Qed.

  (* ---------------- the digest is faithful *)
  Lemma mkF_inj x y : mkF x = mkF y -> x = y.
  Proof.
    destruct x as [[k c] x], y as [[k' c'] x']. unfold mkF, Tree.dig. cbn [fst snd]. intro E.
    inversion E as [[E1 E2 E3 E4]]. apply H_inj in E2. congruence.
  Qed.

  Lemma mkL_inj x y : mkL x = mkL y -> x = y.
  Proof. destruct x, y. unfold mkL. cbn [fst snd]. intro E. inversion E. reflexivity. Qed.

  Lemma sort_eq_perm {A} (key : A -> str) l l' : sort_by key l = sort_by key l' -> Permutation l l'.
  Proof.
    intro E. eapply perm_trans; [apply Permutation_sym, sort_by_perm|]. rewrite E. apply sort_by_perm.
  Qed.

  Lemma perm_map_inj {A B} (f : A -> B) (g : A -> str * node) l l' :
    (forall x y, f x = f y -> x = y) -> Permutation (map f l) (map f l') -> Permutation (map g l) (map g l').
  Proof.
    intros Hf Hp. apply Permutation_map_inv in Hp as [l3 [E Hp]].
    apply (map_inj_eq f Hf) in E. subst l3. apply Permutation_map, Permutation_sym, Hp.
  Qed.

  Lemma dir_msg_inj n1 :
    wf_tree n1 -> forall es1, n1 = Dir es1 -> forall es2, wf_tree (Dir es2) ->
    dir_msg_of (Dir es1) = dir_msg_of (Dir es2) -> normalise (Dir es1) = normalise (Dir es2).
  Proof.
    induction n1 as [c x|t|es0 IH] using node_ind'; intros Hwf es1 En; try discriminate.
    inversion En; subst es0; clear En. intros es2 Hwf2 E.
    rewrite !dir_msg_of_dir in E. inversion E as [[EF ED EL]]. clear E.
    rewrite !normalise_dir. f_equal. apply sort_by_perm_eq; [|rewrite nentry_keys; apply wf_nodup, Hwf].
    eapply perm_trans; [apply Permutation_sym, entries_split|].
    eapply perm_trans; [|apply entries_split].
    apply Permutation_app; [|apply Permutation_app].
    - apply (perm_map_inj mkF fE _ _ mkF_inj). apply (sort_eq_perm _ _ _ EF).
    - apply sort_eq_perm in ED. apply Permutation_map_inv in ED as [l3 [E3 Hp3]].
      eapply perm_trans; [|apply Permutation_map, Permutation_sym, Hp3].
      assert (Em : map nentry (dirs_in es1) = map nentry l3); [|rewrite Em; apply Permutation_refl].
      assert (Hl3 : forall e, In e l3 -> In e es2 /\ exists d, snd e = Dir d).
      { intros [k e] He. apply (Permutation_in _ (Permutation_sym Hp3)) in He.
        apply in_dirs_in in He as [H1 [d H2]]. split; [exact H1 | exists d; exact H2]. }
      assert (Hl1 : forall e, In e (dirs_in es1) -> In e es1 /\ exists d, snd e = Dir d).
      { intros [k e] He. apply in_dirs_in in He as [H1 [d H2]]. split; [exact H1 | exists d; exact H2]. }
      clear Hp3. revert l3 E3 Hl3. generalize dependent (dirs_in es1). intros D1 Hl1.
      induction D1 as [|[k1 e1] D1 IHD]; intros [|[k3 e3] l3] E3 Hl3; cbn [map] in E3; try discriminate; [reflexivity|].
      inversion E3 as [[Ek Eh Es Er]]. cbn [map]. f_equal.
      + unfold nentry. cbn [fst snd]. f_equal.
        apply H_inj, ser_dir_inj in Eh.
        destruct (Hl1 (k1, e1) (or_introl eq_refl)) as [Hin1 [d1 Ed1]].
        destruct (Hl3 (k3, e3) (or_introl eq_refl)) as [Hin3 [d3 Ed3]].
        cbn [snd] in Ed1, Ed3. subst e1 e3.
        rewrite Forall_forall in IH. apply (IH (k1, Dir d1) Hin1).
        * eapply wf_sub; [exact Hwf | exact Hin1].
        * reflexivity.
        * eapply wf_sub; [exact Hwf2 | exact Hin3].
        * exact Eh.
      + apply (IHD (fun e He => Hl1 e (or_intror He)) l3 Er (fun e He => Hl3 e (or_intror He))).
    - apply (perm_map_inj mkL lE _ _ mkL_inj). apply (sort_eq_perm _ _ _ EL).
  Qed.

  Theorem digest_faithful es1 es2 :
    wf_tree (Dir es1) -> wf_tree (Dir es2) ->
    tree_digest H ser_dir ser_tree (Dir es1) = tree_digest H ser_dir ser_tree (Dir es2) ->
    normalise (Dir es1) = normalise (Dir es2).
  Proof.
    intros H1 H2 E. unfold tree_digest in E. apply H_inj, ser_tree_inj in E.
    apply (f_equal tm_root) in E. cbn [tree_msg_of tm_root] in E.
    exact (dir_msg_inj (Dir es1) H1 es1 eq_refl es2 H2 E).
  Qed.

  (* ---------------- C06, directory outputs *)
  Theorem dir_roundtrip t st st' ref maxdepth :
    wf_tree t -> cas_sound H st -> depth t <= maxdepth ->
    write_tree H ser_dir ser_tree t st = Some (st', ref) ->
    forall dest, wf_dest dest ->
    load_tree H ser_dir ser_tree deser_tree maxdepth ref st' dest = Done (normalise t).
  Proof.
    intros Hwf Hs Hd Hw dest Hdest. unfold write_tree in Hw.
    destruct t as [c x|es|tg]; try discriminate.
    destruct (names_ok (Dir es)); [|discriminate]. inversion Hw; subst st' ref. clear Hw.
    pose proof (fetch_ok es st maxdepth Hwf Hs Hd) as Hf. cbv zeta in Hf.
    destruct dest as [| |c x|es2]; cbn [load_tree]; try exact Hf.
    destruct (names_ok (Dir es2) && str_eqb (tree_digest H ser_dir ser_tree (Dir es2)) (H (ser_tree (tree_msg_of H ser_dir (Dir es))))) eqn:E;
      [|exact Hf].
    apply andb_true_iff in E as [_ E]. apply str_eqb_eq in E. f_equal.
    apply digest_faithful; [exact Hdest | exact Hwf | exact E].
  Qed.

End Injective.

(* ------------------------------------------------------------------ refutations on the faithful model,
   with the concrete injective instance Hid / enc_dir / enc_tree / dec_tree *)
Definition s1 (c : ascii) : str := [c].

(* the former refutation witness (C06-F1: a cached executable restored into an absent path came
   back non-executable): it now comes back executable, also over a non-executable file with the
   same or with other content; and a non-executable one loses a stale exec bit *)
Theorem file_roundtrip_exec_witness :
  let '(st', m) := file_write Hid (s1 "x") true [] in
  file_load Hid m st' DAbsent = Done (File (s1 "x") true) /\
  file_load Hid m st' DParentAbsent = Done (File (s1 "x") true) /\
  file_load Hid m st' (DFile (s1 "x") false) = Done (File (s1 "x") true) /\
  file_load Hid m st' (DFile (s1 "y") false) = Done (File (s1 "x") true) /\
  (let '(st2, m2) := file_write Hid (s1 "x") false [] in
   file_load Hid m2 st2 (DFile (s1 "x") true) = Done (File (s1 "x") false)).
Proof. vm_compute. repeat split. Qed.

(* (until bb649a3 a restore into a path whose parent directory is missing failed; the code now
   creates the parent, the model follows, and the case is covered by file_roundtrip) *)
Theorem file_roundtrip_parent_absent :
  forall c x st, cas_sound Hid st ->
    let '(st', m) := file_write Hid c x st in
    file_load Hid m st' DParentAbsent = Done (File c x).
Proof.
  intros c x st Hs. apply (file_roundtrip Hid (fun x y E => E) c x st DParentAbsent Hs).
Qed.

(* the former refutation witness (C06-F3: a restore over a directory sitting at the path failed): the
   directory -- empty or holding files and sub-directories -- is replaced by the cached file *)
Definition stale_dir : list (str * node) :=
  [(s1 "f", File (s1 "x") false); (s1 "d", Dir [(s1 "g", File (s1 "y") true)])].
Theorem file_roundtrip_directory_replaced :
  forall c x st, cas_sound Hid st ->
    let '(st', m) := file_write Hid c x st in
    file_load Hid m st' (DDir []) = Done (File c x) /\
    file_load Hid m st' (DDir stale_dir) = Done (File c x).
Proof.
  intros c x st Hs.
  pose proof (file_roundtrip Hid (fun x y E => E) c x st (DDir []) Hs) as H1.
  pose proof (file_roundtrip Hid (fun x y E => E) c x st (DDir stale_dir) Hs) as H2.
  destruct (file_write Hid c x st) as [st' m]. split; assumption.
Qed.

(* flat directory, one file, its blob lost from the cache (the former refutation witness, C04-F2:
   the restore never returned): the restore returns an error *)
Definition flat_tree : node := Dir [(s1 "a", File (s1 "x") false)].
Theorem restore_flat_missing_blob_returns :
  wf_tree flat_tree /\
  match write_tree Hid enc_dir enc_tree flat_tree [] with
  | Some (st', ref) =>
      load_tree Hid enc_dir enc_tree dec_tree max_depth ref (cas_del (Hid (s1 "x")) st') DAbsent = Error
  | None => False
  end.
Proof.
  split.
  - simpl. split; [repeat constructor; simpl; tauto|]. repeat split; try discriminate.
    simpl. intros [E|[]]. discriminate.
  - vm_compute. reflexivity.
Qed.

(* two files, both blobs lost: more failing downloads than the channel holds, still an error *)
Theorem restore_two_missing_blobs_returns :
  match write_tree Hid enc_dir enc_tree (Dir [(s1 "a", File (s1 "x") false); (s1 "b", File (s1 "y") true)]) [] with
  | Some (st', ref) =>
      load_tree Hid enc_dir enc_tree dec_tree max_depth ref (cas_del (Hid (s1 "y")) (cas_del (Hid (s1 "x")) st')) DAbsent = Error
  | None => False
  end.
Proof. vm_compute. reflexivity. Qed.

(* the same directory with one (empty) sub-directory next to the file: an error as well (it already was before the repair) *)
Theorem restore_one_subdir_returns :
  match write_tree Hid enc_dir enc_tree (Dir [(s1 "a", File (s1 "x") false); (s1 "d", Dir [])]) [] with
  | Some (st', ref) =>
      load_tree Hid enc_dir enc_tree dec_tree max_depth ref (cas_del (Hid (s1 "x")) st') DAbsent = Error
  | None => False
  end.
Proof. vm_compute. reflexivity. Qed.

(* ------------------------------------------------------------------ the hypotheses on H / ser_dir /
   ser_tree / deser_tree are satisfiable: the concrete encoders decode *)
Lemma dec_nat_enc n r : dec_nat (enc_nat n ++ r) = Some (n, r).
Proof.
  unfold enc_nat. induction n as [|n IH]; [reflexivity|].
  cbn [repeat app dec_nat]. change (Ascii.eqb c1 c0) with false. change (Ascii.eqb c1 c1) with true.
  cbn iota. rewrite IH. reflexivity.
Qed.

Lemma firstn_len_app {A} (s r : list A) : firstn (length s) (s ++ r) = s.
Proof. induction s as [|a s IH]; [reflexivity|]. cbn [length app firstn]. rewrite IH. reflexivity. Qed.
Lemma skipn_len_app {A} (s r : list A) : skipn (length s) (s ++ r) = r.
Proof. induction s as [|a s IH]; [reflexivity|]. cbn [length app skipn]. exact IH. Qed.

Lemma dec_str_enc s r : dec_str (enc_str s ++ r) = Some (s, r).
Proof.
  unfold dec_str, enc_str. rewrite <- app_assoc, dec_nat_enc.
  assert (E : Nat.leb (length s) (length (s ++ r)) = true) by (apply Nat.leb_le; rewrite app_length; lia).
  rewrite E, firstn_len_app, skipn_len_app. reflexivity.
Qed.

Lemma dec_bool_enc b r : dec_bool (enc_bool b ++ r) = Some (b, r).
Proof. destruct b; reflexivity. Qed.

Lemma dec_n_enc {A} (enc : A -> str) (dec : str -> option (A * str)) :
  (forall x r, dec (enc x ++ r) = Some (x, r)) ->
  forall l r, dec_n dec (length l) (concat (map enc l) ++ r) = Some (l, r).
Proof.
  intros Hd l. induction l as [|x l IH]; intro r; [reflexivity|].
  cbn [length map concat dec_n]. rewrite <- app_assoc, Hd, IH. reflexivity.
Qed.

Lemma dec_list_enc {A} (enc : A -> str) (dec : str -> option (A * str)) :
  (forall x r, dec (enc x ++ r) = Some (x, r)) ->
  forall l r, dec_list dec (enc_list enc l ++ r) = Some (l, r).
Proof.
  intros Hd l r. unfold dec_list, enc_list. rewrite <- app_assoc, dec_nat_enc. apply dec_n_enc, Hd.
Qed.

Lemma dec_digest_enc d r : dec_digest (enc_digest d ++ r) = Some (d, r).
Proof.
  destruct d as [h n]. unfold dec_digest, enc_digest. cbn [d_hash d_size].
  rewrite <- app_assoc, dec_str_enc, dec_nat_enc. reflexivity.
Qed.

Lemma dec_file_node_enc f r : dec_file_node (enc_file_node f ++ r) = Some (f, r).
Proof.
  destruct f as [k d x]. unfold dec_file_node, enc_file_node. cbn [fn_name fn_digest fn_exec].
  rewrite <- !app_assoc, dec_str_enc, dec_digest_enc, dec_bool_enc. reflexivity.
Qed.

Lemma dec_dir_node_enc f r : dec_dir_node (enc_dir_node f ++ r) = Some (f, r).
Proof.
  destruct f as [k d]. unfold dec_dir_node, enc_dir_node. cbn [dn_name dn_digest].
  rewrite <- !app_assoc, dec_str_enc, dec_digest_enc. reflexivity.
Qed.

Lemma dec_link_node_enc f r : dec_link_node (enc_link_node f ++ r) = Some (f, r).
Proof.
  destruct f as [k t]. unfold dec_link_node, enc_link_node. cbn [ln_name ln_target].
  rewrite <- !app_assoc, !dec_str_enc. reflexivity.
Qed.

Lemma dec_dir_enc d r : dec_dir (enc_dir d ++ r) = Some (d, r).
Proof.
  destruct d as [fs ds ls]. unfold dec_dir, enc_dir. cbn [dm_files dm_dirs dm_links].
  rewrite <- !app_assoc.
  rewrite (dec_list_enc enc_file_node dec_file_node dec_file_node_enc).
  rewrite (dec_list_enc enc_dir_node dec_dir_node dec_dir_node_enc).
  rewrite (dec_list_enc enc_link_node dec_link_node dec_link_node_enc). reflexivity.
Qed.

Lemma dec_tree_enc m : dec_tree (enc_tree m) = Some m.
Proof.
  destruct m as [root cs]. unfold dec_tree, enc_tree. cbn [tm_root tm_children].
  rewrite dec_dir_enc. rewrite <- (app_nil_r (enc_list enc_dir cs)).
  rewrite (dec_list_enc enc_dir dec_dir dec_dir_enc). reflexivity.
Qed.

Lemma enc_dir_inj x y : enc_dir x = enc_dir y -> x = y.
Proof.
  intro E. pose proof (dec_dir_enc x []) as Hx. pose proof (dec_dir_enc y []) as Hy.
  rewrite E in Hx. congruence.
Qed.

Theorem model_hypotheses_nonvacuous :
  (forall x y, Hid x = Hid y -> x = y) /\
  (forall x y, enc_dir x = enc_dir y -> x = y) /\
  (forall m, dec_tree (enc_tree m) = Some m).
Proof. split; [intros x y E; exact E | split; [exact enc_dir_inj | exact dec_tree_enc]]. Qed.
