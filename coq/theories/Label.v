(* Label.v -- branch-by-branch mirror of internal/label/target_label.go and
   internal/label/target_pattern.go.  Model only (no proofs here). *)
From Grog Require Export Str.

Record label := mkLabel { lpkg : str; lname : str }.

Definition label_eqb (a b : label) : bool :=
  str_eqb (lpkg a) (lpkg b) && str_eqb (lname a) (lname b).

(* validateName: the switch over runes.  Go ranges over runes; every byte >= 128 is part of
   a rune that is not in the allowed set (or U+FFFD), so the byte-wise test agrees. *)
Definition valid_char (c : ascii) : bool :=
  let n := nat_of_ascii c in
  ((97 <=? n) && (n <=? 122)) || ((65 <=? n) && (n <=? 90)) || ((48 <=? n) && (n <=? 57))
  || Ascii.eqb c ch_us || Ascii.eqb c "-"%char || Ascii.eqb c ch_dot.

Definition ellipsis : str := [ch_dot; ch_dot; ch_dot].
Definition dslash : str := [ch_slash; ch_slash].

Definition valid_name (n : str) : bool :=
  negb (null n) && negb (str_eqb n ellipsis) && forallb valid_char n.

(* ParseTargetLabel(packagePath, label) *)
Definition parse_label (cur s : str) : option label :=
  match s with
  | c :: name =>
      if Ascii.eqb c ch_colon then
        let cur' := if str_eqb cur [ch_dot] then [] else cur in
        if null name then None
        else if valid_name name then Some (mkLabel cur' name) else None
      else if has_prefix dslash s then
        let body := skipn 2 s in
        match split_first ch_colon body with
        | None =>
            if null body then None
            else let name := after_last ch_slash body in
                 if valid_name name then Some (mkLabel body name) else None
        | Some (pkg, name) =>
            if null name then None
            else if valid_name name then Some (mkLabel pkg name) else None
        end
      else None
  | [] => None
  end.

(* TargetLabel.String *)
Definition print_label (l : label) : str := dslash ++ lpkg l ++ ch_colon :: lname l.

(* ---------------------------------------------------------------- patterns *)

Record pattern := mkPat { pprefix : str; ptarget : str; prec : bool }.

Definition pattern_eqb (a b : pattern) : bool :=
  str_eqb (pprefix a) (pprefix b) && str_eqb (ptarget a) (ptarget b) && Bool.eqb (prec a) (prec b).

(* "Normalize the prefix by removing all trailing slashes": strings.TrimRight(prefix, "/").
   The tail is trimmed first; a slash is dropped exactly when everything after it was dropped. *)
Fixpoint trim_slashes (p : str) : str :=
  match p with
  | [] => []
  | c :: p' =>
      match trim_slashes p' with
      | [] => if Ascii.eqb c ch_slash then [] else [c]
      | t => c :: t
      end
  end.

(* ParseTargetPattern(currentPackage, pattern) *)
Definition parse_pattern (cur s : str) : option pattern :=
  if has_prefix dslash s then
    let body := skipn 2 s in
    let '(package_part, tp, has_colon) :=
      match split_first ch_colon body with
      | Some (a, b) => (a, b, true)
      | None => (body, [], false)
      end in
    if has_colon && null tp then None
    else
      match find_sub ellipsis package_part with
      | Some i =>
          if i + 3 <? length package_part then None
          else Some (mkPat (trim_slashes (firstn i package_part)) tp true)
      | None =>
          if has_colon then Some (mkPat (trim_slashes package_part) tp false)
          else
            let tp' := after_last ch_slash package_part in
            if null tp' then None
            else Some (mkPat (trim_slashes package_part) tp' false)
      end
  else
    match split_first ch_colon s with
    | None => None
    | Some (_, name) =>
        if str_eqb name ellipsis then Some (mkPat cur name false)
        else if valid_name name then Some (mkPat cur name false) else None
    end.

Definition all_lit : str := ["a"; "l"; "l"]%char.

(* TargetPattern.Matches *)
Definition matches (p : pattern) (l : label) : bool :=
  let pkg_ok :=
    if prec p then
      if null (pprefix p) then true
      else str_eqb (lpkg l) (pprefix p) || has_prefix (pprefix p ++ [ch_slash]) (lpkg l)
    else str_eqb (lpkg l) (pprefix p) in
  pkg_ok &&
  (null (ptarget p) || str_eqb (ptarget p) all_lit || str_eqb (ptarget p) ellipsis
   || str_eqb (lname l) (ptarget p)).

(* TargetPattern.String *)
Definition print_pattern (p : pattern) : str :=
  dslash ++ pprefix p
  ++ (if prec p then (if null (pprefix p) then ellipsis else ch_slash :: ellipsis) else [])
  ++ (if null (ptarget p) then [] else ch_colon :: ptarget p).

(* GetMatchAllTargetPattern / TargetPatternFromLabel *)
Definition match_all_pattern : pattern := mkPat [] [] true.
Definition pattern_of_label (l : label) : pattern := mkPat (lpkg l) (lname l) false.

(* ParsePatternsOrMatchAll *)
Fixpoint parse_patterns (cur : str) (ss : list str) : option (list pattern) :=
  match ss with
  | [] => Some []
  | s :: ss' =>
      match parse_pattern cur s with
      | None => None
      | Some p => match parse_patterns cur ss' with
                  | None => None
                  | Some ps => Some (p :: ps)
                  end
      end
  end.
Definition parse_patterns_or_all (cur : str) (ss : list str) : option (list pattern) :=
  match parse_patterns cur ss with
  | Some [] => Some [match_all_pattern]
  | r => r
  end.

Definition matches_any (ps : list pattern) (l : label) : bool := existsb (fun p => matches p l) ps.
