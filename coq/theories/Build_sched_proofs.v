(* Build_sched_proofs.v -- schedule independence of the sequential build semantics (Build.v), mode
   load_outputs=all, keep-going.  Two steps of nodes that do not read each other commute up to [beq]
   (extensional equality of workspace / cache maps, permutation of the list of started commands);
   hence every order of the nodes that is compatible with the dependency relation yields the same
   build as the index order [Build.build] uses.

   Structure:  (0) list / map helpers;  (1) [agree]: two states agree on a footprint (sets of paths,
   labels, keys, digests, node ids) and the two-state lemmas of every primitive of the task;
   (2) what one step leaves alone (frames);  (3) [beq], congruence, [swap_independent];
   (4) orders: adjacent transpositions, [topo_order_independent], [build_is_any_topo_order];
   (5) the diamond example. *)
From Coq Require Import List Ascii Bool Arith Lia Permutation.
From Grog Require Import Str Label HashKey HashKey_proofs Build Build_proofs Build_single_proofs
     Build_ideal Build_c01_proofs Build_c02_proofs Build_c15_proofs.
Import ListNotations.

(* ================================================================== (0) helpers *)
Definition orelse {A} (a b : option A) : option A := match a with Some x => Some x | None => b end.

Lemma orelse_assoc {A} (a b c : option A) : orelse (orelse a b) c = orelse a (orelse b c).
Proof. destruct a; reflexivity. Qed.

Lemma alookup_app d : forall l1 l2, alookup d (l1 ++ l2) = orelse (alookup d l1) (alookup d l2).
Proof.
  induction l1 as [|[k v] l1 IH]; intro l2; cbn [app alookup]; [reflexivity|].
  destruct (str_eqb d k); [reflexivity | apply IH].
Qed.

Lemma alookup_cas_add d dg c cas :
  alookup d (cas_add dg c cas) = orelse (alookup d cas) (alookup d [(dg, c)]).
Proof.
  unfold cas_add. destruct (alookup dg cas) as [y|] eqn:E.
  - destruct (alookup d cas) eqn:E2; cbn [orelse alookup]; [reflexivity|].
    destruct (str_eqb d dg) eqn:E3; [|reflexivity]. apply str_eqb_eq in E3. congruence.
  - cbn [alookup]. destruct (str_eqb d dg) eqn:E3.
    + apply str_eqb_eq in E3. subst d. rewrite E. reflexivity.
    + destruct (alookup d cas); reflexivity.
Qed.

(* what OnTargetComplete adds to the CAS, as an association list (first entry wins) *)
Definition delta_of (ds : list (outdef * str * str)) : list (str * str) :=
  map (fun e => (snd (fst e), snd e)) ds.

Lemma cas_fold_ext ds : forall cas d,
  alookup d (cas_fold ds cas) = orelse (alookup d cas) (alookup d (delta_of ds)).
Proof.
  unfold cas_fold. induction ds as [|e ds IH]; intros cas d; cbn [fold_left delta_of map].
  - destruct (alookup d cas); reflexivity.
  - rewrite IH, alookup_cas_add, orelse_assoc. f_equal.
    cbn [alookup]. destruct (str_eqb d (snd (fst e))); reflexivity.
Qed.

Definition oc_delta (cfg : config) (t : tdef) (ds : list (outdef * str * str)) : list (str * str) :=
  if td_nocache t || negb (cfg_cache cfg) then []
  else match td_outs t with [] => [] | _ => delta_of ds end.

Lemma oc_pair_cas_ext H cfg t key c ds d :
  alookup d (snd (oc_pair H cfg t key c ds)) =
  orelse (alookup d (c_cas c)) (alookup d (oc_delta cfg t ds)).
Proof.
  unfold oc_pair, oc_delta. destruct (td_nocache t || negb (cfg_cache cfg)).
  - cbn [snd alookup]. destruct (alookup d (c_cas c)); reflexivity.
  - destruct (td_outs t); cbn [snd alookup].
    + destruct (alookup d (c_cas c)); reflexivity.
    + apply cas_fold_ext.
Qed.

Lemma oc_pair_fst_indep H cfg t key c c' ds :
  fst (oc_pair H cfg t key c ds) = fst (oc_pair H cfg t key c' ds).
Proof.
  unfold oc_pair. destruct (td_nocache t || negb (cfg_cache cfg)); [reflexivity|].
  destruct (td_outs t); reflexivity.
Qed.

Lemma lab_eq_dec (a b : label) : {a = b} + {a <> b}.
Proof. decide equality; apply str_eq_dec. Qed.

Lemma label_in_cons_same l ls : label_in l (l :: ls) = true.
Proof. unfold label_in. cbn [existsb]. rewrite Build_single_proofs.label_eqb_refl. reflexivity. Qed.

Lemma label_in_cons_other q l ls : q <> l -> label_in q (l :: ls) = label_in q ls.
Proof.
  intro Hne. unfold label_in. cbn [existsb]. rewrite (Build_single_proofs.label_eqb_false _ _ Hne). reflexivity.
Qed.

(* the external conditions after the command of a target with an output check ran *)
Definition ext_add (l : label) (ext : list label) : list label :=
  if label_in l ext then ext else l :: ext.

Lemma ext_add_agree l q ext ext' :
  label_in q ext = label_in q ext' -> label_in q (ext_add l ext) = label_in q (ext_add l ext').
Proof.
  intro Hq. unfold ext_add. destruct (lab_eq_dec q l) as [->|Hne].
  - destruct (label_in l ext) eqn:E1; destruct (label_in l ext') eqn:E2;
      rewrite ?label_in_cons_same; congruence.
  - destruct (label_in l ext); destruct (label_in l ext'); rewrite ?(label_in_cons_other _ _ _ Hne); exact Hq.
Qed.

Lemma ext_add_other l q ext : q <> l -> label_in q (ext_add l ext) = label_in q ext.
Proof. intro Hne. unfold ext_add. destruct (label_in l ext); [reflexivity | apply label_in_cons_other, Hne]. Qed.

Lemma label_remove_agree l q ls ls' :
  label_in q ls = label_in q ls' -> label_in q (label_remove l ls) = label_in q (label_remove l ls').
Proof.
  intro Hq. destruct (lab_eq_dec q l) as [->|Hne].
  - rewrite !label_in_remove. reflexivity.
  - rewrite !(Build_single_proofs.label_in_remove_other _ _ _ Hne). exact Hq.
Qed.

(* ================================================================== (1a) two-state lemmas: maps *)
Section Two.
Variable H : str -> str.

Lemma dep_hashes_agree s b b' : forall ds,
  (forall d j dt, In d ds -> resolve s d = Some (j, dt) -> get_rt b j = get_rt b' j) ->
  dep_hashes s b ds = dep_hashes s b' ds.
Proof.
  induction ds as [|d ds IH]; intro Hd; cbn [dep_hashes]; [reflexivity|].
  rewrite IH by (intros d0 j dt Hin; apply Hd; right; exact Hin).
  destruct (resolve s d) as [[j dt]|] eqn:Er; [|reflexivity].
  rewrite (Hd d j dt (or_introl eq_refl) Er). reflexivity.
Qed.

Lemma dep_parts_of_agree ws ws' dt : forall outs,
  (forall o, In o outs -> ws_get (out_path dt o) ws = ws_get (out_path dt o) ws') ->
  dep_parts_of ws dt outs = dep_parts_of ws' dt outs.
Proof.
  induction outs as [|o outs IH]; intro Ho; cbn [dep_parts_of]; [reflexivity|].
  rewrite IH by (intros o' Hin; apply Ho; right; exact Hin).
  rewrite (Ho o (or_introl eq_refl)). reflexivity.
Qed.

Lemma dep_parts_agree s ws ws' : forall ds,
  (forall d j dt o, In d ds -> resolve s d = Some (j, dt) -> In o (td_outs dt) ->
                    ws_get (out_path dt o) ws = ws_get (out_path dt o) ws') ->
  dep_parts s ws ds = dep_parts s ws' ds.
Proof.
  induction ds as [|d ds IH]; intro Hd; cbn [dep_parts]; [reflexivity|].
  rewrite IH by (intros d0 j dt o Hin; apply Hd; right; exact Hin).
  destruct (resolve s d) as [[j dt]|] eqn:Er; [|reflexivity].
  rewrite (dep_parts_of_agree ws ws' dt (td_outs dt)); [reflexivity|].
  intros o Ho. apply (Hd d j dt o (or_introl eq_refl) Er Ho).
Qed.

Lemma write_outs_agree s t reads skip q : forall outs k ws ws',
  ws_get q ws = ws_get q ws' ->
  ws_get q (write_outs s t k outs reads skip ws) = ws_get q (write_outs s t k outs reads skip ws').
Proof.
  induction outs as [|o outs IH]; intros k ws ws' Hq; cbn [write_outs]; [exact Hq|].
  apply IH. destruct skip as [j|]; [destruct (Nat.eqb j k)|]; rewrite !ws_get_set;
    destruct (str_eqb (out_path t o) q); auto.
Qed.

Definition wpoint (w w' w1 w1' : world) : Prop :=
  (forall q, ws_get q (w_ws w) = ws_get q (w_ws w') -> ws_get q (w_ws w1) = ws_get q (w_ws w1')) /\
  (forall q, label_in q (w_ext w) = label_in q (w_ext w') -> label_in q (w_ext w1) = label_in q (w_ext w1')).

Definition orel {A} (R : A -> A -> Prop) (a a' : option A) : Prop :=
  match a, a' with Some x, Some x' => R x x' | None, None => True | _, _ => False end.

Lemma wpoint_refl w w' : wpoint w w' w w'.
Proof. split; auto. Qed.

Lemma run_command_agree s t w w' :
  dep_parts s (w_ws w) (td_deps t) = dep_parts s (w_ws w') (td_deps t) ->
  orel (wpoint w w') (run_command s t w) (run_command s t w').
Proof.
  intro Hdp. unfold run_command. rewrite <- Hdp.
  destruct (td_beh t); cbn [orel]; try exact I;
    (destruct (dep_parts s (w_ws w) (td_deps t)) as [reads|]; cbn [orel]; [|exact I]); try exact I;
    (split; intros q Hq; cbn [w_ws w_ext]; [apply write_outs_agree; exact Hq|]);
    (destruct (td_check t); [|exact Hq]).
  - apply (ext_add_agree (td_label t)); exact Hq.
  - apply (ext_add_agree (td_label t)); exact Hq.
  - apply label_remove_agree; exact Hq.
Qed.

Lemma failed_world_agree s t w w' :
  dep_parts s (w_ws w) (td_deps t) = dep_parts s (w_ws w') (td_deps t) ->
  wpoint w w' (run_command_failed_world s t w) (run_command_failed_world s t w').
Proof.
  intro Hdp. split.
  - intros q Hq. unfold run_command_failed_world. rewrite <- Hdp.
    destruct (td_beh t); try exact Hq.
    destruct (dep_parts s (w_ws w) (td_deps t)); [|exact Hq]. cbn [w_ws]. apply write_outs_agree; exact Hq.
  - intros q Hq. rewrite !Build_single_proofs.run_command_failed_world_ext. exact Hq.
Qed.

Lemma load_one_agree c c' t o dg ws ws' :
  ws_get (out_path t o) ws = ws_get (out_path t o) ws' ->
  alookup dg (c_cas c) = alookup dg (c_cas c') ->
  orel (fun a a' => forall q, ws_get q ws = ws_get q ws' -> ws_get q a = ws_get q a')
       (load_one H c t o dg ws) (load_one H c' t o dg ws').
Proof.
  intros Hp Hc. unfold load_one. rewrite <- Hp, <- Hc.
  destruct (match ws_get (out_path t o) ws with PFile x => str_eqb (out_digest H o x) dg | _ => false end);
    [cbn [orel]; auto|].
  destruct (alookup dg (c_cas c)) as [content|]; [|exact I].
  destruct (o_kind o); destruct (ws_get (out_path t o) ws); cbn [orel]; try exact I;
    intros q Hq; rewrite !ws_get_set; destruct (str_eqb (out_path t o) q); auto.
Qed.

Lemma load_all_agree c c' t : forall rs ws ws',
  (forall o, In o (td_outs t) -> ws_get (out_path t o) ws = ws_get (out_path t o) ws') ->
  (forall def dg, In (def, dg) rs -> alookup dg (c_cas c) = alookup dg (c_cas c')) ->
  fst (load_all H c t rs ws) = fst (load_all H c' t rs ws') /\
  forall q, ws_get q ws = ws_get q ws' ->
            ws_get q (snd (load_all H c t rs ws)) = ws_get q (snd (load_all H c' t rs ws')).
Proof.
  induction rs as [|[def dg] rs IH]; intros ws ws' Hown Hcas; cbn [load_all]; [auto|].
  assert (Hcas' : forall def0 dg0, In (def0, dg0) rs -> alookup dg0 (c_cas c) = alookup dg0 (c_cas c'))
    by (intros d0 g0 Hin; apply (Hcas d0 g0); right; exact Hin).
  assert (Hskip : fst (let '(_, ws0) := load_all H c t rs ws in (false, ws0)) =
                  fst (let '(_, ws0) := load_all H c' t rs ws' in (false, ws0)) /\
                  forall q, ws_get q ws = ws_get q ws' ->
                    ws_get q (snd (let '(_, ws0) := load_all H c t rs ws in (false, ws0))) =
                    ws_get q (snd (let '(_, ws0) := load_all H c' t rs ws' in (false, ws0)))).
  { destruct (IH ws ws' Hown Hcas') as [_ I2].
    destruct (load_all H c t rs ws), (load_all H c' t rs ws'). split; [reflexivity | exact I2]. }
  destruct (find_out (td_outs t) def) as [o|] eqn:Ef; [|exact Hskip].
  pose proof (load_one_agree c c' t o dg ws ws' (Hown o (proj1 (find_out_spec _ _ _ Ef)))
                (Hcas def dg (or_introl eq_refl))) as Hl.
  destruct (load_one H c t o dg ws) as [a|]; destruct (load_one H c' t o dg ws') as [a'|];
    cbn [orel] in Hl; try contradiction; [|exact Hskip].
  destruct (IH a a') as [I1 I2]; [intros o' Ho'; apply Hl, Hown, Ho' | exact Hcas' |].
  split; [exact I1 | intros q Hq; apply I2, Hl, Hq].
Qed.

Lemma present_digests_agree t : forall outs ws ws',
  (forall o, In o outs -> ws_get (out_path t o) ws = ws_get (out_path t o) ws') ->
  present_digests H t outs ws = present_digests H t outs ws'.
Proof.
  induction outs as [|o outs IH]; intros ws ws' Ho; cbn [present_digests]; [reflexivity|].
  rewrite (IH ws ws') by (intros o' Hin; apply Ho; right; exact Hin).
  rewrite (Ho o (or_introl eq_refl)). reflexivity.
Qed.

End Two.

(* ================================================================== (1b) agreement of two states on a footprint *)
Lemma orelse_none_r {A} (a : option A) : orelse a None = a.
Proof. destruct a; reflexivity. Qed.

Lemma rlookup_results_set k key res l :
  rlookup k (results_set key res l) = if str_eqb key k then Some res else rlookup k l.
Proof.
  destruct (str_eqb key k) eqn:E.
  - apply str_eqb_eq in E. subst. apply rlookup_set_same.
  - apply str_eqb_neq in E. apply rlookup_set_other. exact E.
Qed.

Definition cas_ext (b1 b : bstate) (D : list (str * str)) : Prop :=
  forall d, alookup d (c_cas (b_cache b1)) = orelse (alookup d (c_cas (b_cache b))) (alookup d D).

(* b1 / b1' are b / b' plus the same started commands X and the same new blobs D *)
Definition sd (X : list label) (D : list (str * str)) (b b' b1 b1' : bstate) : Prop :=
  b_exec b1 = b_exec b ++ X /\ b_exec b1' = b_exec b' ++ X /\ cas_ext b1 b D /\ cas_ext b1' b' D.

Lemma cas_ext_nil b1 b : c_cas (b_cache b1) = c_cas (b_cache b) -> cas_ext b1 b [].
Proof. intros E d. rewrite E. cbn [alookup]. symmetry. apply orelse_none_r. Qed.

Lemma sd_nil b b' b1 b1' :
  b_exec b1 = b_exec b -> b_exec b1' = b_exec b' ->
  c_cas (b_cache b1) = c_cas (b_cache b) -> c_cas (b_cache b1') = c_cas (b_cache b') ->
  sd [] [] b b' b1 b1'.
Proof.
  intros X1 X2 C1 C2. unfold sd. rewrite !app_nil_r. auto using cas_ext_nil.
Qed.

Lemma sd_pre X D b b' b0 b0' b1 b1' :
  b_exec b0 = b_exec b -> b_exec b0' = b_exec b' ->
  c_cas (b_cache b0) = c_cas (b_cache b) -> c_cas (b_cache b0') = c_cas (b_cache b') ->
  sd X D b0 b0' b1 b1' -> sd X D b b' b1 b1'.
Proof.
  intros X1 X2 C1 C2 (S1 & S2 & S3 & S4). unfold sd, cas_ext in *.
  rewrite <- X1, <- X2, <- C1, <- C2. auto.
Qed.

Lemma sd_post X D b b' b1 b1' b2 b2' :
  b_exec b2 = b_exec b1 -> b_exec b2' = b_exec b1' ->
  c_cas (b_cache b2) = c_cas (b_cache b1) -> c_cas (b_cache b2') = c_cas (b_cache b1') ->
  sd X D b b' b1 b1' -> sd X D b b' b2 b2'.
Proof.
  intros X1 X2 C1 C2 (S1 & S2 & S3 & S4). unfold sd, cas_ext in *.
  rewrite X1, X2, C1, C2. auto.
Qed.

Section Agree.
Variable H : str -> str.
Hypothesis H_inj : forall a b, H a = H b -> a = b.
Variables (Pp : str -> Prop) (Pl : label -> Prop) (Pk : str -> Prop) (Pd : str -> Prop) (Pn : nat -> Prop).

Record agree (b b' : bstate) : Prop := mkAgree {
  ag_len   : rt_len b = rt_len b';
  ag_stop  : b_stop b = b_stop b';
  ag_rt    : forall j, Pn j -> get_rt b j = get_rt b' j;
  ag_ws    : forall p, Pp p -> ws_get p (w_ws (b_world b)) = ws_get p (w_ws (b_world b'));
  ag_ext   : forall l, Pl l -> label_in l (w_ext (b_world b)) = label_in l (w_ext (b_world b'));
  ag_taint : forall l, Pl l -> label_in l (c_taint (b_cache b)) = label_in l (c_taint (b_cache b'));
  ag_res   : forall k, Pk k -> rlookup k (c_results (b_cache b)) = rlookup k (c_results (b_cache b'));
  ag_cas   : forall d, Pd d -> alookup d (c_cas (b_cache b)) = alookup d (c_cas (b_cache b'))
}.

Lemma agree_set_rt b b' i r : agree b b' -> agree (set_rt b i r) (set_rt b' i r).
Proof.
  intros [A1 A2 A3 A4 A5 A6 A7 A8]. constructor; autorewrite with bst; auto.
  intros j Hj. destruct (Nat.eq_dec i j) as [->|Hne].
  - destruct (lt_dec j (rt_len b)) as [Hlt|Hge].
    + rewrite !get_rt_set_rt_same; [reflexivity | rewrite <- A1; exact Hlt | exact Hlt].
    + rewrite !get_rt_set_rt_oob; [apply A3, Hj | rewrite <- A1; lia | lia].
  - rewrite !get_rt_set_rt_other by exact Hne. apply A3, Hj.
Qed.

Lemma agree_mark b b' i st : Pn i -> agree b b' -> agree (mark b i st) (mark b' i st).
Proof. intros Hi Ha. unfold mark. rewrite (ag_rt _ _ Ha i Hi). apply agree_set_rt, Ha. Qed.

Lemma agree_pt_b0 b b' i key : Pn i -> agree b b' -> agree (pt_b0 i key b) (pt_b0 i key b').
Proof. intros Hi Ha. unfold pt_b0. rewrite (ag_rt _ _ Ha i Hi). apply agree_set_rt, Ha. Qed.

Lemma agree_exec_b0 b b' t : agree b b' -> agree (exec_b0 t b) (exec_b0 t b').
Proof.
  intros [A1 A2 A3 A4 A5 A6 A7 A8]. unfold exec_b0. destruct (null (td_cmd t)); constructor; auto.
Qed.

Definition wagree (w w' : world) : Prop :=
  (forall p, Pp p -> ws_get p (w_ws w) = ws_get p (w_ws w')) /\
  (forall l, Pl l -> label_in l (w_ext w) = label_in l (w_ext w')).

Lemma agree_world b b' : agree b b' -> wagree (b_world b) (b_world b').
Proof. intros [A1 A2 A3 A4 A5 A6 A7 A8]. split; assumption. Qed.

Lemma wpoint_wagree w w' w1 w1' : wagree w w' -> wpoint w w' w1 w1' -> wagree w1 w1'.
Proof. intros [W1 W2] [Q1 Q2]. split; [intros p Hp; apply Q1, W1, Hp | intros l Hl; apply Q2, W2, Hl]. Qed.

Lemma agree_set_world b b' w w' : agree b b' -> wagree w w' -> agree (set_world b w) (set_world b' w').
Proof. intros [A1 A2 A3 A4 A5 A6 A7 A8] [W1 W2]. constructor; auto. Qed.

Lemma agree_untaint b b' tn t : agree b b' -> agree (untaint tn t b) (untaint tn t b').
Proof.
  intros [A1 A2 A3 A4 A5 A6 A7 A8]. unfold untaint. destruct tn; constructor; auto.
  cbn. intros l Hl. apply label_remove_agree, A6, Hl.
Qed.

Lemma agree_oc_state cfg t i key b b' c c' ds :
  c = b_cache b -> c' = b_cache b' -> Pn i -> agree b b' ->
  agree (oc_state cfg i key b (fst (oc_pair H cfg t key c ds)) (snd (oc_pair H cfg t key c ds)))
        (oc_state cfg i key b' (fst (oc_pair H cfg t key c' ds)) (snd (oc_pair H cfg t key c' ds))).
Proof.
  intros -> -> Hi Ha. rewrite (oc_pair_fst_indep H cfg t key (b_cache b') (b_cache b) ds).
  unfold oc_state. rewrite !get_rt_set_cache, (ag_rt _ _ Ha i Hi). apply agree_set_rt.
  destruct Ha as [A1 A2 A3 A4 A5 A6 A7 A8]. constructor; auto.
  - cbn [b_cache set_cache c_results]. intros k Hk. destruct (cfg_cache cfg); [|apply A7, Hk].
    rewrite !rlookup_results_set.
    destruct (str_eqb key k); [reflexivity | apply A7, Hk].
  - cbn [b_cache set_cache c_cas]. intros d Hd. rewrite !oc_pair_cas_ext, (A8 d Hd). reflexivity.
Qed.

(* ---------------------------------------------------------------- the blobs one task adds are well-formed *)
Definition outs_need_cmd (t : tdef) : bool :=
  negb (null (td_cmd t)) || match td_outs t with [] => true | _ => false end.

Definition blobs_ok (D : list (str * str)) : Prop := forall d x, alookup d D = Some x -> blob_ok H d x.

Lemma blobs_ok_nil : blobs_ok [].
Proof. intros d x Hx. discriminate Hx. Qed.

Definition tagged_or_absent (st : pstate) : Prop := st = PAbsent \/ exists r, st = PFile ("T"%char :: r).

Lemma write_outs_tagged s t reads skip : forall outs k ws q,
  tagged_or_absent (ws_get q ws) \/ In q (map (out_path t) outs) ->
  tagged_or_absent (ws_get q (write_outs s t k outs reads skip ws)).
Proof.
  induction outs as [|o outs IH]; intros k ws q Hq; cbn [write_outs].
  - destruct Hq as [Hq|[]]. exact Hq.
  - apply IH.
    assert (Hrest : str_eqb (out_path t o) q = false ->
                    tagged_or_absent (ws_get q ws) \/ In q (map (out_path t) outs)).
    { intro E. apply str_eqb_neq in E. destruct Hq as [Hq|[Hq|Hq]]; [left; exact Hq | congruence | right; exact Hq]. }
    assert (Hc : tagged_or_absent (PFile (content_of s t k o reads))).
    { right. destruct (content_of_T s t k o reads) as [r Hr]. exists r. rewrite Hr. reflexivity. }
    destruct skip as [j|]; [destruct (Nat.eqb j k)|]; rewrite ws_get_set;
      destruct (str_eqb (out_path t o) q) eqn:E; auto; left; left; reflexivity.
Qed.

Lemma run_command_tagged s t w w1 :
  run_command s t w = Some w1 ->
  forall o, In o (td_outs t) -> tagged_or_absent (ws_get (out_path t o) (w_ws w1)).
Proof.
  unfold run_command. intros Hr o Ho.
  destruct (td_beh t); try discriminate;
    (destruct (dep_parts s (w_ws w) (td_deps t)); [|discriminate]);
    inversion Hr; subst; cbn [w_ws]; apply write_outs_tagged; right; apply in_map; exact Ho.
Qed.

Lemma present_digests_in t ws : forall outs ds, present_digests H t outs ws = Some ds ->
  forall e, In e ds -> exists o c, In o outs /\ e = (o, out_digest H o c, c) /\ ws_get (out_path t o) ws = PFile c.
Proof.
  induction outs as [|o outs IH]; intros ds E e He; cbn [present_digests] in E.
  - inversion E; subst. destruct He.
  - destruct (ws_get (out_path t o) ws) as [| |c|] eqn:Ecur; try discriminate.
    destruct (present_digests H t outs ws) as [rest|]; [|discriminate].
    inversion E; subst. destruct He as [<-|He].
    + exists o, c. split; [left; reflexivity | auto].
    + destruct (IH rest eq_refl e He) as (o' & c' & Ho' & Ee & Hw). exists o', c'. split; [right; exact Ho' | auto].
Qed.

Lemma alookup_in d x : forall l, alookup d l = Some x -> In (d, x) l.
Proof.
  induction l as [|[k v] l IH]; cbn [alookup]; intro E; [discriminate|].
  destruct (str_eqb d k) eqn:Ek; [|right; apply IH, E].
  apply str_eqb_eq in Ek. inversion E; subst. left; reflexivity.
Qed.

Lemma oc_delta_blobs cfg t ds ws :
  present_digests H t (td_outs t) ws = Some ds ->
  (forall o, In o (td_outs t) -> tagged_or_absent (ws_get (out_path t o) ws)) ->
  blobs_ok (oc_delta cfg t ds).
Proof.
  intros Hpd Htag. unfold oc_delta.
  destruct (td_nocache t || negb (cfg_cache cfg)); [apply blobs_ok_nil|].
  destruct (td_outs t) as [|o0 outs0] eqn:Eo; [apply blobs_ok_nil|]. rewrite <- Eo in *.
  intros d x Hl. apply alookup_in in Hl. unfold delta_of in Hl. apply in_map_iff in Hl as (e & Ee & He).
  destruct (present_digests_in t ws _ _ Hpd e He) as (o & c & Ho & -> & Hw).
  cbn [fst snd] in Ee. inversion Ee; subst d x.
  apply (blob_ok_digest H H_inj). destruct (Htag o Ho) as [Ha|[r Hr]]; [congruence|].
  exists r. congruence.
Qed.

Lemma oc_delta_no_outs cfg t ds : td_outs t = [] -> oc_delta cfg t ds = [].
Proof. intro E. unfold oc_delta. rewrite E. destruct (td_nocache t || negb (cfg_cache cfg)); reflexivity. Qed.

(* ---------------------------------------------------------------- executeTarget on two agreeing states *)
Lemma exec_ran_agree s t b b' :
  dep_parts s (w_ws (b_world b)) (td_deps t) = dep_parts s (w_ws (b_world b')) (td_deps t) ->
  orel (wpoint (b_world b) (b_world b')) (exec_ran s t b) (exec_ran s t b').
Proof.
  intro Hdp. unfold exec_ran. destruct (null (td_cmd t)); [cbn [orel]; apply wpoint_refl | apply run_command_agree, Hdp].
Qed.

Definition cmd_start (t : tdef) : list label := if null (td_cmd t) then [] else [td_label t].

Lemma exec_b0_exec_eq t b : b_exec (exec_b0 t b) = b_exec b ++ cmd_start t.
Proof. unfold exec_b0, cmd_start. destruct (null (td_cmd t)); [rewrite app_nil_r|]; reflexivity. Qed.

(* the conclusion of every two-state lemma of a task step *)
Definition step_rel (G : Prop) (b b' b1 b1' : bstate) : Prop :=
  agree b1 b1' /\ exists X D, sd X D b b' b1 b1' /\ (G -> blobs_ok D).

Lemma step_rel_weaken (G G' : Prop) b b' b1 b1' : (G' -> G) -> step_rel G b b' b1 b1' -> step_rel G' b b' b1 b1'.
Proof. intros HG (A & X & D & S & B). split; [exact A|]. exists X, D. split; [exact S | auto]. Qed.

Lemma execute_agree cfg s i t key tn b b' :
  agree b b' -> Pn i -> Pl (td_label t) -> (forall o, In o (td_outs t) -> Pp (out_path t o)) ->
  dep_parts s (w_ws (b_world b)) (td_deps t) = dep_parts s (w_ws (b_world b')) (td_deps t) ->
  fst (execute H cfg s i t key tn b) = fst (execute H cfg s i t key tn b') /\
  step_rel (outs_need_cmd t = true) b b' (snd (execute H cfg s i t key tn b)) (snd (execute H cfg s i t key tn b')).
Proof.
  intros Ha Hi Hl Hown Hdp. rewrite !(execute_eq H).
  pose proof (exec_ran_agree s t b b' Hdp) as Hr.
  assert (Hfail : forall w w', wagree w w' ->
     fst (false, set_world (exec_b0 t b) w) = fst (false, set_world (exec_b0 t b') w') /\
     step_rel (outs_need_cmd t = true) b b' (snd (false, set_world (exec_b0 t b) w))
              (snd (false, set_world (exec_b0 t b') w'))).
  { intros w w' Hw. cbn [fst snd]. split; [reflexivity|]. split.
    - apply agree_set_world; [apply agree_exec_b0, Ha | exact Hw].
    - exists (cmd_start t), []. split; [|intros _; apply blobs_ok_nil].
      unfold sd. rewrite !b_exec_set_world, !exec_b0_exec_eq. split; [reflexivity|]. split; [reflexivity|].
      split; apply cas_ext_nil; rewrite b_cache_set_world, exec_b0_cache; reflexivity. }
  destruct (exec_ran s t b) as [w1|] eqn:E1; destruct (exec_ran s t b') as [w1'|] eqn:E1';
    cbn [orel] in Hr; try contradiction.
  2:{ apply Hfail. eapply wpoint_wagree; [apply agree_world, Ha | apply failed_world_agree, Hdp]. }
  pose proof (wpoint_wagree _ _ _ _ (agree_world _ _ Ha) Hr) as Hw.
  assert (Hck : check_ok w1' t = check_ok w1 t)
    by (unfold check_ok; rewrite (proj2 Hw _ Hl); reflexivity).
  assert (Hpd : present_digests H t (td_outs t) (w_ws w1') = present_digests H t (td_outs t) (w_ws w1))
    by (symmetry; apply present_digests_agree; intros o Ho; apply (proj1 Hw), Hown, Ho).
  rewrite Hck, Hpd.
  destruct (check_ok w1 t); [|apply Hfail, Hw].
  destruct (present_digests H t (td_outs t) (w_ws w1)) as [ds|] eqn:Eds; [|apply Hfail, Hw].
  cbn [fst snd]. split; [reflexivity|]. unfold exec_done. split.
  - apply agree_untaint. apply agree_oc_state.
    + rewrite b_cache_set_world, exec_b0_cache. reflexivity.
    + rewrite b_cache_set_world, exec_b0_cache. reflexivity.
    + exact Hi.
    + apply agree_set_world; [apply agree_exec_b0, Ha | exact Hw].
  - exists (cmd_start t), (oc_delta cfg t ds). split.
    + unfold sd. rewrite !untaint_exec, !oc_state_exec, !b_exec_set_world, !exec_b0_exec_eq.
      split; [reflexivity|]. split; [reflexivity|].
      split; intro d; rewrite untaint_cas, oc_state_cas; apply oc_pair_cas_ext.
    + intro Hcmd. unfold exec_ran in E1. destruct (null (td_cmd t)) eqn:En.
      * unfold outs_need_cmd in Hcmd. rewrite En in Hcmd. cbn [negb orb] in Hcmd.
        destruct (td_outs t) eqn:Eo; [|discriminate]. rewrite oc_delta_no_outs by exact Eo. apply blobs_ok_nil.
      * eapply oc_delta_blobs; [exact Eds | eapply run_command_tagged; exact E1].
Qed.

(* ---------------------------------------------------------------- Registry.LoadOutputs on two agreeing states *)
Lemma load_outputs_exec i t r b : b_exec (snd (load_outputs H i t r b)) = b_exec b.
Proof.
  unfold load_outputs. destruct (rt_loaded (get_rt b i)); [reflexivity|].
  destruct (negb (outputs_match t r)); [reflexivity|].
  destruct (load_all H (b_cache b) t (r_outs r) (w_ws (b_world b))) as [ok ws']. destruct ok; reflexivity.
Qed.

Lemma load_outputs_agree i t r b b' :
  agree b b' -> Pn i -> (forall o, In o (td_outs t) -> Pp (out_path t o)) ->
  (forall def dg, In (def, dg) (r_outs r) -> Pd dg) ->
  fst (load_outputs H i t r b) = fst (load_outputs H i t r b') /\
  agree (snd (load_outputs H i t r b)) (snd (load_outputs H i t r b')).
Proof.
  intros Ha Hi Hown Hdg. unfold load_outputs. rewrite <- (ag_rt _ _ Ha i Hi).
  destruct (rt_loaded (get_rt b i)); [split; [reflexivity | exact Ha]|].
  destruct (negb (outputs_match t r)); [split; [reflexivity | exact Ha]|].
  destruct (load_all_agree H (b_cache b) (b_cache b') t (r_outs r) (w_ws (b_world b)) (w_ws (b_world b')))
    as [L1 L2].
  { intros o Ho. apply (ag_ws _ _ Ha), Hown, Ho. }
  { intros def dg Hin. apply (ag_cas _ _ Ha), (Hdg def dg Hin). }
  destruct (load_all H (b_cache b) t (r_outs r) (w_ws (b_world b))) as [ok ws1].
  destruct (load_all H (b_cache b') t (r_outs r) (w_ws (b_world b'))) as [ok' ws1'].
  cbn [fst snd] in L1, L2. subst ok'.
  assert (Hw : agree (set_world b (mkWorld ws1 (w_ext (b_world b)))) (set_world b' (mkWorld ws1' (w_ext (b_world b'))))).
  { apply agree_set_world; [exact Ha|]. split; cbn [w_ws w_ext].
    - intros p Hp. apply L2, (ag_ws _ _ Ha), Hp.
    - apply (ag_ext _ _ Ha). }
  destruct ok; cbn [fst snd]; (split; [reflexivity|]); [|exact Hw].
  rewrite !get_rt_set_world, <- (ag_rt _ _ Ha i Hi). apply agree_set_rt, Hw.
Qed.

(* ---------------------------------------------------------------- the task of one target on two agreeing states *)
Definition covers (s : sources) (i : nat) (t : tdef) (b : bstate) : Prop :=
  Pn i /\ Pl (td_label t) /\
  (forall o, In o (td_outs t) -> Pp (out_path t o)) /\
  (forall d j dt, In d (td_deps t) -> resolve s d = Some (j, dt) -> Pn j) /\
  (forall d j dt o, In d (td_deps t) -> resolve s d = Some (j, dt) -> In o (td_outs dt) -> Pp (out_path dt o)) /\
  (forall dh, dep_hashes s b (td_deps t) = Some dh -> Pk (pt_key H s t dh)) /\
  (forall dh res def dg, dep_hashes s b (td_deps t) = Some dh ->
     rlookup (pt_key H s t dh) (c_results (b_cache b)) = Some res -> In (def, dg) (r_outs res) -> Pd dg).

Lemma step_rel_same G b b' b1 b1' :
  agree b1 b1' -> b_exec b1 = b_exec b -> b_exec b1' = b_exec b' ->
  c_cas (b_cache b1) = c_cas (b_cache b) -> c_cas (b_cache b1') = c_cas (b_cache b') ->
  step_rel G b b' b1 b1'.
Proof.
  intros Ha X1 X2 C1 C2. split; [exact Ha|]. exists [], []. split; [apply sd_nil; assumption | intros _; apply blobs_ok_nil].
Qed.

Lemma pt_agree cfg s i t b b' :
  cfg_mode cfg = LAll -> agree b b' -> covers s i t b ->
  step_rel (outs_need_cmd t = true) b b' (process_target H cfg s i t b) (process_target H cfg s i t b').
Proof.
  intros Hm Ha (Ci & Cl & Cown & Cdn & Cdp & Ck & Cd). rewrite !(pt_LAll H) by exact Hm.
  assert (Hdh : dep_hashes s b' (td_deps t) = dep_hashes s b (td_deps t)).
  { symmetry. apply dep_hashes_agree. intros d j dt Hd Hres. apply (ag_rt _ _ Ha), (Cdn d j dt Hd Hres). }
  rewrite Hdh. destruct (dep_hashes s b (td_deps t)) as [dh|] eqn:Edh.
  2:{ apply step_rel_same; try reflexivity. apply agree_mark; assumption. }
  cbv zeta. set (key := pt_key H s t dh).
  assert (Ha0 : agree (pt_b0 i key b) (pt_b0 i key b')) by (apply agree_pt_b0; assumption).
  assert (Hr : rlookup key (c_results (b_cache b')) = rlookup key (c_results (b_cache b))).
  { symmetry. apply (ag_res _ _ Ha), (Ck dh eq_refl). }
  assert (Htn : pt_tainted t b' = pt_tainted t b).
  { unfold pt_tainted. symmetry. apply (ag_taint _ _ Ha), Cl. }
  assert (Hhc : hit_cond cfg t b' = hit_cond cfg t b).
  { unfold hit_cond, check_ok. rewrite Htn, (ag_ext _ _ Ha _ Cl). reflexivity. }
  rewrite Hr, Hhc, Htn.
  assert (Htail : forall bm bm', agree bm bm' -> b_exec bm = b_exec b -> b_exec bm' = b_exec b' ->
            c_cas (b_cache bm) = c_cas (b_cache b) -> c_cas (b_cache bm') = c_cas (b_cache b') ->
            step_rel (outs_need_cmd t = true) b b' (exec_tail H cfg s i t key (pt_tainted t b) bm)
                          (exec_tail H cfg s i t key (pt_tainted t b) bm')).
  { intros bm bm' Hab X1 X2 C1 C2. unfold exec_tail.
    destruct (execute_agree cfg s i t key (pt_tainted t b) bm bm' Hab Ci Cl Cown) as [F1 (F2 & X & D & F3 & F4)].
    { apply dep_parts_agree. intros d j dt o Hd Hres Ho. apply (ag_ws _ _ Hab), (Cdp d j dt o Hd Hres Ho). }
    destruct (execute H cfg s i t key (pt_tainted t b) bm) as [ok b3].
    destruct (execute H cfg s i t key (pt_tainted t b) bm') as [ok' b3'].
    cbn [fst snd] in F1, F2, F3. subst ok'.
    split; [apply agree_mark; assumption|]. exists X, D. split; [|exact F4].
    eapply sd_pre; [exact X1 | exact X2 | exact C1 | exact C2|].
    eapply sd_post; [| | | |exact F3]; reflexivity. }
  destruct (rlookup key (c_results (b_cache b))) as [res|] eqn:Er;
    [|apply Htail; [exact Ha0|reflexivity..]].
  destruct (hit_cond cfg t b); [|apply Htail; [exact Ha0|reflexivity..]].
  destruct (load_outputs_agree i t res (pt_b0 i key b) (pt_b0 i key b') Ha0 Ci Cown (fun def dg => Cd dh res def dg eq_refl Er)) as [L1 L2].
  pose proof (load_outputs_exec i t res (pt_b0 i key b)) as X1.
  pose proof (load_outputs_exec i t res (pt_b0 i key b')) as X2.
  pose proof (load_outputs_cache H i t res (pt_b0 i key b)) as C1.
  pose proof (load_outputs_cache H i t res (pt_b0 i key b')) as C2.
  destruct (load_outputs H i t res (pt_b0 i key b)) as [hit b1].
  destruct (load_outputs H i t res (pt_b0 i key b')) as [hit' b1'].
  cbn [fst snd] in L1, L2, X1, X2, C1, C2. subst hit'.
  rewrite pt_b0_exec in X1, X2. rewrite pt_b0_cache in C1, C2.
  destruct hit.
  - apply step_rel_same; rewrite ?b_exec_mark, ?b_cache_mark; try congruence. apply agree_mark; assumption.
  - apply Htail; try assumption; congruence.
Qed.

(* ---------------------------------------------------------------- one node of the walk on two agreeing states *)
Definition ncovers (s : sources) (i : nat) (b : bstate) : Prop :=
  Pn i /\
  (forall n d, node_at s i = Some n -> In d (node_deps n) -> Pn d) /\
  (forall t, node_at s i = Some (NTarget t) -> covers s i t b).

Lemma pn_keep_going cfg s sel b i t :
  cfg_failfast cfg = false -> existsb (Nat.eqb i) sel = true -> b_stop b = false ->
  node_at s i = Some (NTarget t) -> forallb (dep_ok b) (td_deps t) = true ->
  process_node H cfg s sel b i = process_target H cfg s i t b.
Proof.
  intros Hff Hs Hp Hn Hd. unfold process_node. rewrite Hs, Hp, Hn. cbn [negb node_deps]. rewrite Hd. cbn [negb].
  rewrite Hff. destruct (rt_status (get_rt (process_target H cfg s i t b) i)); reflexivity.
Qed.

Lemma pn_agree cfg s sel i b b' :
  cfg_mode cfg = LAll -> cfg_failfast cfg = false -> agree b b' -> ncovers s i b ->
  step_rel (forall t, node_at s i = Some (NTarget t) -> outs_need_cmd t = true)
           b b' (process_node H cfg s sel b i) (process_node H cfg s sel b' i).
Proof.
  intros Hm Hff Ha (Ci & Cdeps & Ct).
  set (G := forall t, node_at s i = Some (NTarget t) -> outs_need_cmd t = true).
  assert (Hmark : forall st, step_rel G b b' (mark b i st) (mark b' i st)).
  { intro st. apply step_rel_same; try reflexivity. apply agree_mark; assumption. }
  assert (Hsame : step_rel G b b' b b') by (apply step_rel_same; auto).
  destruct (existsb (Nat.eqb i) sel) eqn:Es.
  2:{ unfold process_node. rewrite Es. exact Hsame. }
  destruct (b_stop b) eqn:Ep.
  { unfold process_node. rewrite Es, <- (ag_stop _ _ Ha), Ep. apply Hmark. }
  destruct (node_at s i) as [n|] eqn:En.
  2:{ unfold process_node. rewrite Es, <- (ag_stop _ _ Ha), Ep, En. exact Hsame. }
  assert (Hdeps : forallb (dep_ok b') (node_deps n) = forallb (dep_ok b) (node_deps n)).
  { apply forallb_ext_in. intros d Hd. unfold dep_ok. rewrite (ag_rt _ _ Ha d (Cdeps n d eq_refl Hd)). reflexivity. }
  destruct (forallb (dep_ok b) (node_deps n)) eqn:Ed.
  2:{ unfold process_node. rewrite Es, <- (ag_stop _ _ Ha), Ep, En, Hdeps, Ed. apply Hmark. }
  destruct n as [t|l a].
  - rewrite !(pn_keep_going cfg s sel _ i t Hff Es) by (rewrite <- ?(ag_stop _ _ Ha); assumption).
    apply (step_rel_weaken (outs_need_cmd t = true)); [intro HG; apply HG; reflexivity|].
    apply pt_agree; [exact Hm | exact Ha | apply Ct; reflexivity].
  - unfold process_node. rewrite Es, <- (ag_stop _ _ Ha), Ep, En, Hdeps, Ed. apply Hmark.
Qed.

End Agree.

(* ================================================================== (2) frames: what one step leaves alone *)
Section Frame.
Variable H : str -> str.

(* everything outside the write footprint of target t (node i) is as before; K: the keys it may write *)
Record gframe (i : nat) (t : tdef) (K : str -> Prop) (b b1 : bstate) : Prop := mkGF {
  gf_len   : rt_len b1 = rt_len b;
  gf_stop  : b_stop b1 = b_stop b;
  gf_rt    : forall j, j <> i -> get_rt b1 j = get_rt b j;
  gf_ws    : forall p, not_own t p -> ws_get p (w_ws (b_world b1)) = ws_get p (w_ws (b_world b));
  gf_ext   : forall l, l <> td_label t -> label_in l (w_ext (b_world b1)) = label_in l (w_ext (b_world b));
  gf_taint : forall l, l <> td_label t -> label_in l (c_taint (b_cache b1)) = label_in l (c_taint (b_cache b));
  gf_res   : forall k, ~ K k -> rlookup k (c_results (b_cache b1)) = rlookup k (c_results (b_cache b))
}.

Lemma gframe_refl i t K b : gframe i t K b b.
Proof. constructor; auto. Qed.

Lemma gframe_trans i t K a b c : gframe i t K a b -> gframe i t K b c -> gframe i t K a c.
Proof.
  intros [A1 A2 A3 A4 A5 A6 A7] [B1 B2 B3 B4 B5 B6 B7]. constructor; try congruence.
  - intros j Hj. rewrite B3, A3; auto.
  - intros p Hp. rewrite B4, A4; auto.
  - intros l Hl. rewrite B5, A5; auto.
  - intros l Hl. rewrite B6, A6; auto.
  - intros k Hk. rewrite B7, A7; auto.
Qed.

Lemma gframe_set_rt i t K b r : gframe i t K b (set_rt b i r).
Proof.
  constructor; autorewrite with bst; auto. intros j Hj. apply get_rt_set_rt_other. auto.
Qed.

Lemma gframe_mark i t K b st : gframe i t K b (mark b i st).
Proof. unfold mark. apply gframe_set_rt. Qed.

Lemma gframe_pt_b0 i t K key b : gframe i t K b (pt_b0 i key b).
Proof. unfold pt_b0. apply gframe_set_rt. Qed.

Lemma gframe_exec_b0 i t K b : gframe i t K b (exec_b0 t b).
Proof. unfold exec_b0. destruct (null (td_cmd t)); constructor; auto. Qed.

Lemma gframe_set_world i t K b w :
  (forall p, not_own t p -> ws_get p (w_ws w) = ws_get p (w_ws (b_world b))) ->
  (forall l, l <> td_label t -> label_in l (w_ext w) = label_in l (w_ext (b_world b))) ->
  gframe i t K b (set_world b w).
Proof. intros W1 W2. constructor; auto. Qed.

Lemma gframe_untaint i t K tn b : gframe i t K b (untaint tn t b).
Proof.
  unfold untaint. destruct tn; [|apply gframe_refl]. constructor; auto.
  cbn. intros l Hl. apply Build_single_proofs.label_in_remove_other. exact Hl.
Qed.

Lemma gframe_oc_state cfg i t (K : str -> Prop) key b res cas :
  K key -> gframe i t K b (oc_state cfg i key b res cas).
Proof.
  intro Hk. unfold oc_state. constructor; autorewrite with bst; auto.
  - intros j Hj. rewrite get_rt_set_rt_other by auto. reflexivity.
  - cbn [b_cache set_cache c_results]. intros k Hnk. destruct (cfg_cache cfg); [|reflexivity].
    apply rlookup_set_other. intro E. subst. auto.
Qed.

Lemma exec_ran_frame s t b w1 :
  exec_ran s t b = Some w1 ->
  (forall p, not_own t p -> ws_get p (w_ws w1) = ws_get p (w_ws (b_world b))) /\
  (forall l, l <> td_label t -> label_in l (w_ext w1) = label_in l (w_ext (b_world b))).
Proof.
  unfold exec_ran. destruct (null (td_cmd t)); intro E.
  - inversion E; subst. auto.
  - split; [intros p Hp; eapply run_command_frame; eauto | apply (run_command_ext s t _ _ E)].
Qed.

Lemma execute_gframe cfg s i t (K : str -> Prop) key tn b :
  K key -> gframe i t K b (snd (execute H cfg s i t key tn b)).
Proof.
  intro Hk. rewrite (execute_eq H).
  assert (Hset : forall w, (forall p, not_own t p -> ws_get p (w_ws w) = ws_get p (w_ws (b_world b))) ->
                           (forall l, l <> td_label t -> label_in l (w_ext w) = label_in l (w_ext (b_world b))) ->
                           gframe i t K b (set_world (exec_b0 t b) w)).
  { intros w W1 W2. eapply gframe_trans; [apply gframe_exec_b0|].
    apply gframe_set_world; rewrite exec_b0_world; assumption. }
  destruct (exec_ran s t b) as [w1|] eqn:E1.
  - destruct (exec_ran_frame s t b w1 E1) as [W1 W2].
    destruct (check_ok w1 t); [|cbn [snd]; apply Hset; assumption].
    destruct (present_digests H t (td_outs t) (w_ws w1)) as [ds|]; [|cbn [snd]; apply Hset; assumption].
    cbn [snd]. unfold exec_done.
    eapply gframe_trans; [apply Hset; eassumption|].
    eapply gframe_trans; [apply gframe_oc_state; exact Hk | apply gframe_untaint].
  - cbn [snd]. apply Hset.
    + intros p Hp. apply run_command_failed_frame, Hp.
    + intros l _. rewrite Build_single_proofs.run_command_failed_world_ext. reflexivity.
Qed.

Lemma load_outputs_gframe i t K r b : gframe i t K b (snd (load_outputs H i t r b)).
Proof.
  unfold load_outputs. destruct (rt_loaded (get_rt b i)); [apply gframe_refl|].
  destruct (negb (outputs_match t r)); [apply gframe_refl|].
  destruct (load_all H (b_cache b) t (r_outs r) (w_ws (b_world b))) as [ok ws'] eqn:El.
  assert (Hw : gframe i t K b (set_world b (mkWorld ws' (w_ext (b_world b))))).
  { apply gframe_set_world; cbn [w_ws w_ext]; [|auto].
    intros p Hp. eapply load_all_frame; [exact El | exact Hp]. }
  destruct ok; cbn [snd]; [|exact Hw].
  eapply gframe_trans; [exact Hw | apply gframe_set_rt].
Qed.

Definition own_key (s : sources) (t : tdef) (b : bstate) (k : str) : Prop :=
  exists dh, dep_hashes s b (td_deps t) = Some dh /\ k = pt_key H s t dh.

Lemma pt_gframe cfg s i t b :
  cfg_mode cfg = LAll -> gframe i t (own_key s t b) b (process_target H cfg s i t b).
Proof.
  intro Hm. rewrite (pt_LAll H) by exact Hm. unfold own_key.
  destruct (dep_hashes s b (td_deps t)) as [dh|]; [|apply gframe_mark].
  cbv zeta. set (key := pt_key H s t dh). set (K := fun k => exists dh0, Some dh = Some dh0 /\ k = pt_key H s t dh0).
  assert (Hk : K key) by (exists dh; auto).
  assert (Htail : forall bm, gframe i t K b bm -> gframe i t K b (exec_tail H cfg s i t key (pt_tainted t b) bm)).
  { intros bm Hbm. unfold exec_tail.
    pose proof (execute_gframe cfg s i t K key (pt_tainted t b) bm Hk) as He.
    destruct (execute H cfg s i t key (pt_tainted t b) bm) as [ok b3]. cbn [snd] in He.
    eapply gframe_trans; [exact Hbm|]. eapply gframe_trans; [exact He | apply gframe_mark]. }
  destruct (rlookup key (c_results (b_cache b))) as [res|]; [|apply Htail, gframe_pt_b0].
  destruct (hit_cond cfg t b); [|apply Htail, gframe_pt_b0].
  pose proof (load_outputs_gframe i t K res (pt_b0 i key b)) as Hl.
  destruct (load_outputs H i t res (pt_b0 i key b)) as [hit b1]. cbn [snd] in Hl.
  assert (Hb1 : gframe i t K b b1) by (eapply gframe_trans; [apply gframe_pt_b0 | exact Hl]).
  destruct hit; [|apply Htail, Hb1].
  eapply gframe_trans; [exact Hb1 | apply gframe_mark].
Qed.

(* ---------------------------------------------------------------- the frame of one node of the walk *)
Definition own_paths (s : sources) (i : nat) : list str :=
  match node_at s i with Some n => node_paths n | None => [] end.

Record nframe (s : sources) (i : nat) (b b1 : bstate) : Prop := mkNF {
  nfr_len   : rt_len b1 = rt_len b;
  nfr_stop  : b_stop b1 = b_stop b;
  nfr_rt    : forall j, j <> i -> get_rt b1 j = get_rt b j;
  nfr_ws    : forall p, ~ In p (own_paths s i) -> ws_get p (w_ws (b_world b1)) = ws_get p (w_ws (b_world b));
  nfr_ext   : forall l, (forall t, node_at s i = Some (NTarget t) -> l <> td_label t) ->
              label_in l (w_ext (b_world b1)) = label_in l (w_ext (b_world b));
  nfr_taint : forall l, (forall t, node_at s i = Some (NTarget t) -> l <> td_label t) ->
              label_in l (c_taint (b_cache b1)) = label_in l (c_taint (b_cache b));
  nfr_res   : forall k, (forall t, node_at s i = Some (NTarget t) -> ~ own_key s t b k) ->
              rlookup k (c_results (b_cache b1)) = rlookup k (c_results (b_cache b))
}.

Lemma nframe_refl s i b : nframe s i b b.
Proof. constructor; auto. Qed.

Lemma nframe_mark s i b st : nframe s i b (mark b i st).
Proof. constructor; autorewrite with bst; auto. intros j Hj. apply get_rt_mark_other. auto. Qed.

Lemma nframe_of_gframe s i t b b1 :
  node_at s i = Some (NTarget t) -> gframe i t (own_key s t b) b b1 -> nframe s i b b1.
Proof.
  intros Hn [G1 G2 G3 G4 G5 G6 G7]. constructor; [exact G1|exact G2|exact G3| | | | ].
  - intros p Hp. apply G4. intros o Ho E. apply Hp. unfold own_paths. rewrite Hn. cbn [node_paths].
    rewrite E. apply in_map, Ho.
  - intros l Hl. apply G5, (Hl t Hn).
  - intros l Hl. apply G6, (Hl t Hn).
  - intros k Hk. apply G7, (Hk t Hn).
Qed.

Lemma pn_nframe cfg s sel b i :
  cfg_mode cfg = LAll -> cfg_failfast cfg = false -> nframe s i b (process_node H cfg s sel b i).
Proof.
  intros Hm Hff.
  destruct (existsb (Nat.eqb i) sel) eqn:Es.
  2:{ unfold process_node. rewrite Es. apply nframe_refl. }
  destruct (b_stop b) eqn:Ep.
  { unfold process_node. rewrite Es, Ep. apply nframe_mark. }
  destruct (node_at s i) as [n|] eqn:En.
  2:{ unfold process_node. rewrite Es, Ep, En. apply nframe_refl. }
  destruct (forallb (dep_ok b) (node_deps n)) eqn:Ed.
  2:{ unfold process_node. rewrite Es, Ep, En, Ed. apply nframe_mark. }
  destruct n as [t|l a].
  - rewrite (pn_keep_going H cfg s sel b i t Hff Es Ep En Ed).
    apply (nframe_of_gframe s i t _ _ En). apply pt_gframe, Hm.
  - unfold process_node. rewrite Es, Ep, En, Ed. apply nframe_mark.
Qed.

End Frame.

(* ================================================================== (3) beq: the states are observably equal *)
Record beq (b b' : bstate) : Prop := mkBeq {
  be_rt    : b_rt b = b_rt b';
  be_stop  : b_stop b = b_stop b';
  be_exec  : Permutation (b_exec b) (b_exec b');
  be_ws    : forall p, ws_get p (w_ws (b_world b)) = ws_get p (w_ws (b_world b'));
  be_ext   : forall l, label_in l (w_ext (b_world b)) = label_in l (w_ext (b_world b'));
  be_taint : forall l, label_in l (c_taint (b_cache b)) = label_in l (c_taint (b_cache b'));
  be_res   : forall k, rlookup k (c_results (b_cache b)) = rlookup k (c_results (b_cache b'));
  be_cas   : forall d, alookup d (c_cas (b_cache b)) = alookup d (c_cas (b_cache b'))
}.

Lemma beq_refl b : beq b b.
Proof. constructor; auto. Qed.

Lemma beq_sym b b' : beq b b' -> beq b' b.
Proof. intros [B1 B2 B3 B4 B5 B6 B7 B8]. constructor; auto. apply Permutation_sym, B3. Qed.

Lemma beq_trans a b c : beq a b -> beq b c -> beq a c.
Proof.
  intros [A1 A2 A3 A4 A5 A6 A7 A8] [B1 B2 B3 B4 B5 B6 B7 B8]. constructor; try congruence.
  eapply Permutation_trans; eauto.
Qed.

Definition ptrue {A} (_ : A) : Prop := True.
Notation agree_all := (agree ptrue ptrue ptrue ptrue ptrue).

Lemma beq_agree b b' : beq b b' -> agree_all b b'.
Proof.
  intros [B1 B2 B3 B4 B5 B6 B7 B8]. constructor; auto.
  - unfold rt_len. rewrite B1. reflexivity.
  - intros j _. unfold get_rt. rewrite B1. reflexivity.
Qed.

Lemma agree_beq b b' : agree_all b b' -> Permutation (b_exec b) (b_exec b') -> beq b b'.
Proof.
  intros [A1 A2 A3 A4 A5 A6 A7 A8] Hx.
  constructor; [|exact A2|exact Hx|intro x; apply A4|intro x; apply A5|intro x; apply A6|intro x; apply A7|intro x; apply A8];
    try exact I.
  apply (nth_ext _ _ rt0 rt0); [exact A1|]. intros n _. apply (A3 n I).
Qed.

Section Sched.
Variable H : str -> str.
Hypothesis H_inj : forall a b, H a = H b -> a = b.
Variables (cfg : config) (s : sources) (sel : list nat).
Hypothesis Hm : cfg_mode cfg = LAll.
Hypothesis Hff : cfg_failfast cfg = false.

Definition step (b : bstate) (i : nat) : bstate := process_node H cfg s sel b i.
Definition runl (l : list nat) (b : bstate) : bstate := fold_left step l b.

(* ---------------------------------------------------------------- process_node respects beq *)
Lemma ncovers_all i b : ncovers H ptrue ptrue ptrue ptrue ptrue s i b.
Proof. unfold ncovers, covers, ptrue. repeat split; auto. Qed.

Theorem step_congr b b' k : beq b b' -> beq (step b k) (step b' k).
Proof.
  intro Hb.
  destruct (pn_agree H H_inj ptrue ptrue ptrue ptrue ptrue cfg s sel k b b' Hm Hff (beq_agree _ _ Hb) (ncovers_all k b))
    as (A & X & D & (S1 & S2 & S3 & S4) & _).
  apply agree_beq; [exact A|]. unfold step. rewrite S1, S2. apply Permutation_app_tail. exact (be_exec _ _ Hb).
Qed.

Lemma runl_congr l : forall b b', beq b b' -> beq (runl l b) (runl l b').
Proof.
  induction l as [|k l IH]; intros b b' Hb; [exact Hb|]. cbn [runl fold_left]. apply IH, step_congr, Hb.
Qed.

(* what a step adds: started commands X, blobs D (first entry wins) *)
Lemma step_delta b k :
  exists X D, b_exec (step b k) = b_exec b ++ X /\ cas_ext (step b k) b D.
Proof.
  destruct (pn_agree H H_inj ptrue ptrue ptrue ptrue ptrue cfg s sel k b b Hm Hff (beq_agree _ _ (beq_refl b)) (ncovers_all k b))
    as (_ & X & D & (S1 & _ & S3 & _) & _).
  exists X, D. auto.
Qed.

Lemma step_cas_mono b k d x :
  alookup d (c_cas (b_cache b)) = Some x -> alookup d (c_cas (b_cache (step b k))) = Some x.
Proof. intro Hx. destruct (step_delta b k) as (X & D & _ & Hc). rewrite Hc, Hx. reflexivity. Qed.

(* ---------------------------------------------------------------- what a node reads and writes *)
Definition rdeps (ds : list nat) : list nat :=
  flat_map (fun d => match resolve s d with Some (j, _) => [j] | None => [] end) ds.

(* the nodes whose runtime record (status, output hash) or outputs node i looks at *)
Definition reads (i : nat) : list nat :=
  match node_at s i with
  | Some (NTarget t) => td_deps t ++ rdeps (td_deps t)
  | Some (NAlias _ a) => [a]
  | None => []
  end.

Definition indep (i j : nat) : Prop := i <> j /\ ~ In j (reads i) /\ ~ In i (reads j).

Definition labels_apart (i j : nat) : Prop :=
  forall ti tj, node_at s i = Some (NTarget ti) -> node_at s j = Some (NTarget tj) -> td_label ti <> td_label tj.

Definition keys_apart_at (b : bstate) (i j : nat) : Prop :=
  forall ti tj dh dh', node_at s i = Some (NTarget ti) -> node_at s j = Some (NTarget tj) ->
    dep_hashes s b (td_deps ti) = Some dh -> dep_hashes s b (td_deps tj) = Some dh' ->
    pt_key H s ti dh <> pt_key H s tj dh'.

Definition cmd_ok (i : nat) : Prop := forall t, node_at s i = Some (NTarget t) -> outs_need_cmd t = true.

Lemma indep_sym i j : indep i j -> indep j i.
Proof. intros (A & B & C). repeat split; auto. Qed.
Lemma labels_apart_sym i j : labels_apart i j -> labels_apart j i.
Proof. intros Hl tj ti Hj Hi E. apply (Hl ti tj Hi Hj). auto. Qed.
Lemma keys_apart_at_sym b i j : keys_apart_at b i j -> keys_apart_at b j i.
Proof. intros Hk tj ti dh' dh Hj Hi Dj Di E. apply (Hk ti tj dh dh' Hi Hj Di Dj). auto. Qed.

(* the footprint of node i in state b *)
Definition Fn (i : nat) (x : nat) : Prop := x = i \/ In x (reads i).
Definition Fp (i : nat) (p : str) : Prop :=
  In p (own_paths s i) \/
  exists t d j dt o, node_at s i = Some (NTarget t) /\ In d (td_deps t) /\ resolve s d = Some (j, dt) /\
                     In o (td_outs dt) /\ p = out_path dt o.
Definition Fl (i : nat) (l : label) : Prop := exists t, node_at s i = Some (NTarget t) /\ l = td_label t.
Definition Fk (i : nat) (b : bstate) (k : str) : Prop :=
  exists t, node_at s i = Some (NTarget t) /\ own_key H s t b k.
Definition Fd (b : bstate) (d : str) : Prop := alookup d (c_cas (b_cache b)) <> None.

Lemma in_rdeps d j dt ds : In d ds -> resolve s d = Some (j, dt) -> In j (rdeps ds).
Proof. intros Hd Hr. unfold rdeps. apply in_flat_map. exists d. split; [exact Hd|]. rewrite Hr. left; reflexivity. Qed.

Lemma ncovers_fp i b :
  cache_complete (b_cache b) -> ncovers H (Fp i) (Fl i) (Fk i b) (Fd b) (Fn i) s i b.
Proof.
  intro Hcc. split; [left; reflexivity|]. split.
  - intros n d En Hd. right. unfold reads. rewrite En. destruct n as [t|l a]; [apply in_or_app; left|]; exact Hd.
  - intros t Hn. unfold covers. split; [left; reflexivity|]. split; [exists t; auto|]. split; [|split; [|split; [|split]]].
    + intros o Ho. left. unfold own_paths. rewrite Hn. cbn [node_paths]. apply in_map, Ho.
    + intros d j dt Hd Hr. right. unfold reads. rewrite Hn. apply in_or_app. right. eapply in_rdeps; eauto.
    + intros d j dt o Hd Hr Ho. right. exists t, d, j, dt, o. auto.
    + intros dh Hdh. exists t. split; [exact Hn|]. exists dh. auto.
    + intros dh res def dg _ Hr Hin. apply (Hcc _ _ Hr def dg Hin).
Qed.

Lemma own_paths_disjoint i j p :
  no_overwrite s -> i <> j -> In p (own_paths s i) -> In p (own_paths s j) -> False.
Proof.
  unfold own_paths. intros Hno Hij Hi Hj.
  destruct (node_at s i) as [ni|] eqn:Ei; [|destruct Hi].
  destruct (node_at s j) as [nj|] eqn:Ej; [|destruct Hj].
  exact (NoDup_flat_map_disjoint node_paths _ i j _ _ p Hno Ei Ej Hij Hi Hj).
Qed.

(* a step of j leaves the footprint of an independent node i alone *)
Lemma frame_agree i j b bj :
  indep i j -> no_overwrite s -> labels_apart i j -> keys_apart_at b i j ->
  nframe H s j b bj ->
  (forall d x, alookup d (c_cas (b_cache b)) = Some x -> alookup d (c_cas (b_cache bj)) = Some x) ->
  agree (Fp i) (Fl i) (Fk i b) (Fd b) (Fn i) b bj.
Proof.
  intros (Hne & Hnj & Hni) Hno Hlab Hkeys [N1 N2 N3 N4 N5 N6 N7] Hmono. constructor.
  - symmetry; exact N1.
  - symmetry; exact N2.
  - intros x Hx. symmetry. apply N3. intro E. subst x. destruct Hx as [E|Hx]; [congruence | auto].
  - intros p Hp. symmetry. apply N4. intro Hpj.
    destruct Hp as [Hp|(t & d & j' & dt & o & Hn & Hd & Hr & Ho & ->)].
    + exact (own_paths_disjoint i j p Hno Hne Hp Hpj).
    + assert (Hj' : In j' (reads i)).
      { unfold reads. rewrite Hn. apply in_or_app. right. eapply in_rdeps; eauto. }
      assert (Hne' : j' <> j) by (intro; subst; auto).
      apply (own_paths_disjoint j' j (out_path dt o) Hno Hne'); [|exact Hpj].
      unfold own_paths. rewrite (Build_c15_proofs.resolve_target s d j' dt Hr). cbn [node_paths]. apply in_map, Ho.
  - intros l (t & Hn & ->). symmetry. apply N5. intros tj Hj. apply (Hlab t tj Hn Hj).
  - intros l (t & Hn & ->). symmetry. apply N6. intros tj Hj. apply (Hlab t tj Hn Hj).
  - intros k (t & Hn & dh & Hdh & ->). symmetry. apply N7. intros tj Hj (dh' & Hdh' & E).
    apply (Hkeys t tj dh dh' Hn Hj Hdh Hdh' E).
  - intros d Hd. unfold Fd in Hd. destruct (alookup d (c_cas (b_cache b))) as [x|] eqn:E; [|congruence].
    symmetry. apply Hmono, E.
Qed.

Lemma dep_hashes_other i j tj b bi :
  ~ In i (reads j) -> node_at s j = Some (NTarget tj) ->
  (forall x, x <> i -> get_rt bi x = get_rt b x) ->
  dep_hashes s bi (td_deps tj) = dep_hashes s b (td_deps tj).
Proof.
  intros Hni Hj Hrt. apply dep_hashes_agree. intros d j' dt Hd Hr. apply Hrt. intro E. subst j'.
  apply Hni. unfold reads. rewrite Hj. apply in_or_app. right. eapply in_rdeps; eauto.
Qed.

Lemma own_key_other i j tj b bi k :
  ~ In i (reads j) -> node_at s j = Some (NTarget tj) ->
  (forall x, x <> i -> get_rt bi x = get_rt b x) ->
  (own_key H s tj bi k <-> own_key H s tj b k).
Proof.
  intros Hni Hj Hrt. unfold own_key. rewrite (dep_hashes_other i j tj b bi Hni Hj Hrt). tauto.
Qed.

Lemma keys_apart_at_other b bi i j :
  indep i j -> (forall x, x <> i -> get_rt bi x = get_rt b x) -> keys_apart_at b i j ->
  forall ti tj k, node_at s i = Some (NTarget ti) -> node_at s j = Some (NTarget tj) ->
                  own_key H s ti b k -> own_key H s tj bi k -> False.
Proof.
  intros (Hne & Hnj & Hni) Hrt Hk ti tj k Hi Hj (dh & Hdh & ->) Hoj.
  apply (own_key_other i j tj b bi _ Hni Hj Hrt) in Hoj. destruct Hoj as (dh' & Hdh' & E).
  exact (Hk ti tj dh dh' Hi Hj Hdh Hdh' E).
Qed.

(* the footprint predicates are decidable *)
Lemma Fl_dec i l : Fl i l \/ ~ Fl i l.
Proof.
  unfold Fl. destruct (node_at s i) as [[t|l0 a]|] eqn:En.
  - destruct (lab_eq_dec l (td_label t)) as [E|E]; [left; exists t; auto|].
    right. intros (t' & Ht & E'). inversion Ht; subst. auto.
  - right. intros (t' & Ht & _). discriminate.
  - right. intros (t' & Ht & _). discriminate.
Qed.

Lemma Fk_dec i b k : Fk i b k \/ ~ Fk i b k.
Proof.
  unfold Fk, own_key. destruct (node_at s i) as [[t|l0 a]|] eqn:En.
  - destruct (dep_hashes s b (td_deps t)) as [dh|] eqn:Ed.
    + destruct (str_eq_dec k (pt_key H s t dh)) as [E|E]; [left; exists t; split; [reflexivity|]; exists dh; auto|].
      right. intros (t' & Ht & dh' & Hd & E'). inversion Ht; subst t'. rewrite Ed in Hd. inversion Hd; subst. auto.
    + right. intros (t' & Ht & dh' & Hd & _). inversion Ht; subst t'. rewrite Ed in Hd. discriminate.
  - right. intros (t' & Ht & _). discriminate.
  - right. intros (t' & Ht & _). discriminate.
Qed.

(* ---------------------------------------------------------------- two independent steps commute *)
Theorem swap_independent b i j :
  indep i j -> no_overwrite s -> labels_apart i j -> keys_apart_at b i j ->
  cache_complete (b_cache b) -> cmd_ok i -> cmd_ok j ->
  beq (step (step b i) j) (step (step b j) i).
Proof.
  intros Hind Hno Hlab Hkeys Hcc Hci Hcj. unfold step.
  pose proof (indep_sym _ _ Hind) as Hind'. destruct Hind as (Hne & Hnj & Hni).
  assert (Hne' : j <> i) by auto.
  set (bi := process_node H cfg s sel b i). set (bj := process_node H cfg s sel b j).
  set (bij := process_node H cfg s sel bi j). set (bji := process_node H cfg s sel bj i).
  pose proof (pn_nframe H cfg s sel b i Hm Hff) as Ni. fold bi in Ni.
  pose proof (pn_nframe H cfg s sel b j Hm Hff) as Nj. fold bj in Nj.
  pose proof (pn_nframe H cfg s sel bi j Hm Hff) as Nij. fold bij in Nij.
  pose proof (pn_nframe H cfg s sel bj i Hm Hff) as Nji. fold bji in Nji.
  pose proof (nfr_rt _ _ _ _ _ Ni) as Ri. pose proof (nfr_rt _ _ _ _ _ Nj) as Rj.
  assert (Ai0 : agree (Fp i) (Fl i) (Fk i b) (Fd b) (Fn i) b bj).
  { apply (frame_agree i j b bj); [repeat split; assumption | exact Hno | exact Hlab | exact Hkeys | exact Nj |].
    intros d x. apply (step_cas_mono b j). }
  assert (Aj0 : agree (Fp j) (Fl j) (Fk j b) (Fd b) (Fn j) b bi).
  { apply (frame_agree j i b bi); [exact Hind' | exact Hno | apply labels_apart_sym, Hlab | apply keys_apart_at_sym, Hkeys | exact Ni |].
    intros d x. apply (step_cas_mono b i). }
  destruct (pn_agree H H_inj _ _ _ _ _ cfg s sel i b bj Hm Hff Ai0 (ncovers_fp i b Hcc))
    as (Ai & Xi & Di & (Xi1 & Xi2 & Ci1 & Ci2) & Bi).
  destruct (pn_agree H H_inj _ _ _ _ _ cfg s sel j b bi Hm Hff Aj0 (ncovers_fp j b Hcc))
    as (Aj & Xj & Dj & (Xj1 & Xj2 & Cj1 & Cj2) & Bj).
  fold bi bji in Ai, Xi1, Xi2, Ci1, Ci2. fold bj bij in Aj, Xj1, Xj2, Cj1, Cj2.
  specialize (Bi Hci). specialize (Bj Hcj).
  apply agree_beq.
  2:{ rewrite Xj2, Xi1, Xi2, Xj1, <- !app_assoc. apply Permutation_app_head, Permutation_app_comm. }
  constructor.
  - rewrite (nfr_len _ _ _ _ _ Nij), (nfr_len _ _ _ _ _ Ni), (nfr_len _ _ _ _ _ Nji), (nfr_len _ _ _ _ _ Nj). reflexivity.
  - rewrite (nfr_stop _ _ _ _ _ Nij), (nfr_stop _ _ _ _ _ Ni), (nfr_stop _ _ _ _ _ Nji), (nfr_stop _ _ _ _ _ Nj). reflexivity.
  - intros x _. destruct (Nat.eq_dec x i) as [->|Hxi]; [|destruct (Nat.eq_dec x j) as [->|Hxj]].
    + rewrite (nfr_rt _ _ _ _ _ Nij i Hne). apply (ag_rt _ _ _ _ _ _ _ Ai). left; reflexivity.
    + rewrite (nfr_rt _ _ _ _ _ Nji j Hne'). symmetry. apply (ag_rt _ _ _ _ _ _ _ Aj). left; reflexivity.
    + rewrite (nfr_rt _ _ _ _ _ Nij x Hxj), (Ri x Hxi), (nfr_rt _ _ _ _ _ Nji x Hxi), (Rj x Hxj). reflexivity.
  - intros p _. destruct (in_dec str_eq_dec p (own_paths s i)) as [Hpi|Hpi];
      [|destruct (in_dec str_eq_dec p (own_paths s j)) as [Hpj|Hpj]].
    + assert (Hpj : ~ In p (own_paths s j)) by (intro Hpj; exact (own_paths_disjoint i j p Hno Hne Hpi Hpj)).
      rewrite (nfr_ws _ _ _ _ _ Nij p Hpj). apply (ag_ws _ _ _ _ _ _ _ Ai). left; exact Hpi.
    + rewrite (nfr_ws _ _ _ _ _ Nji p Hpi). symmetry. apply (ag_ws _ _ _ _ _ _ _ Aj). left; exact Hpj.
    + rewrite (nfr_ws _ _ _ _ _ Nij p Hpj), (nfr_ws _ _ _ _ _ Ni p Hpi), (nfr_ws _ _ _ _ _ Nji p Hpi),
        (nfr_ws _ _ _ _ _ Nj p Hpj). reflexivity.
  - intros l _. destruct (Fl_dec i l) as [Hli|Hli]; [|destruct (Fl_dec j l) as [Hlj|Hlj]].
    + assert (Hlj : forall t, node_at s j = Some (NTarget t) -> l <> td_label t).
      { destruct Hli as (ti & Hti & ->). intros tj Htj. apply (Hlab ti tj Hti Htj). }
      rewrite (nfr_ext _ _ _ _ _ Nij l Hlj). apply (ag_ext _ _ _ _ _ _ _ Ai), Hli.
    + assert (Hli' : forall t, node_at s i = Some (NTarget t) -> l <> td_label t)
        by (intros t Ht E; apply Hli; exists t; auto).
      rewrite (nfr_ext _ _ _ _ _ Nji l Hli'). symmetry. apply (ag_ext _ _ _ _ _ _ _ Aj), Hlj.
    + assert (Hli' : forall t, node_at s i = Some (NTarget t) -> l <> td_label t)
        by (intros t Ht E; apply Hli; exists t; auto).
      assert (Hlj' : forall t, node_at s j = Some (NTarget t) -> l <> td_label t)
        by (intros t Ht E; apply Hlj; exists t; auto).
      rewrite (nfr_ext _ _ _ _ _ Nij l Hlj'), (nfr_ext _ _ _ _ _ Ni l Hli'), (nfr_ext _ _ _ _ _ Nji l Hli'),
        (nfr_ext _ _ _ _ _ Nj l Hlj'). reflexivity.
  - intros l _. destruct (Fl_dec i l) as [Hli|Hli]; [|destruct (Fl_dec j l) as [Hlj|Hlj]].
    + assert (Hlj : forall t, node_at s j = Some (NTarget t) -> l <> td_label t).
      { destruct Hli as (ti & Hti & ->). intros tj Htj. apply (Hlab ti tj Hti Htj). }
      rewrite (nfr_taint _ _ _ _ _ Nij l Hlj). apply (ag_taint _ _ _ _ _ _ _ Ai), Hli.
    + assert (Hli' : forall t, node_at s i = Some (NTarget t) -> l <> td_label t)
        by (intros t Ht E; apply Hli; exists t; auto).
      rewrite (nfr_taint _ _ _ _ _ Nji l Hli'). symmetry. apply (ag_taint _ _ _ _ _ _ _ Aj), Hlj.
    + assert (Hli' : forall t, node_at s i = Some (NTarget t) -> l <> td_label t)
        by (intros t Ht E; apply Hli; exists t; auto).
      assert (Hlj' : forall t, node_at s j = Some (NTarget t) -> l <> td_label t)
        by (intros t Ht E; apply Hlj; exists t; auto).
      rewrite (nfr_taint _ _ _ _ _ Nij l Hlj'), (nfr_taint _ _ _ _ _ Ni l Hli'), (nfr_taint _ _ _ _ _ Nji l Hli'),
        (nfr_taint _ _ _ _ _ Nj l Hlj'). reflexivity.
  - intros k _.
    assert (Hto_bi : forall t, node_at s j = Some (NTarget t) -> ~ own_key H s t b k -> ~ own_key H s t bi k).
    { intros t Ht Hn Ho. apply Hn. apply (own_key_other i j t b bi k Hni Ht Ri). exact Ho. }
    assert (Hto_bj : forall t, node_at s i = Some (NTarget t) -> ~ own_key H s t b k -> ~ own_key H s t bj k).
    { intros t Ht Hn Ho. apply Hn. apply (own_key_other j i t b bj k Hnj Ht Rj). exact Ho. }
    destruct (Fk_dec i b k) as [Hki|Hki]; [|destruct (Fk_dec j b k) as [Hkj|Hkj]].
    + assert (Hkj : forall t, node_at s j = Some (NTarget t) -> ~ own_key H s t bi k).
      { intros tj Htj Hoj. destruct Hki as (ti & Hti & Hoi).
        exact (keys_apart_at_other b bi i j (conj Hne (conj Hnj Hni)) Ri Hkeys ti tj k Hti Htj Hoi Hoj). }
      rewrite (nfr_res _ _ _ _ _ Nij k Hkj). apply (ag_res _ _ _ _ _ _ _ Ai), Hki.
    + assert (Hki' : forall t, node_at s i = Some (NTarget t) -> ~ own_key H s t bj k).
      { intros ti Hti Hoi. destruct Hkj as (tj & Htj & Hoj).
        exact (keys_apart_at_other b bj j i Hind' Rj (keys_apart_at_sym _ _ _ Hkeys) tj ti k Htj Hti Hoj Hoi). }
      rewrite (nfr_res _ _ _ _ _ Nji k Hki'). symmetry. apply (ag_res _ _ _ _ _ _ _ Aj), Hkj.
    + assert (Hki' : forall t, node_at s i = Some (NTarget t) -> ~ own_key H s t b k)
        by (intros t Ht Ho; apply Hki; exists t; auto).
      assert (Hkj' : forall t, node_at s j = Some (NTarget t) -> ~ own_key H s t b k)
        by (intros t Ht Ho; apply Hkj; exists t; auto).
      rewrite (nfr_res _ _ _ _ _ Nij k (fun t Ht => Hto_bi t Ht (Hkj' t Ht))), (nfr_res _ _ _ _ _ Ni k Hki'),
        (nfr_res _ _ _ _ _ Nji k (fun t Ht => Hto_bj t Ht (Hki' t Ht))), (nfr_res _ _ _ _ _ Nj k Hkj'). reflexivity.
  - intros d _. rewrite (Cj2 d), (Ci1 d), (Ci2 d), (Cj1 d).
    destruct (alookup d (c_cas (b_cache b))); cbn [orelse]; [reflexivity|].
    destruct (alookup d Di) as [x|] eqn:E1; destruct (alookup d Dj) as [y|] eqn:E2; cbn [orelse]; try reflexivity.
    f_equal. apply (blob_ok_fun H H_inj d); [apply Bi | apply Bj]; assumption.
Qed.

(* ================================================================== (4) orders *)
(* static guards on the snapshot *)
Definition labels_distinct : Prop :=
  forall i j ti tj, i <> j -> node_at s i = Some (NTarget ti) -> node_at s j = Some (NTarget tj) ->
                    td_label ti <> td_label tj.
Definition keys_apart : Prop :=
  forall i j ti tj dh dh', i <> j -> node_at s i = Some (NTarget ti) -> node_at s j = Some (NTarget tj) ->
                           pt_key H s ti dh <> pt_key H s tj dh'.
Definition cmds_ok : Prop := forall i, cmd_ok i.

Record guards : Prop := mkGuards {
  g_no   : no_overwrite s;
  g_lab  : labels_distinct;
  g_keys : keys_apart;
  g_cmd  : cmds_ok
}.

Lemma swap_guarded b i j :
  guards -> indep i j -> cache_complete (b_cache b) -> beq (step (step b i) j) (step (step b j) i).
Proof.
  intros [G1 G2 G3 G4] Hind Hcc. pose proof Hind as (Hne & _).
  apply swap_independent; auto.
  - intros ti tj Hi Hj. apply (G2 i j ti tj Hne Hi Hj).
  - intros ti tj dh dh' Hi Hj _ _. apply (G3 i j ti tj dh dh' Hne Hi Hj).
Qed.

Lemma step_cc b k : cache_complete (b_cache b) -> cache_complete (b_cache (step b k)).
Proof. apply process_node_cc. Qed.

Lemma runl_cc l : forall b, cache_complete (b_cache b) -> cache_complete (b_cache (runl l b)).
Proof. induction l as [|k l IH]; intros b Hcc; [exact Hcc|]. cbn [runl fold_left]. apply IH, step_cc, Hcc. Qed.

Lemma runl_app l1 l2 b : runl (l1 ++ l2) b = runl l2 (runl l1 b).
Proof. apply fold_left_app. Qed.

Lemma runl_cons x l b : runl (x :: l) b = runl l (step b x).
Proof. reflexivity. Qed.

(* a node that is independent of everything before it can be moved to the front *)
Lemma run_move_front : guards -> forall p b x,
  (forall y, In y p -> indep x y) -> cache_complete (b_cache b) ->
  beq (runl (p ++ [x]) b) (runl (x :: p) b).
Proof.
  intro HG. induction p as [|y p IH]; intros b x Hind Hcc; [apply beq_refl|].
  cbn [app]. rewrite !runl_cons.
  eapply beq_trans.
  - apply IH; [intros z Hz; apply Hind; right; exact Hz | apply step_cc, Hcc].
  - rewrite runl_cons. apply runl_congr. apply swap_guarded; [exact HG | | exact Hcc].
    apply indep_sym, Hind. left; reflexivity.
Qed.

(* compatible with the read relation: nothing a node reads comes after it; no repetition *)
Fixpoint topo (l : list nat) : Prop :=
  match l with
  | [] => True
  | x :: l' => ~ In x l' /\ (forall d, In d (reads x) -> ~ In d l') /\ topo l'
  end.

Lemma topo_remove x : forall p q, topo (p ++ x :: q) -> topo (p ++ q).
Proof.
  induction p as [|y p IH]; intros q Ht; cbn [app topo] in *.
  - tauto.
  - destruct Ht as (H1 & H2 & H3). split; [|split].
    + intro Hin. apply H1. apply in_app_or in Hin. apply in_or_app. destruct Hin; [left|right;right]; assumption.
    + intros d Hd Hin. apply (H2 d Hd). apply in_app_or in Hin. apply in_or_app.
      destruct Hin; [left|right;right]; assumption.
    + apply IH, H3.
Qed.

Lemma topo_before x y : forall p q, topo (p ++ x :: q) -> In y p -> y <> x /\ ~ In x (reads y).
Proof.
  induction p as [|y0 p IH]; intros q Ht Hy; [destruct Hy|]. cbn [app topo] in Ht.
  destruct Ht as (H1 & H2 & H3).
  assert (Hx : In x (p ++ x :: q)) by (apply in_or_app; right; left; reflexivity).
  destruct Hy as [->|Hy]; [|apply (IH q H3 Hy)].
  split; [intro E; subst; auto | intro Hr; apply (H2 x Hr Hx)].
Qed.

Theorem topo_perm_beq : guards -> forall l1 l2 b,
  Permutation l1 l2 -> topo l1 -> topo l2 -> cache_complete (b_cache b) ->
  beq (runl l1 b) (runl l2 b).
Proof.
  intro HG. induction l1 as [|x l1 IH]; intros l2 b Hp Ht1 Ht2 Hcc.
  - apply Permutation_nil in Hp. subst. apply beq_refl.
  - assert (Hx : In x l2) by (eapply Permutation_in; [exact Hp | left; reflexivity]).
    apply in_split in Hx as (p & q & ->).
    pose proof (Permutation_cons_app_inv _ _ Hp) as Hp'.
    cbn [topo] in Ht1. destruct Ht1 as (T1 & T2 & T3).
    assert (Hind : forall y, In y p -> indep x y).
    { intros y Hy. destruct (topo_before x y p q Ht2 Hy) as [Hne Hnr].
      split; [auto|]. split; [|exact Hnr]. intro Hr. apply (T2 y Hr).
      eapply Permutation_in; [apply Permutation_sym, Hp'|]. apply in_or_app. left; exact Hy. }
    rewrite runl_cons.
    eapply beq_trans; [apply (IH (p ++ q) (step b x) Hp' T3 (topo_remove x p q Ht2) (step_cc b x Hcc))|].
    replace (p ++ x :: q) with ((p ++ [x]) ++ q) by (rewrite <- app_assoc; reflexivity).
    rewrite (runl_app (p ++ [x]) q), (runl_app p q), <- runl_cons.
    apply runl_congr, beq_sym, run_move_front; assumption.
Qed.

(* ---------------------------------------------------------------- orders given by the direct dependencies *)
(* every node appears (once) after all its direct node_deps; alias nodes are nodes *)
Definition dep_closed_order (l : list nat) : Prop :=
  NoDup l /\
  forall l1 x l2 n d, l = l1 ++ x :: l2 -> node_at s x = Some n -> In d (node_deps n) -> In d l1.

Lemma closed_resolve l : dep_closed_order l -> forall f d j dt l1 rest,
  l = l1 ++ rest -> In d l1 -> resolve_alias f s d = Some (j, dt) -> In j l1.
Proof.
  intros [Hnd Hc]. induction f as [|f IH]; intros d j dt l1 rest El Hd Hr; [discriminate|].
  cbn [resolve_alias] in Hr. destruct (node_at s d) as [[t|lb a]|] eqn:En; try discriminate.
  - inversion Hr; subst. exact Hd.
  - apply in_split in Hd as (u & v & ->).
    assert (El' : l = u ++ d :: (v ++ rest)) by (rewrite El, <- app_assoc; reflexivity).
    assert (Ha : In a u) by (apply (Hc u d (v ++ rest) (NAlias lb a) a El' En); left; reflexivity).
    apply in_or_app. left. exact (IH a j dt u (d :: v ++ rest) El' Ha Hr).
Qed.

Lemma closed_reads l : dep_closed_order l -> forall l1 x l2,
  l = l1 ++ x :: l2 -> forall d, In d (reads x) -> In d l1.
Proof.
  intros Hc l1 x l2 El d Hd. unfold reads in Hd.
  destruct (node_at s x) as [[t|lb a]|] eqn:En; [| |destruct Hd].
  - apply in_app_or in Hd as [Hd|Hd]; [exact (proj2 Hc l1 x l2 (NTarget t) d El En Hd)|].
    unfold rdeps in Hd. apply in_flat_map in Hd as (d0 & Hd0 & Hj).
    destruct (resolve s d0) as [[j dt]|] eqn:Er; [|destruct Hj]. destruct Hj as [<-|[]].
    apply (closed_resolve l Hc (S (length (s_nodes s))) d0 j dt l1 (x :: l2) El); [|exact Er].
    exact (proj2 Hc l1 x l2 (NTarget t) d0 El En Hd0).
  - exact (proj2 Hc l1 x l2 (NAlias lb a) d El En Hd).
Qed.

Lemma closed_topo_suffix l : dep_closed_order l -> forall l2 l1, l = l1 ++ l2 -> topo l2.
Proof.
  intro Hc. induction l2 as [|x l2 IH]; intros l1 El; [exact I|]. cbn [topo].
  pose proof (proj1 Hc) as Hnd. rewrite El in Hnd. split; [|split].
  - apply NoDup_remove_2 in Hnd. intro Hin. apply Hnd. apply in_or_app. right; exact Hin.
  - intros d Hd Hin. pose proof (closed_reads l Hc l1 x l2 El d Hd) as Hd1.
    apply (NoDup_app_disjoint l1 (x :: l2) d Hnd Hd1). right; exact Hin.
  - apply (IH (l1 ++ [x])). rewrite <- app_assoc. exact El.
Qed.

Lemma closed_topo l : dep_closed_order l -> topo l.
Proof. intro Hc. exact (closed_topo_suffix l Hc l [] eq_refl). Qed.

Theorem topo_order_independent : guards -> forall l1 l2 b,
  Permutation l1 l2 -> dep_closed_order l1 -> dep_closed_order l2 -> cache_complete (b_cache b) ->
  beq (runl l1 b) (runl l2 b).
Proof. intros HG l1 l2 b Hp H1 H2 Hcc. apply topo_perm_beq; auto using closed_topo. Qed.

(* the index order of a topologically numbered snapshot *)
Lemma reads_lt : Build_c15_proofs.wf_src s -> forall x d, In d (reads x) -> d < x.
Proof.
  intros Hwf x d Hd. unfold reads in Hd. destruct (node_at s x) as [[t|lb a]|] eqn:En; [| |destruct Hd].
  - apply in_app_or in Hd as [Hd|Hd]; [exact (Hwf x _ En d Hd)|].
    unfold rdeps in Hd. apply in_flat_map in Hd as (d0 & Hd0 & Hj).
    destruct (resolve s d0) as [[j dt]|] eqn:Er; [|destruct Hj]. destruct Hj as [<-|[]].
    pose proof (Build_c15_proofs.resolve_le s d0 j dt Hwf Er). pose proof (Hwf x _ En d0 Hd0). lia.
  - exact (Hwf x _ En d Hd).
Qed.

Lemma topo_seq : Build_c15_proofs.wf_src s -> forall k a, topo (seq a k).
Proof.
  intro Hwf. induction k as [|k IH]; intro a; cbn [seq topo]; [exact I|].
  split; [rewrite in_seq; lia|]. split; [|apply IH].
  intros d Hd. rewrite in_seq. pose proof (reads_lt Hwf a d Hd). lia.
Qed.

End Sched.

(* ================================================================== Build.build against any compatible order *)
Definition result_of (b : bstate) : build_result :=
  mkBR (b_world b) (b_cache b) (map rt_status (b_rt b)) (b_exec b)
       (negb (existsb (fun st => match st with TFailed => true | _ => false end) (map rt_status (b_rt b)))).

(* observably equal results: same statuses and exit status, the same commands started (as a multiset),
   extensionally equal workspace, external conditions, target results, CAS and taints *)
Record breq (r r' : build_result) : Prop := mkBreq {
  bq_status : br_status r = br_status r';
  bq_ok     : br_ok r = br_ok r';
  bq_exec   : Permutation (br_exec r) (br_exec r');
  bq_ws     : forall p, ws_get p (w_ws (br_world r)) = ws_get p (w_ws (br_world r'));
  bq_ext    : forall l, label_in l (w_ext (br_world r)) = label_in l (w_ext (br_world r'));
  bq_taint  : forall l, label_in l (c_taint (br_cache r)) = label_in l (c_taint (br_cache r'));
  bq_res    : forall k, rlookup k (c_results (br_cache r)) = rlookup k (c_results (br_cache r'));
  bq_cas    : forall d, alookup d (c_cas (br_cache r)) = alookup d (c_cas (br_cache r'))
}.

Lemma beq_breq b b' : beq b b' -> breq (result_of b) (result_of b').
Proof.
  intros [B1 B2 B3 B4 B5 B6 B7 B8]. unfold result_of. constructor; cbn [br_status br_ok br_exec br_world br_cache]; auto.
  - rewrite B1. reflexivity.
  - rewrite B1. reflexivity.
Qed.

Lemma build_result_of H cfg s roots w c :
  build H cfg s roots w c =
  result_of (runl H cfg s (selection s roots) (seq 0 (length (s_nodes s))) (build_init s w c)).
Proof. reflexivity. Qed.

Section BuildOrder.
Variable H : str -> str.
Hypothesis H_inj : forall a b, H a = H b -> a = b.
Variables (cfg : config) (s : sources) (roots : list nat) (w : world) (c : cache).
Hypothesis Hm : cfg_mode cfg = LAll.
Hypothesis Hff : cfg_failfast cfg = false.
Hypothesis HG : guards H s.
Hypothesis Hwf : Build_c15_proofs.wf_src s.
Hypothesis Hcc : cache_complete c.

(* the build over the node list l *)
Definition build_in_order (l : list nat) : build_result :=
  result_of (runl H cfg s (selection s roots) l (build_init s w c)).

Theorem build_is_any_topo_order l :
  Permutation l (seq 0 (length (s_nodes s))) -> topo s l ->
  breq (build H cfg s roots w c) (build_in_order l).
Proof.
  intros Hp Ht. rewrite build_result_of. apply beq_breq.
  apply (topo_perm_beq H H_inj cfg s (selection s roots) Hm Hff HG); auto.
  - apply Permutation_sym, Hp.
  - apply topo_seq, Hwf.
Qed.

Corollary build_is_any_closed_order l :
  Permutation l (seq 0 (length (s_nodes s))) -> dep_closed_order s l ->
  breq (build H cfg s roots w c) (build_in_order l).
Proof. intros Hp Hc. apply build_is_any_topo_order; [exact Hp | apply closed_topo, Hc]. Qed.

End BuildOrder.

(* ================================================================== [keys_apart] from [labels_distinct] *)
(* the key encoding is framed (C09_injective): with an injective digest that never prints '_' (hex digests)
   the keys of targets with different labels differ, whatever their dependencies hash to *)
Lemma keys_apart_labels_distinct H s :
  (forall x y, H x = H y -> x = y) -> (forall x, ~ In ch_us (H x)) ->
  labels_distinct s -> keys_apart H s.
Proof.
  intros H_inj H_hex Hld i j ti tj dh dh' Hne Hi Hj E. unfold pt_key in E.
  apply (key_label H H_inj H_hex) in E. cbn [state_of ts_label] in E.
  exact (Hld i j ti tj Hne Hi Hj E).
Qed.

(* ================================================================== (5) the diamond: a; b, c depend on a; d depends on b and c *)
From Coq Require String.
Import String.StringSyntax.
Local Open Scope string_scope.

Definition dH (x : str) : str := x.
Definition d_cfg : config := mkCfg LAll true false.
Definition dL (n : String.string) : label := mkLabel (lit "p") (lit n).
Definition d_t (n cmd out : String.string) (deps : list nat) : tdef :=
  mkTD (dL n) (lit cmd) (lit "v") [] [mkOut OFile (lit out)] deps [] false false BNormal false.
Definition d_s : sources :=
  mkSrc [NTarget (d_t "a" "ca" "oa" []); NTarget (d_t "b" "cb" "ob" [0]);
         NTarget (d_t "c" "cc" "oc" [0]); NTarget (d_t "d" "cd" "od" [1; 2])] [].
Definition d_sel : list nat := selection d_s [3].
Definition d_b0 : bstate := build_init d_s (mkWorld [] []) empty_cache.
Definition d_run (l : list nat) : bstate := runl dH d_cfg d_s d_sel l d_b0.

Lemma dH_inj a b : dH a = dH b -> a = b.
Proof. exact (fun E => E). Qed.

Lemma d_node i n : node_at d_s i = Some n -> i < 4.
Proof. intro E. apply Build_c15_proofs.node_at_lt in E. exact E. Qed.

(* the identity digest: for a target without inputs the key IS the framed definition stream *)
Lemma id_key_label s ti tj dh dh' : td_ins ti = [] -> td_ins tj = [] ->
  pt_key dH s ti dh = pt_key dH s tj dh' -> td_label ti = td_label tj.
Proof.
  intros Ii Ij. unfold pt_key, change_key, no_inputs, state_of, dH. cbn [ts_ins]. rewrite Ii, Ij.
  intro E. apply encode_def_inj in E as [E _]. exact E.
Qed.

Lemma d_labels_distinct : labels_distinct d_s.
Proof.
  intros i j ti tj Hne Hi Hj E.
  pose proof (d_node i _ Hi). pose proof (d_node j _ Hj).
  destruct i as [|[|[|[|i]]]]; try lia; destruct j as [|[|[|[|j]]]]; try lia; try (exfalso; apply Hne; reflexivity);
    inversion Hi; inversion Hj; subst; discriminate E.
Qed.

Lemma d_no_ins i t : node_at d_s i = Some (NTarget t) -> td_ins t = [].
Proof.
  intro Hi. pose proof (d_node i _ Hi).
  destruct i as [|[|[|[|i]]]]; try lia; inversion Hi; reflexivity.
Qed.

Lemma d_guards : guards dH d_s.
Proof.
  constructor.
  - unfold no_overwrite. vm_compute. repeat constructor; simpl; intuition discriminate.
  - exact d_labels_distinct.
  - intros i j ti tj dh dh' Hne Hi Hj E.
    apply (d_labels_distinct i j ti tj Hne Hi Hj).
    exact (id_key_label d_s ti tj dh dh' (d_no_ins i ti Hi) (d_no_ins j tj Hj) E).
  - intros i t Hi. pose proof (d_node i _ Hi).
    destruct i as [|[|[|[|i]]]]; try lia; inversion Hi; reflexivity.
Qed.

Lemma d_wf : Build_c15_proofs.wf_src d_s.
Proof.
  intros i n Hi d Hd. pose proof (d_node i _ Hi).
  destruct i as [|[|[|[|i]]]]; try lia; inversion Hi; subst; cbn in Hd; intuition lia.
Qed.

(* [0;1;2;3] and [0;2;1;3] are both compatible with the dependency relation *)
Example d_orders :
  dep_closed_order d_s [0; 1; 2; 3] /\ dep_closed_order d_s [0; 2; 1; 3] /\ Permutation [0; 1; 2; 3] [0; 2; 1; 3] /\
  indep d_s 1 2.
Proof.
  assert (Hc : forall l, NoDup l -> topo d_s l -> length l = 4 ->
                 (forall l1 x l2 n d, l = l1 ++ x :: l2 -> node_at d_s x = Some n -> In d (node_deps n) -> In d l1) ->
                 dep_closed_order d_s l) by (intros; split; assumption).
  split; [|split; [|split]].
  - split; [repeat constructor; simpl; intuition lia|].
    intros l1 x l2 n d El Hn Hd.
    destruct l1 as [|a [|b [|c [|e l1]]]]; cbn in El; inversion El; subst; inversion Hn; subst; cbn in Hd;
      try (destruct l1; discriminate); cbn; intuition lia.
  - split; [repeat constructor; simpl; intuition lia|].
    intros l1 x l2 n d El Hn Hd.
    destruct l1 as [|a [|b [|c [|e l1]]]]; cbn in El; inversion El; subst; inversion Hn; subst; cbn in Hd;
      try (destruct l1; discriminate); cbn; intuition lia.
  - apply perm_skip, perm_swap.
  - unfold indep. vm_compute. intuition lia.
Qed.

(* the two runs: the same statuses, the commands start in a different order, the association lists
   differ as lists -- and are equal as maps *)
Example d_runs_differ_as_lists :
  map rt_status (b_rt (d_run [0; 1; 2; 3])) = [TExecuted; TExecuted; TExecuted; TExecuted] /\
  b_exec (d_run [0; 1; 2; 3]) = [dL "a"; dL "b"; dL "c"; dL "d"] /\
  b_exec (d_run [0; 2; 1; 3]) = [dL "a"; dL "c"; dL "b"; dL "d"] /\
  map fst (w_ws (b_world (d_run [0; 1; 2; 3]))) <> map fst (w_ws (b_world (d_run [0; 2; 1; 3]))) /\
  map fst (c_results (b_cache (d_run [0; 1; 2; 3]))) <> map fst (c_results (b_cache (d_run [0; 2; 1; 3]))).
Proof. vm_compute. repeat split; try reflexivity; intro E; discriminate E. Qed.

Example d_swap_nonvacuous :
  let b := step dH d_cfg d_s d_sel d_b0 0 in
  beq (step dH d_cfg d_s d_sel (step dH d_cfg d_s d_sel b 1) 2)
      (step dH d_cfg d_s d_sel (step dH d_cfg d_s d_sel b 2) 1).
Proof.
  cbv zeta. apply (swap_guarded dH dH_inj d_cfg d_s d_sel eq_refl eq_refl _ 1 2 d_guards).
  - apply d_orders.
  - apply step_cc. intros k r Hr. discriminate Hr.
Qed.

Example d_topo_nonvacuous : beq (d_run [0; 1; 2; 3]) (d_run [0; 2; 1; 3]).
Proof.
  apply (topo_order_independent dH dH_inj d_cfg d_s d_sel eq_refl eq_refl d_guards); try apply d_orders.
  intros k r Hr. discriminate Hr.
Qed.

Example d_build_nonvacuous :
  breq (build dH d_cfg d_s [3] (mkWorld [] []) empty_cache)
       (build_in_order dH d_cfg d_s [3] (mkWorld [] []) empty_cache [0; 2; 1; 3]).
Proof.
  apply (build_is_any_closed_order dH dH_inj d_cfg d_s [3] _ _ eq_refl eq_refl d_guards d_wf).
  - intros k r Hr. discriminate Hr.
  - apply perm_skip, perm_swap.
  - apply d_orders.
Qed.

(* ================================================================== why the guards are there: refutations *)
(* guards of a snapshot made of two plain targets p:x, p:y and possibly an alias *)
Definition r_t (n cmd out : String.string) (deps : list nat) (beh : behaviour) : tdef :=
  mkTD (dL n) (lit cmd) (lit "v") [] [mkOut OFile (lit out)] deps [] false false beh false.

Lemma two_target_guards3 s i j ti tj :
  i <> j -> node_at s i = Some (NTarget ti) -> node_at s j = Some (NTarget tj) ->
  (forall k t, node_at s k = Some (NTarget t) -> k = i \/ k = j) ->
  td_ins ti = [] -> td_ins tj = [] ->
  td_label ti <> td_label tj ->
  labels_distinct s /\ keys_apart dH s.
Proof.
  intros Hne Hi Hj Honly Ii Ij Hlab.
  assert (Hcase : forall a b ta tb, a <> b -> node_at s a = Some (NTarget ta) -> node_at s b = Some (NTarget tb) ->
            (ta = ti /\ tb = tj) \/ (ta = tj /\ tb = ti)).
  { intros a b ta tb Hab Ha Hb.
    destruct (Honly a ta Ha) as [-> | ->]; destruct (Honly b tb Hb) as [-> | ->]; try congruence;
      rewrite Hi in *; rewrite Hj in *; inversion Ha; inversion Hb; auto. }
  split.
  - intros a b ta tb Hab Ha Hb E. destruct (Hcase a b ta tb Hab Ha Hb) as [[-> ->]|[-> ->]]; congruence.
  - intros a b ta tb dh dh' Hab Ha Hb E.
    assert (Hk : forall dh1 dh2, pt_key dH s ti dh1 <> pt_key dH s tj dh2).
    { intros dh1 dh2 E'. exact (Hlab (id_key_label s ti tj dh1 dh2 Ii Ij E')). }
    destruct (Hcase a b ta tb Hab Ha Hb) as [[-> ->]|[-> ->]]; [apply (Hk dh dh' E) | apply (Hk dh' dh); auto].
Qed.

Lemma two_target_guards s i j ti tj :
  i <> j -> node_at s i = Some (NTarget ti) -> node_at s j = Some (NTarget tj) ->
  (forall k t, node_at s k = Some (NTarget t) -> k = i \/ k = j) ->
  NoDup (all_out_paths s) ->
  td_ins ti = [] -> td_ins tj = [] -> outs_need_cmd ti = true -> outs_need_cmd tj = true ->
  td_label ti <> td_label tj ->
  guards dH s.
Proof.
  intros Hne Hi Hj Honly Hno Ii Ij Ci Cj Hlab.
  destruct (two_target_guards3 s i j ti tj Hne Hi Hj Honly Ii Ij Hlab) as [G2 G3].
  constructor; [exact Hno | exact G2 | exact G3 |].
  intros a ta Ha. destruct (Honly a ta Ha) as [-> | ->]; [rewrite Hi in Ha | rewrite Hj in Ha]; inversion Ha; subst; assumption.
Qed.

(* (a) independence has to look through aliases: i depends on j through an alias only *)
Definition ra_s : sources :=
  mkSrc [NTarget (r_t "x" "cx" "ox" [] BNormal); NAlias (dL "al") 0; NTarget (r_t "y" "cy" "oy" [1] BNormal)] [].
Definition ra_b : bstate :=
  mkB (mkWorld [] []) empty_cache
      [mkRt None (Some (lit "stale")) false THit; mkRt None None false THit; rt0] [] false.

Lemma ra_guards : guards dH ra_s.
Proof.
  apply (two_target_guards ra_s 0 2 (r_t "x" "cx" "ox" [] BNormal) (r_t "y" "cy" "oy" [1] BNormal));
    try reflexivity; try discriminate.
  - intros k t Hk. pose proof (Build_c15_proofs.node_at_lt _ _ _ Hk) as Hlt. cbn in Hlt.
    destruct k as [|[|[|k]]]; try lia; auto. discriminate Hk.
  - vm_compute. repeat constructor; simpl; intuition discriminate.
Qed.

Theorem swap_direct_deps_refuted :
  exists s sel b i j ni nj,
    node_at s i = Some ni /\ node_at s j = Some nj /\ i <> j /\
    ~ In i (node_deps nj) /\ ~ In j (node_deps ni) /\
    guards dH s /\ cache_complete (b_cache b) /\
    ~ beq (step dH d_cfg s sel (step dH d_cfg s sel b i) j) (step dH d_cfg s sel (step dH d_cfg s sel b j) i).
Proof.
  exists ra_s, [0; 1; 2], ra_b, 2, 0, (NTarget (r_t "y" "cy" "oy" [1] BNormal)), (NTarget (r_t "x" "cx" "ox" [] BNormal)).
  split; [reflexivity|]. split; [reflexivity|]. split; [discriminate|].
  split; [cbn; tauto|]. split; [cbn; intuition discriminate|].
  split; [exact ra_guards|]. split; [intros k r Hr; discriminate Hr|].
  intros [B1 _ _ _ _ _ _ _]. vm_compute in B1. discriminate B1.
Qed.

(* (b) fail-fast is order dependent: whichever of two independent targets fails first stops the other *)
Definition rb_s : sources :=
  mkSrc [NTarget (r_t "x" "cx" "ox" [] BFail); NTarget (r_t "y" "cy" "oy" [] BNormal)] [].

Lemma rb_guards : guards dH rb_s.
Proof.
  apply (two_target_guards rb_s 0 1 (r_t "x" "cx" "ox" [] BFail) (r_t "y" "cy" "oy" [] BNormal));
    try reflexivity; try discriminate.
  - intros k t Hk. pose proof (Build_c15_proofs.node_at_lt _ _ _ Hk) as Hlt. cbn in Hlt.
    destruct k as [|[|k]]; try lia; auto.
  - vm_compute. repeat constructor; simpl; intuition discriminate.
Qed.

Theorem swap_failfast_refuted :
  exists cfg s sel b i j,
    cfg_mode cfg = LAll /\ cfg_failfast cfg = true /\ indep s i j /\ guards dH s /\ cache_complete (b_cache b) /\
    ~ beq (step dH cfg s sel (step dH cfg s sel b i) j) (step dH cfg s sel (step dH cfg s sel b j) i).
Proof.
  exists (mkCfg LAll true true), rb_s, [0; 1], (build_init rb_s (mkWorld [] []) empty_cache), 0, 1.
  split; [reflexivity|]. split; [reflexivity|]. split; [vm_compute; intuition lia|].
  split; [exact rb_guards|]. split; [intros k r Hr; discriminate Hr|].
  intros [B1 _ _ _ _ _ _ _]. vm_compute in B1. discriminate B1.
Qed.

(* (c) a cache that lost a blob is order dependent: y's stored result names a blob that is missing from the
   CAS and that x's execution happens to add; y is a hit after x and is executed before x *)
Definition rc_tx : tdef := r_t "x" "cx" "ox" [] BNormal.
Definition rc_ty : tdef := r_t "y" "cy" "oy" [] BNormal.
Definition rc_s : sources := mkSrc [NTarget rc_tx; NTarget rc_ty] [].
Definition rc_cache : cache :=
  mkCache [(pt_key dH rc_s rc_ty [],
            mkRes (lit "oh") [(out_def (mkOut OFile (lit "oy")), content_of rc_s rc_tx 0 (mkOut OFile (lit "ox")) [])])]
          [] [].
Definition rc_b : bstate := build_init rc_s (mkWorld [] []) rc_cache.

Lemma rc_guards : guards dH rc_s.
Proof.
  apply (two_target_guards rc_s 0 1 rc_tx rc_ty); try reflexivity; try discriminate.
  - intros k t Hk. pose proof (Build_c15_proofs.node_at_lt _ _ _ Hk) as Hlt. cbn in Hlt.
    destruct k as [|[|k]]; try lia; auto.
  - vm_compute. repeat constructor; simpl; intuition discriminate.
Qed.

Theorem swap_incomplete_cache_refuted :
  exists s sel b i j,
    indep s i j /\ guards dH s /\ ~ cache_complete (b_cache b) /\
    ~ beq (step dH d_cfg s sel (step dH d_cfg s sel b i) j) (step dH d_cfg s sel (step dH d_cfg s sel b j) i).
Proof.
  exists rc_s, [0; 1], rc_b, 0, 1.
  split; [vm_compute; intuition lia|]. split; [exact rc_guards|]. split.
  - intro Hcc.
    assert (Hr : rlookup (pt_key dH rc_s rc_ty []) (c_results (b_cache rc_b)) =
                 Some (mkRes (lit "oh") [(out_def (mkOut OFile (lit "oy")),
                                          content_of rc_s rc_tx 0 (mkOut OFile (lit "ox")) [])])).
    { cbn [rc_b build_init b_cache rc_cache c_results rlookup]. rewrite str_eqb_refl. reflexivity. }
    apply (Hcc _ _ Hr _ _ (or_introl eq_refl)). reflexivity.
  - intros [B1 _ _ _ _ _ _ _]. vm_compute in B1. discriminate B1.
Qed.

(* (d) declared outputs of a target without a command are whatever sits in the workspace: a file holding
   "D"++q and a directory whose canonical bytes are q have the same digest in the model, and the blob the
   CAS keeps under it is the one of whichever target completes first *)
Definition rd_tx : tdef :=
  mkTD (dL "x") [] (lit "v") [] [mkOut OFile (lit "ox")] [] [] false false BNormal false.
Definition rd_ty : tdef :=
  mkTD (dL "y") [] (lit "v") [] [mkOut ODir (lit "oy")] [] [] false false BNormal false.
Definition rd_s : sources := mkSrc [NTarget rd_tx; NTarget rd_ty] [].
Definition rd_b : bstate :=
  build_init rd_s (mkWorld [(lit "p/ox", PFile (lit "Dq")); (lit "p/oy", PFile (lit "q"))] []) empty_cache.

Theorem swap_cmdless_outputs_refuted :
  exists s sel b i j,
    indep s i j /\ no_overwrite s /\ labels_distinct s /\ keys_apart dH s /\ cache_complete (b_cache b) /\
    ~ beq (step dH d_cfg s sel (step dH d_cfg s sel b i) j) (step dH d_cfg s sel (step dH d_cfg s sel b j) i).
Proof.
  exists rd_s, [0; 1], rd_b, 0, 1.
  split; [vm_compute; intuition lia|].
  split; [unfold no_overwrite; vm_compute; repeat constructor; simpl; intuition discriminate|].
  assert (HG : labels_distinct rd_s /\ keys_apart dH rd_s).
  { apply (two_target_guards3 rd_s 0 1 rd_tx rd_ty); try reflexivity; try discriminate.
    intros k t Hk. pose proof (Build_c15_proofs.node_at_lt _ _ _ Hk) as Hlt. cbn in Hlt.
    destruct k as [|[|k]]; try lia; auto. }
  split; [exact (proj1 HG)|]. split; [exact (proj2 HG)|]. split; [intros k r Hr; discriminate Hr|].
  intros [_ _ _ _ _ _ _ B8]. specialize (B8 (lit "Dq")). vm_compute in B8. discriminate B8.
Qed.

(* ================================================================== further non-vacuity *)
(* the congruence on two states that differ as lists *)
Example d_congr_nonvacuous :
  let b := step dH d_cfg d_s d_sel d_b0 0 in
  let b12 := step dH d_cfg d_s d_sel (step dH d_cfg d_s d_sel b 1) 2 in
  let b21 := step dH d_cfg d_s d_sel (step dH d_cfg d_s d_sel b 2) 1 in
  b_exec b12 <> b_exec b21 /\
  beq (step dH d_cfg d_s d_sel b12 3) (step dH d_cfg d_s d_sel b21 3).
Proof.
  cbv zeta. split; [vm_compute; intro E; discriminate E|].
  apply (step_congr dH dH_inj d_cfg d_s d_sel eq_refl eq_refl). exact d_swap_nonvacuous.
Qed.

(* with the hex digest of HashKey_proofs.v the key guard follows from the labels: the diamond satisfies all guards *)
Example d_guards_hex : guards hex_enc d_s.
Proof.
  constructor.
  - exact (g_no _ _ d_guards).
  - exact d_labels_distinct.
  - exact (keys_apart_labels_distinct hex_enc d_s hex_enc_inj hex_enc_no_us d_labels_distinct).
  - exact (g_cmd _ _ d_guards).
Qed.
