(* Loader.v -- model of grog/internal/loading (C16).  Definitions only.

   (i)   the Makefile and script annotation scanners (makefile_loader.go, script_loader.go) as
         line state machines, branch by branch, with an explicit [Panic] outcome where Go indexes
         annotationLineNumbers[len-1] on an empty slice (both handleTarget functions still do;
         both parse loops skip an empty block before calling them);
   (ii)  [enrich] = getEnrichedPackage (enrich_package.go) + output.ParseOutput(s); a nil
         element of PackageDTO.Targets / .Aliases (a null list element in BUILD.json / BUILD.yaml)
         is [None] in [pd_targets] / [pd_aliases] and an error of [enrich];
   (iii) [merge_packages] / [merge_all] = mergePackages and the merge loop of LoadPackages
         (load.go), parameterised by the order in which the per-file fragments arrive, and
         [load_all] = that followed by model.BuildNodeMapFromPackages' duplicate check.

   Third-party behaviour enters as oracle parameters, never as definitions of ours:
     yaml : str -> option annot          yaml.Unmarshal of an annotation block
     glob : str -> option (list str)     doublestar.Glob in the package directory (None = bad pattern)
     dur  : str -> option str            time.ParseDuration (Some canonical value / None = error)
   The decoders encoding/json, yaml.v3, starlark that produce a PackageDTO from bytes are not
   modelled at all (C16 is partial by nature there; covered by the correspondence run only).
   PackageDTO.Environments is decoded by every loader and read by nothing: not modelled.
   The Pkl loader needs an external binary: out of scope. *)
From Grog Require Export Str Label.
Local Open Scope list_scope.

(* ------------------------------------------------------------------ strings.TrimSpace *)

Definition bytes (l : list nat) : str := map ascii_of_nat l.

(* unicode.IsSpace: the ASCII ones and the UTF-8 encodings of U+0085 U+00A0 U+1680 U+2000..200A
   U+2028 U+2029 U+202F U+205F U+3000.  An invalid byte decodes to U+FFFD (not a space), and a
   valid encoding at the very start / very end of the string is what DecodeRune /
   DecodeLastRune return, so prefix / suffix matching on bytes agrees with Go. *)
Definition ws_seqs : list str :=
  map bytes
    [[9]; [10]; [11]; [12]; [13]; [32]; [194; 133]; [194; 160]; [225; 154; 128];
     [226; 128; 128]; [226; 128; 129]; [226; 128; 130]; [226; 128; 131]; [226; 128; 132];
     [226; 128; 133]; [226; 128; 134]; [226; 128; 135]; [226; 128; 136]; [226; 128; 137];
     [226; 128; 138]; [226; 128; 168]; [226; 128; 169]; [226; 128; 175]; [226; 129; 159];
     [227; 128; 128]].

(* length of the first sequence of [seqs] that is a prefix of [s] *)
Fixpoint match_prefix (seqs : list str) (s : str) : option nat :=
  match seqs with
  | [] => None
  | q :: seqs' => if has_prefix q s then Some (List.length q) else match_prefix seqs' s
  end.

Fixpoint trim_left_with (seqs : list str) (fuel : nat) (s : str) : str :=
  match fuel with
  | O => s
  | S fuel' =>
      match match_prefix seqs s with
      | Some n => trim_left_with seqs fuel' (skipn n s)
      | None => s
      end
  end.

Definition trim_left (s : str) : str := trim_left_with ws_seqs (List.length s) s.
Definition trim_right (s : str) : str :=
  rev (trim_left_with (map (@rev ascii) ws_seqs) (List.length s) (rev s)).
Definition trim_space (s : str) : str := trim_right (trim_left s).

(* ------------------------------------------------------------------ bufio.ScanLines *)

Definition ch_nl : ascii := ascii_of_nat 10.
Definition ch_cr : ascii := ascii_of_nat 13.
Definition ch_hash : ascii := "#"%char.

(* raw lines: split at '\n'; no token for the empty remainder after a final '\n' *)
Fixpoint raw_lines_go (cur : str) (s : str) : list str :=
  match s with
  | [] => match cur with [] => [] | _ => [rev cur] end
  | c :: s' => if Ascii.eqb c ch_nl then rev cur :: raw_lines_go [] s' else raw_lines_go (c :: cur) s'
  end.
Definition raw_lines (s : str) : list str := raw_lines_go [] s.

Definition drop_cr (l : str) : str := if ends_with ch_cr l then drop_last l else l.

(* bufio.Scanner gives up (ErrTooLong) at the first line that does not fit its buffer together
   with its terminator: [maxlen <= length raw_line] with maxlen = bufio.MaxScanTokenSize = 65536
   (a parameter, so that no proof ever computes with that numeral).  Lines before it are
   delivered. *)
Fixpoint cut_long (maxlen : nat) (ls : list str) : list str * bool :=
  match ls with
  | [] => ([], false)
  | l :: ls' =>
      if maxlen <=? List.length l then ([], true)
      else let '(r, b) := cut_long maxlen ls' in (drop_cr l :: r, b)
  end.
Definition split_lines (maxlen : nat) (content : str) : list str * bool :=
  cut_long maxlen (raw_lines content).

(* ------------------------------------------------------------------ annotations and DTOs *)

(* scriptAnnotation + grogAnnotation (annotations.go): the declared annotation schema *)
Record annot := mkAnnot {
  an_name : str;
  an_deps : list str;
  an_inputs : list str;
  an_tags : list str;
  an_fingerprint : list (str * str);
  an_env : list (str * str);
  an_timeout : str;
  an_platforms : option (list str);   (* nil slice vs. present *)
  an_outputs : list str               (* Makefile annotations only *)
}.
Definition empty_annot : annot := mkAnnot [] [] [] [] [] [] [] None [].

(* TargetDTO / AliasDTO / PackageDTO (dto.go).  Map-typed fields are association lists in the
   order the decoder delivered them. *)
Record target_dto := mkTD {
  td_name : str;
  td_command : str;
  td_deps : list str;
  td_inputs : list str;
  td_excludes : list str;
  td_outputs : list str;
  td_bin : str;
  td_checks : list (str * str);
  td_tags : list str;
  td_fingerprint : list (str * str);
  td_platforms : option (list str);
  td_env : list (str * str);
  td_timeout : str
}.
Record alias_dto := mkAD { ad_name : str; ad_actual : str }.
(* Targets []*TargetDTO and Aliases []*AliasDTO are slices of pointers: [None] = a nil element,
   which is what encoding/json and yaml.v3 deliver for a null list element *)
Record package_dto := mkPD {
  pd_source : str;
  pd_targets : list (option target_dto);
  pd_aliases : list (option alias_dto);
  pd_default_platforms : option (list str)
}.

(* ------------------------------------------------------------------ (i) scanners *)

Inductive scan_error := ErrYaml | ErrNoColon | ErrTooLong.

Inductive scan_result (A : Type) :=
| Panic                               (* Go: runtime error: index out of range [-1] *)
| ScanErr (e : scan_error)
| ScanOk (found : bool) (a : A).
Arguments Panic {A}.
Arguments ScanErr {A} e.
Arguments ScanOk {A} found a.

Definition is_panic {A} (r : scan_result A) : bool := match r with Panic => true | _ => false end.

Definition grog_marker : str := ["#"; " "; "@"; "g"; "r"; "o"; "g"]%char.
Definition make_prefix : str := ["m"; "a"; "k"; "e"; " "]%char.
Definition nl : str := [ch_nl].

(* the part before the first ':' -- strings.Split(s, ":")[0] *)
Definition before_colon (s : str) : str :=
  match split_first ch_colon s with Some (a, _) => a | None => s end.

Inductive handle_result (A : Type) := HPanic | HErr (e : scan_error) | HOk (a : A).
Arguments HPanic {A}.
Arguments HErr {A} e.
Arguments HOk {A} a.

(* the decoding step shared by both handleTarget functions:
     lastLineNum := annotationLineNumbers[len(annotationLineNumbers)-1]   <- panics on []
     if len(annotationContent) > 0 { yaml.Unmarshal ... }                                *)
Definition decode_block (yaml : str -> option annot) (ann : list str) : handle_result annot :=
  match ann with
  | [] => HPanic
  | _ =>
      let content := join nl ann in
      if null content then HOk empty_annot
      else match yaml content with
           | None => HErr ErrYaml
           | Some a => HOk a
           end
  end.

(* makefileParser.handleTarget: every field the annotation schema declares is copied
   (fingerprint, platforms, environment_variables and timeout exactly as the script loader does) *)
Definition mk_target (a : annot) (goal : str) : target_dto :=
  mkTD (if null (an_name a) then goal else an_name a)
       (make_prefix ++ goal)
       (an_deps a) (an_inputs a) [] (an_outputs a) [] [] (an_tags a)
       (an_fingerprint a) (an_platforms a) (an_env a) (an_timeout a).

Definition mk_handle (yaml : str -> option annot) (ann : list str) (target_line : str)
  : handle_result target_dto :=
  match decode_block yaml ann with
  | HPanic => HPanic
  | HErr e => HErr e
  | HOk a =>
      let tt := trim_space target_line in
      if negb (mem_ch ch_colon tt) then HErr ErrNoColon
      else HOk (mk_target a (before_colon tt))
  end.

(* scanner state: outside any block, or inside one with the annotation lines collected so far *)
Inductive scan_state := Outside | InBlock (ann : list str).

(* makefileParser.parse.  [acc] is the reversed list of targets, [found] the targetsFound flag.
   End of input inside a block: both Go loops end, the block is silently dropped.
   `if len(annotationLines) == 0 { break }` comes before handleTarget, as in the script parser:
   a marker with no annotation line before the next non-comment line is skipped (that line is
   consumed, no target is registered, targetsFound stays set), so the Panic branch of
   decode_block is unreachable (proved in Loader_proofs.v). *)
Fixpoint mk_scan (yaml : str -> option annot) (lines : list str) (st : scan_state)
         (found : bool) (acc : list target_dto) : scan_result (list target_dto) :=
  match lines with
  | [] => ScanOk found (rev acc)
  | l :: rest =>
      let t := trim_space l in
      match st with
      | Outside =>
          if has_prefix grog_marker t then mk_scan yaml rest (InBlock []) true acc
          else mk_scan yaml rest Outside found acc
      | InBlock ann =>
          if null t then mk_scan yaml rest st found acc
          else if has_prefix [ch_hash] t then mk_scan yaml rest (InBlock (ann ++ [skipn 1 t])) found acc
          else match ann with
               | [] => mk_scan yaml rest Outside found acc
               | _ => match mk_handle yaml ann l with
                      | HPanic => Panic
                      | HErr e => ScanErr e
                      | HOk td => mk_scan yaml rest Outside found (td :: acc)
                      end
               end
      end
  end.

Definition scan_makefile (yaml : str -> option annot) (lines : list str)
  : scan_result (list target_dto) := mk_scan yaml lines Outside false [].

(* the whole Load: lines from the byte content, then scanner.Err() *)
Definition after_scan {A} (too_long : bool) (r : scan_result A) : scan_result A :=
  match r with
  | ScanOk f a => if too_long then ScanErr ErrTooLong else ScanOk f a
  | r' => r'
  end.
Definition scan_makefile_file (maxlen : nat) (yaml : str -> option annot) (content : str) :=
  let '(ls, long) := split_lines maxlen content in after_scan long (scan_makefile yaml ls).

(* The boolean description of the one shape on which the parse loop takes the skip branch
   before any error: an annotation block with no comment line ('# @grog' directly followed,
   blank lines apart, by a non-comment line).  Before that branch existed this was exactly the
   shape that panicked (handleTarget on an empty block); the check uses it to recognise that
   class on a tree without the repair, and Loader_proofs.v to show that the repair changed
   nothing else.  It follows the scan with the most permissive decoder: a block whose target
   line has no ':' ends the scan (error) whatever YAML says. *)
Fixpoint mk_guard_go (lines : list str) (st : option bool) : bool :=
  match lines with
  | [] => true
  | l :: rest =>
      let t := trim_space l in
      match st with
      | None => if has_prefix grog_marker t then mk_guard_go rest (Some false) else mk_guard_go rest None
      | Some nonempty =>
          if null t then mk_guard_go rest st
          else if has_prefix [ch_hash] t then mk_guard_go rest (Some true)
          else if negb nonempty then false
          else if negb (mem_ch ch_colon t) then true
          else mk_guard_go rest None
      end
  end.
Definition mk_guard (lines : list str) : bool := mk_guard_go lines None.

(* ---- script_loader.go *)

Definition no_cache : str := ["n"; "o"; "-"; "c"; "a"; "c"; "h"; "e"]%char.

(* prependUnique *)
Definition prepend_unique (values : list str) (x : str) : list str :=
  if str_in x values then values else x :: values.

Definition script_target (a : annot) (file_name : str) : target_dto :=
  mkTD (if null (an_name a) then file_name else an_name a)
       []
       (an_deps a) (prepend_unique (an_inputs a) file_name) [] [] file_name [] (prepend_unique (an_tags a) no_cache)
       (an_fingerprint a) (an_platforms a) (an_env a) (an_timeout a).

(* scriptParser.parse: `if len(annotationLines) == 0 { break }` comes before handleTarget, so
   the Panic branch of decode_block is unreachable here (proved in Loader_proofs.v).
   [cur] is the annotation of the last block decoded so far. *)
Fixpoint sh_scan (yaml : str -> option annot) (lines : list str) (st : scan_state) (cur : annot)
  : scan_result annot :=
  match lines with
  | [] => ScanOk true cur
  | l :: rest =>
      let t := trim_space l in
      match st with
      | Outside =>
          if has_prefix grog_marker t then sh_scan yaml rest (InBlock []) cur
          else sh_scan yaml rest Outside cur
      | InBlock ann =>
          if null t then sh_scan yaml rest st cur
          else if has_prefix [ch_hash] t then sh_scan yaml rest (InBlock (ann ++ [skipn 1 t])) cur
          else match ann with
               | [] => sh_scan yaml rest Outside cur
               | _ => match decode_block yaml ann with
                      | HPanic => Panic
                      | HErr e => ScanErr e
                      | HOk a => sh_scan yaml rest Outside a
                      end
               end
      end
  end.

Definition scan_script (yaml : str -> option annot) (file_name : str) (lines : list str)
  : scan_result target_dto :=
  match sh_scan yaml lines Outside empty_annot with
  | Panic => Panic
  | ScanErr e => ScanErr e
  | ScanOk f a => ScanOk f (script_target a file_name)
  end.

Definition scan_script_file (maxlen : nat) (yaml : str -> option annot) (file_name content : str) :=
  let '(ls, long) := split_lines maxlen content in after_scan long (scan_script yaml file_name ls).

(* ------------------------------------------------------------------ (ii) enrichment *)

Record output := mkOut { o_type : str; o_id : str }.

Record target := mkTarget {
  t_label : label;
  t_source : str;
  t_command : str;
  t_deps : list label;
  t_inputs : list str;          (* resolved *)
  t_unresolved : list str;
  t_excludes : list str;
  t_outputs : list output;
  t_bin : output;               (* both parts empty = unset *)
  t_platforms : option (list str);
  t_checks : list (str * str);
  t_tags : list str;
  t_fingerprint : list (str * str);
  t_env : list (str * str);
  t_timeout : str               (* canonical value delivered by [dur]; "0" when unset *)
}.
Record alias := mkAlias { a_label : label; a_source : str; a_actual : label }.
Record package := mkPkg { p_path : str; p_targets : list target; p_aliases : list alias }.

Inductive load_error :=
| ELabel        (* label.ParseTargetLabel on a dependency or an alias' actual *)
| EDuplicate    (* duplicate target label *)
| EGlob         (* failed to resolve inputs *)
| EOutput       (* failed to parse outputs *)
| EBinOutput    (* failed to parse bin output *)
| EBinNotFile   (* bin output ... must be of type file *)
| ETimeout      (* failed to parse timeout *)
| ENullTarget   (* package file ... contains a null target entry *)
| ENullAlias.   (* package file ... contains a null alias entry *)

Inductive result (A : Type) := Ok (a : A) | Err (e : load_error).
Arguments Ok {A} a.
Arguments Err {A} e.

(* output/parse.go *)
Definition ty_file : str := ["f"; "i"; "l"; "e"]%char.
Definition ty_dir : str := ["d"; "i"; "r"]%char.
Definition ty_docker : str := ["d"; "o"; "c"; "k"; "e"; "r"]%char.
Definition known_type (t : str) : bool := str_eqb t ty_file || str_eqb t ty_dir || str_eqb t ty_docker.
Definition dcolon : str := [ch_colon; ch_colon].

Definition parse_output (s : str) : option output :=
  match find_sub dcolon s with
  | None => Some (mkOut ty_file s)
  | Some i =>
      let ty := firstn i s in
      let id := skipn (i + 2) s in
      if known_type ty then Some (mkOut ty id) else None
  end.

Fixpoint parse_outputs (l : list str) : option (list output) :=
  match l with
  | [] => Some []
  | s :: l' =>
      match parse_output s with
      | None => None
      | Some o => match parse_outputs l' with None => None | Some os => Some (o :: os) end
      end
  end.

Fixpoint parse_labels (cur : str) (l : list str) : option (list label) :=
  match l with
  | [] => Some []
  | s :: l' =>
      match parse_label cur s with
      | None => None
      | Some x => match parse_labels cur l' with None => None | Some xs => Some (x :: xs) end
      end
  end.

(* strings.ContainsAny(input, "*?[{") *)
Definition glob_chars : str := ["*"; "?"; "["; "{"]%char.
Definition has_glob_char (s : str) : bool := existsb (fun c => mem_ch c glob_chars) s.

Fixpoint resolve_patterns (glob : str -> option (list str)) (literal_ok : bool) (l : list str)
  : option (list str) :=
  match l with
  | [] => Some []
  | p :: l' =>
      let here := if literal_ok && negb (has_glob_char p) then Some [p] else glob p in
      match here with
      | None => None
      | Some m => match resolve_patterns glob literal_ok l' with
                  | None => None
                  | Some ms => Some (m ++ ms)
                  end
      end
  end.

(* resolveInputs: inputs without glob characters are kept verbatim, exclusion patterns are
   always globbed; no exclusions = early return *)
Definition resolve_inputs (glob : str -> option (list str)) (ins excl : list str) : option (list str) :=
  match resolve_patterns glob true ins with
  | None => None
  | Some r =>
      match excl with
      | [] => Some r
      | _ => match resolve_patterns glob false excl with
             | None => None
             | Some ex => Some (filter (fun x => negb (str_in x ex)) r)
             end
      end
  end.

Definition label_in (l : label) (ls : list label) : bool := existsb (label_eqb l) ls.

Definition zero_dur : str := ["0"]%char.
Definition dot : str := [ch_dot].
(* "root package is always encoded as ''" *)
Definition norm_path (p : str) : str := if str_eqb p dot then [] else p.

Section Enrich.
  Variable glob : str -> option (list str).
  Variable dur : str -> option str.

  (* one iteration of the target loop; [seen] = labels already in the targets map *)
  Definition enrich_target (src path : str) (defplat : option (list str)) (seen : list label)
             (td : target_dto) : result target :=
    match parse_labels path (td_deps td) with
    | None => Err ELabel
    | Some deps =>
        let lbl := mkLabel (norm_path path) (td_name td) in
        if label_in lbl seen then Err EDuplicate
        else match resolve_inputs glob (td_inputs td) (td_excludes td) with
        | None => Err EGlob
        | Some ins =>
            match parse_outputs (td_outputs td) with
            | None => Err EOutput
            | Some outs =>
                let bin_r :=
                  if null (td_bin td) then Ok (mkOut [] [])
                  else match parse_output (td_bin td) with
                       | None => Err EBinOutput
                       | Some b => if str_eqb (o_type b) ty_file then Ok b else Err EBinNotFile
                       end in
                match bin_r with
                | Err e => Err e
                | Ok bin =>
                    let to_r := if null (td_timeout td) then Some zero_dur else dur (td_timeout td) in
                    match to_r with
                    | None => Err ETimeout
                    | Some tmo =>
                        let plats := match td_platforms td with
                                     | Some p => Some p
                                     | None => defplat
                                     end in
                        Ok (mkTarget lbl src (td_command td) deps ins (td_inputs td) (td_excludes td)
                                     outs bin plats (td_checks td) (td_tags td) (td_fingerprint td)
                                     (td_env td) tmo)
                    end
                end
            end
        end
    end.

  (* the target loop; `if target == nil` is the first statement of its body *)
  Fixpoint enrich_targets (src path : str) (defplat : option (list str)) (tds : list (option target_dto))
           (acc : list target) : result (list target) :=
    match tds with
    | [] => Ok (rev acc)
    | None :: _ => Err ENullTarget
    | Some td :: tds' =>
        match enrich_target src path defplat (map t_label acc) td with
        | Err e => Err e
        | Ok t => enrich_targets src path defplat tds' (t :: acc)
        end
    end.

  (* the alias loop; `if alias == nil` is the first statement of its body *)
  Fixpoint enrich_aliases (src path : str) (tlabels : list label) (ads : list (option alias_dto))
           (acc : list alias) : result (list alias) :=
    match ads with
    | [] => Ok (rev acc)
    | None :: _ => Err ENullAlias
    | Some ad :: ads' =>
        match parse_label path (ad_actual ad) with
        | None => Err ELabel
        | Some actual =>
            let lbl := mkLabel (norm_path path) (ad_name ad) in
            if label_in lbl tlabels || label_in lbl (map a_label acc) then Err EDuplicate
            else enrich_aliases src path tlabels ads' (mkAlias lbl src actual :: acc)
        end
    end.

  (* getEnrichedPackage.  Package.Path: packagePath is rewritten from "." to "" inside the
     loops only, so a root package without targets and aliases keeps Path ".". *)
  Definition enrich (path : str) (d : package_dto) : result package :=
    match enrich_targets (pd_source d) path (pd_default_platforms d) (pd_targets d) [] with
    | Err e => Err e
    | Ok ts =>
        match enrich_aliases (pd_source d) path (map t_label ts) (pd_aliases d) [] with
        | Err e => Err e
        | Ok als =>
            let out_path := match pd_targets d, pd_aliases d with
                            | [], [] => path
                            | _, _ => norm_path path
                            end in
            Ok (mkPkg out_path ts als)
        end
    end.
End Enrich.

(* ------------------------------------------------------------------ (iii) merging *)

(* load.go keys loadedPackages by the directory of the BUILD file ("." for the root) while
   Package.Path is "" (or "." when empty) for the root: same key up to norm_path. *)
Definition pkey (p : package) : str := norm_path (p_path p).

Definition target_labels (p : package) : list label := map t_label (p_targets p).
Definition alias_labels (p : package) : list label := map a_label (p_aliases p).

(* mergePackages(from, into).  Go ranges over maps and stops at the first collision; which
   collision is reported is map-order dependent, whether there is one is not.  The targets of
   [from] are in [into] by the time the aliases are examined.  NOT examined: a target of [from]
   against the aliases of [into]. *)
Definition merge_packages (from into : package) : option package :=
  if existsb (fun t => label_in (t_label t) (target_labels into)) (p_targets from) then None
  else
    let ts := p_targets into ++ p_targets from in
    if existsb (fun a => label_in (a_label a) (alias_labels into)
                         || label_in (a_label a) (map t_label ts)) (p_aliases from)
    then None
    else Some (mkPkg (p_path into) ts (p_aliases into ++ p_aliases from)).

(* the body of the worker loop under loadedMutex: merge into the package with the same key,
   or register the fragment *)
Fixpoint insert_fragment (fr : package) (m : list package) : option (list package) :=
  match m with
  | [] => Some [fr]
  | p :: m' =>
      if str_eqb (pkey p) (pkey fr) then
        match merge_packages fr p with
        | None => None
        | Some p' => Some (p' :: m')
        end
      else match insert_fragment fr m' with
           | None => None
           | Some m'' => Some (p :: m'')
           end
  end.

Fixpoint merge_from (m : list package) (frs : list package) : option (list package) :=
  match frs with
  | [] => Some m
  | fr :: frs' =>
      match insert_fragment fr m with
      | None => None
      | Some m' => merge_from m' frs'
      end
  end.

(* LoadPackages for fragments arriving in the order [frs] *)
Definition merge_all (frs : list package) : option (list package) := merge_from [] frs.

(* model.BuildNodeMapFromPackages: every target and alias label at most once *)
Definition pkg_labels (p : package) : list label := target_labels p ++ alias_labels p.
Definition all_labels (m : list package) : list label := flat_map pkg_labels m.

Fixpoint nodup_labels (l : list label) : bool :=
  match l with
  | [] => true
  | x :: l' => negb (label_in x l') && nodup_labels l'
  end.

(* what every command does: LoadPackages, then BuildNodeMapFromPackages *)
Definition load_all (frs : list package) : option (list package) :=
  match merge_all frs with
  | None => None
  | Some m => if nodup_labels (all_labels m) then Some m else None
  end.
