(* Glob.v -- the input-pattern language of `inputs:` / `exclude_inputs:` (definitions only).

   Mirrors /repo/internal/loading/enrich_package.go `resolveInputs` and the part of
   github.com/bmatcuk/doublestar/v4 (v4.9.1) it uses: `doublestar.Glob(os.DirFS(pkg), entry, WithFilesOnly())`.
   The semantics is the one of Glob (pattern split into `/` segments, alternatives expanded textually,
   each segment matched against ONE directory entry name), not the one of doublestar.Match (where a
   negated class can match `/`).

   Covered fragment (`covered`): bytes (no multi-byte runes), ONE level of `{a,b}` alternatives,
   backslash escapes of the meta characters * ? [ ] { } only, classes not mentioning / { } , and
   no empty / `.` / `..` pattern segment.  Outside of it `parse` / `matches` are not claimed to
   agree with doublestar (see evidence of the glob stage). *)
From Coq Require Import List Ascii Bool Arith.
From Grog Require Import Str.
Import ListNotations.
Open Scope char_scope.

Definition ch_star : ascii := "*".
Definition ch_qm : ascii := "?".
Definition ch_lbr : ascii := "[".
Definition ch_rbr : ascii := "]".
Definition ch_lbc : ascii := "{".
Definition ch_rbc : ascii := "}".
Definition ch_bsl : ascii := "\".
Definition ch_bang : ascii := "!".
Definition ch_caret : ascii := "^".
Definition ch_dash : ascii := "-".

(* enrich_package.go: strings.ContainsAny(input, "*?[{") *)
Definition glob_chars : str := [ch_star; ch_qm; ch_lbr; ch_lbc].
Definition is_glob (s : str) : bool := existsb (fun c => mem_ch c glob_chars) s.
(* the set of seeded change C02m (`{` dropped) -- only used by the refutation theorem *)
Definition glob_chars_nobrace : str := [ch_star; ch_qm; ch_lbr].
Definition is_glob_nobrace (s : str) : bool := existsb (fun c => mem_ch c glob_chars_nobrace) s.

(* ---------- syntax ---------- *)
Inductive citem := CChar (c : ascii) | CRange (lo hi : ascii).
Inductive tok := TLit (c : ascii) | TAny | TStar | TClass (neg : bool) (items : list citem).
Definition flat := list tok.                      (* alternative-free pattern; TLit "/" separates segments *)
Inductive ptok := PTok (t : tok) | PAlt (alts : list flat).
Definition pattern := list ptok.

Definition is_some {A} (o : option A) : bool := match o with Some _ => true | None => false end.
Definition cons_item (i : citem) (r : option (list citem * str)) : option (list citem * str) :=
  match r with Some (l, s) => Some (i :: l, s) | None => None end.

(* match.go, case '[': items up to the first unescaped `]`; `lo-hi` is a range only directly after a
   plain character (`last`), the plain character stays an item of its own *)
Fixpoint class_items (last : option ascii) (s : str) : option (list citem * str) :=
  match s with
  | [] => None
  | c :: r =>
    if Ascii.eqb c ch_rbr then Some ([], r)
    else if Ascii.eqb c ch_dash && is_some last
            && match r with h :: _ => negb (Ascii.eqb h ch_rbr) | [] => false end then
      let lo := match last with Some l => l | None => c end in
      match r with
      | h :: r1 =>
        if Ascii.eqb h ch_bsl then
          match r1 with h2 :: r2 => cons_item (CRange lo h2) (class_items None r2) | [] => None end
        else cons_item (CRange lo h) (class_items None r1)
      | [] => None
      end
    else if Ascii.eqb c ch_bsl then
      match r with e :: r1 => cons_item (CChar e) (class_items (Some e) r1) | [] => None end
    else cons_item (CChar c) (class_items (Some c) r)
  end.

(* after the `[`: optional ! or ^, then a non-empty item list *)
Definition parse_class (s : str) : option (tok * str) :=
  let '(neg, s1) := match s with
                    | c :: r => if Ascii.eqb c ch_bang || Ascii.eqb c ch_caret then (true, r) else (false, s)
                    | [] => (false, s) end in
  match s1 with
  | [] => None
  | c :: _ => if Ascii.eqb c ch_rbr then None
              else match class_items None s1 with
                   | Some (items, r) => Some (TClass neg items, r)
                   | None => None end
  end.

(* br = Some (finished alternatives, current alternative) while inside `{ }` *)
Fixpoint pp (fuel : nat) (br : option (list flat * flat)) (s : str) : option pattern :=
  match fuel with
  | O => None
  | S f =>
    match s with
    | [] => match br with None => Some [] | Some _ => None end
    | c :: r =>
      let emit (t : tok) (r' : str) :=
        match br with
        | None => option_map (cons (PTok t)) (pp f None r')
        | Some (alts, cur) => pp f (Some (alts, cur ++ [t])) r'
        end in
      if Ascii.eqb c ch_bsl then match r with e :: r1 => emit (TLit e) r1 | [] => None end
      else if Ascii.eqb c ch_lbr then
        match parse_class r with Some (t, r1) => emit t r1 | None => None end
      else if Ascii.eqb c ch_star then emit TStar r
      else if Ascii.eqb c ch_qm then emit TAny r
      else if Ascii.eqb c ch_lbc then
        match br with None => pp f (Some ([], [])) r | Some _ => None end
      else if Ascii.eqb c ch_rbc then
        match br with
        | None => None
        | Some (alts, cur) =>
          (* glob.go globAlts / doGlobAltsWalk: `for patIdx < closingIdx` -- an EMPTY last alternative (`{a,}`, `{}`) is
             never tried by doublestar.Glob (doublestar.Match does try it) *)
          let alts' := match cur with [] => alts | _ => alts ++ [cur] end in
          option_map (cons (PAlt alts')) (pp f None r)
        end
      else match br with
           | Some (alts, cur) =>
             if Ascii.eqb c ch_comma then pp f (Some (alts ++ [cur], [])) r else emit (TLit c) r
           | None => emit (TLit c) r
           end
    end
  end.

(* None = malformed (doublestar.ValidatePattern false -> Glob returns ErrBadPattern) *)
Definition parse (s : str) : option pattern := pp (S (length s)) None s.

(* ---------- semantics ---------- *)
Definition item_match (c : ascii) (i : citem) : bool :=
  match i with
  | CChar x => Ascii.eqb x c
  | CRange lo hi => Nat.leb (byte_of lo) (byte_of c) && Nat.leb (byte_of c) (byte_of hi)
  end.
Definition class_match (neg : bool) (items : list citem) (c : ascii) : bool :=
  xorb neg (existsb (item_match c) items).

(* one pattern segment against one name; * ? and classes never match `/` *)
Fixpoint seg_match (p : list tok) (s : str) {struct p} : bool :=
  match p with
  | [] => null s
  | TLit x :: p' => match s with c :: s' => Ascii.eqb x c && seg_match p' s' | [] => false end
  | TAny :: p' => match s with c :: s' => negb (Ascii.eqb c ch_slash) && seg_match p' s' | [] => false end
  | TClass neg items :: p' =>
    match s with
    | c :: s' => negb (Ascii.eqb c ch_slash) && class_match neg items c && seg_match p' s'
    | [] => false end
  | TStar :: p' =>
    (fix star (s : str) : bool :=
       seg_match p' s ||
       match s with c :: s' => negb (Ascii.eqb c ch_slash) && star s' | [] => false end) s
  end.

Definition is_sep (t : tok) : bool := match t with TLit c => Ascii.eqb c ch_slash | _ => false end.
(* strings.Split(_, "/") on tokens / on names *)
Fixpoint split_toks (f : flat) : list (list tok) :=
  match f with
  | [] => [[]]
  | t :: f' =>
    if is_sep t then [] :: split_toks f'
    else match split_toks f' with x :: l => (t :: x) :: l | [] => [[t]] end
  end.
Fixpoint split_path (s : str) : list str :=
  match s with
  | [] => [[]]
  | c :: s' =>
    if Ascii.eqb c ch_slash then [] :: split_path s'
    else match split_path s' with x :: l => (c :: x) :: l | [] => [[c]] end
  end.

Definition nilb {A} (l : list A) : bool := match l with [] => true | _ => false end.
Inductive seg := SDouble | SPat (p : list tok).
Definition classify (p : list tok) : seg :=
  match p with [TStar; TStar] => SDouble | _ => SPat p end.
Definition segs_of (f : flat) : list seg := map classify (split_toks f).

(* `**` as a whole segment: zero or more directories; as the LAST segment (files only): one or more
   segments (glob.go globDoubleStar lists what is below the directory, never the directory) *)
Fixpoint path_match (ps : list seg) (ns : list str) {struct ps} : bool :=
  match ps with
  | [] => nilb ns
  | SPat p :: ps' => match ns with n :: ns' => seg_match p n && path_match ps' ns' | [] => false end
  | SDouble :: ps' =>
    match ps' with
    | [] => negb (nilb ns)
    | _ => (fix dd (ns : list str) : bool :=
              path_match ps' ns || match ns with _ :: ns' => dd ns' | [] => false end) ns
    end
  end.
Definition flat_match (f : flat) (s : str) : bool := path_match (segs_of f) (split_path s).

(* textual expansion of the alternatives (glob.go globAlts / buildAlt), leftmost group outermost *)
Fixpoint expand (p : pattern) : list flat :=
  match p with
  | [] => [[]]
  | PTok t :: p' => map (cons t) (expand p')
  | PAlt alts :: p' => flat_map (fun a => map (app a) (expand p')) alts
  end.
Definition matches (p : pattern) (s : str) : bool := existsb (fun f => flat_match f s) (expand p).
Definition smatch (g s : str) : bool := match parse g with Some p => matches p s | None => false end.

(* a construct other than a literal character *)
Definition tok_meta (t : tok) : bool := match t with TLit _ => false | _ => true end.
Definition ptok_meta (t : ptok) : bool := match t with PTok t => tok_meta t | PAlt _ => true end.
Definition has_meta (p : pattern) : bool := existsb ptok_meta p.
Definition lits (s : str) : pattern := map (fun c => PTok (TLit c)) s.

(* ---------- covered fragment (what the differential tie is allowed to exercise) ---------- *)
Definition esc_ok (c : ascii) : bool := mem_ch c [ch_star; ch_qm; ch_lbr; ch_rbr; ch_lbc; ch_rbc].
Fixpoint escapes_ok (s : str) : bool :=
  match s with
  | c :: r => if Ascii.eqb c ch_bsl then match r with e :: r1 => esc_ok e && escapes_ok r1 | [] => true end
              else escapes_ok r
  | [] => true
  end.
Fixpoint brace_depth_ok (d : nat) (s : str) : bool :=
  match s with
  | c :: r => if Ascii.eqb c ch_lbc then Nat.eqb d 0 && brace_depth_ok 1 r
              else if Ascii.eqb c ch_rbc then brace_depth_ok 0 r
              else brace_depth_ok d r
  | [] => true
  end.
Definition class_char_ok (c : ascii) : bool := negb (mem_ch c [ch_slash; ch_lbc; ch_rbc; ch_comma]).
Definition citem_ok (i : citem) : bool :=
  match i with CChar c => class_char_ok c | CRange lo hi => class_char_ok lo && class_char_ok hi
                                                             && negb (Nat.leb (byte_of lo) 47 && Nat.leb 47 (byte_of hi)) end.
Definition tok_ok (t : tok) : bool := match t with TClass _ items => forallb citem_ok items | _ => true end.
Definition dot : tok := TLit ch_dot.
Definition seg_ok (p : list tok) : bool :=
  match p with
  | [] => false
  | [TLit c] => negb (Ascii.eqb c ch_dot)
  | [TLit c; TLit d] => negb (Ascii.eqb c ch_dot && Ascii.eqb d ch_dot)
  | _ => true
  end.
(* three stars in a row: match.go isZeroLengthPattern only knows `*` and `**` (`a***` does not match `a`) *)
Fixpoint no_triple_star (f : flat) : bool :=
  match f with
  | TStar :: ((TStar :: TStar :: _) as f') => false
  | _ :: f' => no_triple_star f'
  | [] => true
  end.
Definition flat_ok (f : flat) : bool := forallb tok_ok f && forallb seg_ok (split_toks f) && no_triple_star f.
Definition ptok_ok (t : ptok) : bool := match t with PTok t => tok_ok t | PAlt alts => forallb (forallb tok_ok) alts end.
Definition covered (s : str) : bool :=
  escapes_ok s && brace_depth_ok 0 s &&
  match parse s with Some p => forallb ptok_ok p && forallb flat_ok (expand p) | None => true end.

(* ---------- resolveInputs ---------- *)
(* the package's files are a set: canonical order first.  Glob results are reported in this order
   (the consumers hash_target.go hashInputFiles / sorted() sort the list, so the order doublestar walks
   directories in is not observable in the key); a file is reported once per entry. *)
Definition canon (files : list str) : list str := dedup (sort_strs files).
Definition glob_files (files : list str) (g : str) : list str := filter (smatch g) (canon files).
(* inputs: literal entries kept as spelled, glob entries expanded *)
Definition resolve_entry (files : list str) (e : str) : list str :=
  if is_glob e then glob_files files e else [e].
(* exclude_inputs: EVERY entry goes through doublestar.Glob (a literal entry selects the file if present) *)
Definition excluded (files : list str) (excludes : list str) : list str :=
  flat_map (glob_files files) excludes.
Definition resolve_inputs (files inputs excludes : list str) : list str :=
  let r := flat_map (resolve_entry files) inputs in
  match excludes with
  | [] => r
  | _ => filter (fun x => negb (str_in x (excluded files excludes))) r
  end.
(* resolveInputs fails iff some glob entry / some exclude entry is malformed *)
Definition resolve_ok (inputs excludes : list str) : bool :=
  forallb (fun e => negb (is_glob e) || is_some (parse e)) inputs && forallb (fun e => is_some (parse e)) excludes.
