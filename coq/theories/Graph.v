(* Graph.v -- index-level dependency graphs shared by the selection, query, cost and walker
   models.  Node i's in-edges (its direct dependencies, in declaration order, duplicates
   allowed) are [deps g i]; aliases are ordinary nodes whose only dependency is their target. *)
From Coq Require Export List Arith Bool Lia.
Export ListNotations.

Definition graph := list (list nat).

Definition deps (g : graph) (i : nat) : list nat := nth i g [].
Definition size (g : graph) : nat := length g.

(* every edge points to an existing node *)
Definition wf_graph (g : graph) : Prop := forall i d, In d (deps g i) -> d < size g.
(* topological numbering: dependencies have smaller indices (every finite DAG has one) *)
Definition topo (g : graph) : Prop := forall i d, In d (deps g i) -> d < i.

Definition wf_graphb (g : graph) : bool :=
  forallb (fun ds => forallb (fun d => d <? length g) ds) g.
Fixpoint topob_from (i : nat) (g : graph) : bool :=
  match g with
  | [] => true
  | ds :: g' => forallb (fun d => d <? i) ds && topob_from (S i) g'
  end.
Definition topob (g : graph) : bool := topob_from 0 g.

(* [reach g a n]: a is a transitive dependency of n (one or more edges) *)
Inductive reach (g : graph) : nat -> nat -> Prop :=
| reach_step a n : In a (deps g n) -> reach g a n
| reach_trans a b n : reach g a b -> In b (deps g n) -> reach g a n.

Definition reach_refl (g : graph) (a n : nat) : Prop := a = n \/ reach g a n.

Definition mem_nat (x : nat) (l : list nat) : bool := existsb (Nat.eqb x) l.

(* out-edges (dependants) of i: one entry per edge occurrence, in node order *)
Definition dependants (g : graph) (i : nat) : list nat :=
  flat_map (fun j => map (fun _ => j) (filter (Nat.eqb i) (deps g j))) (seq 0 (size g)).

(* graph families used by the cost theorems and the correspondence *)
(* chain n: 0 <- 1 <- ... <- n-1 *)
Definition chain (n : nat) : graph := map (fun i => match i with 0 => [] | S j => [j] end) (seq 0 n).
(* ladder w d: d+1 layers of w nodes, each node depends on every node of the layer below *)
Definition ladder (w d : nat) : graph :=
  flat_map (fun l => map (fun _ => match l with 0 => [] | S l' => seq (l' * w) w end) (seq 0 w)) (seq 0 (S d)).
