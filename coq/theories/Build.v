(* Build.v -- sequential semantics of `grog build` over a history of source snapshots, taints,
   workspace perturbations and builds sharing one persistent cache.  Mirrors
   execution/execute.go (getTaskFunc, executeTarget, OnTargetComplete, LoadDependencyOutputs),
   output/registry.go (WriteOutputs, GetNoCacheOutputHash, LoadOutputs, validateTargetResultOutputs),
   handlers/file_output_handler.go (Write/Load), hashing/target_hasher.go and the walker's
   failure propagation -- including the behaviours that violate the properties (DESIGN.md app. B.1).
   Model only; H (the digest function) is a parameter.

   Targets are processed in index order, which is a topological order of the snapshot
   (dependencies have smaller indices).  Commands are the generator's commands: a deterministic
   function of the target's label, command text, declared inputs and the declared outputs of its
   direct (alias-resolved) dependencies. *)
From Grog Require Export Str Label HashKey.

Section Build.
Variable H : str -> str.

(* ------------------------------------------------------------------ sources *)
Inductive okind := OFile | ODir.
Record outdef := mkOut { o_kind : okind; o_path : str }.        (* path relative to the package *)

Inductive behaviour :=
| BNormal                      (* writes every declared output, exit 0 *)
| BFail                        (* exit 3 before writing anything *)
| BSkipOutput (k : nat)        (* exit 0 but does not create (and removes) declared output k *)
| BFailAfter                   (* writes the outputs, then exit 3 *)
| BBreakCheck.                 (* writes every declared output, exit 0, but DESTROYS the external condition its
                                  own output check inspects (instead of establishing it): the post-execution
                                  check fails although the pre-execution check may have passed *)

Record tdef := mkTD {
  td_label   : label;
  td_cmd     : str;                  (* command text: enters the key *)
  td_salt    : str;                  (* the part of the command text that is echoed into every output *)
  td_ins     : list str;             (* resolved inputs, relative to the package *)
  td_outs    : list outdef;          (* declared outputs (bin output last) *)
  td_deps    : list nat;             (* dependency node ids, declaration order *)
  td_fp      : list (str * str);
  td_nocache : bool;
  td_multi   : bool;
  td_beh     : behaviour;            (* what the command text does (fixed by the generator) *)
  td_check   : bool                  (* has an output check on the external condition of this target *)
}.

Inductive ndef := NTarget (t : tdef) | NAlias (l : label) (actual : nat).

Definition node_label (n : ndef) : label :=
  match n with NTarget t => td_label t | NAlias l _ => l end.
Definition node_deps (n : ndef) : list nat :=
  match n with NTarget t => td_deps t | NAlias _ a => [a] end.

(* one source snapshot *)
Record sources := mkSrc {
  s_nodes : list ndef;
  s_files : list (str * str)        (* workspace-relative path -> content of the input files *)
}.

Fixpoint alookup (k : str) (l : list (str * str)) : option str :=
  match l with
  | [] => None
  | (k', v) :: l' => if str_eqb k k' then Some v else alookup k l'
  end.

Definition full_path (pkg rel : str) : str :=
  match pkg with [] => rel | _ => pkg ++ ch_slash :: rel end.

(* ------------------------------------------------------------------ world and cache *)
(* what sits at an output path of the workspace *)
Inductive pstate :=
| PAbsent                     (* nothing there, parent directory exists *)
| PNoParent                   (* nothing there and the parent directory does not exist *)
| PFile (content : str)       (* the output (file bytes / canonical bytes of the directory tree) *)
| PWrongKind.                 (* a directory where a file is declared (a restore replaces it) *)

Record result := mkRes {
  r_outhash : str;
  r_outs    : list (str * str)      (* (output definition, digest); empty on the no-cache path *)
}.

Record cache := mkCache {
  c_results : list (str * result);  (* change key -> target result *)
  c_cas     : list (str * str);     (* digest -> content *)
  c_taint   : list label
}.

Definition empty_cache : cache := mkCache [] [] [].

Record world := mkWorld {
  w_ws  : list (str * pstate);      (* workspace-relative output path -> state (absent keys = PAbsent) *)
  w_ext : list label                (* external conditions (inspected by output checks) that hold *)
}.

Fixpoint rlookup (k : str) (l : list (str * result)) : option result :=
  match l with
  | [] => None
  | (k', v) :: l' => if str_eqb k k' then Some v else rlookup k l'
  end.

Fixpoint ws_get (p : str) (l : list (str * pstate)) : pstate :=
  match l with
  | [] => PAbsent
  | (p', s) :: l' => if str_eqb p p' then s else ws_get p l'
  end.
Definition ws_set (p : str) (s : pstate) (l : list (str * pstate)) : list (str * pstate) :=
  (p, s) :: filter (fun e => negb (str_eqb p (fst e))) l.

Definition label_in (l : label) (ls : list label) : bool := existsb (label_eqb l) ls.
Definition label_remove (l : label) (ls : list label) : list label :=
  filter (fun x => negb (label_eqb l x)) ls.

(* ------------------------------------------------------------------ configuration *)
Inductive lmode := LAll | LMinimal.
Record config := mkCfg { cfg_mode : lmode; cfg_cache : bool; cfg_failfast : bool }.

(* ------------------------------------------------------------------ per-build runtime state *)
Inductive tstatus :=
| TNone | THit | TExecuted | TFailed | TSkipped.

Record rt := mkRt {
  rt_key    : option str;           (* ChangeHash *)
  rt_ohash  : option str;           (* OutputHash *)
  rt_loaded : bool;                 (* OutputsLoaded *)
  rt_status : tstatus
}.
Definition rt0 : rt := mkRt None None false TNone.

Record bstate := mkB {
  b_world : world;
  b_cache : cache;
  b_rt    : list rt;                (* indexed by node id *)
  b_exec  : list label;             (* command starts, in order (a multiset for comparisons) *)
  b_stop  : bool                    (* fail-fast triggered *)
}.

Definition get_rt (b : bstate) (i : nat) : rt := nth i (b_rt b) rt0.
Fixpoint list_set {A} (i : nat) (x : A) (l : list A) : list A :=
  match l, i with
  | [], _ => []
  | _ :: l', 0 => x :: l'
  | y :: l', S i' => y :: list_set i' x l'
  end.
Definition set_rt (b : bstate) (i : nat) (r : rt) : bstate :=
  mkB (b_world b) (b_cache b) (list_set i r (b_rt b)) (b_exec b) (b_stop b).
Definition set_world (b : bstate) (w : world) : bstate :=
  mkB w (b_cache b) (b_rt b) (b_exec b) (b_stop b).
Definition set_cache (b : bstate) (c : cache) : bstate :=
  mkB (b_world b) c (b_rt b) (b_exec b) (b_stop b).

(* ------------------------------------------------------------------ outputs *)
Definition lit_file : str := ["f";"i";"l";"e";":";":"]%char.
Definition lit_dir  : str := ["d";"i";"r";":";":"]%char.
Definition nl : str := ["010"%char].
Definition sp : str := [" "%char].

Definition out_def (o : outdef) : str :=
  (match o_kind o with OFile => lit_file | ODir => lit_dir end) ++ o_path o.

(* digest of the content at an output path: files hash their bytes; a directory hashes its tree
   (modelled as a tagged digest of the canonical bytes of the tree; Tree.v refines this) *)
Definition out_digest (o : outdef) (content : str) : str :=
  match o_kind o with OFile => H content | ODir => H ("D"%char :: content) end.

(* the marshalled output record whose digest enters the output hash: path + digest *)
Definition ser_out (o : outdef) (dg : str) : str := out_def o ++ ["|"%char] ++ dg.

Definition nodes_of (s : sources) : list ndef := s_nodes s.
Definition node_at (s : sources) (i : nat) : option ndef := nth_error (s_nodes s) i.

(* resolve a dependency through aliases to the target it denotes (fuel = number of nodes) *)
Fixpoint resolve_alias (fuel : nat) (s : sources) (i : nat) : option (nat * tdef) :=
  match fuel with
  | 0 => None
  | S f => match node_at s i with
           | Some (NTarget t) => Some (i, t)
           | Some (NAlias _ a) => resolve_alias f s a
           | None => None
           end
  end.
Definition resolve (s : sources) (i : nat) : option (nat * tdef) :=
  resolve_alias (S (length (s_nodes s))) s i.

Definition pkg_of (t : tdef) : str := lpkg (td_label t).
Definition out_path (t : tdef) (o : outdef) : str := full_path (pkg_of t) (o_path o).

(* ------------------------------------------------------------------ the generated command *)
(* what the command of t reads: its inputs (sorted; a missing file is reported as absent) and every
   declared output of its direct, alias-resolved dependencies.  None = a dependency output is not
   there: the command fails. *)
Definition input_part (s : sources) (t : tdef) (p : str) : str :=
  match alookup (full_path (pkg_of t) p) (s_files s) with
  | Some c => ["I"%char] ++ sp ++ p ++ nl ++ c ++ nl
  | None => ["I"%char] ++ sp ++ p ++ sp ++ ["-"%char] ++ nl
  end.

Fixpoint dep_parts_of (ws : list (str * pstate)) (d : tdef) (outs : list outdef) : option str :=
  match outs with
  | [] => Some []
  | o :: outs' =>
      match ws_get (out_path d o) ws, dep_parts_of ws d outs' with
      | PFile c, Some rest => Some (["D"%char] ++ sp ++ out_path d o ++ nl ++ c ++ nl ++ rest)
      | _, _ => None
      end
  end.

Fixpoint dep_parts (s : sources) (ws : list (str * pstate)) (ds : list nat) : option str :=
  match ds with
  | [] => Some []
  | d :: ds' =>
      match resolve s d with
      | None => None
      | Some (_, dt) =>
          match dep_parts_of ws dt (td_outs dt), dep_parts s ws ds' with
          | Some a, Some b => Some (a ++ b)
          | _, _ => None
          end
      end
  end.

(* bytes the command writes into declared output number k *)
Definition content_of (s : sources) (t : tdef) (k : nat) (o : outdef) (reads : str) : str :=
  ["T"%char] ++ sp ++ print_label (td_label t) ++ sp ++ out_def o ++ sp ++ td_salt t ++ nl ++
  concat (map (input_part s t) (sort_strs (td_ins t))) ++ reads.

(* ------------------------------------------------------------------ key and hashes *)
Definition pkg_fs (s : sources) (t : tdef) : str -> option str :=
  fun p => alookup (full_path (pkg_of t) p) (s_files s).

Definition host_platform : option str := Some ["l";"x";"/";"a";"6";"4"]%char.

Definition state_of (t : tdef) (dephashes : list str) : tstate :=
  mkT (td_label t) (td_cmd t) (td_ins t) (map out_def (td_outs t)) dephashes (td_fp t)
      (if td_multi t then None else host_platform).

(* target_hasher.go: what the direct dependencies contribute to the key: "<label>=<output hash>" each
   (output hashes cover package-relative paths only, so the dependency's identity is part of its
   contribution); a dependency declared through an alias contributes as the target the alias resolves to *)
Definition dep_contrib (dt : tdef) (h : str) : str := print_label (td_label dt) ++ ch_eq :: h.

Fixpoint dep_hashes (s : sources) (b : bstate) (ds : list nat) : option (list str) :=
  match ds with
  | [] => Some []
  | d :: ds' =>
      match resolve s d, dep_hashes s b ds' with
      | Some (j, dt), Some rest =>
          match rt_ohash (get_rt b j) with
          | Some h => if null h then None else Some (dep_contrib dt h :: rest)
          | None => None
          end
      | _, _ => None
      end
  end.

(* ------------------------------------------------------------------ restoring outputs *)
(* FileOutputHandler.Load / DirectoryOutputHandler.Load for one output *)
Definition load_one (c : cache) (t : tdef) (o : outdef) (dg : str) (ws : list (str * pstate))
  : option (list (str * pstate)) :=
  let p := out_path t o in
  let cur := ws_get p ws in
  let same := match cur with PFile x => str_eqb (out_digest o x) dg | _ => false end in
  if same then Some ws
  else match alookup dg (c_cas c) with
       | None => None
       | Some content => Some (ws_set p (PFile content) ws)   (* a directory sitting at a file's path is
                                                                  removed first (Lstat + RemoveAll, C06-F3 repaired) *)
       end.

Definition find_out (outs : list outdef) (def : str) : option outdef :=
  find (fun o => str_eqb (out_def o) def) outs.

(* every output is attempted; the load fails if any of them failed *)
Fixpoint load_all (c : cache) (t : tdef) (rs : list (str * str)) (ws : list (str * pstate))
  : bool * list (str * pstate) :=
  match rs with
  | [] => (true, ws)
  | (def, dg) :: rs' =>
      match find_out (td_outs t) def with
      | None => let '(_, ws') := load_all c t rs' ws in (false, ws')
      | Some o =>
          match load_one c t o dg ws with
          | Some ws1 => load_all c t rs' ws1
          | None => let '(_, ws') := load_all c t rs' ws in (false, ws')
          end
      end
  end.

(* validateTargetResultOutputs: same sorted list of output definitions *)
Definition outputs_match (t : tdef) (r : result) : bool :=
  let a := sort_strs (map out_def (td_outs t)) in
  let b := sort_strs (map fst (r_outs r)) in
  Nat.eqb (length a) (length b) && forallb (fun ab => str_eqb (fst ab) (snd ab)) (combine a b).

(* Registry.LoadOutputs *)
Definition load_outputs (i : nat) (t : tdef) (r : result) (b : bstate) : bool * bstate :=
  if rt_loaded (get_rt b i) then (true, b)
  else if negb (outputs_match t r) then (false, b)
  else
    let '(ok, ws') := load_all (b_cache b) t (r_outs r) (w_ws (b_world b)) in
    let b1 := set_world b (mkWorld ws' (w_ext (b_world b))) in
    if ok then
      let x := get_rt b1 i in
      (true, set_rt b1 i (mkRt (rt_key x) (Some (r_outhash r)) true (rt_status x)))
    else (false, b1).

(* ------------------------------------------------------------------ executing a target *)
Definition check_ok (w : world) (t : tdef) : bool :=
  negb (td_check t) || label_in (td_label t) (w_ext w).

(* the command itself: returns the new workspace, or None when it exits non-zero *)
Fixpoint write_outs (s : sources) (t : tdef) (k : nat) (outs : list outdef) (reads : str)
         (skip : option nat) (ws : list (str * pstate)) : list (str * pstate) :=
  match outs with
  | [] => ws
  | o :: outs' =>
      let ws1 := match skip with
                 | Some j => if Nat.eqb j k then ws_set (out_path t o) PAbsent ws
                             else ws_set (out_path t o) (PFile (content_of s t k o reads)) ws
                 | None => ws_set (out_path t o) (PFile (content_of s t k o reads)) ws
                 end in
      write_outs s t (S k) outs' reads skip ws1
  end.

Definition run_command (s : sources) (t : tdef) (w : world) : option world :=
  match td_beh t with
  | BFail => None
  | beh =>
      match dep_parts s (w_ws w) (td_deps t) with
      | None => None
      | Some reads =>
          let skip := match beh with BSkipOutput k => Some k | _ => None end in
          let ws' := write_outs s t 0 (td_outs t) reads skip (w_ws w) in
          let ext' := if td_check t then
                        match beh with
                        | BBreakCheck => label_remove (td_label t) (w_ext w)
                        | _ => if label_in (td_label t) (w_ext w) then w_ext w else td_label t :: w_ext w
                        end
                      else w_ext w in
          match beh with
          | BFailAfter => None          (* the writes happened, but they are observed only through ws *)
          | _ => Some (mkWorld ws' ext')
          end
      end
  end.

(* effect of a failing command on the workspace (BFailAfter writes before failing) *)
Definition run_command_failed_world (s : sources) (t : tdef) (w : world) : world :=
  match td_beh t with
  | BFailAfter =>
      match dep_parts s (w_ws w) (td_deps t) with
      | Some reads => mkWorld (write_outs s t 0 (td_outs t) reads None (w_ws w)) (w_ext w)
      | None => w
      end
  | _ => w
  end.

(* digests of the outputs as they are in the workspace now; None = some declared output is missing *)
Fixpoint present_digests (t : tdef) (outs : list outdef) (ws : list (str * pstate))
  : option (list (outdef * str * str)) :=
  match outs with
  | [] => Some []
  | o :: outs' =>
      match ws_get (out_path t o) ws, present_digests t outs' ws with
      | PFile c, Some rest => Some ((o, out_digest o c, c) :: rest)
      | _, _ => None
      end
  end.

Definition cas_add (dg content : str) (cas : list (str * str)) : list (str * str) :=
  match alookup dg cas with Some _ => cas | None => (dg, content) :: cas end.

Definition results_set (k : str) (r : result) (l : list (str * result)) : list (str * result) :=
  (k, r) :: filter (fun e => negb (str_eqb k (fst e))) l.

(* OnTargetComplete; None = error (declared output missing) *)
Definition on_complete (cfg : config) (i : nat) (t : tdef) (key : str) (b : bstate) : option bstate :=
  let c := b_cache b in
  match present_digests t (td_outs t) (w_ws (b_world b)) with
  | None =>
      match td_outs t with
      | [] => None (* unreachable: present_digests [] = Some [] *)
      | _ => None
      end
  | Some ds =>
      let '(res, cas') :=
        if td_nocache t || negb (cfg_cache cfg) then
          (mkRes (nocache_output_hash H (map (fun e => (out_def (fst (fst e)), snd (fst e))) ds)) [], c_cas c)
        else match td_outs t with
             | [] => (mkRes key [], c_cas c)
             | _ =>
                 (mkRes (output_hash H (map (fun e => ser_out (fst (fst e)) (snd (fst e))) ds))
                        (map (fun e => (out_def (fst (fst e)), snd (fst e))) ds),
                  fold_left (fun cas e => cas_add (snd (fst e)) (snd e) cas) ds (c_cas c))
             end in
      (* a disabled cache is not written (C02-F2 / C13-F1 repaired): only the runtime entry changes *)
      let c' := if cfg_cache cfg then mkCache (results_set key res (c_results c)) cas' (c_taint c) else c in
      let b1 := set_cache b c' in
      let x := get_rt b1 i in
      Some (set_rt b1 i (mkRt (rt_key x) (Some (r_outhash res)) true (rt_status x)))
  end.

Definition mark (b : bstate) (i : nat) (st : tstatus) : bstate :=
  let x := get_rt b i in set_rt b i (mkRt (rt_key x) (rt_ohash x) (rt_loaded x) st).

Definition add_exec (b : bstate) (l : label) : bstate :=
  mkB (b_world b) (b_cache b) (b_rt b) (b_exec b ++ [l]) (b_stop b).

(* Executor.executeTarget: true = success *)
Definition execute (cfg : config) (s : sources) (i : nat) (t : tdef) (key : str) (tainted : bool)
           (b : bstate) : bool * bstate :=
  let b0 := if null (td_cmd t) then b else add_exec b (td_label t) in
  let ran := if null (td_cmd t) then Some (b_world b0) else run_command s t (b_world b0) in
  match ran with
  | None => (false, set_world b0 (run_command_failed_world s t (b_world b0)))
  | Some w' =>
      let b1 := set_world b0 w' in
      if negb (check_ok w' t) then (false, b1)
      else match on_complete cfg i t key b1 with
           | None => (false, b1)
           | Some b2 =>
               let c := b_cache b2 in
               let b3 := if tainted
                         then set_cache b2 (mkCache (c_results c) (c_cas c) (label_remove (td_label t) (c_taint c)))
                         else b2 in
               (true, b3)
           end
  end.

(* Executor.LoadDependencyOutputs (load_outputs=minimal).  Direct dependencies, aliases resolved
   to their targets; a dependency whose outputs are already in place (executed or restored earlier
   in this build) needs nothing; a dependency whose result cannot be read is re-run and the loop RETURNS;
   a dependency whose outputs cannot be loaded (or a no-cache dependency whose outputs are not in
   place yet) is re-run after loading its own dependencies. *)
Fixpoint load_dep_outputs (fuel : nat) (cfg : config) (s : sources) (ds : list nat) (b : bstate)
  : bool * bstate :=
  match fuel with
  | 0 => (false, b)
  | S f =>
      match ds with
      | [] => (true, b)
      | d0 :: ds' =>
          match resolve s d0 with
          | Some (d, dt) =>
              if rt_loaded (get_rt b d) then load_dep_outputs f cfg s ds' b   (* outputs already in place *)
              else
              match rt_key (get_rt b d) with
              | None => (false, b)
              | Some dkey =>
                  match rlookup dkey (c_results (b_cache b)) with
                  | None => execute cfg s d dt dkey false b           (* rerun; return *)
                  | Some r =>
                      let '(ok, b1) := load_outputs d dt r b in
                      if negb ok || (td_nocache dt && negb (rt_loaded (get_rt b1 d))) then
                        let '(ok2, b2) := load_dep_outputs f cfg s (td_deps dt) b1 in
                        if negb ok2 then (false, b2)
                        else let '(ok3, b3) := execute cfg s d dt dkey false b2 in
                             if ok3 then load_dep_outputs f cfg s ds' b3 else (false, b3)
                      else load_dep_outputs f cfg s ds' b1
                  end
              end
          | None => load_dep_outputs f cfg s ds' b
          end
      end
  end.

(* the task of one target (getTaskFunc) *)
Definition process_target (cfg : config) (s : sources) (i : nat) (t : tdef) (b : bstate) : bstate :=
  match dep_hashes s b (td_deps t) with
  | None => mark b i TFailed
  | Some dh =>
      let key := change_key H (pkg_fs s t) (state_of t dh) in
      let x := get_rt b i in
      let b := set_rt b i (mkRt (Some key) (rt_ohash x) (rt_loaded x) (rt_status x)) in
      let c := b_cache b in
      let r := rlookup key (c_results c) in
      let tainted := label_in (td_label t) (c_taint c) in
      let try_hit :=
        match r with
        | Some res =>
            if negb tainted && negb (td_nocache t) && cfg_cache cfg && check_ok (b_world b) t then
              match cfg_mode cfg with
              | LMinimal =>
                  let y := get_rt b i in
                  (true, set_rt b i (mkRt (rt_key y) (Some (r_outhash res)) (rt_loaded y) (rt_status y)))
              | LAll => load_outputs i t res b
              end
            else (false, b)
        | None => (false, b)
        end in
      let '(hit, b1) := try_hit in
      if hit then mark b1 i THit
      else
        let '(okd, b2) :=
          match cfg_mode cfg with
          | LMinimal => load_dep_outputs (S (length (s_nodes s))) cfg s (td_deps t) b1
          | LAll => (true, b1)
          end in
        if negb okd then mark b2 i TFailed
        else let '(ok, b3) := execute cfg s i t key tainted b2 in
             mark b3 i (if ok then TExecuted else TFailed)
  end.

Definition dep_ok (b : bstate) (d : nat) : bool :=
  match rt_status (get_rt b d) with THit | TExecuted => true | _ => false end.

(* one node of the walk: skipped unless every in-edge dependency succeeded *)
Definition process_node (cfg : config) (s : sources) (sel : list nat) (b : bstate) (i : nat) : bstate :=
  if negb (existsb (Nat.eqb i) sel) then b
  else if b_stop b then mark b i TSkipped
  else match node_at s i with
       | None => b
       | Some n =>
           if negb (forallb (dep_ok b) (node_deps n)) then mark b i TSkipped
           else match n with
                | NAlias _ _ => mark b i THit
                | NTarget t =>
                    let b' := process_target cfg s i t b in
                    match rt_status (get_rt b' i) with
                    | TFailed => if cfg_failfast cfg
                                 then mkB (b_world b') (b_cache b') (b_rt b') (b_exec b') true else b'
                    | _ => b'
                    end
                end
       end.

(* selection: the roots and everything they transitively depend on (fuel = number of nodes) *)
Fixpoint closure (fuel : nat) (s : sources) (todo : list nat) (acc : list nat) : list nat :=
  match fuel with
  | 0 => acc
  | S f =>
      match todo with
      | [] => acc
      | _ =>
          let new := filter (fun i => negb (existsb (Nat.eqb i) acc)) todo in
          let acc' := acc ++ new in
          closure f s (flat_map (fun i => match node_at s i with Some n => node_deps n | None => [] end) new) acc'
      end
  end.

Definition selection (s : sources) (roots : list nat) : list nat :=
  closure (S (length (s_nodes s))) s roots [].

Record build_result := mkBR {
  br_world  : world;
  br_cache  : cache;
  br_status : list tstatus;
  br_exec   : list label;
  br_ok     : bool                 (* exit status 0 *)
}.

Definition build (cfg : config) (s : sources) (roots : list nat) (w : world) (c : cache) : build_result :=
  let n := length (s_nodes s) in
  let sel := selection s roots in
  let b0 := mkB w c (repeat rt0 n) [] false in
  let b := fold_left (process_node cfg s sel) (seq 0 n) b0 in
  let sts := map rt_status (b_rt b) in
  mkBR (b_world b) (b_cache b) sts (b_exec b)
       (negb (existsb (fun st => match st with TFailed => true | _ => false end) sts)).

(* ------------------------------------------------------------------ histories *)
Inductive op :=
| OpSources (s : sources)                         (* any edit: the next builds see this snapshot *)
| OpTaint (ls : list label)                       (* grog taint *)
| OpPerturb (p : str) (st : pstate)               (* something happens to an output path *)
| OpDestroyExt (l : label)                        (* the external condition of a check is destroyed *)
| OpDropBlob (p : str)                            (* cache fault: the CAS blob holding the bytes that currently sit at the
                                                     output path p is lost (the file's blob; for a directory output its one
                                                     blob: whichever of the tree or its files the real fault hits) *)
| OpDropResults                                   (* cache fault: every stored target result is lost (the CAS stays) *)
| OpBuild (cfg : config) (roots : list nat).

Record sys := mkSys {
  sy_src   : sources;
  sy_world : world;
  sy_cache : cache;
  sy_log   : list build_result        (* one entry per OpBuild, oldest first *)
}.

Definition sys0 : sys := mkSys (mkSrc [] []) (mkWorld [] []) empty_cache [].

Definition step_op (y : sys) (o : op) : sys :=
  match o with
  | OpSources s => mkSys s (sy_world y) (sy_cache y) (sy_log y)
  | OpTaint ls =>
      let c := sy_cache y in
      mkSys (sy_src y) (sy_world y)
            (mkCache (c_results c) (c_cas c) (ls ++ filter (fun l => negb (label_in l ls)) (c_taint c)))
            (sy_log y)
  | OpPerturb p st =>
      mkSys (sy_src y) (mkWorld (ws_set p st (w_ws (sy_world y))) (w_ext (sy_world y))) (sy_cache y) (sy_log y)
  | OpDestroyExt l =>
      mkSys (sy_src y) (mkWorld (w_ws (sy_world y)) (label_remove l (w_ext (sy_world y)))) (sy_cache y) (sy_log y)
  | OpDropBlob p =>
      let c := sy_cache y in
      match ws_get p (w_ws (sy_world y)) with
      | PFile content =>
          mkSys (sy_src y) (sy_world y)
                (mkCache (c_results c)
                         (filter (fun e => negb (str_eqb (H content) (fst e) || str_eqb (H ("D"%char :: content)) (fst e))) (c_cas c))
                         (c_taint c))
                (sy_log y)
      | _ => y
      end
  | OpDropResults =>
      let c := sy_cache y in
      mkSys (sy_src y) (sy_world y) (mkCache [] (c_cas c) (c_taint c)) (sy_log y)
  | OpBuild cfg roots =>
      let r := build cfg (sy_src y) roots (sy_world y) (sy_cache y) in
      mkSys (sy_src y) (br_world r) (br_cache r) (sy_log y ++ [r])
  end.

Definition run_history (ops : list op) : sys := fold_left step_op ops sys0.

(* the from-scratch build of the current sources: empty cache, no prior outputs *)
Definition clean_build (cfg : config) (s : sources) (roots : list nat) (ext : list label) : build_result :=
  build cfg s roots (mkWorld [] ext) empty_cache.

End Build.
