(* Analysis.v -- executable mirror of what grog does to a loaded set of packages before
   anything runs (engine `analysis`, property C11), and the declarative [defect_free].
   Definitions only.

     model.BuildNodeMapFromPackages    [has_dup]
     analysis.BuildGraph               [has_missing] [has_self] [find_cycle] [has_conflict]
       dag.AddEdge, dag.FindCycle, analysis.detectOutputConflicts / targetsAreOrdered /
       getAncestorSet / cleanOutputPath (reads the workspace root from config.Global, [rootc] here)
     analysis.CheckTargetConstraints   [has_bad_input] [has_bad_output] [has_test_nocmd]
                                       [has_bad_dep]

   Call order in the CLI (loading/load_graph.go, cmd/cmds/{check,build}.go): node map, then
   BuildGraph (logger.Fatalf on error), then CheckTargetConstraints (all errors printed,
   exit 1), then -- `grog build` only -- selection and execution.  Which error Go reports
   first inside BuildGraph depends on map iteration; [classes] therefore returns the SET of
   defect classes, structured like the code: a duplicate label hides everything else; an edge
   error (missing / self loop) hides cycle and conflict; a cycle hides conflicts.  The
   constraint classes are computed independently of BuildGraph (the harness calls
   CheckTargetConstraints on every node map; the CLI only reaches it when BuildGraph passed).

   Abstractions (each covered by the differential tie in tools/c11.py):
   - a set of packages is the flat list of its nodes (targets and aliases); Go's per-package
     maps cannot hold two targets of one label, the flat list can, and [has_dup] rejects them
     the way BuildNodeMapFromPackages rejects a label seen twice across packages / kinds;
   - output types are the three the loader lets through (file, dir, docker);
   - dag's outEdges lists are in map-iteration order in Go and in list order here (the answers
     modelled do not depend on that order);
   - getAncestorSet's explicit stack is a recursion here and its memo cache is omitted (a cached
     entry is always the complete ancestor set of its key, so using it changes no answer);
   - the four pair loops of detectOutputConflicts are one pass over all pairs of output
     records with the per-kind test. *)
From Grog Require Export Str Label Path.

Inductive otype := OFile | ODir | ODocker.
Record output := mkOut { o_type : otype; o_id : str }.

Record target := mkTarget {
  t_label : label;
  t_deps : list label;
  t_inputs : list str;
  t_outputs : list output;
  t_bin : str;              (* bin_output identifier, "" = not set (Output.IsSet) *)
  t_tags : list str;
  t_nocmd : bool            (* Command == "" *)
}.

Inductive node := NTarget (t : target) | NAlias (l : label) (actual : label).
Definition nodes := list node.

Definition node_label (n : node) : label :=
  match n with NTarget t => t_label t | NAlias l _ => l end.
(* BuildNode.GetDependencies *)
Definition node_deps (n : node) : list label :=
  match n with NTarget t => t_deps t | NAlias _ a => [a] end.
Definition labels (g : nodes) : list label := map node_label g.
Definition label_in (l : label) (ls : list label) : bool := existsb (label_eqb l) ls.

(* ---------------------------------------------------------------- BuildNodeMapFromPackages *)
Fixpoint has_dup (ls : list label) : bool :=
  match ls with
  | [] => false
  | l :: r => label_in l r || has_dup r
  end.

Definition lookup (g : nodes) (l : label) : option node :=
  find (fun n => label_eqb (node_label n) l) g.

(* ---------------------------------------------------------------- BuildGraph: edges *)
(* nodes[depLabel] == nil *)
Definition has_missing (g : nodes) : bool :=
  existsb (fun n => existsb (fun d => negb (label_in d (labels g))) (node_deps n)) g.
(* AddEdge: from == to (pointer equality; same pointer iff same label in a node map) *)
Definition has_self (g : nodes) : bool :=
  existsb (fun n => existsb (label_eqb (node_label n)) (node_deps n)) g.

(* outEdges[x]: one entry per edge occurrence *)
Definition dependants (g : nodes) (x : label) : list label :=
  flat_map (fun n => map (fun _ => node_label n) (filter (label_eqb x) (node_deps n))) g.

(* ---------------------------------------------------------------- FindCycle *)
(* NodesAlphabetically: by label.String() *)
Definition label_leb (a b : label) : bool := str_leb (print_label a) (print_label b).
Fixpoint insert_label (x : label) (l : list label) : list label :=
  match l with
  | [] => [x]
  | y :: l' => if label_leb x y then x :: l else y :: insert_label x l'
  end.
Definition sort_labels (l : list label) : list label := fold_right insert_label [] l.

Inductive dfs_res := DfsCycle | DfsFuel | DfsDone (black : list label).

(* depthFirstSearch(x): [grey] = nodes with visited == 1 below x on the stack, [black] =
   visited == 2.  Fuel bounds the recursion depth; [DfsFuel] is a distinct answer. *)
Fixpoint dfs_visit (fuel : nat) (g : nodes) (grey black : list label) (x : label) : dfs_res :=
  match fuel with
  | 0 => DfsFuel
  | S f =>
      let fix go (todo : list label) (black : list label) : dfs_res :=
        match todo with
        | [] => DfsDone (x :: black)
        | y :: rest =>
            if negb (label_in y (x :: grey)) && negb (label_in y black) then   (* visited == 0 *)
              match dfs_visit f g (x :: grey) black y with
              | DfsDone black' => go rest black'
              | r => r
              end
            else if label_in y (x :: grey) then DfsCycle                       (* visited == 1 *)
            else go rest black                                                  (* visited == 2 *)
        end in
      go (dependants g x) black
  end.

Fixpoint dfs_all (fuel : nat) (g : nodes) (order : list label) (black : list label) : dfs_res :=
  match order with
  | [] => DfsDone black
  | x :: rest =>
      if label_in x black then dfs_all fuel g rest black
      else match dfs_visit fuel g [] black x with
           | DfsDone black' => dfs_all fuel g rest black'
           | r => r
           end
  end.

Definition find_cycle (g : nodes) : dfs_res :=
  dfs_all (S (length g)) g (sort_labels (labels g)) [].

(* ---------------------------------------------------------------- ancestor sets *)
(* graph.GetDependencies(node): the in-edges, i.e. the dependency labels (all present once
   the edge phase passed) *)
Definition deps_of (g : nodes) (l : label) : list label :=
  match lookup g l with Some n => node_deps n | None => [] end.

(* getAncestorSet's loop: pop a, skip it if seen, else add it and push its dependencies *)
Fixpoint anc_visit (fuel : nat) (g : nodes) (set : list label) (a : label) : list label :=
  match fuel with
  | 0 => set
  | S f => if label_in a set then set
           else fold_left (anc_visit f g) (deps_of g a) (a :: set)
  end.
Definition ancestor_set (g : nodes) (n : label) : list label :=
  fold_left (anc_visit (length g) g) (deps_of g n) [].

(* targetsAreOrdered *)
Definition ordered (g : nodes) (a b : label) : bool :=
  label_in b (ancestor_set g a) || label_in a (ancestor_set g b).

(* ---------------------------------------------------------------- detectOutputConflicts *)
(* Target.AllOutputs *)
Definition all_outputs (t : target) : list output :=
  t_outputs t ++ (if null (t_bin t) then [] else [mkOut OFile (t_bin t)]).

Record orec := mkRec { r_owner : label; r_type : otype; r_key : str }.

(* path outputs are keyed by cleanOutputPath, which reads config.Global.WorkspaceRoot: the
   workspace-relative form of the place the output denotes *)
Definition rec_of (rootc : list str) (t : target) (o : output) : orec :=
  mkRec (t_label t) (o_type o)
        (match o_type o with
         | ODocker => o_id o
         | _ => clean_output_path rootc (lpkg (t_label t)) (o_id o)
         end).

Definition records (rootc : list str) (g : nodes) : list orec :=
  flat_map (fun n => match n with
                     | NTarget t => map (rec_of rootc t) (all_outputs t)
                     | NAlias _ _ => []
                     end) g.

Definition keys_clash (r1 r2 : orec) : bool :=
  match r_type r1, r_type r2 with
  | ODocker, ODocker => str_eqb (r_key r1) (r_key r2)
  | OFile, OFile => str_eqb (r_key r1) (r_key r2)
  | ODir, ODir => paths_overlap (r_key r1) (r_key r2)
  | ODir, OFile => path_within (r_key r2) (r_key r1)
  | OFile, ODir => path_within (r_key r1) (r_key r2)
  | _, _ => false
  end.

Definition conflict_pair (g : nodes) (r1 r2 : orec) : bool :=
  negb (ordered g (r_owner r1) (r_owner r2)) && keys_clash r1 r2.

Fixpoint pairs {A : Type} (l : list A) : list (A * A) :=
  match l with
  | [] => []
  | x :: r => map (pair x) r ++ pairs r
  end.

Definition has_conflict (rootc : list str) (g : nodes) : bool :=
  existsb (fun p => conflict_pair g (fst p) (snd p)) (pairs (records rootc g)).

(* ---------------------------------------------------------------- CheckTargetConstraints *)
Definition test_lit : str := ["t"; "e"; "s"; "t"]%char.
Definition testonly_lit : str := ["t"; "e"; "s"; "t"; "o"; "n"; "l"; "y"]%char.
(* strings.HasSuffix *)
Definition has_suffix (suf s : str) : bool := has_prefix (rev suf) (rev s).
Definition is_test (t : target) : bool := has_suffix test_lit (lname (t_label t)).
Definition is_testonly (t : target) : bool := str_in testonly_lit (t_tags t).

Definition targets_of (g : nodes) : list target :=
  flat_map (fun n => match n with NTarget t => [t] | NAlias _ _ => [] end) g.

(* checkInputPathsRelative *)
Definition bad_input (i : str) : bool := is_abs i || tries_to_escape i.
Definition has_bad_input (g : nodes) : bool :=
  existsb (fun t => existsb bad_input (t_inputs t)) (targets_of g).

(* checkOutputsAreWithinRepository: ranges over pathOutputs(target), the identifiers of the
   file and dir outputs (bin output included); docker outputs are image tags *)
Definition bad_path (rootc : list str) (pkg id : str) : bool :=
  is_abs id || negb (is_within_workspace rootc pkg id).
Definition is_path (o : output) : bool := match o_type o with ODocker => false | _ => true end.
Definition path_outputs (t : target) : list str := map o_id (filter is_path (all_outputs t)).
Definition has_bad_output (rootc : list str) (g : nodes) : bool :=
  existsb (fun t => existsb (bad_path rootc (lpkg (t_label t))) (path_outputs t)) (targets_of g).

Definition has_test_nocmd (g : nodes) : bool :=
  existsb (fun t => is_test t && t_nocmd t) (targets_of g).

(* resolveDependencyTarget: follow aliases; Go stops on a label seen before, the fuel runs out
   exactly when a label repeats within |g|+1 steps *)
Fixpoint resolve_dep (fuel : nat) (g : nodes) (l : label) : option target :=
  match fuel with
  | 0 => None
  | S f => match lookup g l with
           | None => None
           | Some (NTarget t) => Some t
           | Some (NAlias _ a) => resolve_dep f g a
           end
  end.

(* checkDependencyConstraints, one dependency of one target *)
Definition bad_dep (g : nodes) (t : target) (d : label) : bool :=
  match resolve_dep (S (length g)) g d with
  | None => false
  | Some dt =>
      (is_test dt && negb (is_test t))
      || (is_testonly dt && negb (is_testonly t) && negb (is_test t))
  end.
Definition has_bad_dep (g : nodes) : bool :=
  existsb (fun t => existsb (bad_dep g t) (t_deps t)) (targets_of g).

(* ---------------------------------------------------------------- verdict *)
Inductive cls :=
  Dup | Missing | SelfLoop | Cycle | CycleFuel | Conflict | InputPath | OutputPath | TestNoCmd | DepRule.

Definition flag (b : bool) (c : cls) : list cls := if b then [c] else [].

Definition edge_classes (g : nodes) : list cls :=
  flag (has_missing g) Missing ++ flag (has_self g) SelfLoop.

(* what BuildGraph can report *)
Definition graph_classes (rootc : list str) (g : nodes) : list cls :=
  match edge_classes g with
  | [] => match find_cycle g with
          | DfsCycle => [Cycle]
          | DfsFuel => [CycleFuel]
          | DfsDone _ => flag (has_conflict rootc g) Conflict
          end
  | e => e
  end.

(* what CheckTargetConstraints reports *)
Definition constraint_classes (rootc : list str) (g : nodes) : list cls :=
  flag (has_bad_input g) InputPath ++ flag (has_bad_output rootc g) OutputPath
  ++ flag (has_test_nocmd g) TestNoCmd ++ flag (has_bad_dep g) DepRule.

Definition classes (rootc : list str) (g : nodes) : list cls :=
  if has_dup (labels g) then [Dup]
  else graph_classes rootc g ++ constraint_classes rootc g.

Inductive verdict := Accept | Reject (cs : list cls).

Definition validate (rootc : list str) (g : nodes) : verdict :=
  match classes rootc g with
  | [] => Accept
  | cs => Reject cs
  end.

(* ================================================================= specification *)
(* [edge g a n]: a is a direct dependency of n (aliases are nodes: alias -> actual) *)
Definition edge (g : nodes) (a n : label) : Prop :=
  exists nd, In nd g /\ node_label nd = n /\ In a (node_deps nd).

(* [reach g a n]: a is a transitive dependency of n, one or more edges *)
Inductive reach (g : nodes) : label -> label -> Prop :=
| reach_step a n : edge g a n -> reach g a n
| reach_trans a b n : reach g a b -> edge g b n -> reach g a n.

Definition no_dup_labels (g : nodes) : Prop := NoDup (labels g).
Definition no_dangling (g : nodes) : Prop :=
  forall nd d, In nd g -> In d (node_deps nd) -> In d (labels g).
(* covers self reference and cycles through aliases *)
Definition acyclic (g : nodes) : Prop := ~ exists n, reach g n n.

Definition ordered_spec (g : nodes) (a b : label) : Prop := reach g a b \/ reach g b a.

(* where an output lives *)
Inductive place :=
| PTag (tag : str)
| PFile (loc : list str)
| PDir (loc : list str).

Definition place_of (rootc : list str) (t : target) (o : output) : place :=
  match o_type o with
  | ODocker => PTag (o_id o)
  | OFile => PFile (location rootc (lpkg (t_label t)) (o_id o))
  | ODir => PDir (location rootc (lpkg (t_label t)) (o_id o))
  end.

Definition is_prefix (a b : list str) : Prop := exists r, b = a ++ r.

(* same image tag / same file / nested or equal directories / a file inside a directory *)
Definition overlap (p q : place) : Prop :=
  match p, q with
  | PTag a, PTag b => a = b
  | PFile a, PFile b => a = b
  | PDir a, PDir b => is_prefix a b \/ is_prefix b a
  | PDir d, PFile f => is_prefix d f
  | PFile f, PDir d => is_prefix d f
  | _, _ => False
  end.

(* no two targets, unordered by dependency, whose outputs overlap *)
Definition no_conflict (rootc : list str) (g : nodes) : Prop :=
  forall t1 t2 o1 o2,
    In (NTarget t1) g -> In (NTarget t2) g -> t_label t1 <> t_label t2 ->
    In o1 (all_outputs t1) -> In o2 (all_outputs t2) ->
    overlap (place_of rootc t1 o1) (place_of rootc t2 o2) ->
    ordered_spec g (t_label t1) (t_label t2).

(* every input is a relative path that stays inside its package *)
Definition inputs_ok (g : nodes) : Prop :=
  forall t i, In (NTarget t) g -> In i (t_inputs t) -> is_abs i = false /\ resolve i <> None.

(* every path output (file or directory) is relative and lies inside the workspace *)
Definition output_ok (rootc : list str) (t : target) (o : output) : Prop :=
  is_abs (o_id o) = false /\ is_prefix rootc (location rootc (lpkg (t_label t)) (o_id o)).
Definition outputs_ok (rootc : list str) (g : nodes) : Prop :=
  forall t o, In (NTarget t) g -> In o (all_outputs t) -> o_type o <> ODocker -> output_ok rootc t o.

Definition test_name (l : label) : Prop := exists pre, lname l = pre ++ test_lit.
Definition testonly_tag (t : target) : Prop := In testonly_lit (t_tags t).

(* grog's extra rule, not in the property's list (DESIGN 5.C11, Domain) *)
Definition tests_have_commands (g : nodes) : Prop :=
  forall t, In (NTarget t) g -> test_name (t_label t) -> t_nocmd t = false.

(* the target a dependency label stands for, aliases followed *)
Inductive resolves_to (g : nodes) : label -> target -> Prop :=
| res_target t : In (NTarget t) g -> resolves_to g (t_label t) t
| res_alias l a t : In (NAlias l a) g -> resolves_to g a t -> resolves_to g l t.

(* only tests depend on tests; only tests and testonly targets depend on testonly targets
   (docs/reference/target-configuration: "Non-test, non-testonly targets may not depend on
   testonly targets (test targets may)") *)
Definition deprules_ok (g : nodes) : Prop :=
  forall t d dt, In (NTarget t) g -> In d (t_deps t) -> resolves_to g d dt ->
    (test_name (t_label dt) -> test_name (t_label t)) /\
    (testonly_tag dt -> test_name (t_label t) \/ testonly_tag t).

Definition defect_free (rootc : list str) (g : nodes) : Prop :=
  no_dup_labels g /\ no_dangling g /\ acyclic g /\ no_conflict rootc g /\
  inputs_ok g /\ outputs_ok rootc g /\ tests_have_commands g /\ deprules_ok g.

(* ---------------------------------------------------------------- guards of the partial theorem *)
(* a path element as Clean leaves it: non-empty, no '/', not "." and not ".." *)
Definition plain_comp (c : str) : Prop := c <> [] /\ ~ In ch_slash c /\ c <> dot /\ c <> dotdot.
Definition clean_root (rootc : list str) : Prop := rootc <> [] /\ Forall plain_comp rootc.

(* former guard G2 (gone: conflicts are decided on the workspace-relative form, whatever the
   spelling), kept to state that the witnesses of the repaired finding lie outside it:
   <pkg>/<id> read as a relative path from the workspace root never leaves the root on the way
   (it may end AT the root: dir::.. from a top-level package) *)
Definition plain_output (t : target) (o : output) : Prop :=
  resolve_from [] (split_slash (lpkg (t_label t)) ++ split_slash (o_id o)) <> None.
Definition plain_outputs (g : nodes) : Prop :=
  forall t o, In (NTarget t) g -> In o (all_outputs t) -> o_type o <> ODocker -> plain_output t o.

(* G3: no target declares two overlapping outputs of its own *)
Definition no_self_overlap (rootc : list str) (g : nodes) : Prop :=
  forall t o1 o2, In (NTarget t) g -> In (o1, o2) (pairs (all_outputs t)) ->
    ~ overlap (place_of rootc t o1) (place_of rootc t o2).

(* package paths are relative (they come from filepath.Rel) -- met by the witnesses; no theorem
   needs it any more *)
Definition rel_pkgs (g : nodes) : Prop := forall t, In (NTarget t) g -> is_abs (lpkg (t_label t)) = false.
Definition rel_outputs (g : nodes) : Prop :=
  forall t o, In (NTarget t) g -> In o (all_outputs t) -> o_type o <> ODocker -> is_abs (o_id o) = false.
