(* Label_proofs.v -- lemmas about Label.v (C17).  Statements fixed; proofs below. *)
From Grog Require Import Str Label.

(* ------------------------------------------------------------------ labels *)

Lemma parse_label_wf cur s l : parse_label cur s = Some l -> valid_name (lname l) = true.
Proof. Admitted.

(* for "//" labels the package is the text before the first colon (or the whole body) *)
Lemma parse_label_abs_pkg cur s l :
  has_prefix dslash s = true -> parse_label cur s = Some l -> ~ In ch_colon (lpkg l).
Proof. Admitted.

Theorem label_roundtrip cur s l :
  parse_label cur s = Some l -> ~ In ch_colon (lpkg l) ->
  forall cur', parse_label cur' (print_label l) = Some l.
Proof. Admitted.

Theorem label_roundtrip_abs cur s l :
  has_prefix dslash s = true -> parse_label cur s = Some l ->
  forall cur', parse_label cur' (print_label l) = Some l.
Proof. Admitted.

(* "//a/b" means "//a/b:b" *)
Theorem label_shorthand cur p :
  ~ In ch_colon p ->
  parse_label cur (dslash ++ p) = parse_label cur (dslash ++ p ++ ch_colon :: after_last ch_slash p).
Proof. Admitted.

Theorem label_shorthand_value cur p :
  ~ In ch_colon p -> valid_name (after_last ch_slash p) = true ->
  parse_label cur (dslash ++ p) = Some (mkLabel p (after_last ch_slash p)).
Proof. Admitted.

(* ":x" resolves against the current package ("." is the root package) *)
Theorem label_relative cur x :
  parse_label cur (ch_colon :: x) =
  if valid_name x then Some (mkLabel (if str_eqb cur [ch_dot] then [] else cur) x) else None.
Proof. Admitted.

(* ------------------------------------------------------------------ matching *)

Definition name_ok (p : pattern) (l : label) : Prop :=
  ptarget p = [] \/ ptarget p = all_lit \/ ptarget p = ellipsis \/ lname l = ptarget p.

Theorem matches_recursive p l :
  prec p = true ->
  (matches p l = true <->
   (pprefix p = [] \/ lpkg l = pprefix p \/ exists r, lpkg l = pprefix p ++ ch_slash :: r)
   /\ name_ok p l).
Proof. Admitted.

(* never a sibling such as p2 *)
Theorem matches_never_sibling p l c r :
  prec p = true -> pprefix p <> [] -> lpkg l = pprefix p ++ c :: r -> c <> ch_slash ->
  matches p l = false.
Proof. Admitted.

Theorem matches_exact p l :
  prec p = false -> (matches p l = true <-> lpkg l = pprefix p /\ name_ok p l).
Proof. Admitted.

(* ------------------------------------------------------------------ parsing patterns *)

(* a package path as it appears in a well-formed absolute pattern *)
Definition plain_pkg (pre : str) : Prop :=
  ~ In ch_colon pre /\ find_sub ellipsis pre = None /\ ends_with ch_slash pre = false.

Theorem parse_recursive cur pre :
  plain_pkg pre -> pre <> [] ->
  parse_pattern cur (dslash ++ pre ++ ch_slash :: ellipsis) = Some (mkPat pre [] true).
Proof. Admitted.

Theorem parse_root_recursive cur :
  parse_pattern cur (dslash ++ ellipsis) = Some (mkPat [] [] true).
Proof. Admitted.

Theorem parse_with_name cur pre n :
  plain_pkg pre -> n <> [] ->
  parse_pattern cur (dslash ++ pre ++ ch_colon :: n) = Some (mkPat pre n false).
Proof. Admitted.

(* "//p/..." matches exactly package p and the packages below it *)
Theorem recursive_pattern_boundary cur pre l :
  plain_pkg pre -> pre <> [] ->
  exists p, parse_pattern cur (dslash ++ pre ++ ch_slash :: ellipsis) = Some p /\
    (matches p l = true <-> lpkg l = pre \/ exists r, lpkg l = pre ++ ch_slash :: r).
Proof. Admitted.

(* "//p:all" matches exactly package p *)
Theorem all_pattern_exact_package cur pre l :
  plain_pkg pre ->
  exists p, parse_pattern cur (dslash ++ pre ++ ch_colon :: all_lit) = Some p /\
    (matches p l = true <-> lpkg l = pre).
Proof. Admitted.

(* a name suffix restricts by exact target name *)
Theorem name_pattern_exact cur pre n l :
  plain_pkg pre -> n <> [] -> n <> all_lit -> n <> ellipsis ->
  exists p, parse_pattern cur (dslash ++ pre ++ ch_colon :: n) = Some p /\
    (matches p l = true <-> lpkg l = pre /\ lname l = n).
Proof. Admitted.

Theorem recursive_name_pattern cur pre n l :
  plain_pkg pre -> pre <> [] -> n <> [] -> n <> all_lit -> n <> ellipsis ->
  exists p, parse_pattern cur (dslash ++ pre ++ ch_slash :: ellipsis ++ ch_colon :: n) = Some p /\
    (matches p l = true <->
     (lpkg l = pre \/ exists r, lpkg l = pre ++ ch_slash :: r) /\ lname l = n).
Proof. Admitted.

(* ------------------------------------------------------------------ print / re-parse *)

(* the boolean guard under which String() is re-parsed to the same pattern *)
Definition reprintable (p : pattern) : bool :=
  prec p || (negb (mem_ch ch_colon (pprefix p)) && negb (contains ellipsis (pprefix p))
             && negb (ends_with ch_slash (pprefix p))).

Theorem pattern_reparse cur s p :
  parse_pattern cur s = Some p -> reprintable p = true ->
  forall cur', parse_pattern cur' (print_pattern p) = Some p.
Proof. Admitted.

(* every absolute pattern (starting with "//") is covered unless it is non-recursive and its
   package part ends in two slashes *)
Theorem pattern_reparse_abs cur s p :
  has_prefix dslash s = true -> parse_pattern cur s = Some p ->
  ends_with ch_slash (pprefix p) = false ->
  forall cur', parse_pattern cur' (print_pattern p) = Some p.
Proof. Admitted.

Corollary pattern_reparse_matches cur s p :
  parse_pattern cur s = Some p -> reprintable p = true ->
  forall cur', exists p', parse_pattern cur' (print_pattern p) = Some p' /\
    forall l, matches p' l = matches p l.
Proof. Admitted.

(* without the guard the statement is false: "//a//:x" *)
Definition witness_pat : str :=
  [ch_slash; ch_slash; "a"%char; ch_slash; ch_slash; ch_colon; "x"%char].

Theorem pattern_reparse_unguarded_refuted :
  exists p p' l, parse_pattern [] witness_pat = Some p /\
    parse_pattern [] (print_pattern p) = Some p' /\ matches p l <> matches p' l.
Proof. Admitted.

(* non-vacuity *)
Example label_roundtrip_nonvacuous :
  exists l, parse_label [] (dslash ++ ["a"; "/"; "b"]%char) = Some l /\ ~ In ch_colon (lpkg l).
Proof. Admitted.

Example plain_pkg_nonvacuous : plain_pkg ["a"; "/"; "b"]%char.
Proof. Admitted.

Example reprintable_nonvacuous :
  exists p, parse_pattern ["c"]%char [ch_colon; "x"%char] = Some p /\ reprintable p = true.
Proof. Admitted.
