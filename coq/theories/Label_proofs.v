(* Label_proofs.v -- lemmas about Label.v (C17).  Statements fixed; proofs below. *)
From Grog Require Import Str Label.

(* ------------------------------------------------------------------ helpers *)

(* characters *)
Lemma slash_neq_colon : ch_slash <> ch_colon.
Proof. unfold ch_slash, ch_colon; discriminate. Qed.

Lemma dot_neq_colon : ch_dot <> ch_colon.
Proof. unfold ch_dot, ch_colon; discriminate. Qed.

Lemma dot_neq_slash : ch_dot <> ch_slash.
Proof. unfold ch_dot, ch_slash; discriminate. Qed.

Lemma not_in_ellipsis c : ch_dot <> c -> ~ In c ellipsis.
Proof. intros Hc [H|[H|[H|[]]]]; exact (Hc H). Qed.

(* null *)
Lemma null_true s : null s = true <-> s = [].
Proof. destruct s as [|x s]; simpl; split; intro H; try reflexivity; discriminate. Qed.

Lemma null_false s : null s = false <-> s <> [].
Proof.
  destruct s as [|x s]; simpl; split; intro H; try reflexivity; try discriminate.
  exfalso; apply H; reflexivity.
Qed.

(* lists *)
Lemma firstn_length_app (a b : str) : firstn (length a) (a ++ b) = a.
Proof. induction a as [|x a IH]; simpl; [destruct b; reflexivity | rewrite IH; reflexivity]. Qed.

Lemma not_in_firstn (c : ascii) i s : ~ In c s -> ~ In c (firstn i s).
Proof.
  intros Hn Hin. apply Hn. rewrite <- (firstn_skipn i s). apply in_or_app; left; exact Hin.
Qed.

Lemma not_in_app_l (c : ascii) a b : ~ In c (a ++ b) -> ~ In c a.
Proof. intros Hn Hin. apply Hn. apply in_or_app; left; exact Hin. Qed.

(* ends_with / trim_slashes *)
Lemma ends_with_snoc c s : ends_with c (s ++ [c]) = true.
Proof. unfold ends_with, last_char. rewrite rev_unit. apply Ascii.eqb_refl. Qed.

Lemma ends_with_single c x : ends_with c [x] = Ascii.eqb x c.
Proof. reflexivity. Qed.

Lemma ends_with_cons c x y s : ends_with c (x :: y :: s) = ends_with c (y :: s).
Proof. unfold ends_with, last_char. cbn [rev]. destruct (rev s) as [|a r]; reflexivity. Qed.

Lemma trim_slashes_cons c s :
  trim_slashes (c :: s) =
  match trim_slashes s with
  | [] => if Ascii.eqb c ch_slash then [] else [c]
  | y :: t => c :: y :: t
  end.
Proof. cbn [trim_slashes]. destruct (trim_slashes s); reflexivity. Qed.

Lemma trim_slashes_nil : trim_slashes [] = [].
Proof. reflexivity. Qed.

(* nothing to remove *)
Lemma trim_slashes_id s : ends_with ch_slash s = false -> trim_slashes s = s.
Proof.
  induction s as [|c s IH]; intro H; [reflexivity|].
  rewrite trim_slashes_cons. destruct s as [|y s'].
  - rewrite ends_with_single in H. cbn [trim_slashes]. rewrite H. reflexivity.
  - rewrite ends_with_cons in H. rewrite (IH H). reflexivity.
Qed.

(* one more trailing slash makes no difference *)
Lemma trim_slashes_snoc s : trim_slashes (s ++ [ch_slash]) = trim_slashes s.
Proof.
  induction s as [|c s IH]; [reflexivity|].
  change ((c :: s) ++ [ch_slash]) with (c :: (s ++ [ch_slash])).
  rewrite !trim_slashes_cons, IH. reflexivity.
Qed.

(* the result never ends in a slash: parsing is idempotent through printing *)
Lemma trim_slashes_no_trailing s : ends_with ch_slash (trim_slashes s) = false.
Proof.
  induction s as [|c s IH]; [reflexivity|].
  rewrite trim_slashes_cons. destruct (trim_slashes s) as [|y t].
  - destruct (Ascii.eqb c ch_slash) eqn:Ec; [reflexivity|].
    rewrite ends_with_single. exact Ec.
  - rewrite ends_with_cons. exact IH.
Qed.

Lemma trim_slashes_prefix s : exists t, s = trim_slashes s ++ t.
Proof.
  induction s as [|c s IH]; [exists []; reflexivity|].
  destruct IH as [t Ht]. rewrite trim_slashes_cons.
  destruct (trim_slashes s) as [|y u].
  - destruct (Ascii.eqb c ch_slash); [exists (c :: s) | exists s]; reflexivity.
  - exists t. change ((c :: y :: u) ++ t) with (c :: ((y :: u) ++ t)).
    rewrite <- Ht. reflexivity.
Qed.

Lemma trim_slashes_not_in c s : ~ In c s -> ~ In c (trim_slashes s).
Proof.
  intro Hn. destruct (trim_slashes_prefix s) as [t Ht]. rewrite Ht in Hn.
  exact (not_in_app_l _ _ _ Hn).
Qed.

(* has_prefix *)
Lemma has_prefix_app_r p a b : has_prefix p a = true -> has_prefix p (a ++ b) = true.
Proof.
  intro H. apply has_prefix_spec in H as [r Hr]. subst a.
  apply has_prefix_spec. exists (r ++ b). rewrite app_assoc. reflexivity.
Qed.

(* an occurrence of p cannot start before a character that is not in p and extend past it *)
Lemma has_prefix_sep p s c t :
  ~ In c p -> has_prefix p (s ++ c :: t) = true -> has_prefix p s = true.
Proof.
  revert s. induction p as [|x p IH]; intros s Hc H; [reflexivity|].
  destruct s as [|y s].
  - exfalso. simpl in H. apply andb_true_iff in H as [H _]. apply Ascii.eqb_eq in H.
    apply Hc. left. exact H.
  - simpl in H. apply andb_true_iff in H as [H1 H2]. simpl. rewrite H1. simpl.
    apply IH; [|exact H2]. intro Hin. apply Hc. right. exact Hin.
Qed.

(* find_sub *)
Lemma find_sub_eq p s :
  find_sub p s =
  if has_prefix p s then Some 0
  else match s with [] => None | _ :: s' => option_map S (find_sub p s') end.
Proof. destruct s; reflexivity. Qed.

Lemma find_sub_none_prefix p a b : find_sub p (a ++ b) = None -> find_sub p a = None.
Proof.
  induction a as [|x a IH]; intro H.
  - rewrite find_sub_eq. destruct (has_prefix p []) eqn:E; [|reflexivity].
    destruct p as [|y p]; [|discriminate E].
    rewrite find_sub_eq in H. simpl in H. discriminate H.
  - change ((x :: a) ++ b) with (x :: a ++ b) in H. rewrite find_sub_eq in H. rewrite find_sub_eq.
    destruct (has_prefix p (x :: a ++ b)) eqn:E; [discriminate H|].
    destruct (find_sub p (a ++ b)) as [k|] eqn:F; [discriminate H|].
    destruct (has_prefix p (x :: a)) eqn:E2.
    + apply (has_prefix_app_r _ _ b) in E2.
      change ((x :: a) ++ b) with (x :: a ++ b) in E2. congruence.
    + rewrite (IH eq_refl). reflexivity.
Qed.

Lemma find_sub_firstn p s i :
  p <> [] -> find_sub p s = Some i -> find_sub p (firstn i s) = None.
Proof.
  intros Hp. revert i. induction s as [|x s IH]; intros i H; rewrite find_sub_eq in H.
  - destruct (has_prefix p []) eqn:E; [|discriminate H].
    destruct p as [|y p]; [exfalso; apply Hp; reflexivity | discriminate E].
  - destruct (has_prefix p (x :: s)) eqn:E.
    + injection H as <-. cbn [firstn]. rewrite find_sub_eq.
      destruct p as [|y p]; [exfalso; apply Hp; reflexivity | reflexivity].
    + destruct (find_sub p s) as [k|] eqn:F; [|discriminate H].
      simpl in H. injection H as <-.
      change (firstn (S k) (x :: s)) with (x :: firstn k s). rewrite find_sub_eq.
      destruct (has_prefix p (x :: firstn k s)) eqn:E2.
      * apply (has_prefix_app_r _ _ (skipn k s)) in E2.
        change ((x :: firstn k s) ++ skipn k s) with (x :: (firstn k s ++ skipn k s)) in E2.
        rewrite firstn_skipn in E2. congruence.
      * rewrite (IH k eq_refl). reflexivity.
Qed.

(* if c is not in p, p does not occur in s and t starts with p, then the first occurrence
   of p in s ++ c :: t is right after c: an occurrence cannot span c *)
Lemma find_sub_sep p s c t :
  ~ In c p -> find_sub p s = None -> has_prefix p t = true ->
  find_sub p (s ++ c :: t) = Some (length s + 1).
Proof.
  intros Hc. induction s as [|x s IH]; intros Hn Ht.
  - rewrite find_sub_eq in Hn. destruct (has_prefix p []) eqn:E; [discriminate Hn|].
    change ([] ++ c :: t) with (c :: t). rewrite find_sub_eq.
    destruct (has_prefix p (c :: t)) eqn:E2.
    + exfalso. destruct p as [|y p]; [discriminate E|].
      simpl in E2. apply andb_true_iff in E2 as [E2 _]. apply Ascii.eqb_eq in E2.
      apply Hc. left. exact E2.
    + rewrite find_sub_eq, Ht. reflexivity.
  - rewrite find_sub_eq in Hn.
    destruct (has_prefix p (x :: s)) eqn:E; [discriminate Hn|].
    destruct (find_sub p s) as [k|] eqn:F; [discriminate Hn|].
    change ((x :: s) ++ c :: t) with (x :: (s ++ c :: t)). rewrite find_sub_eq.
    destruct (has_prefix p (x :: s ++ c :: t)) eqn:E2.
    + apply (has_prefix_sep p (x :: s) c t Hc) in E2. congruence.
    + rewrite (IH eq_refl Ht). reflexivity.
Qed.

Lemma find_sub_trim_none s : find_sub ellipsis s = None -> find_sub ellipsis (trim_slashes s) = None.
Proof.
  intro H. destruct (trim_slashes_prefix s) as [t Ht]. rewrite Ht in H.
  exact (find_sub_none_prefix _ _ _ H).
Qed.

Lemma ellipsis_nonempty : ellipsis <> [].
Proof. discriminate. Qed.

(* valid_name *)
Lemma valid_name_not_null n : valid_name n = true -> null n = false.
Proof. destruct n as [|x n]; intro H; [vm_compute in H; discriminate H | reflexivity]. Qed.

(* ------------------------------------------------------------------ labels *)

(* the "//" branch of parse_label *)
Lemma parse_label_abs cur body :
  parse_label cur (dslash ++ body) =
  match split_first ch_colon body with
  | None =>
      if null body then None
      else if valid_name (after_last ch_slash body)
           then Some (mkLabel body (after_last ch_slash body)) else None
  | Some (pkg, name) =>
      if null name then None
      else if valid_name name then Some (mkLabel pkg name) else None
  end.
Proof. reflexivity. Qed.

Lemma parse_label_wf cur s l : parse_label cur s = Some l -> valid_name (lname l) = true.
Proof.
  intro H. unfold parse_label in H. destruct s as [|c name]; [discriminate H|].
  destruct (Ascii.eqb c ch_colon).
  - destruct (null name); [discriminate H|].
    destruct (valid_name name) eqn:V; [|discriminate H].
    injection H as <-. exact V.
  - destruct (has_prefix dslash (c :: name)); [|discriminate H].
    destruct (split_first ch_colon (skipn 2 (c :: name))) as [[pkg nm]|].
    + destruct (null nm); [discriminate H|].
      destruct (valid_name nm) eqn:V; [|discriminate H].
      injection H as <-. exact V.
    + destruct (null (skipn 2 (c :: name))); [discriminate H|].
      cbv zeta in H.
      destruct (valid_name (after_last ch_slash (skipn 2 (c :: name)))) eqn:V; [|discriminate H].
      injection H as <-. exact V.
Qed.

(* for "//" labels the package is the text before the first colon (or the whole body) *)
Lemma parse_label_abs_pkg cur s l :
  has_prefix dslash s = true -> parse_label cur s = Some l -> ~ In ch_colon (lpkg l).
Proof.
  intros Hp H. apply has_prefix_spec in Hp as [body Hs]. subst s.
  rewrite parse_label_abs in H.
  destruct (split_first ch_colon body) as [[pkg nm]|] eqn:S.
  - apply split_first_some in S as [_ Hn].
    destruct (null nm); [discriminate H|].
    destruct (valid_name nm); [|discriminate H].
    injection H as <-. exact Hn.
  - apply split_first_none in S.
    destruct (null body); [discriminate H|].
    destruct (valid_name (after_last ch_slash body)); [|discriminate H].
    injection H as <-. exact S.
Qed.

Theorem label_roundtrip cur s l :
  parse_label cur s = Some l -> ~ In ch_colon (lpkg l) ->
  forall cur', parse_label cur' (print_label l) = Some l.
Proof.
  intros H Hc cur'. pose proof (parse_label_wf _ _ _ H) as V.
  destruct l as [pkg name]. cbn [lpkg lname] in Hc, V.
  unfold print_label. cbn [lpkg lname].
  rewrite parse_label_abs, (split_first_app _ _ _ Hc).
  rewrite (valid_name_not_null _ V), V. reflexivity.
Qed.

Theorem label_roundtrip_abs cur s l :
  has_prefix dslash s = true -> parse_label cur s = Some l ->
  forall cur', parse_label cur' (print_label l) = Some l.
Proof.
  intros Hp H. exact (label_roundtrip cur s l H (parse_label_abs_pkg cur s l Hp H)).
Qed.

(* "//a/b" means "//a/b:b" *)
Theorem label_shorthand cur p :
  ~ In ch_colon p ->
  parse_label cur (dslash ++ p) = parse_label cur (dslash ++ p ++ ch_colon :: after_last ch_slash p).
Proof.
  intros Hc. rewrite !parse_label_abs.
  rewrite (split_first_app _ _ _ Hc). rewrite (proj2 (split_first_none _ _) Hc).
  destruct p as [|x p'].
  - reflexivity.
  - cbn [null].
    destruct (valid_name (after_last ch_slash (x :: p'))) eqn:V.
    + rewrite (valid_name_not_null _ V). reflexivity.
    + destruct (null (after_last ch_slash (x :: p'))); reflexivity.
Qed.

Theorem label_shorthand_value cur p :
  ~ In ch_colon p -> valid_name (after_last ch_slash p) = true ->
  parse_label cur (dslash ++ p) = Some (mkLabel p (after_last ch_slash p)).
Proof.
  intros Hc V. rewrite parse_label_abs. rewrite (proj2 (split_first_none _ _) Hc).
  destruct p as [|x p'].
  - vm_compute in V. discriminate V.
  - cbn [null]. rewrite V. reflexivity.
Qed.

(* ":x" resolves against the current package ("." is the root package) *)
Theorem label_relative cur x :
  parse_label cur (ch_colon :: x) =
  if valid_name x then Some (mkLabel (if str_eqb cur [ch_dot] then [] else cur) x) else None.
Proof.
  unfold parse_label. rewrite Ascii.eqb_refl.
  destruct (null x) eqn:N; [|reflexivity].
  apply null_true in N. subst x. reflexivity.
Qed.

(* ------------------------------------------------------------------ matching *)

Definition name_ok (p : pattern) (l : label) : Prop :=
  ptarget p = [] \/ ptarget p = all_lit \/ ptarget p = ellipsis \/ lname l = ptarget p.

Lemma name_ok_b p l :
  (null (ptarget p) || str_eqb (ptarget p) all_lit || str_eqb (ptarget p) ellipsis
   || str_eqb (lname l) (ptarget p)) = true <-> name_ok p l.
Proof.
  unfold name_ok. split.
  - intro H. apply orb_true_iff in H as [H|H]; [|right; right; right; apply str_eqb_eq; exact H].
    apply orb_true_iff in H as [H|H]; [|right; right; left; apply str_eqb_eq; exact H].
    apply orb_true_iff in H as [H|H]; [|right; left; apply str_eqb_eq; exact H].
    left. apply null_true. exact H.
  - intros [H|[H|[H|H]]].
    + apply null_true in H. rewrite H. reflexivity.
    + apply str_eqb_eq in H. rewrite H. rewrite orb_true_r. reflexivity.
    + apply str_eqb_eq in H. rewrite H. rewrite orb_true_r. reflexivity.
    + apply str_eqb_eq in H. rewrite H. rewrite orb_true_r. reflexivity.
Qed.

Theorem matches_recursive p l :
  prec p = true ->
  (matches p l = true <->
   (pprefix p = [] \/ lpkg l = pprefix p \/ exists r, lpkg l = pprefix p ++ ch_slash :: r)
   /\ name_ok p l).
Proof.
  intro Hrec. unfold matches. rewrite Hrec. split.
  - intro H. apply andb_true_iff in H as [Hpk Hnm]. split; [|apply name_ok_b; exact Hnm].
    destruct (null (pprefix p)) eqn:N.
    + left. apply null_true. exact N.
    + right. apply orb_true_iff in Hpk as [Hpk|Hpk].
      * left. apply str_eqb_eq. exact Hpk.
      * right. apply has_prefix_spec in Hpk as [r Hr]. exists r.
        rewrite Hr, <- app_assoc. reflexivity.
  - intros [Hpk Hnm]. apply andb_true_iff. split; [|apply name_ok_b; exact Hnm].
    destruct (null (pprefix p)) eqn:N; [reflexivity|].
    destruct Hpk as [Hpk|[Hpk|[r Hr]]].
    + apply null_false in N. contradiction.
    + apply orb_true_iff. left. apply str_eqb_eq. exact Hpk.
    + apply orb_true_iff. right. apply has_prefix_spec. exists r.
      rewrite Hr, <- app_assoc. reflexivity.
Qed.

(* never a sibling such as p2 *)
Theorem matches_never_sibling p l c r :
  prec p = true -> pprefix p <> [] -> lpkg l = pprefix p ++ c :: r -> c <> ch_slash ->
  matches p l = false.
Proof.
  intros Hrec Hne Hl Hc. unfold matches. rewrite Hrec.
  rewrite (proj2 (null_false _) Hne).
  assert (E1 : str_eqb (lpkg l) (pprefix p) = false).
  { apply str_eqb_neq. intro E. rewrite Hl in E.
    apply (f_equal (@length ascii)) in E. rewrite app_length in E. simpl in E. lia. }
  assert (E2 : has_prefix (pprefix p ++ [ch_slash]) (lpkg l) = false).
  { destruct (has_prefix (pprefix p ++ [ch_slash]) (lpkg l)) eqn:E; [|reflexivity].
    exfalso. apply has_prefix_spec in E as [r' Hr']. rewrite Hl, <- app_assoc in Hr'.
    apply app_inv_head in Hr'. injection Hr' as Hcc _. exact (Hc Hcc). }
  rewrite E1, E2. reflexivity.
Qed.

Theorem matches_exact p l :
  prec p = false -> (matches p l = true <-> lpkg l = pprefix p /\ name_ok p l).
Proof.
  intro Hrec. unfold matches. rewrite Hrec. split.
  - intro H. apply andb_true_iff in H as [Hpk Hnm].
    split; [apply str_eqb_eq; exact Hpk | apply name_ok_b; exact Hnm].
  - intros [Hpk Hnm]. apply andb_true_iff.
    split; [apply str_eqb_eq; exact Hpk | apply name_ok_b; exact Hnm].
Qed.

(* ------------------------------------------------------------------ parsing patterns *)

(* a package path as it appears in a well-formed absolute pattern *)
Definition plain_pkg (pre : str) : Prop :=
  ~ In ch_colon pre /\ find_sub ellipsis pre = None /\ ends_with ch_slash pre = false.

(* what the "//" branch of parse_pattern returns once the package part [pp], the target part
   [tp] and the has-colon flag [hc] are known *)
Definition abs_result (pp tp : str) (hc : bool) : option pattern :=
  match find_sub ellipsis pp with
  | Some i =>
      if i + 3 <? length pp then None
      else Some (mkPat (trim_slashes (firstn i pp)) tp true)
  | None =>
      if hc then Some (mkPat (trim_slashes pp) tp false)
      else
        let tp' := after_last ch_slash pp in
        if null tp' then None
        else Some (mkPat (trim_slashes pp) tp' false)
  end.

Lemma parse_pattern_abs cur body :
  parse_pattern cur (dslash ++ body) =
  match split_first ch_colon body with
  | Some (a, b) => if null b then None else abs_result a b true
  | None => abs_result body [] false
  end.
Proof.
  unfold parse_pattern.
  change (has_prefix dslash (dslash ++ body)) with true.
  change (skipn 2 (dslash ++ body)) with body.
  cbv iota.
  destruct (split_first ch_colon body) as [[a b]|]; reflexivity.
Qed.

Lemma parse_pattern_abs_colon cur pp tp :
  ~ In ch_colon pp ->
  parse_pattern cur (dslash ++ pp ++ ch_colon :: tp) =
  if null tp then None else abs_result pp tp true.
Proof.
  intro Hc. rewrite parse_pattern_abs, (split_first_app _ _ _ Hc). reflexivity.
Qed.

Lemma parse_pattern_abs_nocolon cur pp :
  ~ In ch_colon pp -> parse_pattern cur (dslash ++ pp) = abs_result pp [] false.
Proof.
  intro Hc. rewrite parse_pattern_abs, (proj2 (split_first_none _ _) Hc). reflexivity.
Qed.

(* the package part printed for a recursive pattern is parsed back to the same prefix *)
Lemma rec_pkg_part pre :
  ~ In ch_colon pre -> find_sub ellipsis pre = None -> ends_with ch_slash pre = false ->
  let pp := pre ++ (if null pre then ellipsis else ch_slash :: ellipsis) in
  ~ In ch_colon pp /\
  exists i, find_sub ellipsis pp = Some i /\ (i + 3 <? length pp) = false /\
            trim_slashes (firstn i pp) = pre.
Proof.
  intros Hc Hf He pp. subst pp. destruct (null pre) eqn:N.
  - apply null_true in N. subst pre. split.
    + apply not_in_ellipsis, dot_neq_colon.
    + exists 0. split; [reflexivity|]. split; reflexivity.
  - split.
    + intro Hin. apply in_app_or in Hin as [Hin|[Hin|Hin]].
      * exact (Hc Hin).
      * exact (slash_neq_colon Hin).
      * exact (not_in_ellipsis _ dot_neq_colon Hin).
    + exists (length pre + 1). split; [|split].
      * apply find_sub_sep; [apply not_in_ellipsis, dot_neq_slash | exact Hf | reflexivity].
      * apply Nat.ltb_ge. rewrite app_length.
        change (length (ch_slash :: ellipsis)) with 4. lia.
      * change (pre ++ ch_slash :: ellipsis) with (pre ++ [ch_slash] ++ ellipsis).
        rewrite app_assoc.
        replace (length pre + 1) with (length (pre ++ [ch_slash]))
          by (rewrite app_length; reflexivity).
        rewrite firstn_length_app, trim_slashes_snoc. exact (trim_slashes_id _ He).
Qed.

Lemma abs_result_rec pre tp :
  ~ In ch_colon pre -> find_sub ellipsis pre = None -> ends_with ch_slash pre = false ->
  abs_result (pre ++ (if null pre then ellipsis else ch_slash :: ellipsis)) tp true
  = Some (mkPat pre tp true) /\
  abs_result (pre ++ (if null pre then ellipsis else ch_slash :: ellipsis)) tp false
  = Some (mkPat pre tp true).
Proof.
  intros Hc Hf He. destruct (rec_pkg_part pre Hc Hf He) as [_ [i [F [L T]]]].
  unfold abs_result. rewrite F, L, T. split; reflexivity.
Qed.

Lemma abs_result_plain pre tp :
  find_sub ellipsis pre = None -> ends_with ch_slash pre = false ->
  abs_result pre tp true = Some (mkPat pre tp false).
Proof.
  intros Hf He. unfold abs_result. rewrite Hf, (trim_slashes_id _ He). reflexivity.
Qed.

Theorem parse_recursive cur pre :
  plain_pkg pre -> pre <> [] ->
  parse_pattern cur (dslash ++ pre ++ ch_slash :: ellipsis) = Some (mkPat pre [] true).
Proof.
  intros [Hc [Hf He]] Hne.
  destruct (rec_pkg_part pre Hc Hf He) as [Hc' _].
  destruct (abs_result_rec pre [] Hc Hf He) as [_ R].
  rewrite (proj2 (null_false _) Hne) in Hc', R.
  rewrite (parse_pattern_abs_nocolon _ _ Hc'). exact R.
Qed.

Theorem parse_root_recursive cur :
  parse_pattern cur (dslash ++ ellipsis) = Some (mkPat [] [] true).
Proof. reflexivity. Qed.

Theorem parse_with_name cur pre n :
  plain_pkg pre -> n <> [] ->
  parse_pattern cur (dslash ++ pre ++ ch_colon :: n) = Some (mkPat pre n false).
Proof.
  intros [Hc [Hf He]] Hne.
  rewrite (parse_pattern_abs_colon _ _ _ Hc), (proj2 (null_false _) Hne).
  apply abs_result_plain; assumption.
Qed.

(* "//p/..." matches exactly package p and the packages below it *)
Theorem recursive_pattern_boundary cur pre l :
  plain_pkg pre -> pre <> [] ->
  exists p, parse_pattern cur (dslash ++ pre ++ ch_slash :: ellipsis) = Some p /\
    (matches p l = true <-> lpkg l = pre \/ exists r, lpkg l = pre ++ ch_slash :: r).
Proof.
  intros Hpl Hne. exists (mkPat pre [] true). split; [apply parse_recursive; assumption|].
  rewrite (matches_recursive (mkPat pre [] true) l eq_refl).
  cbn [pprefix]. unfold name_ok. cbn [ptarget].
  split.
  - intros [[H|H] _]; [contradiction | exact H].
  - intro H. split; [right; exact H | left; reflexivity].
Qed.

(* "//p:all" matches exactly package p *)
Theorem all_pattern_exact_package cur pre l :
  plain_pkg pre ->
  exists p, parse_pattern cur (dslash ++ pre ++ ch_colon :: all_lit) = Some p /\
    (matches p l = true <-> lpkg l = pre).
Proof.
  intros Hpl. exists (mkPat pre all_lit false).
  split; [apply parse_with_name; [assumption | discriminate]|].
  rewrite (matches_exact (mkPat pre all_lit false) l eq_refl).
  cbn [pprefix]. unfold name_ok. cbn [ptarget].
  split.
  - intros [H _]; exact H.
  - intro H. split; [exact H | right; left; reflexivity].
Qed.

(* a name suffix restricts by exact target name *)
Theorem name_pattern_exact cur pre n l :
  plain_pkg pre -> n <> [] -> n <> all_lit -> n <> ellipsis ->
  exists p, parse_pattern cur (dslash ++ pre ++ ch_colon :: n) = Some p /\
    (matches p l = true <-> lpkg l = pre /\ lname l = n).
Proof.
  intros Hpl Hn1 Hn2 Hn3. exists (mkPat pre n false).
  split; [apply parse_with_name; assumption|].
  rewrite (matches_exact (mkPat pre n false) l eq_refl).
  cbn [pprefix]. unfold name_ok. cbn [ptarget].
  split.
  - intros [H [Hk|[Hk|[Hk|Hk]]]]; try contradiction. split; assumption.
  - intros [H Hk]. split; [exact H | right; right; right; exact Hk].
Qed.

Theorem recursive_name_pattern cur pre n l :
  plain_pkg pre -> pre <> [] -> n <> [] -> n <> all_lit -> n <> ellipsis ->
  exists p, parse_pattern cur (dslash ++ pre ++ ch_slash :: ellipsis ++ ch_colon :: n) = Some p /\
    (matches p l = true <->
     (lpkg l = pre \/ exists r, lpkg l = pre ++ ch_slash :: r) /\ lname l = n).
Proof.
  intros [Hc [Hf He]] Hne Hn1 Hn2 Hn3. exists (mkPat pre n true). split.
  - destruct (rec_pkg_part pre Hc Hf He) as [Hc' _].
    destruct (abs_result_rec pre n Hc Hf He) as [R _].
    rewrite (proj2 (null_false _) Hne) in Hc', R.
    change (dslash ++ pre ++ ch_slash :: ellipsis ++ ch_colon :: n)
      with (dslash ++ pre ++ (ch_slash :: ellipsis) ++ ch_colon :: n).
    rewrite (app_assoc pre).
    rewrite (parse_pattern_abs_colon _ _ _ Hc'), (proj2 (null_false _) Hn1). exact R.
  - rewrite (matches_recursive (mkPat pre n true) l eq_refl).
    cbn [pprefix]. unfold name_ok. cbn [ptarget].
    split.
    + intros [[H|H] [Hk|[Hk|[Hk|Hk]]]]; try contradiction. split; assumption.
    + intros [H Hk]. split; [right; exact H | right; right; right; exact Hk].
Qed.

(* ------------------------------------------------------------------ print / re-parse *)

(* A current package path as filepath.Rel produces it (no ':', no "...", no trailing slash).
   This is the only guard left, and only RELATIVE patterns (":x", whose prefix is the current
   package verbatim) need it; absolute patterns need none. *)
Definition pkg_ok (cur : str) : bool :=
  negb (mem_ch ch_colon cur) && negb (contains ellipsis cur) && negb (ends_with ch_slash cur).

Lemma pkg_ok_facts cur :
  pkg_ok cur = true ->
  ~ In ch_colon cur /\ find_sub ellipsis cur = None /\ ends_with ch_slash cur = false.
Proof.
  intro H. unfold pkg_ok in H.
  apply andb_true_iff in H as [H H3]. apply andb_true_iff in H as [H1 H2].
  apply negb_true_iff in H1, H2, H3. split; [|split].
  - apply mem_ch_false. exact H1.
  - unfold contains in H2. destruct (find_sub ellipsis cur); [discriminate H2|reflexivity].
  - exact H3.
Qed.

(* what a successful absolute parse guarantees about the resulting pattern *)
Lemma abs_result_shape pp tp hc p :
  ~ In ch_colon pp -> (hc = true -> tp <> []) -> abs_result pp tp hc = Some p ->
  ~ In ch_colon (pprefix p) /\ find_sub ellipsis (pprefix p) = None /\
  ends_with ch_slash (pprefix p) = false /\
  (prec p = false -> ptarget p <> []).
Proof.
  intros Hc Htp H. unfold abs_result in H.
  destruct (find_sub ellipsis pp) as [i|] eqn:F.
  - destruct (i + 3 <? length pp); [discriminate H|].
    injection H as <-. cbn [pprefix ptarget prec]. split; [|split; [|split]].
    + apply trim_slashes_not_in, not_in_firstn, Hc.
    + apply find_sub_trim_none. exact (find_sub_firstn _ _ _ ellipsis_nonempty F).
    + apply trim_slashes_no_trailing.
    + discriminate.
  - destruct hc.
    + injection H as <-. cbn [pprefix ptarget prec]. split; [|split; [|split]].
      * apply trim_slashes_not_in, Hc.
      * apply find_sub_trim_none, F.
      * apply trim_slashes_no_trailing.
      * intros _. apply Htp. reflexivity.
    + cbv zeta in H. destruct (null (after_last ch_slash pp)) eqn:N; [discriminate H|].
      injection H as <-. cbn [pprefix ptarget prec]. split; [|split; [|split]].
      * apply trim_slashes_not_in, Hc.
      * apply find_sub_trim_none, F.
      * apply trim_slashes_no_trailing.
      * intros _. apply null_false. exact N.
Qed.

(* absolute patterns: the prefix is colon-free, ellipsis-free and has no trailing slash;
   relative patterns: the prefix is the current package, never recursive *)
Lemma parse_pattern_shape cur s p :
  parse_pattern cur s = Some p ->
  (prec p = false -> ptarget p <> []) /\
  (has_prefix dslash s = true ->
   ~ In ch_colon (pprefix p) /\ find_sub ellipsis (pprefix p) = None /\
   ends_with ch_slash (pprefix p) = false) /\
  (has_prefix dslash s = false -> pprefix p = cur /\ prec p = false).
Proof.
  intro H. destruct (has_prefix dslash s) eqn:Hp.
  - apply has_prefix_spec in Hp as [body Hs]. subst s. rewrite parse_pattern_abs in H.
    assert (G : ~ In ch_colon (pprefix p) /\ find_sub ellipsis (pprefix p) = None /\
                ends_with ch_slash (pprefix p) = false /\
                (prec p = false -> ptarget p <> [])).
    { destruct (split_first ch_colon body) as [[a b]|] eqn:S.
      - apply split_first_some in S as [_ Hn].
        destruct (null b) eqn:N; [discriminate H|].
        apply (abs_result_shape a b true p Hn); [|exact H].
        intros _. apply null_false. exact N.
      - apply split_first_none in S.
        apply (abs_result_shape body [] false p S); [|exact H].
        intro Hd. discriminate Hd. }
    destruct G as [G1 [G2 [G3 G4]]]. split; [exact G4|]. split.
    + intros _. split; [|split]; assumption.
    + intro Hd. discriminate Hd.
  - unfold parse_pattern in H. rewrite Hp in H.
    destruct (split_first ch_colon s) as [[a name]|]; [|discriminate H].
    assert (G : p = mkPat cur name false /\ name <> []).
    { destruct (str_eqb name ellipsis) eqn:E.
      - injection H as <-. split; [reflexivity|].
        apply str_eqb_eq in E. subst name. discriminate.
      - destruct (valid_name name) eqn:V; [|discriminate H].
        injection H as <-. split; [reflexivity|].
        apply null_false. exact (valid_name_not_null _ V). }
    destruct G as [-> Hne]. cbn [pprefix ptarget prec]. split; [|split].
    + intros _. exact Hne.
    + intro Hd. discriminate Hd.
    + intros _. split; reflexivity.
Qed.

Lemma reparse_core pre tp rc cur' :
  ~ In ch_colon pre -> find_sub ellipsis pre = None -> ends_with ch_slash pre = false ->
  (rc = false -> tp <> []) ->
  parse_pattern cur' (print_pattern (mkPat pre tp rc)) = Some (mkPat pre tp rc).
Proof.
  intros Hc Hf He Hnr. unfold print_pattern. cbn [pprefix ptarget prec]. destruct rc.
  - destruct (rec_pkg_part pre Hc Hf He) as [Hc' _].
    destruct (abs_result_rec pre tp Hc Hf He) as [R1 R2].
    destruct tp as [|t tp].
    + cbn [null]. rewrite app_nil_r.
      rewrite (parse_pattern_abs_nocolon _ _ Hc'). exact R2.
    + cbn [null]. rewrite (app_assoc pre).
      rewrite (parse_pattern_abs_colon _ _ _ Hc'). cbn [null]. exact R1.
  - pose proof (Hnr eq_refl) as Hne.
    rewrite app_nil_l. rewrite (proj2 (null_false _) Hne).
    rewrite (parse_pattern_abs_colon _ _ _ Hc), (proj2 (null_false _) Hne).
    apply abs_result_plain; assumption.
Qed.

(* String() of a parsed pattern is parsed back to the same pattern, in any current package:
   always for absolute patterns, and for relative ones when the current package is a package path *)
Theorem pattern_reparse cur s p :
  parse_pattern cur s = Some p -> has_prefix dslash s = true \/ pkg_ok cur = true ->
  forall cur', parse_pattern cur' (print_pattern p) = Some p.
Proof.
  intros H Hg cur'. destruct (parse_pattern_shape _ _ _ H) as [S1 [S2 S3]].
  assert (G : ~ In ch_colon (pprefix p) /\ find_sub ellipsis (pprefix p) = None /\
              ends_with ch_slash (pprefix p) = false).
  { destruct (has_prefix dslash s) eqn:Hp.
    - exact (S2 eq_refl).
    - destruct Hg as [Hg|Hg]; [discriminate Hg|].
      destruct (S3 eq_refl) as [Hcur _]. rewrite Hcur. exact (pkg_ok_facts _ Hg). }
  destruct G as [Hc [Hf He]].
  destruct p as [pre tp rc]. cbn [pprefix ptarget prec] in S1, Hc, Hf, He.
  apply reparse_core; assumption.
Qed.

(* every absolute pattern (starting with "//"): no guard at all *)
Theorem pattern_reparse_abs cur s p :
  has_prefix dslash s = true -> parse_pattern cur s = Some p ->
  forall cur', parse_pattern cur' (print_pattern p) = Some p.
Proof. intros Hp H. exact (pattern_reparse cur s p H (or_introl Hp)). Qed.

Corollary pattern_reparse_matches cur s p :
  parse_pattern cur s = Some p -> has_prefix dslash s = true \/ pkg_ok cur = true ->
  forall cur', exists p', parse_pattern cur' (print_pattern p) = Some p' /\
    forall l, matches p' l = matches p l.
Proof.
  intros H Hg cur'. exists p. split; [exact (pattern_reparse cur s p H Hg cur') | reflexivity].
Qed.

(* "//a//:x", the input that used to print to a pattern with another match set, is now
   normalised to "//a:x" by the parser *)
Definition witness_pat : str :=
  [ch_slash; ch_slash; "a"%char; ch_slash; ch_slash; ch_colon; "x"%char].

Example pattern_reparse_abs_nonvacuous :
  has_prefix dslash witness_pat = true /\
  parse_pattern [] witness_pat = Some (mkPat ["a"]%char ["x"]%char false) /\
  print_pattern (mkPat ["a"]%char ["x"]%char false)
  = [ch_slash; ch_slash; "a"%char; ch_colon; "x"%char].
Proof. split; [|split]; vm_compute; reflexivity. Qed.

(* the remaining guard is about the current package only, and it is needed there: ":x" read in
   a "current package" spelled "a/" prints as "//a/:x", which is package "a" *)
Example pkg_ok_needed :
  exists cur s p p' l,
    pkg_ok cur = false /\ parse_pattern cur s = Some p /\
    parse_pattern cur (print_pattern p) = Some p' /\ matches p l <> matches p' l.
Proof.
  exists ["a"; "/"]%char, [ch_colon; "x"%char],
         (mkPat ["a"; "/"]%char ["x"]%char false), (mkPat ["a"]%char ["x"]%char false),
         (mkLabel ["a"]%char ["x"]%char).
  split; [vm_compute; reflexivity|]. split; [vm_compute; reflexivity|].
  split; [vm_compute; reflexivity|]. vm_compute. discriminate.
Qed.

(* non-vacuity *)
Example label_roundtrip_nonvacuous :
  exists l, parse_label [] (dslash ++ ["a"; "/"; "b"]%char) = Some l /\ ~ In ch_colon (lpkg l).
Proof.
  exists (mkLabel ["a"; "/"; "b"]%char ["b"]%char). split; [vm_compute; reflexivity|].
  cbn [lpkg]. intros [H|[H|[H|[]]]]; vm_compute in H; discriminate H.
Qed.

Example plain_pkg_nonvacuous : plain_pkg ["a"; "/"; "b"]%char.
Proof.
  split; [|split; vm_compute; reflexivity].
  intros [H|[H|[H|[]]]]; vm_compute in H; discriminate H.
Qed.

Example pkg_ok_nonvacuous :
  exists p, parse_pattern ["c"]%char [ch_colon; "x"%char] = Some p /\ pkg_ok ["c"]%char = true.
Proof.
  exists (mkPat ["c"]%char ["x"]%char false). split; vm_compute; reflexivity.
Qed.

(* ------------------------------------------------------------------ pattern lists
   ParsePatternsOrMatchAll, GetMatchAllTargetPattern, TargetPatternFromLabel (added session 4) *)

Theorem match_all_matches l : matches match_all_pattern l = true.
Proof. reflexivity. Qed.

Theorem matches_any_iff ps l :
  matches_any ps l = true <-> exists p, In p ps /\ matches p l = true.
Proof. unfold matches_any. apply existsb_exists. Qed.

Theorem parse_patterns_pointwise cur ss ps :
  parse_patterns cur ss = Some ps <->
  Forall2 (fun s p => parse_pattern cur s = Some p) ss ps.
Proof.
  revert ps; induction ss as [|s ss IH]; intros ps; cbn [parse_patterns].
  - split; intro H.
    + injection H as <-. constructor.
    + inversion H. reflexivity.
  - destruct (parse_pattern cur s) as [p|] eqn:Ep.
    + destruct (parse_patterns cur ss) as [ps'|] eqn:Eps.
      * split; intro H.
        -- injection H as <-. constructor; [exact Ep | apply IH; reflexivity].
        -- inversion H as [|s0 p0 ss0 ps0 Hp Hrest]; subst.
           apply IH in Hrest. rewrite Ep in Hp. congruence.
      * split; intro H; [discriminate|].
        inversion H as [|s0 p0 ss0 ps0 Hp Hrest]; subst.
        apply IH in Hrest. discriminate.
    + split; intro H; [discriminate|].
      inversion H as [|s0 p0 ss0 ps0 Hp Hrest]; subst. rewrite Ep in Hp. discriminate.
Qed.

Theorem parse_patterns_rejects cur ss :
  parse_patterns cur ss = None <-> exists s, In s ss /\ parse_pattern cur s = None.
Proof.
  induction ss as [|s ss IH]; cbn [parse_patterns].
  - split; [discriminate | intros [s [[] _]]].
  - destruct (parse_pattern cur s) as [p|] eqn:Ep.
    + destruct (parse_patterns cur ss) as [ps'|] eqn:Eps.
      * split; [discriminate|]. intros [s' [[<-|Hin] Hs']]; [congruence|].
        destruct IH as [_ IH2].
        assert (Hx : Some ps' = None) by (apply IH2; exists s'; split; assumption).
        discriminate.
      * split; [|reflexivity]. intros _.
        destruct IH as [IH1 _]. destruct (IH1 eq_refl) as [s' [Hin Hs']].
        exists s'; split; [right; exact Hin | exact Hs'].
    + split; [|reflexivity]. intros _. exists s; split; [left; reflexivity | exact Ep].
Qed.

Theorem patterns_or_all_empty cur :
  parse_patterns_or_all cur [] = Some [match_all_pattern] /\
  forall l, matches_any [match_all_pattern] l = true.
Proof. split; [reflexivity | intro l; reflexivity]. Qed.

Theorem patterns_or_all_nonempty cur ss :
  ss <> [] -> parse_patterns_or_all cur ss = parse_patterns cur ss.
Proof.
  intro Hne. unfold parse_patterns_or_all.
  destruct (parse_patterns cur ss) as [[|p ps]|] eqn:E; try reflexivity.
  apply parse_patterns_pointwise in E. inversion E; subst. contradiction.
Qed.

(* the selection a command line denotes: a label is selected iff some argument, parsed on its
   own, matches it; no arguments select every label *)
Theorem patterns_or_all_selects cur ss ps l :
  parse_patterns_or_all cur ss = Some ps ->
  (matches_any ps l = true <->
   ss = [] \/ exists s p, In s ss /\ parse_pattern cur s = Some p /\ matches p l = true).
Proof.
  intro H. destruct ss as [|s0 ss'].
  - destruct (patterns_or_all_empty cur) as [E Hall]. rewrite E in H. injection H as <-.
    split; [intros _; left; reflexivity | intros _; apply Hall].
  - rewrite patterns_or_all_nonempty in H by discriminate.
    apply parse_patterns_pointwise in H. rewrite matches_any_iff. split.
    + intros [p [Hin Hm]]. right.
      revert Hin. induction H as [|s p' ss1 ps1 Hp Hrest IH]; intros Hin; [destruct Hin|].
      destruct Hin as [<-|Hin].
      * exists s, p'. split; [left; reflexivity | split; assumption].
      * destruct (IH Hin) as [s' [p'' [Hs [Hp' Hm']]]].
        exists s', p''. split; [right; exact Hs | split; assumption].
    + intros [Habs | [s [p [Hin [Hp Hm]]]]]; [discriminate|].
      revert Hin. induction H as [|s1 p1 ss1 ps1 Hp1 Hrest IH]; intros Hin; [destruct Hin|].
      destruct Hin as [<-|Hin].
      * exists p1. rewrite Hp in Hp1. injection Hp1 as <-. split; [left; reflexivity | exact Hm].
      * destruct (IH Hin) as [p' [Hin' Hm']]. exists p'. split; [right; exact Hin' | exact Hm'].
Qed.

Theorem pattern_of_label_self l : matches (pattern_of_label l) l = true.
Proof.
  unfold matches, pattern_of_label; cbn [prec pprefix ptarget].
  rewrite !str_eqb_refl. rewrite Bool.orb_true_r. reflexivity.
Qed.

(* TargetPatternFromLabel selects exactly that label, for every name a label can carry
   except the reserved word "all" (a target named all makes its pattern a package wildcard) *)
Theorem pattern_of_label_exact l l' :
  valid_name (lname l) = true -> lname l <> all_lit ->
  (matches (pattern_of_label l) l' = true <-> l' = l).
Proof.
  intros Hv Hall. split; [|intros ->; apply pattern_of_label_self].
  unfold matches, pattern_of_label; cbn [prec pprefix ptarget]. intro H.
  apply Bool.andb_true_iff in H as [Hp Hn].
  apply str_eqb_eq in Hp.
  unfold valid_name in Hv. apply Bool.andb_true_iff in Hv as [Hv _].
  apply Bool.andb_true_iff in Hv as [Hnn Hne].
  apply Bool.negb_true_iff in Hnn. apply Bool.negb_true_iff in Hne.
  rewrite Hnn, Hne in Hn. apply str_eqb_neq in Hall. rewrite Hall in Hn. cbn [orb] in Hn.
  apply str_eqb_eq in Hn. destruct l, l'; cbn in *; subst; reflexivity.
Qed.

Theorem pattern_of_label_all_refuted :
  exists l l', l' <> l /\ matches (pattern_of_label l) l' = true.
Proof.
  exists (mkLabel ["p"%char] all_lit), (mkLabel ["p"%char] ["x"%char]).
  split; [discriminate | reflexivity].
Qed.

(* every label the parser accepts (what `grog run //p:t`, a dependency string or an alias target can name) has a pattern
   that selects it and nothing else, unless its name is the reserved word *)
Theorem parsed_label_pattern_exact cur s l l' :
  parse_label cur s = Some l -> lname l <> all_lit ->
  (matches (pattern_of_label l) l' = true <-> l' = l).
Proof.
  intros Hp Hall. apply pattern_of_label_exact; [exact (parse_label_wf cur s l Hp) | exact Hall].
Qed.
