(* Build_c01_proofs.v -- C01: a build (load_outputs=all, cache on) over ANY sound cache and ANY
   workspace leaves the ideal bytes at every declared output of every successful target, and keeps
   the cache sound; hence incremental = clean for every history.  Definitions: Build_ideal.v.

   Layout: list/string lemmas; the ideal list ([ideal_nth], [ideal_entry_facts]); output paths
   ([no_overwrite_own/other]); the CAS ([blob_ok_fun]: the 'T' first byte of every command output
   separates file and directory digests); restoring ([load_all_ok], [load_outputs_spec]); the
   command ([write_outs_content], [run_command_ok], [on_complete_ideal], [execute_frame/ok]);
   the task of one target ([process_target_cases], [hit_case], [miss_case] => [step_post]); the
   walk ([Inv], [inv_step], [process_node_post], [walk_inv]); one build ([build_good]); histories
   ([hinv], [step_hinv]); the C01 theorems; concrete histories (refutation, non-vacuity, a no-cache
   target in the middle of a chain).

   No-cache targets are part of the theorems: such a target never takes the hit branch
   ([process_target_cases]: the hit branch carries [td_nocache t = false]), always executes, stores the
   output-less record [res_of] under its key and adds nothing to the CAS ([cache_after]); its dependants
   read its outputs from the workspace, where the execution of this very build has just put them. *)
From Coq Require Import List Ascii Bool Arith Lia Permutation.
From Grog Require Import Str Label HashKey HashKey_proofs Build Build_proofs Build_ideal.
Import ListNotations.

(* ================================================================== generic list lemmas *)
Lemma nth_error_nth_None {A} (l : list (option A)) i x :
  nth i l None = Some x -> i < length l.
Proof.
  intro Hn. destruct (lt_dec i (length l)) as [Hi|Hi]; [exact Hi|].
  rewrite nth_overflow in Hn by lia. discriminate.
Qed.

Lemma NoDup_app_l {A} (l1 l2 : list A) : NoDup (l1 ++ l2) -> NoDup l1.
Proof.
  induction l1 as [|y l1 IH]; simpl; intro Hnd; [constructor|].
  inversion Hnd as [|? ? Hny Hnd']; subst. constructor; [|auto].
  intro Hy. apply Hny. apply in_or_app. left. exact Hy.
Qed.

Lemma NoDup_app_r {A} (l1 l2 : list A) : NoDup (l1 ++ l2) -> NoDup l2.
Proof.
  induction l1 as [|y l1 IH]; simpl; intro Hnd; [exact Hnd|].
  inversion Hnd; subst. auto.
Qed.

Lemma NoDup_flat_map_nth {A B} (f : A -> list B) : forall l j x,
  NoDup (flat_map f l) -> nth_error l j = Some x -> NoDup (f x).
Proof.
  induction l as [|y l IH]; intros [|j] x Hnd Hj; simpl in *; try discriminate.
  - inversion Hj; subst. apply NoDup_app_l in Hnd. exact Hnd.
  - apply NoDup_app_r in Hnd. eapply IH; eauto.
Qed.

Lemma NoDup_app_disjoint {A} (l1 l2 : list A) x :
  NoDup (l1 ++ l2) -> In x l1 -> In x l2 -> False.
Proof.
  induction l1 as [|y l1 IH]; simpl; intros Hnd H1 H2; [contradiction|].
  inversion Hnd as [|? ? Hny Hnd']; subst. destruct H1 as [->|H1].
  - apply Hny. apply in_or_app. right. exact H2.
  - eapply IH; eauto.
Qed.

Lemma NoDup_flat_map_disjoint {A B} (f : A -> list B) : forall l j k x y p,
  NoDup (flat_map f l) -> nth_error l j = Some x -> nth_error l k = Some y -> j <> k ->
  In p (f x) -> In p (f y) -> False.
Proof.
  induction l as [|z l IH]; intros [|j] [|k] x y p Hnd Hj Hk Hjk Hx Hy; simpl in *;
    try discriminate; try congruence.
  - inversion Hj; subst. eapply NoDup_app_disjoint; [exact Hnd | exact Hx |].
    apply in_flat_map. exists y. split; [eapply nth_error_In; eauto | exact Hy].
  - inversion Hk; subst. eapply NoDup_app_disjoint; [exact Hnd | exact Hy |].
    apply in_flat_map. exists x. split; [eapply nth_error_In; eauto | exact Hx].
  - apply NoDup_app_r in Hnd. eapply (IH j k); eauto.
Qed.

Lemma NoDup_map_fst_pairs {A B} (l : list (A * B)) :
  NoDup (map fst l) -> NoDup l.
Proof. intro Hnd. eapply NoDup_map_inv. exact Hnd. Qed.

Lemma NoDup_map_fst_fun {A B} (l : list (A * B)) a b b' :
  NoDup (map fst l) -> In (a, b) l -> In (a, b') l -> b = b'.
Proof.
  induction l as [|[a0 b0] l IH]; simpl; intros Hnd H1 H2; [contradiction|].
  inversion Hnd as [|? ? Hn Hnd']; subst.
  destruct H1 as [E1|H1]; destruct H2 as [E2|H2].
  - congruence.
  - inversion E1; subst. exfalso. apply Hn. apply (in_map fst) in H2. exact H2.
  - inversion E2; subst. exfalso. apply Hn. apply (in_map fst) in H1. exact H1.
  - eauto.
Qed.

(* ================================================================== strings *)
Lemma full_path_inj pkg a b : full_path pkg a = full_path pkg b -> a = b.
Proof.
  unfold full_path. destruct pkg as [|c pkg]; [auto|].
  intro E. apply app_inv_head in E. congruence.
Qed.

Lemma out_def_inj o o' : out_def o = out_def o' -> o = o'.
Proof.
  destruct o as [k p], o' as [k' p']. unfold out_def; simpl.
  destruct k, k'; unfold lit_file, lit_dir; simpl; intro E; try discriminate;
    inversion E; reflexivity.
Qed.

Lemma out_path_eq_inv t o o' : out_path t o = out_path t o' -> o_path o = o_path o'.
Proof. unfold out_path. apply full_path_inj. Qed.

Lemma content_of_T s t k o reads : exists r, content_of s t k o reads = "T"%char :: r.
Proof. unfold content_of. simpl. eauto. Qed.

Lemma label_eqb_refl l : label_eqb l l = true.
Proof. unfold label_eqb. rewrite !str_eqb_refl. reflexivity. Qed.

Section C01.
Variable H : str -> str.
Hypothesis H_inj : forall a b, H a = H b -> a = b.

Lemma out_digest_inj o c c' : out_digest H o c = out_digest H o c' -> c = c'.
Proof.
  unfold out_digest. destruct (o_kind o); intro E; apply H_inj in E; congruence.
Qed.

(* ================================================================== the ideal list *)
Lemma ideal_upto_length s : forall k, length (ideal_upto H s k) = k.
Proof.
  induction k as [|k IH]; [reflexivity|]. cbn [ideal_upto]. rewrite app_length, IH. simpl. lia.
Qed.

Lemma ideal_upto_nth s : forall k j, j < k ->
  nth j (ideal_upto H s k) None =
  match node_at s j with Some n => ideal_entry H s (ideal_upto H s j) n | None => None end.
Proof.
  induction k as [|k IH]; intros j Hj; [lia|]. cbn [ideal_upto].
  destruct (Nat.eq_dec j k) as [->|Hne].
  - rewrite app_nth2; rewrite ideal_upto_length; [|lia]. rewrite Nat.sub_diag. reflexivity.
  - rewrite app_nth1; [|rewrite ideal_upto_length; lia]. apply IH. lia.
Qed.

Lemma ideal_length s : length (ideal H s) = length (s_nodes s).
Proof. apply ideal_upto_length. Qed.

Lemma ideal_nth s j n : node_at s j = Some n ->
  nth j (ideal H s) None = ideal_entry H s (ideal_upto H s j) n.
Proof.
  intro Hn. unfold ideal. rewrite ideal_upto_nth.
  - rewrite Hn. reflexivity.
  - apply nth_error_Some. unfold node_at in Hn. congruence.
Qed.

Lemma ideal_upto_nth_full s i j : j < i -> i <= length (s_nodes s) ->
  nth j (ideal_upto H s i) None = nth j (ideal H s) None.
Proof.
  intros Hj Hi. unfold ideal. rewrite !ideal_upto_nth by lia. reflexivity.
Qed.

Lemma ideal_outs_fst s t reads : forall outs k, map fst (ideal_outs s t k outs reads) = outs.
Proof. induction outs as [|o outs IH]; intro k; simpl; [reflexivity|]. rewrite IH. reflexivity. Qed.

Lemma ideal_outs_T s t reads : forall outs k o c,
  In (o, c) (ideal_outs s t k outs reads) -> exists r, c = "T"%char :: r.
Proof.
  induction outs as [|o0 outs IH]; intros k o c Hin; simpl in Hin; [contradiction|].
  destruct Hin as [E|Hin]; [inversion E; subst; apply content_of_T | eapply IH; eauto].
Qed.

(* case lemma for a target entry *)
Lemma ideal_target_some s acc t d :
  ideal_target H s acc t = Some d ->
  exists deps, ideal_deps s acc (td_deps t) = Some deps /\ beh_ok t = true /\
    i_key d = ideal_key H s t deps /\
    i_outs d = ideal_outs s t 0 (td_outs t) (ideal_reads deps) /\
    i_ohash d = ideal_ohash H t (i_key d) (i_outs d).
Proof.
  unfold ideal_target. destruct (ideal_deps s acc (td_deps t)) as [deps|] eqn:Ed; [|discriminate].
  destruct (beh_ok t) eqn:Eb; [|discriminate]. intro E. inversion E; subst; clear E.
  exists deps. simpl. auto.
Qed.

Lemma ideal_target_of_deps s acc t deps :
  ideal_deps s acc (td_deps t) = Some deps -> beh_ok t = true ->
  exists d, ideal_target H s acc t = Some d /\ i_key d = ideal_key H s t deps /\
    i_outs d = ideal_outs s t 0 (td_outs t) (ideal_reads deps) /\
    i_ohash d = ideal_ohash H t (i_key d) (i_outs d).
Proof.
  intros Ed Eb. unfold ideal_target. rewrite Ed, Eb. eexists. split; [reflexivity|]. simpl. auto.
Qed.

(* facts about the entry of a target node of a snapshot *)
Lemma ideal_entry_facts s j t d :
  node_at s j = Some (NTarget t) -> nth j (ideal H s) None = Some d ->
  map fst (i_outs d) = td_outs t /\
  (forall o c, In (o, c) (i_outs d) -> exists r, c = "T"%char :: r) /\
  i_ohash d = ideal_ohash H t (i_key d) (i_outs d) /\
  ideal_key_at H s j = Some (i_key d).
Proof.
  intros Hn Hd. rewrite (ideal_nth _ _ _ Hn) in Hd. cbn [ideal_entry] in Hd.
  destruct (ideal_target_some _ _ _ _ Hd) as (deps & Ed & Eb & Ek & Eo & Eh).
  repeat split.
  - rewrite Eo. apply ideal_outs_fst.
  - intros o c Hin. rewrite Eo in Hin. eapply ideal_outs_T; eauto.
  - exact Eh.
  - unfold ideal_key_at. rewrite Hn. unfold ideal_key_of. rewrite Ed, Ek. reflexivity.
Qed.

Lemma ideal_target_nc s acc t d : ideal_target H s acc t = Some d -> i_nc d = td_nocache t.
Proof.
  unfold ideal_target. destruct (ideal_deps s acc (td_deps t)) as [deps|]; [|discriminate].
  destruct (beh_ok t); [|discriminate]. intro E. inversion E; subst; clear E. reflexivity.
Qed.

Lemma ideal_entry_nc s j t d :
  node_at s j = Some (NTarget t) -> nth j (ideal H s) None = Some d -> i_nc d = td_nocache t.
Proof.
  intros Hn Hd. rewrite (ideal_nth _ _ _ Hn) in Hd. cbn [ideal_entry] in Hd.
  exact (ideal_target_nc _ _ _ _ Hd).
Qed.

(* ================================================================== output paths *)
Lemma no_overwrite_own s j t :
  no_overwrite s -> node_at s j = Some (NTarget t) -> NoDup (map (out_path t) (td_outs t)).
Proof. intros Hno Hn. exact (NoDup_flat_map_nth node_paths _ _ _ Hno Hn). Qed.

Lemma no_overwrite_other s j k tj tk oj ok :
  no_overwrite s -> node_at s j = Some (NTarget tj) -> node_at s k = Some (NTarget tk) -> j <> k ->
  In oj (td_outs tj) -> In ok (td_outs tk) -> out_path tj oj <> out_path tk ok.
Proof.
  intros Hno Hj Hk Hjk Hoj Hok E.
  apply (NoDup_flat_map_disjoint node_paths _ j k _ _ (out_path tj oj) Hno Hj Hk Hjk); simpl.
  - apply in_map. exact Hoj.
  - rewrite E. apply in_map. exact Hok.
Qed.

Lemma own_paths_opath t outs :
  NoDup (map (out_path t) outs) -> NoDup (map o_path outs).
Proof.
  intro Hnd. unfold out_path in Hnd.
  rewrite <- (map_map o_path (full_path (pkg_of t))) in Hnd.
  eapply NoDup_map_inv. exact Hnd.
Qed.

Lemma opath_own_paths t outs :
  NoDup (map o_path outs) -> NoDup (map (out_path t) outs).
Proof.
  induction outs as [|o outs IH]; simpl; intro Hnd; [constructor|].
  inversion Hnd as [|? ? Hn Hnd']; subst. constructor; [|auto].
  intro Hin. apply in_map_iff in Hin. destruct Hin as (o' & E & Ho').
  apply Hn. apply out_path_eq_inv in E. rewrite <- E. apply in_map. exact Ho'.
Qed.

(* ================================================================== the CAS *)
Definition blob_ok (dg x : str) : Prop :=
  (exists r, x = "T"%char :: r) /\ (dg = H x \/ dg = H ("D"%char :: x)).

Lemma blob_ok_fun dg x y : blob_ok dg x -> blob_ok dg y -> x = y.
Proof.
  intros [[rx Hx] Hdx] [[ry Hy] Hdy].
  destruct Hdx as [Hdx|Hdx]; destruct Hdy as [Hdy|Hdy]; rewrite Hdx in Hdy;
    apply H_inj in Hdy; subst; try congruence; discriminate.
Qed.

Lemma blob_ok_digest o x : (exists r, x = "T"%char :: r) -> blob_ok (out_digest H o x) x.
Proof. intro Hx. split; [exact Hx|]. unfold out_digest. destruct (o_kind o); auto. Qed.

Lemma cas_add_sound dg x cas : cas_sound H cas -> blob_ok dg x -> cas_sound H (cas_add dg x cas).
Proof.
  intros Hs Hb. unfold cas_add. destruct (alookup dg cas) eqn:E; [exact Hs|].
  intros d y Hl. simpl in Hl. destruct (str_eqb d dg) eqn:Ed.
  - apply str_eqb_eq in Ed. inversion Hl; subst. exact Hb.
  - apply Hs. exact Hl.
Qed.

Lemma cas_add_has dg x cas :
  cas_sound H cas -> blob_ok dg x -> alookup dg (cas_add dg x cas) = Some x.
Proof.
  intros Hs Hb. unfold cas_add. destruct (alookup dg cas) as [y|] eqn:E.
  - rewrite E. f_equal. apply (blob_ok_fun dg); [apply Hs; exact E | exact Hb].
  - simpl. rewrite str_eqb_refl. reflexivity.
Qed.

Definition cas_step (cas : list (str * str)) (e : outdef * str) : list (str * str) :=
  cas_add (out_digest H (fst e) (snd e)) (snd e) cas.

Lemma cas_fold_mono : forall ocs cas d x,
  alookup d cas = Some x -> alookup d (fold_left cas_step ocs cas) = Some x.
Proof.
  induction ocs as [|e ocs IH]; intros cas d x Hl; [exact Hl|]. cbn [fold_left].
  apply IH. unfold cas_step. apply alookup_cas_add_mono. exact Hl.
Qed.

Lemma cas_fold_sound : forall ocs cas,
  cas_sound H cas -> (forall o x, In (o, x) ocs -> exists r, x = "T"%char :: r) ->
  cas_sound H (fold_left cas_step ocs cas) /\
  forall o x, In (o, x) ocs -> alookup (out_digest H o x) (fold_left cas_step ocs cas) = Some x.
Proof.
  induction ocs as [|[o0 x0] ocs IH]; intros cas Hs HT; [split; [exact Hs | contradiction]|].
  cbn [fold_left].
  assert (Hb : blob_ok (out_digest H o0 x0) x0) by (apply blob_ok_digest, (HT o0); left; reflexivity).
  destruct (IH (cas_step cas (o0, x0))) as [Hs' Hhas].
  - apply cas_add_sound; assumption.
  - intros o x Hin. apply (HT o). right. exact Hin.
  - split; [exact Hs'|]. intros o x [E|Hin]; [|apply Hhas; exact Hin].
    inversion E; subst. apply cas_fold_mono. apply cas_add_has; assumption.
Qed.

Lemma fold_left_map {A B C} (f : A -> B -> A) (g : C -> B) : forall l a,
  fold_left f (map g l) a = fold_left (fun a x => f a (g x)) l a.
Proof. induction l as [|x l IH]; intro a; simpl; auto. Qed.

(* ================================================================== restoring outputs *)
Lemma load_one_spec c t o dg ws ws1 :
  load_one H c t o dg ws = Some ws1 ->
  (forall p, p <> out_path t o -> ws_get p ws1 = ws_get p ws) /\
  exists x, ws_get (out_path t o) ws1 = PFile x /\
            (out_digest H o x = dg \/ alookup dg (c_cas c) = Some x).
Proof.
  unfold load_one.
  destruct (match ws_get (out_path t o) ws with
            | PFile x => str_eqb (out_digest H o x) dg | _ => false end) eqn:Esame.
  - intro E; inversion E; subst; clear E. split; [auto|].
    destruct (ws_get (out_path t o) ws1) as [| |x|] eqn:Ecur; try discriminate.
    exists x. split; [reflexivity|]. left. apply str_eqb_eq. exact Esame.
  - destruct (alookup dg (c_cas c)) as [content|] eqn:Ecas; [|discriminate].
    intro E.
    assert (E' : ws1 = ws_set (out_path t o) (PFile content) ws).
    { destruct (o_kind o); [destruct (ws_get (out_path t o) ws)|]; congruence. }
    subst ws1. split.
    + intros p Hp. apply ws_get_set_other. congruence.
    + exists content. split; [apply ws_get_set_same | right; reflexivity].
Qed.

Lemma find_out_spec outs def o :
  find_out outs def = Some o -> In o outs /\ out_def o = def.
Proof.
  unfold find_out. intro Hf. apply find_some in Hf. destruct Hf as [Hin E].
  apply str_eqb_eq in E. auto.
Qed.

Lemma load_all_keep c t : forall rs ws ok ws',
  load_all H c t rs ws = (ok, ws') ->
  forall p, (forall def dg o, In (def, dg) rs -> find_out (td_outs t) def = Some o -> out_path t o <> p) ->
  ws_get p ws' = ws_get p ws.
Proof.
  induction rs as [|[def dg] rs IH]; intros ws ok ws' Hl p Hp; cbn [load_all] in Hl.
  - inversion Hl; reflexivity.
  - assert (Hp' : forall def0 dg0 o, In (def0, dg0) rs -> find_out (td_outs t) def0 = Some o ->
                                     out_path t o <> p).
    { intros def0 dg0 o Hin. apply (Hp def0 dg0 o). right. exact Hin. }
    destruct (find_out (td_outs t) def) as [o|] eqn:Ef.
    + destruct (load_one H c t o dg ws) as [ws1|] eqn:El.
      * rewrite (IH _ _ _ Hl p Hp').
        apply (proj1 (load_one_spec _ _ _ _ _ _ El)).
        intro E. apply (Hp def dg o); [left; reflexivity | exact Ef | auto].
      * destruct (load_all H c t rs ws) as [ok0 ws0] eqn:Er. inversion Hl; subst.
        apply (IH _ _ _ Er p Hp').
    + destruct (load_all H c t rs ws) as [ok0 ws0] eqn:Er. inversion Hl; subst.
      apply (IH _ _ _ Er p Hp').
Qed.

Lemma load_all_frame c t rs ws ok ws' :
  load_all H c t rs ws = (ok, ws') ->
  forall p, (forall o, In o (td_outs t) -> p <> out_path t o) -> ws_get p ws' = ws_get p ws.
Proof.
  intros Hl p Hp. apply (load_all_keep _ _ _ _ _ _ Hl).
  intros def dg o _ Hf E. apply find_out_spec in Hf. apply (Hp o (proj1 Hf)). auto.
Qed.

Definition res_entry (e : outdef * str) : str * str :=
  (out_def (fst e), out_digest H (fst e) (snd e)).

Lemma load_all_ok c t : forall (ocs : list (outdef * str)) ws ws',
  cas_sound H (c_cas c) ->
  (forall o (x : str), In (o, x) ocs -> exists r, x = "T"%char :: r) ->
  NoDup (map (fun e => o_path (fst e)) ocs) ->
  load_all H c t (map res_entry ocs) ws = (true, ws') ->
  forall o x, In (o, x) ocs -> In o (td_outs t) /\ ws_get (out_path t o) ws' = PFile x.
Proof.
  induction ocs as [|[o0 x0] ocs IH]; intros ws ws' Hcas HT Hnd Hl o x Hin; [contradiction|].
  cbn [map load_all res_entry fst snd] in Hl.
  inversion Hnd as [|? ? Hn0 Hnd']; subst.
  destruct (find_out (td_outs t) (out_def o0)) as [o2|] eqn:Ef;
    [|destruct (load_all H c t (map res_entry ocs) ws); discriminate].
  destruct (find_out_spec _ _ _ Ef) as [Ho2 Edef]. apply out_def_inj in Edef. subst o2.
  destruct (load_one H c t o0 (out_digest H o0 x0) ws) as [ws1|] eqn:El;
    [|destruct (load_all H c t (map res_entry ocs) ws); discriminate].
  destruct Hin as [E|Hin].
  - inversion E; subst o x; clear E. split; [exact Ho2|].
    destruct (load_one_spec _ _ _ _ _ _ El) as [_ (y & Hy & Hy')].
    assert (y = x0).
    { destruct Hy' as [Hd|Hc]; [apply out_digest_inj in Hd; exact Hd|].
      apply (blob_ok_fun (out_digest H o0 x0)); [apply Hcas; exact Hc|].
      apply blob_ok_digest. apply (HT o0). left. reflexivity. }
    subst y. rewrite <- Hy. apply (load_all_keep _ _ _ _ _ _ Hl).
    intros def dg o Hin' Hf E. apply find_out_spec in Hf. destruct Hf as [_ Hf].
    apply in_map_iff in Hin'. destruct Hin' as ([o1 x1] & E1 & Hin1).
    unfold res_entry in E1; cbn [fst snd] in E1. injection E1 as Ed Eg.
    assert (o1 = o) by (apply out_def_inj; congruence). subst o1.
    apply out_path_eq_inv in E. apply Hn0. rewrite <- E.
    apply (in_map (fun e => o_path (fst e))) in Hin1. exact Hin1.
  - apply (IH ws1 ws'); auto. intros o1 x1 H1. apply (HT o1). right. exact H1.
Qed.

Lemma load_outputs_spec i t r b ok b' :
  rt_loaded (get_rt b i) = false -> i < rt_len b ->
  load_outputs H i t r b = (ok, b') ->
  b_cache b' = b_cache b /\ rt_len b' = rt_len b /\
  (forall j, j <> i -> get_rt b' j = get_rt b j) /\
  (forall p, (forall o, In o (td_outs t) -> p <> out_path t o) ->
             ws_get p (w_ws (b_world b')) = ws_get p (w_ws (b_world b))) /\
  (ok = true ->
     rt_ohash (get_rt b' i) = Some (r_outhash r) /\
     load_all H (b_cache b) t (r_outs r) (w_ws (b_world b)) = (true, w_ws (b_world b'))).
Proof.
  intros Hld Hi. unfold load_outputs. rewrite Hld.
  destruct (negb (outputs_match t r)).
  - intro E; inversion E; subst. split; [|split; [|split; [|split]]]; auto. discriminate.
  - destruct (load_all H (b_cache b) t (r_outs r) (w_ws (b_world b))) as [ok0 ws'] eqn:El.
    destruct ok0; intro E; inversion E; subst; clear E.
    + autorewrite with bst. split; [|split; [|split; [|split]]]; auto.
      * intros j Hj. rewrite get_rt_set_rt_other by auto. reflexivity.
      * intros p Hp. simpl. eapply load_all_frame; eauto.
      * intros _. rewrite get_rt_set_rt_same by (autorewrite with bst; exact Hi). split; reflexivity.
    + autorewrite with bst. split; [|split; [|split; [|split]]]; auto.
      * intros p Hp. simpl. eapply load_all_frame; eauto.
      * discriminate.
Qed.

(* ================================================================== reading the dependencies *)
(* a dependency (dt, dj): the ideal outputs of dj sit in the workspace *)
Definition dep_files (ws : list (str * pstate)) (e : tdef * idata) : Prop :=
  forall o x, In (o, x) (i_outs (snd e)) -> ws_get (out_path (fst e) o) ws = PFile x.

(* ... and it is a target node before i whose entry lists its declared outputs *)
Definition dep_src (s : sources) (i : nat) (e : tdef * idata) : Prop :=
  exists j, j < i /\ node_at s j = Some (NTarget (fst e)) /\
            map fst (i_outs (snd e)) = td_outs (fst e).

Lemma dep_parts_of_ideal ws dt : forall ocs,
  (forall o x, In (o, x) ocs -> ws_get (out_path dt o) ws = PFile x) ->
  dep_parts_of ws dt (map fst ocs) = Some (ideal_parts_of dt ocs).
Proof.
  induction ocs as [|[o x] ocs IH]; intro Hws; [reflexivity|].
  cbn [map fst dep_parts_of ideal_parts_of].
  rewrite (Hws o x) by (left; reflexivity).
  rewrite IH; [reflexivity|]. intros o1 x1 H1. apply Hws. right. exact H1.
Qed.

Lemma dep_parts_ideal s i ws acc : forall ds deps,
  ideal_deps s acc ds = Some deps ->
  Forall (dep_src s i) deps -> Forall (dep_files ws) deps ->
  dep_parts s ws ds = Some (ideal_reads deps).
Proof.
  induction ds as [|d ds IH]; intros deps Hd Hsrc Hf; cbn [ideal_deps] in Hd.
  - inversion Hd; subst. reflexivity.
  - cbn [dep_parts]. destruct (resolve s d) as [[j dt]|]; [|discriminate].
    destruct (nth j acc None) as [dj|]; [|discriminate].
    destruct (ideal_deps s acc ds) as [rest|]; [|discriminate].
    destruct (null (i_ohash dj)); [discriminate|]. inversion Hd; subst deps; clear Hd.
    inversion Hsrc as [|? ? (j0 & _ & _ & Hfst) Hsrc']; subst.
    inversion Hf as [|? ? Hf0 Hf']; subst. cbn [fst snd] in *.
    rewrite <- Hfst. rewrite (dep_parts_of_ideal ws dt (i_outs dj) Hf0).
    rewrite (IH rest eq_refl Hsrc' Hf'). reflexivity.
Qed.

Lemma dep_files_frame s i t ws ws' deps :
  no_overwrite s -> node_at s i = Some (NTarget t) ->
  (forall p, (forall o, In o (td_outs t) -> p <> out_path t o) -> ws_get p ws' = ws_get p ws) ->
  Forall (dep_src s i) deps -> Forall (dep_files ws) deps -> Forall (dep_files ws') deps.
Proof.
  intros Hno Hi Hfr Hsrc Hf. induction deps as [|[dt dj] deps IH]; [constructor|].
  inversion Hsrc as [|? ? (j & Hj & Hnj & Hfst) Hsrc']; subst.
  inversion Hf as [|? ? Hf0 Hf']; subst. constructor; [|auto].
  intros o x Hin. cbn [fst snd] in *. rewrite Hfr; [apply Hf0; exact Hin|].
  intros o' Ho'. eapply no_overwrite_other; eauto; [lia|].
  rewrite <- Hfst. apply (in_map fst) in Hin. exact Hin.
Qed.

(* ================================================================== the command *)
Lemma write_outs_frame s t reads skip : forall outs k ws p,
  (forall o, In o outs -> p <> out_path t o) ->
  ws_get p (write_outs s t k outs reads skip ws) = ws_get p ws.
Proof.
  induction outs as [|o outs IH]; intros k ws p Hp; [reflexivity|]. cbn [write_outs].
  rewrite IH by (intros o' Ho'; apply Hp; right; exact Ho').
  assert (Hne : out_path t o <> p) by (intro E; apply (Hp o); [left; reflexivity | auto]).
  destruct skip as [j|]; [destruct (Nat.eqb j k)|]; apply ws_get_set_other; exact Hne.
Qed.

Definition skip_misses (skip : option nat) (k len : nat) : Prop :=
  match skip with Some j => j < k \/ k + len <= j | None => True end.

Lemma write_outs_content s t reads skip : forall outs k ws,
  NoDup (map (out_path t) outs) -> skip_misses skip k (length outs) ->
  forall o x, In (o, x) (ideal_outs s t k outs reads) ->
  ws_get (out_path t o) (write_outs s t k outs reads skip ws) = PFile x.
Proof.
  induction outs as [|o0 outs IH]; intros k ws Hnd Hsk o x Hin; [contradiction|].
  cbn [write_outs ideal_outs] in *. inversion Hnd as [|? ? Hn0 Hnd']; subst.
  destruct Hin as [E|Hin].
  - inversion E; subst o x; clear E. rewrite write_outs_frame.
    + destruct skip as [j|]; [|apply ws_get_set_same].
      destruct (Nat.eqb j k) eqn:Ej; [|apply ws_get_set_same].
      apply Nat.eqb_eq in Ej. simpl in Hsk. lia.
    + intros o' Ho' E. apply Hn0. rewrite E. apply in_map. exact Ho'.
  - apply IH; auto. destruct skip as [j|]; simpl in *; [lia | exact I].
Qed.

Lemma write_outs_skip_absent s t reads j : forall outs k ws,
  NoDup (map (out_path t) outs) -> k <= j < k + length outs ->
  exists o, In o outs /\
    ws_get (out_path t o) (write_outs s t k outs reads (Some j) ws) = PAbsent.
Proof.
  induction outs as [|o0 outs IH]; intros k ws Hnd Hj; [simpl in Hj; lia|].
  cbn [write_outs]. inversion Hnd as [|? ? Hn0 Hnd']; subst.
  destruct (Nat.eqb j k) eqn:Ej.
  - exists o0. split; [left; reflexivity|]. rewrite write_outs_frame; [apply ws_get_set_same|].
    intros o' Ho' E. apply Hn0. rewrite E. apply in_map. exact Ho'.
  - apply Nat.eqb_neq in Ej. simpl in Hj.
    destruct (IH (S k) (ws_set (out_path t o0) (PFile (content_of s t k o0 reads)) ws) Hnd')
      as (o & Ho & Hw); [lia|].
    exists o. split; [right; exact Ho | exact Hw].
Qed.

Lemma present_digests_some t ws : forall outs ds,
  present_digests H t outs ws = Some ds ->
  forall o, In o outs -> exists x, ws_get (out_path t o) ws = PFile x.
Proof.
  induction outs as [|o0 outs IH]; intros ds Hp o Hin; [contradiction|].
  cbn [present_digests] in Hp.
  destruct (ws_get (out_path t o0) ws) as [| |x|] eqn:E0; try discriminate.
  destruct (present_digests H t outs ws) as [rest|]; [|discriminate].
  destruct Hin as [<-|Hin]; [eauto | eapply IH; eauto].
Qed.

Definition dg_entry (e : outdef * str) : outdef * str * str :=
  (fst e, out_digest H (fst e) (snd e), snd e).

Lemma present_digests_ideal t ws : forall ocs,
  (forall o x, In (o, x) ocs -> ws_get (out_path t o) ws = PFile x) ->
  present_digests H t (map fst ocs) ws = Some (map dg_entry ocs).
Proof.
  induction ocs as [|[o x] ocs IH]; intro Hws; [reflexivity|].
  cbn [map fst present_digests]. rewrite (Hws o x) by (left; reflexivity).
  rewrite IH; [reflexivity|]. intros o1 x1 H1. apply Hws. right. exact H1.
Qed.

(* ================================================================== OnTargetComplete *)
(* the blobs of a no-cache target are not stored *)
Definition cas_after (d : idata) (cas : list (str * str)) : list (str * str) :=
  if i_nc d then cas else fold_left cas_step (i_outs d) cas.

Definition cache_after (key : str) (d : idata) (c : cache) : cache :=
  mkCache (results_set key (res_of H d) (c_results c)) (cas_after d (c_cas c)) (c_taint c).

Lemma on_complete_ideal cfg i t key b d :
  cfg_cache cfg = true -> i_nc d = td_nocache t ->
  map fst (i_outs d) = td_outs t ->
  i_ohash d = ideal_ohash H t key (i_outs d) ->
  (forall o x, In (o, x) (i_outs d) -> ws_get (out_path t o) (w_ws (b_world b)) = PFile x) ->
  on_complete H cfg i t key b =
  Some (set_rt (set_cache b (cache_after key d (b_cache b))) i
          (mkRt (rt_key (get_rt b i)) (Some (i_ohash d)) true (rt_status (get_rt b i)))).
Proof.
  intros Hc Hnc Hfst Hoh Hws. unfold on_complete.
  rewrite <- Hfst at 1. rewrite (present_digests_ideal t _ (i_outs d) Hws).
  rewrite Hc. cbn [negb]. rewrite orb_false_r.
  destruct (td_nocache t) eqn:Enc.
  { unfold cache_after, cas_after, res_of. rewrite Hnc, Hoh. unfold ideal_ohash. rewrite Enc.
    rewrite map_map. reflexivity. }
  assert (Hres :
    (match td_outs t with
     | [] => (mkRes key [], c_cas (b_cache b))
     | _ :: _ =>
         (mkRes (output_hash H (map (fun e => ser_out (fst (fst e)) (snd (fst e))) (map dg_entry (i_outs d))))
                (map (fun e => (out_def (fst (fst e)), snd (fst e))) (map dg_entry (i_outs d))),
          fold_left (fun cas e => cas_add (snd (fst e)) (snd e) cas) (map dg_entry (i_outs d))
                    (c_cas (b_cache b)))
     end) = (res_of H d, cas_after d (c_cas (b_cache b)))).
  { unfold res_of, cas_after. rewrite Hnc, Hoh. unfold ideal_ohash. rewrite Enc.
    destruct (td_outs t) as [|o0 outs] eqn:Eo.
    - destruct (i_outs d); [reflexivity | discriminate].
    - rewrite !map_map, fold_left_map. reflexivity. }
  rewrite Hres. reflexivity.
Qed.

(* ================================================================== run_command / execute *)
Definition not_own (t : tdef) (p : str) : Prop := forall o, In o (td_outs t) -> p <> out_path t o.

Lemma run_command_frame s t w w' p :
  run_command s t w = Some w' -> not_own t p -> ws_get p (w_ws w') = ws_get p (w_ws w).
Proof.
  unfold run_command. intros Hr Hp.
  destruct (td_beh t); try discriminate;
    (destruct (dep_parts s (w_ws w) (td_deps t)); [|discriminate]);
    inversion Hr; subst; cbn [w_ws]; try discriminate; apply write_outs_frame; exact Hp.
Qed.

Lemma run_command_failed_frame s t w p :
  not_own t p -> ws_get p (w_ws (run_command_failed_world s t w)) = ws_get p (w_ws w).
Proof.
  unfold run_command_failed_world. intro Hp.
  destruct (td_beh t); try reflexivity.
  destruct (dep_parts s (w_ws w) (td_deps t)); [|reflexivity].
  cbn [w_ws]. apply write_outs_frame. exact Hp.
Qed.

Lemma run_command_ok s t w w' reads :
  run_command s t w = Some w' ->
  dep_parts s (w_ws w) (td_deps t) = Some reads ->
  NoDup (map (out_path t) (td_outs t)) ->
  check_ok w' t = true ->
  (forall o, In o (td_outs t) -> exists x, ws_get (out_path t o) (w_ws w') = PFile x) ->
  beh_ok t = true /\
  forall o x, In (o, x) (ideal_outs s t 0 (td_outs t) reads) ->
              ws_get (out_path t o) (w_ws w') = PFile x.
Proof.
  unfold run_command, beh_ok. intros Hr Hdp Hnd Hck Hall. rewrite Hdp in Hr.
  destruct (td_beh t) as [| |k| |] eqn:Eb; try discriminate; inversion Hr; subst w'; clear Hr;
    cbn [w_ws] in *.
  - split; [reflexivity|]. apply write_outs_content; [exact Hnd | exact I].
  - destruct (le_lt_dec (length (td_outs t)) k) as [Hk|Hk].
    + split; [apply Nat.leb_le; exact Hk|]. apply write_outs_content; [exact Hnd|]. simpl. lia.
    + exfalso.
      destruct (write_outs_skip_absent s t reads k (td_outs t) 0 (w_ws w) Hnd) as (o & Ho & Ha); [lia|].
      destruct (Hall o Ho) as [x Hx]. congruence.
  - destruct (td_check t) eqn:Ec.
    + exfalso. unfold check_ok in Hck. rewrite Ec in Hck. cbn [negb orb w_ext] in Hck.
      rewrite label_in_remove in Hck. discriminate.
    + split; [reflexivity|]. apply write_outs_content; [exact Hnd | exact I].
Qed.

Lemma on_complete_some_present cfg i t key b b2 :
  on_complete H cfg i t key b = Some b2 ->
  exists ds, present_digests H t (td_outs t) (w_ws (b_world b)) = Some ds.
Proof.
  unfold on_complete. destruct (present_digests H t (td_outs t) (w_ws (b_world b))); [eauto|].
  destruct (td_outs t); discriminate.
Qed.

Lemma on_complete_frame cfg i t key b b2 :
  on_complete H cfg i t key b = Some b2 ->
  b_world b2 = b_world b /\ rt_len b2 = rt_len b /\ (forall j, j <> i -> get_rt b2 j = get_rt b j).
Proof.
  unfold on_complete. destruct (present_digests H t (td_outs t) (w_ws (b_world b))) as [ds|];
    [|destruct (td_outs t); discriminate].
  match goal with |- context [let '(a, b) := ?X in _] => destruct X as [res cas'] end.
  intro E; inversion E; subst; clear E. autorewrite with bst.
  split; [reflexivity|]. split; [reflexivity|].
  intros j Hj. rewrite get_rt_set_rt_other by auto. reflexivity.
Qed.

Lemma execute_frame cfg s i t key tainted b ok b' :
  null (td_cmd t) = false ->
  execute H cfg s i t key tainted b = (ok, b') ->
  rt_len b' = rt_len b /\ (forall j, j <> i -> get_rt b' j = get_rt b j) /\
  (forall p, not_own t p -> ws_get p (w_ws (b_world b')) = ws_get p (w_ws (b_world b))) /\
  (ok = false -> c_results (b_cache b') = c_results (b_cache b) /\
                 c_cas (b_cache b') = c_cas (b_cache b)).
Proof.
  intros Hcmd. unfold execute. rewrite Hcmd. autorewrite with bst.
  destruct (run_command s t (b_world b)) as [w'|] eqn:Er.
  - destruct (check_ok w' t); cbn [negb].
    + destruct (on_complete H cfg i t key (set_world (add_exec b (td_label t)) w')) as [b2|] eqn:Eoc.
      * destruct (on_complete_frame _ _ _ _ _ _ Eoc) as (Hw & Hlen & Hrt).
        autorewrite with bst in *. intro E; inversion E; subst ok b'; clear E.
        assert (Hgoal : rt_len b2 = rt_len b /\ (forall j, j <> i -> get_rt b2 j = get_rt b j) /\
                  (forall p, not_own t p -> ws_get p (w_ws (b_world b2)) = ws_get p (w_ws (b_world b)))).
        { split; [exact Hlen|]. split; [exact Hrt|]. intros p Hp. rewrite Hw.
          eapply run_command_frame; eauto. }
        destruct Hgoal as (G1 & G2 & G3).
        destruct tainted; autorewrite with bst; (split; [|split; [|split]]); auto; discriminate.
      * intro E; inversion E; subst; clear E. autorewrite with bst.
        split; [reflexivity|]. split; [auto|]. split; [|auto].
        intros p Hp. eapply run_command_frame; eauto.
    + intro E; inversion E; subst; clear E. autorewrite with bst.
      split; [reflexivity|]. split; [auto|]. split; [|auto].
      intros p Hp. eapply run_command_frame; eauto.
  - intro E; inversion E; subst; clear E. autorewrite with bst.
    split; [reflexivity|]. split; [auto|]. split; [|auto].
    intros p Hp. apply run_command_failed_frame. exact Hp.
Qed.

Lemma execute_ok cfg s i t key tainted b b' reads :
  null (td_cmd t) = false -> cfg_cache cfg = true ->
  i < rt_len b ->
  NoDup (map (out_path t) (td_outs t)) ->
  dep_parts s (w_ws (b_world b)) (td_deps t) = Some reads ->
  execute H cfg s i t key tainted b = (true, b') ->
  beh_ok t = true /\
  forall d, i_outs d = ideal_outs s t 0 (td_outs t) reads -> i_nc d = td_nocache t ->
            i_ohash d = ideal_ohash H t key (i_outs d) ->
    c_results (b_cache b') = results_set key (res_of H d) (c_results (b_cache b)) /\
    c_cas (b_cache b') = cas_after d (c_cas (b_cache b)) /\
    rt_ohash (get_rt b' i) = Some (i_ohash d) /\
    forall o x, In (o, x) (i_outs d) -> ws_get (out_path t o) (w_ws (b_world b')) = PFile x.
Proof.
  intros Hcmd Hcc Hi Hnd Hdp. unfold execute. rewrite Hcmd. autorewrite with bst.
  destruct (run_command s t (b_world b)) as [w'|] eqn:Er; [|discriminate].
  destruct (check_ok w' t) eqn:Eck; cbn [negb]; [|discriminate].
  destruct (on_complete H cfg i t key (set_world (add_exec b (td_label t)) w')) as [b2|] eqn:Eoc;
    [|discriminate].
  intro E; inversion E; subst b'; clear E.
  destruct (on_complete_some_present _ _ _ _ _ _ Eoc) as [ds Hds]. autorewrite with bst in Hds.
  destruct (run_command_ok s t _ w' reads Er Hdp Hnd Eck (present_digests_some _ _ _ _ Hds))
    as [Hbeh Hcont].
  split; [exact Hbeh|]. intros d Hout Hnc Hoh.
  rewrite (on_complete_ideal cfg i t key _ d Hcc Hnc) in Eoc.
  - inversion Eoc; subst b2; clear Eoc.
    assert (Hi' : i < rt_len (set_cache (set_world (add_exec b (td_label t)) w')
                     (cache_after key d (b_cache (set_world (add_exec b (td_label t)) w')))))
      by (autorewrite with bst; exact Hi).
    destruct tainted; autorewrite with bst; rewrite get_rt_set_rt_same by exact Hi';
      cbn [cache_after c_results c_cas rt_ohash]; autorewrite with bst;
      (split; [reflexivity|]); (split; [reflexivity|]); (split; [reflexivity|]);
      intros o x Hin; apply Hcont; rewrite <- Hout; exact Hin.
  - rewrite Hout. apply ideal_outs_fst.
  - exact Hoh.
  - autorewrite with bst. intros o x Hin. apply Hcont. rewrite <- Hout. exact Hin.
Qed.

(* ================================================================== output hash of equal output sets *)
Lemma output_hash_perm l l' : Permutation l l' -> output_hash H l = output_hash H l'.
Proof.
  intro Hp. unfold output_hash. destruct l as [|a l]; destruct l' as [|a' l'].
  - reflexivity.
  - apply Permutation_nil in Hp. discriminate.
  - apply Permutation_sym, Permutation_nil in Hp. discriminate.
  - f_equal. f_equal. apply sort_strs_canonical. apply Permutation_map. exact Hp.
Qed.

Definition ser_entry (e : outdef * str) : str := ser_out (fst e) (out_digest H (fst e) (snd e)).

Lemma ideal_ohash_perm key (l l' : list (outdef * str)) :
  Permutation l l' ->
  match map fst l with [] => key | _ :: _ => output_hash H (map ser_entry l) end =
  match map fst l' with [] => key | _ :: _ => output_hash H (map ser_entry l') end.
Proof.
  intro Hp. destruct l as [|e l]; destruct l' as [|e' l'].
  - reflexivity.
  - apply Permutation_nil in Hp. discriminate.
  - apply Permutation_sym, Permutation_nil in Hp. discriminate.
  - cbn [map]. apply (output_hash_perm (map ser_entry (e :: l)) (map ser_entry (e' :: l'))).
    apply Permutation_map. exact Hp.
Qed.

Lemma nocache_hash_perm l l' :
  Permutation l l' -> nocache_output_hash H l = nocache_output_hash H l'.
Proof.
  intro Hp. unfold nocache_output_hash. f_equal. f_equal. apply sort_strs_canonical.
  apply Permutation_map. exact Hp.
Qed.

Lemma same_outs_ohash t t' d d' :
  td_nocache t = td_nocache t' ->
  map fst (i_outs d) = td_outs t -> map fst (i_outs d') = td_outs t' ->
  NoDup (td_outs t) -> NoDup (td_outs t') ->
  i_ohash d = ideal_ohash H t (i_key d) (i_outs d) ->
  i_ohash d' = ideal_ohash H t' (i_key d') (i_outs d') ->
  i_key d = i_key d' -> same_outs d d' -> i_ohash d = i_ohash d'.
Proof.
  intros Hnc Hf Hf' Hnd Hnd' Ho Ho' Hk Hsame.
  assert (Hp : Permutation (i_outs d) (i_outs d')).
  { apply NoDup_Permutation.
    - apply NoDup_map_fst_pairs. rewrite Hf. exact Hnd.
    - apply NoDup_map_fst_pairs. rewrite Hf'. exact Hnd'.
    - intros [o x]. apply Hsame. }
  rewrite Ho, Ho'. unfold ideal_ohash. rewrite <- Hnc.
  destruct (td_nocache t).
  - apply nocache_hash_perm. apply Permutation_map. exact Hp.
  - rewrite <- Hf, <- Hf', Hk. apply ideal_ohash_perm. exact Hp.
Qed.

(* ================================================================== cache soundness is kept *)
Lemma cache_sound_ext V c c' :
  c_results c' = c_results c -> c_cas c' = c_cas c -> cache_sound H V c -> cache_sound H V c'.
Proof. intros Hr Hc [Hs Hres]. unfold cache_sound. rewrite Hr, Hc. split; assumption. Qed.

Lemma cache_sound_after V c c' s i d :
  cache_sound H V c -> In s V -> is_target s i -> nth i (ideal H s) None = Some d ->
  c_results c' = results_set (i_key d) (res_of H d) (c_results c) ->
  c_cas c' = cas_after d (c_cas c) ->
  cache_sound H V c'.
Proof.
  intros [Hs Hres] HsV [t Ht] Hd Hr Hc. unfold cache_sound. rewrite Hr, Hc.
  destruct (ideal_entry_facts s i t d Ht Hd) as (_ & HT & _ & _).
  assert (Hs' : cas_sound H (cas_after d (c_cas c))).
  { unfold cas_after. destruct (i_nc d); [exact Hs|].
    exact (proj1 (cas_fold_sound (i_outs d) (c_cas c) Hs HT)). }
  split; [exact Hs'|]. intros k r Hl.
  destruct (str_eq_dec (i_key d) k) as [<-|Hne].
  - rewrite rlookup_set_same in Hl. inversion Hl; subst r.
    exists s, i, d. repeat split; auto. exists t; exact Ht.
  - rewrite rlookup_set_other in Hl by exact Hne. apply (Hres k r Hl).
Qed.

(* ================================================================== the task of one target *)
Definition tgood (s : sources) (b : bstate) (j : nat) (t : tdef) : Prop :=
  exists dj, nth j (ideal H s) None = Some dj /\
    rt_ohash (get_rt b j) = Some (i_ohash dj) /\
    forall o x, In (o, x) (i_outs dj) -> ws_get (out_path t o) (w_ws (b_world b)) = PFile x.

Definition deps_ready (s : sources) (b : bstate) (i : nat) (ds : list nat) : Prop :=
  forall d j dt, In d ds -> resolve s d = Some (j, dt) ->
    j < i /\ node_at s j = Some (NTarget dt) /\ tgood s b j dt.

Lemma deps_ready_ideal s b i : i <= length (s_nodes s) -> forall ds dh,
  deps_ready s b i ds -> dep_hashes s b ds = Some dh ->
  exists deps, ideal_deps s (ideal_upto H s i) ds = Some deps /\
    dh = map (fun e => dep_contrib (fst e) (i_ohash (snd e))) deps /\
    Forall (dep_src s i) deps /\ Forall (dep_files (w_ws (b_world b))) deps.
Proof.
  intros Hi. induction ds as [|d ds IH]; intros dh Hready Hdh; cbn [dep_hashes] in Hdh.
  - inversion Hdh; subst. exists []. repeat split; constructor.
  - destruct (resolve s d) as [[j dt]|] eqn:Er; [|discriminate].
    destruct (dep_hashes s b ds) as [rest|] eqn:Erest; [|discriminate].
    destruct (rt_ohash (get_rt b j)) as [h|] eqn:Eh; [|discriminate].
    destruct (null h) eqn:En; [discriminate|]. inversion Hdh; subst dh; clear Hdh.
    destruct (Hready d j dt (or_introl eq_refl) Er) as (Hj & Hnj & dj & Hdj & Hoh & Hws).
    rewrite Eh in Hoh. inversion Hoh; subst h; clear Hoh.
    destruct (IH rest) as (deps & Hdeps & Hrest & Hsrc & Hfiles); [|reflexivity|].
    { intros d0 j0 dt0 Hin. apply Hready. right. exact Hin. }
    exists ((dt, dj) :: deps). cbn [ideal_deps]. rewrite Er.
    rewrite (ideal_upto_nth_full s i j Hj Hi), Hdj, Hdeps, En.
    split; [reflexivity|]. split; [cbn [map snd]; rewrite Hrest; reflexivity|].
    split; constructor; auto.
    exists j. split; [exact Hj|]. split; [exact Hnj|].
    apply (ideal_entry_facts s j dt dj Hnj Hdj).
Qed.

Definition hit_just (V : list sources) (s : sources) (i : nat) (t : tdef) (b : bstate) : Prop :=
  exists key r s' j' d' d,
    served H s i t b = Some (key, r) /\ In s' V /\ is_target s' j' /\
    nth j' (ideal H s') None = Some d' /\ nth i (ideal H s) None = Some d /\
    i_key d' = key /\ i_key d = key /\ r = res_of H d' /\ same_outs d d'.

Definition step_post (V : list sources) (s : sources) (i : nat) (t : tdef) (b b' : bstate) : Prop :=
  rt_len b' = rt_len b /\
  (forall j, j <> i -> get_rt b' j = get_rt b j) /\
  (forall p, not_own t p -> ws_get p (w_ws (b_world b')) = ws_get p (w_ws (b_world b))) /\
  cache_sound H V (b_cache b') /\
  (st_ok (rt_status (get_rt b' i)) = true -> tgood s b' i t) /\
  (rt_status (get_rt b' i) = THit -> hit_just V s i t b).

Lemma process_target_cases cfg s i t b dh :
  cfg_mode cfg = LAll -> dep_hashes s b (td_deps t) = Some dh ->
  let key := change_key H (pkg_fs s t) (state_of t dh) in
  let bk := set_rt b i (mkRt (Some key) (rt_ohash (get_rt b i)) (rt_loaded (get_rt b i))
                             (rt_status (get_rt b i))) in
  (exists res b1, rlookup key (c_results (b_cache b)) = Some res /\ td_nocache t = false /\
                  load_outputs H i t res bk = (true, b1) /\
                  process_target H cfg s i t b = mark b1 i THit) \/
  (exists b1 tainted ok b3,
      (b1 = bk \/ exists res, load_outputs H i t res bk = (false, b1)) /\
      execute H cfg s i t key tainted b1 = (ok, b3) /\
      process_target H cfg s i t b = mark b3 i (if ok then TExecuted else TFailed)).
Proof.
  intros Hmode Hdh key bk. unfold process_target. rewrite Hdh, Hmode. fold key. fold bk.
  change (b_cache bk) with (b_cache b).
  destruct (rlookup key (c_results (b_cache b))) as [res|] eqn:Er.
  - destruct (negb (label_in (td_label t) (c_taint (b_cache b))) && negb (td_nocache t) &&
              cfg_cache cfg && check_ok (b_world bk) t) eqn:Econd.
    + destruct (load_outputs H i t res bk) as [hit b1] eqn:El. destruct hit.
      * left. exists res, b1. split; [reflexivity|]. split; [|auto].
        apply andb_true_iff in Econd. destruct Econd as [Econd _].
        apply andb_true_iff in Econd. destruct Econd as [Econd _].
        apply andb_true_iff in Econd. destruct Econd as [_ Econd].
        apply negb_true_iff in Econd. exact Econd.
      * right. cbn [negb].
        destruct (execute H cfg s i t key (label_in (td_label t) (c_taint (b_cache b))) b1)
          as [ok b3] eqn:Ee.
        exists b1, (label_in (td_label t) (c_taint (b_cache b))), ok, b3.
        split; [right; exists res; exact El|]. split; [exact Ee | reflexivity].
    + right. cbn [negb].
      destruct (execute H cfg s i t key (label_in (td_label t) (c_taint (b_cache b))) bk)
        as [ok b3] eqn:Ee.
      exists bk, (label_in (td_label t) (c_taint (b_cache b))), ok, b3.
      split; [left; reflexivity|]. split; [exact Ee | reflexivity].
  - right. cbn [negb].
    destruct (execute H cfg s i t key (label_in (td_label t) (c_taint (b_cache b))) bk)
      as [ok b3] eqn:Ee.
    exists bk, (label_in (td_label t) (c_taint (b_cache b))), ok, b3.
    split; [left; reflexivity|]. split; [exact Ee | reflexivity].
Qed.

(* ================================================================== one step of the walk *)
Lemma plain_target s i t :
  plain s -> node_at s i = Some (NTarget t) -> null (td_cmd t) = false.
Proof.
  unfold plain, node_at. intros Hp Hn. apply nth_error_In in Hn.
  rewrite forallb_forall in Hp. specialize (Hp _ Hn). cbn [plain_node] in Hp.
  apply negb_true_iff in Hp. exact Hp.
Qed.

Section Step.
Variable V : list sources.
Hypothesis V_ok : forall s, In s V -> src_ok s.
Hypothesis V_faithful : key_faithful H V.
Variable cfg : config.
Hypothesis cfg_all : cfg_mode cfg = LAll.
Hypothesis cfg_cached : cfg_cache cfg = true.
Variable s : sources.
Hypothesis s_in : In s V.

Section Target.
Variables (i : nat) (t : tdef) (b : bstate) (dh : list str).
Hypothesis Hn : node_at s i = Some (NTarget t).
Hypothesis Hi : i < rt_len b.
Hypothesis Hlen : rt_len b = length (s_nodes s).
Hypothesis Hrt0 : get_rt b i = rt0.
Hypothesis Hcs : cache_sound H V (b_cache b).
Hypothesis Hready : deps_ready s b i (td_deps t).
Hypothesis Hdh : dep_hashes s b (td_deps t) = Some dh.

Let key := change_key H (pkg_fs s t) (state_of t dh).
Let bk := set_rt b i (mkRt (Some key) (rt_ohash (get_rt b i)) (rt_loaded (get_rt b i))
                           (rt_status (get_rt b i))).

Lemma step_deps :
  exists deps, ideal_deps s (ideal_upto H s i) (td_deps t) = Some deps /\
    key = ideal_key H s t deps /\ ideal_key_at H s i = Some key /\
    Forall (dep_src s i) deps /\ Forall (dep_files (w_ws (b_world b))) deps.
Proof.
  destruct (deps_ready_ideal s b i) with (ds := td_deps t) (dh := dh)
    as (deps & Hdeps & Hdheq & Hsrc & Hfiles); [lia | exact Hready | exact Hdh |].
  exists deps. split; [exact Hdeps|].
  assert (Hk : key = ideal_key H s t deps) by (unfold key, ideal_key; rewrite Hdheq; reflexivity).
  split; [exact Hk|]. split; [|auto].
  unfold ideal_key_at. rewrite Hn. unfold ideal_key_of. rewrite Hdeps, Hk. reflexivity.
Qed.

Lemma bk_facts :
  rt_loaded (get_rt bk i) = false /\ i < rt_len bk /\ rt_len bk = rt_len b /\
  (forall j, j <> i -> get_rt bk j = get_rt b j).
Proof.
  unfold bk. split; [rewrite get_rt_set_rt_same by exact Hi; rewrite Hrt0; reflexivity|].
  autorewrite with bst. split; [exact Hi|]. split; [reflexivity|].
  intros j Hj. apply get_rt_set_rt_other. auto.
Qed.

Lemma hit_case res b1 :
  rlookup key (c_results (b_cache b)) = Some res -> td_nocache t = false ->
  load_outputs H i t res bk = (true, b1) ->
  step_post V s i t b (mark b1 i THit).
Proof.
  intros Hlk Hnc Hlo.
  destruct step_deps as (deps & Hdeps & Hkeq & Hkey & Hsrc & Hfiles).
  destruct Hcs as [Hcas Hres].
  destruct (Hres key res Hlk) as (s' & j' & d' & Hs' & Htj' & Hd' & Hk' & Hr').
  destruct (V_faithful s s' i j' key d' s_in Hs' Hkey Htj' Hd' (eq_sym Hk')) as (d & Hd & Hsame & Hncd).
  destruct bk_facts as (Hbl & Hbi & Hblen & Hbrt).
  destruct (load_outputs_spec i t res bk true b1 Hbl Hbi Hlo) as (Hc1 & Hl1 & Hrt1 & Hfr1 & Hok1).
  destruct (Hok1 eq_refl) as [Hoh1 Hla].
  destruct Htj' as [t' Ht'].
  destruct (ideal_entry_facts s' j' t' d' Ht' Hd') as (Hfst' & HT' & Hoh' & Hka').
  destruct (ideal_entry_facts s i t d Hn Hd) as (Hfst & HT & Hoh & Hka).
  pose proof (ideal_entry_nc s' j' t' d' Ht' Hd') as Hnc'.
  pose proof (ideal_entry_nc s i t d Hn Hd) as Hncd0.
  assert (Hnct : td_nocache t = td_nocache t') by congruence.
  assert (Hres' : r_outs res = map res_entry (i_outs d')).
  { rewrite Hr'. unfold res_of. cbn [r_outs]. rewrite <- Hncd, Hncd0, Hnc. reflexivity. }
  destruct (V_ok s' Hs') as [Hno' _]. destruct (V_ok s s_in) as [Hno _].
  pose proof (no_overwrite_own s' j' t' Hno' Ht') as Hnd'.
  pose proof (no_overwrite_own s i t Hno Hn) as Hnd.
  assert (Hload : forall o x, In (o, x) (i_outs d') ->
            In o (td_outs t) /\ ws_get (out_path t o) (w_ws (b_world b1)) = PFile x).
  { apply (load_all_ok (b_cache bk) t (i_outs d') (w_ws (b_world bk)) (w_ws (b_world b1))).
    - exact Hcas.
    - exact HT'.
    - rewrite <- (map_map fst o_path). rewrite Hfst'. apply (own_paths_opath t'). exact Hnd'.
    - rewrite Hres' in Hla. exact Hla. }
  assert (Hkd : i_key d = key) by congruence.
  unfold step_post. autorewrite with bst.
  split; [congruence|].
  split; [intros j Hj; rewrite get_rt_mark_other by auto; rewrite Hrt1 by exact Hj; auto|].
  split; [intros p Hp; apply (Hfr1 p Hp)|].
  split; [rewrite Hc1; split; assumption|].
  split.
  - intros _. exists d. split; [exact Hd|]. split.
    + rewrite rt_ohash_mark, Hoh1, Hr'. cbn [res_of r_outhash]. f_equal. symmetry.
      apply (same_outs_ohash t t' d d'); auto.
      * eapply NoDup_map_inv; exact Hnd.
      * eapply NoDup_map_inv; exact Hnd'.
      * congruence.
    + intros o x Hin. apply Hload. apply Hsame. exact Hin.
  - intros _. exists key, res, s', j', d', d.
    split; [unfold served; rewrite Hdh; fold key; rewrite Hlk; reflexivity|].
    split; [exact Hs'|]. split; [exists t'; exact Ht'|]. auto 10.
Qed.

Lemma miss_case b1 tainted ok b3 :
  (b1 = bk \/ exists res, load_outputs H i t res bk = (false, b1)) ->
  execute H cfg s i t key tainted b1 = (ok, b3) ->
  step_post V s i t b (mark b3 i (if ok then TExecuted else TFailed)).
Proof.
  intros Hb1 Hex.
  destruct step_deps as (deps & Hdeps & Hkeq & Hkey & Hsrc & Hfiles).
  destruct bk_facts as (Hbl & Hbi & Hblen & Hbrt).
  destruct (V_ok s s_in) as [Hno Hpl].
  pose proof (plain_target s i t Hpl Hn) as Hcmd.
  pose proof (no_overwrite_own s i t Hno Hn) as Hnd.
  assert (F1 : b_cache b1 = b_cache b /\ rt_len b1 = rt_len b /\
               (forall j, j <> i -> get_rt b1 j = get_rt b j) /\
               (forall p, not_own t p -> ws_get p (w_ws (b_world b1)) = ws_get p (w_ws (b_world b)))).
  { destruct Hb1 as [->|[res Hlo]].
    - split; [reflexivity|]. split; [exact Hblen|]. split; [exact Hbrt|]. reflexivity.
    - destruct (load_outputs_spec i t res bk false b1 Hbl Hbi Hlo) as (Hc1 & Hl1 & Hrt1 & Hfr1 & _).
      split; [exact Hc1|]. split; [congruence|].
      split; [intros j Hj; rewrite Hrt1 by exact Hj; auto|]. exact Hfr1. }
  destruct F1 as (Hc1 & Hl1 & Hrt1 & Hfr1).
  destruct (execute_frame cfg s i t key tainted b1 ok b3 Hcmd Hex) as (Hl3 & Hrt3 & Hfr3 & Hfail).
  assert (Hi3 : i < rt_len b3) by lia.
  unfold step_post. autorewrite with bst.
  split; [congruence|].
  split; [intros j Hj; rewrite get_rt_mark_other by auto; rewrite Hrt3 by exact Hj; auto|].
  split; [intros p Hp; rewrite (Hfr3 p Hp); auto|].
  rewrite rt_status_mark_same by exact Hi3.
  destruct ok.
  - assert (Hdp : dep_parts s (w_ws (b_world b1)) (td_deps t) = Some (ideal_reads deps)).
    { apply (dep_parts_ideal s i _ (ideal_upto H s i) _ deps Hdeps Hsrc).
      apply (dep_files_frame s i t (w_ws (b_world b))); auto. }
    destruct (execute_ok cfg s i t key tainted b1 b3 (ideal_reads deps)
                Hcmd cfg_cached ltac:(lia) Hnd Hdp Hex) as [Hbeh Hpost].
    destruct (ideal_target_of_deps s (ideal_upto H s i) t deps Hdeps Hbeh)
      as (d & Hd & Hdk & Hdo & Hdh').
    assert (Hd' : nth i (ideal H s) None = Some d)
      by (rewrite (ideal_nth s i _ Hn); exact Hd).
    assert (Hkd : i_key d = key) by congruence.
    destruct (Hpost d Hdo) as (Hres3 & Hcas3 & Hoh3 & Hws3);
      [exact (ideal_target_nc _ _ _ _ Hd) | rewrite <- Hkd; exact Hdh'|].
    split.
    + apply (cache_sound_after V (b_cache b) (b_cache b3) s i d); auto.
      * exists t; exact Hn.
      * rewrite Hres3, Hc1, Hkd. reflexivity.
      * rewrite Hcas3, Hc1. reflexivity.
    + split; [|discriminate]. intros _. exists d. split; [exact Hd'|].
      split; [rewrite rt_ohash_mark; exact Hoh3 | exact Hws3].
  - destruct (Hfail eq_refl) as [Hr3 Hc3].
    split; [|split; discriminate].
    apply (cache_sound_ext V (b_cache b)); [congruence | congruence | exact Hcs].
Qed.

Lemma process_target_step : step_post V s i t b (process_target H cfg s i t b).
Proof.
  destruct (process_target_cases cfg s i t b dh cfg_all Hdh)
    as [(res & b1 & Hlk & Hnc & Hlo & ->)|(b1 & tainted & ok & b3 & Hb1 & Hex & ->)].
  - apply hit_case with (res := res); assumption.
  - apply miss_case with (b1 := b1) (tainted := tainted); assumption.
Qed.
End Target.

(* ================================================================== the walk *)
Definition Inv (k : nat) (b : bstate) : Prop :=
  rt_len b = length (s_nodes s) /\
  (forall j, k <= j -> get_rt b j = rt0) /\
  cache_sound H V (b_cache b) /\
  (forall j l a, node_at s j = Some (NAlias l a) -> st_ok (rt_status (get_rt b j)) = true ->
                 st_ok (rt_status (get_rt b a)) = true) /\
  (forall j t, node_at s j = Some (NTarget t) -> st_ok (rt_status (get_rt b j)) = true ->
               tgood s b j t).

Definition node_post (k : nat) (b b' : bstate) : Prop :=
  Inv (S k) b' /\ (forall j, j <> k -> get_rt b' j = get_rt b j) /\
  (forall t, node_at s k = Some (NTarget t) -> rt_status (get_rt b' k) = THit -> hit_just V s k t b).

Lemma node_post_ext k b b' bf :
  b_world bf = b_world b' -> b_cache bf = b_cache b' -> b_rt bf = b_rt b' ->
  node_post k b b' -> node_post k b bf.
Proof.
  destruct b' as [w c r e st], bf as [w' c' r' e' st']. cbn [b_world b_cache b_rt].
  intros -> -> -> Hp. exact Hp.
Qed.

Lemma inv_ok_lt k b j : Inv k b -> st_ok (rt_status (get_rt b j)) = true -> j < k.
Proof.
  intros (_ & H0 & _) Hok. destruct (lt_dec j k) as [Hj|Hj]; [exact Hj|].
  rewrite H0 in Hok by lia. discriminate.
Qed.

Lemma resolve_ok k b : Inv k b -> forall f d j dt,
  resolve_alias f s d = Some (j, dt) -> st_ok (rt_status (get_rt b d)) = true ->
  node_at s j = Some (NTarget dt) /\ st_ok (rt_status (get_rt b j)) = true.
Proof.
  intros HI. induction f as [|f IH]; intros d j dt Hr Hok; cbn [resolve_alias] in Hr; [discriminate|].
  destruct (node_at s d) as [[t|l a]|] eqn:En; [| |discriminate].
  - inversion Hr; subst. auto.
  - apply (IH a j dt Hr). destruct HI as (_ & _ & _ & Hal & _). eapply Hal; eauto.
Qed.

Lemma inv_deps_ready k b ds :
  Inv k b -> forallb (dep_ok b) ds = true -> deps_ready s b k ds.
Proof.
  intros HI Hall d j dt Hin Hr. rewrite forallb_forall in Hall. specialize (Hall d Hin).
  destruct (resolve_ok k b HI _ d j dt Hr Hall) as [Hnj Hokj].
  split; [eapply inv_ok_lt; eauto|]. split; [exact Hnj|].
  destruct HI as (_ & _ & _ & _ & Htg). apply Htg; assumption.
Qed.

(* whatever happened to node k: if only its own rt entry and its own output paths changed and the
   clauses of node k hold in the new state, the invariant moves on *)
Lemma inv_step k b b' :
  Inv k b -> k < length (s_nodes s) ->
  rt_len b' = rt_len b ->
  (forall j, j <> k -> get_rt b' j = get_rt b j) ->
  (forall p, (forall t, node_at s k = Some (NTarget t) -> not_own t p) ->
             ws_get p (w_ws (b_world b')) = ws_get p (w_ws (b_world b))) ->
  cache_sound H V (b_cache b') ->
  (forall l a, node_at s k = Some (NAlias l a) -> st_ok (rt_status (get_rt b' k)) = true ->
               st_ok (rt_status (get_rt b a)) = true) ->
  (forall t, node_at s k = Some (NTarget t) -> st_ok (rt_status (get_rt b' k)) = true ->
             tgood s b' k t) ->
  Inv (S k) b'.
Proof.
  intros (Hlen & H0 & Hcs & Hal & Htg) Hk Hl' Hrt' Hfr' Hcs' Hal' Htg'.
  destruct (V_ok s s_in) as [Hno _].
  split; [congruence|]. split; [intros j Hj; rewrite Hrt' by lia; apply H0; lia|].
  split; [exact Hcs'|]. split.
  - intros j l a Hnj Hok.
    assert (Hak : st_ok (rt_status (get_rt b a)) = true).
    { destruct (Nat.eq_dec j k) as [->|Hjk]; [eapply Hal'; eauto|].
      rewrite Hrt' in Hok by exact Hjk. eapply Hal; eauto. }
    destruct (Nat.eq_dec a k) as [->|Hak'].
    + rewrite H0 in Hak by lia. discriminate.
    + rewrite Hrt' by exact Hak'. exact Hak.
  - intros j t Hnj Hok. destruct (Nat.eq_dec j k) as [->|Hjk]; [apply Htg'; assumption|].
    rewrite Hrt' in Hok by exact Hjk.
    destruct (Htg j t Hnj Hok) as (dj & Hdj & Hoh & Hws).
    exists dj. split; [exact Hdj|]. split; [rewrite Hrt' by exact Hjk; exact Hoh|].
    intros o x Hin. rewrite Hfr'; [apply Hws; exact Hin|].
    intros tk Hnk o' Ho'. apply (no_overwrite_other s j k t tk o o' Hno Hnj Hnk Hjk); [|exact Ho'].
    destruct (ideal_entry_facts s j t dj Hnj Hdj) as (Hfst & _).
    rewrite <- Hfst. apply (in_map fst) in Hin. exact Hin.
Qed.

Lemma node_post_skip k b :
  Inv k b -> k < length (s_nodes s) -> node_post k b b.
Proof.
  intros HI Hk. pose proof HI as (_ & H0 & Hcs & _).
  assert (Hst : rt_status (get_rt b k) = TNone) by (rewrite H0 by lia; reflexivity).
  split; [|split; [auto|]].
  - apply (inv_step k b b HI Hk); [reflexivity | reflexivity | reflexivity | exact Hcs | |].
    + intros l a _ Hok. rewrite Hst in Hok. discriminate.
    + intros t _ Hok. rewrite Hst in Hok. discriminate.
  - intros t _ E. rewrite Hst in E. discriminate.
Qed.

Lemma node_post_mark k b st :
  Inv k b -> k < length (s_nodes s) -> st_ok st = false -> node_post k b (mark b k st).
Proof.
  intros HI Hk Hst. pose proof HI as (Hlen & H0 & Hcs & _).
  assert (E : rt_status (get_rt (mark b k st) k) = st) by (apply rt_status_mark_same; lia).
  split; [|split].
  - apply (inv_step k b _ HI Hk);
      [apply rt_len_mark | | reflexivity | exact Hcs | |].
    + intros j Hj. apply get_rt_mark_other. auto.
    + intros l a _ Hok. rewrite E, Hst in Hok. discriminate.
    + intros t _ Hok. rewrite E, Hst in Hok. discriminate.
  - intros j Hj. apply get_rt_mark_other. auto.
  - intros t _ E'. rewrite E in E'. subst st. discriminate.
Qed.

Lemma process_target_none i t b :
  dep_hashes s b (td_deps t) = None -> process_target H cfg s i t b = mark b i TFailed.
Proof. intro E. unfold process_target. rewrite E. reflexivity. Qed.

Lemma node_post_target k b t :
  Inv k b -> k < length (s_nodes s) -> node_at s k = Some (NTarget t) ->
  forallb (dep_ok b) (td_deps t) = true ->
  node_post k b (process_target H cfg s k t b).
Proof.
  intros HI Hk Hn Hdeps. pose proof HI as (Hlen & H0 & Hcs & _).
  destruct (dep_hashes s b (td_deps t)) as [dh|] eqn:Edh.
  - destruct (process_target_step k t b dh)
      as (Hl' & Hrt' & Hfr' & Hcs' & Htg' & Hhit); auto; try lia.
    { apply inv_deps_ready; assumption. }
    split; [|split; [exact Hrt'|]].
    + apply (inv_step k b _ HI Hk); [exact Hl' | exact Hrt' | | exact Hcs' | |].
      * intros p Hp. apply Hfr'. apply Hp. exact Hn.
      * intros l a Hna. congruence.
      * intros t' Hn' Hok. assert (t' = t) by congruence. subst t'. auto.
    + intros t' Hn' E. assert (t' = t) by congruence. subst t'. auto.
  - rewrite process_target_none by exact Edh. apply node_post_mark; auto.
Qed.

Lemma process_node_post sel k b :
  Inv k b -> k < length (s_nodes s) -> node_post k b (process_node H cfg s sel b k).
Proof.
  intros HI Hk. pose proof HI as (Hlen & H0 & Hcs & _). unfold process_node.
  destruct (negb (existsb (Nat.eqb k) sel)); [apply node_post_skip; assumption|].
  destruct (b_stop b); [apply node_post_mark; auto|].
  destruct (node_at s k) as [n|] eqn:En; [|apply node_post_skip; assumption].
  destruct (forallb (dep_ok b) (node_deps n)) eqn:Ed; cbn [negb]; [|apply node_post_mark; auto].
  destruct n as [t|l a].
  - cbn [node_deps] in Ed.
    pose proof (node_post_target k b t HI Hk En Ed) as Hp.
    eapply node_post_ext; [| | |exact Hp];
      destruct (rt_status (get_rt (process_target H cfg s k t b) k));
      try reflexivity; destruct (cfg_failfast cfg); reflexivity.
  - cbn [node_deps forallb] in Ed. rewrite andb_true_r in Ed.
    assert (E : rt_status (get_rt (mark b k THit) k) = THit) by (apply rt_status_mark_same; lia).
    split; [|split].
    + apply (inv_step k b _ HI Hk);
        [apply rt_len_mark | | reflexivity | exact Hcs | |].
      * intros j Hj. apply get_rt_mark_other. auto.
      * intros l' a' Hn' _. assert (a' = a) by congruence. subst a'. exact Ed.
      * intros t Hn'. congruence.
    + intros j Hj. apply get_rt_mark_other. auto.
    + intros t Hn'. congruence.
Qed.

Lemma walk_inv sel : forall m k b,
  Inv k b -> k + m <= length (s_nodes s) ->
  let b' := fold_left (process_node H cfg s sel) (seq k m) b in
  Inv (k + m) b' /\ forall j, j < k -> get_rt b' j = get_rt b j.
Proof.
  induction m as [|m IH]; intros k b HI Hkm; cbn [seq fold_left].
  - rewrite Nat.add_0_r. auto.
  - destruct (process_node_post sel k b HI) as (HI' & Hrt' & _); [lia|].
    destruct (IH (S k) _ HI') as [HI'' Hrt'']; [lia|].
    replace (k + S m) with (S k + m) by lia. split; [exact HI''|].
    intros j Hj. rewrite Hrt'' by lia. apply Hrt'. lia.
Qed.

Lemma init_inv w c : cache_sound H V c -> Inv 0 (build_init s w c).
Proof.
  intro Hcs.
  assert (Hrt : forall j, get_rt (build_init s w c) j = rt0)
    by (intro j; unfold get_rt, build_init; cbn [b_rt]; apply nth_repeat).
  split; [unfold rt_len, build_init; cbn [b_rt]; apply repeat_length|].
  split; [intros j _; apply Hrt|]. split; [exact Hcs|].
  split; [intros j l a _ Hok | intros j t _ Hok]; rewrite Hrt in Hok; discriminate.
Qed.

Lemma prefix_inv roots w c k :
  cache_sound H V c -> k <= length (s_nodes s) -> Inv k (build_prefix H cfg s roots w c k).
Proof.
  intros Hcs Hk. unfold build_prefix.
  apply (walk_inv (selection s roots) k 0 _ (init_inv w c Hcs)). lia.
Qed.


(* ================================================================== one build *)
Lemma prefix_split roots w c i m :
  build_prefix H cfg s roots w c (i + S m) =
  fold_left (process_node H cfg s (selection s roots)) (seq (S i) m)
            (process_node H cfg s (selection s roots) (build_prefix H cfg s roots w c i) i).
Proof. unfold build_prefix. rewrite seq_app, fold_left_app. reflexivity. Qed.

Lemma build_status roots w c i :
  nth i (br_status (build H cfg s roots w c)) TNone =
  rt_status (get_rt (build_prefix H cfg s roots w c (length (s_nodes s))) i).
Proof.
  unfold build. cbn [br_status]. change TNone with (rt_status rt0). rewrite map_nth. reflexivity.
Qed.

Definition build_good (V0 : list sources) (s0 : sources) (roots : list nat) (w : world) (c : cache)
  : Prop :=
  let r := build H cfg s0 roots w c in
  cache_sound H V0 (br_cache r) /\
  (forall i t, node_at s0 i = Some (NTarget t) -> st_ok (nth i (br_status r) TNone) = true ->
     exists d, nth i (ideal H s0) None = Some d /\ map fst (i_outs d) = td_outs t /\
       forall o x, In (o, x) (i_outs d) -> ws_get (out_path t o) (w_ws (br_world r)) = PFile x) /\
  (forall i t, node_at s0 i = Some (NTarget t) -> nth i (br_status r) TNone = THit ->
     hit_just V0 s0 i t (build_prefix H cfg s0 roots w c i)).

Lemma build_good_in roots w c : cache_sound H V c -> build_good V s roots w c.
Proof.
  intro Hcs. unfold build_good. cbv zeta.
  pose proof (prefix_inv roots w c (length (s_nodes s)) Hcs (le_n _)) as HI.
  split; [|split].
  - destruct HI as (_ & _ & Hc & _). exact Hc.
  - intros i t Hn Hok. rewrite build_status in Hok.
    destruct HI as (_ & _ & _ & _ & Htg). destruct (Htg i t Hn Hok) as (d & Hd & _ & Hws).
    exists d. split; [exact Hd|]. split; [apply (ideal_entry_facts s i t d Hn Hd) | exact Hws].
  - intros i t Hn Hst. rewrite build_status in Hst.
    assert (Hi : i < length (s_nodes s)) by (apply nth_error_Some; unfold node_at in Hn; congruence).
    pose proof (prefix_inv roots w c i Hcs ltac:(lia)) as HIi.
    destruct (process_node_post (selection s roots) i _ HIi Hi) as (HI' & _ & Hhit).
    apply (Hhit t Hn). rewrite <- Hst.
    replace (length (s_nodes s)) with (i + S (length (s_nodes s) - S i)) by lia.
    rewrite prefix_split. symmetry.
    destruct (walk_inv (selection s roots) (length (s_nodes s) - S i) (S i) _ HI') as [_ Hrt];
      [lia|]. rewrite Hrt by lia. reflexivity.
Qed.
End Step.

Lemma build_good_gen V cfg s roots w c :
  (forall s0, In s0 V -> src_ok s0) -> key_faithful H V -> cfg_ok cfg ->
  s_nodes s = [] \/ In s V -> cache_sound H V c -> build_good cfg V s roots w c.
Proof.
  intros HV Hkf [Hm Hc] [Hnil|Hin] Hcs.
  - unfold build_good. cbv zeta. split; [|split].
    + unfold build. rewrite Hnil. exact Hcs.
    + intros i t Hn. unfold node_at in Hn. rewrite Hnil in Hn. destruct i; discriminate.
    + intros i t Hn. unfold node_at in Hn. rewrite Hnil in Hn. destruct i; discriminate.
  - apply build_good_in; assumption.
Qed.

(* ================================================================== histories *)
Definition hinv (V : list sources) (y : sys) : Prop :=
  cache_sound H V (sy_cache y) /\ (s_nodes (sy_src y) = [] \/ In (sy_src y) V).

Lemma empty_cache_sound V : cache_sound H V empty_cache.
Proof. split; [intros dg x E | intros k r E]; discriminate. Qed.

Lemma hinv_sys0 V : hinv V sys0.
Proof. split; [apply empty_cache_sound | left; reflexivity]. Qed.

Lemma alookup_filter_none k : forall l,
  alookup k (filter (fun e => negb (str_eqb k (fst e))) l) = None.
Proof.
  induction l as [|[k' v] l IH]; [reflexivity|]. cbn [filter fst].
  destruct (str_eqb k k') eqn:E; cbn [negb]; [exact IH|]. cbn [alookup]. rewrite E. exact IH.
Qed.

Lemma alookup_filter_some k q x : forall l,
  alookup q (filter (fun e => negb (str_eqb k (fst e))) l) = Some x -> alookup q l = Some x.
Proof.
  destruct (str_eq_dec k q) as [<-|Hkq]; [intros l E; rewrite alookup_filter_none in E; discriminate|].
  induction l as [|[k' v] l IH]; [auto|]. cbn [filter fst].
  destruct (str_eqb k k') eqn:E; cbn [negb alookup].
  - apply str_eqb_eq in E; subst k'. intro Hl.
    destruct (str_eqb q k) eqn:E2; [apply str_eqb_eq in E2; congruence | auto].
  - destruct (str_eqb q k'); auto.
Qed.

(* a filter that looks at the KEY only never exposes another value for a key *)
Lemma alookup_filter_key (P : str -> bool) q x : forall l : list (str * str),
  alookup q (filter (fun e => P (fst e)) l) = Some x -> alookup q l = Some x.
Proof.
  induction l as [|[k' v] l IH]; [auto|]. cbn [filter fst].
  destruct (P k') eqn:E; cbn [alookup].
  - destruct (str_eqb q k'); auto.
  - intro Hl. destruct (str_eqb q k') eqn:E2; [|auto].
    apply str_eqb_eq in E2; subst k'. exfalso.
    clear IH. induction l as [|[k2 v2] l IH2]; [discriminate|]. cbn [filter fst] in Hl.
    destruct (P k2) eqn:E3; [|exact (IH2 Hl)]. cbn [alookup] in Hl.
    destruct (str_eqb q k2) eqn:E4; [apply str_eqb_eq in E4; subst k2; congruence | exact (IH2 Hl)].
Qed.

Lemma cache_sound_drop_blob V c (P : str -> bool) :
  cache_sound H V c ->
  cache_sound H V (mkCache (c_results c) (filter (fun e => P (fst e)) (c_cas c)) (c_taint c)).
Proof.
  intros [Hs Hres]. split; [|exact Hres]. cbn [c_cas].
  intros dg x Hl. apply Hs. eapply alookup_filter_key. exact Hl.
Qed.

Lemma step_hinv V o y :
  (forall s0, In s0 V -> src_ok s0) -> key_faithful H V ->
  op_ok o -> (forall s0, o = OpSources s0 -> In s0 V) ->
  hinv V y -> hinv V (step_op H y o).
Proof.
  intros HV Hkf Hop Hsrc [Hcs Hs]. destruct o as [s0|ls|p st|l|p| |cfg roots]; cbn [step_op].
  - split; [exact Hcs | right; apply Hsrc; reflexivity].
  - split; [|exact Hs]. cbn [sy_cache]. eapply cache_sound_ext; [| |exact Hcs]; reflexivity.
  - split; assumption.
  - split; assumption.
  - destruct (ws_get p (w_ws (sy_world y))) as [| |content|]; try (split; assumption).
    split; [|exact Hs]. cbn [sy_cache].
    apply (cache_sound_drop_blob V (sy_cache y)
             (fun k => negb (str_eqb (H content) k || str_eqb (H ("D"%char :: content)) k))). exact Hcs.
  - split; [|exact Hs]. cbn [sy_cache]. destruct Hcs as [Hcas _].
    split; [exact Hcas | intros k r E; discriminate].
  - split; [|exact Hs]. cbn [sy_cache sy_src op_ok] in *.
    apply (build_good_gen V cfg (sy_src y) roots (sy_world y) (sy_cache y) HV Hkf Hop Hs Hcs).
Qed.

Lemma run_hinv V : (forall s0, In s0 V -> src_ok s0) -> key_faithful H V ->
  forall ops y, Forall op_ok ops -> incl (snaps ops) V -> hinv V y ->
  hinv V (fold_left (step_op H) ops y).
Proof.
  intros HV Hkf. induction ops as [|o ops IH]; intros y Hops Hincl Hy; [exact Hy|].
  cbn [fold_left]. inversion Hops as [|? ? Ho Hops']; subst. apply IH; [exact Hops'| |].
  - intros s0 Hs0. apply Hincl. unfold snaps. cbn [flat_map]. apply in_or_app. right. exact Hs0.
  - apply step_hinv; auto. intros s0 ->. apply Hincl. unfold snaps. cbn [flat_map]. left. reflexivity.
Qed.

Lemma snaps_ok ops : Forall op_ok ops -> forall s0, In s0 (snaps ops) -> src_ok s0.
Proof.
  intros Hops s0 Hin. unfold snaps in Hin. apply in_flat_map in Hin.
  destruct Hin as (o & Ho & Hin). rewrite Forall_forall in Hops. specialize (Hops o Ho).
  destruct o; try contradiction. destruct Hin as [<-|[]]. exact Hops.
Qed.

Lemma history_hinv ops : hist_ok H ops -> hinv (snaps ops) (run_history H ops).
Proof.
  intros [Hops Hkf]. unfold run_history.
  apply run_hinv; auto; [apply snaps_ok; exact Hops | apply incl_refl | apply hinv_sys0].
Qed.

(* ------------------------------------------------------------------ the theorems of C01 *)
Theorem c01_cache_sound_every_history ops :
  hist_ok H ops -> cache_sound H (snaps ops) (sy_cache (run_history H ops)).
Proof. intro Hh. apply (history_hinv ops Hh). Qed.

Lemma history_build_good ops cfg roots :
  hist_ok H ops -> cfg_ok cfg ->
  let y := run_history H ops in
  build_good cfg (snaps ops) (sy_src y) roots (sy_world y) (sy_cache y).
Proof.
  intros Hh Hcfg y. destruct (history_hinv ops Hh) as [Hcs Hs]. destruct Hh as [Hops Hkf].
  apply build_good_gen; auto. apply snaps_ok; exact Hops.
Qed.

Theorem c01_build_ideal ops cfg roots :
  hist_ok H ops -> cfg_ok cfg ->
  let y := run_history H ops in
  let r := build H cfg (sy_src y) roots (sy_world y) (sy_cache y) in
  forall i t, node_at (sy_src y) i = Some (NTarget t) ->
    nth i (br_status r) TNone = THit \/ nth i (br_status r) TNone = TExecuted ->
    exists d, nth i (ideal H (sy_src y)) None = Some d /\ map fst (i_outs d) = td_outs t /\
      forall o x, In (o, x) (i_outs d) -> ws_get (out_path t o) (w_ws (br_world r)) = PFile x.
Proof.
  intros Hh Hcfg y r i t Hn Hst.
  destruct (history_build_good ops cfg roots Hh Hcfg) as (_ & Hg & _).
  apply (Hg i t Hn). fold y. fold r. destruct Hst as [-> | ->]; reflexivity.
Qed.

Theorem c01_incremental_equals_clean ops cfg roots ext' :
  hist_ok H ops -> cfg_ok cfg ->
  let y := run_history H ops in
  let r := build H cfg (sy_src y) roots (sy_world y) (sy_cache y) in
  let rc := clean_build H cfg (sy_src y) roots ext' in
  forall i t o, node_at (sy_src y) i = Some (NTarget t) -> In o (td_outs t) ->
    nth i (br_status r) TNone = THit \/ nth i (br_status r) TNone = TExecuted ->
    nth i (br_status rc) TNone = THit \/ nth i (br_status rc) TNone = TExecuted ->
    exists x, ws_get (out_path t o) (w_ws (br_world r)) = PFile x /\
              ws_get (out_path t o) (w_ws (br_world rc)) = PFile x.
Proof.
  intros Hh Hcfg y r rc i t o Hn Ho Hst Hstc.
  destruct (c01_build_ideal ops cfg roots Hh Hcfg i t Hn Hst) as (d & Hd & Hfst & Hws).
  destruct (history_hinv ops Hh) as [_ Hs]. destruct Hh as [Hops Hkf].
  destruct (build_good_gen (snaps ops) cfg (sy_src y) roots (mkWorld [] ext') empty_cache
              (snaps_ok ops Hops) Hkf Hcfg Hs (empty_cache_sound _)) as (_ & Hg & _).
  destruct (Hg i t Hn) as (d' & Hd' & _ & Hws').
  { change (build H cfg (sy_src y) roots (mkWorld [] ext') empty_cache) with rc.
    destruct Hstc as [-> | ->]; reflexivity. }
  assert (E : Some d' = Some d) by (rewrite <- Hd', <- Hd; reflexivity).
  inversion E; subst d'; clear E.
  rewrite <- Hfst in Ho. apply in_map_iff in Ho. destruct Ho as ([o' x] & <- & Hin).
  exists x. split; [apply Hws; exact Hin | apply Hws'; exact Hin].
Qed.

Theorem c01_hit_only_for_equal_key_state ops cfg roots :
  hist_ok H ops -> cfg_ok cfg ->
  let y := run_history H ops in
  let r := build H cfg (sy_src y) roots (sy_world y) (sy_cache y) in
  forall i t, node_at (sy_src y) i = Some (NTarget t) ->
    nth i (br_status r) TNone = THit ->
    hit_just (snaps ops) (sy_src y) i t
             (build_prefix H cfg (sy_src y) roots (sy_world y) (sy_cache y) i).
Proof.
  intros Hh Hcfg y r i t Hn Hst.
  destruct (history_build_good ops cfg roots Hh Hcfg) as (_ & _ & Hg).
  apply (Hg i t Hn). exact Hst.
Qed.

(* the build that follows lost cache entries: the same theorem, the faults are ordinary ops *)
Lemma hist_ok_faults ops faults :
  hist_ok H ops -> Forall is_cache_fault faults -> hist_ok H (ops ++ faults).
Proof.
  intros [Hops Hkf] Hf.
  assert (Hsn : snaps (ops ++ faults) = snaps ops).
  { unfold snaps. rewrite flat_map_app.
    assert (E : flat_map (fun o => match o with OpSources s0 => [s0] | _ => [] end) faults = []).
    { induction Hf as [|o l Ho _ IH]; [reflexivity|]. cbn [flat_map]. rewrite IH.
      destruct o; try contradiction; reflexivity. }
    rewrite E. apply app_nil_r. }
  split; [|rewrite Hsn; exact Hkf].
  apply Forall_app. split; [exact Hops|].
  eapply Forall_impl; [|exact Hf]. intros o Ho. destruct o; try contradiction; exact I.
Qed.

Theorem c01_after_cache_faults ops faults cfg roots ext' :
  hist_ok H ops -> Forall is_cache_fault faults -> cfg_ok cfg ->
  let y := run_history H (ops ++ faults) in
  let r := build H cfg (sy_src y) roots (sy_world y) (sy_cache y) in
  let rc := clean_build H cfg (sy_src y) roots ext' in
  forall i t o, node_at (sy_src y) i = Some (NTarget t) -> In o (td_outs t) ->
    nth i (br_status r) TNone = THit \/ nth i (br_status r) TNone = TExecuted ->
    nth i (br_status rc) TNone = THit \/ nth i (br_status rc) TNone = TExecuted ->
    exists x, ws_get (out_path t o) (w_ws (br_world r)) = PFile x /\
              ws_get (out_path t o) (w_ws (br_world rc)) = PFile x.
Proof.
  intros Hh Hf Hcfg. apply c01_incremental_equals_clean; [|exact Hcfg].
  apply hist_ok_faults; assumption.
Qed.

End C01.

(* ================================================================== concrete histories *)
From Coq Require String.
Import String.StringSyntax.
Local Open Scope string_scope.
Definition idH (x : str) : str := x.
Lemma idH_inj : forall a b, idH a = idH b -> a = b.
Proof. intros a b E. exact E. Qed.

Definition c_all : config := mkCfg LAll true false.

(* --- the unguarded statement is false OF THE MODEL, whatever the key encoding: what a command writes
   ([td_salt], [td_beh]) is a separate field of the model's target and is not determined by the command
   text that enters the key.  Two snapshots that differ only in the salt share the key; the second build
   is a hit and serves the bytes of the first snapshot.  [key_faithful] excludes exactly this: in the
   implementation the command text IS what runs, and the generators derive salt and behaviour from it *)
Definition rf_t (salt : str) : tdef :=
  mkTD (mkLabel (lit "p") (lit "t")) (lit "c") salt [lit "a"] [mkOut OFile (lit "o")]
       [] [] false false BNormal false.
Definition rf_s1 : sources := mkSrc [NTarget (rf_t (lit "1"))] [(lit "p/a", lit "x")].
Definition rf_s2 : sources := mkSrc [NTarget (rf_t (lit "2"))] [(lit "p/a", lit "x")].
Definition rf_ops : list op := [OpSources rf_s1; OpBuild c_all [0]; OpSources rf_s2].

Ltac nodup_tac :=
  unfold no_overwrite; vm_compute;
  repeat (apply NoDup_cons; [simpl; intuition discriminate|]); apply NoDup_nil.

Lemma rf_src_ok1 : src_ok rf_s1.
Proof. split; [nodup_tac | reflexivity]. Qed.
Lemma rf_src_ok2 : src_ok rf_s2.
Proof. split; [nodup_tac | reflexivity]. Qed.

Theorem c01_needs_key_faithful :
  exists (H : str -> str) ops cfg roots ext' i t o,
    (forall a b, H a = H b -> a = b) /\ Forall op_ok ops /\ cfg_ok cfg /\
    let y := run_history H ops in
    let r := build H cfg (sy_src y) roots (sy_world y) (sy_cache y) in
    let rc := clean_build H cfg (sy_src y) roots ext' in
    node_at (sy_src y) i = Some (NTarget t) /\ In o (td_outs t) /\
    nth i (br_status r) TNone = THit /\ nth i (br_status rc) TNone = TExecuted /\
    ws_get (out_path t o) (w_ws (br_world r)) <> ws_get (out_path t o) (w_ws (br_world rc)).
Proof.
  exists idH, rf_ops, c_all, [0], [], 0, (rf_t (lit "2")), (mkOut OFile (lit "o")).
  split; [exact idH_inj|]. split.
  { apply Forall_cons; [exact rf_src_ok1|]. apply Forall_cons; [split; reflexivity|].
    apply Forall_cons; [exact rf_src_ok2 | apply Forall_nil]. }
  split; [split; reflexivity|].
  cbv zeta. split; [reflexivity|]. split; [left; reflexivity|].
  split; [vm_compute; reflexivity|]. split; [vm_compute; reflexivity|].
  vm_compute. intro E. discriminate E.
Qed.

(* --- the guards are satisfiable: target a, an alias of a, target b depending on the alias;
   build, edit a's input, build (a and b re-execute), lose a's blob and a's output, build *)
Definition nv_a : tdef :=
  mkTD (mkLabel (lit "p") (lit "a")) (lit "c") [] [lit "f"] [mkOut OFile (lit "oa")]
       [] [] false false BNormal false.
Definition nv_b : tdef :=
  mkTD (mkLabel (lit "p") (lit "b")) (lit "c") [] [] [mkOut OFile (lit "ob")]
       [1] [] false false BNormal false.
Definition nv_s (x : str) : sources :=
  mkSrc [NTarget nv_a; NAlias (mkLabel (lit "p") (lit "al")) 0; NTarget nv_b] [(lit "p/f", x)].
Definition nv_ops : list op :=
  [OpSources (nv_s (lit "1")); OpBuild c_all [2]; OpSources (nv_s (lit "2")); OpBuild c_all [2];
   OpDropBlob (lit "p/oa"); OpPerturb (lit "p/oa") PAbsent].

Lemma nv_src_ok x : src_ok (nv_s x).
Proof. split; [nodup_tac | reflexivity]. Qed.

Lemma nv_faithful : key_faithful idH (snaps nv_ops).
Proof.
  intros s1 s2 j1 j2 k d2 H1 H2 Hk [t2 Ht2] Hd2 Hkeq.
  cbn [snaps nv_ops flat_map app] in H1, H2.
  assert (Hj1 : j1 = 0 \/ j1 = 2).
  { destruct H1 as [<-|[<-|[]]];
      (destruct j1 as [|[|[|j1]]]; [auto | discriminate Hk | auto |
         unfold ideal_key_at, node_at in Hk; cbn [nv_s s_nodes nth_error] in Hk;
         destruct j1; discriminate Hk]). }
  assert (Hj2 : j2 = 0 \/ j2 = 2).
  { destruct H2 as [<-|[<-|[]]];
      (destruct j2 as [|[|[|j2]]]; [auto | discriminate Ht2 | auto |
         unfold node_at in Ht2; cbn [nv_s s_nodes nth_error] in Ht2; destruct j2; discriminate Ht2]). }
  destruct H1 as [<-|[<-|[]]]; destruct H2 as [<-|[<-|[]]];
    destruct Hj1 as [-> | ->]; destruct Hj2 as [-> | ->];
    vm_compute in Hk; vm_compute in Hd2;
    injection Hk as <-; injection Hd2 as <-;
    try (exfalso; vm_compute in Hkeq; discriminate Hkeq);
    (eexists; split; [vm_compute; reflexivity | split; [intros o c; reflexivity | reflexivity]]).
Qed.

Lemma nv_hist_ok : hist_ok idH nv_ops.
Proof.
  split; [|exact nv_faithful].
  repeat (apply Forall_cons; [first [apply nv_src_ok | split; reflexivity | exact I]|]).
  apply Forall_nil.
Qed.

Theorem c01_guards_nonvacuous :
  exists (H : str -> str) ops cfg roots,
    (forall a b, H a = H b -> a = b) /\ hist_ok H ops /\ cfg_ok cfg /\
    let y := run_history H ops in
    let r := build H cfg (sy_src y) roots (sy_world y) (sy_cache y) in
    map br_status (sy_log y) = [[TExecuted; THit; TExecuted]; [TExecuted; THit; TExecuted]] /\
    br_status r = [TExecuted; THit; THit] /\ br_ok r = true.
Proof.
  exists idH, nv_ops, c_all, [2].
  split; [exact idH_inj|]. split; [exact nv_hist_ok|]. split; [split; reflexivity|].
  vm_compute. auto.
Qed.

(* --- the former witness of finding C01-F3 (a no-cache dependency whose two outputs exchange their contents)
   now changes the dependant's key.  n: no-cache, no command (its outputs ox, oy are maintained outside the
   build), d depends on n.  Build with ox = "A", oy = "B"; swap the two contents; build: n's output hash
   differs, d's key differs, d is re-executed (not served) and its output is not the one of the first build.
   GetNoCacheOutputHash used to hash the sorted content digests only ([digests_only_hash_blind]: that hash is
   the same for the two states), so d's key did not change and d was served the stale bytes. *)
Definition sw_n : tdef :=
  mkTD (mkLabel (lit "p") (lit "n")) [] [] [] [mkOut OFile (lit "ox"); mkOut OFile (lit "oy")]
       [] [] true false BNormal false.
Definition sw_d : tdef :=
  mkTD (mkLabel (lit "p") (lit "d")) (lit "c") [] [] [mkOut OFile (lit "od")]
       [0] [] false false BNormal false.
Definition sw_s : sources := mkSrc [NTarget sw_n; NTarget sw_d] [].
Definition sw_ops : list op :=
  [OpSources sw_s; OpPerturb (lit "p/ox") (PFile (lit "A")); OpPerturb (lit "p/oy") (PFile (lit "B"));
   OpBuild c_all [1];
   OpPerturb (lit "p/ox") (PFile (lit "B")); OpPerturb (lit "p/oy") (PFile (lit "A"));
   OpBuild c_all [1]].
Definition sw_state (k : nat) : bstate :=
  let y := run_history idH (firstn k sw_ops) in
  build_prefix idH c_all (sy_src y) [1] (sy_world y) (sy_cache y) 2.

Lemma digests_only_hash_blind (H : str -> str) (a b : str) :
  H (join comma (sort_strs [a; b])) = H (join comma (sort_strs [b; a])).
Proof. f_equal. f_equal. apply sort_strs_canonical. apply perm_swap. Qed.

Theorem nocache_swap_changes_key :
  map br_status (sy_log (run_history idH sw_ops)) = [[TExecuted; TExecuted]; [TExecuted; TExecuted]] /\
  rt_ohash (get_rt (sw_state 3) 0) <> rt_ohash (get_rt (sw_state 6) 0) /\
  rt_key (get_rt (sw_state 3) 1) <> rt_key (get_rt (sw_state 6) 1) /\
  rt_key (get_rt (sw_state 3) 1) <> None /\
  ws_get (lit "p/od") (w_ws (sy_world (run_history idH sw_ops))) <>
  ws_get (lit "p/od") (w_ws (sy_world (run_history idH (firstn 4 sw_ops)))).
Proof.
  split; [vm_compute; reflexivity|].
  split; [vm_compute; intro E; discriminate E|].
  split; [vm_compute; intro E; discriminate E|].
  split; [vm_compute; intro E; discriminate E|].
  vm_compute. intro E. discriminate E.
Qed.

(* --- a no-cache target in the middle of a chain meets the guards: a; b (no-cache) depends on a; c depends
   on b.  Build, edit a's input, build (everything re-executes), build again: a and c are served from the
   cache, b (never restored) runs again and, its outputs being what they were, hands c the same output hash *)
Definition nc_a : tdef :=
  mkTD (mkLabel (lit "p") (lit "a")) (lit "c") [] [lit "f"] [mkOut OFile (lit "oa")]
       [] [] false false BNormal false.
Definition nc_b : tdef :=
  mkTD (mkLabel (lit "p") (lit "b")) (lit "c") [] [] [mkOut OFile (lit "ob"); mkOut ODir (lit "db")]
       [0] [] true false BNormal false.
Definition nc_c : tdef :=
  mkTD (mkLabel (lit "p") (lit "c")) (lit "c") [] [] [mkOut OFile (lit "oc")]
       [1] [] false false BNormal false.
Definition nc_s (x : str) : sources :=
  mkSrc [NTarget nc_a; NTarget nc_b; NTarget nc_c] [(lit "p/f", x)].
Definition nc_ops : list op :=
  [OpSources (nc_s (lit "1")); OpBuild c_all [2]; OpSources (nc_s (lit "2")); OpBuild c_all [2]].

Lemma nc_src_ok x : src_ok (nc_s x).
Proof. split; [nodup_tac | reflexivity]. Qed.

Lemma nc_faithful : key_faithful idH (snaps nc_ops).
Proof.
  intros s1 s2 j1 j2 k d2 H1 H2 Hk [t2 Ht2] Hd2 Hkeq.
  cbn [snaps nc_ops flat_map app] in H1, H2.
  assert (Hj1 : j1 = 0 \/ j1 = 1 \/ j1 = 2).
  { destruct H1 as [<-|[<-|[]]];
      (destruct j1 as [|[|[|j1]]]; [auto | auto | auto |
         unfold ideal_key_at, node_at in Hk; cbn [nc_s s_nodes nth_error] in Hk;
         destruct j1; discriminate Hk]). }
  assert (Hj2 : j2 = 0 \/ j2 = 1 \/ j2 = 2).
  { destruct H2 as [<-|[<-|[]]];
      (destruct j2 as [|[|[|j2]]]; [auto | auto | auto |
         unfold node_at in Ht2; cbn [nc_s s_nodes nth_error] in Ht2; destruct j2; discriminate Ht2]). }
  destruct H1 as [<-|[<-|[]]]; destruct H2 as [<-|[<-|[]]];
    destruct Hj1 as [-> |[-> | ->]]; destruct Hj2 as [-> |[-> | ->]];
    vm_compute in Hk; vm_compute in Hd2;
    injection Hk as <-; injection Hd2 as <-;
    try (exfalso; vm_compute in Hkeq; discriminate Hkeq);
    (eexists; split; [vm_compute; reflexivity | split; [intros o c; reflexivity | reflexivity]]).
Qed.

Lemma nc_hist_ok : hist_ok idH nc_ops.
Proof.
  split; [|exact nc_faithful].
  repeat (apply Forall_cons; [first [apply nc_src_ok | split; reflexivity | exact I]|]).
  apply Forall_nil.
Qed.

Theorem c01_nocache_chain_nonvacuous :
  exists (H : str -> str) ops cfg roots,
    (forall a b, H a = H b -> a = b) /\ hist_ok H ops /\ cfg_ok cfg /\
    (exists s t, In s (snaps ops) /\ In (NTarget t) (s_nodes s) /\ td_nocache t = true /\
                 td_outs t <> [] /\ td_deps t <> []) /\
    let y := run_history H ops in
    let r := build H cfg (sy_src y) roots (sy_world y) (sy_cache y) in
    map br_status (sy_log y) = [[TExecuted; TExecuted; TExecuted]; [TExecuted; TExecuted; TExecuted]] /\
    br_status r = [THit; TExecuted; THit] /\ br_ok r = true.
Proof.
  exists idH, nc_ops, c_all, [2].
  split; [exact idH_inj|]. split; [exact nc_hist_ok|]. split; [split; reflexivity|].
  split.
  { exists (nc_s (lit "1")), nc_b. split; [left; reflexivity|]. split; [right; left; reflexivity|].
    split; [reflexivity|]. split; intro E; discriminate E. }
  vm_compute. auto.
Qed.
