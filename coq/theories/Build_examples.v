(* Build_examples.v -- concrete builds (digest := identity) witnessing that the hypotheses of the
   build-level theorems of C05 / C13 / C14 / C18 are satisfiable and that each outcome class occurs.
   a : output oa, has an output check;  b : depends on a, output ob;  n : no-cache, output on. *)
From Coq Require Import List Ascii String Bool Arith.
From Grog Require Import Str Label HashKey Build Build_proofs Build_single_proofs Build_ideal Build_lift_proofs.
Import ListNotations.
Local Open Scope string_scope.

Definition xH (x : str) : str := x.
Definition x_all : config := mkCfg LAll true false.
Definition x_off : config := mkCfg LAll false false.
Definition x_ff  : config := mkCfg LAll true true.
Definition L (n : string) : label := mkLabel (lit "p") (lit n).

Definition x_a (beh : behaviour) (cmd : string) : tdef :=
  mkTD (L "a") (lit cmd) (lit "v") [] [mkOut OFile (lit "oa")] [] [] false false beh true.
Definition x_b : tdef :=
  mkTD (L "b") (lit "cb") (lit "v") [] [mkOut OFile (lit "ob")] [0] [] false false BNormal false.
Definition x_n : tdef :=
  mkTD (L "n") (lit "cn") (lit "v") [] [mkOut OFile (lit "on")] [] [] true false BNormal false.
Definition x_s (beh : behaviour) (cmd : string) : sources :=
  mkSrc [NTarget (x_a beh cmd); NTarget x_b; NTarget x_n] [].

Definition w0 : world := mkWorld [] [].
Definition r1 := build xH x_all (x_s BNormal "ca") [0; 1; 2] w0 empty_cache.

(* first build: everything executes; second build: a and b are hits, the no-cache target runs again *)
Example ex_first : br_status r1 = [TExecuted; TExecuted; TExecuted] /\ br_ok r1 = true.
Proof. vm_compute. auto. Qed.
Definition r2 := build xH x_all (x_s BNormal "ca") [0; 1; 2] (br_world r1) (br_cache r1).
Example ex_second : br_status r2 = [THit; THit; TExecuted] /\ br_exec r2 = [L "n"] /\ br_ok r2 = true.
Proof. vm_compute. auto. Qed.

(* taint a: it runs again although a valid entry exists, b is still a hit (outputs unchanged), the
   taint is gone afterwards *)
Definition c_tainted : cache :=
  mkCache (c_results (br_cache r1)) (c_cas (br_cache r1)) [L "a"].
Definition r3 := build xH x_all (x_s BNormal "ca") [0; 1; 2] (br_world r1) c_tainted.
Example ex_taint : br_status r3 = [TExecuted; THit; TExecuted] /\ c_taint (br_cache r3) = [].
Proof. vm_compute. auto. Qed.

(* cache disabled: everything executes *)
Definition r4 := build xH x_off (x_s BNormal "ca") [0; 1; 2] (br_world r1) (br_cache r1).
Example ex_cache_off : br_status r4 = [TExecuted; TExecuted; TExecuted].
Proof. vm_compute. auto. Qed.

(* ... and the disabled cache is not written: the stored results and blobs are the ones the first build left
   (three results, two blobs), so the next cached build serves a and b again (only the no-cache target runs) *)
Example ex_cache_off_kept :
  c_results (br_cache r4) = c_results (br_cache r1) /\ c_cas (br_cache r4) = c_cas (br_cache r1) /\
  List.length (c_results (br_cache r1)) = 3 /\ List.length (c_cas (br_cache r1)) = 2.
Proof. vm_compute. auto. Qed.
Definition r4b := build xH x_all (x_s BNormal "ca") [0; 1; 2] (br_world r4) (br_cache r4).
Example ex_after_cache_off : br_status r4b = [THit; THit; TExecuted] /\ br_exec r4b = [L "n"] /\ br_ok r4b = true.
Proof. vm_compute. auto. Qed.

(* the external condition a's output check inspects is destroyed: a is executed, not served *)
Definition w_destroyed : world := mkWorld (w_ws (br_world r1)) [].
Definition r5 := build xH x_all (x_s BNormal "ca") [0; 1; 2] w_destroyed (br_cache r1).
Example ex_check_forces : br_status r5 = [TExecuted; THit; TExecuted] /\ w_ext (br_world r5) = [L "a"].
Proof. vm_compute. auto. Qed.

(* the four failure causes: exit before writing, exit after writing, missing declared output,
   output check failing after execution -- each fails a, skips b, stores nothing for a *)
Definition fail_run (beh : behaviour) := build xH x_all (x_s beh "ca2") [0; 1; 2] (br_world r1) (br_cache r1).
Example ex_failures :
  Forall (fun beh => br_status (fail_run beh) = [TFailed; TSkipped; TExecuted] /\
                     br_ok (fail_run beh) = false /\
                     map fst (c_results (br_cache (fail_run beh))) = map fst (c_results (br_cache r2)))
         [BFail; BFailAfter; BSkipOutput 0; BBreakCheck].
Proof. repeat constructor; vm_compute; auto. Qed.

(* fail-fast: after a's failure nothing else starts *)
Definition r6 := build xH x_ff (x_s BFail "ca2") [0; 1; 2] (br_world r1) (br_cache r1).
Example ex_failfast : br_status r6 = [TFailed; TSkipped; TSkipped] /\ br_exec r6 = [L "a"].
Proof. vm_compute. auto. Qed.

(* labels are unique in the example snapshot *)
Example ex_unique beh cmd : unique_label (x_s beh cmd) 0 (x_a beh cmd).
Proof.
  intros j t' Hn E. destruct j as [|[|[|j]]]; auto.
  - inversion Hn; subst t'. discriminate E.
  - inversion Hn; subst t'. discriminate E.
  - unfold node_at in Hn. simpl in Hn. destruct j; discriminate Hn.
Qed.
