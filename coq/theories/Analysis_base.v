(* Analysis_base.v -- small facts about Analysis.v shared by the proof files. *)
From Grog Require Import Str Label Path Analysis.

Lemma label_eqb_eq a b : label_eqb a b = true <-> a = b.
Proof.
  unfold label_eqb. rewrite andb_true_iff, !str_eqb_eq. destruct a, b; simpl. split.
  - intros [-> ->]; reflexivity.
  - intro H; inversion H; auto.
Qed.

Lemma label_eqb_refl a : label_eqb a a = true.
Proof. apply label_eqb_eq; reflexivity. Qed.

Lemma label_eqb_neq a b : label_eqb a b = false <-> a <> b.
Proof.
  split; intro H.
  - intro E; apply label_eqb_eq in E; congruence.
  - destruct (label_eqb a b) eqn:E; [apply label_eqb_eq in E; contradiction | reflexivity].
Qed.

Lemma label_eqb_sym a b : label_eqb a b = label_eqb b a.
Proof.
  destruct (label_eqb a b) eqn:E.
  - apply label_eqb_eq in E; subst; symmetry; apply label_eqb_refl.
  - symmetry; apply label_eqb_neq; apply label_eqb_neq in E; congruence.
Qed.

Lemma label_eq_dec (a b : label) : {a = b} + {a <> b}.
Proof.
  destruct (label_eqb a b) eqn:E; [left; apply label_eqb_eq; exact E | right; apply label_eqb_neq; exact E].
Qed.

Lemma label_in_spec l ls : label_in l ls = true <-> In l ls.
Proof.
  unfold label_in. rewrite existsb_exists. split.
  - intros [y [Hy E]]. apply label_eqb_eq in E; subst; assumption.
  - intro H; exists l; split; [assumption | apply label_eqb_refl].
Qed.

Lemma label_in_false l ls : label_in l ls = false <-> ~ In l ls.
Proof.
  split; intro H.
  - intro Hi; apply label_in_spec in Hi; congruence.
  - destruct (label_in l ls) eqn:E; [apply label_in_spec in E; contradiction | reflexivity].
Qed.

Lemma has_dup_false ls : has_dup ls = false <-> NoDup ls.
Proof.
  induction ls as [|l r IH]; simpl.
  - split; [intros _; constructor | reflexivity].
  - rewrite orb_false_iff, label_in_false, IH. split.
    + intros [H1 H2]; constructor; assumption.
    + intro H; inversion H; subst; split; assumption.
Qed.

Lemma in_labels g l : In l (labels g) <-> exists nd, In nd g /\ node_label nd = l.
Proof.
  unfold labels. rewrite in_map_iff. split; intros [nd [H1 H2]]; exists nd; auto.
Qed.

Lemma lookup_some g l nd : lookup g l = Some nd -> In nd g /\ node_label nd = l.
Proof.
  unfold lookup. intro H. apply find_some in H as [H1 H2]. apply label_eqb_eq in H2. auto.
Qed.

Lemma lookup_none g l : lookup g l = None <-> ~ In l (labels g).
Proof.
  unfold lookup. split.
  - intros H Hi. apply in_labels in Hi as [nd [H1 H2]].
    pose proof (find_none _ _ H nd H1) as E. simpl in E. subst l. rewrite label_eqb_refl in E. discriminate.
  - intro H. destruct (find _ g) as [nd|] eqn:E; [|reflexivity].
    apply find_some in E as [H1 H2]. apply label_eqb_eq in H2. exfalso; apply H.
    apply in_labels; exists nd; auto.
Qed.

(* with unique labels, lookup finds THE node *)
Lemma lookup_unique g nd : NoDup (labels g) -> In nd g -> lookup g (node_label nd) = Some nd.
Proof.
  unfold lookup. induction g as [|x g IH]; intros Hnd Hin; [destruct Hin|].
  simpl in *. inversion Hnd as [|? ? Hx Hr]; subst.
  destruct Hin as [->|Hin].
  - rewrite label_eqb_refl; reflexivity.
  - destruct (label_eqb (node_label x) (node_label nd)) eqn:E.
    + apply label_eqb_eq in E. exfalso; apply Hx. rewrite E. apply in_labels; exists nd; auto.
    + apply IH; assumption.
Qed.

Lemma in_dependants g x y : In y (dependants g x) <-> edge g x y.
Proof.
  unfold dependants, edge. rewrite in_flat_map. split.
  - intros [nd [H1 H2]]. apply in_map_iff in H2 as [d [H3 H4]]. apply filter_In in H4 as [H5 H6].
    apply label_eqb_eq in H6; subst d. exists nd; auto.
  - intros [nd [H1 [H2 H3]]]. exists nd; split; [assumption|].
    apply in_map_iff. exists x; split; [assumption|]. apply filter_In; split; [assumption | apply label_eqb_refl].
Qed.

Lemma in_deps_of g a n : NoDup (labels g) -> (In a (deps_of g n) <-> edge g a n).
Proof.
  intro Hnd. unfold deps_of, edge. split.
  - destruct (lookup g n) as [nd|] eqn:E; [|intros []].
    apply lookup_some in E as [H1 H2]. intro H. exists nd; auto.
  - intros [nd [H1 [H2 H3]]]. subst n. rewrite (lookup_unique g nd Hnd H1). assumption.
Qed.

Lemma insert_label_in x y l : In y (insert_label x l) <-> y = x \/ In y l.
Proof.
  induction l as [|z l IH]; simpl; [intuition|].
  destruct (label_leb x z); simpl; [intuition|]. rewrite IH; intuition.
Qed.

Lemma sort_labels_in l y : In y (sort_labels l) <-> In y l.
Proof.
  induction l as [|x l IH]; simpl; [reflexivity|].
  rewrite insert_label_in, IH; intuition.
Qed.

Lemma in_targets_of g t : In t (targets_of g) <-> In (NTarget t) g.
Proof.
  unfold targets_of. rewrite in_flat_map. split.
  - intros [nd [H1 H2]]. destruct nd; simpl in H2; [destruct H2 as [->|[]]; assumption | destruct H2].
  - intro H. exists (NTarget t); split; [assumption | left; reflexivity].
Qed.

Lemma reach_edge_l g a b c : edge g a b -> reach g b c -> reach g a c.
Proof.
  intros Hab Hbc. induction Hbc as [b c Hbc | b m c Hbm IH Hmc].
  - eapply reach_trans; [apply reach_step; exact Hab | exact Hbc].
  - eapply reach_trans; [apply IH; exact Hab | exact Hmc].
Qed.

Lemma reach_reach g a b c : reach g a b -> reach g b c -> reach g a c.
Proof.
  intros Hab Hbc. induction Hbc as [b c Hbc | b m c Hbm IH Hmc].
  - eapply reach_trans; eassumption.
  - eapply reach_trans; [apply IH; exact Hab | exact Hmc].
Qed.
