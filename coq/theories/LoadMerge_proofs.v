(* LoadMerge_proofs.v -- lemmas about LoadMerge.v (C16, the loader's registration step under concurrency).
   1. the critical section Lookup; Merge/Insert is [insert_fragment]
   2. bookkeeping over the workers (upd / seq)
   3. the steps of VCorrect, case by case ([cstep])
   4. the invariant and its consequences: mutual exclusion, linearizability, independence of the interleaving
   5. progress
   6. the seeded orders refuted, non-vacuity *)
From Coq Require Import Permutation.
From Grog Require Import Str Label Loader Loader_proofs LoadMerge.
Local Open Scope list_scope.

(* ================================================================== 1. the registry *)

Lemma reg_lookup_key k : forall m ex, reg_lookup k m = Some ex -> pkey ex = k.
Proof.
  induction m as [|p m IH]; intros ex H; cbn [reg_lookup] in H; [discriminate|].
  destruct (str_eqb (pkey p) k) eqn:E.
  - inversion H; subst ex. apply str_eqb_eq. exact E.
  - apply IH. exact H.
Qed.

(* Lookup followed by Merge (hit) or Insert (miss) on an unchanged registry is the body of the merge loop *)
Lemma insert_fragment_as_lookup f : forall m,
  insert_fragment f m =
  match reg_lookup (pkey f) m with
  | None => Some (reg_store f m)
  | Some ex => match merge_packages f ex with None => None | Some p' => Some (reg_store p' m) end
  end.
Proof.
  induction m as [|p m IH]; [reflexivity|].
  cbn [insert_fragment reg_lookup]. destruct (str_eqb (pkey p) (pkey f)) eqn:E.
  - destruct (merge_packages f p) as [p'|] eqn:Em; [|reflexivity].
    cbn [reg_store]. rewrite (merge_packages_key _ _ _ Em), str_eqb_refl. reflexivity.
  - rewrite IH. destruct (reg_lookup (pkey f) m) as [ex|] eqn:El.
    + destruct (merge_packages f ex) as [p'|] eqn:Em; [|reflexivity].
      cbn [reg_store]. rewrite (merge_packages_key _ _ _ Em), (reg_lookup_key _ _ _ El), E. reflexivity.
    + cbn [reg_store]. rewrite E. reflexivity.
Qed.

Lemma merge_from_app : forall a b m,
  merge_from m (a ++ b) = match merge_from m a with None => None | Some m' => merge_from m' b end.
Proof.
  induction a as [|f a IH]; intros b m; [reflexivity|].
  cbn [app merge_from]. destruct (insert_fragment f m) as [m1|]; [apply IH | reflexivity].
Qed.

Lemma merge_all_snoc l f :
  merge_all (l ++ [f]) = match merge_all l with None => None | Some m => insert_fragment f m end.
Proof.
  unfold merge_all. rewrite merge_from_app. destruct (merge_from [] l) as [m|]; [|reflexivity].
  cbn [merge_from]. destruct (insert_fragment f m); reflexivity.
Qed.

Lemma merge_all_app_none l l' : merge_all l = None -> merge_all (l ++ l') = None.
Proof. unfold merge_all. intro H. rewrite merge_from_app, H. reflexivity. Qed.

(* ================================================================== 2. bookkeeping over the workers *)

Lemma upd_same {A} (f : nat -> A) w x : upd f w x w = x.
Proof. unfold upd. rewrite Nat.eqb_refl. reflexivity. Qed.

Lemma upd_other {A} (f : nat -> A) w x u : u <> w -> upd f w x u = f u.
Proof. unfold upd. intro H. apply Nat.eqb_neq in H. rewrite H. reflexivity. Qed.

Lemma map_upd_out {A B} (g : A -> B) (f : nat -> A) w x : forall n a,
  w < a -> map (fun u => g (upd f w x u)) (seq a n) = map (fun u => g (f u)) (seq a n).
Proof.
  induction n as [|n IH]; intros a Ha; [reflexivity|].
  cbn [seq map]. rewrite upd_other by lia. rewrite IH by lia. reflexivity.
Qed.

(* the list of per-worker values changes at position w only *)
Lemma map_upd_seq {A B} (g : A -> B) (f : nat -> A) w x : forall n a,
  a <= w < a + n ->
  exists l1 l2, map (fun u => g (f u)) (seq a n) = l1 ++ g (f w) :: l2 /\
                map (fun u => g (upd f w x u)) (seq a n) = l1 ++ g x :: l2.
Proof.
  induction n as [|n IH]; intros a Ha; [lia|].
  cbn [seq map]. destruct (Nat.eq_dec a w) as [->|Hne].
  - exists [], (map (fun u => g (f u)) (seq (S w) n)). cbn [app]. split; [reflexivity|].
    rewrite upd_same, map_upd_out by lia. reflexivity.
  - destruct (IH (S a)) as [l1 [l2 [H1 H2]]]; [lia|].
    exists (g (f a) :: l1), l2. cbn [app]. rewrite H1, H2, upd_other by exact Hne. split; reflexivity.
Qed.

Lemma list_sum_mid l1 x l2 : list_sum (l1 ++ x :: l2) = x + (list_sum l1 + list_sum l2).
Proof. rewrite list_sum_app. simpl. lia. Qed.

Lemma concat_mid {A} (l1 : list (list A)) x l2 : Permutation (concat (l1 ++ x :: l2)) (x ++ concat l1 ++ concat l2).
Proof.
  rewrite concat_app. cbn [concat]. rewrite !app_assoc. apply Permutation_app_tail. apply Permutation_app_comm.
Qed.

Lemma inflight_upd W s s' w p :
  w < W -> pcs s' = upd (pcs s) w p ->
  Permutation (pc_frag (pcs s w) ++ inflight W s') (pc_frag p ++ inflight W s).
Proof.
  intros Hw Hp. unfold inflight. rewrite !flat_map_concat_map, Hp.
  destruct (map_upd_seq pc_frag (pcs s) w p W 0) as [l1 [l2 [H1 H2]]]; [lia|]. rewrite H1, H2.
  eapply Permutation_trans; [apply Permutation_app_head; apply concat_mid|].
  eapply Permutation_trans; [|apply Permutation_app_head; apply Permutation_sym; apply concat_mid].
  rewrite !app_assoc. apply Permutation_app_tail. apply Permutation_app_tail. apply Permutation_app_comm.
Qed.

Lemma inflight_same W s s' : pcs s' = pcs s -> inflight W s' = inflight W s.
Proof. intro H. unfold inflight. rewrite H. reflexivity. Qed.

Definition pc_sum (W : nat) (s : state) : nat := list_sum (map (fun u => pc_measure (pcs s u)) (seq 0 W)).

Lemma pc_sum_upd W s s' w p :
  w < W -> pcs s' = upd (pcs s) w p ->
  pc_measure (pcs s w) + pc_sum W s' = pc_measure p + pc_sum W s.
Proof.
  intros Hw Hp. unfold pc_sum. rewrite Hp.
  destruct (map_upd_seq pc_measure (pcs s) w p W 0) as [l1 [l2 [H1 H2]]]; [lia|]. rewrite H1, H2.
  rewrite !list_sum_mid. lia.
Qed.

Lemma measure_eq W s : measure W s = 5 * length (queue s) + pc_sum W s.
Proof. reflexivity. Qed.

(* ================================================================== 3. the steps of VCorrect *)

Inductive cstep (s : state) (w : nat) : state -> Prop :=
| CTake f q : pcs s w = PIdle -> queue s = f :: q -> err s = false ->
    cstep s w (mkState q (reg s) (lock s) false (upd (pcs s) w (PLoaded f)) (log s) (dropped s))
| CDrop f q : pcs s w = PIdle -> queue s = f :: q -> err s = true ->
    cstep s w (mkState q (reg s) (lock s) true (pcs s) (log s) (dropped s ++ [f]))
| CLock f : pcs s w = PLoaded f -> lock s = None ->
    cstep s w (set_lock s (Some w) w (PLocked f))
| CHit f ex : pcs s w = PLocked f -> reg_lookup (pkey f) (reg s) = Some ex ->
    cstep s w (set_pc s w (PMerging f ex))
| CMiss f : pcs s w = PLocked f -> reg_lookup (pkey f) (reg s) = None ->
    cstep s w (set_pc s w (PInserting f))
| CMergeOk f ex p' : pcs s w = PMerging f ex -> merge_packages f ex = Some p' ->
    cstep s w (commit s f (reg_store p' (reg s)) (err s) w PUnlock)
| CMergeErr f ex : pcs s w = PMerging f ex -> merge_packages f ex = None ->
    cstep s w (commit s f (reg s) true w PUnlock)
| CInsert f : pcs s w = PInserting f ->
    cstep s w (commit s f (reg_store f (reg s)) (err s) w PUnlock)
| CUnlock : pcs s w = PUnlock ->
    cstep s w (set_lock s None w PIdle).

Lemma step_cstep W s w k s' : step VCorrect W s (w, k) = Some s' -> w < W /\ cstep s w s'.
Proof.
  unfold step. cbn [fst snd]. destruct (w <? W) eqn:EW; cbn [negb]; [|discriminate].
  apply Nat.ltb_lt in EW. intro H. split; [exact EW|].
  destruct k; destruct (pcs s w) as [|f|f|f ex|f|f ex|f ex|] eqn:Ep; try discriminate H.
  - destruct (queue s) as [|f q] eqn:Eq; [discriminate|].
    destruct (err s) eqn:Ee; inversion H; subst s'.
    + apply CDrop; assumption.
    + apply CTake; assumption.
  - destruct (lock s) eqn:El; [discriminate|]. inversion H; subst s'. apply CLock; assumption.
  - unfold do_lookup, after_lookup_hit in H.
    destruct (reg_lookup (pkey f) (reg s)) as [ex|] eqn:E; inversion H; subst s'.
    + eapply CHit; eassumption.
    + apply CMiss; assumption.
  - destruct (merge_packages f ex) as [p'|] eqn:Em; inversion H; subst s'.
    + eapply CMergeOk; eassumption.
    + eapply CMergeErr; eassumption.
  - inversion H; subst s'. apply CInsert; assumption.
  - inversion H; subst s'. apply CUnlock; assumption.
Qed.

(* ================================================================== 4. the invariant of VCorrect *)

Definition valid_pc (p : pc) : bool := match p with PUnlockM _ _ | PWaitM _ _ => false | _ => true end.

(* (a) who is where: workers beyond W never move, the pcs of the other orders do not occur, the holder of the
   mutex is inside the critical section and whoever is inside holds it *)
Definition struct_ok (W : nat) (P : nat -> pc) (l : option nat) : Prop :=
  (forall u, W <= u -> P u = PIdle) /\
  (forall u, valid_pc (P u) = true) /\
  (forall h, l = Some h -> in_cs (P h) = true) /\
  (forall u, in_cs (P u) = true -> l = Some u).

Lemma struct_keep W P l w p :
  struct_ok W P l -> w < W -> valid_pc p = true -> in_cs p = in_cs (P w) -> struct_ok W (upd P w p) l.
Proof.
  intros [H1 [H2 [H3 H4]]] Hw Hv Hc. repeat split; intro u.
  - intro Hu. rewrite upd_other by lia. apply H1. exact Hu.
  - destruct (Nat.eq_dec u w) as [->|Hne]; [rewrite upd_same; exact Hv | rewrite upd_other by exact Hne; apply H2].
  - intro Hl. destruct (Nat.eq_dec u w) as [->|Hne].
    + rewrite upd_same, Hc. apply H3. exact Hl.
    + rewrite upd_other by exact Hne. apply H3. exact Hl.
  - destruct (Nat.eq_dec u w) as [->|Hne].
    + rewrite upd_same, Hc. apply H4.
    + rewrite upd_other by exact Hne. apply H4.
Qed.

Lemma struct_lock W P w p :
  struct_ok W P None -> w < W -> valid_pc p = true -> in_cs p = true -> struct_ok W (upd P w p) (Some w).
Proof.
  intros [H1 [H2 [H3 H4]]] Hw Hv Hc. repeat split; intro u.
  - intro Hu. rewrite upd_other by lia. apply H1. exact Hu.
  - destruct (Nat.eq_dec u w) as [->|Hne]; [rewrite upd_same; exact Hv | rewrite upd_other by exact Hne; apply H2].
  - intro Hl. inversion Hl; subst u. rewrite upd_same. exact Hc.
  - destruct (Nat.eq_dec u w) as [->|Hne]; [reflexivity|].
    rewrite upd_other by exact Hne. intro Hx. apply H4 in Hx. discriminate.
Qed.

Lemma struct_unlock W P l w p :
  struct_ok W P l -> w < W -> in_cs (P w) = true -> valid_pc p = true -> in_cs p = false ->
  struct_ok W (upd P w p) None.
Proof.
  intros [H1 [H2 [H3 H4]]] Hw Hin Hv Hc. repeat split; intro u.
  - intro Hu. rewrite upd_other by lia. apply H1. exact Hu.
  - destruct (Nat.eq_dec u w) as [->|Hne]; [rewrite upd_same; exact Hv | rewrite upd_other by exact Hne; apply H2].
  - discriminate.
  - destruct (Nat.eq_dec u w) as [->|Hne].
    + rewrite upd_same, Hc. discriminate.
    + rewrite upd_other by exact Hne. intro Hx. apply H4 in Hx. apply H4 in Hin. congruence.
Qed.

Lemma struct_step W s w s' :
  struct_ok W (pcs s) (lock s) -> w < W -> cstep s w s' -> struct_ok W (pcs s') (lock s').
Proof.
  intros HS Hw Hc.
  destruct Hc as [f q Hp Hq He|f q Hp Hq He|f Hp Hl|f ex Hp Hr|f Hp Hr|f ex p' Hp Hm|f ex Hp Hm|f Hp|Hp];
    cbn [set_pc set_lock commit pcs lock].
  - apply struct_keep; [exact HS | exact Hw | reflexivity | rewrite Hp; reflexivity].
  - exact HS.
  - rewrite Hl in HS. apply struct_lock; [exact HS | exact Hw | reflexivity | reflexivity].
  - apply struct_keep; [exact HS | exact Hw | reflexivity | rewrite Hp; reflexivity].
  - apply struct_keep; [exact HS | exact Hw | reflexivity | rewrite Hp; reflexivity].
  - apply struct_keep; [exact HS | exact Hw | reflexivity | rewrite Hp; reflexivity].
  - apply struct_keep; [exact HS | exact Hw | reflexivity | rewrite Hp; reflexivity].
  - apply struct_keep; [exact HS | exact Hw | reflexivity | rewrite Hp; reflexivity].
  - apply (struct_unlock W (pcs s) (lock s)); [exact HS | exact Hw | rewrite Hp; reflexivity | reflexivity | reflexivity].
Qed.

(* (b) the package a worker is about to merge into IS the registered one; a worker about to insert has no
   registered package for its key: the registry cannot change under the holder of the mutex *)
Definition snap_ok (P : nat -> pc) (m : list package) : Prop :=
  (forall u f ex, P u = PMerging f ex -> reg_lookup (pkey f) m = Some ex) /\
  (forall u f, P u = PInserting f -> reg_lookup (pkey f) m = None).

Lemma snap_keep P m w p :
  snap_ok P m ->
  (forall f ex, p = PMerging f ex -> reg_lookup (pkey f) m = Some ex) ->
  (forall f, p = PInserting f -> reg_lookup (pkey f) m = None) ->
  snap_ok (upd P w p) m.
Proof.
  intros [H1 H2] Hm Hi. split; intros u.
  - intros f ex. destruct (Nat.eq_dec u w) as [->|Hne]; [rewrite upd_same; apply Hm|].
    rewrite upd_other by exact Hne. apply H1.
  - intros f. destruct (Nat.eq_dec u w) as [->|Hne]; [rewrite upd_same; apply Hi|].
    rewrite upd_other by exact Hne. apply H2.
Qed.

(* the registry changes: nobody else is between Lookup and Merge/Insert *)
Lemma snap_commit W P l w m' :
  struct_ok W P l -> in_cs (P w) = true -> snap_ok (upd P w PUnlock) m'.
Proof.
  intros [_ [_ [_ H4]]] Hin. pose proof (H4 _ Hin) as Hl.
  split; intros u.
  - intros f ex. destruct (Nat.eq_dec u w) as [->|Hne]; [rewrite upd_same; discriminate|].
    rewrite upd_other by exact Hne. intro Hu. exfalso. apply Hne.
    assert (Hx : in_cs (P u) = true) by (rewrite Hu; reflexivity). apply H4 in Hx. congruence.
  - intros f. destruct (Nat.eq_dec u w) as [->|Hne]; [rewrite upd_same; discriminate|].
    rewrite upd_other by exact Hne. intro Hu. exfalso. apply Hne.
    assert (Hx : in_cs (P u) = true) by (rewrite Hu; reflexivity). apply H4 in Hx. congruence.
Qed.

Lemma snap_step W s w s' :
  struct_ok W (pcs s) (lock s) -> snap_ok (pcs s) (reg s) -> cstep s w s' -> snap_ok (pcs s') (reg s').
Proof.
  intros HS HN Hc.
  destruct Hc as [f q Hp Hq He|f q Hp Hq He|f Hp Hl|f ex Hp Hr|f Hp Hr|f ex p' Hp Hm|f ex Hp Hm|f Hp|Hp];
    cbn [set_pc set_lock commit pcs reg].
  - apply snap_keep; [exact HN | discriminate | discriminate].
  - exact HN.
  - apply snap_keep; [exact HN | discriminate | discriminate].
  - apply snap_keep; [exact HN | | discriminate].
    intros f0 ex0 H. inversion H; subst f0 ex0. exact Hr.
  - apply snap_keep; [exact HN | discriminate |].
    intros f0 H. inversion H; subst f0. exact Hr.
  - apply (snap_commit W (pcs s) (lock s)); [exact HS | rewrite Hp; reflexivity].
  - apply snap_keep; [exact HN | discriminate | discriminate].
  - apply (snap_commit W (pcs s) (lock s)); [exact HS | rewrite Hp; reflexivity].
  - apply snap_keep; [exact HN | discriminate | discriminate].
Qed.

(* (c) the registry is the merge of the fragments registered so far, in the order of their Merge / Insert steps;
   the error flag is set iff that merge fails *)
Definition log_ok (s : state) : Prop := merge_all (log s) = if err s then None else Some (reg s).

Lemma log_step s w s' : snap_ok (pcs s) (reg s) -> log_ok s -> cstep s w s' -> log_ok s'.
Proof.
  intros [HNm HNi] HL Hc. unfold log_ok in *.
  destruct Hc as [f q Hp Hq He|f q Hp Hq He|f Hp Hl|f ex Hp Hr|f Hp Hr|f ex p' Hp Hm|f ex Hp Hm|f Hp|Hp];
    cbn [set_pc set_lock commit log err reg]; try exact HL.
  - rewrite He in HL. exact HL.
  - rewrite He in HL. exact HL.
  - rewrite merge_all_snoc, HL. destruct (err s); [reflexivity|].
    rewrite insert_fragment_as_lookup, (HNm _ _ _ Hp), Hm. reflexivity.
  - rewrite merge_all_snoc, HL. destruct (err s); [reflexivity|].
    rewrite insert_fragment_as_lookup, (HNm _ _ _ Hp), Hm. reflexivity.
  - rewrite merge_all_snoc, HL. destruct (err s); [reflexivity|].
    rewrite insert_fragment_as_lookup, (HNi _ _ Hp). reflexivity.
Qed.

(* (d) every fragment is in exactly one place: registered, dropped, in a worker's hands, or still queued *)
Definition acct_ok (W : nat) (frs : list package) (s : state) : Prop :=
  Permutation frs (log s ++ dropped s ++ inflight W s ++ queue s).

Lemma acct_take {A} (L D I I' Q : list A) f :
  Permutation I' (f :: I) -> Permutation (L ++ D ++ I ++ f :: Q) (L ++ D ++ I' ++ Q).
Proof.
  intro H. apply Permutation_app_head. apply Permutation_app_head.
  eapply Permutation_trans; [apply Permutation_sym; apply Permutation_middle|].
  change (f :: I ++ Q) with ((f :: I) ++ Q). apply Permutation_app_tail. apply Permutation_sym. exact H.
Qed.

Lemma acct_drop {A} (L D I Q : list A) f :
  Permutation (L ++ D ++ I ++ f :: Q) (L ++ (D ++ [f]) ++ I ++ Q).
Proof.
  apply Permutation_app_head. rewrite <- app_assoc. apply Permutation_app_head. cbn [app].
  apply Permutation_sym. apply Permutation_middle.
Qed.

Lemma acct_keep {A} (L D I I' Q : list A) :
  Permutation I' I -> Permutation (L ++ D ++ I ++ Q) (L ++ D ++ I' ++ Q).
Proof.
  intro H. apply Permutation_app_head. apply Permutation_app_head. apply Permutation_app_tail.
  apply Permutation_sym. exact H.
Qed.

Lemma acct_commit {A} (L D I I' Q : list A) f :
  Permutation (f :: I') I -> Permutation (L ++ D ++ I ++ Q) ((L ++ [f]) ++ D ++ I' ++ Q).
Proof.
  intro H. rewrite <- app_assoc. apply Permutation_app_head. cbn [app].
  eapply Permutation_trans; [apply Permutation_app_head; apply Permutation_app_tail; apply Permutation_sym; exact H|].
  cbn [app]. apply Permutation_sym. apply Permutation_middle.
Qed.

Lemma acct_step W frs s w s' : w < W -> acct_ok W frs s -> cstep s w s' -> acct_ok W frs s'.
Proof.
  intros Hw HA Hc. unfold acct_ok in *.
  destruct Hc as [f q Hp Hq He|f q Hp Hq He|f Hp Hl|f ex Hp Hr|f Hp Hr|f ex p' Hp Hm|f ex Hp Hm|f Hp|Hp];
    (eapply Permutation_trans; [exact HA|]);
    match goal with |- Permutation _ (log ?t ++ dropped ?t ++ inflight W ?t ++ queue ?t) =>
      try (pose proof (inflight_upd W s t w _ Hw eq_refl) as HI; rewrite Hp in HI; cbn [pc_frag app] in HI) end;
    cbn [set_pc set_lock commit log dropped queue].
  - rewrite Hq. apply acct_take. exact HI.
  - rewrite Hq. unfold inflight. cbn [pcs]. apply acct_drop.
  - apply acct_keep. apply (Permutation_cons_inv HI).
  - apply acct_keep. apply (Permutation_cons_inv HI).
  - apply acct_keep. apply (Permutation_cons_inv HI).
  - apply acct_commit. exact HI.
  - apply acct_commit. exact HI.
  - apply acct_commit. exact HI.
  - apply acct_keep. exact HI.
Qed.

(* (e) nothing is dropped before the error *)
Definition drop_ok (s : state) : Prop := err s = false -> dropped s = [].

Lemma drop_step s w s' : drop_ok s -> cstep s w s' -> drop_ok s'.
Proof.
  intros HD Hc. unfold drop_ok in *.
  destruct Hc as [f q Hp Hq He|f q Hp Hq He|f Hp Hl|f ex Hp Hr|f Hp Hr|f ex p' Hp Hm|f ex Hp Hm|f Hp|Hp];
    cbn [set_pc set_lock commit dropped err]; try exact HD; try discriminate.
  intros _. apply HD. exact He.
Qed.

Record inv (W : nat) (frs : list package) (s : state) : Prop := mkInv {
  inv_struct : struct_ok W (pcs s) (lock s);
  inv_snap : snap_ok (pcs s) (reg s);
  inv_log : log_ok s;
  inv_acct : acct_ok W frs s;
  inv_drop : drop_ok s
}.

Lemma flat_map_nil {A B} (g : A -> list B) : forall l, (forall x, In x l -> g x = []) -> flat_map g l = [].
Proof.
  induction l as [|x l IH]; intro H; [reflexivity|].
  cbn [flat_map]. rewrite (H x (or_introl eq_refl)), IH; [reflexivity|].
  intros y Hy. apply H. right. exact Hy.
Qed.

Lemma inflight_idle W s : (forall w, w < W -> pcs s w = PIdle) -> inflight W s = [].
Proof.
  intro H. unfold inflight. apply flat_map_nil. intros w Hw. apply in_seq in Hw.
  rewrite H by lia. reflexivity.
Qed.

Lemma inv_init W frs : inv W frs (init frs).
Proof.
  constructor.
  - repeat split; cbn [init pcs lock]; intros; try reflexivity; discriminate.
  - split; cbn [init pcs]; intros; discriminate.
  - reflexivity.
  - unfold acct_ok. rewrite inflight_idle by reflexivity. cbn [init log dropped queue app]. apply Permutation_refl.
  - intros _. reflexivity.
Qed.

Lemma inv_step W frs s e s' : inv W frs s -> step VCorrect W s e = Some s' -> inv W frs s'.
Proof.
  destruct e as [w k]. intros [HS HN HL HA HD] H. apply step_cstep in H as [Hw Hc]. constructor.
  - exact (struct_step _ _ _ _ HS Hw Hc).
  - exact (snap_step _ _ _ _ HS HN Hc).
  - exact (log_step _ _ _ HN HL Hc).
  - exact (acct_step _ _ _ _ _ Hw HA Hc).
  - exact (drop_step _ _ _ HD Hc).
Qed.

Lemma inv_run W frs : forall evs s s', inv W frs s -> run VCorrect W s evs = Some s' -> inv W frs s'.
Proof.
  induction evs as [|e evs IH]; intros s s' Hi H; cbn [run] in H.
  - inversion H; subst s'. exact Hi.
  - destruct (step VCorrect W s e) as [s1|] eqn:E; [|discriminate].
    apply (IH s1); [exact (inv_step _ _ _ _ _ Hi E) | exact H].
Qed.

Lemma reachable_inv W frs s : reachable VCorrect W frs s -> inv W frs s.
Proof. intros [evs H]. exact (inv_run _ _ _ _ _ (inv_init W frs) H). Qed.

Lemma run_app v W : forall a b s,
  run v W s (a ++ b) = match run v W s a with Some s1 => run v W s1 b | None => None end.
Proof.
  induction a as [|e a IH]; intros b s; [reflexivity|].
  cbn [app run]. destruct (step v W s e) as [s1|]; [apply IH | reflexivity].
Qed.

Lemma reachable_step v W frs s e s' : reachable v W frs s -> step v W s e = Some s' -> reachable v W frs s'.
Proof.
  intros [evs H] Hs. exists (evs ++ [e]). rewrite run_app, H. cbn [run]. rewrite Hs. reflexivity.
Qed.

(* ---- 4. mutual exclusion *)
Theorem loadmerge_mutex : forall W frs s, reachable VCorrect W frs s ->
  (forall w, in_cs (pcs s w) = true <-> lock s = Some w) /\
  (forall w w', in_cs (pcs s w) = true -> in_cs (pcs s w') = true -> w = w') /\
  (forall w, in_cs (pcs s w) = true -> w < W).
Proof.
  intros W frs s Hr. destruct (reachable_inv _ _ _ Hr) as [[H1 [H2 [H3 H4]]] _ _ _ _]. split; [|split].
  - intro w. split; [apply H4 | apply H3].
  - intros w w' Hw Hw'. apply H4 in Hw. apply H4 in Hw'. congruence.
  - intros w Hw. destruct (Nat.lt_ge_cases w W) as [Hlt|Hge]; [exact Hlt|].
    rewrite (H1 w Hge) in Hw. discriminate.
Qed.

(* the snapshot a worker merges into is the live entry: value and pointer semantics coincide *)
Theorem merging_snapshot_current : forall W frs s, reachable VCorrect W frs s ->
  forall w f ex, pcs s w = PMerging f ex -> reg_lookup (pkey f) (reg s) = Some ex.
Proof. intros W frs s Hr. destruct (reachable_inv _ _ _ Hr) as [_ [H _] _ _ _]. exact H. Qed.

(* ---- 1. linearizability *)
Lemma result_commit_order W frs s : inv W frs s -> result s = merge_all (commit_order s).
Proof.
  intros [_ _ HL _ HD]. unfold result, commit_order. unfold log_ok in HL. unfold drop_ok in HD.
  destruct (err s).
  - symmetry. apply merge_all_app_none. exact HL.
  - rewrite (HD eq_refl), app_nil_r. symmetry. exact HL.
Qed.

Theorem loadmerge_linearizable : forall W frs evs s,
  run VCorrect W (init frs) evs = Some s -> complete W s ->
  Permutation frs (commit_order s) /\ result s = merge_all (commit_order s).
Proof.
  intros W frs evs s H [Hq Hi]. assert (Hinv : inv W frs s) by (apply reachable_inv; exists evs; exact H).
  split; [|exact (result_commit_order _ _ _ Hinv)].
  pose proof (inv_acct _ _ _ Hinv) as HA. unfold acct_ok in HA.
  rewrite (inflight_idle W s Hi), Hq, !app_nil_r in HA. exact HA.
Qed.

(* ---- 2. worker count and scheduling do not matter *)
Lemma loaded_load_all W frs s : inv W frs s -> loaded s = load_all (commit_order s).
Proof. intro H. unfold loaded, load_all. rewrite (result_commit_order _ _ _ H). reflexivity. Qed.

Lemma complete_run_load_all W frs evs s :
  run VCorrect W (init frs) evs = Some s -> complete W s ->
  Permutation frs (commit_order s) /\ loaded s = load_all (commit_order s).
Proof.
  intros H Hc. split; [exact (proj1 (loadmerge_linearizable _ _ _ _ H Hc))|].
  apply (loaded_load_all W frs). apply reachable_inv. exists evs. exact H.
Qed.

Theorem loadmerge_interleaving_independent : forall W W' frs frs' evs evs' s s',
  Permutation frs frs' ->
  run VCorrect W (init frs) evs = Some s -> complete W s ->
  run VCorrect W' (init frs') evs' = Some s' -> complete W' s' ->
  (loaded s = None <-> loaded s' = None) /\
  (forall m m', loaded s = Some m -> loaded s' = Some m' -> pkgs_equiv m m').
Proof.
  intros W W' frs frs' evs evs' s s' HP H Hc H' Hc'.
  destruct (complete_run_load_all _ _ _ _ H Hc) as [P1 L1].
  destruct (complete_run_load_all _ _ _ _ H' Hc') as [P2 L2].
  rewrite L1, L2. apply merge_order_independent.
  eapply Permutation_trans; [apply Permutation_sym; exact P1|].
  eapply Permutation_trans; [exact HP | exact P2].
Qed.

(* every complete run, any worker count, any interleaving, agrees with the sequential loader on the walk order *)
Theorem loadmerge_agrees_with_load_all : forall W frs evs s,
  run VCorrect W (init frs) evs = Some s -> complete W s ->
  (loaded s = None <-> load_all frs = None) /\
  (forall m m0, loaded s = Some m -> load_all frs = Some m0 -> pkgs_equiv m m0).
Proof.
  intros W frs evs s H Hc. destruct (complete_run_load_all _ _ _ _ H Hc) as [P1 L1].
  rewrite L1. apply merge_order_independent. apply Permutation_sym. exact P1.
Qed.

(* one worker: the fragments are registered in queue order, the run IS the sequential loader *)
Definition seq_ok (frs : list package) (s : state) : Prop :=
  log s ++ dropped s ++ pc_frag (pcs s 0) ++ queue s = frs /\ (err s = true -> pc_frag (pcs s 0) = []).

Lemma seq_commit (L D Q : list package) f frs e :
  L ++ D ++ [f] ++ Q = frs -> (e = true -> [f] = []) -> (e = false -> D = []) -> (L ++ [f]) ++ D ++ [] ++ Q = frs.
Proof.
  intros H He Hd. destruct e; [specialize (He eq_refl); discriminate|].
  rewrite (Hd eq_refl) in *. rewrite <- app_assoc. exact H.
Qed.

Lemma seq_step frs s s' : seq_ok frs s -> drop_ok s -> cstep s 0 s' -> seq_ok frs s'.
Proof.
  intros [HQ HE] HD Hc. unfold seq_ok.
  destruct Hc as [f q Hp Hq He|f q Hp Hq He|f Hp Hl|f ex Hp Hr|f Hp Hr|f ex p' Hp Hm|f ex Hp Hm|f Hp|Hp];
    cbn [set_pc set_lock commit log dropped queue err pcs]; rewrite ?upd_same; rewrite Hp in HQ, HE;
    cbn [pc_frag] in *.
  - rewrite Hq in HQ. split; [exact HQ | discriminate].
  - rewrite Hq in HQ. rewrite Hp. cbn [pc_frag]. split; [|reflexivity].
    rewrite <- app_assoc. exact HQ.
  - split; assumption.
  - split; assumption.
  - split; assumption.
  - split; [|reflexivity]. exact (seq_commit _ _ _ _ _ _ HQ HE HD).
  - split; [|reflexivity]. exact (seq_commit _ _ _ _ _ _ HQ HE HD).
  - split; [|reflexivity]. exact (seq_commit _ _ _ _ _ _ HQ HE HD).
  - split; [exact HQ | reflexivity].
Qed.

Lemma seq_run frs : forall evs s s',
  inv 1 frs s -> seq_ok frs s -> run VCorrect 1 s evs = Some s' -> seq_ok frs s'.
Proof.
  induction evs as [|e evs IH]; intros s s' Hi Hs H; cbn [run] in H.
  - inversion H; subst s'. exact Hs.
  - destruct (step VCorrect 1 s e) as [s1|] eqn:E; [|discriminate].
    apply (IH s1); [exact (inv_step _ _ _ _ _ Hi E) | | exact H].
    destruct e as [w k]. apply step_cstep in E as [Hw Hc].
    assert (w = 0) by lia. subst w. exact (seq_step _ _ _ Hs (inv_drop _ _ _ Hi) Hc).
Qed.

Theorem loadmerge_one_worker : forall frs evs s,
  run VCorrect 1 (init frs) evs = Some s -> complete 1 s ->
  commit_order s = frs /\ result s = merge_all frs /\ loaded s = load_all frs.
Proof.
  intros frs evs s H [Hq Hi].
  assert (Hinv : inv 1 frs s) by (apply reachable_inv; exists evs; exact H).
  assert (Hs : seq_ok frs s).
  { apply (seq_run frs evs (init frs)); [apply inv_init | | exact H]. split; [reflexivity | discriminate]. }
  destruct Hs as [HQ _]. rewrite (Hi 0 (Nat.lt_0_1)), Hq in HQ. cbn [pc_frag app] in HQ. rewrite app_nil_r in HQ.
  fold (commit_order s) in HQ. split; [exact HQ|].
  split; [rewrite <- HQ; exact (result_commit_order _ _ _ Hinv) | rewrite <- HQ; exact (loaded_load_all _ _ _ Hinv)].
Qed.

(* ================================================================== 5. progress *)

Lemma measure_step W s w s' : w < W -> cstep s w s' -> S (measure W s') <= measure W s.
Proof.
  intros Hw Hc. rewrite !measure_eq.
  destruct Hc as [f q Hp Hq He|f q Hp Hq He|f Hp Hl|f ex Hp Hr|f Hp Hr|f ex p' Hp Hm|f ex Hp Hm|f Hp|Hp];
    match goal with |- S (5 * length (queue ?t) + pc_sum W ?t) <= _ =>
      try (pose proof (pc_sum_upd W s t w _ Hw eq_refl) as HM; rewrite Hp in HM; cbn [pc_measure] in HM) end;
    cbn [set_pc set_lock commit queue] in *; try lia.
  - rewrite Hq. cbn [length]. lia.
  - rewrite Hq. cbn [length]. unfold pc_sum. cbn [pcs]. lia.
Qed.

Lemma run_measure W : forall evs s s',
  run VCorrect W s evs = Some s' -> length evs + measure W s' <= measure W s.
Proof.
  induction evs as [|e evs IH]; intros s s' H; cbn [run] in H.
  - inversion H; subst s'. cbn [length]. lia.
  - destruct (step VCorrect W s e) as [s1|] eqn:E; [|discriminate].
    destruct e as [w k]. apply step_cstep in E as [Hw Hc].
    pose proof (measure_step _ _ _ _ Hw Hc). pose proof (IH _ _ H). cbn [length]. lia.
Qed.

Lemma pc_sum_idle W s : (forall w, w < W -> pcs s w = PIdle) -> pc_sum W s = 0.
Proof.
  intro H. unfold pc_sum.
  assert (Hz : forall l, (forall w, In w l -> pcs s w = PIdle) ->
                         list_sum (map (fun u => pc_measure (pcs s u)) l) = 0).
  { induction l as [|x l IH]; intro Hl; [reflexivity|].
    cbn [map]. simpl list_sum. rewrite (Hl x (or_introl eq_refl)), IH; [reflexivity|].
    intros y Hy. apply Hl. right. exact Hy. }
  apply Hz. intros w Hw. apply in_seq in Hw. apply H. lia.
Qed.

Lemma run_bounded W frs evs s : run VCorrect W (init frs) evs = Some s -> length evs <= 5 * length frs.
Proof.
  intro H. apply run_measure in H. rewrite (measure_eq W (init frs)) in H.
  rewrite pc_sum_idle in H by reflexivity. cbn [init queue] in H. lia.
Qed.

Lemma idle_dec (P : nat -> pc) : forall W,
  (forall w, w < W -> P w = PIdle) \/ exists w, w < W /\ P w <> PIdle.
Proof.
  induction W as [|W [IH|[w [Hw Hn]]]].
  - left. intros w Hw. lia.
  - destruct (P W) eqn:E.
    + left. intros w Hw. destruct (Nat.eq_dec w W) as [->|Hne]; [exact E | apply IH; lia].
    + right. exists W. split; [lia | rewrite E; discriminate].
    + right. exists W. split; [lia | rewrite E; discriminate].
    + right. exists W. split; [lia | rewrite E; discriminate].
    + right. exists W. split; [lia | rewrite E; discriminate].
    + right. exists W. split; [lia | rewrite E; discriminate].
    + right. exists W. split; [lia | rewrite E; discriminate].
    + right. exists W. split; [lia | rewrite E; discriminate].
  - right. exists w. split; [lia | exact Hn].
Qed.

Lemma step_enabled_eq v W s w k : w < W ->
  step v W s (w, k) =
  match k, pcs s w with
  | STake, PIdle =>
      match queue s with
      | [] => None
      | f :: q =>
          if err s then Some (mkState q (reg s) (lock s) (err s) (pcs s) (log s) (dropped s ++ [f]))
          else Some (mkState q (reg s) (lock s) (err s) (upd (pcs s) w (PLoaded f)) (log s) (dropped s))
      end
  | SLock, PLoaded f =>
      match v, lock s with
      | VLoadThenStore, _ => None
      | _, None => Some (set_lock s (Some w) w (PLocked f))
      | _, Some _ => None
      end
  | SLock, PWaitM f ex =>
      match v, lock s with
      | VLoadThenStore, None => Some (set_lock s (Some w) w (PMerging f ex))
      | _, _ => None
      end
  | SLookup, PLocked f => Some (do_lookup v s w f)
  | SLookup, PLoaded f => match v with VLoadThenStore => Some (do_lookup v s w f) | _ => None end
  | SMerge, PMerging f ex =>
      match merge_packages f ex with
      | None => Some (commit s f (reg s) true w (after_merge v))
      | Some p' => Some (commit s f (reg_store p' (reg s)) (err s) w (after_merge v))
      end
  | SInsert, PInserting f => Some (commit s f (reg_store f (reg s)) (err s) w (after_insert v))
  | SUnlock, PUnlock => Some (set_lock s None w PIdle)
  | SUnlock, PUnlockM f ex =>
      match v with VMergeOutside => Some (set_lock s None w (PMerging f ex)) | _ => None end
  | _, _ => None
  end.
Proof.
  intro Hw. unfold step. cbn [fst snd]. apply Nat.ltb_lt in Hw. rewrite Hw. reflexivity.
Qed.

Lemma no_deadlock_inv W frs s : 1 <= W -> inv W frs s ->
  complete W s \/ exists e s', step VCorrect W s e = Some s'.
Proof.
  intros HW [[H1 [H2 [H3 H4]]] _ _ _ _].
  destruct (lock s) as [h|] eqn:El.
  - (* the holder can always move *)
    right. pose proof (H3 h eq_refl) as Hin. pose proof (H2 h) as Hv.
    assert (Hh : h < W).
    { destruct (Nat.lt_ge_cases h W) as [Hlt|Hge]; [exact Hlt|]. rewrite (H1 h Hge) in Hin. discriminate. }
    destruct (pcs s h) as [|f|f|f ex|f|f ex|f ex|] eqn:Ep; try discriminate Hin; try discriminate Hv.
    + exists (h, SLookup). eexists. rewrite (step_enabled_eq _ _ _ _ _ Hh), Ep. reflexivity.
    + exists (h, SMerge). rewrite (step_enabled_eq _ _ _ _ _ Hh), Ep.
      destruct (merge_packages f ex); eexists; reflexivity.
    + exists (h, SInsert). eexists. rewrite (step_enabled_eq _ _ _ _ _ Hh), Ep. reflexivity.
    + exists (h, SUnlock). eexists. rewrite (step_enabled_eq _ _ _ _ _ Hh), Ep. reflexivity.
  - destruct (idle_dec (pcs s) W) as [Hidle|[w [Hw Hn]]].
    + destruct (queue s) as [|f q] eqn:Eq; [left; split; assumption|].
      right. exists (0, STake). assert (H0 : 0 < W) by lia.
      rewrite (step_enabled_eq _ _ _ _ _ H0), (Hidle 0 H0), Eq. destruct (err s); eexists; reflexivity.
    + (* the mutex is free: whoever is not idle has a fragment in hand and can lock *)
      right. pose proof (H2 w) as Hv.
      assert (Hc : in_cs (pcs s w) = false).
      { destruct (in_cs (pcs s w)) eqn:E; [|reflexivity]. apply H4 in E. discriminate. }
      destruct (pcs s w) as [|f|f|f ex|f|f ex|f ex|] eqn:Ep; try discriminate Hc; try discriminate Hv.
      * exfalso. apply Hn. reflexivity.
      * exists (w, SLock). eexists. rewrite (step_enabled_eq _ _ _ _ _ Hw), Ep, El. reflexivity.
Qed.

Lemma can_finish_inv W frs : 1 <= W -> forall n s, inv W frs s -> measure W s <= n ->
  exists evs s', run VCorrect W s evs = Some s' /\ complete W s' /\ length evs <= measure W s.
Proof.
  intro HW. induction n as [|n IH]; intros s Hi Hm.
  - destruct (no_deadlock_inv _ _ _ HW Hi) as [Hc|[[w k] [s1 Hs]]].
    + exists [], s. split; [reflexivity|]. split; [exact Hc | cbn [length]; lia].
    + exfalso. apply step_cstep in Hs as [Hw Hc]. pose proof (measure_step _ _ _ _ Hw Hc). lia.
  - destruct (no_deadlock_inv _ _ _ HW Hi) as [Hc|[[w k] [s1 Hs]]].
    + exists [], s. split; [reflexivity|]. split; [exact Hc | cbn [length]; lia].
    + pose proof (inv_step _ _ _ _ _ Hi Hs) as Hi1.
      pose proof Hs as Hs'. apply step_cstep in Hs' as [Hw Hc]. pose proof (measure_step _ _ _ _ Hw Hc) as Hd.
      destruct (IH s1 Hi1) as [evs [s' [Hr [Hc' Hl]]]]; [lia|].
      exists ((w, k) :: evs), s'. split; [cbn [run]; rewrite Hs; exact Hr|].
      split; [exact Hc' | cbn [length]; lia].
Qed.

(* ---- 3. no deadlock; a run has at most 5 steps per fragment; every reachable state can be completed *)
Theorem loadmerge_progress : forall W frs, 1 <= W ->
  (forall s, reachable VCorrect W frs s -> complete W s \/ exists e s', step VCorrect W s e = Some s') /\
  (forall evs s, run VCorrect W (init frs) evs = Some s -> length evs <= 5 * length frs) /\
  (forall s, reachable VCorrect W frs s ->
     exists evs s', run VCorrect W s evs = Some s' /\ complete W s' /\ length evs <= measure W s).
Proof.
  intros W frs HW. split; [|split].
  - intros s Hr. exact (no_deadlock_inv _ _ _ HW (reachable_inv _ _ _ Hr)).
  - intros evs s H. exact (run_bounded _ _ _ _ H).
  - intros s Hr. exact (can_finish_inv W frs HW (measure W s) s (reachable_inv _ _ _ Hr) (le_n _)).
Qed.

(* complete, the boolean way (for the examples) *)
Lemma completeb_spec W s : completeb W s = true <-> complete W s.
Proof.
  unfold completeb, complete. rewrite andb_true_iff, forallb_forall. split.
  - intros [Hq Hi]. split; [destruct (queue s); [reflexivity | discriminate]|].
    intros w Hw. assert (Hin : In w (seq 0 W)) by (apply in_seq; lia). apply Hi in Hin.
    destruct (pcs s w); try discriminate. reflexivity.
  - intros [Hq Hi]. split; [rewrite Hq; reflexivity|].
    intros w Hw. apply in_seq in Hw. rewrite Hi by lia. reflexivity.
Qed.

Lemma run_outcome_spec v W frs evs r :
  run_outcome v W frs evs = Some r <->
  exists s, run v W (init frs) evs = Some s /\ complete W s /\ loaded s = r.
Proof.
  unfold run_outcome. split.
  - destruct (run v W (init frs) evs) as [s|]; [|discriminate].
    destruct (completeb W s) eqn:E; [|discriminate]. intro H. inversion H; subst r.
    exists s. split; [reflexivity|]. split; [apply completeb_spec; exact E | reflexivity].
  - intros [s [Hr [Hc Hl]]]. rewrite Hr. apply completeb_spec in Hc. rewrite Hc, Hl. reflexivity.
Qed.

(* ================================================================== 6. the seeded orders refuted; non-vacuity *)
Import Coq.Strings.String.
Local Open Scope string_scope.
Local Open Scope list_scope.

(* one-target package files of the directory p, and one file of the directory q *)
Definition fr_a : package := mkPkg (lit "p") [mini_target (L "p" "a")] [].
Definition fr_b : package := mkPkg (lit "p") [mini_target (L "p" "b")] [].
Definition fr_c : package := mkPkg (lit "p") [mini_target (L "p" "c")] [].

(* worker 0 registers the first file; then both workers take a file, both look the package up, both merge *)
Definition sched_merge_outside : list event :=
  [(0, STake); (0, SLock); (0, SLookup); (0, SInsert); (0, SUnlock);
   (0, STake); (1, STake);
   (0, SLock); (0, SLookup); (0, SUnlock);
   (1, SLock); (1, SLookup); (1, SUnlock);
   (0, SMerge); (1, SMerge)].

(* both workers take a file, both look the package up (miss), both store *)
Definition sched_load_then_store : list event :=
  [(0, STake); (1, STake); (0, SLookup); (1, SLookup); (0, SInsert); (1, SInsert)].

Lemma not_equiv_by_count p p0 :
  List.length (p_targets p) <> List.length (p_targets p0) -> ~ pkgs_equiv [p] [p0].
Proof.
  intros Hn [_ [_ [H _]]]. destruct (H p (or_introl eq_refl)) as [p' [Hin [_ [Ht _]]]].
  destruct Hin as [<-|[]]. apply Permutation_length in Ht. exact (Hn Ht).
Qed.

(* C16c / C16g: a target is lost (the run is complete and accepted, //p:b is gone) *)
Lemma merge_outside_loses_target :
  exists evs m m0,
    run_outcome VMergeOutside 2 [fr_a; fr_b; fr_c] evs = Some (Some m) /\
    load_all [fr_a; fr_b; fr_c] = Some m0 /\
    all_labels m = [L "p" "a"; L "p" "c"] /\ all_labels m0 = [L "p" "a"; L "p" "b"; L "p" "c"] /\
    ~ pkgs_equiv m m0.
Proof.
  exists sched_merge_outside,
         [mkPkg (lit "p") [mini_target (L "p" "a"); mini_target (L "p" "c")] []],
         [mkPkg (lit "p") [mini_target (L "p" "a"); mini_target (L "p" "b"); mini_target (L "p" "c")] []].
  split; [vm_compute; reflexivity|]. split; [vm_compute; reflexivity|].
  split; [vm_compute; reflexivity|]. split; [vm_compute; reflexivity|].
  apply not_equiv_by_count. cbn [p_targets List.length]. discriminate.
Qed.

(* C16f / C16i: a whole file is lost *)
Lemma load_then_store_loses_fragment :
  exists evs m m0,
    run_outcome VLoadThenStore 2 [fr_a; fr_b] evs = Some (Some m) /\
    load_all [fr_a; fr_b] = Some m0 /\
    m = [fr_b] /\ all_labels m0 = [L "p" "a"; L "p" "b"] /\ ~ pkgs_equiv m m0.
Proof.
  exists sched_load_then_store, [fr_b],
         [mkPkg (lit "p") [mini_target (L "p" "a"); mini_target (L "p" "b")] []].
  split; [vm_compute; reflexivity|]. split; [vm_compute; reflexivity|].
  split; [reflexivity|]. split; [vm_compute; reflexivity|].
  apply not_equiv_by_count. cbn [p_targets fr_b List.length]. discriminate.
Qed.

(* a label defined in two files of the directory, which the sequential loader rejects, is accepted *)
Lemma merge_outside_accepts_duplicate :
  exists evs m, run_outcome VMergeOutside 2 [fr_a; fr_b; fr_b] evs = Some (Some m) /\
                load_all [fr_a; fr_b; fr_b] = None /\ ~ NoDup (frag_labels [fr_a; fr_b; fr_b]).
Proof.
  exists sched_merge_outside. eexists. split; [vm_compute; reflexivity|].
  assert (H : load_all [fr_a; fr_b; fr_b] = None) by (vm_compute; reflexivity).
  split; [exact H | apply load_all_none_iff; exact H].
Qed.

Lemma load_then_store_accepts_duplicate :
  exists evs m, run_outcome VLoadThenStore 2 [fr_b; fr_b] evs = Some (Some m) /\
                load_all [fr_b; fr_b] = None /\ ~ NoDup (frag_labels [fr_b; fr_b]).
Proof.
  exists sched_load_then_store. eexists. split; [vm_compute; reflexivity|].
  assert (H : load_all [fr_b; fr_b] = None) by (vm_compute; reflexivity).
  split; [exact H | apply load_all_none_iff; exact H].
Qed.

(* the same two schedules are not runs of the order of /repo: the second worker is blocked / may not look up *)
Lemma seeded_schedules_not_correct_runs :
  run VCorrect 2 (init [fr_a; fr_b; fr_c]) sched_merge_outside = None /\
  run VCorrect 2 (init [fr_a; fr_b]) sched_load_then_store = None.
Proof. split; vm_compute; reflexivity. Qed.

(* ---- non-vacuity: 2 workers, three files of the directory p and one of q, real contention *)
Definition frs_nonvacuous : list package := [fr_a; frag_q; fr_b; fr_c].
Definition sched_contention_pre : list event :=
  [(0, STake); (1, STake); (0, SLock); (0, SLookup); (0, SInsert); (0, SUnlock);
   (1, SLock); (0, STake); (1, SLookup); (1, SInsert); (1, SUnlock);
   (1, STake); (1, SLock); (1, SLookup)].
Definition sched_contention_post : list event :=
  [(1, SMerge); (1, SUnlock); (0, SLock); (0, SLookup); (0, SMerge); (0, SUnlock)].

Example loadmerge_nonvacuous :
  exists s1 m m0,
    run VCorrect 2 (init frs_nonvacuous) sched_contention_pre = Some s1 /\
    (* worker 1 is merging c.json into the package a.json registered, worker 0 waits with b.json ... *)
    pcs s1 0 = PLoaded fr_b /\ pcs s1 1 = PMerging fr_c fr_a /\ lock s1 = Some 1 /\
    (* ... and cannot take the mutex *)
    step VCorrect 2 s1 (0, SLock) = None /\
    run_outcome VCorrect 2 frs_nonvacuous (sched_contention_pre ++ sched_contention_post) = Some (Some m) /\
    load_all frs_nonvacuous = Some m0 /\
    m <> m0 /\ List.length m = 2 /\ pkgs_equiv m m0.
Proof.
  assert (Ho : exists m, run_outcome VCorrect 2 frs_nonvacuous (sched_contention_pre ++ sched_contention_post)
                         = Some (Some m) /\ List.length m = 2 /\
                         all_labels m = [L "p" "a"; L "p" "c"; L "p" "b"; L "q" "a"; L "q" "al"]).
  { eexists. split; [vm_compute; reflexivity|]. split; vm_compute; reflexivity. }
  destruct Ho as [m [Ho [Hlen Hlab]]].
  assert (Hl : exists m0, load_all frs_nonvacuous = Some m0 /\
                          all_labels m0 = [L "p" "a"; L "p" "b"; L "p" "c"; L "q" "a"; L "q" "al"]).
  { eexists. split; vm_compute; reflexivity. }
  destruct Hl as [m0 [Hl Hlab0]].
  eexists. exists m, m0.
  split; [vm_compute; reflexivity|].
  split; [vm_compute; reflexivity|]. split; [vm_compute; reflexivity|]. split; [vm_compute; reflexivity|].
  split; [vm_compute; reflexivity|].
  split; [exact Ho|]. split; [exact Hl|].
  split; [intro E; subst m0; rewrite Hlab in Hlab0; vm_compute in Hlab0; discriminate|].
  split; [exact Hlen|].
  apply run_outcome_spec in Ho as [s [Hr [Hc Hld]]].
  apply (proj2 (loadmerge_agrees_with_load_all _ _ _ _ Hr Hc)); assumption.
Qed.

(* the error side is inhabited too: //p:b defined in two files; the second one fails to merge, the file still
   queued is dropped, the run is complete and returns the error, as the sequential loader does *)
Definition sched_error : list event :=
  [(0, STake); (1, STake); (0, SLock); (0, SLookup); (0, SInsert); (0, SUnlock);
   (1, SLock); (1, SLookup); (1, SMerge); (1, SUnlock);
   (0, STake); (0, SLock); (0, SLookup); (0, SMerge); (0, SUnlock); (1, STake)].

Example loadmerge_nonvacuous_error :
  exists s, run VCorrect 2 (init [fr_a; fr_b; fr_b; fr_c]) sched_error = Some s /\ complete 2 s /\
            err s = true /\ log s = [fr_a; fr_b; fr_b] /\ dropped s = [fr_c] /\
            merge_all (commit_order s) = None /\ load_all [fr_a; fr_b; fr_b; fr_c] = None.
Proof.
  eexists. split; [vm_compute; reflexivity|].
  split; [apply completeb_spec; vm_compute; reflexivity|].
  repeat split; vm_compute; reflexivity.
Qed.

(* the statement of linearizability spelled out *)
Theorem loadmerge_linearizable_full : forall W frs evs s,
  run VCorrect W (init frs) evs = Some s -> complete W s ->
  Permutation frs (commit_order s) /\
  result s = merge_all (commit_order s) /\
  (err s = true <-> merge_all (commit_order s) = None) /\
  (err s = false -> merge_all (commit_order s) = Some (reg s)).
Proof.
  intros W frs evs s H Hc. destruct (loadmerge_linearizable _ _ _ _ H Hc) as [HP HR].
  split; [exact HP|]. split; [exact HR|]. rewrite <- HR. unfold result.
  destruct (err s).
  - split; [split; reflexivity | discriminate].
  - split; [split; discriminate | reflexivity].
Qed.
