(* Build_proofs.v -- single-task ("one target's task") theorems about the executable build model
   Build.v: what execute / on_complete / load_outputs / load_dep_outputs / process_target can and
   cannot do.  Used by properties C02, C05 (cache half), C13, C14, C15.

   Build.v models the REPAIRED code (a failing output check forces execution; a file restore
   creates the parent directory; alias dependencies enter the key and are loaded in minimal mode;
   a no-cache dependency already run in this invocation is not re-run per dependant). *)
From Coq Require Import List Ascii Bool Arith Lia.
From Grog Require Import Str Label HashKey HashKey_proofs Build.
Import ListNotations.

(* ================================================================== generic list lemmas *)
Lemma list_set_length {A} (x : A) : forall l i, length (list_set i x l) = length l.
Proof. induction l as [|y l IH]; intros [|i]; simpl; auto. Qed.

Lemma nth_list_set_same {A} (x d : A) : forall l i, i < length l -> nth i (list_set i x l) d = x.
Proof.
  induction l as [|y l IH]; intros [|i] Hi; simpl in *; try lia; auto. apply IH; lia.
Qed.

Lemma nth_list_set_other {A} (x d : A) : forall l i j, i <> j -> nth j (list_set i x l) d = nth j l d.
Proof.
  induction l as [|y l IH]; intros [|i] [|j] Hij; simpl; auto; try congruence.
Qed.

Lemma list_set_oob {A} (x : A) : forall l i, length l <= i -> list_set i x l = l.
Proof.
  induction l as [|y l IH]; intros [|i] Hi; simpl in *; auto; try lia. f_equal. apply IH; lia.
Qed.

(* ------------------------------------------------------------------ workspace map *)
Lemma ws_get_filter_other p q ws :
  p <> q -> ws_get q (filter (fun e => negb (str_eqb p (fst e))) ws) = ws_get q ws.
Proof.
  intros Hpq. induction ws as [|[p' st] ws IH]; simpl; auto.
  destruct (str_eqb p p') eqn:E; simpl.
  - apply str_eqb_eq in E; subst p'.
    destruct (str_eqb q p) eqn:E2; [apply str_eqb_eq in E2; congruence | exact IH].
  - destruct (str_eqb q p'); auto.
Qed.

Lemma ws_get_set_same p st ws : ws_get p (ws_set p st ws) = st.
Proof. unfold ws_set; simpl. rewrite str_eqb_refl. reflexivity. Qed.

Lemma ws_get_set_other p q st ws : p <> q -> ws_get q (ws_set p st ws) = ws_get q ws.
Proof.
  intros Hpq. unfold ws_set; simpl.
  destruct (str_eqb q p) eqn:E; [apply str_eqb_eq in E; congruence|].
  apply ws_get_filter_other; auto.
Qed.

Lemma str_eq_dec (a b : str) : {a = b} + {a <> b}.
Proof. apply list_eq_dec, ascii_dec. Qed.

Lemma ws_get_set p q st ws :
  ws_get q (ws_set p st ws) = if str_eqb p q then st else ws_get q ws.
Proof.
  destruct (str_eqb p q) eqn:E.
  - apply str_eqb_eq in E; subst. apply ws_get_set_same.
  - apply str_eqb_neq in E. apply ws_get_set_other; exact E.
Qed.

(* ------------------------------------------------------------------ result map *)
Lemma rlookup_filter_other k q l :
  k <> q -> rlookup q (filter (fun e => negb (str_eqb k (fst e))) l) = rlookup q l.
Proof.
  intros Hkq. induction l as [|[k' r] l IH]; simpl; auto.
  destruct (str_eqb k k') eqn:E; simpl.
  - apply str_eqb_eq in E; subst k'.
    destruct (str_eqb q k) eqn:E2; [apply str_eqb_eq in E2; congruence | exact IH].
  - destruct (str_eqb q k'); auto.
Qed.

Lemma rlookup_set_same k r l : rlookup k (results_set k r l) = Some r.
Proof. unfold results_set; simpl. rewrite str_eqb_refl. reflexivity. Qed.

Lemma rlookup_set_other k q r l : k <> q -> rlookup q (results_set k r l) = rlookup q l.
Proof.
  intros Hkq. unfold results_set; simpl.
  destruct (str_eqb q k) eqn:E; [apply str_eqb_eq in E; congruence|].
  apply rlookup_filter_other; auto.
Qed.

(* ------------------------------------------------------------------ CAS *)
Lemma alookup_cas_add_mono dg c cas d x :
  alookup d cas = Some x -> alookup d (cas_add dg c cas) = Some x.
Proof.
  intro Hx. unfold cas_add. destruct (alookup dg cas) eqn:E; [exact Hx|].
  simpl. destruct (str_eqb d dg) eqn:E2; [|exact Hx].
  apply str_eqb_eq in E2; subst. congruence.
Qed.

Lemma alookup_cas_add_same dg c cas : exists x, alookup dg (cas_add dg c cas) = Some x.
Proof.
  unfold cas_add. destruct (alookup dg cas) eqn:E; [eauto|].
  simpl. rewrite str_eqb_refl. eauto.
Qed.

(* ------------------------------------------------------------------ labels *)
Lemma label_in_remove l ls : label_in l (label_remove l ls) = false.
Proof.
  unfold label_in, label_remove. induction ls as [|x ls IH]; simpl; auto.
  destruct (label_eqb l x) eqn:E; simpl; [exact IH|]. rewrite E. exact IH.
Qed.

(* ================================================================== record rebuilds *)
Lemma b_world_set_rt b i r : b_world (set_rt b i r) = b_world b. Proof. reflexivity. Qed.
Lemma b_cache_set_rt b i r : b_cache (set_rt b i r) = b_cache b. Proof. reflexivity. Qed.
Lemma b_exec_set_rt b i r : b_exec (set_rt b i r) = b_exec b. Proof. reflexivity. Qed.
Lemma b_stop_set_rt b i r : b_stop (set_rt b i r) = b_stop b. Proof. reflexivity. Qed.
Lemma b_rt_set_rt b i r : b_rt (set_rt b i r) = list_set i r (b_rt b). Proof. reflexivity. Qed.

Lemma b_world_set_world b w : b_world (set_world b w) = w. Proof. reflexivity. Qed.
Lemma b_cache_set_world b w : b_cache (set_world b w) = b_cache b. Proof. reflexivity. Qed.
Lemma b_exec_set_world b w : b_exec (set_world b w) = b_exec b. Proof. reflexivity. Qed.
Lemma b_stop_set_world b w : b_stop (set_world b w) = b_stop b. Proof. reflexivity. Qed.
Lemma b_rt_set_world b w : b_rt (set_world b w) = b_rt b. Proof. reflexivity. Qed.

Lemma b_world_set_cache b c : b_world (set_cache b c) = b_world b. Proof. reflexivity. Qed.
Lemma b_cache_set_cache b c : b_cache (set_cache b c) = c. Proof. reflexivity. Qed.
Lemma b_exec_set_cache b c : b_exec (set_cache b c) = b_exec b. Proof. reflexivity. Qed.
Lemma b_stop_set_cache b c : b_stop (set_cache b c) = b_stop b. Proof. reflexivity. Qed.
Lemma b_rt_set_cache b c : b_rt (set_cache b c) = b_rt b. Proof. reflexivity. Qed.

Lemma b_world_add_exec b l : b_world (add_exec b l) = b_world b. Proof. reflexivity. Qed.
Lemma b_cache_add_exec b l : b_cache (add_exec b l) = b_cache b. Proof. reflexivity. Qed.
Lemma b_exec_add_exec b l : b_exec (add_exec b l) = b_exec b ++ [l]. Proof. reflexivity. Qed.
Lemma b_stop_add_exec b l : b_stop (add_exec b l) = b_stop b. Proof. reflexivity. Qed.
Lemma b_rt_add_exec b l : b_rt (add_exec b l) = b_rt b. Proof. reflexivity. Qed.

Lemma b_world_mark b i st : b_world (mark b i st) = b_world b. Proof. reflexivity. Qed.
Lemma b_cache_mark b i st : b_cache (mark b i st) = b_cache b. Proof. reflexivity. Qed.
Lemma b_exec_mark b i st : b_exec (mark b i st) = b_exec b. Proof. reflexivity. Qed.
Lemma b_stop_mark b i st : b_stop (mark b i st) = b_stop b. Proof. reflexivity. Qed.

Lemma get_rt_set_world b w j : get_rt (set_world b w) j = get_rt b j. Proof. reflexivity. Qed.
Lemma get_rt_set_cache b c j : get_rt (set_cache b c) j = get_rt b j. Proof. reflexivity. Qed.
Lemma get_rt_add_exec b l j : get_rt (add_exec b l) j = get_rt b j. Proof. reflexivity. Qed.

Global Hint Rewrite
  b_world_set_rt b_cache_set_rt b_exec_set_rt b_stop_set_rt b_rt_set_rt
  b_world_set_world b_cache_set_world b_exec_set_world b_stop_set_world b_rt_set_world
  b_world_set_cache b_cache_set_cache b_exec_set_cache b_stop_set_cache b_rt_set_cache
  b_world_add_exec b_cache_add_exec b_exec_add_exec b_stop_add_exec b_rt_add_exec
  b_world_mark b_cache_mark b_exec_mark b_stop_mark
  get_rt_set_world get_rt_set_cache get_rt_add_exec : bst.

Definition rt_len (b : bstate) : nat := length (b_rt b).

Lemma rt_len_set_rt b i r : rt_len (set_rt b i r) = rt_len b.
Proof. unfold rt_len. rewrite b_rt_set_rt. apply list_set_length. Qed.
Lemma rt_len_set_world b w : rt_len (set_world b w) = rt_len b. Proof. reflexivity. Qed.
Lemma rt_len_set_cache b c : rt_len (set_cache b c) = rt_len b. Proof. reflexivity. Qed.
Lemma rt_len_add_exec b l : rt_len (add_exec b l) = rt_len b. Proof. reflexivity. Qed.
Lemma rt_len_mark b i st : rt_len (mark b i st) = rt_len b.
Proof. unfold mark. apply rt_len_set_rt. Qed.
Global Hint Rewrite rt_len_set_rt rt_len_set_world rt_len_set_cache rt_len_add_exec rt_len_mark : bst.

Lemma get_rt_set_rt_same b i r : i < rt_len b -> get_rt (set_rt b i r) i = r.
Proof. intro Hi. unfold get_rt. rewrite b_rt_set_rt. apply nth_list_set_same; exact Hi. Qed.

Lemma get_rt_set_rt_other b i j r : i <> j -> get_rt (set_rt b i r) j = get_rt b j.
Proof. intro Hij. unfold get_rt. rewrite b_rt_set_rt. apply nth_list_set_other; exact Hij. Qed.

Lemma get_rt_oob b i : rt_len b <= i -> get_rt b i = rt0.
Proof. intro Hi. unfold get_rt. apply nth_overflow. exact Hi. Qed.

Lemma get_rt_set_rt_oob b i r j : rt_len b <= i -> get_rt (set_rt b i r) j = get_rt b j.
Proof. intro Hi. unfold get_rt. rewrite b_rt_set_rt, list_set_oob; [reflexivity | exact Hi]. Qed.

(* a field that the new record copies from the old one is unchanged at every index *)
Lemma get_rt_set_rt_field {A} (f : rt -> A) b i r j :
  f r = f (get_rt b i) -> f (get_rt (set_rt b i r) j) = f (get_rt b j).
Proof.
  intro Hf. destruct (Nat.eq_dec i j) as [->|Hij]; [|rewrite get_rt_set_rt_other; auto].
  destruct (lt_dec j (rt_len b)) as [Hj|Hj].
  - rewrite get_rt_set_rt_same; auto.
  - rewrite get_rt_set_rt_oob; [reflexivity | lia].
Qed.

Lemma get_rt_mark_other b i j st : i <> j -> get_rt (mark b i st) j = get_rt b j.
Proof. intro Hij. unfold mark. apply get_rt_set_rt_other; exact Hij. Qed.

Lemma rt_status_mark_same b i st : i < rt_len b -> rt_status (get_rt (mark b i st) i) = st.
Proof. intro Hi. unfold mark. rewrite get_rt_set_rt_same; auto. Qed.

Lemma rt_status_mark_oob b i st : rt_len b <= i -> rt_status (get_rt (mark b i st) i) = TNone.
Proof.
  intro Hi. unfold mark. rewrite get_rt_set_rt_oob; [|exact Hi]. rewrite get_rt_oob; auto.
Qed.

Lemma rt_status_mark b i st :
  rt_status (get_rt (mark b i st) i) = st \/ rt_status (get_rt (mark b i st) i) = TNone.
Proof.
  destruct (lt_dec i (rt_len b)) as [Hi|Hi];
    [left; apply rt_status_mark_same; exact Hi | right; apply rt_status_mark_oob; lia].
Qed.

Lemma rt_key_mark b i st j : rt_key (get_rt (mark b i st) j) = rt_key (get_rt b j).
Proof. unfold mark. apply (get_rt_set_rt_field rt_key). reflexivity. Qed.
Lemma rt_ohash_mark b i st j : rt_ohash (get_rt (mark b i st) j) = rt_ohash (get_rt b j).
Proof. unfold mark. apply (get_rt_set_rt_field rt_ohash). reflexivity. Qed.
Lemma rt_loaded_mark b i st j : rt_loaded (get_rt (mark b i st) j) = rt_loaded (get_rt b j).
Proof. unfold mark. apply (get_rt_set_rt_field rt_loaded). reflexivity. Qed.
