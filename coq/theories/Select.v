(* Select.v -- target selection, graph traversals with their cost semantics, and the query
   commands (engine `select`: C12, C19, C20).  Model only; proofs are in Select_proofs.v.

   Mirrors  internal/selection/{selector,build_selection,query_selection,target_matchers}.go,
            internal/dag/graph.go (GetDependencies/GetDependants/GetAncestors/GetDescendants/ResolveTarget),
            internal/cmd/cmds/{deps,rdeps,owners,list}.go, model.PrintSortedLabels.

   The model follows the code AFTER the repair of C19-F1..F3 / C20-F1 (visited sets in
   selectAllAncestorsForBuild, GetAncestors, GetDescendants; label.PrintSorted compacts) and of
   C12-F1 / C20-F2 (a matched alias is filtered like the target it resolves to); the
   path-enumerating versions are kept at the end of the traversal part as history.

   Graphs are index-level (Graph.v): node i's in-edges (dependencies, declaration order,
   one entry per declared dependency) are [deps g i]; its out-edges are [dependants g i].
   An alias is a node of kind [KAlias] whose only dependency is its `actual`.  The Go code
   iterates Go maps (random order); everything observable that the model defines is
   independent of that order (sets, multisets, sorted lines, error/no error). *)
From Grog Require Export Str Label Graph.
From Grog Require Path.   (* qualified: Path.resolve is not the [resolve] of this file *)

(* ------------------------------------------------------------------ nodes and configuration *)

Inductive kind := KTarget | KAlias.

Record node := mkNode {
  nkind   : kind;
  nlabel  : label;
  ntags   : list str;      (* Target.Tags *)
  nplats  : list str;      (* Target.Platforms (already defaulted from the package) *)
  nbin    : bool;          (* Target.HasBinOutput() *)
  ninputs : list str       (* Target.Inputs: relative to the package directory, literal inputs AS SPELLED in the BUILD file *)
}.

Definition default_node : node := mkNode KTarget (mkLabel [] []) [] [] false [].
Definition attr (ns : list node) (i : nat) : node := nth i ns default_node.

Definition is_target (a : node) : bool := match nkind a with KTarget => true | KAlias => false end.

(* strings.HasSuffix *)
Definition has_suffix (suf s : str) : bool := has_prefix (rev suf) (rev s).
Definition test_lit : str := ["t"; "e"; "s"; "t"]%char.
(* TargetLabel.IsTest: strings.HasSuffix(t.Name, "test") *)
Definition is_test (a : node) : bool := has_suffix test_lit (lname (nlabel a)).

Inductive tsel := TestOnly | NonTestOnly | BinOutput | AllTargets.

Record config := mkCfg {
  cpats    : list pattern;   (* Selector.Patterns *)
  ctags    : list str;       (* config.Global.Tags *)
  cexcl    : list str;       (* config.Global.ExcludeTags *)
  ctype    : tsel;           (* Selector.TargetType *)
  cplat    : str;            (* config.Global.GetPlatform() = OS/Arch *)
  callplat : bool            (* config.Global.AllPlatforms *)
}.

(* TargetMatchesTypeSelection *)
Definition type_ok (t : tsel) (a : node) : bool :=
  match t with
  | TestOnly => is_test a
  | NonTestOnly => negb (is_test a)
  | BinOutput => nbin a
  | AllTargets => true
  end.

(* nodeMatchesPatterns / targetMatchesPatterns: some pattern matches, or there is none *)
Definition matches_patterns (ps : list pattern) (l : label) : bool :=
  existsb (fun p => matches p l) ps || match ps with [] => true | _ => false end.

(* targetTagsMatch *)
Definition tags_match (cfg : config) (a : node) : bool :=
  existsb (fun t => str_in t (ntags a)) (ctags cfg) || match ctags cfg with [] => true | _ => false end.

(* targetExcludeTagsMatch *)
Definition excl_match (cfg : config) (a : node) : bool :=
  existsb (fun t => str_in t (ntags a)) (cexcl cfg).

(* the filters other than the pattern, for a target *)
Definition target_filters (cfg : config) (a : node) : bool :=
  type_ok (ctype cfg) a && tags_match cfg a && negb (excl_match cfg a).

(* nodeMatchesPlatform (the node-level test: the one applied to DEPENDENCIES, where an alias
   always passes and the platform error is raised at the target behind it) *)
Definition node_matches_platform (cfg : config) (a : node) : bool :=
  match nkind a with
  | KAlias => true
  | KTarget => callplat cfg || match nplats a with [] => true | _ => false end || str_in (cplat cfg) (nplats a)
  end.

(* dag.ResolveTarget: follow alias nodes (a node with exactly one dependency, its `actual`) to
   the target they transitively point to.  The Go loop is bounded by the number of nodes; under a
   topological numbering every step goes to a smaller index, so fuel [S i] suffices from i.
   The result is an alias only when the chain does not end in a target (Go: nil). *)
Fixpoint resolve (g : graph) (ns : list node) (fuel i : nat) : nat :=
  match fuel with
  | 0 => i
  | S f => match nkind (attr ns i), deps g i with
           | KAlias, [d] => resolve g ns f d
           | _, _ => i
           end
  end.

(* standsFor: the node whose type, tags and platforms decide whether node i is selected: an alias stands for
   the target it resolves to, any other node for itself.  The result is an alias exactly when the Go function
   returns nil (the chain does not end in a target). *)
Definition stands_for (ns : list node) (g : graph) (i : nat) : nat := resolve g ns (S i) i.

(* Selector.nodeMatchesFilters: the patterns are checked against the node's own label, the type,
   tag and exclude-tag filters against the target the node stands for; an alias that resolves
   to no target never passes *)
Definition node_matches_filters (cfg : config) (ns : list node) (g : graph) (i : nat) : bool :=
  let t := attr ns (stands_for ns g i) in
  is_target t &&
  (type_ok (ctype cfg) t && matches_patterns (cpats cfg) (nlabel (attr ns i))
   && tags_match cfg t && negb (excl_match cfg t)).

(* nodeMatchesPlatform(standsFor(graph, node)): the platform selector of the target the node stands for *)
Definition resolved_matches_platform (cfg : config) (ns : list node) (g : graph) (i : nat) : bool :=
  node_matches_platform cfg (attr ns (stands_for ns g i)).

(* Selector.Match *)
Definition node_match (cfg : config) (ns : list node) (g : graph) (i : nat) : bool :=
  node_matches_filters cfg ns g i && resolved_matches_platform cfg ns g i.

(* ------------------------------------------------------------------ build selection *)

(* the loop body of selectAllAncestorsForBuild over the dependency list, threading the visited
   map ([vis], newest first): a dependency that is in the map is skipped; otherwise it is
   platform-checked (None = the platform error), entered into the map, selected, and [rec] is
   the recursive call. *)
Fixpoint selv_list (ok : nat -> bool) (rec : nat -> list nat -> option (list nat)) (ds : list nat) (vis : list nat)
  : option (list nat) :=
  match ds with
  | [] => Some vis
  | d :: ds' =>
      if mem_nat d vis then selv_list ok rec ds' vis
      else if ok d then
        match rec d (d :: vis) with
        | None => None
        | Some vis' => selv_list ok rec ds' vis'
        end
      else None
  end.

(* selectAllAncestorsForBuild.  Under a topological numbering the recursion depth from n is at
   most n, so fuel [S n] suffices. *)
Fixpoint selv_anc (g : graph) (ok : nat -> bool) (fuel n : nat) (vis : list nat) : option (list nat) :=
  match fuel with
  | 0 => Some vis
  | S f => selv_list ok (selv_anc g ok f) (deps g n) vis
  end.

(* the root loop of SelectTargetsForBuild: one visited map for all roots; a root that is in the
   map already (it is a dependency of an earlier root) is not traversed again *)
Fixpoint selv_roots (g : graph) (ok : nat -> bool) (rs : list nat) (vis : list nat) : option (list nat) :=
  match rs with
  | [] => Some vis
  | r :: rs' =>
      if mem_nat r vis then selv_roots g ok rs' vis
      else match selv_anc g ok (S r) r (r :: vis) with
           | None => None
           | Some vis' => selv_roots g ok rs' vis'
           end
  end.

(* the nodes the root loop of SelectTargetsForBuild does not skip *)
Definition roots (cfg : config) (ns : list node) (g : graph) : list nat :=
  filter (node_match cfg ns g) (seq 0 (size g)).

Definition plat_okb (cfg : config) (ns : list node) (i : nat) : bool :=
  node_matches_platform cfg (attr ns i).

(* the visited map at the end = the nodes on which Select() was called, each once *)
Definition select_marks (cfg : config) (ns : list node) (g : graph) : option (list nat) :=
  selv_roots g (plat_okb cfg ns) (roots cfg ns g) [].

(* the set of marked nodes as a sorted duplicate-free list of indices *)
Definition normalize (g : graph) (marks : list nat) : list nat :=
  filter (fun i => mem_nat i marks) (seq 0 (size g)).

Inductive sel_result := Selected (s : list nat) | PlatformError.

Definition select_for_build (cfg : config) (ns : list node) (g : graph) : sel_result :=
  match select_marks cfg ns g with
  | None => PlatformError
  | Some m => Selected (normalize g m)
  end.

(* "Selected N targets": selected nodes of type target *)
Definition selected_count (ns : list node) (s : list nat) : nat :=
  length (filter (fun i => is_target (attr ns i)) s).

(* "(N targets not matching <platform> host)": the distinct targets that the nodes skipped by the root loop
   stand for (the platformSkipped map, keyed by the label of standsFor(node)) *)
Definition platform_skipped (cfg : config) (ns : list node) (g : graph) : nat :=
  length (nodup Nat.eq_dec
            (map (stands_for ns g)
                 (filter (fun i => node_matches_filters cfg ns g i && negb (resolved_matches_platform cfg ns g i))
                         (seq 0 (size g))))).

(* query-side selection (SelectTargets, used by `list`): filters and platform, no closure *)
Definition select_targets (cfg : config) (ns : list node) (g : graph) : list nat :=
  filter (node_match cfg ns g) (seq 0 (size g)).

(* --- the property's reading (C12, C20): a pattern names nodes; the tag, exclude-tag, type and
   platform filters of a node are those of the TARGET the node stands for (an alias stands for
   the target it resolves to).  Since the repair of C12-F1 / C20-F2 this is the code's rule
   ([node_match], Select_proofs.node_match_spec); it is kept as the specification the theorems
   are stated with. *)
Definition passes_filters (cfg : config) (ns : list node) (g : graph) (i : nat) : bool :=
  let t := attr ns (stands_for ns g i) in
  is_target t && target_filters cfg t && node_matches_platform cfg t.

Definition spec_rootb (cfg : config) (ns : list node) (g : graph) (i : nat) : bool :=
  matches_patterns (cpats cfg) (nlabel (attr ns i)) && passes_filters cfg ns g i.

Definition spec_roots (cfg : config) (ns : list node) (g : graph) : list nat :=
  filter (spec_rootb cfg ns g) (seq 0 (size g)).

(* the same traversal started from the roots of the property's reading (specification-level selection; equal to
   [select_for_build]: Select_proofs.select_for_build_is_spec) *)
Definition select_for_build_spec (cfg : config) (ns : list node) (g : graph) : sel_result :=
  match selv_roots g (plat_okb cfg ns) (spec_roots cfg ns g) [] with
  | None => PlatformError
  | Some m => Selected (normalize g m)
  end.

(* ------------------------------------------------------------------ traversals with their cost (C19, C20) *)

(* GetAncestors (next = deps g), GetDescendants (next = dependants g) and the traversal of
   selectAllAncestorsForBuild (next = deps g, no platform constraint): depth-first, every node is
   entered once.  State = (visited, cost); [visited] is the visited map, newest first; cost counts
   one unit per entry into the recursive function and one per edge inspected (loop iteration),
   so it bounds the running time up to the cost of a map operation. *)
Fixpoint dfs_list (rec : nat -> list nat * nat -> list nat * nat) (ds : list nat) (st : list nat * nat)
  : list nat * nat :=
  match ds with
  | [] => st
  | d :: ds' =>
      let '(vis, c) := st in
      if mem_nat d vis then dfs_list rec ds' (vis, S c)
      else dfs_list rec ds' (rec d (d :: vis, S c))
  end.

Fixpoint dfs (next : nat -> list nat) (fuel n : nat) (st : list nat * nat) : list nat * nat :=
  match fuel with
  | 0 => (fst st, S (snd st))
  | S f => dfs_list (dfs next f) (next n) (fst st, S (snd st))
  end.

(* the nodes returned (the start node is in the map from the beginning and is not returned), in
   the order of the Go slice = the order in which they are first reached, and the cost *)
Definition ancestors_visited (g : graph) (n : nat) : list nat * nat :=
  let '(vis, c) := dfs (deps g) (S n) n ([n], 0) in (rev (removelast vis), c).
Definition descendants_visited (g : graph) (n : nat) : list nat * nat :=
  let '(vis, c) := dfs (dependants g) (size g) n ([n], 0) in (rev (removelast vis), c).
(* selection of one root on a graph without platform constraints (the root is marked, then its
   ancestors): the visited map (newest first) and the cost *)
Definition select_visited (g : graph) (r : nat) : list nat * nat := dfs (deps g) (S r) r ([r], 0).

Definition select_visited_cost (g : graph) (r : nat) : nat := snd (select_visited g r).
Definition ancestors_visited_cost (g : graph) (n : nat) : nat := snd (ancestors_visited g n).
Definition descendants_visited_cost (g : graph) (n : nat) : nat := snd (descendants_visited g n).

(* entries into the recursive function alone (what the harness counts on the implementation):
   one per node in the map *)
Definition select_visited_calls (g : graph) (r : nat) : nat := length (fst (select_visited g r)).
Definition ancestors_visited_calls (g : graph) (n : nat) : nat := S (length (fst (ancestors_visited g n))).
Definition descendants_visited_calls (g : graph) (n : nat) : nat := S (length (fst (descendants_visited g n))).

(* V and E *)
Definition edges (g : graph) : nat := fold_right (fun ds acc => length ds + acc) 0 g.

(* ------------------------------------------------------------------ before the repair (history) *)

(* The traversals as they were before the visited sets were introduced (findings C19-F1..F3,
   C20-F1): no longer the code.  They are kept as the reference the history lemmas of
   Select_proofs.v speak about (number of calls = number of dependency paths + 1, exponential on
   ladders) and as the specification-level "all paths" enumeration whose de-duplication
   ([ancestors_set] / [descendants_set]) the visited traversals are compared with. *)

(* the former GetAncestors (next = deps g) and GetDescendants (next = dependants g): every node
   is appended once per path that reaches it. *)
Fixpoint paths (next : nat -> list nat) (fuel n : nat) : list nat :=
  match fuel with
  | 0 => []
  | S f => flat_map (fun d => d :: paths next f d) (next n)
  end.

Definition ancestors_paths (g : graph) (n : nat) : list nat := paths (deps g) (S n) n.
Definition descendants_paths (g : graph) (n : nat) : list nat := paths (dependants g) (size g) n.

Definition dedup_nat (l : list nat) : list nat := nodup Nat.eq_dec l.
Definition ancestors_set (g : graph) (n : nat) : list nat := dedup_nat (ancestors_paths g n).
Definition descendants_set (g : graph) (n : nat) : list nat := dedup_nat (descendants_paths g n).

(* [calls] = number of times the Go function is entered. *)

(* GetAncestors / GetDescendants *)
Fixpoint paths_c (next : nat -> list nat) (fuel n : nat) : list nat * nat :=
  match fuel with
  | 0 => ([], 1)
  | S f =>
      fold_right (fun d acc =>
                    let '(r, c) := paths_c next f d in
                    (d :: r ++ fst acc, c + snd acc))
                 ([], 1) (next n)
  end.

Definition ancestors_paths_c (g : graph) (n : nat) : list nat * nat := paths_c (deps g) (S n) n.
Definition descendants_paths_c (g : graph) (n : nat) : list nat * nat := paths_c (dependants g) (size g) n.

(* the former selectAllAncestorsForBuild (one call per dependency path); on the platform error the function returns early, so only the
   calls made until then are counted *)
Fixpoint sel_list_c (ok : nat -> bool) (rec : nat -> option (list nat) * nat) (ds : list nat)
  : option (list nat) * nat :=
  match ds with
  | [] => (Some [], 0)
  | d :: ds' =>
      if ok d then
        match rec d with
        | (None, c1) => (None, c1)
        | (Some m1, c1) =>
            match sel_list_c ok rec ds' with
            | (None, c2) => (None, c1 + c2)
            | (Some m2, c2) => (Some (d :: m1 ++ m2), c1 + c2)
            end
        end
      else (None, 0)
  end.

Fixpoint sel_anc_c (g : graph) (ok : nat -> bool) (fuel n : nat) : option (list nat) * nat :=
  match fuel with
  | 0 => (Some [], 1)
  | S f => let '(r, c) := sel_list_c ok (sel_anc_c g ok f) (deps g n) in (r, S c)
  end.

Definition select_ancestors_c (g : graph) (ok : nat -> bool) (n : nat) : option (list nat) * nat :=
  sel_anc_c g ok (S n) n.

Fixpoint select_roots_c (g : graph) (ok : nat -> bool) (rs : list nat) : option (list nat) * nat :=
  match rs with
  | [] => (Some [], 0)
  | r :: rs' =>
      match select_ancestors_c g ok r with
      | (None, c1) => (None, c1)
      | (Some m, c1) =>
          match select_roots_c g ok rs' with
          | (None, c2) => (None, c1 + c2)
          | (Some m', c2) => (Some (r :: m ++ m'), c1 + c2)
          end
      end
  end.

(* whole former SelectTargetsForBuild: calls of selectAllAncestorsForBuild over all roots *)
Definition select_marks_c (cfg : config) (ns : list node) (g : graph) : option (list nat) * nat :=
  select_roots_c g (plat_okb cfg ns) (roots cfg ns g).

(* calls made by selecting the single root r on a graph without platform constraints *)
Definition select_paths_cost (g : graph) (r : nat) : nat :=
  snd (select_ancestors_c g (fun _ => true) r).
Definition ancestors_paths_cost (g : graph) (n : nat) : nat := snd (ancestors_paths_c g n).
Definition descendants_paths_cost (g : graph) (n : nat) : nat := snd (descendants_paths_c g n).

(* ------------------------------------------------------------------ queries (C20) *)

(* selection.New(nil, Tags, ExcludeTags, targetType): the query selector has no patterns *)
Definition query_cfg (cfg : config) : config :=
  mkCfg [] (ctags cfg) (cexcl cfg) (ctype cfg) (cplat cfg) (callplat cfg).

(* the labels of the given nodes, sorted (sort.Strings) *)
Definition sorted_labels (ns : list node) (l : list nat) : list str :=
  sort_strs (map (fun i => print_label (nlabel (attr ns i))) l).

(* slices.Compact: one element of every run of equal neighbours *)
Fixpoint compact_strs (l : list str) : list str :=
  match l with
  | [] => []
  | x :: l' =>
      match l' with
      | [] => [x]
      | y :: _ => if str_eqb x y then compact_strs l' else x :: compact_strs l'
      end
  end.

(* model.PrintSortedLabels / label.PrintSorted: sorted, then compacted: each label once *)
Definition print_sorted (ns : list node) (l : list nat) : list str := compact_strs (sorted_labels ns l).

(* Selector.FilterNodes *)
Definition filter_nodes (cfg : config) (ns : list node) (g : graph) (l : list nat) : list nat :=
  filter (node_match cfg ns g) l.

(* GetAncestors / GetDescendants *)
Definition deps_t (g : graph) (n : nat) : list nat := fst (ancestors_visited g n).
Definition rdeps_t (g : graph) (n : nat) : list nat := fst (descendants_visited g n).

(* grog deps [-t] [--target-type=..] <n> *)
Definition deps_query (cfg : config) (ns : list node) (g : graph) (n : nat) (transitive : bool) : list str :=
  print_sorted ns (filter_nodes (query_cfg cfg) ns g (if transitive then deps_t g n else deps g n)).

(* grog rdeps [-t] [--target-type=..] <n> *)
Definition rdeps_query (cfg : config) (ns : list node) (g : graph) (n : nat) (transitive : bool) : list str :=
  print_sorted ns (filter_nodes (query_cfg cfg) ns g (if transitive then rdeps_t g n else dependants g n)).

(* the same with the node list de-duplicated before filtering (equal to the above as lists of lines; kept for the
   check, which compares the two) *)
Definition deps_query_dedup (cfg : config) (ns : list node) (g : graph) (n : nat) (transitive : bool) : list str :=
  print_sorted ns (filter_nodes (query_cfg cfg) ns g (dedup_nat (if transitive then deps_t g n else deps g n))).
Definition rdeps_query_dedup (cfg : config) (ns : list node) (g : graph) (n : nat) (transitive : bool) : list str :=
  print_sorted ns (filter_nodes (query_cfg cfg) ns g (dedup_nat (if transitive then rdeps_t g n else dependants g n))).

(* ---- owners.  A node's inputs are the literal inputs AS SPELLED in the BUILD file ("./f", "zz/../f", "d//f", "d/./f":
   loading.resolveInputs passes an input without glob characters through unchanged); the files are the arguments as
   typed, relative to the workspace root (an argument typed inside a package directory is handed over with that
   package in front, uncleaned).  owners.go compares
     config.GetPathAbsoluteToWorkspaceRoot(filepath.Join(package, input)) = filepath.Join(root, filepath.Join(package, input))
   with filepath.Abs(argument) = filepath.Join(cwd, argument); Join cleans.  [owners_abs] below is that comparison with
   the root in front; [owners] drops the root, which is the same on both sides: for inputs and arguments that do not
   climb above the workspace root the two agree (Owners_proofs.owners_abs_is_owners; an input may not even leave its
   package: analysis.checkInputPathsRelative). *)

(* package/input exactly as spelled, not cleaned (what the comparison was made with in the seeded changes C20c/d/f) *)
Definition input_path (a : node) (inp : str) : str :=
  if null (lpkg (nlabel a)) then inp else lpkg (nlabel a) ++ ch_slash :: inp.

(* filepath.Join(root, filepath.Join(package, input)), the root dropped: "." stands for the root itself *)
Definition canon_input (pkg inp : str) : str := Path.clean (Path.join_path [pkg; inp]).
(* filepath.Abs(argument), the root dropped *)
Definition canon_arg (f : str) : str := Path.clean f.

Definition owns (a : node) (f : str) : bool :=
  is_target a && existsb (fun inp => str_eqb (canon_input (lpkg (nlabel a)) inp) (canon_arg f)) (ninputs a).

(* grog owners f1 f2 ...: targets having one of the files among their resolved inputs *)
Definition owners_idx (ns : list node) (files : list str) : list nat :=
  filter (fun i => existsb (owns (attr ns i)) files) (seq 0 (length ns)).
Definition owners (ns : list node) (files : list str) : list str := print_sorted ns (owners_idx ns files).

(* the comparison made with the SPELLING of the input (argument cleaned, input not): not the code; the behaviour of
   the seeded changes, kept as the reference C20_owners_verbatim_refuted speaks about *)
Definition owns_verbatim (a : node) (f : str) : bool :=
  is_target a && existsb (fun inp => str_eqb (input_path a inp) (canon_arg f)) (ninputs a).
Definition owners_verbatim (ns : list node) (files : list str) : list str :=
  print_sorted ns (filter (fun i => existsb (owns_verbatim (attr ns i)) files) (seq 0 (length ns))).

(* the comparison as owners.go makes it, with absolute paths: the workspace root is "/" ++ its elements joined by "/"
   (e.g. ["w"; "ws"] for /w/ws), the command runs in the root *)
Definition abs_root (rootc : list str) : str := ch_slash :: join Path.slash rootc.
Definition abs_input (rootc : list str) (pkg inp : str) : str :=
  Path.join_path [abs_root rootc; Path.join_path [pkg; inp]].
(* filepath.Abs: Clean of an absolute argument, Join(cwd, .) of a relative one *)
Definition abs_arg (rootc : list str) (f : str) : str :=
  if Path.is_abs f then Path.clean f else Path.join_path [abs_root rootc; f].
Definition owns_abs (rootc : list str) (a : node) (f : str) : bool :=
  is_target a && existsb (fun inp => str_eqb (abs_input rootc (lpkg (nlabel a)) inp) (abs_arg rootc f)) (ninputs a).
Definition owners_abs (rootc : list str) (ns : list node) (files : list str) : list str :=
  print_sorted ns (filter (fun i => existsb (owns_abs rootc (attr ns i)) files) (seq 0 (length ns))).

(* does not climb above the directory it is read from: relative and Clean leaves no leading ".." *)
Definition stays_inside (p : str) : bool := negb (Path.is_abs p) && negb (Path.tries_to_escape p).

(* the same node with its inputs spelled differently: same kind and label, the inputs pairwise the same file after
   Join/Clean (tags, platforms, bin output are not looked at by `owners`); the same arguments spelled differently *)
Definition respelled (a b : node) : Prop :=
  nkind a = nkind b /\ nlabel a = nlabel b /\
  Forall2 (fun i j => canon_input (lpkg (nlabel a)) i = canon_input (lpkg (nlabel a)) j) (ninputs a) (ninputs b).
Definition args_respelled (files files' : list str) : Prop :=
  Forall2 (fun f f' => canon_arg f = canon_arg f') files files'.

(* grog list [--target-type=..] <patterns>: SelectTargets then LogSelectedNodes (sorted; one line per selected node) *)
Definition list_query (cfg : config) (ns : list node) (g : graph) : list str :=
  sorted_labels ns (select_targets cfg ns g).
