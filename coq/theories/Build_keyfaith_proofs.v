(* Build_keyfaith_proofs.v -- [key_faithful] (the abstract guard of C01) follows from C09's
   injectivity of the framed key encoding and the structural guard [cmd_faithful] + [labels_unique]
   (Build_keyfaith.v); the C01 theorems restated with the structural guard.

   Layout: boolean equalities and [cmd_faithfulb] / [labels_uniqueb] specs; string splitting at the
   last separator; hex digests; unique decoding of a concatenation of prefix-free digests; the ideal
   data of the dependencies ([dep_at]); equal output hash => equal output bytes ([dep_outs_eq]);
   equal reads; the bridge theorem; corollaries; the digest [pf_enc]; witnesses. *)
From Coq Require Import List Ascii Bool Arith Lia Permutation.
From Grog Require Import Str Label HashKey HashKey_proofs Build Build_ideal Build_c01_proofs Build_keyfaith.
Import ListNotations.

(* ================================================================== boolean equalities *)
Lemma lbl_eqb_eq a b : label_eqb a b = true <-> a = b.
Proof.
  destruct a as [p n], b as [p' n']. unfold label_eqb. cbn [lpkg lname].
  rewrite andb_true_iff, !str_eqb_eq. split; [intros [-> ->]; reflexivity | intro E; inversion E; auto].
Qed.

Lemma okind_eqb_eq a b : okind_eqb a b = true <-> a = b.
Proof. destruct a, b; cbn [okind_eqb]; split; intro E; try reflexivity; discriminate E. Qed.

Lemma outdef_eqb_eq a b : outdef_eqb a b = true <-> a = b.
Proof.
  destruct a as [k p], b as [k' p']. unfold outdef_eqb. cbn [o_kind o_path].
  rewrite andb_true_iff, okind_eqb_eq, str_eqb_eq.
  split; [intros [-> ->]; reflexivity | intro E; inversion E; auto].
Qed.

Lemma beh_eqb_eq a b : beh_eqb a b = true <-> a = b.
Proof.
  destruct a as [| |j| |], b as [| |k| |]; cbn [beh_eqb]; split; intro E;
    try reflexivity; try discriminate E.
  - apply Nat.eqb_eq in E. subst k. reflexivity.
  - inversion E; subst. apply Nat.eqb_refl.
Qed.

Lemma list_eqb_eq {A} (eqb : A -> A -> bool) :
  (forall x y, eqb x y = true <-> x = y) -> forall l l', list_eqb eqb l l' = true <-> l = l'.
Proof.
  intros Hspec l. induction l as [|x l IH]; intros [|y l']; cbn [list_eqb]; split; intro E;
    try reflexivity; try discriminate E.
  - apply andb_true_iff in E as [E1 E2]. apply Hspec in E1. apply IH in E2. subst. reflexivity.
  - inversion E; subst. apply andb_true_iff. split; [apply Hspec | apply IH]; reflexivity.
Qed.

Lemma shape_eqb_eq a b : shape_eqb a b = true <-> a = b.
Proof.
  destruct a as [[l os]|], b as [[l' os']|]; cbn [shape_eqb]; split; intro E;
    try reflexivity; try discriminate E.
  - apply andb_true_iff in E as [E1 E2]. apply lbl_eqb_eq in E1.
    apply (list_eqb_eq outdef_eqb outdef_eqb_eq) in E2. subst. reflexivity.
  - inversion E; subst. apply andb_true_iff. split;
      [apply lbl_eqb_eq | apply (list_eqb_eq outdef_eqb outdef_eqb_eq)]; reflexivity.
Qed.

Lemma cmd_agreeb_spec s1 t1 s2 t2 : cmd_agreeb s1 t1 s2 t2 = true <-> cmd_agree s1 t1 s2 t2.
Proof.
  unfold cmd_agreeb, cmd_agree.
  rewrite !andb_true_iff, str_eqb_eq, beh_eqb_eq, !eqb_true_iff,
    (list_eqb_eq shape_eqb shape_eqb_eq).
  tauto.
Qed.

Lemma node_agreeb_spec s1 s2 n1 n2 :
  node_agreeb s1 s2 n1 n2 = true <->
  (forall t1 t2, n1 = NTarget t1 -> n2 = NTarget t2 ->
     td_label t1 = td_label t2 -> td_cmd t1 = td_cmd t2 -> cmd_agree s1 t1 s2 t2).
Proof.
  destruct n1 as [t1|l1 a1], n2 as [t2|l2 a2]; cbn [node_agreeb];
    try (split; [intros _ u1 u2 E1 E2; discriminate | reflexivity]).
  destruct (label_eqb (td_label t1) (td_label t2) && str_eqb (td_cmd t1) (td_cmd t2)) eqn:E.
  - apply andb_true_iff in E as [El Ec]. apply lbl_eqb_eq in El. apply str_eqb_eq in Ec.
    rewrite cmd_agreeb_spec. split.
    + intros Ha u1 u2 E1 E2 _ _. inversion E1; inversion E2; subst. exact Ha.
    + intro Hall. apply (Hall t1 t2); auto.
  - split; [|reflexivity]. intros _ u1 u2 E1 E2 El Ec. inversion E1; inversion E2; subst u1 u2.
    apply lbl_eqb_eq in El. apply str_eqb_eq in Ec. rewrite El, Ec in E. discriminate E.
Qed.

Theorem cmd_faithfulb_spec V : cmd_faithfulb V = true <-> cmd_faithful V.
Proof.
  unfold cmd_faithfulb, cmd_faithful. split.
  - intros Hb s1 s2 t1 t2 H1 H2 Hn1 Hn2 El Ec.
    rewrite forallb_forall in Hb. specialize (Hb s1 H1).
    rewrite forallb_forall in Hb. specialize (Hb s2 H2).
    rewrite forallb_forall in Hb. specialize (Hb _ Hn1).
    rewrite forallb_forall in Hb. specialize (Hb _ Hn2).
    apply (proj1 (node_agreeb_spec s1 s2 _ _) Hb t1 t2); auto.
  - intro Hall.
    apply forallb_forall. intros s1 H1. apply forallb_forall. intros s2 H2.
    apply forallb_forall. intros n1 Hn1. apply forallb_forall. intros n2 Hn2.
    apply node_agreeb_spec. intros t1 t2 -> -> El Ec. apply (Hall s1 s2 t1 t2); auto.
Qed.

Lemma nodup_strb_spec l : nodup_strb l = true <-> NoDup l.
Proof.
  induction l as [|x l IH]; cbn [nodup_strb].
  - split; [intros _; constructor | reflexivity].
  - rewrite andb_true_iff, negb_true_iff, IH. split.
    + intros [Hx Hl]. constructor; [|exact Hl]. intro Hin. apply str_in_spec in Hin. congruence.
    + intro Hnd. inversion Hnd as [|? ? Hx Hl]; subst. split; [|exact Hl].
      destruct (str_in x l) eqn:E; [|reflexivity]. apply str_in_spec in E. contradiction.
Qed.

Lemma labels_uniqueb_spec s : labels_uniqueb s = true <-> labels_unique s.
Proof. apply nodup_strb_spec. Qed.

Lemma forallb_Forall {A} (f : A -> bool) (P : A -> Prop) :
  (forall x, f x = true <-> P x) -> forall l, forallb f l = true <-> Forall P l.
Proof.
  intros Hspec l. rewrite forallb_forall, Forall_forall.
  split; intros Hall x Hx; apply Hspec; apply Hall; exact Hx.
Qed.

Lemma comma_free_spec p : comma_free p = true <-> ~ In ch_comma p.
Proof. unfold comma_free. rewrite negb_true_iff. apply mem_ch_false. Qed.

Lemma outdefs_comma_freeb_spec s : outdefs_comma_freeb s = true <-> outdefs_comma_free s.
Proof.
  unfold outdefs_comma_freeb, outdefs_comma_free. rewrite forallb_forall. split.
  - intros Hb t Hin Hnc o Ho. specialize (Hb _ Hin). cbn [node_comma_free] in Hb.
    rewrite Hnc in Hb. cbn [negb orb] in Hb. rewrite forallb_forall in Hb.
    apply comma_free_spec. apply Hb. exact Ho.
  - intros Hall [t|l a] Hin; [|reflexivity]. cbn [node_comma_free].
    destruct (td_nocache t) eqn:Hnc; [|reflexivity]. cbn [negb orb].
    apply forallb_forall. intros o Ho. apply comma_free_spec. exact (Hall t Hin Hnc o Ho).
Qed.

Theorem snaps_okb_spec V :
  snaps_okb V = true <-> cmd_faithful V /\ Forall labels_unique V /\ Forall outdefs_comma_free V.
Proof.
  unfold snaps_okb. rewrite !andb_true_iff, cmd_faithfulb_spec,
    (forallb_Forall labels_uniqueb labels_unique labels_uniqueb_spec),
    (forallb_Forall outdefs_comma_freeb outdefs_comma_free outdefs_comma_freeb_spec). tauto.
Qed.

(* ================================================================== splitting at the last separator *)
Lemma last_split_eq c (a b a' b' : str) :
  ~ In c b -> ~ In c b' -> a ++ c :: b = a' ++ c :: b' -> a = a' /\ b = b'.
Proof.
  intros Hb Hb' E.
  assert (Eb : b = b').
  { rewrite <- (after_last_app c a b Hb), <- (after_last_app c a' b' Hb'), E. reflexivity. }
  subst b'. split; [|reflexivity]. apply (app_inv_tail (c :: b)). exact E.
Qed.

Lemma first_split_eq c (a b a' b' : str) :
  ~ In c a -> ~ In c a' -> a ++ c :: b = a' ++ c :: b' -> a = a' /\ b = b'.
Proof.
  intros Ha Ha' E. pose proof (split_first_app c a b Ha) as S1. rewrite E in S1.
  rewrite (split_first_app c a' b' Ha') in S1. inversion S1. auto.
Qed.

(* strings.Join *)
Lemma join_in sep : forall (l : list str) x c, In x l -> In c x -> In c (join sep l).
Proof.
  induction l as [|y l IH]; intros x c Hx Hc; [destruct Hx|].
  destruct l as [|z l].
  - destruct Hx as [->|[]]. exact Hc.
  - change (join sep (y :: z :: l)) with (y ++ sep ++ join sep (z :: l)).
    destruct Hx as [->|Hx].
    + apply in_or_app. left. exact Hc.
    + apply in_or_app. right. apply in_or_app. right. exact (IH x c Hx Hc).
Qed.

(* comma-free strings joined with ',' decode uniquely (the number of strings being known) *)
Lemma join_comma_inj : forall l l' : list str, length l = length l' ->
  (forall x, In x l -> ~ In ch_comma x) -> (forall x, In x l' -> ~ In ch_comma x) ->
  join comma l = join comma l' -> l = l'.
Proof.
  induction l as [|x l IH]; intros [|y l'] Hlen Hl Hl' E; try discriminate Hlen; [reflexivity|].
  destruct l as [|x2 l]; destruct l' as [|y2 l']; try discriminate Hlen.
  - cbn [join] in E. subst. reflexivity.
  - change (x ++ ch_comma :: join comma (x2 :: l) = y ++ ch_comma :: join comma (y2 :: l')) in E.
    apply first_split_eq in E; [|apply Hl; left; reflexivity | apply Hl'; left; reflexivity].
    destruct E as [-> E]. f_equal. apply IH.
    + cbn [length] in Hlen |- *. lia.
    + intros z Hz. apply Hl. right. exact Hz.
    + intros z Hz. apply Hl'. right. exact Hz.
    + exact E.
Qed.

(* print_label decodes for names without ':' (validateName rejects ':') *)
Lemma print_label_inj l l' :
  ~ In ch_colon (lname l) -> ~ In ch_colon (lname l') -> print_label l = print_label l' -> l = l'.
Proof.
  destruct l as [p n], l' as [p' n']. unfold print_label. cbn [lpkg lname]. intros Hn Hn' E.
  apply app_inv_head in E. apply last_split_eq in E; [|assumption|assumption].
  destruct E as [-> ->]. reflexivity.
Qed.

Lemma labels_unique_of_names s :
  NoDup (map node_label (s_nodes s)) ->
  (forall n, In n (s_nodes s) -> ~ In ch_colon (lname (node_label n))) ->
  labels_unique s.
Proof.
  unfold labels_unique. induction (s_nodes s) as [|n l IH]; cbn [map]; intros Hnd Hnames; [constructor|].
  inversion Hnd as [|? ? Hx Hl]; subst. constructor.
  - intro Hin. apply in_map_iff in Hin. destruct Hin as (n' & E & Hn'). apply Hx.
    unfold printed in E. apply print_label_inj in E.
    + rewrite <- E. apply in_map. exact Hn'.
    + apply Hnames. right. exact Hn'.
    + apply Hnames. left. reflexivity.
  - apply IH; [exact Hl|]. intros n' Hn'. apply Hnames. right. exact Hn'.
Qed.

(* ================================================================== the digest: hex-only, prefix-free *)
Section Digest.
Variable H : str -> str.
Hypothesis H_inj : forall a b, H a = H b -> a = b.
Hypothesis H_hex : forall x c, In c (H x) -> is_hex c = true.
Hypothesis H_pf : forall x y p, H y = H x ++ p -> p = [].

Lemma H_not_hex c x : is_hex c = false -> ~ In c (H x).
Proof. intros Hc Hin. rewrite (H_hex x c Hin) in Hc. discriminate Hc. Qed.

Lemma H_no_us x : ~ In ch_us (H x).
Proof. apply H_not_hex. reflexivity. Qed.
Lemma H_no_eq x : ~ In ch_eq (H x).
Proof. apply H_not_hex. reflexivity. Qed.
Lemma H_no_bar x : ~ In "|"%char (H x).
Proof. apply H_not_hex. reflexivity. Qed.
Lemma H_no_comma x : ~ In ch_comma (H x).
Proof. apply H_not_hex. reflexivity. Qed.

(* a change key is hex digits and at most one '_' *)
Lemma key_no_eq fs st : ~ In ch_eq (change_key H fs st).
Proof.
  unfold change_key. destruct (no_inputs st); [apply H_no_eq|].
  intro Hin. apply in_app_or in Hin. destruct Hin as [Hin|[Hin|Hin]].
  - exact (H_no_eq _ Hin).
  - discriminate Hin.
  - exact (H_no_eq _ Hin).
Qed.

(* digests written back to back decode uniquely *)
Lemma concat_digests_inj : forall l l' : list str, length l = length l' ->
  concat (map H l) = concat (map H l') -> l = l'.
Proof.
  induction l as [|a l IH]; intros [|b l'] Hlen E; try discriminate Hlen; [reflexivity|].
  cbn [map concat] in E.
  assert (Eab : H a = H b).
  { destruct (app_eq_app _ _ _ _ E) as [p [[E1 _]|[E1 _]]].
    - pose proof (H_pf _ _ _ E1) as Hp. subst p. rewrite app_nil_r in E1. exact E1.
    - pose proof (H_pf _ _ _ E1) as Hp. subst p. rewrite app_nil_r in E1. symmetry. exact E1. }
  rewrite Eab in E. apply app_inv_head in E. apply H_inj in Eab. subst b.
  f_equal. apply IH; [|exact E]. cbn [length] in Hlen. lia.
Qed.

(* the output hash of a target with outputs determines the multiset of marshalled outputs *)
Lemma output_hash_inj m m' : length m = length m' -> m <> [] ->
  output_hash H m = output_hash H m' -> Permutation m m'.
Proof.
  intros Hlen Hne E. unfold output_hash in E.
  destruct m as [|a m]; [congruence|]. destruct m' as [|a' m']; [discriminate Hlen|].
  apply H_inj in E.
  destruct (Permutation_map_inv H (a :: m) (sort_strs_perm (map H (a :: m)))) as (n & En & Pn).
  destruct (Permutation_map_inv H (a' :: m') (sort_strs_perm (map H (a' :: m')))) as (n' & En' & Pn').
  rewrite En, En' in E. apply concat_digests_inj in E.
  - subst n'. eapply perm_trans; [exact Pn | apply Permutation_sym; exact Pn'].
  - rewrite <- (Permutation_length Pn), <- (Permutation_length Pn'). exact Hlen.
Qed.

(* ------------------------------------------------------------------ the no-cache output hash decodes *)
(* the no-cache output hash determines the multiset of its "<definition>=<digest>" items, provided no
   item contains the separator ',' ([nocache_hash_needs_comma_free] below: the proviso is needed) *)
Lemma nocache_hash_inj (l l' : list (str * str)) : length l = length l' ->
  (forall e, In e l -> ~ In ch_comma (nocache_item e)) ->
  (forall e, In e l' -> ~ In ch_comma (nocache_item e)) ->
  nocache_output_hash H l = nocache_output_hash H l' ->
  Permutation (map nocache_item l) (map nocache_item l').
Proof.
  intros Hlen Hc Hc' E. unfold nocache_output_hash in E. apply H_inj in E.
  apply join_comma_inj in E.
  - apply sort_strs_eq_perm. exact E.
  - rewrite (Permutation_length (sort_strs_perm (map nocache_item l))),
      (Permutation_length (sort_strs_perm (map nocache_item l'))), !map_length. exact Hlen.
  - intros x Hx. apply (Permutation_in _ (sort_strs_perm _)) in Hx. apply in_map_iff in Hx.
    destruct Hx as (e & <- & He). apply Hc. exact He.
  - intros x Hx. apply (Permutation_in _ (sort_strs_perm _)) in Hx. apply in_map_iff in Hx.
    destruct Hx as (e & <- & He). apply Hc'. exact He.
Qed.

(* a no-cache output hash (digest of a text with a '=' in it) is never the output hash of a cacheable
   target with outputs (digest of hex digits): a dependency whose no-cache tag differs between two
   snapshots contributes differently *)
Lemma nocache_hash_not_output_hash (l : list (str * str)) (m : list str) : l <> [] -> m <> [] ->
  nocache_output_hash H l <> output_hash H m.
Proof.
  intros Hl Hm E. unfold nocache_output_hash, output_hash in E.
  destruct m as [|a m]; [congruence|]. destruct l as [|e l]; [congruence|]. apply H_inj in E.
  assert (Hin : In ch_eq (join comma (sort_strs (map nocache_item (e :: l))))).
  { apply (join_in comma _ (nocache_item e)).
    - apply (Permutation_in _ (Permutation_sym (sort_strs_perm _))). left. reflexivity.
    - unfold nocache_item. apply in_or_app. right. left. reflexivity. }
  rewrite E in Hin. apply in_concat in Hin. destruct Hin as (x & Hx & Hc).
  apply (Permutation_in _ (sort_strs_perm _)) in Hx. apply in_map_iff in Hx.
  destruct Hx as (y & <- & _). exact (H_no_eq _ Hc).
Qed.

(* ================================================================== dependencies and their ideal data *)
Lemma resolve_alias_target s : forall f i j t,
  resolve_alias f s i = Some (j, t) -> node_at s j = Some (NTarget t).
Proof.
  induction f as [|f IH]; intros i j t Hr; cbn [resolve_alias] in Hr; [discriminate Hr|].
  destruct (node_at s i) as [[t0|l a]|] eqn:En; [| |discriminate Hr].
  - inversion Hr; subst. exact En.
  - apply (IH a). exact Hr.
Qed.

Lemma resolve_target s i j t : resolve s i = Some (j, t) -> node_at s j = Some (NTarget t).
Proof. apply resolve_alias_target. Qed.

(* dependency d of a target of s resolves to the target [fst e] whose entry in acc is [snd e] *)
Definition dep_at (s : sources) (acc : list (option idata)) (d : nat) (e : tdef * idata) : Prop :=
  exists j, resolve s d = Some (j, fst e) /\ nth j acc None = Some (snd e).

Lemma ideal_deps_Forall2 s acc : forall ds deps,
  ideal_deps s acc ds = Some deps -> Forall2 (dep_at s acc) ds deps.
Proof.
  induction ds as [|d ds IH]; intros deps Hd; cbn [ideal_deps] in Hd.
  - inversion Hd; subst. constructor.
  - destruct (resolve s d) as [[j dt]|] eqn:Er; [|discriminate Hd].
    destruct (nth j acc None) as [dj|] eqn:En; [|discriminate Hd].
    destruct (ideal_deps s acc ds) as [rest|] eqn:Ei; [|discriminate Hd].
    destruct (null (i_ohash dj)); [discriminate Hd|]. inversion Hd; subst.
    constructor; [|apply IH; reflexivity]. exists j. split; [exact Er | exact En].
Qed.

(* same position, same label, same declared outputs *)
Definition shape_rel (e1 e2 : tdef * idata) : Prop :=
  td_label (fst e1) = td_label (fst e2) /\ td_outs (fst e1) = td_outs (fst e2).

Definition shape_of (s : sources) (d : nat) : shape_entry :=
  match resolve s d with
  | Some (_, dt) => Some (td_label dt, td_outs dt)
  | None => None
  end.

Lemma dep_shape_map s t : dep_shape s t = map (shape_of s) (td_deps t).
Proof. reflexivity. Qed.

Lemma shape_Forall2 s1 acc1 s2 acc2 : forall ds1 deps1 ds2 deps2,
  Forall2 (dep_at s1 acc1) ds1 deps1 -> Forall2 (dep_at s2 acc2) ds2 deps2 ->
  map (shape_of s1) ds1 = map (shape_of s2) ds2 -> Forall2 shape_rel deps1 deps2.
Proof.
  intros ds1 deps1 ds2 deps2 F1. revert ds2 deps2.
  induction F1 as [|d1 e1 ds1 deps1 Hd1 F1 IH]; intros ds2 deps2 F2 E.
  - destruct ds2 as [|d2 ds2]; [|discriminate E]. inversion F2; subst. constructor.
  - destruct ds2 as [|d2 ds2]; [discriminate E|].
    inversion F2 as [|? e2 ? deps2' Hd2 F2']; subst. cbn [map] in E. inversion E as [[E0 E']].
    constructor; [|apply (IH ds2); assumption].
    destruct Hd1 as (j1 & Hr1 & _), Hd2 as (j2 & Hr2 & _).
    unfold shape_of in E0. rewrite Hr1, Hr2 in E0. inversion E0. split; assumption.
Qed.

(* ------------------------------------------------------------------ what an entry of a dependency is *)
Lemma content_of_k s t k o reads : content_of s t k o reads = content_of s t 0 o reads.
Proof. reflexivity. Qed.

Lemma ideal_outs_in s t reads : forall outs k o c,
  In (o, c) (ideal_outs s t k outs reads) <-> In o outs /\ c = content_of s t 0 o reads.
Proof.
  induction outs as [|o0 outs IH]; intros k o c; cbn [ideal_outs In].
  - tauto.
  - rewrite IH, (content_of_k s t k o0 reads). split.
    + intros [E|[Hin ->]]; [inversion E; subst; auto | auto].
    + intros [[->|Hin] ->]; [left; reflexivity | right; auto].
Qed.

(* entry e is the ideal data of a target node of s below index i *)
Definition entry_ok (s : sources) (i : nat) (e : tdef * idata) : Prop :=
  exists j, j < i /\ node_at s j = Some (NTarget (fst e)) /\
    ideal_target H s (ideal_upto H s j) (fst e) = Some (snd e) /\
    nth j (ideal_upto H s i) None = Some (snd e).

Lemma dep_at_entry s i d e : dep_at s (ideal_upto H s i) d e -> entry_ok s i e.
Proof.
  intros (j & Hr & Hn). apply resolve_target in Hr.
  assert (Hj : j < i).
  { rewrite <- (ideal_upto_length H s i). apply (nth_error_nth_None _ _ _ Hn). }
  exists j. split; [exact Hj|]. split; [exact Hr|]. split; [|exact Hn].
  rewrite (ideal_upto_nth H s i j Hj), Hr in Hn. exact Hn.
Qed.

Lemma entry_outs s i e : entry_ok s i e ->
  exists reads, i_outs (snd e) = ideal_outs s (fst e) 0 (td_outs (fst e)) reads.
Proof.
  intros (j & _ & _ & Ht & _). destruct (ideal_target_some H H_inj _ _ _ _ Ht) as (deps & _ & _ & _ & Eo & _).
  eexists. exact Eo.
Qed.

Lemma entry_fst s i e : entry_ok s i e -> map fst (i_outs (snd e)) = td_outs (fst e).
Proof. intro He. destruct (entry_outs s i e He) as [reads ->]. apply ideal_outs_fst. Qed.

Lemma entry_fun s i e o c c' : entry_ok s i e ->
  In (o, c) (i_outs (snd e)) -> In (o, c') (i_outs (snd e)) -> c = c'.
Proof.
  intro He. destruct (entry_outs s i e He) as [reads ->]. rewrite !ideal_outs_in.
  intros [_ ->] [_ ->]. reflexivity.
Qed.

Lemma entry_ohash s i e : entry_ok s i e ->
  i_ohash (snd e) = ideal_ohash H (fst e) (i_key (snd e)) (i_outs (snd e)) /\
  exists fs st, i_key (snd e) = change_key H fs st.
Proof.
  intros (j & _ & _ & Ht & _). destruct (ideal_target_some H H_inj _ _ _ _ Ht) as (deps & _ & _ & Ek & _ & Eh).
  split; [exact Eh|]. unfold ideal_key in Ek. eexists. eexists. exact Ek.
Qed.

(* the output hash of an entry is hex digits and '_' only: a contribution splits at its LAST '=' *)
Lemma output_hash_no_eq m : ~ In ch_eq (output_hash H m).
Proof. unfold output_hash. destruct m as [|a m]; [intros [] | apply H_no_eq]. Qed.

Lemma entry_ohash_no_eq s i e : entry_ok s i e -> ~ In ch_eq (i_ohash (snd e)).
Proof.
  intro He. destruct (entry_ohash s i e He) as (Eh & fs & st & Ek). rewrite Eh.
  unfold ideal_ohash. destruct (td_nocache (fst e)); [apply H_no_eq|].
  destruct (td_outs (fst e)); [|apply output_hash_no_eq].
  rewrite Ek. apply key_no_eq.
Qed.

(* ------------------------------------------------------------------ marshalled outputs decode *)
Lemma out_digest_no_bar o c : ~ In "|"%char (out_digest H o c).
Proof. unfold out_digest. destruct (o_kind o); apply H_no_bar. Qed.

Lemma ser_entry_inj o c o' c' :
  ser_entry H (o, c) = ser_entry H (o', c') -> o = o' /\ out_digest H o c = out_digest H o' c'.
Proof.
  unfold ser_entry, ser_out. cbn [fst snd app]. intro E.
  apply last_split_eq in E; [|apply out_digest_no_bar|apply out_digest_no_bar].
  destruct E as [Eo Ed]. apply out_def_inj in Eo. split; assumption.
Qed.

Lemma pairs_eq {A B} : forall l1 l2 : list (A * B),
  map fst l1 = map fst l2 ->
  (forall a b b', In (a, b) l1 -> In (a, b') l2 -> b = b') -> l1 = l2.
Proof.
  induction l1 as [|[a b] l1 IH]; intros [|[a' b'] l2] Ef Hall; try discriminate Ef; [reflexivity|].
  cbn [map fst] in Ef. inversion Ef as [[Ea Ef']]. subst a'.
  assert (Eb : b = b') by (apply (Hall a); left; reflexivity). subst b'.
  f_equal. apply IH; [exact Ef'|]. intros x y y' H1 H2. apply (Hall x); right; assumption.
Qed.

(* the items of a no-cache target's output hash are comma-free when its output paths are *)
Lemma out_def_comma o : In ch_comma (out_def o) -> In ch_comma (o_path o).
Proof.
  unfold out_def. intro Hin. apply in_app_or in Hin. destruct Hin as [Hin|Hin]; [|exact Hin].
  exfalso. destruct (o_kind o); cbn in Hin; intuition discriminate.
Qed.

Lemma item_comma_free o c : ~ In ch_comma (o_path o) -> ~ In ch_comma (nocache_item (out_pair H (o, c))).
Proof.
  intros Hp Hin. unfold nocache_item, out_pair in Hin. cbn [fst snd] in Hin.
  apply in_app_or in Hin. destruct Hin as [Hin|[Hin|Hin]].
  - exact (Hp (out_def_comma o Hin)).
  - discriminate Hin.
  - unfold out_digest in Hin. destruct (o_kind o); exact (H_no_comma _ Hin).
Qed.

Lemma out_digest_no_eq o c : ~ In ch_eq (out_digest H o c).
Proof. unfold out_digest. destruct (o_kind o); apply H_no_eq. Qed.

Lemma entry_items_comma_free s i e : outdefs_comma_free s -> entry_ok s i e ->
  td_nocache (fst e) = true ->
  forall x, In x (map (out_pair H) (i_outs (snd e))) -> ~ In ch_comma (nocache_item x).
Proof.
  intros Hcf He Hnc x Hx. apply in_map_iff in Hx. destruct Hx as ([o c] & <- & Hin).
  apply item_comma_free. pose proof (entry_fst s i e He) as F.
  destruct He as (j & _ & Hn & _). apply (Hcf (fst e)); [|exact Hnc|].
  - apply (nth_error_In _ j). exact Hn.
  - rewrite <- F. apply (in_map fst) in Hin. exact Hin.
Qed.

(* two dependencies with one label, one list of declared outputs and one output hash hold the
   same bytes at every declared output (whether or not they are no-cache; a dependency that is
   no-cache in one snapshot and cacheable in the other cannot have one output hash in both) *)
Lemma dep_outs_eq s1 i1 e1 s2 i2 e2 :
  outdefs_comma_free s1 -> outdefs_comma_free s2 ->
  entry_ok s1 i1 e1 -> entry_ok s2 i2 e2 -> shape_rel e1 e2 ->
  i_ohash (snd e1) = i_ohash (snd e2) -> i_outs (snd e1) = i_outs (snd e2).
Proof.
  intros C1 C2 He1 He2 [_ Eo] Eh.
  pose proof (entry_fst _ _ _ He1) as F1. pose proof (entry_fst _ _ _ He2) as F2.
  assert (Ef : map fst (i_outs (snd e1)) = map fst (i_outs (snd e2))) by congruence.
  apply pairs_eq; [exact Ef|]. intros o c c' Hin1 Hin2.
  destruct (entry_ohash _ _ _ He1) as [Eh1 _]. destruct (entry_ohash _ _ _ He2) as [Eh2 _].
  rewrite Eh1, Eh2 in Eh. unfold ideal_ohash in Eh. rewrite <- Eo in Eh.
  assert (Hlen : length (i_outs (snd e1)) = length (i_outs (snd e2))).
  { rewrite <- (map_length fst (i_outs (snd e1))), Ef, map_length. reflexivity. }
  assert (Hne1 : i_outs (snd e1) <> []) by (intro En; rewrite En in Hin1; destruct Hin1).
  assert (Hne2 : i_outs (snd e2) <> []) by (intro En; rewrite En in Hin2; destruct Hin2).
  destruct (td_outs (fst e1)) as [|o0 outs] eqn:Eouts.
  { destruct (i_outs (snd e1)); [destruct Hin1 | discriminate F1]. }
  destruct (td_nocache (fst e1)) eqn:N1; destruct (td_nocache (fst e2)) eqn:N2.
  - apply nocache_hash_inj in Eh.
    + assert (Hs : In (nocache_item (out_pair H (o, c)))
                      (map nocache_item (map (out_pair H) (i_outs (snd e2))))).
      { apply (Permutation_in _ Eh). apply in_map. apply (in_map (out_pair H)) in Hin1. exact Hin1. }
      apply in_map_iff in Hs. destruct Hs as (x & Es & Hx).
      apply in_map_iff in Hx. destruct Hx as ([o'' c''] & <- & Hin'').
      unfold out_pair in Es. cbn [fst snd] in Es.
      apply nocache_item_inj in Es; [|apply out_digest_no_eq|apply out_digest_no_eq].
      destruct Es as [Eo'' Ed]. apply out_def_inj in Eo''. subst o''.
      apply (out_digest_inj H H_inj) in Ed. subst c''.
      exact (entry_fun _ _ _ _ _ _ He2 Hin'' Hin2).
    + rewrite !map_length. exact Hlen.
    + exact (entry_items_comma_free s1 i1 e1 C1 He1 N1).
    + exact (entry_items_comma_free s2 i2 e2 C2 He2 N2).
  - exfalso. apply nocache_hash_not_output_hash in Eh; [exact Eh| |].
    + intro En. apply map_eq_nil in En. exact (Hne1 En).
    + intro En. apply map_eq_nil in En. exact (Hne2 En).
  - exfalso. symmetry in Eh. apply nocache_hash_not_output_hash in Eh; [exact Eh| |].
    + intro En. apply map_eq_nil in En. exact (Hne2 En).
    + intro En. apply map_eq_nil in En. exact (Hne1 En).
  - apply output_hash_inj in Eh.
    + assert (Hs : In (ser_entry H (o, c)) (map (ser_entry H) (i_outs (snd e2)))).
      { apply (Permutation_in _ Eh). apply (in_map (ser_entry H)) in Hin1. exact Hin1. }
      apply in_map_iff in Hs. destruct Hs as ([o'' c''] & Es & Hin'').
      apply ser_entry_inj in Es. destruct Es as [-> Ed]. apply (out_digest_inj H H_inj) in Ed. subst c''.
      exact (entry_fun _ _ _ _ _ _ He2 Hin'' Hin2).
    + rewrite !map_length. exact Hlen.
    + intro En. apply map_eq_nil in En. exact (Hne1 En).
Qed.

Lemma ideal_parts_of_label dt1 dt2 : td_label dt1 = td_label dt2 ->
  forall l, ideal_parts_of dt1 l = ideal_parts_of dt2 l.
Proof.
  intros El l. induction l as [|[o c] l IH]; [reflexivity|].
  cbn [ideal_parts_of]. rewrite IH. unfold out_path, pkg_of. rewrite El. reflexivity.
Qed.

(* ------------------------------------------------------------------ unique printed labels *)
Lemma unique_printed s j j' t t' : labels_unique s ->
  node_at s j = Some (NTarget t) -> node_at s j' = Some (NTarget t') ->
  print_label (td_label t) = print_label (td_label t') -> j = j'.
Proof.
  unfold labels_unique, node_at. intros Hnd Hj Hj' E.
  apply (proj1 (NoDup_nth_error _) Hnd).
  - apply nth_error_Some. rewrite (map_nth_error printed _ _ Hj). discriminate.
  - rewrite (map_nth_error printed _ _ Hj), (map_nth_error printed _ _ Hj').
    unfold printed. cbn [node_label]. rewrite E. reflexivity.
Qed.

(* ------------------------------------------------------------------ equal contributions, equal reads *)
Definition contrib (e : tdef * idata) : str := dep_contrib (fst e) (i_ohash (snd e)).

Section Reads.
Variables (s1 s2 : sources) (i1 i2 : nat) (deps1 deps2 : list (tdef * idata)).
Hypothesis A1 : forall e, In e deps1 -> entry_ok s1 i1 e.
Hypothesis A2 : forall e, In e deps2 -> entry_ok s2 i2 e.
Hypothesis U2 : labels_unique s2.
Hypothesis CF1 : outdefs_comma_free s1.
Hypothesis CF2 : outdefs_comma_free s2.
Hypothesis P : Permutation (map contrib deps1) (map contrib deps2).

(* the dependencies at one position have the same output hash *)
Lemma ohash_pos e1 e2 : In e1 deps1 -> In e2 deps2 -> shape_rel e1 e2 ->
  i_ohash (snd e1) = i_ohash (snd e2).
Proof.
  intros H1 H2 [El _].
  assert (Hc : In (contrib e1) (map contrib deps2)).
  { apply (Permutation_in _ P). apply in_map. exact H1. }
  apply in_map_iff in Hc. destruct Hc as (e & Ec & He).
  unfold contrib, dep_contrib in Ec.
  apply last_split_eq in Ec;
    [|apply (entry_ohash_no_eq s2 i2 e (A2 e He))|apply (entry_ohash_no_eq s1 i1 e1 (A1 e1 H1))].
  destruct Ec as [Ep Eh]. rewrite <- Eh. rewrite El in Ep.
  destruct (A2 e He) as (j & _ & Hn & _ & Hd). destruct (A2 e2 H2) as (j' & _ & Hn' & _ & Hd').
  assert (Ej : j = j') by exact (unique_printed s2 j j' _ _ U2 Hn Hn' Ep). subst j'.
  rewrite Hd in Hd'. inversion Hd' as [Es]. reflexivity.
Qed.

Lemma reads_eq_gen : forall l1 l2, Forall2 shape_rel l1 l2 -> incl l1 deps1 -> incl l2 deps2 ->
  ideal_reads l1 = ideal_reads l2.
Proof.
  intros l1 l2 F. induction F as [|e1 e2 l1 l2 Hr F IH]; intros I1 I2; [reflexivity|].
  assert (H1 : In e1 deps1) by (apply I1; left; reflexivity).
  assert (H2 : In e2 deps2) by (apply I2; left; reflexivity).
  pose proof (dep_outs_eq s1 i1 e1 s2 i2 e2 CF1 CF2 (A1 e1 H1) (A2 e2 H2) Hr (ohash_pos e1 e2 H1 H2 Hr)) as Eo.
  destruct e1 as [dt1 dj1], e2 as [dt2 dj2]. cbn [fst snd] in Eo. cbn [ideal_reads].
  rewrite Eo, (ideal_parts_of_label dt1 dt2 (proj1 Hr)). f_equal.
  apply IH; intros x Hx; [apply I1 | apply I2]; right; exact Hx.
Qed.

Lemma reads_eq : Forall2 shape_rel deps1 deps2 -> ideal_reads deps1 = ideal_reads deps2.
Proof. intro F. apply reads_eq_gen; [exact F | apply incl_refl | apply incl_refl]. Qed.
End Reads.

(* ================================================================== the bridge *)
Lemma Forall2_entries s i : forall ds deps,
  Forall2 (dep_at s (ideal_upto H s i)) ds deps -> forall e, In e deps -> entry_ok s i e.
Proof.
  intros ds deps F. induction F as [|d e0 ds deps Hd F IH]; intros e Hin; [destruct Hin|].
  destruct Hin as [<-|Hin]; [exact (dep_at_entry s i d e0 Hd) | apply IH; exact Hin].
Qed.

Lemma inputs_eq s1 t1 s2 t2 :
  Permutation (td_ins t1) (td_ins t2) ->
  (forall p, In p (td_ins t1) -> pkg_fs s1 t1 p = pkg_fs s2 t2 p) ->
  concat (map (input_part s1 t1) (sort_strs (td_ins t1))) =
  concat (map (input_part s2 t2) (sort_strs (td_ins t2))).
Proof.
  intros Pi Ff. rewrite <- (sort_strs_canonical _ _ Pi). f_equal. apply map_ext_in. intros p Hp.
  assert (E : alookup (full_path (pkg_of t1) p) (s_files s1) =
              alookup (full_path (pkg_of t2) p) (s_files s2)).
  { apply (Ff p). apply (Permutation_in _ (sort_strs_perm _)). exact Hp. }
  unfold input_part. rewrite E. reflexivity.
Qed.

Lemma content_eq s1 t1 s2 t2 o reads :
  td_label t1 = td_label t2 -> td_salt t1 = td_salt t2 ->
  Permutation (td_ins t1) (td_ins t2) ->
  (forall p, In p (td_ins t1) -> pkg_fs s1 t1 p = pkg_fs s2 t2 p) ->
  content_of s1 t1 0 o reads = content_of s2 t2 0 o reads.
Proof.
  intros El Es Pi Ff. unfold content_of. rewrite El, Es, (inputs_eq s1 t1 s2 t2 Pi Ff). reflexivity.
Qed.

Lemma out_defs_perm_in l1 l2 o :
  Permutation (map out_def l1) (map out_def l2) -> In o l1 -> In o l2.
Proof.
  intros Po Hin. apply (in_map out_def) in Hin. apply (Permutation_in _ Po) in Hin.
  apply in_map_iff in Hin. destruct Hin as (o' & E & Hin). apply out_def_inj in E. subst o'. exact Hin.
Qed.

(* C09's injectivity + the structural guard give C01's abstract guard *)
Theorem key_faithful_of_cmd_faithful V :
  Forall labels_unique V -> Forall outdefs_comma_free V -> cmd_faithful V -> key_faithful H V.
Proof.
  intros HU HCF HC s1 s2 j1 j2 k d2 Hs1 Hs2 Hk [t2 Ht2] Hd2 Hkeq.
  unfold ideal_key_at in Hk. destruct (node_at s1 j1) as [[t1|l1 a1]|] eqn:Ht1; try discriminate Hk.
  unfold ideal_key_of in Hk.
  destruct (ideal_deps s1 (ideal_upto H s1 j1) (td_deps t1)) as [deps1|] eqn:Ed1; [|discriminate Hk].
  inversion Hk as [Hk']; clear Hk.
  rewrite (ideal_nth H s2 j2 _ Ht2) in Hd2. cbn [ideal_entry] in Hd2.
  destruct (ideal_target_some H H_inj _ _ _ _ Hd2) as (deps2 & Ed2 & Eb2 & Ek2 & Eo2 & _).
  rewrite Ek2, <- Hk' in Hkeq. symmetry in Hkeq. unfold ideal_key in Hkeq.
  apply (key_injective H H_inj H_no_us) in Hkeq.
  destruct Hkeq as (El & Ec & Pi & Po & Pd & _ & _ & Ff).
  cbn [state_of ts_label ts_cmd ts_ins ts_outs ts_deps] in El, Ec, Pi, Po, Pd, Ff.
  assert (Hin1 : In (NTarget t1) (s_nodes s1)) by (apply (nth_error_In _ j1); exact Ht1).
  assert (Hin2 : In (NTarget t2) (s_nodes s2)) by (apply (nth_error_In _ j2); exact Ht2).
  destruct (HC s1 s2 t1 t2 Hs1 Hs2 Hin1 Hin2 El Ec) as (Esalt & Ebeh & Echk & Esh & Enc).
  pose proof (ideal_deps_Forall2 _ _ _ _ Ed1) as F1. pose proof (ideal_deps_Forall2 _ _ _ _ Ed2) as F2.
  assert (Er : ideal_reads deps1 = ideal_reads deps2).
  { apply (reads_eq s1 s2 j1 j2 deps1 deps2).
    - exact (Forall2_entries s1 j1 _ _ F1).
    - exact (Forall2_entries s2 j2 _ _ F2).
    - rewrite Forall_forall in HU. apply HU. exact Hs2.
    - rewrite Forall_forall in HCF. apply HCF. exact Hs1.
    - rewrite Forall_forall in HCF. apply HCF. exact Hs2.
    - exact Pd.
    - apply (shape_Forall2 s1 _ s2 _ _ _ _ _ F1 F2). exact Esh. }
  assert (Hb1 : beh_ok t1 = true).
  { assert (Hlen : length (td_outs t1) = length (td_outs t2)).
    { rewrite <- (map_length out_def (td_outs t1)), <- (map_length out_def (td_outs t2)).
      apply Permutation_length. exact Po. }
    unfold beh_ok in Eb2 |- *. rewrite Ebeh, Echk, Hlen. exact Eb2. }
  destruct (ideal_target_of_deps H H_inj s1 _ t1 deps1 Ed1 Hb1) as (d1 & Hd1 & _ & Eo1 & _).
  exists d1. split; [|split].
  - rewrite (ideal_nth H s1 j1 _ Ht1). exact Hd1.
  - intros o c. rewrite Eo1, Eo2, !ideal_outs_in, Er,
      (content_eq s1 t1 s2 t2 o (ideal_reads deps2) El Esalt Pi Ff).
    split; intros [Hin ->]; (split; [|reflexivity]).
    + exact (out_defs_perm_in _ _ o Po Hin).
    + exact (out_defs_perm_in _ _ o (Permutation_sym Po) Hin).
  - rewrite (ideal_target_nc H _ _ _ _ Hd1), (ideal_target_nc H _ _ _ _ Hd2). exact Enc.
Qed.

(* ================================================================== histories: no abstract guard left *)
Theorem hist_ok_of_cmd_faithful ops :
  Forall op_ok ops -> Forall labels_unique (snaps ops) -> Forall outdefs_comma_free (snaps ops) ->
  cmd_faithful (snaps ops) -> hist_ok H ops.
Proof.
  intros Hops HU HCF HC. split; [exact Hops|]. apply key_faithful_of_cmd_faithful; assumption.
Qed.

Theorem hist_ok_of_structure ops :
  Forall op_ok ops -> snaps_okb (snaps ops) = true -> hist_ok H ops.
Proof.
  intros Hops Hb. apply snaps_okb_spec in Hb. destruct Hb as (HC & HU & HCF).
  apply hist_ok_of_cmd_faithful; assumption.
Qed.

(* the C01 theorems with the structural (boolean) guard *)
Theorem kf_build_ideal ops cfg roots :
  Forall op_ok ops -> snaps_okb (snaps ops) = true -> cfg_ok cfg ->
  let y := run_history H ops in
  let r := build H cfg (sy_src y) roots (sy_world y) (sy_cache y) in
  forall i t, node_at (sy_src y) i = Some (NTarget t) ->
    nth i (br_status r) TNone = THit \/ nth i (br_status r) TNone = TExecuted ->
    exists d, nth i (ideal H (sy_src y)) None = Some d /\ map fst (i_outs d) = td_outs t /\
      forall o x, In (o, x) (i_outs d) -> ws_get (out_path t o) (w_ws (br_world r)) = PFile x.
Proof.
  intros Hops Hb Hcfg.
  exact (c01_build_ideal H H_inj ops cfg roots (hist_ok_of_structure ops Hops Hb) Hcfg).
Qed.

Theorem kf_incremental_equals_clean ops cfg roots ext' :
  Forall op_ok ops -> snaps_okb (snaps ops) = true -> cfg_ok cfg ->
  let y := run_history H ops in
  let r := build H cfg (sy_src y) roots (sy_world y) (sy_cache y) in
  let rc := clean_build H cfg (sy_src y) roots ext' in
  forall i t o, node_at (sy_src y) i = Some (NTarget t) -> In o (td_outs t) ->
    nth i (br_status r) TNone = THit \/ nth i (br_status r) TNone = TExecuted ->
    nth i (br_status rc) TNone = THit \/ nth i (br_status rc) TNone = TExecuted ->
    exists x, ws_get (out_path t o) (w_ws (br_world r)) = PFile x /\
              ws_get (out_path t o) (w_ws (br_world rc)) = PFile x.
Proof.
  intros Hops Hb Hcfg.
  exact (c01_incremental_equals_clean H H_inj ops cfg roots ext' (hist_ok_of_structure ops Hops Hb) Hcfg).
Qed.

Theorem kf_cache_sound_every_history ops :
  Forall op_ok ops -> snaps_okb (snaps ops) = true ->
  cache_sound H (snaps ops) (sy_cache (run_history H ops)).
Proof.
  intros Hops Hb.
  exact (c01_cache_sound_every_history H H_inj ops (hist_ok_of_structure ops Hops Hb)).
Qed.

Theorem kf_hit_only_for_equal_key_state ops cfg roots :
  Forall op_ok ops -> snaps_okb (snaps ops) = true -> cfg_ok cfg ->
  let y := run_history H ops in
  let r := build H cfg (sy_src y) roots (sy_world y) (sy_cache y) in
  forall i t, node_at (sy_src y) i = Some (NTarget t) ->
    nth i (br_status r) TNone = THit ->
    exists key res s' j' d' d,
      served H (sy_src y) i t
             (build_prefix H cfg (sy_src y) roots (sy_world y) (sy_cache y) i) = Some (key, res) /\
      In s' (snaps ops) /\ is_target s' j' /\
      nth j' (ideal H s') None = Some d' /\ nth i (ideal H (sy_src y)) None = Some d /\
      i_key d' = key /\ i_key d = key /\ res = res_of H d' /\ same_outs d d'.
Proof.
  intros Hops Hb Hcfg.
  exact (c01_hit_only_for_equal_key_state H H_inj ops cfg roots (hist_ok_of_structure ops Hops Hb) Hcfg).
Qed.

Theorem kf_after_cache_faults ops faults cfg roots ext' :
  Forall op_ok ops -> snaps_okb (snaps ops) = true -> Forall is_cache_fault faults -> cfg_ok cfg ->
  let y := run_history H (ops ++ faults) in
  let r := build H cfg (sy_src y) roots (sy_world y) (sy_cache y) in
  let rc := clean_build H cfg (sy_src y) roots ext' in
  forall i t o, node_at (sy_src y) i = Some (NTarget t) -> In o (td_outs t) ->
    nth i (br_status r) TNone = THit \/ nth i (br_status r) TNone = TExecuted ->
    nth i (br_status rc) TNone = THit \/ nth i (br_status rc) TNone = TExecuted ->
    exists x, ws_get (out_path t o) (w_ws (br_world r)) = PFile x /\
              ws_get (out_path t o) (w_ws (br_world rc)) = PFile x.
Proof.
  intros Hops Hb Hf Hcfg.
  exact (c01_after_cache_faults H H_inj ops faults cfg roots ext'
           (hist_ok_of_structure ops Hops Hb) Hf Hcfg).
Qed.

End Digest.

(* ================================================================== the hypotheses on the digest are
   satisfiable: pf_enc is injective, hex-only and prefix-free *)
Definition val15 (c : ascii) : nat :=
  let n := nat_of_ascii c in if n <? 58 then n - 48 else n - 87.
Definition dec3 (l : str) : ascii :=
  match l with
  | [a; b; c] => ascii_of_nat (val15 a * 225 + val15 b * 15 + val15 c)
  | _ => Ascii.zero
  end.

Lemma pf_byte_facts c :
  dec3 (pf_byte c) = c /\ forallb is_hex (pf_byte c) = true /\ hd "f"%char (pf_byte c) <> "f"%char.
Proof.
  destruct c as [[] [] [] [] [] [] [] []]; vm_compute; (split; [reflexivity|]); (split; [reflexivity|]);
    discriminate.
Qed.

Lemma pf_byte_cons c : pf_byte c = hd "f"%char (pf_byte c) :: tl (pf_byte c).
Proof. reflexivity. Qed.

Lemma pf_byte_length c : length (pf_byte c) = 3.
Proof. reflexivity. Qed.

Lemma pf_byte_inj c d : pf_byte c = pf_byte d -> c = d.
Proof.
  intro E. apply (f_equal dec3) in E.
  rewrite (proj1 (pf_byte_facts c)), (proj1 (pf_byte_facts d)) in E. exact E.
Qed.

Lemma pf_head c r r' : pf_byte c ++ r = "f"%char :: r' -> False.
Proof.
  intro E. destruct (pf_byte_facts c) as (_ & _ & Hf). rewrite (pf_byte_cons c) in E.
  cbn [app] in E. inversion E as [[E1 E2]]. exact (Hf E1).
Qed.

Lemma app_inv_length {A} : forall (a b x y : list A),
  length a = length b -> a ++ x = b ++ y -> a = b /\ x = y.
Proof.
  induction a as [|u a IH]; intros [|v b] x y Hl E; try discriminate Hl; [auto|].
  cbn [app] in E. inversion E as [[E1 E2]]. cbn [length] in Hl.
  destruct (IH b x y) as [-> ->]; [lia | exact E2 | auto].
Qed.

Lemma pf_enc_cons c r : pf_enc (c :: r) = pf_byte c ++ pf_enc r.
Proof. reflexivity. Qed.

Lemma pf_enc_inj x : forall y, pf_enc x = pf_enc y -> x = y.
Proof.
  induction x as [|c x IH]; intros [|d y] E.
  - reflexivity.
  - exfalso. rewrite pf_enc_cons in E. symmetry in E. exact (pf_head _ _ _ E).
  - exfalso. rewrite pf_enc_cons in E. exact (pf_head _ _ _ E).
  - rewrite !pf_enc_cons in E. apply app_inv_length in E; [|reflexivity].
    destruct E as [E1 E2]. apply pf_byte_inj in E1. apply IH in E2. subst. reflexivity.
Qed.

Lemma pf_enc_hex x : forall c, In c (pf_enc x) -> is_hex c = true.
Proof.
  induction x as [|b x IH]; intros c Hin.
  - destruct Hin as [<-|[]]. reflexivity.
  - rewrite pf_enc_cons in Hin. apply in_app_or in Hin. destruct Hin as [Hin|Hin]; [|apply IH; exact Hin].
    destruct (pf_byte_facts b) as (_ & Hh & _). rewrite forallb_forall in Hh. apply Hh. exact Hin.
Qed.

Lemma pf_enc_pf x : forall y p, pf_enc y = pf_enc x ++ p -> p = [].
Proof.
  induction x as [|c x IH]; intros [|d y] p E.
  - cbn [pf_enc app] in E. inversion E. reflexivity.
  - exfalso. rewrite pf_enc_cons in E. cbn [pf_enc app] in E. exact (pf_head _ _ _ E).
  - exfalso. rewrite pf_enc_cons, <- app_assoc in E. cbn [pf_enc] in E. symmetry in E.
    exact (pf_head _ _ _ E).
  - rewrite !pf_enc_cons, <- app_assoc in E. apply app_inv_length in E; [|reflexivity].
    destruct E as [_ E]. exact (IH y p E).
Qed.

(* ================================================================== concrete histories (digest := pf_enc) *)
From Coq Require String.
Import String.StringSyntax.
Local Open Scope string_scope.
Theorem pf_enc_digest_ok :
  (forall a b, pf_enc a = pf_enc b -> a = b) /\
  (forall x c, In c (pf_enc x) -> is_hex c = true) /\
  (forall x y p, pf_enc y = pf_enc x ++ p -> p = []).
Proof.
  split; [intros a b; apply pf_enc_inj|]. split; [exact pf_enc_hex | exact pf_enc_pf].
Qed.

Lemma nv_ops_ok : Forall op_ok nv_ops.
Proof.
  repeat (apply Forall_cons; [first [apply nv_src_ok | split; reflexivity | exact I]|]).
  apply Forall_nil.
Qed.

(* the history of C01_guards_nonvacuous (target a, an alias of a, target b depending on the alias;
   build, edit, build, blob and output lost, build) satisfies the structural guard *)
Theorem keyfaith_nonvacuous :
  exists ops cfg roots,
    Forall op_ok ops /\ snaps_okb (snaps ops) = true /\ cfg_ok cfg /\
    let y := run_history pf_enc ops in
    let r := build pf_enc cfg (sy_src y) roots (sy_world y) (sy_cache y) in
    map br_status (sy_log y) = [[TExecuted; THit; TExecuted]; [TExecuted; THit; TExecuted]] /\
    br_status r = [TExecuted; THit; THit] /\ br_ok r = true.
Proof.
  exists nv_ops, c_all, [2].
  split; [exact nv_ops_ok|]. split; [vm_compute; reflexivity|]. split; [split; reflexivity|].
  vm_compute. auto.
Qed.

(* ... and so does a history whose second snapshot declares the inputs of a in another order:
   different snapshots, one key, the build after the edit is served from the cache *)
Definition kv_a (ins : list str) : tdef :=
  mkTD (mkLabel (lit "p") (lit "a")) (lit "c") (lit "v") ins [mkOut OFile (lit "oa")]
       [] [] false false BNormal false.
Definition kv_b : tdef :=
  mkTD (mkLabel (lit "p") (lit "b")) (lit "c") (lit "v") [] [mkOut OFile (lit "ob"); mkOut ODir (lit "od")]
       [0] [] false false BNormal false.
Definition kv_s (ins : list str) : sources :=
  mkSrc [NTarget (kv_a ins); NTarget kv_b] [(lit "p/f", lit "1"); (lit "p/g", lit "2")].
Definition kv_ops : list op :=
  [OpSources (kv_s [lit "f"; lit "g"]); OpBuild c_all [1]; OpSources (kv_s [lit "g"; lit "f"])].

Lemma kv_src_ok ins : src_ok (kv_s ins).
Proof. split; [nodup_tac | reflexivity]. Qed.

Theorem keyfaith_nonvacuous_reorder :
  exists ops cfg roots,
    Forall op_ok ops /\ snaps_okb (snaps ops) = true /\ cfg_ok cfg /\
    (exists s s', In s (snaps ops) /\ In s' (snaps ops) /\ s <> s') /\
    let y := run_history pf_enc ops in
    let r := build pf_enc cfg (sy_src y) roots (sy_world y) (sy_cache y) in
    map br_status (sy_log y) = [[TExecuted; TExecuted]] /\
    br_status r = [THit; THit] /\ br_ok r = true.
Proof.
  exists kv_ops, c_all, [1].
  split.
  { repeat (apply Forall_cons; [first [apply kv_src_ok | split; reflexivity | exact I]|]).
    apply Forall_nil. }
  split; [vm_compute; reflexivity|]. split; [split; reflexivity|].
  split.
  { exists (kv_s [lit "f"; lit "g"]), (kv_s [lit "g"; lit "f"]).
    split; [left; reflexivity|]. split; [right; left; reflexivity|]. intro E. discriminate E. }
  vm_compute. auto.
Qed.

(* ================================================================== every conjunct of the guard is needed *)
Lemma forallb_eq {A} (f g : A -> bool) : (forall x, f x = g x) -> forall l, forallb f l = forallb g l.
Proof. intros E l. induction l as [|x l IH]; [reflexivity|]. cbn [forallb]. rewrite E, IH. reflexivity. Qed.

(* the masked check with every conjunct on is the guard *)
Lemma cmd_faithfulb_m_full V : cmd_faithfulb_m (mkMask true true true true true) V = cmd_faithfulb V.
Proof.
  unfold cmd_faithfulb_m, cmd_faithfulb.
  apply forallb_eq. intro s1. apply forallb_eq. intro s2. apply forallb_eq. intro n1.
  apply forallb_eq. intro n2. destruct n1 as [t1|l1 a1], n2 as [t2|l2 a2]; reflexivity.
Qed.

(* a history whose next build differs from the clean build cannot be key-faithful (C01) *)
Lemma differs_not_faithful (H : str -> str) (H_inj : forall a b, H a = H b -> a = b)
      ops cfg roots ext' i t o :
  Forall op_ok ops -> cfg_ok cfg -> incremental_differs H ops cfg roots ext' i t o ->
  ~ key_faithful H (snaps ops).
Proof.
  intros Hops Hcfg (Hn & Ho & Hst & Hstc & Hne) Hkf.
  destruct (c01_incremental_equals_clean H H_inj ops cfg roots ext' (conj Hops Hkf) Hcfg i t o Hn Ho
              (or_introl Hst) (or_intror Hstc)) as (x & E1 & E2).
  apply Hne. rewrite E1, E2. reflexivity.
Qed.

Definition c_ok_all : cfg_ok c_all := conj eq_refl eq_refl.

Ltac ops_ok_tac lem :=
  repeat (apply Forall_cons; [first [apply lem | split; reflexivity | exact I]|]); apply Forall_nil.
Ltac uniq_tac :=
  repeat (apply Forall_cons; [apply labels_uniqueb_spec; vm_compute; reflexivity|]); apply Forall_nil.
Ltac cf_tac :=
  repeat (apply Forall_cons; [apply outdefs_comma_freeb_spec; vm_compute; reflexivity|]); apply Forall_nil.
Ltac differs_tac :=
  unfold incremental_differs; cbv zeta;
  split; [reflexivity|]; split; [left; reflexivity|];
  split; [vm_compute; reflexivity|]; split; [vm_compute; reflexivity|];
  vm_compute; let E := fresh "E" in (intro E; discriminate E).

(* --- salt: two snapshots that differ only in the salt (the history of C01_..._needs_key_faithful) *)
Lemma rf_ops_ok : Forall op_ok rf_ops.
Proof.
  apply Forall_cons; [exact rf_src_ok1|]. apply Forall_cons; [split; reflexivity|].
  apply Forall_cons; [exact rf_src_ok2 | apply Forall_nil].
Qed.

Theorem salt_needed :
  exists ops cfg roots ext' i t o,
    Forall op_ok ops /\ Forall labels_unique (snaps ops) /\ Forall outdefs_comma_free (snaps ops) /\
    cfg_ok cfg /\ cmd_faithfulb_m (mkMask false true true true true) (snaps ops) = true /\
    incremental_differs pf_enc ops cfg roots ext' i t o /\ ~ key_faithful pf_enc (snaps ops).
Proof.
  exists rf_ops, c_all, [0], [], 0, (rf_t (lit "2")), (mkOut OFile (lit "o")).
  assert (Hd : incremental_differs pf_enc rf_ops c_all [0] [] 0 (rf_t (lit "2")) (mkOut OFile (lit "o")))
    by differs_tac.
  split; [exact rf_ops_ok|]. split; [uniq_tac|]. split; [cf_tac|]. split; [exact c_ok_all|].
  split; [vm_compute; reflexivity|]. split; [exact Hd|].
  exact (differs_not_faithful pf_enc pf_enc_inj _ _ _ _ _ _ _ rf_ops_ok c_ok_all Hd).
Qed.

(* --- read shape: two snapshots that differ only in the ORDER of the two dependencies of c *)
Definition dn_t (n o : String.string) (ds : list nat) : tdef :=
  mkTD (mkLabel (lit "p") (lit n)) (lit "c") (lit "v") [] [mkOut OFile (lit o)] ds [] false false BNormal false.
Definition dn_s (ds : list nat) : sources :=
  mkSrc [NTarget (dn_t "a" "oa" []); NTarget (dn_t "b" "ob" []); NTarget (dn_t "c" "oc" ds)] [].
Definition dn_ops : list op := [OpSources (dn_s [0; 1]); OpBuild c_all [2]; OpSources (dn_s [1; 0])].

Lemma dn_src_ok ds : src_ok (dn_s ds).
Proof. split; [nodup_tac | reflexivity]. Qed.
Lemma dn_ops_ok : Forall op_ok dn_ops.
Proof. ops_ok_tac dn_src_ok. Qed.

Theorem dep_shape_needed :
  exists ops cfg roots ext' i t o,
    Forall op_ok ops /\ Forall labels_unique (snaps ops) /\ Forall outdefs_comma_free (snaps ops) /\
    cfg_ok cfg /\ cmd_faithfulb_m (mkMask true true true false true) (snaps ops) = true /\
    incremental_differs pf_enc ops cfg roots ext' i t o /\ ~ key_faithful pf_enc (snaps ops).
Proof.
  exists dn_ops, c_all, [2], [], 2, (dn_t "c" "oc" [1; 0]), (mkOut OFile (lit "oc")).
  assert (Hd : incremental_differs pf_enc dn_ops c_all [2] [] 2 (dn_t "c" "oc" [1; 0]) (mkOut OFile (lit "oc")))
    by differs_tac.
  split; [exact dn_ops_ok|]. split; [uniq_tac|]. split; [cf_tac|]. split; [exact c_ok_all|].
  split; [vm_compute; reflexivity|]. split; [exact Hd|].
  exact (differs_not_faithful pf_enc pf_enc_inj _ _ _ _ _ _ _ dn_ops_ok c_ok_all Hd).
Qed.

(* --- behaviour / check flag: the key is defined whether or not the command succeeds *)
Lemma missing_not_faithful (H : str -> str) V s1 s2 j1 j2 d2 :
  In s1 V -> In s2 V -> is_target s2 j2 -> nth j2 (ideal H s2) None = Some d2 ->
  ideal_key_at H s1 j1 = Some (i_key d2) -> nth j1 (ideal H s1) None = None ->
  ~ key_faithful H V.
Proof.
  intros H1 H2 Ht Hd2 Hk Hnone Hkf.
  destruct (Hkf s1 s2 j1 j2 (i_key d2) d2 H1 H2 Hk Ht Hd2 eq_refl) as (d1 & Hd1 & _).
  rewrite Hnone in Hd1. discriminate Hd1.
Qed.

Definition bn_t (beh : behaviour) (chk : bool) : tdef :=
  mkTD (mkLabel (lit "p") (lit "t")) (lit "c") (lit "v") [] [mkOut OFile (lit "o")] [] [] false false beh chk.
Definition bn_s (beh : behaviour) (chk : bool) : sources := mkSrc [NTarget (bn_t beh chk)] [].
Definition bn_d (beh : behaviour) (chk : bool) : idata :=
  match nth 0 (ideal pf_enc (bn_s beh chk)) None with Some d => d | None => mkI [] [] [] false end.

Lemma bn_src_ok beh chk : src_ok (bn_s beh chk).
Proof. split; [nodup_tac | reflexivity]. Qed.

Theorem beh_needed :
  exists V, Forall src_ok V /\ Forall labels_unique V /\ Forall outdefs_comma_free V /\
    cmd_faithfulb_m (mkMask true false true true true) V = true /\ ~ key_faithful pf_enc V.
Proof.
  exists [bn_s BFail false; bn_s BNormal false].
  split; [repeat (apply Forall_cons; [apply bn_src_ok|]); apply Forall_nil|].
  split; [uniq_tac|]. split; [cf_tac|]. split; [vm_compute; reflexivity|].
  apply (missing_not_faithful pf_enc _ (bn_s BFail false) (bn_s BNormal false) 0 0 (bn_d BNormal false)).
  - left. reflexivity.
  - right. left. reflexivity.
  - eexists. reflexivity.
  - vm_compute. reflexivity.
  - vm_compute. reflexivity.
  - vm_compute. reflexivity.
Qed.

Theorem check_needed :
  exists V, Forall src_ok V /\ Forall labels_unique V /\ Forall outdefs_comma_free V /\
    cmd_faithfulb_m (mkMask true true false true true) V = true /\ ~ key_faithful pf_enc V.
Proof.
  exists [bn_s BBreakCheck true; bn_s BBreakCheck false].
  split; [repeat (apply Forall_cons; [apply bn_src_ok|]); apply Forall_nil|].
  split; [uniq_tac|]. split; [cf_tac|]. split; [vm_compute; reflexivity|].
  apply (missing_not_faithful pf_enc _ (bn_s BBreakCheck true) (bn_s BBreakCheck false) 0 0
           (bn_d BBreakCheck false)).
  - left. reflexivity.
  - right. left. reflexivity.
  - eexists. reflexivity.
  - vm_compute. reflexivity.
  - vm_compute. reflexivity.
  - vm_compute. reflexivity.
Qed.

(* --- printed labels: the labels ("a:b", "c") and ("a", "b:c") are different but print alike
   ("//a:b:c"), and the dependency contributions carry the printed label.  Swapping the input
   contents of the two dependencies swaps their output hashes: the key of t is unchanged, what t
   reads is not.  (validateName rejects ':' in names: labels_unique_of_names.) *)
Definition lp_x : tdef :=
  mkTD (mkLabel (lit "a:b") (lit "c")) (lit "c") (lit "v") [lit "f"] [mkOut OFile (lit "o")] [] []
       false false BNormal false.
Definition lp_y : tdef :=
  mkTD (mkLabel (lit "a") (lit "b:c")) (lit "c") (lit "v") [lit "f"] [mkOut OFile (lit "o")] [] []
       false false BNormal false.
Definition lp_t : tdef :=
  mkTD (mkLabel (lit "p") (lit "t")) (lit "c") (lit "v") [] [mkOut OFile (lit "o")] [0; 1] []
       false false BNormal false.
Definition lp_s (x y : str) : sources :=
  mkSrc [NTarget lp_x; NTarget lp_y; NTarget lp_t] [(lit "a:b/f", x); (lit "a/f", y)].
Definition lp_ops : list op :=
  [OpSources (lp_s (lit "1") (lit "2")); OpBuild c_all [2]; OpSources (lp_s (lit "2") (lit "1"))].

Lemma lp_src_ok x y : src_ok (lp_s x y).
Proof. split; [nodup_tac | reflexivity]. Qed.
Lemma lp_ops_ok : Forall op_ok lp_ops.
Proof. ops_ok_tac lp_src_ok. Qed.

Theorem printed_labels_needed :
  exists ops cfg roots ext' i t o,
    Forall op_ok ops /\ Forall (fun s => NoDup (map node_label (s_nodes s))) (snaps ops) /\
    Forall outdefs_comma_free (snaps ops) /\ cfg_ok cfg /\
    cmd_faithfulb (snaps ops) = true /\
    incremental_differs pf_enc ops cfg roots ext' i t o /\ ~ key_faithful pf_enc (snaps ops).
Proof.
  exists lp_ops, c_all, [2], [], 2, lp_t, (mkOut OFile (lit "o")).
  assert (Hd : incremental_differs pf_enc lp_ops c_all [2] [] 2 lp_t (mkOut OFile (lit "o")))
    by differs_tac.
  split; [exact lp_ops_ok|].
  split.
  { repeat (apply Forall_cons;
      [cbn [lp_s s_nodes map node_label];
       repeat (apply NoDup_cons; [cbn [In]; intuition discriminate|]); apply NoDup_nil|]).
    apply Forall_nil. }
  split; [cf_tac|]. split; [exact c_ok_all|].
  split; [vm_compute; reflexivity|]. split; [exact Hd|].
  exact (differs_not_faithful pf_enc pf_enc_inj _ _ _ _ _ _ _ lp_ops_ok c_ok_all Hd).
Qed.

(* ================================================================== no-cache targets *)
(* --- the history of C01_nocache_chain_nonvacuous (a; b no-cache with a file and a directory output,
   depending on a; c depending on b: build, edit a's input, build, build again) meets the structural guard *)
Lemma nc_ops_ok : Forall op_ok nc_ops.
Proof. ops_ok_tac nc_src_ok. Qed.

Theorem keyfaith_nonvacuous_nocache :
  exists ops cfg roots,
    Forall op_ok ops /\ snaps_okb (snaps ops) = true /\ cfg_ok cfg /\
    (exists s t, In s (snaps ops) /\ In (NTarget t) (s_nodes s) /\ td_nocache t = true /\
                 td_outs t <> [] /\ td_deps t <> []) /\
    let y := run_history pf_enc ops in
    let r := build pf_enc cfg (sy_src y) roots (sy_world y) (sy_cache y) in
    map br_status (sy_log y) = [[TExecuted; TExecuted; TExecuted]; [TExecuted; TExecuted; TExecuted]] /\
    br_status r = [THit; TExecuted; THit] /\ br_ok r = true.
Proof.
  exists nc_ops, c_all, [2].
  split; [exact nc_ops_ok|]. split; [vm_compute; reflexivity|]. split; [exact c_ok_all|].
  split.
  { exists (nc_s (lit "1")), nc_b. split; [left; reflexivity|]. split; [right; left; reflexivity|].
    split; [reflexivity|]. split; intro E; discriminate E. }
  vm_compute. auto.
Qed.

(* --- the no-cache tag: the key does not cover it.  t has no outputs and is no-cache in the first
   snapshot, cacheable in the second; u depends on t.  The two snapshots give t one key, so [key_faithful]
   fails.  What goes wrong in the build after the edit: t is served the OUTPUT-LESS record its no-cache
   execution stored (nothing to restore, so the load succeeds) and carries the no-cache output hash where
   the from-scratch build carries t's key: u is looked up (and here served) under a key that no
   from-scratch build of any visited snapshot computes.  (The bytes still agree: t has no outputs.) *)
Lemma flag_not_faithful (H : str -> str) V s1 s2 j1 j2 d1 d2 :
  In s1 V -> In s2 V -> is_target s2 j2 -> nth j2 (ideal H s2) None = Some d2 ->
  ideal_key_at H s1 j1 = Some (i_key d2) -> nth j1 (ideal H s1) None = Some d1 ->
  i_nc d1 <> i_nc d2 -> ~ key_faithful H V.
Proof.
  intros H1 H2 Ht Hd2 Hk Hd1 Hne Hkf.
  destruct (Hkf s1 s2 j1 j2 (i_key d2) d2 H1 H2 Hk Ht Hd2 eq_refl) as (d & Hd & _ & Hnc).
  rewrite Hd1 in Hd. inversion Hd; subst d. exact (Hne Hnc).
Qed.

Definition nt_t (nc : bool) : tdef :=
  mkTD (mkLabel (lit "p") (lit "t")) (lit "c") (lit "v") [] [] [] [] nc false BNormal false.
Definition nt_u : tdef :=
  mkTD (mkLabel (lit "p") (lit "u")) (lit "c") (lit "v") [] [mkOut OFile (lit "o")] [0] []
       false false BNormal false.
Definition nt_s (nc : bool) : sources := mkSrc [NTarget (nt_t nc); NTarget nt_u] [].
Definition nt_ops : list op := [OpSources (nt_s true); OpBuild c_all [1]; OpSources (nt_s false)].
Definition nt_d (nc : bool) : idata :=
  match nth 0 (ideal pf_enc (nt_s nc)) None with Some d => d | None => mkI [] [] [] false end.

Lemma nt_src_ok nc : src_ok (nt_s nc).
Proof. split; [nodup_tac | reflexivity]. Qed.
Lemma nt_ops_ok : Forall op_ok nt_ops.
Proof. ops_ok_tac nt_src_ok. Qed.

Theorem nocache_flag_needed :
  exists ops cfg roots,
    Forall op_ok ops /\ Forall labels_unique (snaps ops) /\ Forall outdefs_comma_free (snaps ops) /\
    cfg_ok cfg /\ cmd_faithfulb_m (mkMask true true true true false) (snaps ops) = true /\
    ~ key_faithful pf_enc (snaps ops) /\
    let y := run_history pf_enc ops in
    let r := build pf_enc cfg (sy_src y) roots (sy_world y) (sy_cache y) in
    br_status r = [THit; THit] /\
    rt_key (get_rt (build_prefix pf_enc cfg (sy_src y) roots (sy_world y) (sy_cache y) 2) 1) <>
    option_map i_key (nth 1 (ideal pf_enc (sy_src y)) None).
Proof.
  exists nt_ops, c_all, [1].
  split; [exact nt_ops_ok|]. split; [uniq_tac|]. split; [cf_tac|]. split; [exact c_ok_all|].
  split; [vm_compute; reflexivity|].
  split.
  { apply (flag_not_faithful pf_enc _ (nt_s false) (nt_s true) 0 0 (nt_d false) (nt_d true)).
    - right. left. reflexivity.
    - left. reflexivity.
    - eexists. reflexivity.
    - vm_compute. reflexivity.
    - vm_compute. reflexivity.
    - vm_compute. reflexivity.
    - vm_compute. intro E. discriminate E. }
  cbv zeta. split; [vm_compute; reflexivity|]. vm_compute. intro E. discriminate E.
Qed.

(* --- commas: the decoding lemma [nocache_hash_inj] needs its proviso, for every digest function: the
   definitions "file::a" and "file::a=0,file::a" with the digests 0, 1 resp. 1, 0 give one item text
   "file::a=0,file::a=0,file::a=1".  (Inside Build.v this state cannot be reached: every command output
   embeds its own output definition, so two outputs never exchange their digests; the guard
   [outdefs_comma_free] is what the PROOF of the bridge needs, and it is stated for no-cache targets only.) *)
Theorem nocache_hash_needs_comma_free :
  exists l l' : list (str * str), length l = length l' /\
    (forall e, In e (l ++ l') -> ~ In ch_eq (snd e) /\ ~ In ch_comma (snd e)) /\
    ~ Permutation (map nocache_item l) (map nocache_item l') /\
    forall H : str -> str, nocache_output_hash H l = nocache_output_hash H l'.
Proof.
  exists [(lit "file::a", lit "0"); (lit "file::a=0,file::a", lit "1")],
         [(lit "file::a", lit "1"); (lit "file::a=0,file::a", lit "0")].
  split; [reflexivity|]. split.
  { intros e He. cbn [app In] in He.
    destruct He as [<-|[<-|[<-|[<-|[]]]]]; vm_compute; split; intuition discriminate. }
  split.
  { intro P. apply (Permutation_in (lit "file::a=0")) in P; [|left; reflexivity].
    vm_compute in P. intuition discriminate. }
  intro H. unfold nocache_output_hash. f_equal.
Qed.
