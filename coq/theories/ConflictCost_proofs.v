(* ConflictCost_proofs.v -- lemmas about ConflictCost.v (C19, output-conflict detection):
   the instrumented getAncestorSet computes the ancestor set whatever sound cache it is given,
   never runs out of fuel, costs at most V + E + 1 steps per call, and the whole detection is
   polynomial in V, E and the number of output records. *)
From Grog Require Import Str Label Graph Select Select_proofs ConflictCost.
(* the label-level model of the analysis engine: qualified names only (it has its own [reach],
   [acyclic], [dependants] ...), used in the last section *)
From Grog Require Analysis Analysis_base Ancestors_proofs.
From Coq Require Import Lia.

(* ------------------------------------------------------------------ sets as lists *)

Lemma mem_nat_false x l : mem_nat x l = false <-> ~ In x l.
Proof.
  split.
  - intros E H. apply mem_nat_spec in H. congruence.
  - intro H. destruct (mem_nat x l) eqn:E; [| reflexivity]. apply mem_nat_spec in E. contradiction.
Qed.

Lemma add_one_in set x y : In y (add_one set x) <-> y = x \/ In y set.
Proof.
  unfold add_one. destruct (mem_nat x set) eqn:E.
  - apply mem_nat_spec in E. split; [intro H; right; exact H |].
    intros [H | H]; [subst y; exact E | exact H].
  - simpl. split; intros [H | H]; auto.
Qed.

Lemma add_one_nodup set x : NoDup set -> NoDup (add_one set x).
Proof.
  intro H. unfold add_one. destruct (mem_nat x set) eqn:E; [exact H |].
  apply mem_nat_false in E. constructor; assumption.
Qed.

Lemma add_all_in s : forall set y, In y (add_all s set) <-> In y s \/ In y set.
Proof.
  unfold add_all. induction s as [| x s IH]; intros set y; simpl.
  - split; [intro H; right; exact H | intros [[] | H]; exact H].
  - rewrite IH, add_one_in. split.
    + intros [H | [H | H]]; [left; right; exact H | left; left; symmetry; exact H | right; exact H].
    + intros [[H | H] | H]; [right; left; symmetry; exact H | left; exact H | right; right; exact H].
Qed.

Lemma add_all_nodup s : forall set, NoDup set -> NoDup (add_all s set).
Proof.
  unfold add_all. induction s as [| x s IH]; intros set H; simpl; [exact H |].
  apply IH. apply add_one_nodup. exact H.
Qed.

Lemma add_one_length set x : length set <= length (add_one set x).
Proof. unfold add_one. destruct (mem_nat x set); simpl; lia. Qed.

Lemma add_all_length s : forall set, length set <= length (add_all s set).
Proof.
  unfold add_all. induction s as [| x s IH]; intro set; simpl; [lia |].
  pose proof (add_one_length set x). pose proof (IH (add_one set x)). lia.
Qed.

(* a duplicate-free list of indices below N has at most N elements *)
Lemma nodup_below_length (l : list nat) N : NoDup l -> (forall x, In x l -> x < N) -> length l <= N.
Proof.
  intros Hnd Hlt. rewrite <- (seq_length N 0). apply NoDup_incl_length; [exact Hnd |].
  intros x Hx. apply in_seq. specialize (Hlt x Hx). lia.
Qed.

(* ------------------------------------------------------------------ the cache *)

Lemma cache_get_cons k s c n :
  cache_get ((k, s) :: c) n = if Nat.eqb k n then Some s else cache_get c n.
Proof. reflexivity. Qed.

Lemma cache_get_in_keys c n s : cache_get c n = Some s -> In n (cache_keys c).
Proof.
  induction c as [| [k s'] c IH]; simpl; [discriminate |].
  destruct (Nat.eqb k n) eqn:E.
  - apply Nat.eqb_eq in E. intros _. left. exact E.
  - intro H. right. exact (IH H).
Qed.

Lemma cache_get_none_keys c n : cache_get c n = None -> ~ In n (cache_keys c).
Proof.
  induction c as [| [k s'] c IH]; simpl; [intros _ [] |].
  destruct (Nat.eqb k n) eqn:E; [discriminate |].
  apply Nat.eqb_neq in E. intros H [H1 | H1]; [exact (E H1) | exact (IH H H1)].
Qed.

Lemma cache_sound_nil g : cache_sound g [].
Proof. intros k s H. discriminate H. Qed.

Lemma cache_sound_cons g c n s :
  cache_sound g c -> NoDup s -> (forall x, In x s <-> reach g x n) -> cache_sound g ((n, s) :: c).
Proof.
  intros Hc Hnd Hs k s' H. rewrite cache_get_cons in H. destruct (Nat.eqb n k) eqn:E.
  - apply Nat.eqb_eq in E. subst k. inversion H; subst s'. split; assumption.
  - exact (Hc k s' H).
Qed.

(* ------------------------------------------------------------------ one iteration, case by case *)

Inductive step_case (g : graph) (c : cache) (s s' : st) : Prop :=
| case_skip a rest :
    s_stack s = a :: rest -> In a (s_set s) ->
    s' = mkSt rest (s_set s) (S (s_pops s)) (s_fresh s) (s_merged s) -> step_case g c s s'
| case_hit a rest cs :
    s_stack s = a :: rest -> ~ In a (s_set s) -> cache_get c a = Some cs ->
    s' = mkSt rest (add_all cs (a :: s_set s)) (S (s_pops s)) (S (s_fresh s)) (s_merged s + length cs) ->
    step_case g c s s'
| case_expand a rest :
    s_stack s = a :: rest -> ~ In a (s_set s) -> cache_get c a = None ->
    s' = mkSt (rev (deps g a) ++ rest) (a :: s_set s) (S (s_pops s)) (S (s_fresh s)) (s_merged s) ->
    step_case g c s s'.

Lemma anc_step_cases g c s s' : anc_step true g c s = Some s' -> step_case g c s s'.
Proof.
  unfold anc_step. destruct (s_stack s) as [| a rest] eqn:Es; [discriminate |].
  cbn [andb]. intro H. inversion H as [H']. clear H. subst s'.
  destruct (mem_nat a (s_set s)) eqn:Em.
  - apply mem_nat_spec in Em. eapply case_skip; [exact Es | exact Em | reflexivity].
  - apply mem_nat_false in Em. destruct (cache_get c a) as [cs |] eqn:Ec.
    + eapply case_hit; [exact Es | exact Em | exact Ec | reflexivity].
    + eapply case_expand; [exact Es | exact Em | exact Ec | reflexivity].
Qed.

Lemma anc_step_none seen g c s : anc_step seen g c s = None <-> s_stack s = [].
Proof.
  unfold anc_step. destruct (s_stack s) as [| a rest]; split; intro H; try reflexivity; discriminate.
Qed.

(* ------------------------------------------------------------------ the loop, generically *)

(* an invariant kept by every iteration and a measure that every iteration decreases: with
   that much fuel the loop ends, on an empty stack, in a state satisfying the invariant *)
Lemma anc_loop_inv seen g c (P : st -> Prop) (mu : st -> nat) :
  (forall s s', P s -> anc_step seen g c s = Some s' -> P s' /\ mu s' < mu s) ->
  forall fuel s, P s -> mu s <= fuel ->
    exists s', anc_loop seen g c fuel s = LoopDone s' /\ P s' /\ s_stack s' = [].
Proof.
  intros Hstep fuel. induction fuel as [| f IH]; intros s HP Hmu.
  - cbn [anc_loop]. destruct (anc_step seen g c s) as [s' |] eqn:E.
    + destruct (Hstep s s' HP E) as [_ Hlt]. lia.
    + exists s. split; [reflexivity |]. split; [exact HP | apply (anc_step_none seen g c s); exact E].
  - cbn [anc_loop]. destruct (anc_step seen g c s) as [s' |] eqn:E.
    + destruct (Hstep s s' HP E) as [HP' Hlt]. apply IH; [exact HP' | lia].
    + exists s. split; [reflexivity |]. split; [exact HP | apply (anc_step_none seen g c s); exact E].
Qed.

(* ------------------------------------------------------------------ what is left to expand *)

(* the dependency lists of the nodes not yet in the set: an upper bound of the pushes to come *)
Definition undone (g : graph) (set : list nat) (x : nat) : nat :=
  if mem_nat x set then 0 else length (deps g x).
Definition unexp_on (g : graph) (set l : list nat) : nat := list_sum (map (undone g set) l).
Definition unexp (g : graph) (set : list nat) : nat := unexp_on g set (seq 0 (size g)).

Lemma unexp_on_mono g set set' l :
  (forall x, In x set -> In x set') -> unexp_on g set' l <= unexp_on g set l.
Proof.
  intro Hincl. unfold unexp_on. induction l as [| y l IH]; simpl; [lia |].
  assert (H : undone g set' y <= undone g set y).
  { unfold undone. destruct (mem_nat y set) eqn:E.
    - apply mem_nat_spec in E. apply Hincl in E. apply mem_nat_spec in E. rewrite E. lia.
    - destruct (mem_nat y set'); lia. }
  lia.
Qed.

Lemma undone_cons_other g set a y : y <> a -> undone g (a :: set) y = undone g set y.
Proof.
  intro H. unfold undone, mem_nat. cbn [existsb]. apply Nat.eqb_neq in H. rewrite H. reflexivity.
Qed.

Lemma unexp_on_step g set y l : unexp_on g set (y :: l) = undone g set y + unexp_on g set l.
Proof. reflexivity. Qed.

Lemma unexp_on_cons_notin g set a l : ~ In a l -> unexp_on g (a :: set) l = unexp_on g set l.
Proof.
  intro H. induction l as [| y l IH]; [reflexivity |].
  rewrite !unexp_on_step, undone_cons_other.
  - rewrite IH; [reflexivity |]. intro Hin. apply H. right. exact Hin.
  - intro E. apply H. left. exact E.
Qed.

Lemma unexp_on_cons_in g set a l :
  NoDup l -> In a l -> ~ In a set -> unexp_on g (a :: set) l + length (deps g a) = unexp_on g set l.
Proof.
  intros Hnd Hin Hset. induction l as [| y l IH]; [destruct Hin |].
  inversion Hnd as [| y' l' Hy Hnd']; subst. rewrite !unexp_on_step.
  destruct (Nat.eq_dec y a) as [E | E].
  - subst y. rewrite (unexp_on_cons_notin g set a l Hy).
    assert (E1 : undone g (a :: set) a = 0).
    { unfold undone, mem_nat. cbn [existsb]. rewrite Nat.eqb_refl. reflexivity. }
    assert (E2 : undone g set a = length (deps g a)).
    { unfold undone. apply mem_nat_false in Hset. rewrite Hset. reflexivity. }
    rewrite E1, E2. lia.
  - rewrite (undone_cons_other g set a y E).
    destruct Hin as [Hin | Hin]; [contradiction |]. specialize (IH Hnd' Hin). lia.
Qed.

Lemma unexp_cons g set a : ~ In a set -> unexp g (a :: set) + length (deps g a) = unexp g set.
Proof.
  intro Hset. unfold unexp. destruct (Nat.lt_ge_cases a (size g)) as [L | L].
  - apply unexp_on_cons_in; [apply seq_NoDup | apply in_seq; lia | exact Hset].
  - rewrite unexp_on_cons_notin by (intro H; apply in_seq in H; lia).
    unfold deps, size in *. rewrite (nth_overflow g [] L). simpl. lia.
Qed.

Lemma unexp_mono g set set' : (forall x, In x set -> In x set') -> unexp g set' <= unexp g set.
Proof. apply unexp_on_mono. Qed.

Lemma n_edges_edges g : n_edges g = edges g.
Proof. unfold n_edges. symmetry. apply edges_list_sum. Qed.

Lemma unexp_nil g : unexp g [] = n_edges g.
Proof.
  unfold unexp, unexp_on, n_edges. rewrite <- map_deps_length. f_equal.
Qed.

Lemma unexp_notin g set n : ~ In n set -> length (deps g n) <= unexp g set.
Proof. intro H. pose proof (unexp_cons g set n H). lia. Qed.

(* ------------------------------------------------------------------ invariants of one call *)

Lemma reach_lt_size g x n : wf_graph g -> reach g x n -> x < size g.
Proof.
  intros Hwf H. induction H as [x n Hin | x b n Hxb IH Hin]; [exact (Hwf n x Hin) | exact IH].
Qed.

Lemma reach_dep g d a n : In d (deps g a) -> reach g a n -> reach g d n.
Proof. intros Hd Ha. exact (reach_transitive g d a n (reach_step g d a Hd) Ha). Qed.

(* soundness: whatever is on the stack or in the set is an ancestor of n; the set is
   duplicate free *)
Definition inv_sound (g : graph) (n : nat) (s : st) : Prop :=
  (forall a, In a (s_stack s) -> reach g a n) /\
  (forall x, In x (s_set s) -> reach g x n) /\
  NoDup (s_set s).

(* closure: the dependencies of n and of every member of the set are in the set or still on
   the stack *)
Definition inv_closed (g : graph) (n : nat) (s : st) : Prop :=
  (forall d, In d (deps g n) -> In d (s_set s) \/ In d (s_stack s)) /\
  (forall x d, In x (s_set s) -> In d (deps g x) -> In d (s_set s) \/ In d (s_stack s)).

(* cost: pops made + pops to come never exceed the initial push plus all edges *)
Definition inv_cost (g : graph) (n : nat) (s : st) : Prop :=
  s_pops s + length (s_stack s) + unexp g (s_set s) <= length (deps g n) + n_edges g /\
  s_fresh s <= length (s_set s) /\
  s_merged s <= size g * s_fresh s.

Definition loop_mu (g : graph) (s : st) : nat := length (s_stack s) + unexp g (s_set s).

Lemma inv_sound_step g c n s s' :
  cache_sound g c -> inv_sound g n s -> step_case g c s s' -> inv_sound g n s'.
Proof.
  intros Hc [Hst [Hset Hnd]] Hcase.
  destruct Hcase as [a rest Es Hin E | a rest cs Es Hnin Ec E | a rest Es Hnin Ec E];
    subst s'; unfold inv_sound; cbn [s_stack s_set]; rewrite Es in Hst.
  - split; [intros b Hb; apply Hst; right; exact Hb |]. split; assumption.
  - assert (Ha : reach g a n) by (apply Hst; left; reflexivity).
    destruct (Hc a cs Ec) as [Hcnd Hcs].
    split; [intros b Hb; apply Hst; right; exact Hb |]. split.
    + intros x Hx. apply add_all_in in Hx. destruct Hx as [Hx | [Hx | Hx]].
      * apply Hcs in Hx. exact (reach_transitive g x a n Hx Ha).
      * subst x. exact Ha.
      * exact (Hset x Hx).
    + apply add_all_nodup. constructor; assumption.
  - assert (Ha : reach g a n) by (apply Hst; left; reflexivity).
    split.
    + intros b Hb. apply in_app_or in Hb. destruct Hb as [Hb | Hb].
      * apply in_rev in Hb. exact (reach_dep g b a n Hb Ha).
      * apply Hst. right. exact Hb.
    + split; [| constructor; assumption].
      intros x [Hx | Hx]; [subst x; exact Ha | exact (Hset x Hx)].
Qed.

Lemma inv_closed_step g c n s s' :
  cache_sound g c -> inv_closed g n s -> step_case g c s s' -> inv_closed g n s'.
Proof.
  intros Hc [Hn Hcl] Hcase.
  destruct Hcase as [a rest Es Hin E | a rest cs Es Hnin Ec E | a rest Es Hnin Ec E];
    subst s'; unfold inv_closed; cbn [s_stack s_set]; rewrite Es in Hn, Hcl.
  - assert (K : forall d, In d (s_set s) \/ In d (a :: rest) -> In d (s_set s) \/ In d rest).
    { intros d [H | [H | H]]; [left; exact H | subst d; left; exact Hin | right; exact H]. }
    split; [intros d Hd; apply K, Hn, Hd | intros x d Hx Hd; apply K, (Hcl x d Hx Hd)].
  - destruct (Hc a cs Ec) as [_ Hcs].
    assert (K : forall d, In d (s_set s) \/ In d (a :: rest) ->
                          In d (add_all cs (a :: s_set s)) \/ In d rest).
    { intros d [H | [H | H]].
      - left. apply add_all_in. right. right. exact H.
      - subst d. left. apply add_all_in. right. left. reflexivity.
      - right. exact H. }
    split; [intros d Hd; apply K, Hn, Hd |].
    intros x d Hx Hd. apply add_all_in in Hx. destruct Hx as [Hx | [Hx | Hx]].
    + left. apply add_all_in. left. apply Hcs. apply Hcs in Hx. exact (reach_dep g d x a Hd Hx).
    + subst x. left. apply add_all_in. left. apply Hcs. apply reach_step. exact Hd.
    + apply K, (Hcl x d Hx Hd).
  - assert (K : forall d, In d (s_set s) \/ In d (a :: rest) ->
                          In d (a :: s_set s) \/ In d (rev (deps g a) ++ rest)).
    { intros d [H | [H | H]].
      - left. right. exact H.
      - subst d. left. left. reflexivity.
      - right. apply in_or_app. right. exact H. }
    split; [intros d Hd; apply K, Hn, Hd |].
    intros x d [Hx | Hx] Hd.
    + subst x. right. apply in_or_app. left. apply in_rev in Hd. exact Hd.
    + apply K, (Hcl x d Hx Hd).
Qed.

Lemma cached_set_small g c a cs :
  wf_graph g -> cache_sound g c -> cache_get c a = Some cs -> length cs <= size g.
Proof.
  intros Hwf Hc Ec. destruct (Hc a cs Ec) as [Hnd Hcs].
  apply nodup_below_length; [exact Hnd |]. intros x Hx. apply Hcs in Hx. exact (reach_lt_size g x a Hwf Hx).
Qed.

Lemma loop_mu_step g c s s' : step_case g c s s' -> loop_mu g s' < loop_mu g s.
Proof.
  intro Hcase. unfold loop_mu.
  destruct Hcase as [a rest Es Hin E | a rest cs Es Hnin Ec E | a rest Es Hnin Ec E];
    subst s'; cbn [s_stack s_set]; rewrite Es; cbn [length].
  - lia.
  - assert (H : unexp g (add_all cs (a :: s_set s)) <= unexp g (s_set s)).
    { apply unexp_mono. intros x Hx. apply add_all_in. right. right. exact Hx. }
    lia.
  - pose proof (unexp_cons g (s_set s) a Hnin) as H.
    rewrite app_length, rev_length. lia.
Qed.

Lemma inv_cost_step g c n s s' :
  wf_graph g -> cache_sound g c -> inv_cost g n s -> step_case g c s s' -> inv_cost g n s'.
Proof.
  intros Hwf Hc [Hp [Hf Hm]] Hcase.
  pose proof (loop_mu_step g c s s' Hcase) as Hmu. unfold loop_mu in Hmu.
  destruct Hcase as [a rest Es Hin E | a rest cs Es Hnin Ec E | a rest Es Hnin Ec E];
    subst s'; unfold inv_cost; cbn [s_stack s_set s_pops s_fresh s_merged] in *.
  - split; [lia |]. split; assumption.
  - split; [lia |]. split.
    + pose proof (add_all_length cs (a :: s_set s)) as H. cbn [length] in H. lia.
    + pose proof (cached_set_small g c a cs Hwf Hc Ec) as H. nia.
  - split; [lia |]. split; [cbn [length]; lia | nia].
Qed.

(* ------------------------------------------------------------------ one call: the loop as a whole *)

Definition inv_all (g : graph) (n : nat) (s : st) : Prop :=
  inv_sound g n s /\ inv_closed g n s /\ inv_cost g n s.

Lemma inv_all_init g n : inv_all g n (init_st g n).
Proof.
  unfold inv_all, init_st. split; [| split].
  - unfold inv_sound. cbn [s_stack s_set]. split.
    + intros a Ha. apply in_rev in Ha. apply reach_step. exact Ha.
    + split; [intros x [] | constructor].
  - unfold inv_closed. cbn [s_stack s_set]. split.
    + intros d Hd. right. apply in_rev in Hd. exact Hd.
    + intros x d [].
  - unfold inv_cost. cbn [s_stack s_set s_pops s_fresh s_merged length].
    rewrite rev_length, unexp_nil. split; [lia |]. split; lia.
Qed.

Lemma anc_loop_total g c n :
  wf_graph g -> cache_sound g c ->
  exists s, anc_loop true g c (anc_fuel g n) (init_st g n) = LoopDone s /\ inv_all g n s /\ s_stack s = [].
Proof.
  intros Hwf Hc.
  apply (anc_loop_inv true g c (inv_all g n) (loop_mu g)).
  - intros s s' [H1 [H2 H3]] E. apply anc_step_cases in E. split.
    + split; [exact (inv_sound_step g c n s s' Hc H1 E) |].
      split; [exact (inv_closed_step g c n s s' Hc H2 E) | exact (inv_cost_step g c n s s' Hwf Hc H3 E)].
    + exact (loop_mu_step g c s s' E).
  - apply inv_all_init.
  - unfold loop_mu, init_st, anc_fuel. cbn [s_stack s_set]. rewrite rev_length, unexp_nil. lia.
Qed.

(* a set closed under [deps] contains every ancestor of its members *)
Lemma closed_reach g (R : list nat) :
  (forall x d, In x R -> In d (deps g x) -> In d R) ->
  forall a b, reach g a b -> In b R -> In a R.
Proof.
  intros Hcl a b H. induction H as [a b Hin | a m b Ham IH Hin]; intro Hb.
  - exact (Hcl b a Hb Hin).
  - apply IH. exact (Hcl b m Hb Hin).
Qed.

(* the final state: the ancestor set, exactly *)
Lemma final_set_exact g n s :
  inv_sound g n s -> inv_closed g n s -> s_stack s = [] ->
  NoDup (s_set s) /\ forall x, In x (s_set s) <-> reach g x n.
Proof.
  intros [_ [Hset Hnd]] [Hn Hcl] Es. rewrite Es in Hn, Hcl. split; [exact Hnd |].
  assert (Hn' : forall d, In d (deps g n) -> In d (s_set s)).
  { intros d Hd. destruct (Hn d Hd) as [H | []]. exact H. }
  assert (Hcl' : forall x d, In x (s_set s) -> In d (deps g x) -> In d (s_set s)).
  { intros x d Hx Hd. destruct (Hcl x d Hx Hd) as [H | []]. exact H. }
  intro x. split; [apply Hset |].
  intro H. inversion H as [x' n' Hin | x' b n' Hxb Hin]; subst.
  - exact (Hn' x Hin).
  - exact (closed_reach g (s_set s) Hcl' x b Hxb (Hn' b Hin)).
Qed.

(* ------------------------------------------------------------------ one call of getAncestorSet *)

(* what the counters of a call that missed the cache satisfy *)
Definition miss_cost (g : graph) (n : nat) (set : list nat) (k : cost) : Prop :=
  c_calls k = 1 /\
  c_pops k + unexp g set <= length (deps g n) + n_edges g /\
  c_fresh k <= length set /\
  c_merged k <= size g * c_fresh k.

Definition hit_cost : cost := mkCost 1 0 0 0.

Lemma ancestor_set_c_spec g c n :
  wf_graph g -> cache_sound g c ->
  exists set c' k,
    ancestor_set_c g c n = Some (set, c', k) /\
    NoDup set /\ (forall x, In x set <-> reach g x n) /\ cache_sound g c' /\
    ((cache_get c n = Some set /\ c' = c /\ k = hit_cost) \/
     (cache_get c n = None /\ c' = (n, set) :: c /\ miss_cost g n set k)).
Proof.
  intros Hwf Hc. unfold ancestor_set_c. destruct (cache_get c n) as [cs |] eqn:Ec.
  - destruct (Hc n cs Ec) as [Hnd Hcs].
    exists cs, c, hit_cost. split; [reflexivity |]. split; [exact Hnd |]. split; [exact Hcs |].
    split; [exact Hc |]. left. split; [reflexivity |]. split; reflexivity.
  - destruct (anc_loop_total g c n Hwf Hc) as [s [El [[H1 [H2 H3]] Es]]]. rewrite El.
    destruct (final_set_exact g n s H1 H2 Es) as [Hnd Hset].
    exists (s_set s), ((n, s_set s) :: c), (mkCost 1 (s_pops s) (s_fresh s) (s_merged s)).
    split; [reflexivity |]. split; [exact Hnd |]. split; [exact Hset |].
    split; [apply cache_sound_cons; assumption |].
    right. split; [reflexivity |]. split; [reflexivity |].
    destruct H3 as [Hp [Hf Hm]]. unfold miss_cost. cbn [c_calls c_pops c_fresh c_merged].
    rewrite Es in Hp. cbn [length] in Hp. split; [reflexivity |]. split; [lia |]. split; assumption.
Qed.

Lemma ancestor_set_size g n set :
  wf_graph g -> NoDup set -> (forall x, In x set <-> reach g x n) -> length set <= size g.
Proof.
  intros Hwf Hnd Hset. apply nodup_below_length; [exact Hnd |].
  intros x Hx. apply Hset in Hx. exact (reach_lt_size g x n Hwf Hx).
Qed.

Lemma miss_cost_bounds g n set k :
  wf_graph g -> NoDup set -> (forall x, In x set <-> reach g x n) -> miss_cost g n set k ->
  c_calls k = 1 /\ c_pops k <= length (deps g n) + n_edges g /\ c_fresh k <= size g /\
  c_merged k <= size g * size g /\ (~ reach g n n -> c_pops k <= n_edges g).
Proof.
  intros Hwf Hnd Hset [Hc [Hp [Hf Hm]]].
  pose proof (ancestor_set_size g n set Hwf Hnd Hset) as Hlen.
  split; [exact Hc |]. split; [lia |]. split; [lia |]. split; [nia |].
  intro Hac. assert (Hn : ~ In n set) by (intro H; apply Hset in H; exact (Hac H)).
  pose proof (unexp_notin g set n Hn). lia.
Qed.

Lemma hit_cost_bounds g n :
  c_calls hit_cost = 1 /\ c_pops hit_cost <= length (deps g n) + n_edges g /\ c_fresh hit_cost <= size g /\
  c_merged hit_cost <= size g * size g /\ (~ reach g n n -> c_pops hit_cost <= n_edges g).
Proof. unfold hit_cost. cbn [c_calls c_pops c_fresh c_merged]. repeat split; lia. Qed.

(* never out of fuel *)
Theorem ancestor_set_c_total g c n :
  wf_graph g -> cache_sound g c -> ancestor_set_c g c n <> None.
Proof.
  intros Hwf Hc. destruct (ancestor_set_c_spec g c n Hwf Hc) as [set [c' [k [E _]]]]. rewrite E. discriminate.
Qed.

(* the returned list is the ancestor set, duplicate free, and the cache stays sound *)
Theorem ancestor_set_c_correct g c n set c' k :
  wf_graph g -> cache_sound g c -> ancestor_set_c g c n = Some (set, c', k) ->
  NoDup set /\ (forall x, In x set <-> reach g x n) /\ cache_sound g c' /\ cache_get c' n = Some set.
Proof.
  intros Hwf Hc E. destruct (ancestor_set_c_spec g c n Hwf Hc) as [set0 [c0 [k0 [E0 [Hnd [Hset [Hc' Hcase]]]]]]].
  rewrite E in E0. inversion E0; subst set0 c0 k0. split; [exact Hnd |]. split; [exact Hset |]. split; [exact Hc' |].
  destruct Hcase as [[Eg [Ec _]] | [_ [Ec _]]]; subst c'; [exact Eg |].
  rewrite cache_get_cons, Nat.eqb_refl. reflexivity.
Qed.

(* all the bounds of one call *)
Lemma ancestor_set_c_cost g c n set c' k :
  wf_graph g -> cache_sound g c -> ancestor_set_c g c n = Some (set, c', k) ->
  c_calls k = 1 /\ c_pops k <= length (deps g n) + n_edges g /\ c_fresh k <= size g /\
  c_merged k <= size g * size g /\ (~ reach g n n -> c_pops k <= n_edges g).
Proof.
  intros Hwf Hc E. destruct (ancestor_set_c_spec g c n Hwf Hc) as [set0 [c0 [k0 [E0 [Hnd [Hset [Hc' Hcase]]]]]]].
  rewrite E in E0. inversion E0; subst set0 c0 k0.
  destruct Hcase as [[_ [_ Ek]] | [_ [_ Hk]]].
  - subst k. apply hit_cost_bounds.
  - exact (miss_cost_bounds g n set k Hwf Hnd Hset Hk).
Qed.

(* steps of one call: linear, whatever the number of paths and whatever the (sound) cache *)
Theorem ancestor_set_c_linear g c n set c' k :
  wf_graph g -> cache_sound g c -> ~ reach g n n -> ancestor_set_c g c n = Some (set, c', k) ->
  steps k <= size g + n_edges g + 1.
Proof.
  intros Hwf Hc Hac E. destruct (ancestor_set_c_cost g c n set c' k Hwf Hc E) as [H1 [_ [H3 [_ H5]]]].
  specialize (H5 Hac). unfold steps. lia.
Qed.

(* without the acyclicity hypothesis the initial push may be repeated once *)
Theorem ancestor_set_c_linear_cyclic g c n set c' k :
  wf_graph g -> cache_sound g c -> ancestor_set_c g c n = Some (set, c', k) ->
  steps k <= size g + n_edges g + length (deps g n) + 1.
Proof.
  intros Hwf Hc E. destruct (ancestor_set_c_cost g c n set c' k Hwf Hc E) as [H1 [H2 [H3 _]]].
  unfold steps. lia.
Qed.

(* the merge work of one call: at most one cached set per node added *)
Theorem ancestor_set_c_merged g c n set c' k :
  wf_graph g -> cache_sound g c -> ancestor_set_c g c n = Some (set, c', k) ->
  c_merged k <= size g * size g.
Proof.
  intros Hwf Hc E. destruct (ancestor_set_c_cost g c n set c' k Hwf Hc E) as [_ [_ [_ [H4 _]]]]. exact H4.
Qed.

(* ------------------------------------------------------------------ a sequence of calls *)

Lemma topo_acyclic g : topo g -> acyclic g.
Proof. intros Ht n H. pose proof (reach_topo_lt g n n Ht H). lia. Qed.

Definition cache_ok (g : graph) (c : cache) : Prop := cache_sound g c /\ NoDup (cache_keys c).

(* from cache c to cache c' by at most q calls, on nodes among ns, at total cost k:
   m = the calls that missed = the entries added; only they cost more than the lookup *)
Definition grows_by (g : graph) (c c' : cache) (k : cost) (q : nat) (ns : list nat) : Prop :=
  exists m,
    length c' = m + length c /\ m <= q /\ c_calls k <= q /\
    c_pops k <= m * n_edges g /\ c_fresh k <= m * size g /\ c_merged k <= m * (size g * size g) /\
    (forall x, In x (cache_keys c') -> In x (cache_keys c) \/ In x ns).

Lemma grows_by_refl g c : grows_by g c c cost_zero 0 [].
Proof.
  exists 0. unfold cost_zero. cbn [c_calls c_pops c_fresh c_merged].
  repeat split; try lia. intros x Hx. left. exact Hx.
Qed.

Lemma grows_by_trans g c c1 c2 k1 k2 q1 q2 ns1 ns2 :
  grows_by g c c1 k1 q1 ns1 -> grows_by g c1 c2 k2 q2 ns2 ->
  grows_by g c c2 (cost_add k1 k2) (q1 + q2) (ns1 ++ ns2).
Proof.
  intros [m1 [A1 [A2 [A3 [A4 [A5 [A6 A7]]]]]]] [m2 [B1 [B2 [B3 [B4 [B5 [B6 B7]]]]]]].
  exists (m1 + m2). unfold cost_add. cbn [c_calls c_pops c_fresh c_merged].
  rewrite !Nat.mul_add_distr_r.
  repeat split; try lia.
  intros x Hx. destruct (B7 x Hx) as [H | H].
  - destruct (A7 x H) as [H' | H']; [left; exact H' | right; apply in_or_app; left; exact H'].
  - right. apply in_or_app. right. exact H.
Qed.

Lemma grows_by_weaken g c c' k q q' ns ns' :
  grows_by g c c' k q ns -> q <= q' -> incl ns ns' -> grows_by g c c' k q' ns'.
Proof.
  intros [m [A1 [A2 [A3 [A4 [A5 [A6 A7]]]]]]] Hq Hns. exists m.
  repeat split; try lia; try assumption.
  intros x Hx. destruct (A7 x Hx) as [H | H]; [left; exact H | right; exact (Hns x H)].
Qed.

(* one call, in these terms *)
Lemma ancestor_set_c_grows g c n set c' k :
  wf_graph g -> acyclic g -> cache_ok g c -> ancestor_set_c g c n = Some (set, c', k) ->
  cache_ok g c' /\ grows_by g c c' k 1 [n] /\ forall x, In x set <-> reach g x n.
Proof.
  intros Hwf Hac [Hc Hk] E.
  destruct (ancestor_set_c_spec g c n Hwf Hc) as [set0 [c0 [k0 [E0 [Hnd [Hset [Hc' Hcase]]]]]]].
  rewrite E in E0. inversion E0; subst set0 c0 k0.
  destruct Hcase as [[_ [Ec Ek]] | [Eg [Ec Hm]]]; subst c'.
  - split; [split; assumption |]. split; [| exact Hset].
    subst k. exists 0. unfold hit_cost. cbn [c_calls c_pops c_fresh c_merged].
    repeat split; try lia. intros x Hx. left. exact Hx.
  - split.
    + split; [exact Hc' |]. unfold cache_keys. cbn [map fst]. constructor; [| exact Hk].
      exact (cache_get_none_keys c n Eg).
    + split; [| exact Hset].
      destruct (miss_cost_bounds g n set k Hwf Hnd Hset Hm) as [H1 [_ [H3 [H4 H5]]]].
      specialize (H5 (Hac n)). exists 1. cbn [length]. repeat split; try lia.
      unfold cache_keys. cbn [map fst]. intros x [Hx | Hx]; [right; left; exact Hx | left; exact Hx].
Qed.

(* ------------------------------------------------------------------ targetsAreOrdered *)

Lemma ordered_c_spec g c a b :
  wf_graph g -> acyclic g -> cache_ok g c ->
  exists r c' k,
    ordered_c g c a b = Some (r, c', k) /\ cache_ok g c' /\ grows_by g c c' k 2 [a; b] /\
    (r = true <-> ordered_spec g a b).
Proof.
  intros Hwf Hac Hok. unfold ordered_c.
  pose proof (ancestor_set_c_total g c a Hwf (proj1 Hok)) as T1.
  destruct (ancestor_set_c g c a) as [[[sa c1] k1] |] eqn:E1; [clear T1 | contradiction].
  destruct (ancestor_set_c_grows g c a sa c1 k1 Hwf Hac Hok E1) as [Hok1 [G1 Hsa]].
  destruct (mem_nat b sa) eqn:Em.
  - exists true, c1, k1. split; [reflexivity |]. split; [exact Hok1 |]. split.
    + apply (grows_by_weaken g c c1 k1 1 2 [a] [a; b] G1); [lia |].
      intros x [Hx | []]. left. exact Hx.
    + split; [intros _ | reflexivity]. left. apply Hsa. apply mem_nat_spec. exact Em.
  - pose proof (ancestor_set_c_total g c1 b Hwf (proj1 Hok1)) as T2.
    destruct (ancestor_set_c g c1 b) as [[[sb c2] k2] |] eqn:E2; [clear T2 | contradiction].
    destruct (ancestor_set_c_grows g c1 b sb c2 k2 Hwf Hac Hok1 E2) as [Hok2 [G2 Hsb]].
    exists (mem_nat a sb), c2, (cost_add k1 k2). split; [reflexivity |]. split; [exact Hok2 |]. split.
    + exact (grows_by_trans g c c1 c2 k1 k2 1 1 [a] [b] G1 G2).
    + rewrite mem_nat_spec, Hsb. apply mem_nat_false in Em. unfold ordered_spec. split.
      * intro H. right. exact H.
      * intros [H | H]; [exfalso; apply Em, Hsa, H | exact H].
Qed.

(* ------------------------------------------------------------------ the pair loops *)

Definition pair_owners (ps : list (crec * crec)) : list nat :=
  flat_map (fun p => [cr_owner (fst p); cr_owner (snd p)]) ps.

Lemma cost_add_assoc a b c : cost_add (cost_add a b) c = cost_add a (cost_add b c).
Proof. unfold cost_add. cbn [c_calls c_pops c_fresh c_merged]. f_equal; lia. Qed.

Lemma cost_add_zero_r a : cost_add a cost_zero = a.
Proof. destruct a as [x y z w]. unfold cost_add, cost_zero. cbn [c_calls c_pops c_fresh c_merged]. f_equal; lia. Qed.

Lemma cost_add_zero_l a : cost_add cost_zero a = a.
Proof. destruct a as [x y z w]. reflexivity. Qed.

Lemma detect_loop_spec g :
  wf_graph g -> acyclic g ->
  forall ps c k acc, cache_ok g c ->
  exists out c' kd,
    detect_loop g ps c k acc = Some (out, c', cost_add k kd) /\ cache_ok g c' /\
    grows_by g c c' kd (2 * length ps) (pair_owners ps) /\
    (forall p, In p out <-> In p acc \/ (In p ps /\ conflicting g p)).
Proof.
  intros Hwf Hac ps. induction ps as [| p ps IH]; intros c k acc Hok.
  - exists (rev acc), c, cost_zero. cbn [detect_loop]. rewrite cost_add_zero_r.
    split; [reflexivity |]. split; [exact Hok |]. split; [apply grows_by_refl |].
    intro q. rewrite <- in_rev. split; [intro H; left; exact H | intros [H | [[] _]]; exact H].
  - cbn [detect_loop].
    destruct (ordered_c_spec g c (cr_owner (fst p)) (cr_owner (snd p)) Hwf Hac Hok)
      as [r [c1 [k1 [E1 [Hok1 [G1 Hr]]]]]].
    rewrite E1.
    destruct (IH c1 (cost_add k k1) (if r then acc else if clash p then p :: acc else acc) Hok1)
      as [out [c2 [kd [E2 [Hok2 [G2 Hout]]]]]].
    exists out, c2, (cost_add k1 kd). rewrite <- cost_add_assoc.
    split; [exact E2 |]. split; [exact Hok2 |]. split.
    + pose proof (grows_by_trans g c c1 c2 k1 kd _ _ _ _ G1 G2) as G.
      apply (grows_by_weaken g c c2 _ _ (2 * length (p :: ps)) _ (pair_owners (p :: ps)) G).
      * cbn [length]. lia.
      * intros x Hx. exact Hx.
    + intro q. rewrite Hout. unfold conflicting in *. split.
      * intros [H | [H1 H2]]; [| right; split; [right; exact H1 | exact H2]].
        destruct r; [left; exact H |].
        assert (Hno : ~ ordered_spec g (cr_owner (fst p)) (cr_owner (snd p))).
        { intro Ho. apply Hr in Ho. discriminate Ho. }
        destruct (clash p) eqn:Ecl; [| left; exact H].
        destruct H as [H | H]; [| left; exact H].
        subst q. right. split; [left; reflexivity |]. split; assumption.
      * intros [H | [[H1 | H1] [H2 H3]]].
        -- left. destruct r; [exact H |]. destruct (clash p); [right; exact H | exact H].
        -- subst q. left. destruct r.
           ++ exfalso. apply H2. apply Hr. reflexivity.
           ++ rewrite H3. left. reflexivity.
        -- right. split; [exact H1 |]. split; assumption.
Qed.

(* ------------------------------------------------------------------ how many pairs are compared *)

Lemma upairs_length {A} (l : list A) : 2 * length (upairs l) + length l = length l * length l.
Proof.
  induction l as [| x l IH]; [reflexivity |].
  cbn [upairs length]. rewrite app_length, map_length. lia.
Qed.

Lemma upairs_in {A} (l : list A) x y : In (x, y) (upairs l) -> In x l /\ In y l.
Proof.
  induction l as [| z l IH]; [intros [] |].
  cbn [upairs]. intro H. apply in_app_or in H. destruct H as [H | H].
  - apply in_map_iff in H. destruct H as [w [E Hw]]. inversion E; subst.
    split; [left; reflexivity | right; exact Hw].
  - destruct (IH H) as [H1 H2]. split; right; assumption.
Qed.

Lemma filter_length {A} (f : A -> bool) l : length (filter f l) <= length l.
Proof. induction l as [| x l IH]; [simpl; lia |]. simpl. destruct (f x); simpl; lia. Qed.

Lemma of_kind_partition recs :
  length (of_kind CFile recs) + length (of_kind CDir recs) + length (of_kind CDocker recs) = length recs.
Proof.
  unfold of_kind. induction recs as [| r recs IH]; [reflexivity |].
  cbn [filter]. destruct (cr_kind r); cbn [okind_eqb length]; lia.
Qed.

Lemma compared_length recs : 2 * length (compared recs) <= length recs * length recs.
Proof.
  unfold compared, cmp_docker, cmp_file, cmp_dir, cmp_dirfile.
  rewrite !app_length, prod_length.
  pose proof (filter_length same_key (upairs (of_kind CDocker recs))) as H1.
  pose proof (filter_length same_key (upairs (of_kind CFile recs))) as H2.
  pose proof (upairs_length (of_kind CDocker recs)) as U1.
  pose proof (upairs_length (of_kind CFile recs)) as U2.
  pose proof (upairs_length (of_kind CDir recs)) as U3.
  pose proof (of_kind_partition recs) as P.
  nia.
Qed.

Lemma compared_in recs p : In p (compared recs) -> In (fst p) recs /\ In (snd p) recs.
Proof.
  assert (K : forall k x, In x (of_kind k recs) -> In x recs).
  { intros k x Hx. unfold of_kind in Hx. apply filter_In in Hx. exact (proj1 Hx). }
  destruct p as [x y]. unfold compared, cmp_docker, cmp_file, cmp_dir, cmp_dirfile. cbn [fst snd].
  intro H. repeat (apply in_app_or in H; destruct H as [H | H]).
  - apply filter_In in H. destruct H as [H _]. apply upairs_in in H. destruct H; split; eapply K; eassumption.
  - apply filter_In in H. destruct H as [H _]. apply upairs_in in H. destruct H; split; eapply K; eassumption.
  - apply upairs_in in H. destruct H; split; eapply K; eassumption.
  - apply in_prod_iff in H. destruct H; split; eapply K; eassumption.
Qed.

Lemma pair_owners_in ps x :
  In x (pair_owners ps) -> exists p, In p ps /\ (x = cr_owner (fst p) \/ x = cr_owner (snd p)).
Proof.
  unfold pair_owners. intro H. apply in_flat_map in H. destruct H as [p [Hp Hx]].
  exists p. split; [exact Hp |]. destruct Hx as [Hx | [Hx | []]]; [left | right]; symmetry; exact Hx.
Qed.

Lemma compared_owners recs x : In x (pair_owners (compared recs)) -> In x (map cr_owner recs).
Proof.
  intro H. apply pair_owners_in in H. destruct H as [p [Hp Hx]].
  destruct (compared_in recs p Hp) as [H1 H2].
  destruct Hx as [Hx | Hx]; subst x; apply in_map; assumption.
Qed.

Lemma n_owners_le_records recs : n_owners recs <= length recs.
Proof.
  unfold n_owners. rewrite <- (map_length cr_owner recs).
  apply NoDup_incl_length; [apply NoDup_nodup |]. intros x Hx. apply nodup_In in Hx. exact Hx.
Qed.

Lemma n_owners_le_size g recs : owners_ok g recs -> n_owners recs <= size g.
Proof.
  intro Hok. unfold n_owners. apply nodup_below_length; [apply NoDup_nodup |].
  intros x Hx. apply nodup_In in Hx. apply in_map_iff in Hx. destruct Hx as [r [E Hr]]. subst x. exact (Hok r Hr).
Qed.

(* ------------------------------------------------------------------ the whole detection *)

(* m = the getAncestorSet calls that missed the cache = the size of the final cache *)
Definition detect_cost (g : graph) (recs : list crec) (k : cost) : Prop :=
  exists m,
    m <= n_owners recs /\ m <= length recs * length recs /\
    c_calls k <= length recs * length recs /\
    c_pops k <= m * n_edges g /\ c_fresh k <= m * size g /\ c_merged k <= m * (size g * size g).

Lemma cache_ok_nil g : cache_ok g [].
Proof. split; [apply cache_sound_nil | constructor]. Qed.

Lemma detect_conflicts_c_spec g recs :
  wf_graph g -> acyclic g ->
  exists out c' k,
    detect_conflicts_c g recs = Some (out, c', k) /\ cache_ok g c' /\ detect_cost g recs k /\
    (forall p, In p out <-> In p (compared recs) /\ conflicting g p).
Proof.
  intros Hwf Hac. unfold detect_conflicts_c.
  destruct (detect_loop_spec g Hwf Hac (compared recs) [] cost_zero [] (cache_ok_nil g))
    as [out [c' [kd [E [Hok [[m [M1 [M2 [M3 [M4 [M5 [M6 M7]]]]]]] Hout]]]]]].
  rewrite cost_add_zero_l in E.
  exists out, c', kd. split; [exact E |]. split; [exact Hok |]. split.
  - pose proof (compared_length recs) as HP. cbn [length] in M1. rewrite Nat.add_0_r in M1.
    exists m. split; [| split; [lia | split; [lia | split; [exact M4 | split; [exact M5 | exact M6]]]]].
    rewrite <- M1, <- (map_length fst c'). fold (cache_keys c'). unfold n_owners.
    apply NoDup_incl_length; [exact (proj2 Hok) |].
    intros x Hx. apply nodup_In. destruct (M7 x Hx) as [[] | H]. exact (compared_owners recs x H).
  - intro p. rewrite Hout. split; [intros [[] | H]; exact H | intro H; right; exact H].
Qed.

Theorem detect_conflicts_c_total g recs :
  wf_graph g -> acyclic g -> detect_conflicts_c g recs <> None.
Proof.
  intros Hwf Hac. destruct (detect_conflicts_c_spec g recs Hwf Hac) as [out [c' [k [E _]]]].
  rewrite E. discriminate.
Qed.

Lemma detect_conflicts_c_cost g recs out c' k :
  wf_graph g -> acyclic g -> detect_conflicts_c g recs = Some (out, c', k) -> detect_cost g recs k.
Proof.
  intros Hwf Hac E. destruct (detect_conflicts_c_spec g recs Hwf Hac) as [out0 [c0 [k0 [E0 [_ [H _]]]]]].
  rewrite E in E0. inversion E0; subst. exact H.
Qed.

(* the reported pairs are exactly the compared pairs that are unordered and clash *)
Theorem detect_conflicts_c_correct g recs out c' k :
  wf_graph g -> acyclic g -> detect_conflicts_c g recs = Some (out, c', k) ->
  forall p, In p out <-> In p (compared recs) /\ conflicting g p.
Proof.
  intros Hwf Hac E. destruct (detect_conflicts_c_spec g recs Hwf Hac) as [out0 [c0 [k0 [E0 [_ [_ H]]]]]].
  rewrite E in E0. inversion E0; subst. exact H.
Qed.

(* with memoisation: one linear traversal per target that owns an output, one lookup per
   getAncestorSet call; the merge work is bounded separately *)
Theorem detect_conflicts_c_sharp g recs out c' k :
  wf_graph g -> acyclic g -> detect_conflicts_c g recs = Some (out, c', k) ->
  steps k <= n_owners recs * (size g + n_edges g) + length recs * length recs /\
  c_merged k <= n_owners recs * (size g * size g).
Proof.
  intros Hwf Hac E.
  destruct (detect_conflicts_c_cost g recs out c' k Hwf Hac E) as [m [M1 [M2 [M3 [M4 [M5 M6]]]]]].
  unfold steps. split; nia.
Qed.

(* the simple polynomial: every call bounded on its own *)
Theorem detect_conflicts_c_poly g recs out c' k :
  wf_graph g -> acyclic g -> detect_conflicts_c g recs = Some (out, c', k) ->
  steps k <= length recs * length recs * (size g + n_edges g + 1) /\
  work k <= length recs * length recs * (size g + n_edges g + 1 + size g * size g).
Proof.
  intros Hwf Hac E.
  destruct (detect_conflicts_c_cost g recs out c' k Hwf Hac E) as [m [M1 [M2 [M3 [M4 [M5 M6]]]]]].
  unfold work, steps. split; nia.
Qed.

(* in terms of V and E alone, for records owned by nodes of the graph *)
Theorem detect_conflicts_c_sharp_VE g recs out c' k :
  wf_graph g -> acyclic g -> owners_ok g recs -> detect_conflicts_c g recs = Some (out, c', k) ->
  work k <= size g * (size g + n_edges g + size g * size g) + length recs * length recs.
Proof.
  intros Hwf Hac Hown E.
  destruct (detect_conflicts_c_sharp g recs out c' k Hwf Hac E) as [H1 H2].
  pose proof (n_owners_le_size g recs Hown) as HT. unfold work. nia.
Qed.

(* the bound the measurements are held against: no more records than nodes (the harness
   declares one output on every second node) keeps the steps below 2 (V+E+1)^2 *)
Theorem detect_conflicts_c_small g recs out c' k :
  wf_graph g -> acyclic g -> length recs <= size g -> detect_conflicts_c g recs = Some (out, c', k) ->
  steps k <= 2 * (size g + n_edges g + 1) ^ 2.
Proof.
  intros Hwf Hac HR E.
  destruct (detect_conflicts_c_sharp g recs out c' k Hwf Hac E) as [H1 _].
  pose proof (n_owners_le_records recs) as HT. cbn [Nat.pow]. nia.
Qed.

(* ------------------------------------------------------------------ contrast: no seen-set, no cache *)

Lemma anc_step_paths g s s' :
  anc_step false g [] s = Some s' ->
  exists a rest, s_stack s = a :: rest /\
    s' = mkSt (rev (deps g a) ++ rest) (a :: s_set s) (S (s_pops s)) (S (s_fresh s)) (s_merged s).
Proof.
  unfold anc_step. destruct (s_stack s) as [| a rest]; [discriminate |].
  cbn [andb cache_get]. intro H. inversion H. exists a, rest. split; reflexivity.
Qed.

Lemma flat_map_ext_in {A B} (f h : A -> list B) l :
  (forall x, In x l -> f x = h x) -> flat_map f l = flat_map h l.
Proof.
  intro H. induction l as [| x l IH]; [reflexivity |].
  cbn [flat_map]. rewrite (H x (or_introl eq_refl)), IH; [reflexivity |].
  intros y Hy. apply H. right. exact Hy.
Qed.

(* under a topological numbering the enumeration below n does not depend on the fuel *)
Lemma paths_fuel g : topo g ->
  forall f1 f2 n, n < f1 -> n < f2 -> paths (deps g) f1 n = paths (deps g) f2 n.
Proof.
  intros Ht f1. induction f1 as [| f1 IH]; intros f2 n H1 H2; [lia |].
  destruct f2 as [| f2]; [lia |]. rewrite !paths_S. apply flat_map_ext_in.
  intros d Hd. specialize (Ht n d Hd). f_equal. apply IH; lia.
Qed.

(* the number of dependency paths ending in a, plus one (= Select.ancestors_paths_cost g a) *)
Definition pcw (g : graph) (a : nat) : nat := S (length (ancestors_paths g a)).
Definition sumw (g : graph) (l : list nat) : nat := list_sum (map (pcw g) l).

Lemma pcw_unfold g a : topo g -> pcw g a = S (sumw g (deps g a)).
Proof.
  intro Ht. unfold sumw, pcw, ancestors_paths. rewrite paths_S, flat_map_length_sum. f_equal. f_equal.
  apply map_ext_in. intros d Hd. pose proof (Ht a d Hd) as Hlt. cbn [length]. f_equal. f_equal.
  apply paths_fuel; [exact Ht | lia | lia].
Qed.

Lemma sumw_app g a b : sumw g (a ++ b) = sumw g a + sumw g b.
Proof. unfold sumw. rewrite map_app, list_sum_app. reflexivity. Qed.

Lemma sumw_rev g l : sumw g (rev l) = sumw g l.
Proof.
  induction l as [| x l IH]; [reflexivity |].
  cbn [rev]. rewrite sumw_app, IH. unfold sumw. simpl. lia.
Qed.

Definition paths_inv (g : graph) (K : nat) (s : st) : Prop :=
  s_pops s + sumw g (s_stack s) = K /\ s_fresh s = s_pops s /\ s_merged s = 0.

Lemma paths_inv_step g K s s' :
  topo g -> paths_inv g K s -> anc_step false g [] s = Some s' ->
  paths_inv g K s' /\ sumw g (s_stack s') < sumw g (s_stack s).
Proof.
  intros Ht [H1 [H2 H3]] E. apply anc_step_paths in E. destruct E as [a [rest [Es E]]]. subst s'.
  unfold paths_inv. cbn [s_stack s_pops s_fresh s_merged]. rewrite Es in *.
  rewrite sumw_app, sumw_rev.
  assert (Hc : sumw g (a :: rest) = pcw g a + sumw g rest) by reflexivity.
  rewrite Hc in *. rewrite (pcw_unfold g a Ht) in *. repeat split; lia.
Qed.

(* the loop without the seen-set pops once per dependency path *)
Theorem ancestor_set_paths_c_cost g n fuel :
  topo g -> length (ancestors_paths g n) <= fuel ->
  exists set k, ancestor_set_paths_c fuel g n = Some (set, k) /\
    c_pops k = length (ancestors_paths g n) /\ c_fresh k = c_pops k /\ c_merged k = 0 /\
    S (c_pops k) = ancestors_paths_cost g n.
Proof.
  intros Ht Hf. unfold ancestor_set_paths_c.
  pose (K := length (ancestors_paths g n)).
  assert (HK : sumw g (rev (deps g n)) = K).
  { rewrite sumw_rev. pose proof (pcw_unfold g n Ht) as H. unfold pcw in H. unfold K. lia. }
  destruct (anc_loop_inv false g [] (paths_inv g K) (fun s => sumw g (s_stack s))
              (fun s s' HP E => paths_inv_step g K s s' Ht HP E) fuel (init_st g n))
    as [s [El [[H1 [H2 H3]] Es]]].
  - unfold paths_inv, init_st. cbn [s_stack s_pops s_fresh s_merged]. rewrite HK. repeat split; lia.
  - unfold init_st. cbn [s_stack]. rewrite HK. exact Hf.
  - rewrite El. exists (s_set s), (mkCost 1 (s_pops s) (s_fresh s) (s_merged s)).
    cbn [c_pops c_fresh c_merged]. rewrite Es in H1. change (sumw g []) with 0 in H1.
    split; [reflexivity |]. rewrite ancestors_paths_cost_eq. unfold K in H1. repeat split; lia.
Qed.

(* ... which is 2^(d+1) - 2 from the top of the ladder of width 2 and depth d *)
Theorem ancestor_set_paths_c_ladder2 d fuel :
  2 ^ (d + 1) - 2 <= fuel ->
  exists set k, ancestor_set_paths_c fuel (ladder 2 d) (2 * d) = Some (set, k) /\
    S (c_pops k) = 2 ^ (d + 1) - 1.
Proof.
  intro Hf. pose proof (ancestors_cost_ladder2 d) as Hc.
  pose proof (ancestors_paths_cost_eq (ladder 2 d) (2 * d)) as He.
  destruct (ancestor_set_paths_c_cost (ladder 2 d) (2 * d) fuel (ladder_topo 2 d)) as [set [k [E [_ [_ [_ H]]]]]].
  - lia.
  - exists set, k. split; [exact E | lia].
Qed.

(* ------------------------------------------------------------------ an empty cache: nothing to merge *)

Lemma anc_loop_nocache g : forall fuel s s',
  anc_loop true g [] fuel s = LoopDone s' -> s_merged s' = s_merged s.
Proof.
  assert (K : forall s s1, anc_step true g [] s = Some s1 -> s_merged s1 = s_merged s).
  { intros s s1 E. apply anc_step_cases in E.
    destruct E as [a rest Es Hin E | a rest cs Es Hnin Ec E | a rest Es Hnin Ec E];
      [subst s1; reflexivity | discriminate Ec | subst s1; reflexivity]. }
  induction fuel as [| f IH]; intros s s' H; cbn [anc_loop] in H;
    destruct (anc_step true g [] s) as [s1 |] eqn:E.
  - discriminate H.
  - inversion H. reflexivity.
  - rewrite (IH s1 s' H). exact (K s s1 E).
  - inversion H. reflexivity.
Qed.

(* a first call (nothing cached yet) is linear in everything it does *)
Theorem ancestor_set_c_nocache g n set c' k :
  wf_graph g -> ~ reach g n n -> ancestor_set_c g [] n = Some (set, c', k) ->
  c_merged k = 0 /\ work k <= size g + n_edges g + 1.
Proof.
  intros Hwf Hac E.
  pose proof (ancestor_set_c_linear g [] n set c' k Hwf (cache_sound_nil g) Hac E) as Hl.
  assert (Hm : c_merged k = 0).
  { unfold ancestor_set_c in E. cbn [cache_get] in E.
    destruct (anc_loop true g [] (anc_fuel g n) (init_st g n)) as [| s] eqn:El; [discriminate |].
    apply anc_loop_nocache in El. inversion E; subst. cbn [c_merged]. exact El. }
  split; [exact Hm |]. unfold work. lia.
Qed.

(* ------------------------------------------------------------------ concrete graphs *)

Lemma topo_wf g : topo g -> wf_graph g.
Proof.
  intros Ht i d Hd. pose proof (Ht i d Hd) as Hlt.
  destruct (Nat.lt_ge_cases i (size g)) as [L | L]; [lia |].
  unfold deps, size in *. rewrite (nth_overflow g [] L) in Hd. destruct Hd.
Qed.

Lemma topob_from_spec : forall g i, topob_from i g = true ->
  forall j d, In d (nth j g []) -> d < i + j.
Proof.
  induction g as [| ds g IH]; intros i H j d Hd.
  - destruct j; destruct Hd.
  - cbn [topob_from] in H. apply andb_true_iff in H. destruct H as [H1 H2].
    destruct j as [| j].
    + cbn [nth] in Hd. rewrite forallb_forall in H1. specialize (H1 d Hd). apply Nat.ltb_lt in H1. lia.
    + cbn [nth] in Hd. specialize (IH (S i) H2 j d Hd). lia.
Qed.

Lemma topob_topo g : topob g = true -> topo g.
Proof. intros H i d Hd. exact (topob_from_spec g 0 H i d Hd). Qed.

Lemma deps_dense n i : i < n -> deps (dense n) i = seq 0 i.
Proof.
  intro Hi. unfold deps, dense.
  pose proof (map_nth (fun i => seq 0 i) (seq 0 n) 0 i) as E.
  rewrite seq_nth in E by exact Hi. exact E.
Qed.

Lemma dense_topo n : topo (dense n).
Proof.
  intros i d H. destruct (Nat.lt_ge_cases i n) as [L | L].
  - rewrite (deps_dense n i L) in H. apply in_seq in H. lia.
  - unfold deps, dense in H. rewrite nth_overflow in H by (rewrite map_length, seq_length; exact L). destruct H.
Qed.

Lemma every_second_owners g : owners_ok g (every_second g).
Proof.
  intros r Hr. unfold every_second in Hr. apply in_map_iff in Hr. destruct Hr as [i [E Hi]].
  subst r. cbn [cr_owner]. apply filter_In in Hi. destruct Hi as [Hi _]. apply in_seq in Hi. lia.
Qed.

(* ------------------------------------------------------------------ non-vacuity and sanity *)

(* a call that finds a non-empty sound cache: the top of ladder 2 6 after layer 3 was cached *)
Example ancestor_set_c_nonvacuous :
  exists g c n set c' k,
    wf_graph g /\ c <> [] /\ cache_sound g c /\ ~ reach g n n /\
    ancestor_set_c g c n = Some (set, c', k) /\
    k = mkCost 1 20 12 6 /\ steps k <= size g + n_edges g + 1 /\ length set = 12.
Proof.
  pose (g := ladder 2 6).
  assert (Hwf : wf_graph g) by (apply topo_wf, ladder_topo).
  assert (E1 : ancestor_set_c g [] 6 = Some ([4; 2; 0; 1; 3; 5], [(6, [4; 2; 0; 1; 3; 5])], mkCost 1 10 6 0))
    by (vm_compute; reflexivity).
  destruct (ancestor_set_c_correct g [] 6 _ _ _ Hwf (cache_sound_nil g) E1) as [_ [_ [Hc _]]].
  exists g, [(6, [4; 2; 0; 1; 3; 5])], 12, [10; 8; 6; 4; 2; 0; 1; 3; 5; 7; 9; 11],
         [(12, [10; 8; 6; 4; 2; 0; 1; 3; 5; 7; 9; 11]); (6, [4; 2; 0; 1; 3; 5])], (mkCost 1 20 12 6).
  split; [exact Hwf |]. split; [discriminate |]. split; [exact Hc |].
  split; [exact (topo_acyclic g (ladder_topo 2 6) 12) |].
  split; [vm_compute; reflexivity |]. split; [reflexivity |].
  split; [apply Nat.leb_le; vm_compute; reflexivity | reflexivity].
Qed.

(* what a detection run is summarised to: conflicts found, cache entries, cost *)
Definition summary (r : option (list (crec * crec) * cache * cost)) : option (nat * nat * cost) :=
  match r with Some (out, c, k) => Some (length out, length c, k) | None => None end.

Definition family_ok (g : graph) : Prop :=
  wf_graph g /\ acyclic g /\ owners_ok g (every_second g).

Lemma family_ok_topo g : topo g -> family_ok g.
Proof.
  intro Ht. split; [exact (topo_wf g Ht) |]. split; [exact (topo_acyclic g Ht) | apply every_second_owners].
Qed.

(* V = 14, E = 24, R = T = 7: 21 pairs, 42 calls of which 7 miss *)
Example detect_ladder_2_6 :
  family_ok (ladder 2 6) /\
  summary (detect_conflicts_c (ladder 2 6) (every_second (ladder 2 6))) = Some (0, 7, mkCost 42 42 42 70) /\
  (size (ladder 2 6), n_edges (ladder 2 6), length (every_second (ladder 2 6)), n_owners (every_second (ladder 2 6)))
  = (14, 24, 7, 7).
Proof.
  split; [apply family_ok_topo, ladder_topo |]. split; vm_compute; reflexivity.
Qed.

(* V = 6, E = 15, R = T = 3 *)
Example detect_dense_6 :
  family_ok (dense 6) /\
  summary (detect_conflicts_c (dense 6) (every_second (dense 6))) = Some (0, 3, mkCost 6 10 4 2) /\
  (size (dense 6), n_edges (dense 6), length (every_second (dense 6)), n_owners (every_second (dense 6)))
  = (6, 15, 3, 3).
Proof.
  split; [apply family_ok_topo, dense_topo |]. split; vm_compute; reflexivity.
Qed.

(* V = 10, E = 9, R = T = 5 *)
Example detect_chain_10 :
  family_ok (chain 10) /\
  summary (detect_conflicts_c (chain 10) (every_second (chain 10))) = Some (0, 5, mkCost 20 8 8 12) /\
  (size (chain 10), n_edges (chain 10), length (every_second (chain 10)), n_owners (every_second (chain 10)))
  = (10, 9, 5, 5).
Proof.
  split; [apply family_ok_topo, chain_topo |]. split; vm_compute; reflexivity.
Qed.

(* conflicts are found: 0 and 1 are unordered (both below 2, which is below 3); they share an
   image tag, and 0's directory o contains 1's file o/x; 1 and 3 write the same file but are
   ordered *)
Definition fork : graph := [[]; []; [0; 1]; [2]].
Definition key_o : str := ["o"]%char.
Definition key_ox : str := ["o"; "/"; "x"]%char.
Definition fork_recs : list crec :=
  [mkCrec 0 CDir key_o; mkCrec 1 CFile key_ox; mkCrec 3 CFile key_ox;
   mkCrec 2 CDocker key_o; mkCrec 0 CDocker key_o; mkCrec 1 CDocker key_o].

Example detect_fork :
  wf_graph fork /\ acyclic fork /\ owners_ok fork fork_recs /\
  detect_conflicts_c fork fork_recs =
    Some ([(mkCrec 0 CDocker key_o, mkCrec 1 CDocker key_o); (mkCrec 0 CDir key_o, mkCrec 1 CFile key_ox)],
          [(3, [1; 0; 2]); (1, []); (0, []); (2, [0; 1])], mkCost 10 3 3 2).
Proof.
  assert (Ht : topo fork) by (apply topob_topo; vm_compute; reflexivity).
  split; [exact (topo_wf fork Ht) |]. split; [exact (topo_acyclic fork Ht) |]. split.
  - intros r Hr. unfold fork_recs in Hr.
    repeat (destruct Hr as [Hr | Hr]; [subst r; cbn [cr_owner size fork length]; lia |]). destruct Hr.
  - vm_compute. reflexivity.
Qed.

(* the seen-set is what makes the difference: from the top of ladder 2 6 the loop pops 22
   stack entries with it and 126 (one per dependency path) without *)
Example seen_set_contrast :
  (exists set c', ancestor_set_c (ladder 2 6) [] 12 = Some (set, c', mkCost 1 22 12 0)) /\
  (exists set, ancestor_set_paths_c 126 (ladder 2 6) 12 = Some (set, mkCost 1 126 126 0)).
Proof. split; eexists; [eexists |]; vm_compute; reflexivity. Qed.

(* without the seen-set no polynomial bound holds: the 30-node ladder exceeds 4 (V+E+1)^2 *)
Theorem ancestor_set_paths_poly_refuted :
  exists g n fuel set k, topo g /\ ancestor_set_paths_c fuel g n = Some (set, k) /\
    S (c_pops k) > 4 * (size g + n_edges g + 1) ^ 2.
Proof.
  destruct (ancestor_set_paths_c_ladder2 14 (2 ^ 15 - 2) (le_n _)) as [set [k [E Hk]]].
  exists (ladder 2 14), (2 * 14), (2 ^ 15 - 2), set, k.
  split; [apply ladder_topo |]. split; [exact E |].
  rewrite Hk. unfold gt. apply Nat.ltb_lt. vm_compute. reflexivity.
Qed.

(* ------------------------------------------------------------------ the same sets as Analysis.v *)

(* an index graph as a set of packages of the label-level model: node i is a target labelled
   //:nn..n (i letters) depending on the labels of [deps g i] *)
Definition lab (i : nat) : label := mkLabel [] (repeat "n"%char i).
Definition to_node (g : graph) (i : nat) : Analysis.node :=
  Analysis.NTarget (Analysis.mkTarget (lab i) (map lab (deps g i)) [] [] [] [] false).
Definition to_nodes (g : graph) : Analysis.nodes := map (to_node g) (seq 0 (size g)).

Lemma lab_inj i j : lab i = lab j -> i = j.
Proof.
  intro H. apply (f_equal lname) in H. apply (f_equal (@length _)) in H.
  unfold lab in H. cbn [lname] in H. rewrite !repeat_length in H. exact H.
Qed.

Lemma in_map_lab x l : In (lab x) (map lab l) <-> In x l.
Proof.
  split; [| apply in_map]. intro H. apply in_map_iff in H. destruct H as [y [E Hy]].
  apply lab_inj in E. subst y. exact Hy.
Qed.

Lemma deps_in_range g x n : In x (deps g n) -> n < size g.
Proof.
  intro H. destruct (Nat.lt_ge_cases n (size g)) as [L | L]; [exact L |].
  unfold deps, size in *. rewrite (nth_overflow g [] L) in H. destruct H.
Qed.

Lemma labels_to_nodes g : Analysis.labels (to_nodes g) = map lab (seq 0 (size g)).
Proof. unfold Analysis.labels, to_nodes. rewrite map_map. reflexivity. Qed.

Lemma NoDup_map_inj {A B} (f : A -> B) l :
  (forall x y, f x = f y -> x = y) -> NoDup l -> NoDup (map f l).
Proof.
  intros Hinj H. induction H as [| x l Hx Hnd IH]; [constructor |].
  cbn [map]. constructor; [| exact IH]. intro Hin. apply in_map_iff in Hin.
  destruct Hin as [y [E Hy]]. apply Hinj in E. subst y. exact (Hx Hy).
Qed.

Lemma to_nodes_nodup g : NoDup (Analysis.labels (to_nodes g)).
Proof. rewrite labels_to_nodes. apply NoDup_map_inj; [exact lab_inj | apply seq_NoDup]. Qed.

Lemma to_nodes_no_dangling g : wf_graph g -> Analysis.no_dangling (to_nodes g).
Proof.
  intros Hwf nd d Hnd Hd. unfold to_nodes in Hnd. apply in_map_iff in Hnd.
  destruct Hnd as [i [E Hi]]. subst nd. cbn [to_node Analysis.node_deps Analysis.t_deps] in Hd.
  apply in_map_iff in Hd. destruct Hd as [x [E Hx]]. subst d.
  rewrite labels_to_nodes. apply in_map. apply in_seq. specialize (Hwf i x Hx). lia.
Qed.

Lemma to_nodes_edge g A M :
  Analysis.edge (to_nodes g) A M <-> exists x n, A = lab x /\ M = lab n /\ In x (deps g n).
Proof.
  unfold Analysis.edge. split.
  - intros [nd [Hnd [Hl Hd]]]. unfold to_nodes in Hnd. apply in_map_iff in Hnd.
    destruct Hnd as [i [E Hi]]. subst nd.
    cbn [to_node Analysis.node_label Analysis.t_label] in Hl.
    cbn [to_node Analysis.node_deps Analysis.t_deps] in Hd.
    apply in_map_iff in Hd. destruct Hd as [x [E Hx]].
    exists x, i. split; [symmetry; exact E |]. split; [symmetry; exact Hl | exact Hx].
  - intros [x [n [EA [EM Hx]]]]. subst A M. exists (to_node g n). split.
    + unfold to_nodes. apply in_map. apply in_seq. pose proof (deps_in_range g x n Hx). lia.
    + split; [reflexivity |]. cbn [to_node Analysis.node_deps Analysis.t_deps]. apply in_map. exact Hx.
Qed.

Lemma to_nodes_reach_to g x n : reach g x n -> Analysis.reach (to_nodes g) (lab x) (lab n).
Proof.
  intro H. induction H as [x n Hin | x b n Hxb IH Hin].
  - apply Analysis.reach_step. apply to_nodes_edge. exists x, n. auto.
  - apply (Analysis.reach_trans (to_nodes g) (lab x) (lab b) (lab n) IH).
    apply to_nodes_edge. exists b, n. auto.
Qed.

Lemma to_nodes_reach_from g A M :
  Analysis.reach (to_nodes g) A M -> exists x n, A = lab x /\ M = lab n /\ reach g x n.
Proof.
  intro H. induction H as [A M He | A B M HAB IH He].
  - apply to_nodes_edge in He. destruct He as [x [n [EA [EM Hx]]]].
    exists x, n. split; [exact EA |]. split; [exact EM | apply reach_step; exact Hx].
  - destruct IH as [x [b [EA [EB Hxb]]]].
    apply to_nodes_edge in He. destruct He as [b' [n [EB' [EM Hb]]]].
    rewrite EB in EB'. apply lab_inj in EB'. subst b'.
    exists x, n. split; [exact EA |]. split; [exact EM | exact (reach_trans g x b n Hxb Hb)].
Qed.

Lemma to_nodes_reach g x n : reach g x n <-> Analysis.reach (to_nodes g) (lab x) (lab n).
Proof.
  split; [apply to_nodes_reach_to |]. intro H. apply to_nodes_reach_from in H.
  destruct H as [x' [n' [Ex [En H]]]]. apply lab_inj in Ex. apply lab_inj in En. subst x' n'. exact H.
Qed.

(* the set returned by the instrumented, cached, explicit-stack loop is the set the
   functional model of Analysis.v computes for the same graph *)
Theorem ancestor_set_c_matches_analysis g c n set c' k :
  wf_graph g -> cache_sound g c -> ancestor_set_c g c n = Some (set, c', k) ->
  (forall x, In x set <-> In (lab x) (Analysis.ancestor_set (to_nodes g) (lab n))) /\
  (forall A, In A (Analysis.ancestor_set (to_nodes g) (lab n)) -> exists x, A = lab x /\ In x set).
Proof.
  intros Hwf Hc E.
  destruct (ancestor_set_c_correct g c n set c' k Hwf Hc E) as [_ [Hset _]].
  pose proof (to_nodes_nodup g) as Hnd. pose proof (to_nodes_no_dangling g Hwf) as Hdg.
  split.
  - intro x. rewrite (Ancestors_proofs.ancestor_set_spec (to_nodes g) (lab n) (lab x) Hnd Hdg).
    rewrite Hset. apply to_nodes_reach.
  - intros A HA. apply (Ancestors_proofs.ancestor_set_spec (to_nodes g) (lab n) A Hnd Hdg) in HA.
    apply to_nodes_reach_from in HA. destruct HA as [x [n' [EA [En H]]]].
    apply lab_inj in En. subst n'. exists x. split; [exact EA | apply Hset; exact H].
Qed.

(* and targetsAreOrdered answers what Analysis.ordered answers *)
Theorem ordered_c_matches_analysis g c a b r c' k :
  wf_graph g -> acyclic g -> cache_ok g c -> ordered_c g c a b = Some (r, c', k) ->
  r = Analysis.ordered (to_nodes g) (lab a) (lab b).
Proof.
  intros Hwf Hac Hok E.
  destruct (ordered_c_spec g c a b Hwf Hac Hok) as [r0 [c0 [k0 [E0 [_ [_ Hr]]]]]].
  rewrite E in E0. inversion E0; subst r0 c0 k0.
  pose proof (Ancestors_proofs.ordered_iff (to_nodes g) (lab a) (lab b) (to_nodes_nodup g)
                (to_nodes_no_dangling g Hwf)) as Ho.
  assert (Hiff : r = true <-> Analysis.ordered (to_nodes g) (lab a) (lab b) = true).
  { rewrite Hr, Ho. unfold ordered_spec, Analysis.ordered_spec. rewrite <- !to_nodes_reach. tauto. }
  destruct r; destruct (Analysis.ordered (to_nodes g) (lab a) (lab b)); try reflexivity.
  - symmetry. apply Hiff. reflexivity.
  - apply Hiff. reflexivity.
Qed.

Example matches_analysis_nonvacuous :
  map lab [10; 8; 6; 4; 2; 0; 1; 3; 5; 7; 9; 11] =
    rev (Analysis.ancestor_set (to_nodes (ladder 2 6)) (lab 12)) /\
  Analysis.ordered (to_nodes fork) (lab 0) (lab 1) = false /\
  Analysis.ordered (to_nodes fork) (lab 1) (lab 3) = true.
Proof. split; [| split]; vm_compute; reflexivity. Qed.
