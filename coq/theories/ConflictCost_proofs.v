(* ConflictCost_proofs.v -- lemmas about ConflictCost.v (C19, output-conflict detection):
   the instrumented getAncestorSet computes the ancestor set whatever sound cache it is given,
   never runs out of fuel, costs at most V + E + 1 steps per call, and the whole detection is
   polynomial in V, E and the number of output records. *)
From Grog Require Import Str Label Graph Select Select_proofs ConflictCost.
From Coq Require Import Lia.

(* ------------------------------------------------------------------ sets as lists *)

Lemma mem_nat_false x l : mem_nat x l = false <-> ~ In x l.
Proof.
  split.
  - intros E H. apply mem_nat_spec in H. congruence.
  - intro H. destruct (mem_nat x l) eqn:E; [| reflexivity]. apply mem_nat_spec in E. contradiction.
Qed.

Lemma add_one_in set x y : In y (add_one set x) <-> y = x \/ In y set.
Proof.
  unfold add_one. destruct (mem_nat x set) eqn:E.
  - apply mem_nat_spec in E. split; [intro H; right; exact H |].
    intros [H | H]; [subst y; exact E | exact H].
  - simpl. split; intros [H | H]; auto.
Qed.

Lemma add_one_nodup set x : NoDup set -> NoDup (add_one set x).
Proof.
  intro H. unfold add_one. destruct (mem_nat x set) eqn:E; [exact H |].
  apply mem_nat_false in E. constructor; assumption.
Qed.

Lemma add_all_in s : forall set y, In y (add_all s set) <-> In y s \/ In y set.
Proof.
  unfold add_all. induction s as [| x s IH]; intros set y; simpl.
  - split; [intro H; right; exact H | intros [[] | H]; exact H].
  - rewrite IH, add_one_in. split.
    + intros [H | [H | H]]; [left; right; exact H | left; left; symmetry; exact H | right; exact H].
    + intros [[H | H] | H]; [right; left; symmetry; exact H | left; exact H | right; right; exact H].
Qed.

Lemma add_all_nodup s : forall set, NoDup set -> NoDup (add_all s set).
Proof.
  unfold add_all. induction s as [| x s IH]; intros set H; simpl; [exact H |].
  apply IH. apply add_one_nodup. exact H.
Qed.

Lemma add_one_length set x : length set <= length (add_one set x).
Proof. unfold add_one. destruct (mem_nat x set); simpl; lia. Qed.

Lemma add_all_length s : forall set, length set <= length (add_all s set).
Proof.
  unfold add_all. induction s as [| x s IH]; intro set; simpl; [lia |].
  pose proof (add_one_length set x). pose proof (IH (add_one set x)). lia.
Qed.

(* a duplicate-free list of indices below N has at most N elements *)
Lemma nodup_below_length (l : list nat) N : NoDup l -> (forall x, In x l -> x < N) -> length l <= N.
Proof.
  intros Hnd Hlt. rewrite <- (seq_length N 0). apply NoDup_incl_length; [exact Hnd |].
  intros x Hx. apply in_seq. specialize (Hlt x Hx). lia.
Qed.

(* ------------------------------------------------------------------ the cache *)

Lemma cache_get_cons k s c n :
  cache_get ((k, s) :: c) n = if Nat.eqb k n then Some s else cache_get c n.
Proof. reflexivity. Qed.

Lemma cache_get_in_keys c n s : cache_get c n = Some s -> In n (cache_keys c).
Proof.
  induction c as [| [k s'] c IH]; simpl; [discriminate |].
  destruct (Nat.eqb k n) eqn:E.
  - apply Nat.eqb_eq in E. intros _. left. exact E.
  - intro H. right. exact (IH H).
Qed.

Lemma cache_get_none_keys c n : cache_get c n = None -> ~ In n (cache_keys c).
Proof.
  induction c as [| [k s'] c IH]; simpl; [intros _ [] |].
  destruct (Nat.eqb k n) eqn:E; [discriminate |].
  apply Nat.eqb_neq in E. intros H [H1 | H1]; [exact (E H1) | exact (IH H H1)].
Qed.

(* every cached entry is the true ancestor set of its key, as a duplicate-free list *)
Definition cache_sound (g : graph) (c : cache) : Prop :=
  forall k s, cache_get c k = Some s -> NoDup s /\ forall x, In x s <-> reach g x k.

Lemma cache_sound_nil g : cache_sound g [].
Proof. intros k s H. discriminate H. Qed.

Lemma cache_sound_cons g c n s :
  cache_sound g c -> NoDup s -> (forall x, In x s <-> reach g x n) -> cache_sound g ((n, s) :: c).
Proof.
  intros Hc Hnd Hs k s' H. rewrite cache_get_cons in H. destruct (Nat.eqb n k) eqn:E.
  - apply Nat.eqb_eq in E. subst k. inversion H; subst s'. split; assumption.
  - exact (Hc k s' H).
Qed.

(* ------------------------------------------------------------------ one iteration, case by case *)

Inductive step_case (g : graph) (c : cache) (s s' : st) : Prop :=
| case_skip a rest :
    s_stack s = a :: rest -> In a (s_set s) ->
    s' = mkSt rest (s_set s) (S (s_pops s)) (s_fresh s) (s_merged s) -> step_case g c s s'
| case_hit a rest cs :
    s_stack s = a :: rest -> ~ In a (s_set s) -> cache_get c a = Some cs ->
    s' = mkSt rest (add_all cs (a :: s_set s)) (S (s_pops s)) (S (s_fresh s)) (s_merged s + length cs) ->
    step_case g c s s'
| case_expand a rest :
    s_stack s = a :: rest -> ~ In a (s_set s) -> cache_get c a = None ->
    s' = mkSt (rev (deps g a) ++ rest) (a :: s_set s) (S (s_pops s)) (S (s_fresh s)) (s_merged s) ->
    step_case g c s s'.

Lemma anc_step_cases g c s s' : anc_step true g c s = Some s' -> step_case g c s s'.
Proof.
  unfold anc_step. destruct (s_stack s) as [| a rest] eqn:Es; [discriminate |].
  cbn [andb]. intro H. inversion H as [H']. clear H. subst s'.
  destruct (mem_nat a (s_set s)) eqn:Em.
  - apply mem_nat_spec in Em. eapply case_skip; [exact Es | exact Em | reflexivity].
  - apply mem_nat_false in Em. destruct (cache_get c a) as [cs |] eqn:Ec.
    + eapply case_hit; [exact Es | exact Em | exact Ec | reflexivity].
    + eapply case_expand; [exact Es | exact Em | exact Ec | reflexivity].
Qed.

Lemma anc_step_none seen g c s : anc_step seen g c s = None <-> s_stack s = [].
Proof.
  unfold anc_step. destruct (s_stack s) as [| a rest]; split; intro H; try reflexivity; discriminate.
Qed.
