(* HashKey.v -- the cache key of a target, as internal/hashing computes it
   (hash_target.go, hash_files.go, get_hasher.go).  Model only.

   framed(s)   := s with every NUL byte escaped as NUL 0x01, then the terminator NUL NUL
   list(items) := for each (self-delimiting) item: 0x02 item; then 0x03
   GetTargetChangeHash(target, depContribs):
     def  := H( framed(label.Package) ++ framed(label.Name) ++ framed(command)
               ++ list(map framed (sort inputs)) ++ list(map framed (sort outputDefs))
               ++ list(map framed (sort depContribs))
               ++ list(sort [framed(k) ++ framed(v) ...])
               ++ list([framed(platform)] unless multiplatform-cache, else []) )
     key  := def                          if len(inputs) = 0
           | def ++ "_" ++ H(concat [ framed(f) ++ (0x00 if f does not exist
                                                   | 0x01 ++ framed(H(content f))) | f <- sort inputs ])   otherwise
   The digest function H is a parameter (xxh3-128 / sha256 printed as hex). *)
From Coq Require Export Sorting.Permutation.
From Grog Require Export Str Label.

Record tstate := mkT {
  ts_label : label;
  ts_cmd   : str;
  ts_ins   : list str;            (* resolved input paths, relative to the package *)
  ts_outs  : list str;            (* output definitions "type::identifier", bin output included *)
  ts_deps  : list str;            (* contributions of the dependencies, "<label>=<output hash>" *)
  ts_fp    : list (str * str);    (* fingerprint map entries *)
  ts_plat  : option str           (* Some "os/arch", None for multiplatform-cache targets *)
}.

Definition ch_nul : ascii := Ascii.zero.
Definition ch_01  : ascii := ascii_of_nat 1.
Definition ch_02  : ascii := ascii_of_nat 2.
Definition ch_03  : ascii := ascii_of_nat 3.

(* framed(s): strings.ReplaceAll(s, "\x00", "\x00\x01") + "\x00\x00" *)
Fixpoint frame (s : str) : str :=
  match s with
  | [] => [ch_nul; ch_nul]
  | c :: r => if Ascii.eqb c ch_nul then ch_nul :: ch_01 :: frame r else c :: frame r
  end.

(* list(elements): every element behind 0x02, then 0x03 *)
Fixpoint enc_items (items : list str) : str :=
  match items with
  | [] => [ch_03]
  | e :: r => ch_02 :: e ++ enc_items r
  end.

Definition enc_list (l : list str) : str := enc_items (map frame l).

Definition fp_item (e : str * str) : str := frame (fst e) ++ frame (snd e).

Definition plat_list (p : option str) : list str := match p with Some s => [s] | None => [] end.

Definition enc_label (l : label) : str := frame (lpkg l) ++ frame (lname l).

(* the bytes written to the definition hasher *)
Definition encode_def (st : tstate) : str :=
  enc_label (ts_label st) ++ frame (ts_cmd st) ++
  enc_list (sort_strs (ts_ins st)) ++ enc_list (sort_strs (ts_outs st)) ++
  enc_list (sort_strs (ts_deps st)) ++ enc_items (sort_strs (map fp_item (ts_fp st))) ++
  enc_list (plat_list (ts_plat st)).

(* the file system as seen by hashInputFiles: None = the file does not exist *)
Definition file_item (H : str -> str) (fs : str -> option str) (p : str) : str :=
  frame p ++ match fs p with None => [ch_nul] | Some c => ch_01 :: frame (H c) end.

Definition encode_files (H : str -> str) (fs : str -> option str) (st : tstate) : str :=
  concat (map (file_item H fs) (sort_strs (ts_ins st))).

Definition no_inputs (st : tstate) : bool := match ts_ins st with [] => true | _ => false end.

Definition change_key (H : str -> str) (fs : str -> option str) (st : tstate) : str :=
  if no_inputs st then H (encode_def st)
  else H (encode_def st) ++ ch_us :: H (encode_files H fs st).

(* "the same build state": equal up to declaration / glob / map-iteration order *)
Definition state_equiv (fa : str -> option str) (a : tstate) (fb : str -> option str) (b : tstate) : Prop :=
  ts_label a = ts_label b /\ ts_cmd a = ts_cmd b /\
  Permutation (ts_ins a) (ts_ins b) /\ Permutation (ts_outs a) (ts_outs b) /\
  Permutation (ts_deps a) (ts_deps b) /\ Permutation (ts_fp a) (ts_fp b) /\
  ts_plat a = ts_plat b /\
  (forall p, In p (ts_ins a) -> fa p = fb p).

Definition comma : str := [ch_comma].

(* output hash of a target with outputs (get_output_hash.go): H over the sorted digests of the
   marshalled outputs, written back to back *)
Definition output_hash (H : str -> str) (marshalled : list str) : str :=
  match marshalled with
  | [] => []
  | _ => H (concat (sort_strs (map H marshalled)))
  end.

(* output hash on the no-cache / cache-disabled path (registry.go GetNoCacheOutputHash):
   HashStrings of "<output definition>=<content digest>" for every declared output (the digest is
   paired with the output it belongs to: outputs exchanging their contents change the hash) *)
Definition nocache_item (e : str * str) : str := fst e ++ ch_eq :: snd e.

Definition nocache_output_hash (H : str -> str) (pairs : list (str * str)) : str :=
  H (join comma (sort_strs (map nocache_item pairs))).
