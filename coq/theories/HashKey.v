(* HashKey.v -- the cache key of a target, as internal/hashing computes it
   (hash_target.go, hash_files.go, get_hasher.go).  Model only.

   GetTargetChangeHash(target, depHashes):
     def  := H( label.String() ++ command ++ join(",", sort inputs) ++ join(",", sort outputDefs)
               ++ join(",", sort depHashes) ++ join(",", sort ["k=v"...]) ++ [platform unless multiplatform-cache] )
     key  := def                          if len(inputs) = 0
           | def ++ "_" ++ H(concat [content f | f <- sort inputs, f exists])   otherwise
   The digest function H is a parameter (xxh3-128 / sha256 printed as hex). *)
From Coq Require Export Sorting.Permutation.
From Grog Require Export Str Label.

Record tstate := mkT {
  ts_label : label;
  ts_cmd   : str;
  ts_ins   : list str;            (* resolved input paths, relative to the package *)
  ts_outs  : list str;            (* output definitions "type::identifier", bin output included *)
  ts_deps  : list str;            (* output hashes of the dependencies ("" for an alias in-edge) *)
  ts_fp    : list (str * str);    (* fingerprint map entries *)
  ts_plat  : option str           (* Some "os/arch", None for multiplatform-cache targets *)
}.

Definition comma : str := [ch_comma].

Definition kv (e : str * str) : str := fst e ++ ch_eq :: snd e.

Definition plat_str (p : option str) : str := match p with Some s => s | None => [] end.

(* the seven strings written to the hasher, in order *)
Definition comps (st : tstate) : list str :=
  [ print_label (ts_label st);
    ts_cmd st;
    join comma (sort_strs (ts_ins st));
    join comma (sort_strs (ts_outs st));
    join comma (sort_strs (ts_deps st));
    join comma (sort_strs (map kv (ts_fp st)));
    plat_str (ts_plat st) ].

Definition encode_def (st : tstate) : str := concat (comps st).

(* the file system as seen by HashFiles: None = the file does not exist (skipped) *)
Definition file_bytes (fs : str -> option str) (p : str) : str :=
  match fs p with Some c => c | None => [] end.

Definition file_parts (fs : str -> option str) (st : tstate) : list str :=
  map (file_bytes fs) (sort_strs (ts_ins st)).

Definition encode_files (fs : str -> option str) (st : tstate) : str := concat (file_parts fs st).

Definition no_inputs (st : tstate) : bool := match ts_ins st with [] => true | _ => false end.

Definition change_key (H : str -> str) (fs : str -> option str) (st : tstate) : str :=
  if no_inputs st then H (encode_def st)
  else H (encode_def st) ++ ch_us :: H (encode_files fs st).

(* "the same build state": equal up to declaration / glob / map-iteration order *)
Definition state_equiv (fa : str -> option str) (a : tstate) (fb : str -> option str) (b : tstate) : Prop :=
  ts_label a = ts_label b /\ ts_cmd a = ts_cmd b /\
  Permutation (ts_ins a) (ts_ins b) /\ Permutation (ts_outs a) (ts_outs b) /\
  Permutation (ts_deps a) (ts_deps b) /\ Permutation (ts_fp a) (ts_fp b) /\
  ts_plat a = ts_plat b /\
  (forall p, In p (ts_ins a) -> fa p = fb p).

(* element-level well-formedness: what makes join/sort and k=v decodable *)
Definition elem_ok (s : str) : bool := negb (null s) && negb (mem_ch ch_comma s).
Definition fp_ok (e : str * str) : bool :=
  negb (mem_ch ch_comma (fst e)) && negb (mem_ch ch_eq (fst e)) && negb (mem_ch ch_comma (snd e)).

Definition wf_state (st : tstate) : bool :=
  negb (mem_ch ch_colon (lpkg (ts_label st))) &&
  forallb elem_ok (ts_ins st) && forallb elem_ok (ts_outs st) && forallb elem_ok (ts_deps st) &&
  forallb fp_ok (ts_fp st) &&
  match ts_plat st with Some [] => false | _ => true end.

(* the two states differ in at most one of the seven written strings *)
Definition differ_at_most_one (l l' : list str) : Prop :=
  exists k, forall i, i <> k -> nth_error l i = nth_error l' i.

(* the file contents differ for at most one input path, which exists on both sides or on neither *)
Definition files_differ_at_most_one (fa fb : str -> option str) (ins : list str) : Prop :=
  exists p, (forall q, In q ins -> q <> p -> fa q = fb q) /\ (fa p = None <-> fb p = None).

(* output hash of a target with outputs (get_output_hash.go): H over the sorted digests of the
   marshalled outputs, written back to back *)
Definition output_hash (H : str -> str) (marshalled : list str) : str :=
  match marshalled with
  | [] => []
  | _ => H (concat (sort_strs (map H marshalled)))
  end.

(* output hash on the no-cache / cache-disabled path (registry.go GetNoCacheOutputHash):
   HashStrings of the handlers' content digests; output paths do not enter *)
Definition nocache_output_hash (H : str -> str) (digests : list str) : str :=
  H (join comma (sort_strs digests)).
