From Grog Require Import Str Label Path Analysis Analysis_base.
(* Ancestors_proofs.v -- the two graph walks of the analysis engine against their
   declarative readings:

     ancestor_set  (getAncestorSet / targetsAreOrdered)  =  reach        [ancestor_set_spec]
     ordered                                              =  ordered_spec [ordered_iff]
     resolve_dep   (resolveDependencyTarget)              =  resolves_to  [resolve_dep_spec]

   [ancestor_set_spec] needs unique labels and no dangling dependency, NOT acyclicity: on a
   cyclic graph a node is in its own ancestor set exactly when it reaches itself. *)
Import ListNotations.

(* ================================================================= ancestor sets *)

(* ---------------------------------------------------------------- soundness *)
(* everything the walk adds is the start node or one of its transitive dependencies *)

Definition below (g : nodes) (x a : label) : Prop := x = a \/ reach g x a.

Lemma fold_sound_gen g (F : list label -> label -> list label) :
  (forall set a x, In x (F set a) -> In x set \/ below g x a) ->
  forall ds set x, In x (fold_left F ds set) ->
    In x set \/ exists d, In d ds /\ below g x d.
Proof.
  intros HF ds. induction ds as [|d ds IH]; intros set x Hx; simpl in Hx.
  - left; exact Hx.
  - apply IH in Hx as [Hx | [d' [Hd' Hb]]].
    + apply HF in Hx as [Hx | Hx].
      * left; exact Hx.
      * right; exists d; split; [left; reflexivity | exact Hx].
    + right; exists d'; split; [right; exact Hd' | exact Hb].
Qed.

Lemma anc_visit_sound g (Hnd : NoDup (labels g)) :
  forall f set a x, In x (anc_visit f g set a) -> In x set \/ below g x a.
Proof.
  induction f as [|f IH]; intros set a x Hx; simpl in Hx.
  - left; exact Hx.
  - destruct (label_in a set) eqn:E.
    + left; exact Hx.
    + apply (fold_sound_gen g (anc_visit f g) IH) in Hx as [Hx | [d [Hd Hb]]].
      * destruct Hx as [Hx | Hx].
        -- right; left; symmetry; exact Hx.
        -- left; exact Hx.
      * right; right. apply (in_deps_of g d a Hnd) in Hd.
        destruct Hb as [Hb | Hb].
        -- subst x. apply reach_step; exact Hd.
        -- eapply reach_trans; [exact Hb | exact Hd].
Qed.

Lemma ancestor_set_sound g n a :
  NoDup (labels g) -> In a (ancestor_set g n) -> reach g a n.
Proof.
  intros Hnd Hin. unfold ancestor_set in Hin.
  apply (fold_sound_gen g (anc_visit (length g) g) (anc_visit_sound g Hnd (length g)))
    in Hin as [[] | [d [Hd Hb]]].
  apply (in_deps_of g d n Hnd) in Hd.
  destruct Hb as [Hb | Hb].
  - subst a. apply reach_step; exact Hd.
  - eapply reach_trans; [exact Hb | exact Hd].
Qed.

(* ---------------------------------------------------------------- closure *)
(* the visited set stays duplicate free and inside the label set *)
Definition good (g : nodes) (set : list label) : Prop :=
  NoDup set /\ incl set (labels g).

(* [R] extends [set]; what is new in [R] has all its dependencies in [R] *)
Definition grows (g : nodes) (set R : list label) : Prop :=
  good g R /\ incl set R /\
  forall x, In x R -> ~ In x set -> forall d, In d (deps_of g x) -> In d R.

Lemma label_in_dec (x : label) (l : list label) : {In x l} + {~ In x l}.
Proof. apply in_dec. apply label_eq_dec. Qed.

Lemma good_length_le g set R : good g set -> incl set R -> length set <= length R.
Proof.
  intros [Hnd _] Hincl. apply NoDup_incl_length; assumption.
Qed.

Lemma deps_of_labels g a : no_dangling g -> incl (deps_of g a) (labels g).
Proof.
  intros Hdang d Hd. unfold deps_of in Hd.
  destruct (lookup g a) as [nd|] eqn:E; [|destruct Hd].
  apply lookup_some in E as [Hin _]. eapply Hdang; eassumption.
Qed.

Lemma fold_grows_gen g (F : list label -> label -> list label) (k : nat) :
  (forall set a, good g set -> In a (labels g) -> k <= length set ->
     grows g set (F set a) /\ In a (F set a)) ->
  forall ds set, good g set -> incl ds (labels g) -> k <= length set ->
    grows g set (fold_left F ds set) /\ incl ds (fold_left F ds set).
Proof.
  intros HF ds. induction ds as [|d ds IH]; intros set Hgood Hds Hk; simpl.
  - split.
    + split; [exact Hgood|]. split; [apply incl_refl|].
      intros x Hx Hnx; contradiction.
    + intros x [].
  - assert (Hd : In d (labels g)) by (apply Hds; left; reflexivity).
    assert (Hds' : incl ds (labels g)) by (intros y Hy; apply Hds; right; exact Hy).
    destruct (HF set d Hgood Hd Hk) as [[Hg1 [Hi1 Hc1]] Hd1].
    assert (Hk1 : k <= length (F set d)).
    { pose proof (good_length_le g set (F set d) Hgood Hi1) as Hle. lia. }
    destruct (IH (F set d) Hg1 Hds' Hk1) as [[Hg2 [Hi2 Hc2]] Hds2].
    split.
    + split; [exact Hg2|]. split.
      * intros y Hy. apply Hi2, Hi1, Hy.
      * intros x Hx Hnx e He.
        destruct (label_in_dec x (F set d)) as [Hx1 | Hx1].
        -- apply Hi2. eapply Hc1; eassumption.
        -- eapply Hc2; eassumption.
    + intros y [Hy | Hy].
      * subst y. apply Hi2, Hd1.
      * apply Hds2, Hy.
Qed.

Lemma anc_visit_grows g (Hdang : no_dangling g) :
  forall f set a, good g set -> In a (labels g) -> length g <= f + length set ->
    grows g set (anc_visit f g set a) /\ In a (anc_visit f g set a).
Proof.
  induction f as [|f IH]; intros set a Hgood Ha Hlen; simpl.
  - (* no fuel left: the set already holds every label *)
    assert (Hall : incl (labels g) set).
    { destruct Hgood as [Hnd Hincl]. apply NoDup_length_incl; [exact Hnd | | exact Hincl].
      unfold labels. rewrite map_length. lia. }
    split; [|apply Hall, Ha].
    split; [exact Hgood|]. split; [apply incl_refl|].
    intros x Hx Hnx; contradiction.
  - destruct (label_in a set) eqn:E.
    + apply label_in_spec in E.
      split; [|exact E].
      split; [exact Hgood|]. split; [apply incl_refl|].
      intros x Hx Hnx; contradiction.
    + apply label_in_false in E.
      assert (Hgood' : good g (a :: set)).
      { destruct Hgood as [Hnd Hincl]. split.
        - constructor; assumption.
        - intros y [Hy | Hy]; [subst y; exact Ha | apply Hincl, Hy]. }
      assert (Hlen' : length g - f <= length (a :: set)) by (simpl; lia).
      destruct (fold_grows_gen g (anc_visit f g) (length g - f)) with
        (ds := deps_of g a) (set := a :: set) as [[Hg [Hi Hc]] Hds].
      * intros s b Hs Hb Hk. apply IH; [exact Hs | exact Hb | lia].
      * exact Hgood'.
      * apply deps_of_labels, Hdang.
      * exact Hlen'.
      * split; [|apply Hi; left; reflexivity].
        split; [exact Hg|]. split.
        -- intros y Hy. apply Hi; right; exact Hy.
        -- intros x Hx Hnx d Hd.
           destruct (label_eq_dec x a) as [Hxa | Hxa].
           ++ subst x. apply Hds, Hd.
           ++ apply (Hc x Hx); [|exact Hd].
              intros [Hy | Hy]; [apply Hxa; symmetry; exact Hy | apply Hnx, Hy].
Qed.

(* the top-level result holds the direct dependencies and is closed under [deps_of] *)
Lemma ancestor_set_closed g n :
  no_dangling g ->
  incl (deps_of g n) (ancestor_set g n) /\
  forall x d, In x (ancestor_set g n) -> In d (deps_of g x) -> In d (ancestor_set g n).
Proof.
  intro Hdang. unfold ancestor_set.
  destruct (fold_grows_gen g (anc_visit (length g) g) 0) with
    (ds := deps_of g n) (set := @nil label) as [[Hg [Hi Hc]] Hds].
  - intros s b Hs Hb _. apply anc_visit_grows; [exact Hdang | exact Hs | exact Hb | lia].
  - split; [constructor | intros x []].
  - apply deps_of_labels, Hdang.
  - simpl; lia.
  - split; [exact Hds|].
    intros x d Hx Hd. apply (Hc x Hx); [intros [] | exact Hd].
Qed.

Lemma closed_reach g (R : list label) :
  NoDup (labels g) ->
  (forall x d, In x R -> In d (deps_of g x) -> In d R) ->
  forall a b, reach g a b -> In b R -> In a R.
Proof.
  intros Hnd Hcl a b Hr. induction Hr as [a b He | a m b Hr IH He]; intro Hb.
  - apply (Hcl b a Hb). apply in_deps_of; assumption.
  - apply IH. apply (Hcl b m Hb). apply in_deps_of; assumption.
Qed.

Lemma ancestor_set_complete g n a :
  NoDup (labels g) -> no_dangling g -> reach g a n -> In a (ancestor_set g n).
Proof.
  intros Hnd Hdang Hr.
  destruct (ancestor_set_closed g n Hdang) as [Hdeps Hcl].
  inversion Hr as [a' n' He | a' m n' Hr' He]; subst.
  - apply Hdeps. apply in_deps_of; assumption.
  - apply (closed_reach g (ancestor_set g n) Hnd Hcl a m Hr').
    apply Hdeps. apply in_deps_of; assumption.
Qed.

Theorem ancestor_set_spec : forall g n a, NoDup (labels g) -> no_dangling g ->
  (In a (ancestor_set g n) <-> reach g a n).
Proof.
  intros g n a Hnd Hdang. split.
  - apply ancestor_set_sound; exact Hnd.
  - apply ancestor_set_complete; assumption.
Qed.

Corollary ordered_iff : forall g a b, NoDup (labels g) -> no_dangling g ->
  (ordered g a b = true <-> ordered_spec g a b).
Proof.
  intros g a b Hnd Hdang. unfold ordered, ordered_spec.
  rewrite orb_true_iff, !label_in_spec, !(ancestor_set_spec g) by assumption.
  tauto.
Qed.

(* ================================================================= resolveDependencyTarget *)

Lemma node_unique g n1 n2 :
  NoDup (labels g) -> In n1 g -> In n2 g -> node_label n1 = node_label n2 -> n1 = n2.
Proof.
  intros Hnd H1 H2 E.
  pose proof (lookup_unique g n1 Hnd H1) as L1.
  pose proof (lookup_unique g n2 Hnd H2) as L2.
  rewrite E in L1. rewrite L1 in L2. inversion L2; reflexivity.
Qed.

(* soundness: any fuel, no hypothesis *)
Lemma resolve_dep_sound g : forall fuel d t,
  resolve_dep fuel g d = Some t -> resolves_to g d t.
Proof.
  induction fuel as [|f IH]; intros d t H; simpl in H; [discriminate|].
  destruct (lookup g d) as [nd|] eqn:E; [|discriminate].
  apply lookup_some in E as [Hin Hl].
  destruct nd as [t'|l a]; simpl in Hl; subst d.
  - inversion H; subst t'. apply res_target; exact Hin.
  - eapply res_alias; [exact Hin | apply IH; exact H].
Qed.

Lemma resolves_to_functional : forall g d t1 t2, NoDup (labels g) ->
  resolves_to g d t1 -> resolves_to g d t2 -> t1 = t2.
Proof.
  intros g d t1 t2 Hnd H1. revert t2.
  induction H1 as [t1 Hin1 | l a t1 Hin1 Hr1 IH]; intros t2 H2.
  - inversion H2 as [t2' Hin2 El | l' a' t2' Hin2 Hr2 El]; subst.
    + assert (E : NTarget t1 = NTarget t2) by
        (apply (node_unique g); [assumption | assumption | assumption | simpl; symmetry; exact El]).
      inversion E; reflexivity.
    + assert (E : NTarget t1 = NAlias (t_label t1) a') by
        (apply (node_unique g); [assumption | assumption | assumption | reflexivity]).
      discriminate E.
  - inversion H2 as [t2' Hin2 El | l' a' t2' Hin2 Hr2 El]; subst.
    + assert (E : NAlias (t_label t2) a = NTarget t2) by
        (apply (node_unique g); [assumption | assumption | assumption | reflexivity]).
      discriminate E.
    + assert (E : NAlias l a = NAlias l a') by
        (apply (node_unique g); [assumption | assumption | assumption | reflexivity]).
      inversion E; subst a'. apply IH; exact Hr2.
Qed.

(* the alias chain walked from [d], listed: d = l0, l1, ..., lk = t_label t *)
Inductive res_chain (g : nodes) : label -> list label -> target -> Prop :=
| rc_target t : In (NTarget t) g -> res_chain g (t_label t) [t_label t] t
| rc_alias l a p t : In (NAlias l a) g -> res_chain g a p t -> res_chain g l (l :: p) t.

Lemma resolves_to_chain g d t : resolves_to g d t -> exists p, res_chain g d p t.
Proof.
  intro H. induction H as [t Hin | l a t Hin Hr [p IH]].
  - exists [t_label t]. apply rc_target; exact Hin.
  - exists (l :: p). eapply rc_alias; eassumption.
Qed.

Lemma res_chain_labels g d p t : res_chain g d p t -> incl p (labels g).
Proof.
  intro H. induction H as [t Hin | l a p t Hin Hr IH].
  - intros x [Hx | []]. subst x. apply in_labels. exists (NTarget t); auto.
  - intros x [Hx | Hx].
    + subst x. apply in_labels. exists (NAlias l a); auto.
    + apply IH, Hx.
Qed.

(* every label on the chain is the start or a transitive dependency of it *)
Lemma res_chain_below g d p t : res_chain g d p t -> forall x, In x p -> x = d \/ reach g x d.
Proof.
  intro H. induction H as [t Hin | l a p t Hin Hr IH]; intros x Hx.
  - destruct Hx as [Hx | []]. left; symmetry; exact Hx.
  - destruct Hx as [Hx | Hx]; [left; symmetry; exact Hx|]. right.
    assert (He : edge g a l).
    { exists (NAlias l a). split; [exact Hin|]. split; [reflexivity | left; reflexivity]. }
    destruct (IH x Hx) as [E | Hr'].
    + subst x. apply reach_step; exact He.
    + eapply reach_trans; [exact Hr' | exact He].
Qed.

Lemma res_chain_nodup g d p t : acyclic g -> res_chain g d p t -> NoDup p.
Proof.
  intros Hac H. induction H as [t Hin | l a p t Hin Hr IH].
  - constructor; [intros [] | constructor].
  - constructor; [|exact IH].
    intro Hl. apply Hac. exists l.
    assert (He : edge g a l).
    { exists (NAlias l a). split; [exact Hin|]. split; [reflexivity | left; reflexivity]. }
    destruct (res_chain_below g a p t Hr l Hl) as [E | Hr'].
    + subst a. apply reach_step; exact He.
    + eapply reach_trans; [exact Hr' | exact He].
Qed.

Lemma res_chain_fuel g d p t : NoDup (labels g) -> res_chain g d p t ->
  forall fuel, length p <= fuel -> resolve_dep fuel g d = Some t.
Proof.
  intros Hnd H. induction H as [t Hin | l a p t Hin Hr IH]; intros fuel Hf.
  - destruct fuel as [|f]; [simpl in Hf; lia|]. simpl.
    pose proof (lookup_unique g (NTarget t) Hnd Hin) as L. simpl in L. rewrite L. reflexivity.
  - destruct fuel as [|f]; [simpl in Hf; lia|]. simpl.
    pose proof (lookup_unique g (NAlias l a) Hnd Hin) as L. simpl in L. rewrite L.
    apply IH. simpl in Hf; lia.
Qed.

Lemma resolve_dep_complete g d t : NoDup (labels g) -> acyclic g ->
  resolves_to g d t -> resolve_dep (S (length g)) g d = Some t.
Proof.
  intros Hnd Hac H. apply resolves_to_chain in H as [p Hp].
  apply (res_chain_fuel g d p t Hnd Hp).
  pose proof (NoDup_incl_length (res_chain_nodup g d p t Hac Hp) (res_chain_labels g d p t Hp)) as Hle.
  unfold labels in Hle. rewrite map_length in Hle. lia.
Qed.

Theorem resolve_dep_spec : forall g d t, NoDup (labels g) -> acyclic g ->
  (resolve_dep (S (length g)) g d = Some t <-> resolves_to g d t).
Proof.
  intros g d t Hnd Hac. split.
  - apply resolve_dep_sound.
  - apply resolve_dep_complete; assumption.
Qed.
