(* Loader_proofs.v -- lemmas about the loader model (C16).

   1. scanners: neither the Makefile scanner nor the script scanner panics, on any input and
      for any decoder behaviour; the skip of an empty annotation block (the repair of C16-F1)
      changed the Makefile scanner on the inputs described by [mk_guard] = false only, which
      are exactly the inputs on which the scanner without the skip could panic; [mk_target]
      copies every field the annotation schema declares;
   2. enrichment: the source file name only flows into the source fields; a null list entry
      is an error; labels of an enriched package; every target is a function of its own DTO;
   3. merging: [load_all] accepts iff all labels of all fragments are pairwise distinct, and
      its result is independent of the arrival order up to the order of targets / aliases
      inside a package; [merge_all] alone is NOT order independent (witness). *)
From Coq Require Import Permutation.
From Grog Require Import Str Label Loader.
Import Coq.Strings.String.
Local Open Scope string_scope.
Local Open Scope list_scope.

(* ------------------------------------------------------------------ small list facts *)

Lemma null_snoc {A} (l : list A) (x : A) : l ++ [x] <> [].
Proof. destruct l; discriminate. Qed.

Lemma lbl_eqb_eq a b : label_eqb a b = true <-> a = b.
Proof.
  unfold label_eqb. rewrite andb_true_iff, !str_eqb_eq.
  destruct a as [p n], b as [p' n']; cbn [lpkg lname]. split.
  - intros [-> ->]. reflexivity.
  - intro H. inversion H. split; reflexivity.
Qed.

Lemma label_in_spec x l : label_in x l = true <-> In x l.
Proof.
  unfold label_in. rewrite existsb_exists. split.
  - intros [y [Hy E]]. apply lbl_eqb_eq in E. subst y. exact Hy.
  - intro H. exists x. split; [exact H | apply lbl_eqb_eq; reflexivity].
Qed.

Lemma label_in_false x l : label_in x l = false <-> ~ In x l.
Proof.
  split; intro H.
  - intro Hi. apply label_in_spec in Hi. congruence.
  - destruct (label_in x l) eqn:E; [apply label_in_spec in E; contradiction | reflexivity].
Qed.

Lemma nodup_labels_spec l : nodup_labels l = true <-> NoDup l.
Proof.
  induction l as [|x l IH]; cbn [nodup_labels].
  - split; [intros _; constructor | reflexivity].
  - rewrite andb_true_iff, negb_true_iff, label_in_false, IH. split.
    + intros [H1 H2]. constructor; assumption.
    + intro H. inversion H; subst. split; assumption.
Qed.

Lemma NoDup_app_intro {A} (a b : list A) :
  NoDup a -> NoDup b -> (forall x, In x a -> ~ In x b) -> NoDup (a ++ b).
Proof.
  induction a as [|x a IH]; intros Ha Hb Hd; cbn [app]; [exact Hb|].
  inversion Ha as [|x' a' Hx Ha']; subst. constructor.
  - intro Hi. apply in_app_or in Hi as [Hi|Hi]; [contradiction|].
    apply (Hd x); [left; reflexivity | exact Hi].
  - apply IH; [exact Ha' | exact Hb |]. intros y Hy. apply Hd. right. exact Hy.
Qed.

Lemma NoDup_app_l {A} (a b : list A) : NoDup (a ++ b) -> NoDup a.
Proof.
  induction a as [|x a IH]; intro H; [constructor|].
  cbn [app] in H. inversion H as [|x' l' Hx Hl]; subst. constructor.
  - intro Hi. apply Hx. apply in_or_app. left. exact Hi.
  - apply IH. exact Hl.
Qed.

Lemma NoDup_app_r {A} (a b : list A) : NoDup (a ++ b) -> NoDup b.
Proof.
  induction a as [|x a IH]; intro H; [exact H|].
  cbn [app] in H. inversion H; subst. apply IH. assumption.
Qed.

Lemma NoDup_app_disj {A} (a b : list A) x : NoDup (a ++ b) -> In x a -> In x b -> False.
Proof.
  induction a as [|y a IH]; intros H Ha Hb; [destruct Ha|].
  cbn [app] in H. inversion H as [|y' l' Hy Hl]; subst. destruct Ha as [->|Ha].
  - apply Hy. apply in_or_app. right. exact Hb.
  - exact (IH Hl Ha Hb).
Qed.

Lemma Permutation_filter_compat {A} (f : A -> bool) (l l' : list A) :
  Permutation l l' -> Permutation (filter f l) (filter f l').
Proof.
  intro H. induction H as [|x l l' H IH|x y l|l l' l'' H1 IH1 H2 IH2]; cbn [filter].
  - constructor.
  - destruct (f x); [constructor|]; exact IH.
  - destruct (f x), (f y); try apply Permutation_refl. apply perm_swap.
  - eapply Permutation_trans; eassumption.
Qed.

Lemma Permutation_app4 {A} (a b c d : list A) :
  Permutation ((a ++ b) ++ (c ++ d)) ((a ++ c) ++ (b ++ d)).
Proof.
  rewrite <- !app_assoc. apply Permutation_app_head.
  rewrite !app_assoc. apply Permutation_app_tail. apply Permutation_app_comm.
Qed.

(* ================================================================== 1. scanners *)

Definition nonemptyb {A} (l : list A) : bool := match l with [] => false | _ => true end.

(* ---- handleTarget panics on an empty block and on nothing else *)

Lemma decode_block_nonempty yaml ann :
  ann <> [] -> decode_block yaml ann <> HPanic.
Proof.
  intro Hne. destruct ann as [|x ann]; [contradiction|].
  unfold decode_block. destruct (null (join nl (x :: ann))); [discriminate|].
  destruct (yaml (join nl (x :: ann))); discriminate.
Qed.

Lemma decode_block_empty yaml : decode_block yaml [] = HPanic.
Proof. reflexivity. Qed.

Lemma mk_handle_empty yaml l : mk_handle yaml [] l = HPanic.
Proof. reflexivity. Qed.

Lemma mk_handle_nonempty yaml ann l : ann <> [] -> mk_handle yaml ann l <> HPanic.
Proof.
  intro Hne. unfold mk_handle. pose proof (decode_block_nonempty yaml ann Hne) as Hd.
  destruct (decode_block yaml ann) as [|e|a]; [contradiction | discriminate |].
  destruct (negb (mem_ch ch_colon (trim_space l))); discriminate.
Qed.

Lemma mk_handle_no_colon yaml ann l td :
  mem_ch ch_colon (trim_space l) = false -> mk_handle yaml ann l <> HOk td.
Proof.
  intro Hc. unfold mk_handle. destruct (decode_block yaml ann) as [|e|a]; try discriminate.
  rewrite Hc. cbn [negb]. discriminate.
Qed.

(* ---- the Makefile scanner never panics: the empty block is skipped before handleTarget *)

Lemma mk_scan_no_panic yaml lines : forall st found acc,
  is_panic (mk_scan yaml lines st found acc) = false.
Proof.
  induction lines as [|l rest IH]; intros st found acc; [reflexivity|].
  cbn [mk_scan]. destruct st as [|ann].
  - destruct (has_prefix grog_marker (trim_space l)); apply IH.
  - destruct (null (trim_space l)); [apply IH|].
    destruct (has_prefix [ch_hash] (trim_space l)); [apply IH|].
    destruct ann as [|a0 ann]; [apply IH|].
    pose proof (mk_handle_nonempty yaml (a0 :: ann) l) as Hh.
    destruct (mk_handle yaml (a0 :: ann) l) as [|e|td].
    + exfalso. apply Hh; [discriminate | reflexivity].
    + reflexivity.
    + apply IH.
Qed.

Theorem scan_no_panic : forall yaml lines, is_panic (scan_makefile yaml lines) = false.
Proof. intros yaml lines. unfold scan_makefile. apply mk_scan_no_panic. Qed.

(* ---- the script scanner never panics: same skip *)

Lemma sh_scan_no_panic yaml lines : forall st cur,
  is_panic (sh_scan yaml lines st cur) = false.
Proof.
  induction lines as [|l rest IH]; intros st cur; [reflexivity|].
  cbn [sh_scan]. destruct st as [|ann].
  - destruct (has_prefix grog_marker (trim_space l)); apply IH.
  - destruct (null (trim_space l)); [apply IH|].
    destruct (has_prefix [ch_hash] (trim_space l)); [apply IH|].
    destruct ann as [|a0 ann]; [apply IH|].
    pose proof (decode_block_nonempty yaml (a0 :: ann)) as Hd.
    destruct (decode_block yaml (a0 :: ann)) as [|e|a].
    + exfalso. apply Hd; [discriminate | reflexivity].
    + reflexivity.
    + apply IH.
Qed.

Theorem script_scan_no_panic : forall yaml name lines,
  is_panic (scan_script yaml name lines) = false.
Proof.
  intros yaml name lines. unfold scan_script.
  pose proof (sh_scan_no_panic yaml lines Outside empty_annot) as H.
  destruct (sh_scan yaml lines Outside empty_annot); [discriminate H | reflexivity | reflexivity].
Qed.

(* whole-file versions: cutting over-long lines cannot introduce a panic *)
Lemma after_scan_panic {A} b (r : scan_result A) : is_panic (after_scan b r) = is_panic r.
Proof. destruct r as [|e|f a]; cbn [after_scan is_panic]; [reflexivity..|]. destruct b; reflexivity. Qed.

Theorem script_file_no_panic : forall maxlen yaml name content,
  is_panic (scan_script_file maxlen yaml name content) = false.
Proof.
  intros maxlen yaml name content. unfold scan_script_file.
  destruct (split_lines maxlen content) as [ls long].
  rewrite after_scan_panic. apply script_scan_no_panic.
Qed.

Theorem makefile_file_no_panic : forall maxlen yaml content,
  is_panic (scan_makefile_file maxlen yaml content) = false.
Proof.
  intros maxlen yaml content. unfold scan_makefile_file.
  destruct (split_lines maxlen content) as [ls long].
  rewrite after_scan_panic. apply scan_no_panic.
Qed.

(* ---- the skip changed nothing else.  [mk_scan_noskip] is makefileParser.parse WITHOUT the
   `if len(annotationLines) == 0 { break }` statement, i.e. the parser as it was when C16-F1 was
   found (handleTarget called on every block).  It is a definition of this file, not part of the
   model: it only serves to state what the repair did and did not change. *)

Fixpoint mk_scan_noskip (yaml : str -> option annot) (lines : list str) (st : scan_state)
         (found : bool) (acc : list target_dto) : scan_result (list target_dto) :=
  match lines with
  | [] => ScanOk found (rev acc)
  | l :: rest =>
      let t := trim_space l in
      match st with
      | Outside =>
          if has_prefix grog_marker t then mk_scan_noskip yaml rest (InBlock []) true acc
          else mk_scan_noskip yaml rest Outside found acc
      | InBlock ann =>
          if null t then mk_scan_noskip yaml rest st found acc
          else if has_prefix [ch_hash] t then mk_scan_noskip yaml rest (InBlock (ann ++ [skipn 1 t])) found acc
          else match mk_handle yaml ann l with
               | HPanic => Panic
               | HErr e => ScanErr e
               | HOk td => mk_scan_noskip yaml rest Outside found (td :: acc)
               end
      end
  end.

Definition scan_makefile_noskip (yaml : str -> option annot) (lines : list str)
  : scan_result (list target_dto) := mk_scan_noskip yaml lines Outside false [].

(* '# @grog' directly followed by the goal line: the input of C16-F1 *)
Definition bare_makefile : list str := [lit "# @grog"; lit "foo:"].

Lemma bare_makefile_noskip_panics : forall yaml, scan_makefile_noskip yaml bare_makefile = Panic.
Proof. intro yaml. vm_compute. reflexivity. Qed.

Lemma bare_makefile_skipped : forall yaml, scan_makefile yaml bare_makefile = ScanOk true [].
Proof. intro yaml. vm_compute. reflexivity. Qed.

Lemma bare_makefile_guard : mk_guard bare_makefile = false.
Proof. vm_compute. reflexivity. Qed.

(* wherever the parser without the skip does not panic, the parser with it does the same *)
Lemma mk_scan_conservative yaml lines : forall st found acc,
  is_panic (mk_scan_noskip yaml lines st found acc) = false ->
  mk_scan yaml lines st found acc = mk_scan_noskip yaml lines st found acc.
Proof.
  induction lines as [|l rest IH]; intros st found acc Hp; [reflexivity|].
  cbn [mk_scan mk_scan_noskip] in Hp |- *. destruct st as [|ann].
  - destruct (has_prefix grog_marker (trim_space l)); apply IH; exact Hp.
  - destruct (null (trim_space l)); [apply IH; exact Hp|].
    destruct (has_prefix [ch_hash] (trim_space l)); [apply IH; exact Hp|].
    destruct ann as [|a0 ann].
    + rewrite mk_handle_empty in Hp. discriminate Hp.
    + destruct (mk_handle yaml (a0 :: ann) l) as [|e|td]; [reflexivity | reflexivity |].
      apply IH. exact Hp.
Qed.

Theorem scan_fix_conservative : forall yaml lines,
  is_panic (scan_makefile_noskip yaml lines) = false ->
  scan_makefile yaml lines = scan_makefile_noskip yaml lines.
Proof. intros yaml lines. unfold scan_makefile, scan_makefile_noskip. apply mk_scan_conservative. Qed.

(* ---- [mk_guard] describes the inputs concerned: sufficient for "no panic without the skip" *)

(* what the guard remembers of the scanner state *)
Definition abs_state (st : scan_state) : option bool :=
  match st with
  | Outside => None
  | InBlock ann => Some (nonemptyb ann)
  end.

Lemma abs_state_snoc ann x : abs_state (InBlock (ann ++ [x])) = Some true.
Proof. cbn [abs_state]. destruct ann; reflexivity. Qed.

Lemma mk_guard_go_sound yaml lines : forall st found acc,
  mk_guard_go lines (abs_state st) = true ->
  is_panic (mk_scan_noskip yaml lines st found acc) = false.
Proof.
  induction lines as [|l rest IH]; intros st found acc Hg; [reflexivity|].
  cbn [mk_scan_noskip]. destruct st as [|ann].
  - cbn [mk_guard_go abs_state] in Hg.
    destruct (has_prefix grog_marker (trim_space l)) eqn:Em.
    + apply (IH (InBlock [])). exact Hg.
    + apply (IH Outside). exact Hg.
  - cbn [mk_guard_go abs_state] in Hg.
    destruct (null (trim_space l)) eqn:En.
    + apply (IH (InBlock ann)). exact Hg.
    + destruct (has_prefix [ch_hash] (trim_space l)) eqn:Eh.
      * apply IH. rewrite abs_state_snoc. exact Hg.
      * destruct ann as [|a0 ann]; [cbn in Hg; discriminate|].
        cbn [nonemptyb negb] in Hg.
        pose proof (mk_handle_nonempty yaml (a0 :: ann) l) as Hh.
        destruct (mk_handle yaml (a0 :: ann) l) as [|e|td] eqn:Eh2.
        -- exfalso. apply Hh; [discriminate | reflexivity].
        -- reflexivity.
        -- destruct (mem_ch ch_colon (trim_space l)) eqn:Ec.
           ++ cbn [negb] in Hg. apply (IH Outside). exact Hg.
           ++ exfalso. exact (mk_handle_no_colon yaml (a0 :: ann) l td Ec Eh2).
Qed.

Theorem noskip_no_panic_guarded : forall lines,
  mk_guard lines = true -> forall yaml, is_panic (scan_makefile_noskip yaml lines) = false.
Proof.
  intros lines Hg yaml. unfold scan_makefile_noskip.
  apply (mk_guard_go_sound yaml lines Outside). exact Hg.
Qed.

(* on every guarded input the two parsers agree, whatever the decoder does *)
Theorem scan_fix_guarded : forall lines,
  mk_guard lines = true -> forall yaml, scan_makefile yaml lines = scan_makefile_noskip yaml lines.
Proof.
  intros lines Hg yaml. apply scan_fix_conservative. apply noskip_no_panic_guarded. exact Hg.
Qed.

(* ---- ... and exact: with a YAML decoder that accepts every block (the most permissive
   third-party behaviour) the parser without the skip panics exactly when the guard says no;
   hence the guard fails iff SOME decoder behaviour led to the panic.  (A decoder that rejects
   an earlier block ends the scan with an error before the shape is reached.) *)

Definition total_yaml (yaml : str -> option annot) : Prop := forall s, yaml s <> None.

Lemma mk_handle_total yaml ann l :
  total_yaml yaml -> ann <> [] ->
  (mem_ch ch_colon (trim_space l) = true -> exists td, mk_handle yaml ann l = HOk td) /\
  (mem_ch ch_colon (trim_space l) = false -> mk_handle yaml ann l = HErr ErrNoColon).
Proof.
  intros Ht Hne. unfold mk_handle.
  assert (Hd : exists a, decode_block yaml ann = HOk a).
  { destruct ann as [|x ann]; [contradiction|]. unfold decode_block.
    destruct (null (join nl (x :: ann))); [eexists; reflexivity|].
    destruct (yaml (join nl (x :: ann))) as [a|] eqn:Ey; [eexists; reflexivity|].
    exfalso. exact (Ht _ Ey). }
  destruct Hd as [a ->]. split; intro Hc; rewrite Hc; cbn [negb]; [eexists|]; reflexivity.
Qed.

Lemma mk_guard_go_complete yaml lines : total_yaml yaml -> forall st found acc,
  mk_guard_go lines (abs_state st) = false ->
  is_panic (mk_scan_noskip yaml lines st found acc) = true.
Proof.
  intro Ht. induction lines as [|l rest IH]; intros st found acc Hg; [discriminate|].
  cbn [mk_scan_noskip]. destruct st as [|ann].
  - cbn [mk_guard_go abs_state] in Hg.
    destruct (has_prefix grog_marker (trim_space l)) eqn:Em.
    + apply (IH (InBlock [])). exact Hg.
    + apply (IH Outside). exact Hg.
  - cbn [mk_guard_go abs_state] in Hg.
    destruct (null (trim_space l)) eqn:En.
    + apply (IH (InBlock ann)). exact Hg.
    + destruct (has_prefix [ch_hash] (trim_space l)) eqn:Eh.
      * apply IH. rewrite abs_state_snoc. exact Hg.
      * destruct ann as [|a0 ann]; [reflexivity|].
        cbn [nonemptyb negb] in Hg.
        assert (Hne : a0 :: ann <> []) by discriminate.
        destruct (mk_handle_total yaml (a0 :: ann) l Ht Hne) as [Hyes Hno].
        destruct (mem_ch ch_colon (trim_space l)) eqn:Ec.
        -- destruct (Hyes eq_refl) as [td ->]. cbn [negb] in Hg. apply (IH Outside). exact Hg.
        -- cbn [negb] in Hg. discriminate.
Qed.

Theorem mk_guard_exact_total : forall yaml lines,
  total_yaml yaml ->
  (is_panic (scan_makefile_noskip yaml lines) = true <-> mk_guard lines = false).
Proof.
  intros yaml lines Ht. unfold scan_makefile_noskip, mk_guard. split; intro H.
  - destruct (mk_guard_go lines None) eqn:Eg; [|reflexivity].
    rewrite (mk_guard_go_sound yaml lines Outside false [] Eg) in H. discriminate.
  - apply (mk_guard_go_complete yaml lines Ht Outside). exact H.
Qed.

Definition permissive_yaml : str -> option annot := fun _ => Some empty_annot.

Lemma permissive_total : total_yaml permissive_yaml.
Proof. intros s H. discriminate. Qed.

Theorem mk_guard_exact : forall lines,
  mk_guard lines = false <-> exists yaml, is_panic (scan_makefile_noskip yaml lines) = true.
Proof.
  intro lines. split.
  - intro Hg. exists permissive_yaml. apply (mk_guard_exact_total _ _ permissive_total). exact Hg.
  - intros [yaml Hp]. destruct (mk_guard lines) eqn:Eg; [|reflexivity].
    rewrite (noskip_no_panic_guarded lines Eg yaml) in Hp. discriminate.
Qed.

(* ---- annotation fields: everything the schema declares reaches the TargetDTO *)

(* the TargetDTO a BUILD.json / BUILD.yaml with the same settings decodes to (the schema of the
   annotation is a sub-schema of TargetDTO with the same field names) *)
Definition full_dto (a : annot) (goal : str) : target_dto :=
  mkTD (if null (an_name a) then goal else an_name a)
       (make_prefix ++ goal)
       (an_deps a) (an_inputs a) [] (an_outputs a) [] [] (an_tags a)
       (an_fingerprint a) (an_platforms a) (an_env a) (an_timeout a).

Theorem makefile_fields : forall a goal, mk_target a goal = full_dto a goal.
Proof. intros a goal. reflexivity. Qed.

(* the same, field by field: the nine declared annotation fields, none lost, none invented *)
Theorem makefile_fields_each : forall a goal,
  let td := mk_target a goal in
  td_name td = (if null (an_name a) then goal else an_name a) /\
  td_command td = make_prefix ++ goal /\
  td_deps td = an_deps a /\ td_inputs td = an_inputs a /\ td_outputs td = an_outputs a /\
  td_tags td = an_tags a /\ td_fingerprint td = an_fingerprint a /\ td_env td = an_env a /\
  td_timeout td = an_timeout a /\ td_platforms td = an_platforms a /\
  td_excludes td = [] /\ td_bin td = [] /\ td_checks td = [].
Proof. intros a goal. cbn zeta. repeat split; reflexivity. Qed.

Theorem script_fields_kept : forall a file,
  let td := script_target a file in
  td_fingerprint td = an_fingerprint a /\ td_env td = an_env a /\
  td_timeout td = an_timeout a /\ td_platforms td = an_platforms a /\ td_deps td = an_deps a.
Proof. intros a file. cbn zeta. repeat split; reflexivity. Qed.

(* one annotation, both loaders: the fields the two schemas share arrive identically *)
Theorem makefile_script_fields_agree : forall a goal file,
  let m := mk_target a goal in let s := script_target a file in
  td_deps m = td_deps s /\ td_fingerprint m = td_fingerprint s /\ td_env m = td_env s /\
  td_timeout m = td_timeout s /\ td_platforms m = td_platforms s.
Proof. intros a goal file. cbn zeta. repeat split; reflexivity. Qed.

(* ---- concrete instances (non-vacuity): a Makefile whose annotation sets every declared field *)

Definition rich_annot : annot :=
  mkAnnot (lit "t") [lit ":dep"] [lit "a.txt"] [lit "tag"]
          [(lit "k", lit "v")] [(lit "E", lit "1")] (lit "5s") (Some [lit "linux/amd64"]) [lit "out.txt"].

Definition rich_makefile : list str :=
  [lit "# @grog"; lit "# name: t"; lit "# fingerprint: {k: v}"; lit "# timeout: 5s"; lit "foo: dep"].

Definition goal_foo : str := lit "foo".
Definition script_x : str := lit "x.sh".

(* through the scanner: the four fields that used to be lost (C16-F2) are non-empty in the
   annotation and arrive in the one target of the file, which is the BUILD.json DTO *)
Example makefile_fields_nonvacuous :
  exists td,
    scan_makefile (fun _ => Some rich_annot) rich_makefile = ScanOk true [td] /\
    td = full_dto rich_annot goal_foo /\
    td_fingerprint td = [(lit "k", lit "v")] /\ td_env td = [(lit "E", lit "1")] /\
    td_timeout td = lit "5s" /\ td_platforms td = Some [lit "linux/amd64"] /\
    td_fingerprint td = td_fingerprint (script_target rich_annot script_x) /\
    td_platforms td = td_platforms (script_target rich_annot script_x).
Proof. eexists. repeat split; vm_compute; reflexivity. Qed.

(* the no-panic theorem on inputs that exercise every branch: an annotated target, a decoder
   error, a missing colon, the skipped empty block followed by a real one *)
Definition skip_then_target : list str :=
  [lit "# @grog"; lit ""; lit "all:"; lit "# @grog"; lit "# name: t"; lit "foo: dep"].

Example scan_no_panic_nonvacuous :
  scan_makefile (fun _ => Some rich_annot) rich_makefile = ScanOk true [mk_target rich_annot (lit "foo")] /\
  scan_makefile (fun _ => None) rich_makefile = ScanErr ErrYaml /\
  scan_makefile (fun _ => Some rich_annot) [lit "# @grog"; lit "# name: t"; lit "foo"] = ScanErr ErrNoColon /\
  scan_makefile (fun _ => Some rich_annot) skip_then_target = ScanOk true [mk_target rich_annot (lit "foo")] /\
  mk_guard skip_then_target = false /\
  scan_makefile_noskip (fun _ => Some rich_annot) skip_then_target = Panic.
Proof. repeat split; vm_compute; reflexivity. Qed.

(* the conservativity theorems: a guarded, non-trivial Makefile on which both parsers load the target *)
Example guard_nonvacuous :
  mk_guard rich_makefile = true /\
  scan_makefile_noskip (fun _ => Some rich_annot) rich_makefile = ScanOk true [mk_target rich_annot (lit "foo")] /\
  scan_makefile (fun _ => Some rich_annot) rich_makefile
  = scan_makefile_noskip (fun _ => Some rich_annot) rich_makefile.
Proof. repeat split; vm_compute; reflexivity. Qed.

Example script_scan_nonvacuous :
  scan_script (fun _ => Some rich_annot) (lit "x.sh") [lit "#!/bin/sh"; lit "# @grog"; lit "# name: t"; lit "echo hi"]
  = ScanOk true (script_target rich_annot (lit "x.sh")) /\
  (* the bare block is skipped by the script scanner as well *)
  scan_script (fun _ => None) (lit "x.sh") bare_makefile = ScanOk true (script_target empty_annot (lit "x.sh")).
Proof. split; vm_compute; reflexivity. Qed.

(* the exactness theorem with a total decoder: its hypothesis is inhabited and both sides occur *)
Example guard_exact_nonvacuous :
  total_yaml permissive_yaml /\
  is_panic (scan_makefile_noskip permissive_yaml bare_makefile) = true /\ mk_guard bare_makefile = false /\
  is_panic (scan_makefile_noskip permissive_yaml rich_makefile) = false /\ mk_guard rich_makefile = true.
Proof. split; [exact permissive_total|]. repeat split; vm_compute; reflexivity. Qed.

(* ================================================================== 2. enrichment *)

Definition map_result {A B} (f : A -> B) (r : result A) : result B :=
  match r with Ok a => Ok (f a) | Err e => Err e end.

(* ---- the source file name (the only thing that tells the formats apart once the decoder has
   produced the DTO) flows into the source fields and nowhere else *)

Definition target_with_source (s : str) (t : target) : target :=
  mkTarget (t_label t) s (t_command t) (t_deps t) (t_inputs t) (t_unresolved t) (t_excludes t)
           (t_outputs t) (t_bin t) (t_platforms t) (t_checks t) (t_tags t) (t_fingerprint t)
           (t_env t) (t_timeout t).
Definition alias_with_source (s : str) (a : alias) : alias := mkAlias (a_label a) s (a_actual a).
Definition package_with_source (s : str) (p : package) : package :=
  mkPkg (p_path p) (map (target_with_source s) (p_targets p)) (map (alias_with_source s) (p_aliases p)).
Definition dto_with_source (s : str) (d : package_dto) : package_dto :=
  mkPD s (pd_targets d) (pd_aliases d) (pd_default_platforms d).

(* the non-nil elements of a slice of pointers, in order *)
Fixpoint somes {A} (l : list (option A)) : list A :=
  match l with
  | [] => []
  | Some x :: l' => x :: somes l'
  | None :: l' => somes l'
  end.

Lemma somes_map_Some {A} (l : list A) : somes (map Some l) = l.
Proof. induction l as [|x l IH]; [reflexivity|]. cbn [map somes]. rewrite IH. reflexivity. Qed.

Lemma no_None_map_Some {A} (l : list (option A)) : ~ In None l -> l = map Some (somes l).
Proof.
  induction l as [|[x|] l IH]; intro H; [reflexivity | |].
  - cbn [somes map]. rewrite <- IH; [reflexivity|]. intro Hi. apply H. right. exact Hi.
  - exfalso. apply H. left. reflexivity.
Qed.

Lemma norm_path_idem p : norm_path (norm_path p) = norm_path p.
Proof. unfold norm_path. destruct (str_eqb p dot) eqn:E; [reflexivity | rewrite E; reflexivity]. Qed.

Section EnrichFacts.
  Variable glob : str -> option (list str).
  Variable dur : str -> option str.

  Definition tlabel (path : str) (td : target_dto) : label := mkLabel (norm_path path) (td_name td).
  Definition alabel (path : str) (ad : alias_dto) : label := mkLabel (norm_path path) (ad_name ad).

  (* enrich_target, characterised once: the duplicate check is the only use of [seen] *)
  Lemma enrich_target_seen src path dp seen td :
    enrich_target glob dur src path dp seen td =
    match parse_labels path (td_deps td) with
    | None => Err ELabel
    | Some _ => if label_in (tlabel path td) seen then Err EDuplicate
                else enrich_target glob dur src path dp [] td
    end.
  Proof.
    unfold enrich_target, tlabel. destruct (parse_labels path (td_deps td)) as [deps|]; [|reflexivity].
    cbn [label_in existsb].
    destruct (label_in (mkLabel (norm_path path) (td_name td)) seen); reflexivity.
  Qed.

  Lemma enrich_target_label src path dp seen td t :
    enrich_target glob dur src path dp seen td = Ok t -> t_label t = tlabel path td.
  Proof.
    unfold enrich_target, tlabel. intro H.
    destruct (parse_labels path (td_deps td)) as [deps|]; [|discriminate].
    destruct (label_in _ seen); [discriminate|].
    destruct (resolve_inputs glob (td_inputs td) (td_excludes td)) as [ins|]; [|discriminate].
    destruct (parse_outputs (td_outputs td)) as [outs|]; [|discriminate].
    destruct (if null (td_bin td) then Ok (mkOut [] []) else _) as [bin|e]; [|discriminate].
    destruct (if null (td_timeout td) then Some zero_dur else dur (td_timeout td)) as [tmo|]; [|discriminate].
    inversion H. reflexivity.
  Qed.

  Lemma enrich_target_ok_inv src path dp seen td t :
    enrich_target glob dur src path dp seen td = Ok t ->
    label_in (tlabel path td) seen = false /\ enrich_target glob dur src path dp [] td = Ok t.
  Proof.
    rewrite enrich_target_seen. destruct (parse_labels path (td_deps td)); [|discriminate].
    destruct (label_in (tlabel path td) seen); [discriminate|]. intro H. split; [reflexivity | exact H].
  Qed.

  Lemma enrich_target_source src src0 path dp seen td :
    enrich_target glob dur src path dp seen td =
    map_result (target_with_source src) (enrich_target glob dur src0 path dp seen td).
  Proof.
    unfold enrich_target.
    destruct (parse_labels path (td_deps td)) as [deps|]; [|reflexivity].
    destruct (label_in _ seen); [reflexivity|].
    destruct (resolve_inputs glob (td_inputs td) (td_excludes td)) as [ins|]; [|reflexivity].
    destruct (parse_outputs (td_outputs td)) as [outs|]; [|reflexivity].
    destruct (if null (td_bin td) then Ok (mkOut [] []) else _) as [bin|e]; [|reflexivity].
    destruct (if null (td_timeout td) then Some zero_dur else dur (td_timeout td)) as [tmo|]; reflexivity.
  Qed.

  Lemma labels_with_source s acc : map t_label (map (target_with_source s) acc) = map t_label acc.
  Proof. rewrite map_map. apply map_ext. intro t. reflexivity. Qed.

  Lemma alabels_with_source s acc : map a_label (map (alias_with_source s) acc) = map a_label acc.
  Proof. rewrite map_map. apply map_ext. intro t. reflexivity. Qed.

  Lemma enrich_targets_source src src0 path dp tds : forall acc0,
    enrich_targets glob dur src path dp tds (map (target_with_source src) acc0) =
    map_result (map (target_with_source src)) (enrich_targets glob dur src0 path dp tds acc0).
  Proof.
    induction tds as [|[td|] tds IH]; intro acc0; cbn [enrich_targets map_result].
    - rewrite map_rev. reflexivity.
    - rewrite labels_with_source.
      rewrite (enrich_target_source src src0 path dp (map t_label acc0) td).
      destruct (enrich_target glob dur src0 path dp (map t_label acc0) td) as [t0|e];
        cbn [map_result]; [|reflexivity].
      apply (IH (t0 :: acc0)).
    - reflexivity.
  Qed.

  Lemma enrich_aliases_source src src0 path tl ads : forall acc0,
    enrich_aliases src path tl ads (map (alias_with_source src) acc0) =
    map_result (map (alias_with_source src)) (enrich_aliases src0 path tl ads acc0).
  Proof.
    induction ads as [|[ad|] ads IH]; intro acc0; cbn [enrich_aliases map_result].
    - rewrite map_rev. reflexivity.
    - destruct (parse_label path (ad_actual ad)) as [actual|]; [|reflexivity].
      rewrite alabels_with_source.
      destruct (label_in _ tl || label_in _ (map a_label acc0)); [reflexivity|].
      apply (IH (mkAlias _ src0 actual :: acc0)).
    - reflexivity.
  Qed.

  Theorem enrich_source_only : forall path d s,
    enrich glob dur path (dto_with_source s d) =
    map_result (package_with_source s) (enrich glob dur path d).
  Proof.
    intros path d s. unfold enrich. cbn [dto_with_source pd_source pd_targets pd_aliases pd_default_platforms].
    pose proof (enrich_targets_source s (pd_source d) path (pd_default_platforms d) (pd_targets d) []) as Ht.
    cbn [map] in Ht. rewrite Ht.
    destruct (enrich_targets glob dur (pd_source d) path (pd_default_platforms d) (pd_targets d) [])
      as [ts|e]; cbn [map_result]; [|reflexivity].
    rewrite labels_with_source.
    pose proof (enrich_aliases_source s (pd_source d) path (map t_label ts) (pd_aliases d) []) as Ha.
    cbn [map] in Ha. rewrite Ha.
    destruct (enrich_aliases (pd_source d) path (map t_label ts) (pd_aliases d) []) as [als|e];
      cbn [map_result]; reflexivity.
  Qed.

  (* ---- a null list entry is an error (C16-F4 repaired), never a package *)

  Lemma enrich_targets_app src path dp l1 l2 : forall acc,
    enrich_targets glob dur src path dp (l1 ++ l2) acc =
    match enrich_targets glob dur src path dp l1 acc with
    | Err e => Err e
    | Ok ts => enrich_targets glob dur src path dp l2 (rev ts)
    end.
  Proof.
    induction l1 as [|[td|] l1 IH]; intro acc; cbn [app enrich_targets].
    - rewrite rev_involutive. reflexivity.
    - destruct (enrich_target glob dur src path dp (map t_label acc) td) as [t|e]; [apply IH | reflexivity].
    - reflexivity.
  Qed.

  Lemma enrich_aliases_app src path tl l1 l2 : forall acc,
    enrich_aliases src path tl (l1 ++ l2) acc =
    match enrich_aliases src path tl l1 acc with
    | Err e => Err e
    | Ok als => enrich_aliases src path tl l2 (rev als)
    end.
  Proof.
    induction l1 as [|[ad|] l1 IH]; intro acc; cbn [app enrich_aliases].
    - rewrite rev_involutive. reflexivity.
    - destruct (parse_label path (ad_actual ad)) as [actual|]; [|reflexivity].
      destruct (label_in _ tl || label_in _ (map a_label acc)); [reflexivity | apply IH].
    - reflexivity.
  Qed.

  (* the entries before the first null one are examined first (their errors win); if they are
     fine, the null entry is reported, whatever follows it *)
  Theorem enrich_null_target : forall path d before after,
    pd_targets d = before ++ None :: after ->
    enrich glob dur path d =
    match enrich_targets glob dur (pd_source d) path (pd_default_platforms d) before [] with
    | Err e => Err e
    | Ok _ => Err ENullTarget
    end.
  Proof.
    intros path d before after Hd. unfold enrich. rewrite Hd, enrich_targets_app.
    destruct (enrich_targets glob dur (pd_source d) path (pd_default_platforms d) before []) as [ts|e];
      reflexivity.
  Qed.

  Theorem enrich_null_alias : forall path d ts before after,
    enrich_targets glob dur (pd_source d) path (pd_default_platforms d) (pd_targets d) [] = Ok ts ->
    pd_aliases d = before ++ None :: after ->
    enrich glob dur path d =
    match enrich_aliases (pd_source d) path (map t_label ts) before [] with
    | Err e => Err e
    | Ok _ => Err ENullAlias
    end.
  Proof.
    intros path d ts before after Ht Hd. unfold enrich. rewrite Ht, Hd, enrich_aliases_app.
    destruct (enrich_aliases (pd_source d) path (map t_label ts) before []) as [als|e]; reflexivity.
  Qed.

  Lemma enrich_targets_no_null src path dp tds : forall acc ts,
    enrich_targets glob dur src path dp tds acc = Ok ts -> ~ In None tds.
  Proof.
    induction tds as [|[td|] tds IH]; intros acc ts H; cbn [enrich_targets] in H.
    - intros [].
    - destruct (enrich_target glob dur src path dp (map t_label acc) td) as [t|e]; [|discriminate].
      intros [Hx|Hx]; [discriminate | exact (IH _ _ H Hx)].
    - discriminate.
  Qed.

  Lemma enrich_aliases_no_null src path tl ads : forall acc als,
    enrich_aliases src path tl ads acc = Ok als -> ~ In None ads.
  Proof.
    induction ads as [|[ad|] ads IH]; intros acc als H; cbn [enrich_aliases] in H.
    - intros [].
    - destruct (parse_label path (ad_actual ad)) as [actual|]; [|discriminate].
      destruct (label_in _ tl || label_in _ (map a_label acc)); [discriminate|].
      intros [Hx|Hx]; [discriminate | exact (IH _ _ H Hx)].
    - discriminate.
  Qed.

  Theorem enrich_ok_no_null : forall path d p,
    enrich glob dur path d = Ok p -> ~ In None (pd_targets d) /\ ~ In None (pd_aliases d).
  Proof.
    intros path d p H. unfold enrich in H.
    destruct (enrich_targets glob dur (pd_source d) path (pd_default_platforms d) (pd_targets d) [])
      as [ts|e] eqn:Et; [|discriminate].
    destruct (enrich_aliases (pd_source d) path (map t_label ts) (pd_aliases d) []) as [als|e] eqn:Ea;
      [|discriminate].
    split; [exact (enrich_targets_no_null _ _ _ _ _ _ Et) | exact (enrich_aliases_no_null _ _ _ _ _ _ Ea)].
  Qed.

  Theorem enrich_null_entry_error : forall path d,
    In None (pd_targets d) \/ In None (pd_aliases d) -> exists e, enrich glob dur path d = Err e.
  Proof.
    intros path d H. destruct (enrich glob dur path d) as [p|e] eqn:E; [|exists e; reflexivity].
    exfalso. destruct (enrich_ok_no_null _ _ _ E) as [H1 H2]. destruct H as [H|H]; [exact (H1 H) | exact (H2 H)].
  Qed.

  (* ---- labels of an enriched package *)

  Lemma enrich_targets_labels src path dp tds : forall acc ts,
    enrich_targets glob dur src path dp tds acc = Ok ts ->
    map t_label ts = rev (map t_label acc) ++ map (tlabel path) (somes tds) /\
    (NoDup (map t_label acc) -> NoDup (map t_label ts)) /\
    exists ts', ts = rev acc ++ ts' /\
                Forall2 (fun td t => enrich_target glob dur src path dp [] td = Ok t) (somes tds) ts'.
  Proof.
    induction tds as [|[td|] tds IH]; intros acc ts H; cbn [enrich_targets] in H; [| |discriminate].
    - inversion H; subst. rewrite map_rev. cbn [map]. rewrite app_nil_r. split; [reflexivity|]. split.
      + intro Hn. apply NoDup_rev. exact Hn.
      + exists []. rewrite app_nil_r. split; [reflexivity | constructor].
    - destruct (enrich_target glob dur src path dp (map t_label acc) td) as [t|e] eqn:Et; [|discriminate].
      pose proof (enrich_target_label _ _ _ _ _ _ Et) as Hl.
      destruct (enrich_target_ok_inv _ _ _ _ _ _ Et) as [Hfresh Hpure].
      destruct (IH (t :: acc) ts H) as [Hm [Hn [ts' [Hts Hf]]]].
      cbn [somes]. cbn [map rev] in Hm |- *. rewrite Hl in Hm. rewrite <- app_assoc in Hm. cbn [app] in Hm.
      split; [exact Hm|]. split.
      + intro Hacc. apply Hn. cbn [map]. constructor; [|exact Hacc].
        rewrite Hl. apply label_in_false. exact Hfresh.
      + exists (t :: ts'). split.
        * rewrite Hts. cbn [rev]. rewrite <- app_assoc. reflexivity.
        * constructor; assumption.
  Qed.

  Lemma enrich_aliases_labels src path tl ads : forall acc als,
    enrich_aliases src path tl ads acc = Ok als ->
    map a_label als = rev (map a_label acc) ++ map (alabel path) (somes ads) /\
    (NoDup (map a_label acc) -> (forall x, In x (map a_label acc) -> ~ In x tl) ->
     NoDup (map a_label als) /\ (forall x, In x (map a_label als) -> ~ In x tl)).
  Proof.
    induction ads as [|[ad|] ads IH]; intros acc als H; cbn [enrich_aliases] in H; [| |discriminate].
    - inversion H; subst. rewrite map_rev. cbn [map]. rewrite app_nil_r. split; [reflexivity|].
      intros Hn Hd. split; [apply NoDup_rev; exact Hn|].
      intros x Hx. apply Hd. apply in_rev. exact Hx.
    - destruct (parse_label path (ad_actual ad)) as [actual|]; [|discriminate].
      destruct (label_in (mkLabel (norm_path path) (ad_name ad)) tl) eqn:E1; [discriminate|].
      destruct (label_in (mkLabel (norm_path path) (ad_name ad)) (map a_label acc)) eqn:E2; [discriminate|].
      cbn [orb] in H. destruct (IH _ als H) as [Hm Hn].
      cbn [somes]. cbn [map rev a_label] in Hm |- *. rewrite <- app_assoc in Hm. cbn [app] in Hm.
      split; [exact Hm|]. intros Hacc Hd. apply Hn.
      + cbn [map a_label]. constructor; [apply label_in_false; exact E2 | exact Hacc].
      + intros x [Hx|Hx].
        * cbn [a_label] in Hx. subst x. apply label_in_false. exact E1.
        * apply Hd. exact Hx.
  Qed.

  Theorem enrich_labels : forall path d p,
    enrich glob dur path d = Ok p ->
    map t_label (p_targets p) = map (tlabel path) (somes (pd_targets d)) /\
    map a_label (p_aliases p) = map (alabel path) (somes (pd_aliases d)) /\
    NoDup (pkg_labels p) /\
    pkey p = norm_path path.
  Proof.
    intros path d p H. unfold enrich in H.
    destruct (enrich_targets glob dur (pd_source d) path (pd_default_platforms d) (pd_targets d) [])
      as [ts|e] eqn:Et; [|discriminate].
    destruct (enrich_aliases (pd_source d) path (map t_label ts) (pd_aliases d) []) as [als|e] eqn:Ea;
      [|discriminate].
    inversion H; subst p. clear H. cbn [p_targets p_aliases].
    destruct (enrich_targets_labels _ _ _ _ _ _ Et) as [Hm [Hn _]]. cbn [map rev app] in Hm, Hn.
    destruct (enrich_aliases_labels _ _ _ _ _ _ Ea) as [Hma Hna]. cbn [map rev app] in Hma, Hna.
    split; [exact Hm|]. split; [exact Hma|]. split.
    - unfold pkg_labels, target_labels, alias_labels. cbn [p_targets p_aliases].
      destruct (Hna (NoDup_nil _) (fun x (F : False) => match F with end)) as [Hna1 Hna2].
      apply NoDup_app_intro; [apply Hn; constructor | exact Hna1 |].
      intros x Hx Hx'. exact (Hna2 x Hx' Hx).
    - unfold pkey. cbn [p_path].
      destruct (pd_targets d), (pd_aliases d); try reflexivity; apply norm_path_idem.
  Qed.

  (* every target of the package is a function of its own DTO (and of the package-level
     source, path and default platforms) alone: no cross-target influence other than the
     duplicate check *)
  Theorem enrich_targets_pointwise : forall path d p,
    enrich glob dur path d = Ok p ->
    Forall2 (fun td t => enrich_target glob dur (pd_source d) path (pd_default_platforms d) [] td = Ok t)
            (somes (pd_targets d)) (p_targets p).
  Proof.
    intros path d p H. unfold enrich in H.
    destruct (enrich_targets glob dur (pd_source d) path (pd_default_platforms d) (pd_targets d) [])
      as [ts|e] eqn:Et; [|discriminate].
    destruct (enrich_aliases (pd_source d) path (map t_label ts) (pd_aliases d) []) as [als|e]; [|discriminate].
    inversion H; subst p. cbn [p_targets].
    destruct (enrich_targets_labels _ _ _ _ _ _ Et) as [_ [_ [ts' [Hts Hf]]]].
    cbn [rev app] in Hts. subst ts'. exact Hf.
  Qed.
End EnrichFacts.

(* non-vacuity: a package that enriches, with concrete oracles *)
Definition demo_glob : str -> option (list str) := fun p => Some [p ++ lit ".1"; p ++ lit ".2"].
Definition demo_dur : str -> option str := fun s => if str_eqb s (lit "5s") then Some (lit "5000000000") else None.
Definition demo_targets : list target_dto :=
       [mkTD (lit "a") (lit "echo a") [lit ":b"; lit "//x/y:z"] [lit "*.txt"; lit "lit.c"] [lit "skip*"]
             [lit "out.txt"; lit "dir::dist"] (lit "bin/a") [(lit "c", lit "e")] [lit "tag"]
             [(lit "k", lit "v")] None [(lit "E", lit "1")] (lit "5s");
        mkTD (lit "b") (lit "echo b") [] [] [] [] [] [] [] [] (Some [lit "linux/amd64"]) [] []].
Definition demo_dto : package_dto :=
  mkPD (lit "pkg/BUILD.json") (map Some demo_targets) [Some (mkAD (lit "al") (lit ":a"))]
       (Some [lit "darwin/arm64"]).

Example enrich_nonvacuous :
  exists p, enrich demo_glob demo_dur (lit "pkg") demo_dto = Ok p /\
            List.length (p_targets p) = 2 /\ List.length (p_aliases p) = 1 /\
            map t_platforms (p_targets p) = [Some [lit "darwin/arm64"]; Some [lit "linux/amd64"]] /\
            enrich demo_glob demo_dur (lit "pkg") (dto_with_source (lit "pkg/BUILD.yaml") demo_dto)
            = Ok (package_with_source (lit "pkg/BUILD.yaml") p).
Proof. eexists. repeat split; vm_compute; reflexivity. Qed.

Example enrich_duplicate_rejected :
  enrich demo_glob demo_dur (lit "pkg")
         (mkPD [] (pd_targets demo_dto) [Some (mkAD (lit "a") (lit ":b"))] None) = Err EDuplicate.
Proof. vm_compute. reflexivity. Qed.

(* null entries: {"targets": [null]}, "aliases:" / "- ~", a null entry after good ones, and a
   bad entry BEFORE the null one (its error is the one reported, as in the Go loop) *)
Definition bad_dep_target : target_dto :=
  mkTD (lit "c") (lit "echo c") [lit "nolabel"] [] [] [] [] [] [] [] None [] [].

Example enrich_null_entries :
  enrich demo_glob demo_dur (lit "pkg") (mkPD (lit "pkg/BUILD.json") [None] [] None) = Err ENullTarget /\
  enrich demo_glob demo_dur (lit "pkg") (mkPD (lit "pkg/BUILD.yaml") [] [None] None) = Err ENullAlias /\
  enrich demo_glob demo_dur (lit "pkg")
         (mkPD [] (pd_targets demo_dto ++ [None]) (pd_aliases demo_dto) None) = Err ENullTarget /\
  enrich demo_glob demo_dur (lit "pkg")
         (mkPD [] (pd_targets demo_dto) (pd_aliases demo_dto ++ [None; None]) None) = Err ENullAlias /\
  enrich demo_glob demo_dur (lit "pkg")
         (mkPD [] [Some bad_dep_target; None] [None] None) = Err ELabel /\
  (exists e, enrich demo_glob demo_dur (lit "pkg") (mkPD [] [None; Some bad_dep_target] [] None) = Err e).
Proof.
  repeat split; try (vm_compute; reflexivity).
  apply enrich_null_entry_error. left. left. reflexivity.
Qed.

(* ================================================================== 3. merging *)

Lemma merge_packages_some from into p' :
  merge_packages from into = Some p' ->
  p_path p' = p_path into /\ p_targets p' = p_targets into ++ p_targets from /\
  p_aliases p' = p_aliases into ++ p_aliases from.
Proof.
  unfold merge_packages. destruct (existsb _ (p_targets from)); [discriminate|].
  destruct (existsb _ (p_aliases from)); [discriminate|].
  intro H. inversion H. cbn [p_path p_targets p_aliases]. repeat split; reflexivity.
Qed.

Lemma merge_packages_key from into p' : merge_packages from into = Some p' -> pkey p' = pkey into.
Proof. intro H. apply merge_packages_some in H as [Hp _]. unfold pkey. rewrite Hp. reflexivity. Qed.

Lemma merge_packages_labels from into p' :
  merge_packages from into = Some p' -> Permutation (pkg_labels p') (pkg_labels into ++ pkg_labels from).
Proof.
  intro H. apply merge_packages_some in H as [_ [Ht Ha]].
  unfold pkg_labels, target_labels, alias_labels. rewrite Ht, Ha, !map_app. apply Permutation_app4.
Qed.

(* a failed merge exhibits a label that occurs twice *)
Lemma merge_packages_none from into :
  merge_packages from into = None -> ~ NoDup (pkg_labels into ++ pkg_labels from).
Proof.
  unfold merge_packages. intros H Hnd.
  destruct (existsb (fun t => label_in (t_label t) (target_labels into)) (p_targets from)) eqn:E1.
  - apply existsb_exists in E1 as [t [Ht Hin]]. apply label_in_spec in Hin.
    apply (NoDup_app_disj _ _ (t_label t) Hnd).
    + apply in_or_app. left. exact Hin.
    + apply in_or_app. left. apply in_map. exact Ht.
  - destruct (existsb _ (p_aliases from)) eqn:E2; [|discriminate].
    apply existsb_exists in E2 as [a [Ha Hor]].
    assert (Hfrom : In (a_label a) (pkg_labels from)).
    { apply in_or_app. right. apply in_map. exact Ha. }
    apply orb_true_iff in Hor as [Hin|Hin]; apply label_in_spec in Hin.
    + apply (NoDup_app_disj _ _ (a_label a) Hnd); [|exact Hfrom].
      apply in_or_app. right. exact Hin.
    + rewrite map_app in Hin. apply in_app_or in Hin as [Hin|Hin].
      * apply (NoDup_app_disj _ _ (a_label a) Hnd); [|exact Hfrom].
        apply in_or_app. left. exact Hin.
      * apply NoDup_app_r in Hnd. unfold pkg_labels in Hnd.
        apply (NoDup_app_disj _ _ (a_label a) Hnd); [exact Hin|]. apply in_map. exact Ha.
Qed.

(* ---- what a selection of the packages holds, as a multiset, is preserved by every step *)
Section Content.
  Variable A : Type.
  Variable sel : package -> bool.
  Variable f : package -> list A.
  Hypothesis sel_key : forall p q, pkey p = pkey q -> sel p = sel q.
  Hypothesis f_merge : forall from into p',
    merge_packages from into = Some p' -> Permutation (f p') (f into ++ f from).

  Definition content (m : list package) : list A := flat_map f (filter sel m).

  Lemma content_cons p m : content (p :: m) = (if sel p then f p else []) ++ content m.
  Proof. unfold content. cbn [filter]. destruct (sel p); reflexivity. Qed.

  Lemma content_nil : content [] = [].
  Proof. reflexivity. Qed.

  Lemma content_perm m m' : Permutation m m' -> Permutation (content m) (content m').
  Proof.
    intro H. unfold content. apply Permutation_flat_map. apply Permutation_filter_compat. exact H.
  Qed.

  Lemma insert_content fr : forall m m',
    insert_fragment fr m = Some m' -> Permutation (content m') (content m ++ content [fr]).
  Proof.
    induction m as [|p m IH]; intros m' H; cbn [insert_fragment] in H.
    - inversion H. apply Permutation_refl.
    - destruct (str_eqb (pkey p) (pkey fr)) eqn:Ek.
      + destruct (merge_packages fr p) as [p0|] eqn:Em; [|discriminate]. inversion H; subst m'.
        apply str_eqb_eq in Ek.
        rewrite !content_cons, content_nil, app_nil_r.
        rewrite (sel_key p0 p (merge_packages_key _ _ _ Em)), <- (sel_key p fr Ek).
        destruct (sel p).
        * eapply Permutation_trans; [apply Permutation_app_tail; apply (f_merge _ _ _ Em)|].
          rewrite <- !app_assoc. apply Permutation_app_head. apply Permutation_app_comm.
        * cbn [app]. rewrite app_nil_r. apply Permutation_refl.
      + destruct (insert_fragment fr m) as [m1|] eqn:Ei; [|discriminate]. inversion H; subst m'.
        rewrite (content_cons p m1), (content_cons p m), <- app_assoc.
        apply Permutation_app_head. apply IH. reflexivity.
  Qed.

  Lemma merge_from_content : forall frs m m',
    merge_from m frs = Some m' -> Permutation (content m') (content m ++ content frs).
  Proof.
    induction frs as [|fr frs IH]; intros m m' H; cbn [merge_from] in H.
    - inversion H. rewrite content_nil, app_nil_r. apply Permutation_refl.
    - destruct (insert_fragment fr m) as [m1|] eqn:Ei; [|discriminate].
      eapply Permutation_trans; [apply (IH _ _ H)|].
      rewrite (content_cons fr frs).
      eapply Permutation_trans; [apply Permutation_app_tail; apply (insert_content _ _ _ Ei)|].
      rewrite (content_cons fr []), content_nil, app_nil_r, <- app_assoc. apply Permutation_refl.
  Qed.
End Content.

Arguments content {A} sel f m.

Definition sel_all : package -> bool := fun _ => true.
Definition sel_key (k : str) : package -> bool := fun p => str_eqb (pkey p) k.

Lemma sel_all_key p q : pkey p = pkey q -> sel_all p = sel_all q.
Proof. reflexivity. Qed.

Lemma sel_key_key k p q : pkey p = pkey q -> sel_key k p = sel_key k q.
Proof. unfold sel_key. intros ->. reflexivity. Qed.

Lemma content_all_labels m : content sel_all pkg_labels m = all_labels m.
Proof.
  unfold content, all_labels. induction m as [|p m IH]; [reflexivity|].
  cbn [filter sel_all flat_map]. cbn [sel_all] in IH. rewrite IH. reflexivity.
Qed.

Lemma merge_targets_perm from into p' :
  merge_packages from into = Some p' -> Permutation (p_targets p') (p_targets into ++ p_targets from).
Proof. intro H. apply merge_packages_some in H as [_ [-> _]]. apply Permutation_refl. Qed.

Lemma merge_aliases_perm from into p' :
  merge_packages from into = Some p' -> Permutation (p_aliases p') (p_aliases into ++ p_aliases from).
Proof. intro H. apply merge_packages_some in H as [_ [_ ->]]. apply Permutation_refl. Qed.

(* ---- keys: one package per key, the keys are those of the fragments *)

Lemma insert_keys fr : forall m m',
  insert_fragment fr m = Some m' ->
  (In (pkey fr) (map pkey m) /\ map pkey m' = map pkey m) \/
  (~ In (pkey fr) (map pkey m) /\ map pkey m' = map pkey m ++ [pkey fr]).
Proof.
  induction m as [|p m IH]; intros m' H; cbn [insert_fragment] in H.
  - inversion H. right. split; [intros [] | reflexivity].
  - destruct (str_eqb (pkey p) (pkey fr)) eqn:Ek.
    + destruct (merge_packages fr p) as [p0|] eqn:Em; [|discriminate]. inversion H; subst m'.
      apply str_eqb_eq in Ek. left. split; [left; exact Ek|].
      cbn [map]. rewrite (merge_packages_key _ _ _ Em). reflexivity.
    + destruct (insert_fragment fr m) as [m1|] eqn:Ei; [|discriminate]. inversion H; subst m'.
      apply str_eqb_neq in Ek.
      destruct (IH m1 eq_refl) as [[Hin Hm]|[Hnin Hm]].
      * left. split; [right; exact Hin | cbn [map]; rewrite Hm; reflexivity].
      * right. split; [|cbn [map app]; rewrite Hm; reflexivity].
        intros [Hx|Hx]; [exact (Ek Hx) | exact (Hnin Hx)].
Qed.

Lemma NoDup_snoc {A} (l : list A) x : NoDup l -> ~ In x l -> NoDup (l ++ [x]).
Proof.
  intros Hl Hx. apply NoDup_app_intro; [exact Hl | constructor; [intros [] | constructor] |].
  intros y Hy [Hyx|[]]. subst y. exact (Hx Hy).
Qed.

Lemma merge_from_keys : forall frs m m',
  merge_from m frs = Some m' ->
  (NoDup (map pkey m) -> NoDup (map pkey m')) /\
  (forall k, In k (map pkey m') <-> In k (map pkey m) \/ In k (map pkey frs)).
Proof.
  induction frs as [|fr frs IH]; intros m m' H; cbn [merge_from] in H.
  - inversion H; subst m'. split; [auto|]. intro k. cbn [map In]. tauto.
  - destruct (insert_fragment fr m) as [m1|] eqn:Ei; [|discriminate].
    destruct (IH _ _ H) as [Hn Hk]. destruct (insert_keys _ _ _ Ei) as [[Hin Hm]|[Hnin Hm]].
    + split.
      * intro Hm0. apply Hn. rewrite Hm. exact Hm0.
      * intro k. rewrite Hk, Hm. cbn [map In]. split; [tauto|].
        intros [Hx|[Hx|Hx]]; [tauto | subst k; tauto | tauto].
    + split.
      * intro Hm0. apply Hn. rewrite Hm. apply NoDup_snoc; assumption.
      * intro k. rewrite Hk, Hm, in_app_iff. cbn [map In]. tauto.
Qed.

(* ---- failure means a duplicate label *)

Lemma insert_none fr : forall m,
  insert_fragment fr m = None -> ~ NoDup (all_labels m ++ pkg_labels fr).
Proof.
  induction m as [|p m IH]; intro H; cbn [insert_fragment] in H; [discriminate|].
  unfold all_labels. cbn [flat_map]. fold (all_labels m). intro Hnd.
  destruct (str_eqb (pkey p) (pkey fr)).
  - destruct (merge_packages fr p) as [p0|] eqn:Em; [discriminate|].
    apply (merge_packages_none _ _ Em).
    apply NoDup_app_l with (b := all_labels m).
    eapply Permutation_NoDup; [|exact Hnd].
    rewrite <- !app_assoc. apply Permutation_app_head. apply Permutation_app_comm.
  - destruct (insert_fragment fr m) as [m1|] eqn:Ei; [discriminate|].
    apply (IH eq_refl). rewrite <- app_assoc in Hnd. apply NoDup_app_r in Hnd. exact Hnd.
Qed.

Definition frag_labels (frs : list package) : list label := flat_map pkg_labels frs.

Lemma merge_from_labels frs m m' :
  merge_from m frs = Some m' -> Permutation (all_labels m') (all_labels m ++ frag_labels frs).
Proof.
  intro H. unfold frag_labels. change (flat_map pkg_labels frs) with (all_labels frs).
  rewrite <- !content_all_labels. apply (merge_from_content _ sel_all pkg_labels sel_all_key merge_packages_labels). exact H.
Qed.

Lemma merge_from_none : forall frs m,
  merge_from m frs = None -> ~ NoDup (all_labels m ++ frag_labels frs).
Proof.
  induction frs as [|fr frs IH]; intros m H; cbn [merge_from] in H; [discriminate|].
  unfold frag_labels. cbn [flat_map]. fold (frag_labels frs). intro Hnd.
  destruct (insert_fragment fr m) as [m1|] eqn:Ei.
  - apply (IH _ H). rewrite app_assoc in Hnd.
    eapply Permutation_NoDup; [|exact Hnd]. apply Permutation_app_tail. apply Permutation_sym.
    pose proof (merge_from_labels [fr] m m1) as Hp. cbn [merge_from] in Hp. rewrite Ei in Hp.
    specialize (Hp eq_refl). unfold frag_labels in Hp. cbn [flat_map] in Hp. rewrite app_nil_r in Hp.
    exact Hp.
  - apply (insert_none _ _ Ei). rewrite app_assoc in Hnd. apply NoDup_app_l in Hnd. exact Hnd.
Qed.

(* ---- load_all accepts exactly the fragment lists whose labels are pairwise distinct *)

Theorem load_all_none_iff frs : load_all frs = None <-> ~ NoDup (frag_labels frs).
Proof.
  unfold load_all, merge_all. destruct (merge_from [] frs) as [m|] eqn:Em.
  - pose proof (merge_from_labels _ _ _ Em) as Hp. cbn [all_labels flat_map app] in Hp.
    destruct (nodup_labels (all_labels m)) eqn:En.
    + split; [discriminate|]. intro Hn. exfalso. apply Hn.
      apply nodup_labels_spec in En. exact (Permutation_NoDup Hp En).
    + split; [|reflexivity]. intros _ Hn.
      assert (Ht : nodup_labels (all_labels m) = true).
      { apply nodup_labels_spec. exact (Permutation_NoDup (Permutation_sym Hp) Hn). }
      congruence.
  - split; [|reflexivity]. intros _. exact (merge_from_none _ _ Em).
Qed.

Theorem load_all_accepts_iff frs : (exists m, load_all frs = Some m) <-> NoDup (frag_labels frs).
Proof.
  pose proof (load_all_none_iff frs) as Hn. split.
  - intros [m Hm]. destruct (nodup_labels (frag_labels frs)) eqn:E; [apply nodup_labels_spec; exact E|].
    exfalso. assert (Hx : ~ NoDup (frag_labels frs)).
    { intro Hd. apply nodup_labels_spec in Hd. congruence. }
    apply Hn in Hx. congruence.
  - intro Hd. destruct (load_all frs) as [m|]; [exists m; reflexivity|].
    exfalso. exact (proj1 Hn eq_refl Hd).
Qed.

(* ---- the result, key by key *)

Definition key_targets (k : str) (m : list package) : list target := content (sel_key k) p_targets m.
Definition key_aliases (k : str) (m : list package) : list alias := content (sel_key k) p_aliases m.

Lemma content_no_key {A} (f : package -> list A) k : forall m,
  ~ In k (map pkey m) -> content (sel_key k) f m = [].
Proof.
  induction m as [|p m IH]; intro H; [reflexivity|].
  rewrite content_cons. unfold sel_key at 1.
  destruct (str_eqb (pkey p) k) eqn:E.
  - apply str_eqb_eq in E. exfalso. apply H. left. exact E.
  - cbn [app]. apply IH. intro Hi. apply H. right. exact Hi.
Qed.

Lemma content_unique_key {A} (f : package -> list A) p : forall m,
  NoDup (map pkey m) -> In p m -> content (sel_key (pkey p)) f m = f p.
Proof.
  induction m as [|q m IH]; intros Hn Hin; [destruct Hin|].
  cbn [map] in Hn. inversion Hn as [|k ks Hq Hm]; subst.
  rewrite content_cons. unfold sel_key at 1. destruct Hin as [->|Hin].
  - rewrite str_eqb_refl. rewrite (content_no_key f (pkey p) m Hq). apply app_nil_r.
  - destruct (str_eqb (pkey q) (pkey p)) eqn:E.
    + apply str_eqb_eq in E. exfalso. apply Hq. rewrite E. apply in_map. exact Hin.
    + cbn [app]. apply IH; assumption.
Qed.

Lemma load_all_content frs m :
  load_all frs = Some m ->
  NoDup (map pkey m) /\
  (forall k, In k (map pkey m) <-> In k (map pkey frs)) /\
  (forall k, Permutation (key_targets k m) (key_targets k frs)) /\
  (forall k, Permutation (key_aliases k m) (key_aliases k frs)).
Proof.
  unfold load_all, merge_all. destruct (merge_from [] frs) as [m0|] eqn:Em; [|discriminate].
  destruct (nodup_labels (all_labels m0)); [|discriminate]. intro H. inversion H; subst m0.
  destruct (merge_from_keys _ _ _ Em) as [Hn Hk]. split; [apply Hn; constructor|]. split.
  - intro k. rewrite Hk. cbn [map In]. tauto.
  - split; intro k.
    + apply (merge_from_content _ (sel_key k) p_targets (sel_key_key k) merge_targets_perm _ _ _ Em).
    + apply (merge_from_content _ (sel_key k) p_aliases (sel_key_key k) merge_aliases_perm _ _ _ Em).
Qed.

(* two results describe the same packages: one package per key on both sides, the same keys,
   and per key the same targets and the same aliases up to their order inside the package
   (Go keeps them in maps; p_path itself may be "." on one side and "" on the other for the
   root package, hence the comparison by key) *)
Definition pkg_equiv (p p' : package) : Prop :=
  pkey p = pkey p' /\ Permutation (p_targets p) (p_targets p') /\ Permutation (p_aliases p) (p_aliases p').

Definition pkgs_equiv (m m' : list package) : Prop :=
  NoDup (map pkey m) /\ NoDup (map pkey m') /\
  (forall p, In p m -> exists p', In p' m' /\ pkg_equiv p p') /\
  (forall p', In p' m' -> exists p, In p m /\ pkg_equiv p p').

Lemma load_all_half frs frs' m m' :
  Permutation frs frs' -> load_all frs = Some m -> load_all frs' = Some m' ->
  forall p, In p m -> exists p', In p' m' /\ pkg_equiv p p'.
Proof.
  intros HP Hm Hm' p Hp.
  destruct (load_all_content _ _ Hm) as [Hn [Hk [Ht Ha]]].
  destruct (load_all_content _ _ Hm') as [Hn' [Hk' [Ht' Ha']]].
  assert (Hin : In (pkey p) (map pkey m')).
  { apply Hk'. apply (Permutation_in _ (Permutation_map pkey HP)). apply Hk. apply in_map. exact Hp. }
  apply in_map_iff in Hin as [p' [Hkey Hp']]. exists p'. split; [exact Hp'|].
  split; [symmetry; exact Hkey|]. split.
  - rewrite <- (content_unique_key p_targets p m Hn Hp).
    rewrite <- (content_unique_key p_targets p' m' Hn' Hp'). rewrite Hkey.
    eapply Permutation_trans; [apply Ht|]. eapply Permutation_trans; [|apply Permutation_sym; apply Ht'].
    apply content_perm. exact HP.
  - rewrite <- (content_unique_key p_aliases p m Hn Hp).
    rewrite <- (content_unique_key p_aliases p' m' Hn' Hp'). rewrite Hkey.
    eapply Permutation_trans; [apply Ha|]. eapply Permutation_trans; [|apply Permutation_sym; apply Ha'].
    apply content_perm. exact HP.
Qed.

Lemma pkg_equiv_sym p p' : pkg_equiv p p' -> pkg_equiv p' p.
Proof. intros [H1 [H2 H3]]. split; [symmetry; exact H1|]. split; apply Permutation_sym; assumption. Qed.

Theorem merge_order_independent : forall frs frs',
  Permutation frs frs' ->
  (load_all frs = None <-> load_all frs' = None) /\
  (forall m m', load_all frs = Some m -> load_all frs' = Some m' -> pkgs_equiv m m').
Proof.
  intros frs frs' HP. split.
  - rewrite !load_all_none_iff.
    assert (Hl : Permutation (frag_labels frs) (frag_labels frs')).
    { unfold frag_labels. apply Permutation_flat_map. exact HP. }
    split; intros H Hd; apply H.
    + exact (Permutation_NoDup (Permutation_sym Hl) Hd).
    + exact (Permutation_NoDup Hl Hd).
  - intros m m' Hm Hm'. split; [exact (proj1 (load_all_content _ _ Hm))|].
    split; [exact (proj1 (load_all_content _ _ Hm'))|]. split.
    + exact (load_all_half _ _ _ _ HP Hm Hm').
    + intros p' Hp'. destruct (load_all_half _ _ _ _ (Permutation_sym HP) Hm' Hm p' Hp') as [p [Hp He]].
      exists p. split; [exact Hp | apply pkg_equiv_sym; exact He].
Qed.

(* ---- what is NOT order independent (all by computation on concrete fragments) *)

Definition mini_target (l : label) : target :=
  mkTarget l [] [] [] [] [] [] [] (mkOut [] []) None [] [] [] [] zero_dur.
Definition mini_alias (l actual : label) : alias := mkAlias l [] actual.

Definition L (p n : string) : label := mkLabel (lit p) (lit n).

(* two files of one directory: one declares the alias //p:x, the other the target //p:x *)
Definition frag_alias_x : package := mkPkg (lit "p") [mini_target (L "p" "a")] [mini_alias (L "p" "x") (L "p" "a")].
Definition frag_target_x : package := mkPkg (lit "p") [mini_target (L "p" "x")] [].

(* LoadPackages alone (merge_all) accepts one arrival order and rejects the other: mergePackages
   does not compare the targets of the arriving file with the aliases already registered.  The
   duplicate is caught by BuildNodeMapFromPackages in both orders (load_all). *)
Lemma merge_all_order_dependent :
  exists frs frs', Permutation frs frs' /\
    (exists m, merge_all frs = Some m) /\ merge_all frs' = None /\
    load_all frs = None /\ load_all frs' = None.
Proof.
  exists [frag_alias_x; frag_target_x], [frag_target_x; frag_alias_x].
  split; [apply perm_swap|]. split; [eexists; vm_compute; reflexivity|].
  repeat split; vm_compute; reflexivity.
Qed.

(* the order of the targets inside a package, and Package.Path of a root package one of whose
   files declares nothing ("." vs ""), follow the arrival order: equality of the results is
   too strong, [pkgs_equiv] is the right comparison *)
Definition frag_root_empty : package := mkPkg (lit ".") [] [].
Definition frag_root_t : package := mkPkg [] [mini_target (L "" "t")] [].
Definition frag_root_u : package := mkPkg [] [mini_target (L "" "u")] [].

Lemma load_all_equality_refuted :
  exists frs frs' m m', Permutation frs frs' /\ load_all frs = Some m /\ load_all frs' = Some m' /\
    m <> m' /\ map p_path m <> map p_path m' /\ pkgs_equiv m m'.
Proof.
  exists [frag_root_empty; frag_root_t; frag_root_u], [frag_root_u; frag_root_t; frag_root_empty].
  eexists. eexists.
  assert (HP : Permutation [frag_root_empty; frag_root_t; frag_root_u] [frag_root_u; frag_root_t; frag_root_empty]).
  { apply (Permutation_rev [frag_root_empty; frag_root_t; frag_root_u]). }
  split; [exact HP|]. split; [vm_compute; reflexivity|]. split; [vm_compute; reflexivity|].
  split; [vm_compute; discriminate|]. split; [vm_compute; discriminate|].
  apply (proj2 (merge_order_independent _ _ HP)); vm_compute; reflexivity.
Qed.

(* non-vacuity of the order-independence theorem: both halves are inhabited *)
Definition frag_q : package := mkPkg (lit "q") [mini_target (L "q" "a")] [mini_alias (L "q" "al") (L "p" "x")].

Example merge_nonvacuous_accept :
  exists m m', load_all [frag_target_x; frag_q; frag_root_t; frag_root_u] = Some m /\
               load_all [frag_root_u; frag_q; frag_root_t; frag_target_x] = Some m' /\
               List.length m = 3 /\ m <> m' /\ pkgs_equiv m m'.
Proof.
  eexists. eexists. split; [vm_compute; reflexivity|]. split; [vm_compute; reflexivity|].
  split; [reflexivity|]. split; [vm_compute; discriminate|].
  assert (HP : Permutation [frag_target_x; frag_q; frag_root_t; frag_root_u]
                           [frag_root_u; frag_q; frag_root_t; frag_target_x]).
  { eapply Permutation_trans; [apply Permutation_rev|]. cbn [rev app].
    apply perm_skip. apply perm_swap. }
  apply (proj2 (merge_order_independent _ _ HP)); vm_compute; reflexivity.
Qed.

Example merge_nonvacuous_reject :
  load_all [frag_target_x; frag_q; frag_target_x] = None /\
  load_all [frag_q; frag_target_x; frag_target_x] = None /\
  ~ NoDup (frag_labels [frag_target_x; frag_q; frag_target_x]).
Proof.
  split; [vm_compute; reflexivity|]. split; [vm_compute; reflexivity|].
  apply load_all_none_iff. vm_compute. reflexivity.
Qed.
